(** Proofs about Model/Materialize.v (C14). *)
From Coq Require Import NArith PeanoNat Compare_dec List Bool Lia Permutation.
From Coq Require Import ZifyBool ZifyNat ZifyN.
From Snel Require Import Gen.Params Model.Materialize.
Import ListNotations.
Open Scope N_scope.

(** ** The lexicographic order on marks *)

Lemma mlt_spec : forall a b, mlt a b = true <-> (fst a < fst b \/ (fst a = fst b /\ snd a < snd b)).
Proof.
  intros [a1 a2] [b1 b2]; unfold mlt; cbn [fst snd].
  rewrite orb_true_iff, andb_true_iff, !N.ltb_lt, N.eqb_eq. tauto.
Qed.

Lemma mle_spec : forall a b, mle a b = true <-> (fst a < fst b \/ (fst a = fst b /\ snd a <= snd b)).
Proof.
  intros a b. unfold mle. rewrite negb_true_iff.
  destruct (mlt b a) eqn:E.
  - apply mlt_spec in E. split; [discriminate|]. lia.
  - split; [intros _|reflexivity].
    assert (H : ~ (fst b < fst a \/ (fst b = fst a /\ snd b < snd a))).
    { intro H. apply mlt_spec in H. congruence. }
    lia.
Qed.

Lemma mle_refl : forall a, mle a a = true.
Proof. intros a. apply mle_spec. lia. Qed.

Lemma mle_trans : forall a b c, mle a b = true -> mle b c = true -> mle a c = true.
Proof. intros a b c H1 H2. apply mle_spec in H1, H2. apply mle_spec. lia. Qed.

Lemma mlt_mle_trans : forall a b c, mlt a b = true -> mle b c = true -> mlt a c = true.
Proof. intros a b c H1 H2. apply mlt_spec in H1. apply mle_spec in H2. apply mlt_spec. lia. Qed.

Lemma mlt_mle : forall a b, mlt a b = true -> mle a b = true.
Proof. intros a b H. apply mlt_spec in H. apply mle_spec. lia. Qed.

Lemma mle_negb_mlt : forall a b, mle a b = negb (mlt b a).
Proof. reflexivity. Qed.

Lemma mark_zero_spec : forall m, mark_zero m = true <-> m = (0, 0).
Proof.
  intros [a b]. unfold mark_zero; cbn [fst snd]. rewrite andb_true_iff, !N.eqb_eq.
  split; [intros [-> ->]; reflexivity | intros H; inversion H; auto].
Qed.

Lemma max_of_ge : forall f l e, In e l -> f e <= max_of f l.
Proof.
  intros f l e. induction l as [|x l IH]; cbn [max_of fold_right In]; [tauto|].
  intros [->|H]; [lia|]. specialize (IH H). unfold max_of in IH. lia.
Qed.

Lemma max_of_lt : forall f l h, max_of f l < h -> forall e, In e l -> f e < h.
Proof. intros f l h H e Hin. pose proof (max_of_ge f l e Hin). lia. Qed.

Lemma frame_mark_ge : forall f e, In e f -> mle (ekey e) (frame_mark f) = true.
Proof.
  intros f e H. apply mle_spec. unfold ekey, frame_mark; cbn [fst snd].
  pose proof (max_of_ge e_ts f e H). pose proof (max_of_ge e_id f e H). lia.
Qed.

(** ** Lists *)

Lemma filter_filter_and : forall {A} (p r : A -> bool) l,
  filter p (filter r l) = filter (fun x => r x && p x) l.
Proof.
  intros A p r l. induction l as [|x l IH]; cbn [filter]; [reflexivity|].
  destruct (r x); cbn [filter andb]; [destruct (p x)|]; rewrite IH; reflexivity.
Qed.

Lemma filter_none : forall {A} (p : A -> bool) l, (forall x, In x l -> p x = false) -> filter p l = [].
Proof.
  intros A p l H. induction l as [|x l IH]; cbn [filter]; [reflexivity|].
  rewrite (H x (or_introl eq_refl)). apply IH. intros y Hy. apply H. right. exact Hy.
Qed.

Lemma filter_concat : forall {A} (p : A -> bool) ls, filter p (concat ls) = concat (map (filter p) ls).
Proof.
  intros A p ls. induction ls as [|l ls IH]; cbn [concat map]; [reflexivity|].
  rewrite filter_app, IH. reflexivity.
Qed.

Lemma filter_flat_map : forall {A B} (p : B -> bool) (f : A -> list B) l,
  filter p (flat_map f l) = flat_map (fun x => filter p (f x)) l.
Proof.
  intros A B p f l. induction l as [|x l IH]; cbn [flat_map]; [reflexivity|].
  rewrite filter_app, IH. reflexivity.
Qed.

Lemma concat_flat_map : forall {A B} (f : A -> list (list B)) l,
  concat (flat_map f l) = flat_map (fun x => concat (f x)) l.
Proof.
  intros A B f l. induction l as [|x l IH]; cbn [flat_map concat]; [reflexivity|].
  rewrite concat_app, IH. reflexivity.
Qed.

Lemma flat_map_ext_in : forall {A B} (f g : A -> list B) l,
  (forall x, In x l -> f x = g x) -> flat_map f l = flat_map g l.
Proof.
  intros A B f g l H. induction l as [|x l IH]; cbn [flat_map]; [reflexivity|].
  rewrite (H x (or_introl eq_refl)), IH; [reflexivity|]. intros y Hy. apply H. right. exact Hy.
Qed.

Lemma filter_split_perm : forall {A} (p : A -> bool) l,
  Permutation l (filter p l ++ filter (fun x => negb (p x)) l).
Proof.
  intros A p l. induction l as [|x l IH]; cbn [filter]; [constructor|].
  destruct (p x); cbn [negb app].
  - constructor. exact IH.
  - apply Permutation_cons_app. exact IH.
Qed.

Lemma Permutation_concat : forall {A} (l l' : list (list A)), Permutation l l' -> Permutation (concat l) (concat l').
Proof.
  intros A l l' H. induction H; cbn [concat].
  - constructor.
  - apply Permutation_app_head. assumption.
  - rewrite !app_assoc. apply Permutation_app_tail. apply Permutation_app_comm.
  - eapply perm_trans; eassumption.
Qed.

(** ** What a streaming query delivers *)

Lemma in_content : forall l e, In e (content l) <->
  exists s, In s l /\ (In e (s_mem s) \/ exists g, In g (s_segs s) /\ In e (seg_events g)).
Proof.
  intros l e. unfold content. rewrite in_flat_map. split.
  - intros [s [Hs He]]. exists s. split; [exact Hs|]. unfold shard_events in He.
    apply in_app_or in He. destruct He as [He|He]; [left; exact He|right].
    apply in_flat_map in He. exact He.
  - intros [s [Hs [He|[g [Hg He]]]]]; exists s; split; try exact Hs; unfold shard_events; apply in_or_app.
    + left. exact He.
    + right. apply in_flat_map. exists g. split; assumption.
Qed.

Lemma matches_at_core : forall d q e, q_tf q = TCore -> matches_at d q e = matches q e.
Proof.
  intros d q e H. unfold matches, matches_at, since_blind. rewrite H. rewrite !andb_false_r. reflexivity.
Qed.

Lemma filter_matches_at_core : forall d q l, q_tf q = TCore -> filter (matches_at d q) l = filter (matches q) l.
Proof. intros d q l H. apply filter_ext. intros e. apply matches_at_core. exact H. Qed.

Lemma concat_sources_none : forall q l, q_tf q = TCore ->
  concat (sources None q l) = filter (matches q) (content l).
Proof.
  intros q l Hc. unfold sources, content. rewrite concat_flat_map, filter_flat_map.
  apply flat_map_ext_in. intros s _. unfold shard_sources, shard_events. cbn [concat].
  rewrite app_nil_r, filter_app. f_equal.
  rewrite filter_flat_map. apply flat_map_ext_in. intros g _.
  unfold seg_rows, seg_stale, seg_events. rewrite filter_concat, <- flat_map_concat_map.
  apply flat_map_ext_in. intros z _. cbn [zone_kept]. apply filter_matches_at_core. exact Hc.
Qed.

(** with the materialisation guard: among the rows a predicate [p] lets through, nothing is pruned, provided [p]
    accepts only rows whose CORE timestamp is at least the guard's timestamp (the watermark filter does) and no
    segment file is more than a second older than an event it holds *)
Lemma filter_sources_guard : forall (p : event -> bool) h q l,
  q_tf q = TCore ->
  mtime_bad l = false ->
  (forall e, p e = true -> h <= e_ts e) ->
  filter p (concat (sources (Some h) q l)) = filter p (filter (matches q) (content l)).
Proof.
  intros p h q l Hc Hm Hp. unfold sources, content. rewrite concat_flat_map, !filter_flat_map.
  apply flat_map_ext_in. intros s Hs. unfold shard_sources, shard_events. cbn [concat].
  rewrite app_nil_r, !filter_app. f_equal.
  rewrite !filter_flat_map. apply flat_map_ext_in. intros g Hg.
  assert (Hgood : forall e, In e (seg_events g) -> e_ts e <= g_mtime g + 1).
  { intros e He. unfold mtime_bad in Hm.
    destruct (g_mtime g + mat_stale_slack <? e_ts e) eqn:E; [|unfold mat_stale_slack in E; lia].
    exfalso. assert (X : existsb (fun s => existsb seg_time_bad (s_segs s)) l = true).
    { apply existsb_exists. exists s. split; [exact Hs|]. apply existsb_exists. exists g. split; [exact Hg|].
      unfold seg_time_bad. apply existsb_exists. exists e. split; assumption. }
    congruence. }
  unfold seg_rows, seg_stale, mat_stale_cmp, mat_stale_slack.
  destruct (g_mtime g <? h - 1) eqn:Est.
  - cbn [filter]. symmetry. rewrite filter_filter_and. apply filter_none. intros e He. specialize (Hgood e He).
    destruct (p e) eqn:P; [|apply andb_false_r]. specialize (Hp e P). lia.
  - unfold seg_events. rewrite filter_flat_map.
    rewrite (filter_concat (matches q)), (filter_concat p), map_map, <- flat_map_concat_map.
    apply flat_map_ext_in. intros z Hz. unfold zone_kept, zone_tsmax, mat_zone_drop.
    destruct (max_of e_ts z <? h) eqn:Ez; cbn [negb].
    + cbn [filter]. symmetry. rewrite filter_filter_and. apply filter_none. intros e He.
      destruct (p e) eqn:P; [|apply andb_false_r]. specialize (Hp e P).
      pose proof (max_of_ge e_ts z e He). lia.
    + rewrite filter_matches_at_core by exact Hc. reflexivity.
Qed.

(** ** Arrival orders *)

Lemma memN_In : forall k ks, memN k ks = true <-> In k ks.
Proof.
  intros k ks. unfold memN. rewrite existsb_exists. split.
  - intros [x [Hx E]]. apply N.eqb_eq in E. subst. exact Hx.
  - intros H. exists k. split; [exact H|apply N.eqb_refl].
Qed.

Lemma nodupN_NoDup : forall l, nodupN l = true <-> NoDup l.
Proof.
  induction l as [|x l IH]; cbn [nodupN].
  - split; [constructor|reflexivity].
  - rewrite andb_true_iff, negb_true_iff, IH. split.
    + intros [H1 H2]. constructor; [|exact H2]. intro Hin. apply memN_In in Hin. congruence.
    + intros H. inversion H as [|? ? Hn Hd]; subst. split; [|exact Hd].
      destruct (memN x l) eqn:E; [|reflexivity]. apply memN_In in E. contradiction.
Qed.

Lemma map_nth_seq : forall {A} (l : list A) d, map (fun i => nth i l d) (seq 0 (length l)) = l.
Proof.
  intros A l d. induction l as [|x l IH]; cbn [length seq map nth]; [reflexivity|].
  f_equal. rewrite <- seq_shift, map_map. exact IH.
Qed.

Lemma concat_map_drop_empty : forall {A B} (f : A -> list B) l,
  concat (map f l) = concat (map f (filter (fun x => nonempty (f x)) l)).
Proof.
  intros A B f l. induction l as [|x l IH]; cbn [map concat filter]; [reflexivity|].
  destruct (f x) eqn:E; cbn [nonempty].
  - cbn [app]. exact IH.
  - cbn [map concat]. rewrite E, IH. reflexivity.
Qed.

Lemma valid_order_perm : forall bs ord,
  valid_order bs ord = true -> Permutation (concat (frames_of bs ord)) (concat bs).
Proof.
  intros bs ord H. unfold valid_order in H. apply andb_true_iff in H. destruct H as [H H3].
  apply andb_true_iff in H. destruct H as [H1 H2].
  apply nodupN_NoDup in H1. rewrite forallb_forall in H2, H3.
  set (f := fun i : nat => nth i bs ([] : list event)).
  set (keep := filter (fun i => nonempty (f i)) (seq 0 (length bs))).
  assert (E1 : concat bs = concat (map f keep)).
  { rewrite <- (map_nth_seq bs []) at 1. fold f. apply concat_map_drop_empty. }
  assert (E2 : frames_of bs ord = map f (map N.to_nat ord)).
  { unfold frames_of. rewrite map_map. reflexivity. }
  rewrite E1, E2. apply Permutation_concat. apply Permutation_map.
  apply NoDup_Permutation.
  - apply FinFun.Injective_map_NoDup; [|exact H1]. intros a b Hab. lia.
  - apply NoDup_filter. apply seq_NoDup.
  - intros i. unfold keep. rewrite filter_In, in_seq, in_map_iff. split.
    + intros [j [<- Hj]]. specialize (H2 j Hj). unfold lenN in H2.
      assert (Hlt : (N.to_nat j < length bs)%nat) by lia.
      split; [lia|].
      assert (Hs : In j (seqN (length bs))).
      { unfold seqN. apply in_map_iff. exists (N.to_nat j). split; [lia|]. apply in_seq. lia. }
      specialize (H3 j Hs). apply eqb_prop in H3. unfold nthN in H3. unfold f. rewrite H3. apply memN_In. exact Hj.
    + intros [[_ Hlt] Hne]. exists (N.of_nat i). split; [lia|].
      assert (Hs : In (N.of_nat i) (seqN (length bs))).
      { unfold seqN. apply in_map. apply in_seq. lia. }
      specialize (H3 _ Hs). apply eqb_prop in H3. unfold nthN in H3. rewrite Nnat.Nat2N.id in H3.
      unfold f in Hne. rewrite Hne in H3. symmetry in H3. apply memN_In in H3. exact H3.
Qed.

Lemma valid_order_nonempty : forall bs ord f,
  valid_order bs ord = true -> In f (frames_of bs ord) -> f <> [].
Proof.
  intros bs ord f H Hin. unfold valid_order in H. apply andb_true_iff in H. destruct H as [H H3].
  apply andb_true_iff in H. destruct H as [H1 H2]. rewrite forallb_forall in H2, H3.
  unfold frames_of in Hin. apply in_map_iff in Hin. destruct Hin as [j [<- Hj]].
  specialize (H2 j Hj). unfold lenN in H2.
  assert (Hs : In j (seqN (length bs))).
  { unfold seqN. apply in_map_iff. exists (N.to_nat j). split; [lia|]. apply in_seq. lia. }
  specialize (H3 j Hs). apply eqb_prop in H3.
  assert (M : memN j ord = true) by (apply memN_In; exact Hj). rewrite M in H3.
  destruct (nthN bs j []); [discriminate|discriminate].
Qed.

Lemma frames_of_in : forall bs ord f e, In f (frames_of bs ord) -> In e f -> In e (concat bs).
Proof.
  intros bs ord f e Hf He. unfold frames_of in Hf. apply in_map_iff in Hf. destruct Hf as [j [<- _]].
  unfold nthN in He. apply in_concat. exists (nth (N.to_nat j) bs []). split; [|exact He].
  destruct (le_lt_dec (length bs) (N.to_nat j)) as [Hl|Hl].
  - rewrite nth_overflow in He by exact Hl. contradiction.
  - apply nth_In. exact Hl.
Qed.

(** ** Events, keys, layouts *)

Lemma event_eqb_eq : forall a b, event_eqb a b = true <-> a = b.
Proof.
  intros [k1 t1 p1 i1 c1 v1 y1] [k2 t2 p2 i2 c2 v2 y2]. unfold event_eqb; cbn [e_k e_ts e_pt e_id e_ctx e_v e_type].
  rewrite !andb_true_iff, !N.eqb_eq. split.
  - intros [[[[[[-> ->] ->] ->] ->] ->] ->]. reflexivity.
  - intros H. inversion H. tauto.
Qed.

Lemma in_events_In : forall e l, in_events e l = true <-> In e l.
Proof.
  intros e l. unfold in_events. rewrite existsb_exists. split.
  - intros [x [Hx E]]. apply event_eqb_eq in E. subst. exact Hx.
  - intros H. exists e. split; [exact H|apply event_eqb_eq; reflexivity].
Qed.

Definition layout_ok (l : layout) : Prop :=
  dup_content l = false /\ mtime_bad l = false /\ zero_id l = false.

Lemma layout_ok_nodup : forall l, layout_ok l -> NoDup (content l).
Proof.
  intros l [H _]. unfold dup_content in H. apply orb_false_iff in H. destruct H as [H _].
  apply negb_false_iff in H. apply nodupN_NoDup in H. eapply NoDup_map_inv. exact H.
Qed.

Lemma layout_ok_nodup_keys : forall l, layout_ok l -> NoDup (map e_k (content l)).
Proof.
  intros l [H _]. unfold dup_content in H. apply orb_false_iff in H. destruct H as [H _].
  apply negb_false_iff in H. apply nodupN_NoDup in H. exact H.
Qed.

Lemma layout_ok_pos : forall l e, layout_ok l -> In e (content l) -> mlt (0, 0) (ekey e) = true.
Proof.
  intros l e [_ [_ H]] Hin. unfold zero_id in H.
  assert (X : (e_id e =? 0) = false).
  { destruct (e_id e =? 0) eqn:E; [|reflexivity]. exfalso.
    assert (Y : existsb (fun e => e_id e =? 0) (content l) = true) by (apply existsb_exists; exists e; auto).
    congruence. }
  apply mlt_spec. unfold ekey; cbn [fst snd]. lia.
Qed.

(** ** The invariant *)

Definition core_q (q : query) : Prop := q_tf q = TCore /\ q_limit q = None.

Definition below (q : query) (m : mark) (e : event) : bool := matches q e && mle (ekey e) m.
Definition above (q : query) (m : mark) (e : event) : bool := matches q e && mlt m (ekey e).

(** stored rows = the matching events at or below the mark *)
Definition entry_inv (l : layout) (en : entry) : Prop :=
  core_q (n_q en) /\
  Permutation (concat (n_frames en)) (filter (below (n_q en) (frames_mark (n_frames en))) (content l)) /\
  (* the catalog entry's mark never runs ahead of the store's *)
  mle (n_cat en) (frames_mark (n_frames en)) = true.

Definition Inv (st : state) : Prop :=
  layout_ok (st_layout st) /\
  forall name en, In (name, en) (st_entries st) -> entry_inv (st_layout st) en.

Lemma sel_split : forall q m l,
  Permutation (sel q l) (filter (below q m) (content l) ++ filter (above q m) (content l)).
Proof.
  intros q m l. unfold sel.
  eapply perm_trans; [apply (filter_split_perm (fun e => mle (ekey e) m))|].
  rewrite !filter_filter_and. apply Permutation_app; apply Permutation_refl'; apply filter_ext; intros e;
    unfold below, above, mle; [reflexivity|rewrite negb_involutive; reflexivity].
Qed.

(** the delta query on the core timestamp: SINCE raised to the catalog mark [c] (at most the store's mark [m])
    and the watermark filter against [m] together select the matching events above [m] *)
Lemma delta_core : forall q c m e, q_tf q = TCore -> mle c m = true ->
  matches (delta_query q c) e && wm_pass q m e = above q m e.
Proof.
  intros q c m e Hc Hcm. unfold above, wm_pass, mat_wm_strict, delta_query, tfval. rewrite Hc.
  destruct (mark_zero c) eqn:Z; [reflexivity|].
  unfold matches, matches_at, since_blind, tfval; cbn [q_ctx q_where q_since q_tf andb]. rewrite Hc. fold (ekey e).
  destruct (mlt m (ekey e)) eqn:L; [|rewrite !andb_false_r; reflexivity].
  rewrite !andb_true_r. f_equal.
  apply mlt_spec in L. apply mle_spec in Hcm. unfold ekey in L; cbn [fst snd] in L.
  destruct (q_since q) as [s|].
  - destruct (s <? fst c) eqn:E; [|reflexivity]. lia.
  - lia.
Qed.

Lemma wm_pass_ge : forall q m e, q_tf q = TCore -> wm_pass q m e = true -> fst m <= e_ts e.
Proof.
  intros q m e Hc. unfold wm_pass, mat_wm_strict, tfval. rewrite Hc. intros H. apply mlt_spec in H.
  cbn [fst snd] in H. lia.
Qed.

Lemma delta_rows : forall q fs c l, q_tf q = TCore -> mtime_bad l = false ->
  mle c (frames_mark fs) = true ->
  let m := frames_mark fs in
  concat (map (show_filter q m) (delta_batches q fs c l))
  = filter (above q m) (content l).
Proof.
  intros q fs c l Hc Hm Hcm m. unfold show_filter, wm_enabled, delta_batches.
  change (filter_mark fs c) with (frames_mark fs). change (since_mark fs c) with c. rewrite Hc.
  assert (Hc' : q_tf (delta_query q c) = TCore).
  { unfold delta_query. destruct (mark_zero c); [exact Hc|exact Hc]. }
  rewrite <- filter_concat. fold m.
  rewrite filter_sources_guard; [|exact Hc'|exact Hm|intros e; apply wm_pass_ge; exact Hc].
  rewrite filter_filter_and. apply filter_ext. intros e. apply delta_core; assumption.
Qed.

(** ** The mark of a store: the maximum over its frames (sink.rs after c71d768, [mat_sink_mark_last = false]) *)

Lemma mle_zero : forall m, mle (0, 0) m = true.
Proof. intros m. apply mle_spec. cbn [fst snd]. lia. Qed.

Lemma mark_max_ge_l : forall a b, mle a (mark_max a b) = true.
Proof. intros a b. unfold mark_max. destruct (mlt a b) eqn:E; [apply mlt_mle; exact E|apply mle_refl]. Qed.

Lemma mark_max_ge_r : forall a b, mle b (mark_max a b) = true.
Proof.
  intros a b. unfold mark_max. destruct (mlt a b) eqn:E; [apply mle_refl|]. unfold mle. rewrite E. reflexivity.
Qed.

Definition fold_mark (z : mark) (fs : list (list event)) : mark :=
  fold_left (fun m f => mark_max m (frame_mark f)) fs z.

Lemma frames_mark_fold : forall fs, frames_mark fs = fold_mark (0, 0) fs.
Proof. reflexivity. Qed.

Lemma fold_mark_ge_start : forall fs z, mle z (fold_mark z fs) = true.
Proof.
  induction fs as [|f fs IH]; intros z; cbn [fold_mark fold_left]; [apply mle_refl|].
  eapply mle_trans; [apply mark_max_ge_l|apply IH].
Qed.

Lemma fold_mark_ge_frame : forall fs z f, In f fs -> mle (frame_mark f) (fold_mark z fs) = true.
Proof.
  induction fs as [|g fs IH]; intros z f; cbn [fold_mark fold_left In]; [tauto|].
  intros [->|H]; [|apply IH; exact H].
  eapply mle_trans; [apply mark_max_ge_r|apply fold_mark_ge_start].
Qed.

Lemma fold_mark_attained : forall fs z, fold_mark z fs = z \/ exists f, In f fs /\ fold_mark z fs = frame_mark f.
Proof.
  induction fs as [|g fs IH]; intros z; cbn [fold_mark fold_left]; [left; reflexivity|].
  destruct (IH (mark_max z (frame_mark g))) as [E|[f [Hf E]]].
  - unfold fold_mark in E. rewrite E. unfold mark_max. destruct (mlt z (frame_mark g)).
    + right. exists g. split; [left; reflexivity|reflexivity].
    + left. reflexivity.
  - right. exists f. split; [right; exact Hf|exact E].
Qed.

(** the mark is at least the mark of every frame … *)
Lemma frames_mark_ge_frame : forall fs f, In f fs -> mle (frame_mark f) (frames_mark fs) = true.
Proof. intros fs f H. rewrite frames_mark_fold. apply fold_mark_ge_frame. exact H. Qed.

(** … hence at least every stored row, whatever the order in which the frames were appended *)
Lemma frames_mark_ge_row : forall fs f e, In f fs -> In e f -> mle (ekey e) (frames_mark fs) = true.
Proof.
  intros fs f e Hf He. eapply mle_trans; [apply frame_mark_ge; exact He|apply frames_mark_ge_frame; exact Hf].
Qed.

Lemma last_dominates_true : forall fs, last_dominates fs = true.
Proof.
  intros fs. unfold last_dominates. apply forallb_forall. intros e He. apply in_concat in He.
  destruct He as [f [Hf He]]. eapply frames_mark_ge_row; eassumption.
Qed.

(** … and it is the mark of one of the frames (or (0,0)) *)
Lemma frames_mark_attained : forall fs, frames_mark fs = (0, 0) \/ exists f, In f fs /\ frames_mark fs = frame_mark f.
Proof. intros fs. rewrite frames_mark_fold. apply fold_mark_attained. Qed.

Lemma frames_mark_mono : forall fs ap, mle (frames_mark fs) (frames_mark (fs ++ ap)) = true.
Proof.
  intros fs ap. destruct (frames_mark_attained fs) as [E|[f [Hf E]]]; rewrite E; [apply mle_zero|].
  apply frames_mark_ge_frame. apply in_or_app. left. exact Hf.
Qed.

Lemma mlt_not_mle : forall a b, mlt a b = true -> mle b a = false.
Proof. intros a b H. unfold mle. rewrite H. reflexivity. Qed.

Lemma mle_mlt_trans : forall a b c, mle a b = true -> mlt b c = true -> mlt a c = true.
Proof. intros a b c H1 H2. apply mle_spec in H1. apply mlt_spec in H2. apply mlt_spec. lia. Qed.

Lemma lookup_app_none : forall name es n en,
  lookup name es = None -> lookup n (es ++ [(name, en)]) = if name =? n then Some en else lookup n es.
Proof.
  intros name es n en. induction es as [|[a b] r IH]; cbn [lookup app]; intros H.
  - reflexivity.
  - destruct (a =? name) eqn:E1; [discriminate|]. specialize (IH H).
    destruct (a =? n) eqn:E2.
    + apply N.eqb_eq in E2. subst. rewrite N.eqb_sym, E1. reflexivity.
    + exact IH.
Qed.

Lemma lookup_update : forall name en es n,
  lookup n (update name en es) = if n =? name then (match lookup name es with Some _ => Some en | None => None end) else lookup n es.
Proof.
  intros name en es n. induction es as [|[a b] r IH]; cbn [lookup update].
  - destruct (n =? name); reflexivity.
  - destruct (a =? name) eqn:E1; cbn [lookup].
    + apply N.eqb_eq in E1. subst. destruct (name =? n) eqn:E2.
      * rewrite N.eqb_sym, E2. reflexivity.
      * rewrite N.eqb_sym, E2. reflexivity.
    + destruct (a =? n) eqn:E2.
      * apply N.eqb_eq in E2. subst. rewrite E1. reflexivity.
      * exact IH.
Qed.

(** ** Steps preserve the invariant *)

Definition good_op (st : state) (o : op) : Prop :=
  classes_of st o = [] /\
  match o with OSetLayout l => keeps_events st l = true /\ zero_id l = false | _ => True end.

Inductive reach : state -> Prop :=
| reach_init : reach init
| reach_step : forall st o, reach st -> good_op st o -> reach (fst (step st o)).

Lemma if_app_nil : forall {A} (b : bool) (x : A) r, (if b then [x] else []) ++ r = [] -> b = false /\ r = [].
Proof. intros A [] x r H; [discriminate|split; [reflexivity|exact H]]. Qed.

Lemma below_filter_grow : forall q m l l',
  NoDup (content l) -> NoDup (content l') ->
  (forall e, In e (content l) -> In e (content l')) ->
  (forall e, In e (content l') -> ~ In e (content l) -> below q m e = false) ->
  Permutation (filter (below q m) (content l)) (filter (below q m) (content l')).
Proof.
  intros q m l l' N1 N2 Hsub Hnew. apply NoDup_Permutation; try (apply NoDup_filter; assumption).
  intros e. rewrite !filter_In. split.
  - intros [H1 H2]. split; [apply Hsub; exact H1|exact H2].
  - intros [H1 H2]. split; [|exact H2].
    destruct (in_events e (content l)) eqn:E; [apply in_events_In; exact E|].
    exfalso. assert (X : ~ In e (content l)) by (intro Y; apply in_events_In in Y; congruence).
    rewrite (Hnew e H1 X) in H2. discriminate.
Qed.

Lemma lookup_In : forall name es en, lookup name es = Some en -> In (name, en) es.
Proof.
  intros name es en. induction es as [|[a b] r IH]; cbn [lookup]; [discriminate|].
  destruct (a =? name) eqn:E.
  - apply N.eqb_eq in E. intros H. inversion H; subst. left. reflexivity.
  - intros H. right. apply IH. exact H.
Qed.

Lemma update_In : forall name en es n e, In (n, e) (update name en es) -> In (n, e) es \/ (n = name /\ e = en).
Proof.
  intros name en es n e. induction es as [|[a b] r IH]; cbn [update]; [intros []|].
  destruct (a =? name) eqn:E.
  - apply N.eqb_eq in E. subst a. intros [H|H]; [inversion H; subst; right; auto|left; right; exact H].
  - intros [H|H]; [left; left; exact H|]. destruct (IH H) as [H'|H']; [left; right; exact H'|right; exact H'].
Qed.

Lemma inv_setlayout : forall st l, Inv st -> good_op st (OSetLayout l) -> Inv (fst (step st (OSetLayout l))).
Proof.
  intros st l [Hl Hen] [Hc [Hk Hz]]. cbn [classes_of] in Hc.
  apply if_app_nil in Hc. destruct Hc as [Hd Hc]. apply if_app_nil in Hc. destruct Hc as [Hm Hc].
  assert (Hlate : some_late st l = false) by (destruct (some_late st l); [discriminate|reflexivity]).
  assert (Hl' : layout_ok l) by (split; [exact Hd|split; [exact Hm|exact Hz]]).
  cbn [step fst st_layout st_entries]. split; [exact Hl'|].
  intros name en Hlk. specialize (Hen name en Hlk). destruct Hen as [Hq [Hp Hcat]]. split; [exact Hq|].
  split; [|exact Hcat].
  eapply perm_trans; [exact Hp|]. apply below_filter_grow.
  - apply layout_ok_nodup. exact Hl.
  - apply layout_ok_nodup. exact Hl'.
  - intros e He. unfold keeps_events in Hk. rewrite forallb_forall in Hk. apply in_events_In. apply Hk. exact He.
  - intros e He Hn. unfold some_late in Hlate.
    destruct (below (n_q en) (frames_mark (n_frames en)) e) eqn:B; [|reflexivity]. exfalso.
    assert (X : existsb (fun ne => late_for (snd ne) (content (st_layout st)) (content l)) (st_entries st) = true).
    { apply existsb_exists. exists (name, en). split.
      - exact Hlk.
      - cbn [snd]. unfold late_for. apply existsb_exists. exists e. split; [exact He|].
        unfold below in B. apply andb_true_iff in B. destruct B as [B1 B2]. rewrite B1, B2.
        destruct (in_events e (content (st_layout st))) eqn:E; [apply in_events_In in E; contradiction|reflexivity]. }
    congruence.
Qed.

Lemma inv_remember : forall st name q ch, Inv st -> good_op st (ORemember name q ch) ->
  Inv (fst (step st (ORemember name q ch))).
Proof.
  intros st name q ch [Hl Hen] [Hc _]. cbn [classes_of step] in *.
  destruct (lookup name (st_entries st)) eqn:Lk; [split; assumption|].
  destruct (q_tf q) eqn:Htf; [|discriminate]. cbn [app] in Hc.
  destruct (q_limit q) eqn:Hlim; [discriminate|]. cbn [app] in Hc.
  destruct (remember_frames q (st_layout st) ch) as [fs|] eqn:R; [|split; assumption].
  pose proof (last_dominates_true fs) as Ld.
  cbn [fst st_layout st_entries]. split; [exact Hl|].
  intros n en Hlk. cbn [st_entries st_layout] in Hlk |- *. apply in_app_or in Hlk.
  destruct Hlk as [Hlk|[Hlk|[]]]; [apply Hen with n; exact Hlk|].
  inversion Hlk; subst n en; clear Hlk. split; [split; assumption|]. cbn [n_q n_frames n_cat].
  split; [|apply mle_refl].
  unfold remember_frames in R. rewrite Hlim in R.
  destruct (valid_order (sources None q (st_layout st)) (map fst ch)) eqn:V; [|discriminate].
  inversion R; subst fs; clear R.
  eapply perm_trans; [apply valid_order_perm; exact V|].
  rewrite concat_sources_none by exact Htf. apply Permutation_refl'. apply filter_ext_in.
  intros e He. unfold below. destruct (matches q e) eqn:M; [|reflexivity]. cbn [andb]. symmetry.
  unfold last_dominates in Ld. rewrite forallb_forall in Ld. apply Ld.
  eapply Permutation_in; [apply Permutation_sym; apply valid_order_perm; exact V|].
  rewrite concat_sources_none by exact Htf. apply filter_In. split; assumption.
Qed.

Lemma Permutation_filter : forall {A} (p : A -> bool) l l', Permutation l l' -> Permutation (filter p l) (filter p l').
Proof.
  intros A p l l' H. induction H; cbn [filter].
  - constructor.
  - destruct (p x); [constructor|]; assumption.
  - destruct (p x), (p y); try apply Permutation_refl. apply perm_swap.
  - eapply perm_trans; eassumption.
Qed.

Lemma filter_all : forall {A} (p : A -> bool) l, (forall x, In x l -> p x = true) -> filter p l = l.
Proof.
  intros A p l H. induction l as [|x l IH]; cbn [filter]; [reflexivity|].
  rewrite (H x (or_introl eq_refl)). f_equal. apply IH. intros y Hy. apply H. right. exact Hy.
Qed.

(** the heart: frames [ap] are appended to a store satisfying the invariant; [ap] and [rest] together are the
    matching events above the old mark, nothing of [rest] is at or below the mark of [ap]: the invariant holds again,
    and the mark did not move down.  No condition on the order of the frames: the mark is their maximum. *)
Lemma append_frames_inv : forall l q fs ap rest,
  Permutation (concat fs) (filter (below q (frames_mark fs)) (content l)) ->
  Permutation (concat ap ++ concat rest) (filter (above q (frames_mark fs)) (content l)) ->
  strands ap rest = false ->
  Permutation (concat (fs ++ ap)) (filter (below q (frames_mark (fs ++ ap))) (content l))
  /\ mle (frames_mark fs) (frames_mark (fs ++ ap)) = true.
Proof.
  intros l q fs ap rest Hp Hd Hst.
  set (m := frames_mark fs) in *. set (m' := frames_mark (fs ++ ap)).
  assert (Hmm : mle m m' = true) by apply frames_mark_mono.
  split; [|exact Hmm].
  assert (Hap : forall e, In e (concat ap) -> mle (ekey e) m' = true).
  { intros e He. apply in_concat in He. destruct He as [f [Hf He]].
    eapply frames_mark_ge_row; [apply in_or_app; right; exact Hf|exact He]. }
  assert (Habove : forall e, In e (concat ap ++ concat rest) -> mlt m (ekey e) = true).
  { intros e He. eapply Permutation_in in He; [|exact Hd]. apply filter_In in He. destruct He as [_ Ha].
    unfold above in Ha. apply andb_true_iff in Ha. apply Ha. }
  assert (Hrest : forall e, In e (concat rest) -> mle (ekey e) m' = false).
  { intros e He. apply mlt_not_mle.
    assert (Hm : mlt m (ekey e) = true) by (apply Habove; apply in_or_app; right; exact He).
    destruct (frames_mark_attained (fs ++ ap)) as [E|[f [Hf E]]]; fold m' in E; rewrite E.
    - eapply mle_mlt_trans; [apply mle_zero|exact Hm].
    - apply in_app_or in Hf. destruct Hf as [Hf|Hf].
      + eapply mle_mlt_trans; [apply frames_mark_ge_frame; exact Hf|exact Hm].
      + (* a frame of [ap]: [ap] is not empty, nothing of [rest] is at or below its mark *)
        unfold strands in Hst. destruct ap as [|a0 r0]; [destruct Hf|]. cbn [nonempty andb] in Hst.
        assert (X : mle (ekey e) (frames_mark (a0 :: r0)) = false).
        { destruct (mle (ekey e) (frames_mark (a0 :: r0))) eqn:Y; [|reflexivity]. exfalso.
          assert (Z : existsb (fun e => mle (ekey e) (frames_mark (a0 :: r0))) (concat rest) = true)
            by (apply existsb_exists; exists e; split; assumption).
          congruence. }
        unfold mle in X. apply negb_false_iff in X.
        eapply mle_mlt_trans; [apply frames_mark_ge_frame; exact Hf|exact X]. }
  rewrite concat_app.
  eapply perm_trans; [|apply Permutation_sym; apply (filter_split_perm (fun e => mle (ekey e) m))].
  rewrite !filter_filter_and. apply Permutation_app.
  + eapply perm_trans; [exact Hp|]. apply Permutation_refl'. apply filter_ext. intros e. unfold below.
    destruct (matches q e); [|reflexivity]. cbn [andb].
    destruct (mle (ekey e) m) eqn:X; [|rewrite andb_false_r; reflexivity].
    fold m'. rewrite (mle_trans _ _ _ X Hmm). reflexivity.
  + (* the matching events above the old mark and at or below the new one are exactly [ap] *)
    assert (E : filter (fun e => below q m' e && negb (mle (ekey e) m)) (content l)
                = filter (fun e => mle (ekey e) m') (filter (above q m) (content l))).
    { rewrite filter_filter_and. apply filter_ext. intros e. unfold below, above, mle.
      rewrite negb_involutive. destruct (matches q e); cbn [andb]; [|reflexivity]. apply andb_comm. }
    fold m'. rewrite E.
    eapply perm_trans; [|apply Permutation_filter; exact Hd].
    rewrite filter_app, (filter_all _ (concat ap)) by exact Hap.
    rewrite (filter_none _ (concat rest)) by exact Hrest. rewrite app_nil_r. apply Permutation_refl.
Qed.

Lemma cat_after_le : forall c m m2, mle c m = true -> mle m m2 = true -> mle (cat_after c m m2) m2 = true.
Proof.
  intros c m m2 H1 H2. unfold cat_after. destruct (mark_zero m2); [eapply mle_trans; eassumption|].
  destruct (mark_eqb m2 m); [eapply mle_trans; eassumption|apply mle_refl].
Qed.

(** one completed SHOW of an entry satisfying the invariant *)
Lemma show_step : forall l en ch nf,
  layout_ok l -> entry_inv l en ->
  show_frames (n_q en) (n_frames en) (n_cat en) l ch = Some nf ->
  Permutation (show_output (n_q en) (n_frames en) nf) (sel (n_q en) l)
  /\ entry_inv l (mkEntry (n_q en) (n_frames en ++ nf)
                    (cat_after (n_cat en) (frames_mark (n_frames en)) (frames_mark (n_frames en ++ nf))))
  /\ Permutation (concat nf) (filter (above (n_q en) (frames_mark (n_frames en))) (content l)).
Proof.
  intros l [q fs c] ch nf Hl [[Htf Hlim] [Hp Hcat]] Hs. cbn [n_q n_frames n_cat] in *.
  unfold show_frames in Hs. change (filter_mark fs c) with (frames_mark fs) in Hs. rewrite Hlim in Hs.
  set (m := frames_mark fs) in *.
  set (fbs := map (show_filter q m) (delta_batches q fs c l)) in *.
  destruct (valid_order fbs (map fst ch)) eqn:V; [|discriminate]. inversion Hs; subst nf; clear Hs.
  assert (Hd : Permutation (concat (frames_of fbs (map fst ch))) (filter (above q m) (content l))).
  { eapply perm_trans; [apply valid_order_perm; exact V|]. unfold fbs, m.
    rewrite delta_rows; [apply Permutation_refl|exact Htf|apply Hl|exact Hcat]. }
  split; [|split; [|exact Hd]].
  - unfold show_output, apply_limit, wm_enabled. rewrite Htf, Hlim.
    eapply perm_trans; [|apply Permutation_sym; apply (sel_split q m l)].
    apply Permutation_app; assumption.
  - destruct (append_frames_inv l q fs (frames_of fbs (map fst ch)) [] Hp) as [Hinv Hle].
    + cbn [concat]. rewrite app_nil_r. exact Hd.
    + unfold strands. cbn [concat existsb]. apply andb_false_r.
    + split; [split; assumption|]. cbn [n_q n_frames n_cat]. split; [exact Hinv|].
      apply cat_after_le; assumption.
Qed.

Lemma inv_show : forall st name ch, Inv st -> good_op st (OShow name ch) -> Inv (fst (step st (OShow name ch))).
Proof.
  intros st name ch [Hl Hen] [Hc _]. cbn [classes_of step] in *.
  destruct (lookup name (st_entries st)) as [en|] eqn:Lk; [|split; assumption].
  destruct (show_frames (n_q en) (n_frames en) (n_cat en) (st_layout st) ch) as [nf|] eqn:S; [|split; assumption].
  destruct (show_step _ _ _ _ Hl (Hen _ _ (lookup_In _ _ _ Lk)) S) as [_ [Hinv _]].
  cbn [fst st_layout st_entries]. split; [exact Hl|].
  intros n en' Hlk. cbn [st_entries st_layout] in Hlk |- *. apply update_In in Hlk.
  destruct Hlk as [Hlk|[_ Hlk]]; [apply Hen with n; exact Hlk|subst en'; exact Hinv].
Qed.

(** ** An interrupted SHOW *)

Lemma seqN_In : forall n j, In j (seqN n) <-> j < N.of_nat n.
Proof.
  intros n j. unfold seqN. rewrite in_map_iff. split.
  - intros [i [<- Hi]]. apply in_seq in Hi. lia.
  - intros H. exists (N.to_nat j). split; [lia|]. apply in_seq. lia.
Qed.

Lemma seqN_NoDup : forall n, NoDup (seqN n).
Proof. intros n. unfold seqN. apply FinFun.Injective_map_NoDup; [intros a b H; lia|apply seq_NoDup]. Qed.

Lemma concat_nthN_seqN : forall (bs : list (list event)),
  concat bs = concat (map (fun j => nthN bs j []) (seqN (length bs))).
Proof.
  intros bs. unfold seqN, nthN. rewrite map_map.
  transitivity (concat (map (fun i => nth i bs ([] : list event)) (seq 0 (length bs)))).
  - rewrite map_nth_seq. reflexivity.
  - apply (f_equal (@concat event)). apply map_ext. intros i. rewrite Nnat.Nat2N.id. reflexivity.
Qed.

Lemma concat_rest_of : forall (fbs : list (list event)) ord js,
  concat (flat_map (fun j => if memN j ord then [] else let b := nthN fbs j [] in if nonempty b then [b] else []) js)
  = concat (map (fun j => nthN fbs j []) (filter (fun j => negb (memN j ord)) js)).
Proof.
  intros fbs ord js.
  remember (fun j => if memN j ord then [] else let b := nthN fbs j [] in if nonempty b then [b] else []) as F eqn:EF.
  induction js as [|j js IH]; [reflexivity|].
  cbn [flat_map filter]. rewrite concat_app, IH. subst F. cbv beta.
  destruct (memN j ord); cbn [negb map concat app]; [reflexivity|].
  f_equal. destruct (nthN fbs j []); cbn [nonempty concat]; [reflexivity|apply app_nil_r].
Qed.

(** the appended frames and the left-out ones are, together, the delta *)
Lemma valid_prefix_split : forall fbs ord, valid_prefix fbs ord = true ->
  Permutation (concat (frames_of fbs ord) ++ concat (rest_of fbs ord)) (concat fbs).
Proof.
  intros fbs ord H. unfold valid_prefix in H. apply andb_true_iff in H. destruct H as [H1 H2].
  apply nodupN_NoDup in H1. rewrite forallb_forall in H2.
  unfold rest_of. rewrite concat_rest_of, (concat_nthN_seqN fbs) at 1.
  set (g := fun j : N => nthN fbs j ([] : list event)).
  set (js := seqN (length fbs)).
  apply Permutation_sym.
  eapply perm_trans; [apply Permutation_concat; apply Permutation_map; apply (filter_split_perm (fun j => memN j ord))|].
  rewrite map_app, concat_app. apply Permutation_app; [|apply Permutation_refl].
  unfold frames_of. fold g. apply Permutation_concat. apply Permutation_map.
  apply NoDup_Permutation; [apply NoDup_filter; apply seqN_NoDup|exact H1|].
  intros j. rewrite filter_In, memN_In. unfold js. rewrite seqN_In. split; [tauto|].
  intros Hj. split; [|exact Hj]. specialize (H2 j Hj). apply andb_true_iff in H2. destruct H2 as [H2 _].
  unfold lenN in H2. lia.
Qed.

Lemma valid_prefix_nonempty : forall fbs ord f, valid_prefix fbs ord = true -> In f (frames_of fbs ord) -> f <> [].
Proof.
  intros fbs ord f H Hin. unfold valid_prefix in H. apply andb_true_iff in H. destruct H as [_ H2].
  rewrite forallb_forall in H2. unfold frames_of in Hin. apply in_map_iff in Hin. destruct Hin as [j [<- Hj]].
  specialize (H2 j Hj). apply andb_true_iff in H2. destruct H2 as [_ H2].
  destruct (nthN fbs j []); [discriminate|discriminate].
Qed.

Lemma showfail_step : forall l en ch ap rest,
  layout_ok l -> entry_inv l en ->
  show_fail_frames (n_q en) (n_frames en) (n_cat en) l ch = Some (ap, rest) ->
  strands ap rest = false ->
  entry_inv l (mkEntry (n_q en) (n_frames en ++ ap) (n_cat en)).
Proof.
  intros l [q fs c] ch ap rest Hl [[Htf Hlim] [Hp Hcat]] Hs Hst. cbn [n_q n_frames n_cat] in *.
  unfold show_fail_frames in Hs. change (filter_mark fs c) with (frames_mark fs) in Hs. rewrite Hlim in Hs.
  set (m := frames_mark fs) in *.
  set (fbs := map (show_filter q m) (delta_batches q fs c l)) in *.
  destruct (valid_prefix fbs (map fst ch)) eqn:V; [|discriminate]. inversion Hs; subst ap rest; clear Hs.
  destruct (append_frames_inv l q fs (frames_of fbs (map fst ch)) (rest_of fbs (map fst ch)) Hp) as [Hinv Hle].
  - eapply perm_trans; [apply valid_prefix_split; exact V|]. unfold fbs, m.
    rewrite delta_rows; [apply Permutation_refl|exact Htf|apply Hl|exact Hcat].
  - exact Hst.
  - split; [split; assumption|]. cbn [n_q n_frames n_cat]. split; [exact Hinv|].
    eapply mle_trans; eassumption.
Qed.

Lemma inv_showfail : forall st name ch, Inv st -> good_op st (OShowFail name ch) ->
  Inv (fst (step st (OShowFail name ch))).
Proof.
  intros st name ch [Hl Hen] [Hc _]. cbn [classes_of step] in *.
  destruct (lookup name (st_entries st)) as [en|] eqn:Lk; [|split; assumption].
  destruct (show_fail_frames (n_q en) (n_frames en) (n_cat en) (st_layout st) ch) as [[ap rest]|] eqn:S; [|split; assumption].
  apply app_eq_nil in Hc. destruct Hc as [Hc1 Hc2].
  assert (Hst : strands ap rest = false) by (destruct (strands ap rest); [discriminate|reflexivity]).
  pose proof (showfail_step _ _ _ _ _ Hl (Hen _ _ (lookup_In _ _ _ Lk)) S Hst) as Hinv.
  cbn [fst st_layout st_entries]. split; [exact Hl|].
  intros n en' Hlk. cbn [st_entries st_layout] in Hlk |- *. apply update_In in Hlk.
  destruct Hlk as [Hlk|[_ Hlk]]; [apply Hen with n; exact Hlk|subst en'; exact Hinv].
Qed.

Lemma step_inv : forall st o, Inv st -> good_op st o -> Inv (fst (step st o)).
Proof.
  intros st [l|name q ch|name ch|name ch] Hi Hg.
  - apply inv_setlayout; assumption.
  - apply inv_remember; assumption.
  - apply inv_show; assumption.
  - apply inv_showfail; assumption.
Qed.

(** ** After c71d768 the arrival order of the batches is no class any more *)

Lemma show_no_class : forall st name ch, classes_of st (OShow name ch) = [].
Proof.
  intros st name ch. cbn [classes_of]. destruct (lookup name (st_entries st)) as [en|]; [|reflexivity].
  destruct (show_frames (n_q en) (n_frames en) (n_cat en) (st_layout st) ch) as [nf|]; [|reflexivity].
  rewrite last_dominates_true. cbn [negb]. rewrite andb_false_r. reflexivity.
Qed.

Lemma show_good : forall st name ch, good_op st (OShow name ch).
Proof. intros st name ch. split; [apply show_no_class|exact I]. Qed.

Lemma remember_classes : forall st name q ch c, In c (classes_of st (ORemember name q ch)) ->
  (c = PayloadTimeField /\ q_tf q = TPayload) \/ (c = LimitNotReapplied /\ q_limit q <> None).
Proof.
  intros st name q ch c. cbn [classes_of]. destruct (lookup name (st_entries st)); [intros []|].
  intros H. apply in_app_or in H. destruct H as [H|H].
  - destruct (q_tf q); [destruct H|]. destruct H as [<-|[]]. left. auto.
  - apply in_app_or in H. destruct H as [H|H].
    + destruct (q_limit q); [|destruct H]. destruct H as [<-|[]]. right. split; [reflexivity|discriminate].
    + destruct (remember_frames q (st_layout st) ch) as [fs|]; [|destruct H].
      rewrite last_dominates_true in H. destruct H.
Qed.

(** REMEMBER of a query on the core timestamp without LIMIT is a good operation for EVERY arrival order *)
Lemma remember_good : forall st name q ch, q_tf q = TCore -> q_limit q = None -> good_op st (ORemember name q ch).
Proof.
  intros st name q ch Htf Hlim. split; [|exact I].
  destruct (classes_of st (ORemember name q ch)) as [|c r] eqn:E; [reflexivity|]. exfalso.
  destruct (remember_classes st name q ch c) as [[_ H]|[_ H]]; [rewrite E; left; reflexivity|congruence|congruence].
Qed.

Lemma showfail_classes : forall st name ch c, In c (classes_of st (OShowFail name ch)) -> c = InterruptedRefresh.
Proof.
  intros st name ch c. cbn [classes_of]. destruct (lookup name (st_entries st)) as [en|]; [|intros []].
  destruct (show_fail_frames (n_q en) (n_frames en) (n_cat en) (st_layout st) ch) as [[ap rest]|]; [|intros []].
  rewrite last_dominates_true. cbn [negb]. rewrite andb_false_r. cbn [app].
  destruct (strands ap rest); [|intros []]. intros [<-|[]]. reflexivity.
Qed.

Lemma inv_init : Inv init.
Proof.
  split; [repeat split|intros name en H; destruct H].
Qed.

Lemma reach_inv : forall st, reach st -> Inv st.
Proof. intros st H. induction H; [apply inv_init|apply step_inv; assumption]. Qed.

(** ** The property, stated on the observations of a history *)

(** the live query: what QUERY q returns — the matching events, the response writer dropping repeated ids *)
Definition live (q : query) (l : layout) : list event := dedup_seen [] (sel q l).

Definition expected_len (q : query) (l : layout) : N :=
  match q_limit q with None => lenN (live q l) | Some n => N.min n (lenN (live q l)) end.

(** [out] is an answer of the live query: its rows, each once (for LIMIT n: any n of them) *)
Definition is_answer (q : query) (l : layout) (out : list event) : Prop :=
  NoDup (map e_k out) /\ (forall e, In e out -> In e (live q l)) /\ lenN out = expected_len q l.

Definition is_answer_b (q : query) (l : layout) (out : list event) : bool :=
  nodupN (map e_k out) && forallb (fun e => in_events e (live q l)) out && (lenN out =? expected_len q l).

Lemma is_answer_b_spec : forall q l out, is_answer_b q l out = true <-> is_answer q l out.
Proof.
  intros q l out. unfold is_answer_b, is_answer. rewrite !andb_true_iff, nodupN_NoDup, forallb_forall, N.eqb_eq.
  split.
  - intros [[H1 H2] H3]. split; [exact H1|split; [|exact H3]].
    intros e He. apply in_events_In. apply H2. exact He.
  - intros [H1 [H2 H3]]. split; [split; [exact H1|]|exact H3].
    intros e He. apply in_events_In. apply H2. exact He.
Qed.

Lemma dedup_seen_nodup : forall l seen,
  NoDup (map e_id l) -> (forall e, In e l -> ~ In (e_id e) seen) -> dedup_seen seen l = l.
Proof.
  induction l as [|e l IH]; intros seen Hn Hs; cbn [dedup_seen]; [reflexivity|].
  destruct (memN (e_id e) seen) eqn:M.
  - apply memN_In in M. exfalso. apply (Hs e (or_introl eq_refl)). exact M.
  - f_equal. cbn [map] in Hn. inversion Hn as [|? ? Hx Hd]; subst. apply IH; [exact Hd|].
    intros x Hx' [Heq|Hin].
    + apply Hx. rewrite Heq. apply in_map. exact Hx'.
    + apply (Hs x (or_intror Hx')). exact Hin.
Qed.

Lemma NoDup_map_filter : forall {A B} (f : A -> B) (p : A -> bool) l, NoDup (map f l) -> NoDup (map f (filter p l)).
Proof.
  intros A B f p l. induction l as [|x l IH]; cbn [map filter]; intros H; [constructor|].
  inversion H as [|? ? Hx Hd]; subst. destruct (p x); cbn [map]; [|apply IH; exact Hd].
  constructor; [|apply IH; exact Hd]. intro Hin. apply Hx. apply in_map_iff in Hin.
  destruct Hin as [y [Hy Hin]]. apply filter_In in Hin. rewrite <- Hy. apply in_map. apply Hin.
Qed.

Lemma live_sel : forall q l, layout_ok l -> live q l = sel q l.
Proof.
  intros q l [H _]. unfold live. apply dedup_seen_nodup; [|intros e _ []].
  unfold sel. apply NoDup_map_filter. unfold dup_content in H. apply orb_false_iff in H. destruct H as [_ H].
  apply negb_false_iff in H. apply nodupN_NoDup. exact H.
Qed.

Lemma perm_is_answer : forall q l out, layout_ok l -> q_limit q = None ->
  Permutation out (sel q l) -> is_answer q l out.
Proof.
  intros q l out Hl Hlim Hp. unfold is_answer, expected_len. rewrite Hlim, (live_sel q l Hl). split; [|split].
  - eapply Permutation_NoDup; [apply Permutation_map; apply Permutation_sym; exact Hp|].
    unfold sel. apply NoDup_map_filter. apply layout_ok_nodup_keys. exact Hl.
  - intros e He. eapply Permutation_in; eassumption.
  - unfold lenN. f_equal. apply Permutation_length. exact Hp.
Qed.

(** every SHOW of the history returned an answer of the live query of that moment *)
Definition show_ok (st : state) (o : op) : Prop :=
  match o, snd (step st o) with
  | OShow name _, ObsShow out _ _ _ =>
      match lookup name (st_entries st) with
      | Some en => is_answer (n_q en) (st_layout st) out
      | None => False
      end
  | _, _ => True
  end.
Fixpoint shows_ok (st : state) (ops : list op) : Prop :=
  match ops with
  | [] => True
  | o :: r => show_ok st o /\ shows_ok (fst (step st o)) r
  end.

Definition show_ok_b (st : state) (o : op) : bool :=
  match o, snd (step st o) with
  | OShow name _, ObsShow out _ _ _ =>
      match lookup name (st_entries st) with
      | Some en => is_answer_b (n_q en) (st_layout st) out
      | None => false
      end
  | _, _ => true
  end.
Fixpoint shows_ok_b (st : state) (ops : list op) : bool :=
  match ops with
  | [] => true
  | o :: r => show_ok_b st o && shows_ok_b (fst (step st o)) r
  end.

Lemma shows_ok_b_spec : forall ops st, shows_ok st ops -> shows_ok_b st ops = true.
Proof.
  induction ops as [|o r IH]; intros st; cbn [shows_ok shows_ok_b]; [reflexivity|].
  intros [H1 H2]. rewrite (IH _ H2), andb_true_r. unfold show_ok in H1. unfold show_ok_b.
  destruct o; try reflexivity. destruct (snd (step st (OShow name ch))); try reflexivity.
  destruct (lookup name (st_entries st)); [apply is_answer_b_spec; exact H1|contradiction].
Qed.

(** no operation of the history falls into a known class (and events are only added, ids are non-zero) *)
Fixpoint no_known (st : state) (ops : list op) : Prop :=
  match ops with
  | [] => True
  | o :: r => good_op st o /\ no_known (fst (step st o)) r
  end.

Definition KnownClass (c : known_class) (st : state) (o : op) : Prop := In c (classes_of st o).

Lemma no_class_good : forall st o, (forall c, ~ KnownClass c st o) -> classes_of st o = [].
Proof.
  intros st o H. unfold KnownClass in H. destruct (classes_of st o) as [|c r]; [reflexivity|].
  exfalso. apply (H c). left. reflexivity.
Qed.

Lemma step_show_inv : forall st name ch st' out nf m c,
  step st (OShow name ch) = (st', ObsShow out nf m c) ->
  exists en, lookup name (st_entries st) = Some en /\
    show_frames (n_q en) (n_frames en) (n_cat en) (st_layout st) ch = Some nf /\
    out = show_output (n_q en) (n_frames en) nf /\
    m = frames_mark (n_frames en ++ nf) /\
    c = cat_after (n_cat en) (frames_mark (n_frames en)) m /\
    st' = mkState (st_layout st) (update name (mkEntry (n_q en) (n_frames en ++ nf) c) (st_entries st)).
Proof.
  intros st name ch st' out nf m c H. cbn [step] in H.
  destruct (lookup name (st_entries st)) as [en|]; [|inversion H].
  destruct (show_frames (n_q en) (n_frames en) (n_cat en) (st_layout st) ch) as [nf'|] eqn:Sf; [|inversion H].
  inversion H; subst. exists en. repeat split; try reflexivity. exact Sf.
Qed.

(** the rows a SHOW returns depend only on the invariant of the state it is issued in (whether its own refresh
    leaves a good mark matters for the NEXT SHOW) *)
Lemma show_out_correct : forall l en ch nf,
  layout_ok l -> entry_inv l en ->
  show_frames (n_q en) (n_frames en) (n_cat en) l ch = Some nf ->
  Permutation (show_output (n_q en) (n_frames en) nf) (sel (n_q en) l).
Proof.
  intros l [q fs c] ch nf Hl [[Htf Hlim] [Hp Hcat]] Hs. cbn [n_q n_frames n_cat] in *.
  unfold show_frames in Hs. change (filter_mark fs c) with (frames_mark fs) in Hs. rewrite Hlim in Hs.
  set (m := frames_mark fs) in *.
  set (fbs := map (show_filter q m) (delta_batches q fs c l)) in *.
  destruct (valid_order fbs (map fst ch)) eqn:V; [|discriminate]. inversion Hs; subst nf; clear Hs.
  assert (Hd : Permutation (concat (frames_of fbs (map fst ch))) (filter (above q m) (content l))).
  { eapply perm_trans; [apply valid_order_perm; exact V|]. unfold fbs, m.
    rewrite delta_rows; [apply Permutation_refl|exact Htf|apply Hl|exact Hcat]. }
  unfold show_output, apply_limit, wm_enabled. rewrite Htf, Hlim.
  eapply perm_trans; [|apply Permutation_sym; apply (sel_split q m l)].
  apply Permutation_app; assumption.
Qed.

Theorem show_eq_query_reach : forall st name ch st' out nf m c,
  reach st ->
  step st (OShow name ch) = (st', ObsShow out nf m c) ->
  exists en, lookup name (st_entries st) = Some en /\
    Permutation out (sel (n_q en) (st_layout st)) /\ NoDup (map e_k out).
Proof.
  intros st name ch st' out nf m c Hr Hs. pose proof (reach_inv _ Hr) as [Hl Hen].
  destruct (step_show_inv _ _ _ _ _ _ _ _ Hs) as [en [Lk [Sf [Eo _]]]].
  exists en. split; [exact Lk|].
  pose proof (show_out_correct _ _ _ _ Hl (Hen _ _ (lookup_In _ _ _ Lk)) Sf) as Hp. rewrite <- Eo in Hp.
  split; [exact Hp|].
  eapply Permutation_NoDup; [apply Permutation_map; apply Permutation_sym; exact Hp|].
  unfold sel. apply NoDup_map_filter. apply layout_ok_nodup_keys. exact Hl.
Qed.

Theorem show_eq_query_core : forall st name ch st' out nf m c,
  reach st ->
  classes_of st (OShow name ch) = [] ->
  step st (OShow name ch) = (st', ObsShow out nf m c) ->
  exists en, lookup name (st_entries st) = Some en /\
    Permutation out (sel (n_q en) (st_layout st)) /\ NoDup (map e_k out).
Proof.
  intros st name ch st' out nf m c Hr Hc Hs. pose proof (reach_inv _ Hr) as [Hl Hen].
  destruct (step_show_inv _ _ _ _ _ _ _ _ Hs) as [en [Lk [Sf [Eo _]]]].
  exists en. split; [exact Lk|]. cbn [classes_of] in Hc. rewrite Lk, Sf in Hc.
  destruct (show_step _ _ _ _ Hl (Hen _ _ (lookup_In _ _ _ Lk)) Sf) as [Hp _]. rewrite <- Eo in Hp.
  split; [exact Hp|].
  eapply Permutation_NoDup; [apply Permutation_map; apply Permutation_sym; exact Hp|].
  unfold sel. apply NoDup_map_filter. apply layout_ok_nodup_keys. exact Hl.
Qed.

Theorem show_eq_query_outside_known : forall ops st, reach st -> no_known st ops -> shows_ok st ops.
Proof.
  induction ops as [|o r IH]; intros st Hr; cbn [no_known shows_ok]; [trivial|].
  intros [Hg Hn]. split; [|apply IH; [apply reach_step; assumption|exact Hn]].
  unfold show_ok. destruct o as [l|name q ch|name ch|name ch]; try exact I.
  destruct (step st (OShow name ch)) as [st' ob] eqn:Hs. cbn [snd].
  destruct ob as [| | |out nf m c| | |]; try exact I.
  destruct (show_eq_query_core _ _ _ _ _ _ _ _ Hr (proj1 Hg) Hs) as [en [Lk [Hp _]]]. rewrite Lk.
  pose proof (reach_inv _ Hr) as [Hl Hen]. apply perm_is_answer; [exact Hl|apply (Hen _ _ (lookup_In _ _ _ Lk))|exact Hp].
Qed.

(** a second SHOW with no new data in between returns the same rows and appends nothing *)
Lemma mark_eqb_refl : forall m, mark_eqb m m = true.
Proof. intros [a b]. unfold mark_eqb; cbn [fst snd]. rewrite !N.eqb_refl. reflexivity. Qed.

Theorem show_idempotent : forall st name ch1 ch2 st1 out1 nf1 m1 c1 st2 out2 nf2 m2 c2,
  reach st ->
  step st (OShow name ch1) = (st1, ObsShow out1 nf1 m1 c1) ->
  step st1 (OShow name ch2) = (st2, ObsShow out2 nf2 m2 c2) ->
  Permutation out2 out1 /\ nf2 = [] /\ m2 = m1 /\ c2 = c1.
Proof.
  intros st name ch1 ch2 st1 out1 nf1 m1 c1 st2 out2 nf2 m2 c2 Hr H1 H2.
  pose proof (show_good st name ch1) as Hg. pose proof (show_no_class st1 name ch2) as Hc2.
  assert (Hr1 : reach st1).
  { replace st1 with (fst (step st (OShow name ch1))) by (rewrite H1; reflexivity). apply reach_step; assumption. }
  destruct (show_eq_query_core _ _ _ _ _ _ _ _ Hr (proj1 Hg) H1) as [en [Lk [Hp1 _]]].
  destruct (show_eq_query_core _ _ _ _ _ _ _ _ Hr1 Hc2 H2) as [en1 [Lk1 [Hp2 _]]].
  destruct (step_show_inv _ _ _ _ _ _ _ _ H1) as [en' [Lk' [Sf1 [Eo1 [Em1 [Ec1 Est1]]]]]].
  rewrite Lk in Lk'. inversion Lk'; subst en'; clear Lk'.
  destruct (step_show_inv _ _ _ _ _ _ _ _ H2) as [en1' [Lk1' [Sf2 [Eo2 [Em2 [Ec2 _]]]]]].
  rewrite Lk1 in Lk1'. inversion Lk1'; subst en1'; clear Lk1'.
  assert (Een1 : en1 = mkEntry (n_q en) (n_frames en ++ nf1) c1).
  { rewrite Est1 in Lk1. cbn [st_entries] in Lk1. rewrite lookup_update, N.eqb_refl, Lk in Lk1. inversion Lk1. reflexivity. }
  assert (Hlay : st_layout st1 = st_layout st) by (rewrite Est1; reflexivity).
  pose proof (reach_inv _ Hr1) as [Hl1 Hen1]. specialize (Hen1 _ _ (lookup_In _ _ _ Lk1)).
  cbn [classes_of] in Hc2. rewrite Lk1, Sf2 in Hc2.
  destruct (show_step _ _ _ _ Hl1 Hen1 Sf2) as [_ [_ Hd]].
  assert (Hnf2 : nf2 = []).
  { (* nothing is above the mark: everything matching is already stored *)
    destruct Hen1 as [_ [Hst _]]. rewrite Een1 in Hst, Hd. cbn [n_q n_frames] in Hst, Hd.
    pose proof (sel_split (n_q en) (frames_mark (n_frames en ++ nf1)) (st_layout st1)) as Hsp.
    assert (Hlen : length (concat nf2) = 0%nat).
    { apply Permutation_length in Hsp, Hst, Hd. rewrite app_length in Hsp.
      assert (X : length (concat (n_frames en ++ nf1)) = length (sel (n_q en) (st_layout st1))).
      { rewrite Hlay. rewrite concat_app. rewrite Eo1 in Hp1. unfold show_output, apply_limit, wm_enabled in Hp1.
        pose proof (reach_inv _ Hr) as [_ Hen0]. destruct (Hen0 _ _ (lookup_In _ _ _ Lk)) as [[Htf Hlim0] _]. rewrite Htf, Hlim0 in Hp1.
        apply Permutation_length. exact Hp1. }
      lia. }
    destruct nf2 as [|f r]; [reflexivity|]. exfalso.
    unfold show_frames in Sf2. rewrite Een1 in Sf2. cbn [n_q n_frames n_cat] in Sf2.
    change (filter_mark (n_frames en ++ nf1) c1) with (frames_mark (n_frames en ++ nf1)) in Sf2.
    pose proof (reach_inv _ Hr) as [_ Hen0]. destruct (Hen0 _ _ (lookup_In _ _ _ Lk)) as [[_ Hlim] _]. rewrite Hlim in Sf2.
    match type of Sf2 with (if valid_order ?b ?o then _ else _) = _ => destruct (valid_order b o) eqn:V; [|discriminate] end.
    inversion Sf2 as [Hfr].
    assert (Hf : f <> []).
    { eapply valid_order_nonempty; [exact V|]. rewrite Hfr. left. reflexivity. }
    cbn [concat] in Hlen. rewrite app_length in Hlen. destruct f; [contradiction|cbn [length] in Hlen; lia]. }
  assert (Hm : m2 = m1) by (rewrite Em2, Em1, Een1, Hnf2, app_nil_r; reflexivity).
  split; [|split; [exact Hnf2|split; [exact Hm|]]].
  - eapply perm_trans; [exact Hp2|]. rewrite Een1, Hlay. cbn [n_q]. apply Permutation_sym. exact Hp1.
  - rewrite Ec2, Hm, Een1. cbn [n_cat n_frames]. rewrite <- Em1. unfold cat_after.
    rewrite mark_eqb_refl. destruct (mark_zero m1); reflexivity.
Qed.

(** ** A SHOW whose delivery failed, then a healthy SHOW *)

Lemma step_showfail_inv : forall st name ch st' ap m c,
  step st (OShowFail name ch) = (st', ObsShowFailed ap m c) ->
  exists en rest, lookup name (st_entries st) = Some en /\
    show_fail_frames (n_q en) (n_frames en) (n_cat en) (st_layout st) ch = Some (ap, rest) /\
    m = frames_mark (n_frames en ++ ap) /\ c = n_cat en /\
    st' = mkState (st_layout st) (update name (mkEntry (n_q en) (n_frames en ++ ap) (n_cat en)) (st_entries st)).
Proof.
  intros st name ch st' ap m c H. cbn [step] in H.
  destruct (lookup name (st_entries st)) as [en|]; [|inversion H].
  destruct (show_fail_frames (n_q en) (n_frames en) (n_cat en) (st_layout st) ch) as [[ap' rest]|] eqn:Sf; [|inversion H].
  inversion H; subst. exists en, rest. split; [reflexivity|]. split; [exact Sf|]. repeat split; reflexivity.
Qed.

(** The failed SHOW appended frames and left the catalog entry's mark where it was; whatever selection of the
    delta batches it appended (outside the known classes), the next SHOW — after any further good operations —
    returns exactly the live selection, each event once. *)
Theorem failed_show_then_show_exact : forall st name ch1 st1 ap m1 c1 ops st2 name2 ch2 st3 out nf m c,
  reach st -> good_op st (OShowFail name ch1) ->
  step st (OShowFail name ch1) = (st1, ObsShowFailed ap m1 c1) ->
  no_known st1 ops -> st2 = fold_left (fun s o => fst (step s o)) ops st1 ->
  step st2 (OShow name2 ch2) = (st3, ObsShow out nf m c) ->
  exists en, lookup name2 (st_entries st2) = Some en /\
    Permutation out (sel (n_q en) (st_layout st2)) /\ NoDup (map e_k out).
Proof.
  intros st name ch1 st1 ap m1 c1 ops st2 name2 ch2 st3 out nf m c Hr Hg H1 Hn E2 H3.
  assert (Hr1 : reach st1).
  { replace st1 with (fst (step st (OShowFail name ch1))) by (rewrite H1; reflexivity). apply reach_step; assumption. }
  assert (Hr2 : reach st2).
  { subst st2. clear H3 H1. revert st1 Hr1 Hn. induction ops as [|o r IH]; intros s Hs Hn; cbn [fold_left]; [exact Hs|].
    destruct Hn as [Hg1 Hn]. apply IH; [apply reach_step; assumption|exact Hn]. }
  eapply show_eq_query_reach; eassumption.
Qed.

(** what the failed SHOW leaves behind: the store's mark moved to the last appended frame, the catalog's did not *)
Theorem failed_show_state : forall st name ch st' ap m c en,
  lookup name (st_entries st) = Some en ->
  step st (OShowFail name ch) = (st', ObsShowFailed ap m c) ->
  c = n_cat en /\ m = frames_mark (n_frames en ++ ap) /\
  lookup name (st_entries st') = Some (mkEntry (n_q en) (n_frames en ++ ap) (n_cat en)).
Proof.
  intros st name ch st' ap m c en Lk H.
  destruct (step_showfail_inv _ _ _ _ _ _ _ H) as [en' [rest [Lk' [_ [Em [Ec Est]]]]]].
  rewrite Lk in Lk'. inversion Lk'; subst en'. split; [exact Ec|split; [exact Em|]].
  rewrite Est. cbn [st_entries]. rewrite lookup_update, N.eqb_refl, Lk. reflexivity.
Qed.

Theorem remember_dup_rejected : forall st name q ch en,
  lookup name (st_entries st) = Some en -> step st (ORemember name q ch) = (st, ObsRejected).
Proof. intros st name q ch en H. cbn [step]. rewrite H. reflexivity. Qed.

(** … and a REMEMBER under a fresh name is not rejected *)
Theorem remember_fresh_accepted : forall st name q ch,
  lookup name (st_entries st) = None -> snd (step st (ORemember name q ch)) <> ObsRejected.
Proof.
  intros st name q ch H. cbn [step]. rewrite H.
  destruct (remember_frames q (st_layout st) ch); cbn [snd]; discriminate.
Qed.

(** ** Several views side by side: the frame property *)

Definition op_view (o : op) : option N :=
  match o with
  | OSetLayout _ => None
  | ORemember n _ _ => Some n
  | OShow n _ => Some n
  | OShowFail n _ => Some n
  end.

Lemma lookup_app_other : forall es a e n, a <> n -> lookup n (es ++ [(a, e)]) = lookup n es.
Proof.
  intros es a e n H. induction es as [|[x y] r IH]; cbn [lookup app].
  - destruct (a =? n) eqn:E; [apply N.eqb_eq in E; contradiction|reflexivity].
  - destruct (x =? n); [reflexivity|exact IH].
Qed.

(** an operation on view [a] leaves the catalog entry of every other view [b] — its query, its store (frames, hence
    the store's mark) and its catalog mark — exactly as it was; a layout change touches no entry at all *)
Theorem frame_property : forall st o b, op_view o <> Some b ->
  lookup b (st_entries (fst (step st o))) = lookup b (st_entries st).
Proof.
  intros st o b H. destruct o as [l|a q ch|a ch|a ch]; cbn [op_view] in H; cbn [step].
  - reflexivity.
  - destruct (lookup a (st_entries st)); [reflexivity|].
    destruct (remember_frames q (st_layout st) ch); [|reflexivity].
    cbn [fst st_entries]. apply lookup_app_other. intro E. apply H. rewrite E. reflexivity.
  - destruct (lookup a (st_entries st)) as [en|]; [|reflexivity].
    destruct (show_frames (n_q en) (n_frames en) (n_cat en) (st_layout st) ch); [|reflexivity].
    cbn [fst st_entries]. rewrite lookup_update.
    destruct (b =? a) eqn:E; [apply N.eqb_eq in E; subst; exfalso; apply H; reflexivity|reflexivity].
  - destruct (lookup a (st_entries st)) as [en|]; [|reflexivity].
    destruct (show_fail_frames (n_q en) (n_frames en) (n_cat en) (st_layout st) ch) as [[ap rest]|]; [|reflexivity].
    cbn [fst st_entries]. rewrite lookup_update.
    destruct (b =? a) eqn:E; [apply N.eqb_eq in E; subst; exfalso; apply H; reflexivity|reflexivity].
Qed.

Definition run_state (st : state) (ops : list op) : state := fold_left (fun s o => fst (step s o)) ops st.

(** … for all histories: whatever is done to other views (REMEMBER, SHOW, failed SHOW, any number of times, under any
    other names) and however the layout changes, the entry of [b] stays *)
Theorem frame_property_history : forall ops st b,
  (forall o, In o ops -> op_view o <> Some b) ->
  lookup b (st_entries (run_state st ops)) = lookup b (st_entries st).
Proof.
  induction ops as [|o r IH]; intros st b H; cbn [run_state fold_left]; [reflexivity|].
  fold (run_state (fst (step st o)) r). rewrite IH.
  - apply frame_property. apply H. left. reflexivity.
  - intros o' Ho'. apply H. right. exact Ho'.
Qed.

(** … and what an operation on view [a] answers and does to [a] depends on the layout and on [a]'s own entry only:
    the other views cannot influence it *)
Theorem view_independent : forall st st' o a,
  op_view o = Some a ->
  st_layout st = st_layout st' ->
  lookup a (st_entries st) = lookup a (st_entries st') ->
  snd (step st o) = snd (step st' o) /\
  lookup a (st_entries (fst (step st o))) = lookup a (st_entries (fst (step st' o))).
Proof.
  intros st st' o a Hv Hl Hk. destruct o as [l|n q ch|n ch|n ch]; cbn [op_view] in Hv; inversion Hv; subst n; cbn [step].
  - rewrite <- Hk, <- Hl. destruct (lookup a (st_entries st)) eqn:E; [split; [reflexivity|cbn [fst]; congruence]|].
    destruct (remember_frames q (st_layout st) ch); cbn [fst snd st_entries]; [|split; [reflexivity|congruence]].
    split; [reflexivity|]. rewrite !lookup_app_none by congruence. rewrite N.eqb_refl. reflexivity.
  - rewrite <- Hk, <- Hl. destruct (lookup a (st_entries st)) as [en|] eqn:E; [|split; [reflexivity|cbn [fst]; congruence]].
    destruct (show_frames (n_q en) (n_frames en) (n_cat en) (st_layout st) ch); cbn [fst snd st_entries];
      [|split; [reflexivity|congruence]].
    split; [reflexivity|]. rewrite !lookup_update, N.eqb_refl, E, <- Hk. reflexivity.
  - rewrite <- Hk, <- Hl. destruct (lookup a (st_entries st)) as [en|] eqn:E; [|split; [reflexivity|cbn [fst]; congruence]].
    destruct (show_fail_frames (n_q en) (n_frames en) (n_cat en) (st_layout st) ch) as [[ap rest]|]; cbn [fst snd st_entries];
      [|split; [reflexivity|congruence]].
    split; [reflexivity|]. rewrite !lookup_update, N.eqb_refl, E, <- Hk. reflexivity.
Qed.

(** ** A clock condition that keeps new events above every mark *)

Lemma max_of_le : forall f l b, (forall e, In e l -> f e <= b) -> max_of f l <= b.
Proof.
  intros f l b H. induction l as [|x l IH]; cbn [max_of fold_right]; [lia|].
  pose proof (H x (or_introl eq_refl)). assert (max_of f l <= b) by (apply IH; intros e He; apply H; right; exact He).
  unfold max_of in *. lia.
Qed.

Lemma max_of_lt_all : forall f l b, 0 < b -> (forall e, In e l -> f e < b) -> max_of f l < b.
Proof.
  intros f l b Hb H. induction l as [|x l IH]; cbn [max_of fold_right]; [lia|].
  pose proof (H x (or_introl eq_refl)). assert (max_of f l < b) by (apply IH; intros e He; apply H; right; exact He).
  unfold max_of in *. lia.
Qed.

(** If every new event carries a second not below, and an id above, those of every event already there (one shard,
    or a millisecond clock that advances between applied STOREs, and a wall clock that does not step back), no
    new event is late for any remembered query. *)
Theorem monotone_clock_not_late : forall st l,
  Inv st -> zero_id l = false ->
  (forall e, In e (content l) -> ~ In e (content (st_layout st)) ->
     forall e0, In e0 (content (st_layout st)) -> e_ts e0 <= e_ts e /\ e_id e0 < e_id e) ->
  some_late st l = false.
Proof.
  intros st l [Hl Hen] Hz Hmono. unfold some_late.
  destruct (existsb _ (st_entries st)) eqn:E; [|reflexivity]. exfalso.
  apply existsb_exists in E. destruct E as [[name en] [Hin Hlate]]. cbn [snd] in Hlate.
  unfold late_for in Hlate. apply existsb_exists in Hlate. destruct Hlate as [e [He Hc]].
  apply andb_true_iff in Hc. destruct Hc as [Hc Hmle]. apply andb_true_iff in Hc. destruct Hc as [Hnew _].
  apply negb_true_iff in Hnew.
  assert (Hn : ~ In e (content (st_layout st))) by (intro X; apply in_events_In in X; congruence).
  assert (Hid : 0 < e_id e).
  { unfold zero_id in Hz. destruct (e_id e =? 0) eqn:Z; [|lia]. exfalso.
    assert (X : existsb (fun e => e_id e =? 0) (content l) = true) by (apply existsb_exists; exists e; auto). congruence. }
  destruct (Hen name en Hin) as [_ [Hp _]].
  apply mle_spec in Hmle. unfold ekey in Hmle; cbn [fst snd] in Hmle.
  destruct (frames_mark_attained (n_frames en)) as [E|[f [Hf E]]]; rewrite E in Hmle.
  - cbn [fst snd] in Hmle. lia.
  - unfold frame_mark in Hmle; cbn [fst snd] in Hmle.
    assert (Hrows : forall r, In r f -> In r (content (st_layout st))).
    { intros r Hr. assert (Hc : In r (concat (n_frames en))).
      { apply in_concat. exists f. split; assumption. }
      eapply Permutation_in in Hc; [|exact Hp]. apply filter_In in Hc. apply Hc. }
    assert (H1 : max_of e_ts f <= e_ts e).
    { apply max_of_le. intros r Hr. apply (Hmono e He Hn r (Hrows r Hr)). }
    assert (H2 : max_of e_id f < e_id e).
    { apply max_of_lt_all; [exact Hid|]. intros r Hr. apply (Hmono e He Hn r (Hrows r Hr)). }
    lia.
Qed.

(** ** Witnesses: the full property is false of the model (and of the code) *)

(** classes flagged along a history *)
Fixpoint classes_along (st : state) (ops : list op) : list known_class :=
  match ops with
  | [] => []
  | o :: r => classes_of st o ++ classes_along (fst (step st o)) r
  end.
(** side conditions that are not C14's business hold along the history *)
Fixpoint side_ok (st : state) (ops : list op) : bool :=
  match ops with
  | [] => true
  | o :: r => (match o with OSetLayout l => keeps_events st l && negb (zero_id l) | _ => true end)
              && side_ok (fst (step st o)) r
  end.

Definition q_all : query := mkQuery None None None TCore true None 0.
Definition ev (k ts pt id : N) : event := mkEvent k ts pt id 0 0 0.

(** (1) formerly MarkOfLastFrame (fixed by c71d768; kept as a positive example below) — one shard, an older event in a segment, a newer one in the memtable; REMEMBER
    receives the memtable batch first, the segment batch last: the mark is the segment's, the next SHOW
    delivers the memtable event again. *)
Definition w_lastframe : list op :=
  [ OSetLayout [mkShard [ev 2 20 0 200] [mkSeg 20 [[ev 1 10 0 100]]]];
    ORemember 1 q_all [(0, []); (1, [])];
    OShow 1 [] ].

(** (2) PayloadTimeField — USING pt: an event whose payload time is above the core-timestamp mark is
    delivered again by every SHOW; an event arriving later with a payload time below the mark never shows. *)
Definition q_pt : query := mkQuery None None None TPayload true None 0.
Definition w_payload_dup : list op :=
  [ OSetLayout [mkShard [ev 1 10 50 100] []];
    ORemember 1 q_pt [(0, [])];
    OShow 1 [(0, [])] ].
Definition w_payload_lost : list op :=
  [ OSetLayout [mkShard [ev 1 10 10 100] []];
    ORemember 1 q_pt [(0, [])];
    OSetLayout [mkShard [ev 1 10 10 100; ev 2 20 5 200] []];
    OShow 1 [] ].
(** … and with RETURN omitting the time field the watermark filter is off: the raw delta is appended to the
    frames on every SHOW and comes back twice from the second SHOW on *)
Definition q_pt_hidden : query := mkQuery None None None TPayload false None 0.
Definition w_payload_hidden : list op :=
  [ OSetLayout [mkShard [ev 1 10 50 100] []];
    ORemember 1 q_pt_hidden [(0, [])];
    OShow 1 [(0, [])];
    OShow 1 [(0, [])] ].

(** (3) EventNotAboveMark — frozen clock: the remembered event was applied on shard 1, a later event of the
    same second and millisecond on shard 0 gets a smaller id and stays below the mark for ever. *)
Definition w_same_ms : list op :=
  [ OSetLayout [mkShard [] []; mkShard [ev 1 10 0 4196] []];
    ORemember 1 q_all [(2, [])];
    OSetLayout [mkShard [ev 2 10 0 100] []; mkShard [ev 1 10 0 4196] []];
    OShow 1 [] ].

(** … and without any clock anomaly in the lexicographic sense: the mark's two components are independent
    maxima, (10, 200) here, a pair no stored row carries; the new event (10, 150) is above every stored row
    ((9, 200) and (10, 100)) and still below the mark. *)
Definition w_component_max : list op :=
  [ OSetLayout [mkShard [ev 1 9 0 200; ev 2 10 0 100] []];
    ORemember 1 q_all [(0, [])];
    OSetLayout [mkShard [ev 1 9 0 200; ev 2 10 0 100; ev 3 10 0 150] []];
    OShow 1 [] ].

(** (4) LimitNotReapplied — LIMIT is applied when REMEMBER stores, never when SHOW answers. *)
Definition q_lim1 : query := mkQuery None None None TCore true (Some 1) 0.
Definition w_limit : list op :=
  [ OSetLayout [mkShard [ev 1 10 0 100] []];
    ORemember 1 q_lim1 [(0, [1])];
    OSetLayout [mkShard [ev 1 10 0 100; ev 2 20 0 200] []];
    OShow 1 [(0, [2])] ].

(** (5) RawStreamDuplicates — REMEMBER inside a flush window: the event is in the passive memtable and in
    the published segment; QUERY drops the repeated id, REMEMBER stores both rows. *)
Definition w_window : list op :=
  [ OSetLayout [mkShard [ev 1 10 0 100] [mkSeg 10 [[ev 1 10 0 100]]]];
    ORemember 1 q_all [(0, []); (1, [])];
    OSetLayout [mkShard [] [mkSeg 10 [[ev 1 10 0 100]]]];
    OShow 1 [] ].

(** (6) SegmentOlderThanEvent — events stamped ahead of the file-system clock: the segment holding the new
    event has an mtime below mark.ts - 1 and is skipped whole. *)
Definition w_mtime : list op :=
  [ OSetLayout [mkShard [ev 1 100 0 100] []];
    ORemember 1 q_all [(0, [])];
    OSetLayout [mkShard [] [mkSeg 50 [[ev 1 100 0 100; ev 2 110 0 200]]]];
    OShow 1 [] ].

(** (7) InterruptedRefresh — the client hangs up during a SHOW whose delta arrives in two batches; the delta task
    is aborted after it appended the memtable batch (the newer event) and before the segment batch (the older one):
    the store's mark is now above the older event, no later SHOW delivers it. *)
Definition w_interrupted : list op :=
  [ ORemember 1 q_all [];
    OSetLayout [mkShard [ev 2 20 0 200] [mkSeg 20 [[ev 1 10 0 100]]]];
    OShowFail 1 [(0, [])];
    OShow 1 [] ].

Lemma refuted_by : forall ops, shows_ok_b init ops = false -> ~ shows_ok init ops.
Proof. intros ops H Hs. apply shows_ok_b_spec in Hs. congruence. Qed.

Definition witness_of (c : known_class) (ops : list op) : Prop :=
  side_ok init ops = true /\
  (forall c', In c' (classes_along init ops) -> c' = c) /\
  ~ In ObsBadChoice (run init ops) /\
  ~ shows_ok init ops.

Ltac witness :=
  split; [vm_compute; reflexivity|
  split; [vm_compute; intros c' H; repeat (destruct H as [H|H]; [symmetry; exact H|]); contradiction|
  split; [vm_compute; intros H; repeat (destruct H as [H|H]; [discriminate H|]); contradiction|
  apply refuted_by; vm_compute; reflexivity]]].

(** the former MarkOfLastFrame witness (memtable batch stored before the segment batch): no class is flagged, the
    arrival order is admissible, the SHOW is an answer *)
Example former_lastframe_witness_now_exact :
  classes_along init w_lastframe = [] /\ ~ In ObsBadChoice (run init w_lastframe) /\ shows_ok_b init w_lastframe = true
  /\ no_known init w_lastframe.
Proof.
  split; [vm_compute; reflexivity|]. split; [vm_compute; intros H; repeat (destruct H as [H|H]; [discriminate H|]); contradiction|].
  split; [vm_compute; reflexivity|]. cbn [no_known w_lastframe]. repeat split; vm_compute; reflexivity.
Qed.
Theorem show_eq_query_refuted_payload_dup : witness_of PayloadTimeField w_payload_dup.
Proof. witness. Qed.
Theorem show_eq_query_refuted_payload_lost : witness_of PayloadTimeField w_payload_lost.
Proof. witness. Qed.
Theorem show_eq_query_refuted_payload_hidden : witness_of PayloadTimeField w_payload_hidden.
Proof. witness. Qed.
Theorem show_eq_query_refuted_same_ms : witness_of EventNotAboveMark w_same_ms.
Proof. witness. Qed.
Theorem show_eq_query_refuted_component_max : witness_of EventNotAboveMark w_component_max.
Proof. witness. Qed.
Theorem show_eq_query_refuted_limit : witness_of LimitNotReapplied w_limit.
Proof. witness. Qed.
Theorem show_eq_query_refuted_window : witness_of RawStreamDuplicates w_window.
Proof. witness. Qed.
Theorem show_eq_query_refuted_mtime : witness_of SegmentOlderThanEvent w_mtime.
Proof. witness. Qed.

Theorem show_eq_query_refuted_interrupted : witness_of InterruptedRefresh w_interrupted.
Proof. witness. Qed.

Theorem show_eq_query_refuted : exists ops, side_ok init ops = true /\ ~ shows_ok init ops.
Proof. exists w_payload_dup. destruct show_eq_query_refuted_payload_dup as [H [_ [_ H']]]. split; assumption. Qed.

(** ** The hypotheses of the positive theorems are satisfiable: a history over two shards with events before
    REMEMBER, between REMEMBER and SHOW and between SHOWs, a flush, a compaction-like re-zoning, an event on
    the high-water second, WHERE / FOR / SINCE — no class is flagged and every SHOW is non-trivial. *)
Definition q_ex : query := mkQuery (Some 0) (Some (CGe, 1)) (Some 5) TCore true None 0.
Definition x1 := mkEvent 1 10 0 4196 0 1 0.
Definition x2 := mkEvent 2 10 0 8000 0 0 0.   (* fails WHERE *)
Definition x3 := mkEvent 3 11 0 9000 0 2 0.
Definition x4 := mkEvent 4 11 0 9500 0 3 0.   (* same second as the mark *)
Definition x5 := mkEvent 5 12 0 12000 1 5 0.  (* other context *)
Definition x6 := mkEvent 6 13 0 13000 0 7 0.
Definition ex_ops : list op :=
  [ OSetLayout [mkShard [x2] []; mkShard [x1] []];
    ORemember 7 q_ex [(2, [])];
    ORemember 7 q_ex [(2, [])];
    OSetLayout [mkShard [x2] []; mkShard [x3] [mkSeg 11 [[x1]]]];
    OShow 7 [(2, [])];
    OSetLayout [mkShard [x2; x5] []; mkShard [x4] [mkSeg 11 [[x1]]; mkSeg 11 [[x3]]]];
    OShow 7 [(2, [])];
    OShow 7 [];
    OSetLayout [mkShard [x5] [mkSeg 12 [[x2]]]; mkShard [x6] [mkSeg 12 [[x1; x3]; [x4]]]];
    OShow 7 [(2, [])] ].

Example ex_no_known : no_known init ex_ops.
Proof. cbn [no_known ex_ops]. repeat split; vm_compute; reflexivity. Qed.

Example ex_outputs :
  map (fun o => match o with ObsShow out _ _ _ => map e_k out | ObsRejected => [99] | _ => [] end) (run init ex_ops)
  = [[]; []; [99]; []; [1; 3]; []; [1; 3; 4]; [1; 3; 4]; []; [1; 3; 4; 6]].
Proof. vm_compute. reflexivity. Qed.

(** … and with failed SHOWs: one that appended nothing new, one that appended its whole delta (the usual case: the
    response is buffered and fails at the final flush), one that appended only the older of two batches; the
    catalog mark stays behind the store's mark, every later SHOW is exact. *)
Definition y1 := ev 1 10 0 100.
Definition y2 := ev 2 11 0 200.
Definition y3 := ev 3 12 0 300.
Definition y4 := ev 4 13 0 400.
Definition ex_fail_ops : list op :=
  [ OSetLayout [mkShard [y1] []];
    ORemember 1 q_all [(0, [])];
    OShowFail 1 [];
    OSetLayout [mkShard [y1; y2] []];
    OShowFail 1 [(0, [])];
    OShow 1 [];
    OSetLayout [mkShard [y4] [mkSeg 12 [[y1; y2; y3]]]];
    OShowFail 1 [(1, [])];
    OShow 1 [(0, [])];
    OShow 1 [] ].

Example ex_fail_no_known : no_known init ex_fail_ops.
Proof. cbn [no_known ex_fail_ops]. repeat split; vm_compute; reflexivity. Qed.

Example ex_fail_outputs :
  map (fun o => match o with
                | ObsShow out _ m c => (map e_k out, m, c)
                | ObsShowFailed ap m c => (map e_k (concat ap), m, c)
                | _ => ([], (0, 0), (0, 0)) end) (run init ex_fail_ops)
  = [ ([], (0, 0), (0, 0)); ([], (0, 0), (0, 0)); ([], (10, 100), (10, 100)); ([], (0, 0), (0, 0));
      ([2], (11, 200), (10, 100)); ([1; 2], (11, 200), (10, 100)); ([], (0, 0), (0, 0));
      ([3], (12, 300), (10, 100)); ([1; 2; 3; 4], (13, 400), (13, 400)); ([1; 2; 3; 4], (13, 400), (13, 400)) ].
Proof. vm_compute. reflexivity. Qed.

(** several views side by side: two views with different WHERE constants over the same type, one over another type;
    interleaved REMEMBER / STORE / re-zoning / SHOW a / failed SHOW b / SHOW c: no class, every SHOW exact *)
Definition q_ge1 : query := mkQuery None (Some (CGe, 1)) None TCore true None 0.
Definition q_eq0 : query := mkQuery None (Some (CEq, 0)) None TCore true None 0.
Definition q_ty1 : query := mkQuery None None None TCore true None 1.
Definition z1 := mkEvent 1 10 0 100 0 1 0.
Definition z2 := mkEvent 2 10 0 200 0 0 0.
Definition z3 := mkEvent 3 11 0 300 0 2 1.
Definition z4 := mkEvent 4 12 0 400 0 3 0.
Definition z5 := mkEvent 5 12 0 500 0 0 1.
Definition ex_views_ops : list op :=
  [ OSetLayout [mkShard [z1; z2; z3] []];
    ORemember 1 q_ge1 [(0, [])];
    ORemember 2 q_eq0 [(0, [])];
    ORemember 3 q_ty1 [(0, [])];
    ORemember 2 q_ge1 [(0, [])];
    OSetLayout [mkShard [z4; z5] [mkSeg 11 [[z1; z2]]; mkSeg 11 [[z3]]]];
    OShow 1 [(0, [])];
    OShowFail 3 [(0, [])];
    OShow 2 [];
    OShow 3 [];
    OShow 1 [] ].

Example ex_views_no_known : no_known init ex_views_ops.
Proof. cbn [no_known ex_views_ops]. repeat split; vm_compute; reflexivity. Qed.

Example ex_views_outputs :
  map (fun o => match o with ObsShow out _ _ _ => map e_k out | ObsRejected => [99] | ObsShowFailed ap _ _ => 77 :: map e_k (concat ap) | _ => [] end)
      (run init ex_views_ops)
  = [[]; []; []; []; [99]; []; [1; 4]; [77; 5]; [2]; [3; 5]; [1; 4]].
Proof. vm_compute. reflexivity. Qed.

Example ex_reach : reach (fst (step init (OSetLayout [mkShard [x2] []; mkShard [x1] []]))).
Proof. apply reach_step; [apply reach_init|]. repeat split; vm_compute; reflexivity. Qed.
