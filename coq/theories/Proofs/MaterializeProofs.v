(** Proofs about Model/Materialize.v (C14). *)
From Coq Require Import NArith PeanoNat Compare_dec List Bool Lia Permutation.
From Coq Require Import ZifyBool ZifyNat ZifyN.
From Snel Require Import Model.Materialize.
Import ListNotations.
Open Scope N_scope.

(** ** The lexicographic order on marks *)

Lemma mlt_spec : forall a b, mlt a b = true <-> (fst a < fst b \/ (fst a = fst b /\ snd a < snd b)).
Proof.
  intros [a1 a2] [b1 b2]; unfold mlt; cbn [fst snd].
  rewrite orb_true_iff, andb_true_iff, !N.ltb_lt, N.eqb_eq. tauto.
Qed.

Lemma mle_spec : forall a b, mle a b = true <-> (fst a < fst b \/ (fst a = fst b /\ snd a <= snd b)).
Proof.
  intros a b. unfold mle. rewrite negb_true_iff.
  destruct (mlt b a) eqn:E.
  - apply mlt_spec in E. split; [discriminate|]. lia.
  - split; [intros _|reflexivity].
    assert (H : ~ (fst b < fst a \/ (fst b = fst a /\ snd b < snd a))).
    { intro H. apply mlt_spec in H. congruence. }
    lia.
Qed.

Lemma mle_refl : forall a, mle a a = true.
Proof. intros a. apply mle_spec. lia. Qed.

Lemma mle_trans : forall a b c, mle a b = true -> mle b c = true -> mle a c = true.
Proof. intros a b c H1 H2. apply mle_spec in H1, H2. apply mle_spec. lia. Qed.

Lemma mlt_mle_trans : forall a b c, mlt a b = true -> mle b c = true -> mlt a c = true.
Proof. intros a b c H1 H2. apply mlt_spec in H1. apply mle_spec in H2. apply mlt_spec. lia. Qed.

Lemma mlt_mle : forall a b, mlt a b = true -> mle a b = true.
Proof. intros a b H. apply mlt_spec in H. apply mle_spec. lia. Qed.

Lemma mle_negb_mlt : forall a b, mle a b = negb (mlt b a).
Proof. reflexivity. Qed.

Lemma mark_zero_spec : forall m, mark_zero m = true <-> m = (0, 0).
Proof.
  intros [a b]. unfold mark_zero; cbn [fst snd]. rewrite andb_true_iff, !N.eqb_eq.
  split; [intros [-> ->]; reflexivity | intros H; inversion H; auto].
Qed.

Lemma max_of_ge : forall f l e, In e l -> f e <= max_of f l.
Proof.
  intros f l e. induction l as [|x l IH]; cbn [max_of fold_right In]; [tauto|].
  intros [->|H]; [lia|]. specialize (IH H). unfold max_of in IH. lia.
Qed.

Lemma max_of_lt : forall f l h, max_of f l < h -> forall e, In e l -> f e < h.
Proof. intros f l h H e Hin. pose proof (max_of_ge f l e Hin). lia. Qed.

Lemma frame_mark_ge : forall f e, In e f -> mle (ekey e) (frame_mark f) = true.
Proof.
  intros f e H. apply mle_spec. unfold ekey, frame_mark; cbn [fst snd].
  pose proof (max_of_ge e_ts f e H). pose proof (max_of_ge e_id f e H). lia.
Qed.

(** ** Lists *)

Lemma filter_filter_and : forall {A} (p r : A -> bool) l,
  filter p (filter r l) = filter (fun x => r x && p x) l.
Proof.
  intros A p r l. induction l as [|x l IH]; cbn [filter]; [reflexivity|].
  destruct (r x); cbn [filter andb]; [destruct (p x)|]; rewrite IH; reflexivity.
Qed.

Lemma filter_none : forall {A} (p : A -> bool) l, (forall x, In x l -> p x = false) -> filter p l = [].
Proof.
  intros A p l H. induction l as [|x l IH]; cbn [filter]; [reflexivity|].
  rewrite (H x (or_introl eq_refl)). apply IH. intros y Hy. apply H. right. exact Hy.
Qed.

Lemma filter_concat : forall {A} (p : A -> bool) ls, filter p (concat ls) = concat (map (filter p) ls).
Proof.
  intros A p ls. induction ls as [|l ls IH]; cbn [concat map]; [reflexivity|].
  rewrite filter_app, IH. reflexivity.
Qed.

Lemma filter_flat_map : forall {A B} (p : B -> bool) (f : A -> list B) l,
  filter p (flat_map f l) = flat_map (fun x => filter p (f x)) l.
Proof.
  intros A B p f l. induction l as [|x l IH]; cbn [flat_map]; [reflexivity|].
  rewrite filter_app, IH. reflexivity.
Qed.

Lemma concat_flat_map : forall {A B} (f : A -> list (list B)) l,
  concat (flat_map f l) = flat_map (fun x => concat (f x)) l.
Proof.
  intros A B f l. induction l as [|x l IH]; cbn [flat_map concat]; [reflexivity|].
  rewrite concat_app, IH. reflexivity.
Qed.

Lemma flat_map_ext_in : forall {A B} (f g : A -> list B) l,
  (forall x, In x l -> f x = g x) -> flat_map f l = flat_map g l.
Proof.
  intros A B f g l H. induction l as [|x l IH]; cbn [flat_map]; [reflexivity|].
  rewrite (H x (or_introl eq_refl)), IH; [reflexivity|]. intros y Hy. apply H. right. exact Hy.
Qed.

Lemma filter_split_perm : forall {A} (p : A -> bool) l,
  Permutation l (filter p l ++ filter (fun x => negb (p x)) l).
Proof.
  intros A p l. induction l as [|x l IH]; cbn [filter]; [constructor|].
  destruct (p x); cbn [negb app].
  - constructor. exact IH.
  - apply Permutation_cons_app. exact IH.
Qed.

Lemma Permutation_concat : forall {A} (l l' : list (list A)), Permutation l l' -> Permutation (concat l) (concat l').
Proof.
  intros A l l' H. induction H; cbn [concat].
  - constructor.
  - apply Permutation_app_head. assumption.
  - rewrite !app_assoc. apply Permutation_app_tail. apply Permutation_app_comm.
  - eapply perm_trans; eassumption.
Qed.

(** ** What a streaming query delivers *)

Lemma in_content : forall l e, In e (content l) <->
  exists s, In s l /\ (In e (s_mem s) \/ exists g, In g (s_segs s) /\ In e (seg_events g)).
Proof.
  intros l e. unfold content. rewrite in_flat_map. split.
  - intros [s [Hs He]]. exists s. split; [exact Hs|]. unfold shard_events in He.
    apply in_app_or in He. destruct He as [He|He]; [left; exact He|right].
    apply in_flat_map in He. exact He.
  - intros [s [Hs [He|[g [Hg He]]]]]; exists s; split; try exact Hs; unfold shard_events; apply in_or_app.
    + left. exact He.
    + right. apply in_flat_map. exists g. split; assumption.
Qed.

Lemma concat_sources_none : forall q l, concat (sources None q l) = filter (matches q) (content l).
Proof.
  intros q l. unfold sources, content. rewrite concat_flat_map, filter_flat_map.
  apply flat_map_ext_in. intros s _. unfold shard_sources, shard_events. cbn [concat].
  rewrite app_nil_r, filter_app. f_equal.
  rewrite filter_flat_map. apply flat_map_ext_in. intros g _.
  unfold seg_rows, seg_stale, seg_events. rewrite filter_concat, <- flat_map_concat_map.
  apply flat_map_ext_in. intros z _. reflexivity.
Qed.

(** with the materialisation guard: nothing that the query's own SINCE would let through is pruned,
    provided SINCE is at least the guard's timestamp on the CORE timestamp and no segment file is more than a
    second older than an event it holds *)
Lemma concat_sources_guard : forall h q l,
  mtime_bad l = false ->
  (forall e, matches q e = true -> h <= e_ts e) ->
  concat (sources (Some h) q l) = filter (matches q) (content l).
Proof.
  intros h q l Hm Hq. unfold sources, content. rewrite concat_flat_map, filter_flat_map.
  apply flat_map_ext_in. intros s Hs. unfold shard_sources, shard_events. cbn [concat].
  rewrite app_nil_r, filter_app. f_equal.
  rewrite filter_flat_map. apply flat_map_ext_in. intros g Hg.
  assert (Hgood : forall e, In e (seg_events g) -> e_ts e <= g_mtime g + 1).
  { intros e He. unfold mtime_bad in Hm.
    destruct (g_mtime g + 1 <? e_ts e) eqn:E; [|lia].
    exfalso. assert (X : existsb (fun s => existsb seg_time_bad (s_segs s)) l = true).
    { apply existsb_exists. exists s. split; [exact Hs|]. apply existsb_exists. exists g. split; [exact Hg|].
      unfold seg_time_bad. apply existsb_exists. exists e. split; assumption. }
    congruence. }
  unfold seg_rows, seg_stale.
  destruct (g_mtime g <? h - 1) eqn:Est.
  - symmetry. apply filter_none. intros e He. specialize (Hgood e He).
    destruct (matches q e) eqn:M; [|reflexivity]. specialize (Hq e M). lia.
  - unfold seg_events. rewrite filter_concat, <- flat_map_concat_map.
    apply flat_map_ext_in. intros z Hz. unfold zone_kept, zone_tsmax.
    destruct (max_of e_ts z <? h) eqn:Ez; cbn [negb]; [|reflexivity].
    symmetry. apply filter_none. intros e He.
    destruct (matches q e) eqn:M; [|reflexivity]. specialize (Hq e M).
    pose proof (max_of_ge e_ts z e He). lia.
Qed.

(** ** Arrival orders *)

Lemma memN_In : forall k ks, memN k ks = true <-> In k ks.
Proof.
  intros k ks. unfold memN. rewrite existsb_exists. split.
  - intros [x [Hx E]]. apply N.eqb_eq in E. subst. exact Hx.
  - intros H. exists k. split; [exact H|apply N.eqb_refl].
Qed.

Lemma nodupN_NoDup : forall l, nodupN l = true <-> NoDup l.
Proof.
  induction l as [|x l IH]; cbn [nodupN].
  - split; [constructor|reflexivity].
  - rewrite andb_true_iff, negb_true_iff, IH. split.
    + intros [H1 H2]. constructor; [|exact H2]. intro Hin. apply memN_In in Hin. congruence.
    + intros H. inversion H as [|? ? Hn Hd]; subst. split; [|exact Hd].
      destruct (memN x l) eqn:E; [|reflexivity]. apply memN_In in E. contradiction.
Qed.

Lemma map_nth_seq : forall {A} (l : list A) d, map (fun i => nth i l d) (seq 0 (length l)) = l.
Proof.
  intros A l d. induction l as [|x l IH]; cbn [length seq map nth]; [reflexivity|].
  f_equal. rewrite <- seq_shift, map_map. exact IH.
Qed.

Lemma concat_map_drop_empty : forall {A B} (f : A -> list B) l,
  concat (map f l) = concat (map f (filter (fun x => nonempty (f x)) l)).
Proof.
  intros A B f l. induction l as [|x l IH]; cbn [map concat filter]; [reflexivity|].
  destruct (f x) eqn:E; cbn [nonempty].
  - cbn [app]. exact IH.
  - cbn [map concat]. rewrite E, IH. reflexivity.
Qed.

Lemma valid_order_perm : forall bs ord,
  valid_order bs ord = true -> Permutation (concat (frames_of bs ord)) (concat bs).
Proof.
  intros bs ord H. unfold valid_order in H. apply andb_true_iff in H. destruct H as [H H3].
  apply andb_true_iff in H. destruct H as [H1 H2].
  apply nodupN_NoDup in H1. rewrite forallb_forall in H2, H3.
  set (f := fun i : nat => nth i bs ([] : list event)).
  set (keep := filter (fun i => nonempty (f i)) (seq 0 (length bs))).
  assert (E1 : concat bs = concat (map f keep)).
  { rewrite <- (map_nth_seq bs []) at 1. fold f. apply concat_map_drop_empty. }
  assert (E2 : frames_of bs ord = map f (map N.to_nat ord)).
  { unfold frames_of. rewrite map_map. reflexivity. }
  rewrite E1, E2. apply Permutation_concat. apply Permutation_map.
  apply NoDup_Permutation.
  - apply FinFun.Injective_map_NoDup; [|exact H1]. intros a b Hab. lia.
  - apply NoDup_filter. apply seq_NoDup.
  - intros i. unfold keep. rewrite filter_In, in_seq, in_map_iff. split.
    + intros [j [<- Hj]]. specialize (H2 j Hj). unfold lenN in H2.
      assert (Hlt : (N.to_nat j < length bs)%nat) by lia.
      split; [lia|].
      assert (Hs : In j (seqN (length bs))).
      { unfold seqN. apply in_map_iff. exists (N.to_nat j). split; [lia|]. apply in_seq. lia. }
      specialize (H3 j Hs). apply eqb_prop in H3. unfold nthN in H3. unfold f. rewrite H3. apply memN_In. exact Hj.
    + intros [[_ Hlt] Hne]. exists (N.of_nat i). split; [lia|].
      assert (Hs : In (N.of_nat i) (seqN (length bs))).
      { unfold seqN. apply in_map. apply in_seq. lia. }
      specialize (H3 _ Hs). apply eqb_prop in H3. unfold nthN in H3. rewrite Nnat.Nat2N.id in H3.
      unfold f in Hne. rewrite Hne in H3. symmetry in H3. apply memN_In in H3. exact H3.
Qed.

Lemma valid_order_nonempty : forall bs ord f,
  valid_order bs ord = true -> In f (frames_of bs ord) -> f <> [].
Proof.
  intros bs ord f H Hin. unfold valid_order in H. apply andb_true_iff in H. destruct H as [H H3].
  apply andb_true_iff in H. destruct H as [H1 H2]. rewrite forallb_forall in H2, H3.
  unfold frames_of in Hin. apply in_map_iff in Hin. destruct Hin as [j [<- Hj]].
  specialize (H2 j Hj). unfold lenN in H2.
  assert (Hs : In j (seqN (length bs))).
  { unfold seqN. apply in_map_iff. exists (N.to_nat j). split; [lia|]. apply in_seq. lia. }
  specialize (H3 j Hs). apply eqb_prop in H3.
  assert (M : memN j ord = true) by (apply memN_In; exact Hj). rewrite M in H3.
  destruct (nthN bs j []); [discriminate|discriminate].
Qed.

Lemma frames_of_in : forall bs ord f e, In f (frames_of bs ord) -> In e f -> In e (concat bs).
Proof.
  intros bs ord f e Hf He. unfold frames_of in Hf. apply in_map_iff in Hf. destruct Hf as [j [<- _]].
  unfold nthN in He. apply in_concat. exists (nth (N.to_nat j) bs []). split; [|exact He].
  destruct (le_lt_dec (length bs) (N.to_nat j)) as [Hl|Hl].
  - rewrite nth_overflow in He by exact Hl. contradiction.
  - apply nth_In. exact Hl.
Qed.
