(** Proofs about Model/SurfEnc.v (C08): the three 8-byte lanes of [encode_value] are
    order preserving; the sign-magnitude order of double bit patterns is the order of the
    real values they denote; routing of values to lanes is exact outside saturation. *)
From Coq Require Import ZArith NArith List Bool Lia.
From Coq Require Import ZifyBool ZifyNat ZifyN.
From Snel Require Import Base.Bytes Gen.Params Model.SurfEnc Proofs.SurfLexProofs.
Import ListNotations.
Ltac Zify.zify_post_hook ::= Z.div_mod_to_equations.
Open Scope N_scope.

(** * Big-endian digits *)

Fixpoint be (k : nat) (n : N) : bytes :=
  match k with
  | O => []
  | S k' => (n / 256 ^ N.of_nat k') mod 256 :: be k' n
  end.

Lemma cmp_lex_digits : forall P da ra db rb, ra < P -> rb < P ->
  N.compare (ra + P * da) (rb + P * db) =
  match N.compare da db with Eq => N.compare ra rb | c => c end.
Proof.
  intros P da ra db rb Ha Hb.
  destruct (N.compare_spec da db) as [->|H1|H1].
  - destruct (N.compare_spec ra rb) as [->|H2|H2].
    + apply N.compare_refl.
    + apply N.compare_lt_iff. lia.
    + apply N.compare_gt_iff. lia.
  - apply N.compare_lt_iff.
    assert (P * (da + 1) <= P * db) by (apply N.mul_le_mono_l; lia). lia.
  - apply N.compare_gt_iff.
    assert (P * (db + 1) <= P * da) by (apply N.mul_le_mono_l; lia). lia.
Qed.

Lemma be_length : forall k n, length (be k n) = k.
Proof. induction k as [|k IH]; intros n; cbn [be length]; [reflexivity|]. now rewrite IH. Qed.

Lemma be_lex : forall k a b,
  bytes_cmp (be k a) (be k b) = N.compare (a mod 256 ^ N.of_nat k) (b mod 256 ^ N.of_nat k).
Proof.
  induction k as [|k IH]; intros a b.
  - cbn [be bytes_cmp]. change (256 ^ N.of_nat 0) with 1. now rewrite !N.mod_1_r.
  - cbn [be bytes_cmp]. rewrite IH.
    rewrite Nat2N.inj_succ, N.pow_succ_r', (N.mul_comm 256).
    assert (HP : 256 ^ N.of_nat k <> 0) by (apply N.pow_nonzero; lia).
    rewrite !(N.mod_mul_r _ (256 ^ N.of_nat k) 256) by (assumption || lia).
    rewrite cmp_lex_digits by (apply N.mod_lt; assumption).
    reflexivity.
Qed.

Lemma be8_be : forall n, be8 n = be 8 n.
Proof.
  intros n. unfold be8. rewrite !N.shiftr_div_pow2. cbn [be].
  change (256 ^ N.of_nat 0) with 1. rewrite N.div_1_r. reflexivity.
Qed.

Lemma be8_length : forall n, length (be8 n) = 8%nat.
Proof. reflexivity. Qed.

(** big-endian 8-byte strings compare as the numbers *)
Lemma be8_lex : forall a b, a < 2 ^ 64 -> b < 2 ^ 64 ->
  bytes_cmp (be8 a) (be8 b) = N.compare a b.
Proof.
  intros a b Ha Hb. rewrite !be8_be, be_lex.
  change (256 ^ N.of_nat 8) with (2 ^ 64). now rewrite !N.mod_small.
Qed.

(** * The sign flip *)

Lemma land_pow2_small : forall x k, x < 2 ^ k -> N.land x (2 ^ k) = 0.
Proof.
  intros x k H. apply N.bits_inj. intros i.
  rewrite N.land_spec, N.pow2_bits_eqb, N.bits_0.
  destruct (N.eqb_spec k i) as [<-|Hne]; [|apply andb_false_r].
  rewrite <- (N.mod_small x (2 ^ k)) by assumption.
  rewrite N.mod_pow2_bits_high by lia. reflexivity.
Qed.

Lemma lxor_flip_low : forall x k, x < 2 ^ k -> N.lxor x (2 ^ k) = x + 2 ^ k.
Proof. intros x k H. symmetry. apply N.add_nocarry_lxor. now apply land_pow2_small. Qed.

Lemma lxor_flip_high : forall x k, 2 ^ k <= x -> x < 2 ^ (k + 1) -> N.lxor x (2 ^ k) = x - 2 ^ k.
Proof.
  intros x k H1 H2. rewrite N.add_1_r, N.pow_succ_r' in H2.
  assert (Hy : x - 2 ^ k < 2 ^ k) by lia.
  replace x with ((x - 2 ^ k) + 2 ^ k) at 1 by lia.
  rewrite <- (lxor_flip_low _ _ Hy), N.lxor_assoc, N.lxor_nilpotent, N.lxor_0_r. reflexivity.
Qed.

(** [encode_i64] adds 2^63 to the two's-complement reading *)
Lemma i64_key : forall z, (- 2 ^ 63 <= z < 2 ^ 63)%Z ->
  N.lxor (i64_as_u64 z) surf_i64_flip = Z.to_N (z + 2 ^ 63).
Proof.
  intros z Hz. unfold i64_as_u64. change surf_i64_flip with (2 ^ 63).
  destruct (Z.ltb_spec z 0) as [Hn|Hp].
  - rewrite lxor_flip_high; change (2 ^ (63 + 1)) with 18446744073709551616;
      change (2 ^ 63) with 9223372036854775808; lia.
  - rewrite lxor_flip_low; change (2 ^ 63) with 9223372036854775808; lia.
Qed.

Lemma i64_key_lt : forall z, (- 2 ^ 63 <= z < 2 ^ 63)%Z -> Z.to_N (z + 2 ^ 63) < 2 ^ 64.
Proof. intros z Hz. change (2 ^ 64) with 18446744073709551616. lia. Qed.

Theorem enc_i64_mono : forall x y,
  (- 2 ^ 63 <= x < 2 ^ 63)%Z -> (- 2 ^ 63 <= y < 2 ^ 63)%Z ->
  bytes_cmp (enc_i64 x) (enc_i64 y) = Z.compare x y.
Proof.
  intros x y Hx Hy. unfold enc_i64. rewrite !i64_key by assumption.
  rewrite be8_lex by (apply i64_key_lt; assumption).
  destruct (Z.compare_spec x y) as [->|H|H].
  - apply N.compare_refl.
  - apply N.compare_lt_iff. lia.
  - apply N.compare_gt_iff. lia.
Qed.

Theorem enc_u64_mono : forall a b, a < 2 ^ 64 -> b < 2 ^ 64 ->
  bytes_cmp (enc_u64 a) (enc_u64 b) = N.compare a b.
Proof. intros. unfold enc_u64. now apply be8_lex. Qed.

(** * Doubles: fields, key, and the order of the denoted values *)

(** the 63 magnitude bits (exponent field and mantissa) *)
Definition f_low (b : N) : N := f_exp b * two52 + f_man b.

Lemma f_fields : forall b, b < 2 ^ 64 ->
  f_man b < two52 /\ f_exp b < 2048 /\
  b = (if f_sign b then 2 ^ 63 else 0) + f_low b.
Proof.
  intros b Hb. unfold f_low, f_man, f_exp, f_sign, two52.
  rewrite N.shiftr_div_pow2, N.testbit_eqb.
  change (2 ^ 52) with 4503599627370496. change (2 ^ 63) with 9223372036854775808.
  change (2 ^ 64) with 18446744073709551616 in Hb.
  destruct (N.eqb_spec ((b / 9223372036854775808) mod 2) 1); lia.
Qed.

Lemma f_low_lt : forall b, b < 2 ^ 64 -> f_low b < 2 ^ 63.
Proof.
  intros b Hb. destruct (f_fields b Hb) as (Hm & He & _). unfold f_low, two52 in *.
  change (2 ^ 52) with 4503599627370496 in *. change (2 ^ 63) with 9223372036854775808. lia.
Qed.

Lemma f_low_inj : forall a b, a < 2 ^ 64 -> b < 2 ^ 64 ->
  f_sign a = f_sign b -> f_low a = f_low b -> a = b.
Proof.
  intros a b Ha Hb Hs Hl.
  destruct (f_fields a Ha) as (_ & _ & Da). destruct (f_fields b Hb) as (_ & _ & Db).
  rewrite Da, Db, Hs, Hl. reflexivity.
Qed.

Definition magf (e m : N) : N := if e =? 0 then m else (two52 + m) * 2 ^ (e - 1).

Lemma f_mag_scaled_magf : forall b, f_mag_scaled b = magf (f_exp b) (f_man b).
Proof. intros. unfold f_mag_scaled, magf. now rewrite N.shiftl_mul_pow2. Qed.

Lemma pow2_ge1 : forall n, 1 <= 2 ^ n.
Proof. intros n. assert (2 ^ n <> 0) by (apply N.pow_nonzero; lia). lia. Qed.

(** the scaled magnitude is strictly increasing in the 63 magnitude bits *)
Lemma magf_mono : forall e1 m1 e2 m2, m1 < two52 -> m2 < two52 ->
  e1 * two52 + m1 < e2 * two52 + m2 -> magf e1 m1 < magf e2 m2.
Proof.
  intros e1 m1 e2 m2 H1 H2 H. unfold magf, two52 in *.
  change (2 ^ 52) with 4503599627370496 in *.
  destruct (N.eqb_spec e1 0) as [->|He1]; destruct (N.eqb_spec e2 0) as [->|He2].
  - lia.
  - pose proof (pow2_ge1 (e2 - 1)) as HP. remember (2 ^ (e2 - 1)) as P2.
    assert ((4503599627370496 + m2) * 1 <= (4503599627370496 + m2) * P2)
      by (apply N.mul_le_mono_l; lia). lia.
  - lia.
  - pose proof (pow2_ge1 (e1 - 1)) as HP1. pose proof (pow2_ge1 (e2 - 1)) as HP2.
    destruct (N.eq_dec e1 e2) as [->|Hne].
    + remember (2 ^ (e2 - 1)) as P2. apply N.mul_lt_mono_pos_r; lia.
    + assert (Hlt : e1 < e2) by lia.
      assert (HPP : 2 * 2 ^ (e1 - 1) <= 2 ^ (e2 - 1)).
      { rewrite <- N.pow_succ_r'. apply N.pow_le_mono_r; lia. }
      remember (2 ^ (e1 - 1)) as P1. remember (2 ^ (e2 - 1)) as P2.
      assert (A1 : (4503599627370496 + m1) * P1 < 9007199254740992 * P1)
        by (apply N.mul_lt_mono_pos_r; lia).
      assert (A2 : 4503599627370496 * (2 * P1) <= 4503599627370496 * P2)
        by (apply N.mul_le_mono_l; lia).
      assert (A3 : 4503599627370496 * P2 <= (4503599627370496 + m2) * P2)
        by (apply N.mul_le_mono_r; lia).
      lia.
Qed.

Lemma f_mag_mono : forall a b, a < 2 ^ 64 -> b < 2 ^ 64 ->
  f_low a < f_low b -> f_mag_scaled a < f_mag_scaled b.
Proof.
  intros a b Ha Hb H. rewrite !f_mag_scaled_magf.
  destruct (f_fields a Ha) as (Hma & _ & _). destruct (f_fields b Hb) as (Hmb & _ & _).
  now apply magf_mono.
Qed.

Lemma f_low_eq_mag : forall a b, a < 2 ^ 64 -> b < 2 ^ 64 ->
  f_low a = f_low b -> f_mag_scaled a = f_mag_scaled b.
Proof.
  intros a b Ha Hb H. rewrite !f_mag_scaled_magf.
  destruct (f_fields a Ha) as (Hma & _ & _). destruct (f_fields b Hb) as (Hmb & _ & _).
  unfold f_low, two52 in *. change (2 ^ 52) with 4503599627370496 in *.
  assert (f_exp a = f_exp b /\ f_man a = f_man b) as [-> ->] by lia. reflexivity.
Qed.

(** magnitudes compare exactly as the magnitude bits *)
Lemma f_mag_compare : forall a b, a < 2 ^ 64 -> b < 2 ^ 64 ->
  N.compare (f_mag_scaled a) (f_mag_scaled b) = N.compare (f_low a) (f_low b).
Proof.
  intros a b Ha Hb. destruct (N.compare_spec (f_low a) (f_low b)) as [E|L|G].
  - rewrite (f_low_eq_mag a b Ha Hb E). apply N.compare_refl.
  - apply N.compare_lt_iff. now apply f_mag_mono.
  - apply N.compare_gt_iff. now apply f_mag_mono.
Qed.

(** the key of [encode_f64] *)
Lemma f64_key_val : forall b, b < 2 ^ 64 ->
  f64_key b = if f_sign b then 2 ^ 63 - 1 - f_low b else 2 ^ 63 + f_low b.
Proof.
  intros b Hb. destruct (f_fields b Hb) as (_ & _ & Hd). pose proof (f_low_lt b Hb) as Hl.
  unfold f64_key. change surf_f64_sign_shift with 63. fold (f_sign b).
  change (N.shiftl 1 63) with (2 ^ 63). unfold two64.
  destruct (f_sign b).
  - change (2 ^ 64) with 18446744073709551616. change (2 ^ 63) with 9223372036854775808 in *. lia.
  - rewrite lxor_flip_low by lia. lia.
Qed.

Lemma f64_key_lt : forall b, b < 2 ^ 64 -> f64_key b < 2 ^ 64.
Proof.
  intros b Hb. rewrite f64_key_val by assumption. pose proof (f_low_lt b Hb).
  change (2 ^ 64) with 18446744073709551616. change (2 ^ 63) with 9223372036854775808 in *.
  destruct (f_sign b); lia.
Qed.

(** sign-magnitude order of bit patterns (IEEE totalOrder) *)
Definition f64_total_cmp (a b : N) : comparison :=
  match f_sign a, f_sign b with
  | false, false => N.compare (f_low a) (f_low b)
  | true, true => N.compare (f_low b) (f_low a)
  | true, false => Lt
  | false, true => Gt
  end.

Theorem enc_f64_mono : forall a b, a < 2 ^ 64 -> b < 2 ^ 64 ->
  bytes_cmp (enc_f64 a) (enc_f64 b) = f64_total_cmp a b.
Proof.
  intros a b Ha Hb. unfold enc_f64. rewrite be8_lex by (apply f64_key_lt; assumption).
  rewrite !f64_key_val by assumption. unfold f64_total_cmp.
  pose proof (f_low_lt a Ha). pose proof (f_low_lt b Hb).
  change (2 ^ 63) with 9223372036854775808 in *.
  destruct (f_sign a), (f_sign b).
  - destruct (N.compare_spec (f_low b) (f_low a)) as [E|L|G].
    + rewrite E. apply N.compare_refl.
    + apply N.compare_lt_iff. lia.
    + apply N.compare_gt_iff. lia.
  - apply N.compare_lt_iff. lia.
  - apply N.compare_gt_iff. lia.
  - destruct (N.compare_spec (f_low a) (f_low b)) as [E|L|G].
    + rewrite E. apply N.compare_refl.
    + apply N.compare_lt_iff. lia.
    + apply N.compare_gt_iff. lia.
Qed.

(** The order of the bit patterns IS the order of the real values they denote
    ([f_val], the value scaled by 2^1074). *)
Theorem f_val_lt_total : forall a b, a < 2 ^ 64 -> b < 2 ^ 64 ->
  (f_val a < f_val b)%Z -> f64_total_cmp a b = Lt.
Proof.
  intros a b Ha Hb. unfold f_val, f64_total_cmp.
  pose proof (f_mag_compare a b Ha Hb) as C1. pose proof (f_mag_compare b a Hb Ha) as C2.
  destruct (f_sign a), (f_sign b); intros H; try reflexivity.
  - rewrite <- C2. apply N.compare_lt_iff. lia.
  - lia.
  - rewrite <- C1. apply N.compare_lt_iff. lia.
Qed.

Theorem f_val_eq_inj : forall a b, a < 2 ^ 64 -> b < 2 ^ 64 ->
  f_val a = f_val b -> f_mag_scaled a <> 0 -> a = b.
Proof.
  intros a b Ha Hb H Hnz. unfold f_val in H.
  pose proof (f_mag_compare a b Ha Hb) as C.
  assert (Hs : f_sign a = f_sign b) by (destruct (f_sign a), (f_sign b); try reflexivity; lia).
  assert (Hm : f_mag_scaled a = f_mag_scaled b) by (destruct (f_sign a), (f_sign b); lia).
  rewrite Hm, N.compare_refl in C. symmetry in C. apply N.compare_eq_iff in C.
  now apply f_low_inj.
Qed.

(** keys of non-zero doubles compare exactly as the values *)
Theorem enc_f64_value_order : forall a b, a < 2 ^ 64 -> b < 2 ^ 64 ->
  f_mag_scaled a <> 0 -> f_mag_scaled b <> 0 ->
  bytes_cmp (enc_f64 a) (enc_f64 b) = Z.compare (f_val a) (f_val b).
Proof.
  intros a b Ha Hb Hza Hzb. destruct (Z.compare_spec (f_val a) (f_val b)) as [E|L|G].
  - rewrite (f_val_eq_inj a b Ha Hb E Hza). apply bytes_cmp_refl.
  - rewrite enc_f64_mono by assumption. now apply f_val_lt_total.
  - rewrite bytes_cmp_antisym, enc_f64_mono by assumption.
    rewrite (f_val_lt_total b a Hb Ha G). reflexivity.
Qed.
