(** Proofs about Model/SurfEnc.v (C08): the three 8-byte lanes of [encode_value] are
    order preserving; the sign-magnitude order of double bit patterns is the order of the
    real values they denote; routing of values to lanes is exact outside saturation. *)
From Coq Require Import ZArith NArith List Bool Lia.
From Coq Require Import ZifyBool ZifyNat ZifyN.
From Snel Require Import Base.Bytes Gen.Params Model.SurfEnc Proofs.SurfLexProofs.
Import ListNotations.
Ltac Zify.zify_post_hook ::= Z.div_mod_to_equations.
Open Scope N_scope.

(** * Big-endian digits *)

Fixpoint be (k : nat) (n : N) : bytes :=
  match k with
  | O => []
  | S k' => (n / 256 ^ N.of_nat k') mod 256 :: be k' n
  end.

Lemma cmp_lex_digits : forall P da ra db rb, ra < P -> rb < P ->
  N.compare (ra + P * da) (rb + P * db) =
  match N.compare da db with Eq => N.compare ra rb | c => c end.
Proof.
  intros P da ra db rb Ha Hb.
  destruct (N.compare_spec da db) as [->|H1|H1].
  - destruct (N.compare_spec ra rb) as [->|H2|H2].
    + apply N.compare_refl.
    + apply N.compare_lt_iff. lia.
    + apply N.compare_gt_iff. lia.
  - apply N.compare_lt_iff.
    assert (P * (da + 1) <= P * db) by (apply N.mul_le_mono_l; lia). lia.
  - apply N.compare_gt_iff.
    assert (P * (db + 1) <= P * da) by (apply N.mul_le_mono_l; lia). lia.
Qed.

Lemma be_length : forall k n, length (be k n) = k.
Proof. induction k as [|k IH]; intros n; cbn [be length]; [reflexivity|]. now rewrite IH. Qed.

Lemma be_lex : forall k a b,
  bytes_cmp (be k a) (be k b) = N.compare (a mod 256 ^ N.of_nat k) (b mod 256 ^ N.of_nat k).
Proof.
  induction k as [|k IH]; intros a b.
  - cbn [be bytes_cmp]. change (256 ^ N.of_nat 0) with 1. now rewrite !N.mod_1_r.
  - cbn [be bytes_cmp]. rewrite IH.
    rewrite Nat2N.inj_succ, N.pow_succ_r', (N.mul_comm 256).
    assert (HP : 256 ^ N.of_nat k <> 0) by (apply N.pow_nonzero; lia).
    rewrite !(N.mod_mul_r _ (256 ^ N.of_nat k) 256) by (assumption || lia).
    rewrite cmp_lex_digits by (apply N.mod_lt; assumption).
    reflexivity.
Qed.

Lemma be8_be : forall n, be8 n = be 8 n.
Proof.
  intros n. unfold be8. rewrite !N.shiftr_div_pow2. cbn [be].
  change (256 ^ N.of_nat 0) with 1. rewrite N.div_1_r. reflexivity.
Qed.

Lemma be8_length : forall n, length (be8 n) = 8%nat.
Proof. reflexivity. Qed.

(** big-endian 8-byte strings compare as the numbers *)
Lemma be8_lex : forall a b, a < 2 ^ 64 -> b < 2 ^ 64 ->
  bytes_cmp (be8 a) (be8 b) = N.compare a b.
Proof.
  intros a b Ha Hb. rewrite !be8_be, be_lex.
  change (256 ^ N.of_nat 8) with (2 ^ 64). now rewrite !N.mod_small.
Qed.

(** * The sign flip *)

Lemma land_pow2_small : forall x k, x < 2 ^ k -> N.land x (2 ^ k) = 0.
Proof.
  intros x k H. apply N.bits_inj. intros i.
  rewrite N.land_spec, N.pow2_bits_eqb, N.bits_0.
  destruct (N.eqb_spec k i) as [<-|Hne]; [|apply andb_false_r].
  rewrite <- (N.mod_small x (2 ^ k)) by assumption.
  rewrite N.mod_pow2_bits_high by lia. reflexivity.
Qed.

Lemma lxor_flip_low : forall x k, x < 2 ^ k -> N.lxor x (2 ^ k) = x + 2 ^ k.
Proof. intros x k H. symmetry. apply N.add_nocarry_lxor. now apply land_pow2_small. Qed.

Lemma lxor_flip_high : forall x k, 2 ^ k <= x -> x < 2 ^ (k + 1) -> N.lxor x (2 ^ k) = x - 2 ^ k.
Proof.
  intros x k H1 H2. rewrite N.add_1_r, N.pow_succ_r' in H2.
  assert (Hy : x - 2 ^ k < 2 ^ k) by lia.
  replace x with ((x - 2 ^ k) + 2 ^ k) at 1 by lia.
  rewrite <- (lxor_flip_low _ _ Hy), N.lxor_assoc, N.lxor_nilpotent, N.lxor_0_r. reflexivity.
Qed.

(** [encode_i64] adds 2^63 to the two's-complement reading *)
Lemma i64_key : forall z, (- 2 ^ 63 <= z < 2 ^ 63)%Z ->
  N.lxor (i64_as_u64 z) surf_i64_flip = Z.to_N (z + 2 ^ 63).
Proof.
  intros z Hz. unfold i64_as_u64. change surf_i64_flip with (2 ^ 63).
  destruct (Z.ltb_spec z 0) as [Hn|Hp].
  - rewrite lxor_flip_high; change (2 ^ (63 + 1)) with 18446744073709551616;
      change (2 ^ 63) with 9223372036854775808; lia.
  - rewrite lxor_flip_low; change (2 ^ 63) with 9223372036854775808; lia.
Qed.

Lemma i64_key_lt : forall z, (- 2 ^ 63 <= z < 2 ^ 63)%Z -> Z.to_N (z + 2 ^ 63) < 2 ^ 64.
Proof. intros z Hz. change (2 ^ 64) with 18446744073709551616. lia. Qed.

Theorem enc_i64_mono : forall x y,
  (- 2 ^ 63 <= x < 2 ^ 63)%Z -> (- 2 ^ 63 <= y < 2 ^ 63)%Z ->
  bytes_cmp (enc_i64 x) (enc_i64 y) = Z.compare x y.
Proof.
  intros x y Hx Hy. unfold enc_i64. rewrite !i64_key by assumption.
  rewrite be8_lex by (apply i64_key_lt; assumption).
  destruct (Z.compare_spec x y) as [->|H|H].
  - apply N.compare_refl.
  - apply N.compare_lt_iff. lia.
  - apply N.compare_gt_iff. lia.
Qed.

Theorem enc_u64_mono : forall a b, a < 2 ^ 64 -> b < 2 ^ 64 ->
  bytes_cmp (enc_u64 a) (enc_u64 b) = N.compare a b.
Proof. intros. unfold enc_u64. now apply be8_lex. Qed.

(** * Doubles: fields, key, and the order of the denoted values *)

(** the 63 magnitude bits (exponent field and mantissa) *)
Definition f_low (b : N) : N := f_exp b * two52 + f_man b.

Lemma f_fields : forall b, b < 2 ^ 64 ->
  f_man b < two52 /\ f_exp b < 2048 /\
  b = (if f_sign b then 2 ^ 63 else 0) + f_low b.
Proof.
  intros b Hb. unfold f_low, f_man, f_exp, f_sign, two52.
  rewrite N.shiftr_div_pow2, N.testbit_eqb.
  change (2 ^ 52) with 4503599627370496. change (2 ^ 63) with 9223372036854775808.
  change (2 ^ 64) with 18446744073709551616 in Hb.
  destruct (N.eqb_spec ((b / 9223372036854775808) mod 2) 1); lia.
Qed.

Lemma f_low_lt : forall b, b < 2 ^ 64 -> f_low b < 2 ^ 63.
Proof.
  intros b Hb. destruct (f_fields b Hb) as (Hm & He & _). unfold f_low, two52 in *.
  change (2 ^ 52) with 4503599627370496 in *. change (2 ^ 63) with 9223372036854775808. lia.
Qed.

Lemma f_low_inj : forall a b, a < 2 ^ 64 -> b < 2 ^ 64 ->
  f_sign a = f_sign b -> f_low a = f_low b -> a = b.
Proof.
  intros a b Ha Hb Hs Hl.
  destruct (f_fields a Ha) as (_ & _ & Da). destruct (f_fields b Hb) as (_ & _ & Db).
  rewrite Da, Db, Hs, Hl. reflexivity.
Qed.

Definition magf (e m : N) : N := if e =? 0 then m else (two52 + m) * 2 ^ (e - 1).

Lemma f_mag_scaled_magf : forall b, f_mag_scaled b = magf (f_exp b) (f_man b).
Proof. intros. unfold f_mag_scaled, magf. now rewrite N.shiftl_mul_pow2. Qed.

Lemma pow2_ge1 : forall n, 1 <= 2 ^ n.
Proof. intros n. assert (2 ^ n <> 0) by (apply N.pow_nonzero; lia). lia. Qed.

(** the scaled magnitude is strictly increasing in the 63 magnitude bits *)
Lemma magf_mono : forall e1 m1 e2 m2, m1 < two52 -> m2 < two52 ->
  e1 * two52 + m1 < e2 * two52 + m2 -> magf e1 m1 < magf e2 m2.
Proof.
  intros e1 m1 e2 m2 H1 H2 H. unfold magf, two52 in *.
  change (2 ^ 52) with 4503599627370496 in *.
  destruct (N.eqb_spec e1 0) as [->|He1]; destruct (N.eqb_spec e2 0) as [->|He2].
  - lia.
  - pose proof (pow2_ge1 (e2 - 1)) as HP. remember (2 ^ (e2 - 1)) as P2.
    assert ((4503599627370496 + m2) * 1 <= (4503599627370496 + m2) * P2)
      by (apply N.mul_le_mono_l; lia). lia.
  - lia.
  - pose proof (pow2_ge1 (e1 - 1)) as HP1. pose proof (pow2_ge1 (e2 - 1)) as HP2.
    destruct (N.eq_dec e1 e2) as [->|Hne].
    + remember (2 ^ (e2 - 1)) as P2. apply N.mul_lt_mono_pos_r; lia.
    + assert (Hlt : e1 < e2) by lia.
      assert (HPP : 2 * 2 ^ (e1 - 1) <= 2 ^ (e2 - 1)).
      { rewrite <- N.pow_succ_r'. apply N.pow_le_mono_r; lia. }
      remember (2 ^ (e1 - 1)) as P1. remember (2 ^ (e2 - 1)) as P2.
      assert (A1 : (4503599627370496 + m1) * P1 < 9007199254740992 * P1)
        by (apply N.mul_lt_mono_pos_r; lia).
      assert (A2 : 4503599627370496 * (2 * P1) <= 4503599627370496 * P2)
        by (apply N.mul_le_mono_l; lia).
      assert (A3 : 4503599627370496 * P2 <= (4503599627370496 + m2) * P2)
        by (apply N.mul_le_mono_r; lia).
      lia.
Qed.

Lemma f_mag_mono : forall a b, a < 2 ^ 64 -> b < 2 ^ 64 ->
  f_low a < f_low b -> f_mag_scaled a < f_mag_scaled b.
Proof.
  intros a b Ha Hb H. rewrite !f_mag_scaled_magf.
  destruct (f_fields a Ha) as (Hma & _ & _). destruct (f_fields b Hb) as (Hmb & _ & _).
  now apply magf_mono.
Qed.

Lemma f_low_eq_mag : forall a b, a < 2 ^ 64 -> b < 2 ^ 64 ->
  f_low a = f_low b -> f_mag_scaled a = f_mag_scaled b.
Proof.
  intros a b Ha Hb H. rewrite !f_mag_scaled_magf.
  destruct (f_fields a Ha) as (Hma & _ & _). destruct (f_fields b Hb) as (Hmb & _ & _).
  unfold f_low, two52 in *. change (2 ^ 52) with 4503599627370496 in *.
  assert (f_exp a = f_exp b /\ f_man a = f_man b) as [-> ->] by lia. reflexivity.
Qed.

(** magnitudes compare exactly as the magnitude bits *)
Lemma f_mag_compare : forall a b, a < 2 ^ 64 -> b < 2 ^ 64 ->
  N.compare (f_mag_scaled a) (f_mag_scaled b) = N.compare (f_low a) (f_low b).
Proof.
  intros a b Ha Hb. destruct (N.compare_spec (f_low a) (f_low b)) as [E|L|G].
  - rewrite (f_low_eq_mag a b Ha Hb E). apply N.compare_refl.
  - apply N.compare_lt_iff. now apply f_mag_mono.
  - apply N.compare_gt_iff. now apply f_mag_mono.
Qed.

(** the key of [encode_f64] *)
Lemma f64_key_val : forall b, b < 2 ^ 64 ->
  f64_key b = if f_sign b then 2 ^ 63 - 1 - f_low b else 2 ^ 63 + f_low b.
Proof.
  intros b Hb. destruct (f_fields b Hb) as (_ & _ & Hd). pose proof (f_low_lt b Hb) as Hl.
  unfold f64_key. change surf_f64_sign_shift with 63. fold (f_sign b).
  change (N.shiftl 1 63) with (2 ^ 63). unfold two64.
  destruct (f_sign b).
  - change (2 ^ 64) with 18446744073709551616. change (2 ^ 63) with 9223372036854775808 in *. lia.
  - rewrite lxor_flip_low by lia. lia.
Qed.

Lemma f64_key_lt : forall b, b < 2 ^ 64 -> f64_key b < 2 ^ 64.
Proof.
  intros b Hb. rewrite f64_key_val by assumption. pose proof (f_low_lt b Hb).
  change (2 ^ 64) with 18446744073709551616. change (2 ^ 63) with 9223372036854775808 in *.
  destruct (f_sign b); lia.
Qed.

(** sign-magnitude order of bit patterns (IEEE totalOrder) *)
Definition f64_total_cmp (a b : N) : comparison :=
  match f_sign a, f_sign b with
  | false, false => N.compare (f_low a) (f_low b)
  | true, true => N.compare (f_low b) (f_low a)
  | true, false => Lt
  | false, true => Gt
  end.

Theorem enc_f64_mono : forall a b, a < 2 ^ 64 -> b < 2 ^ 64 ->
  bytes_cmp (enc_f64 a) (enc_f64 b) = f64_total_cmp a b.
Proof.
  intros a b Ha Hb. unfold enc_f64. rewrite be8_lex by (apply f64_key_lt; assumption).
  rewrite !f64_key_val by assumption. unfold f64_total_cmp.
  pose proof (f_low_lt a Ha). pose proof (f_low_lt b Hb).
  change (2 ^ 63) with 9223372036854775808 in *.
  destruct (f_sign a), (f_sign b).
  - destruct (N.compare_spec (f_low b) (f_low a)) as [E|L|G].
    + rewrite E. apply N.compare_refl.
    + apply N.compare_lt_iff. lia.
    + apply N.compare_gt_iff. lia.
  - apply N.compare_lt_iff. lia.
  - apply N.compare_gt_iff. lia.
  - destruct (N.compare_spec (f_low a) (f_low b)) as [E|L|G].
    + rewrite E. apply N.compare_refl.
    + apply N.compare_lt_iff. lia.
    + apply N.compare_gt_iff. lia.
Qed.

(** The order of the bit patterns IS the order of the real values they denote
    ([f_val], the value scaled by 2^1074). *)
Theorem f_val_lt_total : forall a b, a < 2 ^ 64 -> b < 2 ^ 64 ->
  (f_val a < f_val b)%Z -> f64_total_cmp a b = Lt.
Proof.
  intros a b Ha Hb. unfold f_val, f64_total_cmp.
  pose proof (f_mag_compare a b Ha Hb) as C1. pose proof (f_mag_compare b a Hb Ha) as C2.
  destruct (f_sign a), (f_sign b); intros H; try reflexivity.
  - rewrite <- C2. apply N.compare_lt_iff. lia.
  - lia.
  - rewrite <- C1. apply N.compare_lt_iff. lia.
Qed.

Theorem f_val_eq_inj : forall a b, a < 2 ^ 64 -> b < 2 ^ 64 ->
  f_val a = f_val b -> f_mag_scaled a <> 0 -> a = b.
Proof.
  intros a b Ha Hb H Hnz. unfold f_val in H.
  pose proof (f_mag_compare a b Ha Hb) as C.
  assert (Hs : f_sign a = f_sign b) by (destruct (f_sign a), (f_sign b); try reflexivity; lia).
  assert (Hm : f_mag_scaled a = f_mag_scaled b) by (destruct (f_sign a), (f_sign b); lia).
  rewrite Hm, N.compare_refl in C. symmetry in C. apply N.compare_eq_iff in C.
  now apply f_low_inj.
Qed.

(** keys of non-zero doubles compare exactly as the values *)
Theorem enc_f64_value_order : forall a b, a < 2 ^ 64 -> b < 2 ^ 64 ->
  f_mag_scaled a <> 0 -> f_mag_scaled b <> 0 ->
  bytes_cmp (enc_f64 a) (enc_f64 b) = Z.compare (f_val a) (f_val b).
Proof.
  intros a b Ha Hb Hza Hzb. destruct (Z.compare_spec (f_val a) (f_val b)) as [E|L|G].
  - rewrite (f_val_eq_inj a b Ha Hb E Hza). apply bytes_cmp_refl.
  - rewrite enc_f64_mono by assumption. now apply f_val_lt_total.
  - rewrite bytes_cmp_antisym, enc_f64_mono by assumption.
    rewrite (f_val_lt_total b a Hb Ha G). reflexivity.
Qed.

(** * Integral doubles *)

Lemma some_inj : forall (A : Type) (x y : A), Some x = Some y -> x = y.
Proof. intros A x y H. congruence. Qed.

Lemma f_int_mag_scaled : forall b mag,
  f_int_mag b = Some mag -> f_mag_scaled b = mag * 2 ^ 1074.
Proof.
  intros b mag. unfold f_int_mag, f_mag_scaled.
  generalize (f_exp b) as e. generalize (two52 + f_man b) as sig.
  assert (Hm0 : forall m, m = 0 -> Some 0 = Some mag -> m = mag * 2 ^ 1074).
  { intros m -> H. apply some_inj in H. subst mag. now rewrite N.mul_0_l. }
  generalize (f_man b) as m.
  intros m sig e.
  destruct (N.eqb_spec e 2047) as [|Hfin]; [discriminate|].
  destruct (N.eqb_spec e 0) as [E0|E0].
  - destruct (N.eqb_spec m 0) as [Hm|]; [|discriminate]. now apply Hm0.
  - destruct (N.leb_spec 1075 e) as [Hge|Hlt].
    + intros H. apply some_inj in H. subst mag. rewrite !N.shiftl_mul_pow2.
      assert (Hp : 2 ^ (e - 1) = 2 ^ (e - 1075) * 2 ^ 1074).
      { rewrite <- (N.pow_add_r 2 (e - 1075) 1074). f_equal. lia. }
      rewrite Hp. apply N.mul_assoc.
    + rewrite N.land_ones.
      assert (Hnz : 2 ^ (1075 - e) <> 0) by (apply N.pow_nonzero; lia).
      destruct (N.eqb_spec (sig mod 2 ^ (1075 - e)) 0) as [Hz|]; [|discriminate].
      intros H. apply some_inj in H. subst mag. rewrite N.shiftr_div_pow2, N.shiftl_mul_pow2.
      apply N.div_exact in Hz; [|assumption].
      set (q := sig / 2 ^ (1075 - e)) in *.
      assert (Hp : 2 ^ 1074 = 2 ^ (1075 - e) * 2 ^ (e - 1)).
      { rewrite <- (N.pow_add_r 2 (1075 - e) (e - 1)). f_equal. lia. }
      rewrite Hp, Hz. rewrite (N.mul_comm (2 ^ (1075 - e)) q). apply eq_sym, N.mul_assoc.
Qed.

Lemma num_scale_eq : num_scale = Z.of_N (2 ^ 1074).
Proof. unfold num_scale. rewrite N2Z.inj_pow. reflexivity. Qed.

Lemma num_scale_pos : (0 < num_scale)%Z.
Proof. unfold num_scale. apply Z.pow_pos_nonneg; lia. Qed.

Lemma f_int_val : forall b mag, f_int_mag b = Some mag ->
  f_val b = if f_sign b then (- (Z.of_N mag * num_scale))%Z else (Z.of_N mag * num_scale)%Z.
Proof.
  intros b mag H. unfold f_val. rewrite (f_int_mag_scaled b mag H), N2Z.inj_mul, <- num_scale_eq.
  reflexivity.
Qed.

Global Opaque num_scale.

(** comparing scaled integers *)
Lemma scale_compare : forall x y, Z.compare (x * num_scale) (y * num_scale) = Z.compare x y.
Proof.
  intros x y. pose proof num_scale_pos as HS.
  destruct (Z.compare_spec x y) as [->|H|H].
  - apply Z.compare_refl.
  - apply Z.compare_lt_iff. apply Z.mul_lt_mono_pos_r; assumption.
  - apply Z.compare_gt_iff. apply Z.mul_lt_mono_pos_r; assumption.
Qed.

(** * Routing is exact outside saturation *)

Lemma float_route_RI : forall b z, b < 2 ^ 64 -> f_is_nan b = false -> f_saturates b = false ->
  float_route b = RI z -> f_val b = (z * num_scale)%Z /\ (- 2 ^ 63 <= z < 2 ^ 63)%Z.
Proof.
  intros b z Hb Hnan Hsat. unfold float_route, f_saturates in *.
  destruct (f_is_finite b); [|discriminate].
  destruct (f_int_mag b) as [mag|] eqn:Hm; [|discriminate].
  pose proof (f_int_val b mag Hm) as Hv. unfold two63, two64 in *.
  change (2 ^ 63) with 9223372036854775808 in *. change (2 ^ 64) with 18446744073709551616 in *.
  destruct (N.leb_spec mag 9223372036854775808) as [Hle|Hgt].
  - intros [= <-]. rewrite Hv. destruct (f_sign b); cbn [negb andb] in Hsat.
    + split; [|lia]. now rewrite Z.mul_opp_l.
    + assert (mag <> 9223372036854775808) by lia.
      rewrite Z.min_l by lia. split; [reflexivity|lia].
  - destruct (negb (f_sign b)); discriminate.
Qed.

Lemma float_route_RU : forall b n, b < 2 ^ 64 -> f_saturates b = false ->
  float_route b = RU n -> f_val b = (Z.of_N n * num_scale)%Z /\ n < 2 ^ 64.
Proof.
  intros b n Hb Hsat. unfold float_route, f_saturates in *.
  destruct (f_is_finite b); [|discriminate].
  destruct (f_int_mag b) as [mag|] eqn:Hm; [|discriminate].
  pose proof (f_int_val b mag Hm) as Hv. unfold two63, two64 in *.
  change (2 ^ 63) with 9223372036854775808 in *. change (2 ^ 64) with 18446744073709551616 in *.
  destruct (N.leb_spec mag 9223372036854775808) as [Hle|Hgt]; [discriminate|].
  destruct (f_sign b); cbn [negb andb] in *; [discriminate|].
  intros [= <-]. rewrite Hv.
  assert (mag < 18446744073709551616) by lia.
  rewrite N.min_l by lia. split; [reflexivity|assumption].
Qed.

Lemma float_route_RF : forall b b', float_route b = RF b' -> b' = b /\ f_mag_scaled b <> 0.
Proof.
  intros b b'. unfold float_route.
  assert (Hinf : f_is_finite b = false -> f_mag_scaled b <> 0).
  { unfold f_is_finite, f_mag_scaled. destruct (N.eqb_spec (f_exp b) 2047) as [->|]; [|discriminate].
    intros _. cbn [N.eqb]. rewrite N.shiftl_mul_pow2. apply N.neq_mul_0. split.
    - unfold two52. change (2 ^ 52) with 4503599627370496. lia.
    - apply N.pow_nonzero. lia. }
  destruct (f_is_finite b) eqn:Hfin.
  - destruct (f_int_mag b) as [mag|] eqn:Hm.
    + unfold two63. change (2 ^ 63) with 9223372036854775808.
      destruct (N.leb_spec mag 9223372036854775808) as [Hle|Hgt]; [discriminate|].
      destruct (negb (f_sign b)); [discriminate|].
      intros [= <-]. split; [reflexivity|].
      rewrite (f_int_mag_scaled b mag Hm). apply N.neq_mul_0. split; [lia|].
      apply N.pow_nonzero. lia.
    + intros [= <-]. split; [reflexivity|].
      intros Hz. unfold f_int_mag in Hm. unfold f_mag_scaled in Hz. unfold f_is_finite in Hfin.
      destruct (N.eqb_spec (f_exp b) 2047); [discriminate|].
      destruct (N.eqb_spec (f_exp b) 0) as [E0|E0].
      * rewrite Hz in Hm. discriminate.
      * rewrite N.shiftl_mul_pow2 in Hz. apply N.eq_mul_0 in Hz as [Hz|Hz].
        -- unfold two52 in Hz. change (2 ^ 52) with 4503599627370496 in Hz. lia.
        -- revert Hz. apply N.pow_nonzero. lia.
  - intros [= <-]. split; [reflexivity|]. now apply Hinf.
Qed.

Lemma float_route_cases : forall b, exists r, float_route b = r /\
  match r with RI _ | RU _ | RF _ => True | _ => False end.
Proof.
  intros b. unfold float_route.
  destruct (f_is_finite b); [|eexists; split; [reflexivity|exact I]].
  destruct (f_int_mag b); [|eexists; split; [reflexivity|exact I]].
  destruct (_ <=? _); [eexists; split; [reflexivity|exact I]|].
  destruct (negb _); eexists; split; try reflexivity; exact I.
Qed.

(** integer parsers stay in range *)
Lemma parse_i64_range : forall s z, parse_i64 s = Some z -> (- 2 ^ 63 <= z < 2 ^ 63)%Z.
Proof.
  intros s z. unfold parse_i64, two63. change (2 ^ 63) with 9223372036854775808.
  destruct s as [|c r]; [discriminate|].
  destruct (c =? 43).
  - destruct (digits_nonempty r) as [n|]; [|discriminate].
    destruct (N.ltb_spec n 9223372036854775808); [|discriminate]. intros [= <-]. lia.
  - destruct (c =? 45).
    + destruct (digits_nonempty r) as [n|]; [|discriminate].
      destruct (N.leb_spec n 9223372036854775808); [|discriminate]. intros [= <-]. lia.
    + destruct (digits_val (c :: r) 0) as [n|]; [|discriminate].
      destruct (N.ltb_spec n 9223372036854775808); [|discriminate]. intros [= <-]. lia.
Qed.

Lemma parse_u64_range : forall s n, parse_u64 s = Some n -> n < 2 ^ 64.
Proof.
  intros s n. unfold parse_u64, two64.
  destruct s as [|c r]; [discriminate|].
  destruct (c =? 43).
  - destruct (digits_nonempty r) as [m|]; [|discriminate].
    destruct (N.ltb_spec m (2 ^ 64)); [|discriminate]. now intros [= <-].
  - destruct (digits_val (c :: r) 0) as [m|]; [|discriminate].
    destruct (N.ltb_spec m (2 ^ 64)); [|discriminate]. now intros [= <-].
Qed.

(** The lane coordinate of a value: which lane, and the number the key is the image of. *)
Lemma f_num_some : forall b x, f_num b = Some x -> f_is_nan b = false /\ x = f_val b.
Proof. intros b x. unfold f_num. destruct (f_is_nan b); [discriminate|]. now intros [= <-]. Qed.

(** float part shared by [VFloat] and float-looking strings *)
Lemma float_lane_exact : forall b x, b < 2 ^ 64 -> f_num b = Some x -> f_saturates b = false ->
  match float_route b with
  | RI z => x = (z * num_scale)%Z /\ (- 2 ^ 63 <= z < 2 ^ 63)%Z
  | RU n => x = (Z.of_N n * num_scale)%Z /\ n < 2 ^ 64
  | RF b' => b' = b /\ x = f_val b /\ f_mag_scaled b <> 0
  | _ => False
  end.
Proof.
  intros b x Hb Hn Hsat. apply f_num_some in Hn as [Hnan ->].
  destruct (float_route b) as [z|n|b'| |] eqn:Hr.
  - now apply float_route_RI.
  - now apply float_route_RU.
  - apply float_route_RF in Hr as [-> Hz]. auto.
  - destruct (float_route_cases b) as (r & Hr' & Hc). rewrite Hr in Hr'. subst r. exact Hc.
  - destruct (float_route_cases b) as (r & Hr' & Hc). rewrite Hr in Hr'. subst r. exact Hc.
Qed.

(** what [route_of], [num_of] and [saturates] say about a well-formed numeric value.
    (Hypotheses are taken apart with explicit lemmas rather than [cbn in]: the kernel's
    conversion heuristics are poor on [N.ltb _ (2^64)] against a folded constant.) *)
Lemma wf_float_lt : forall b, sval_wf (VFloat b) = true -> b < 2 ^ 64.
Proof. intros b H. apply N.ltb_lt in H. exact H. Qed.
Lemma wf_str_lt : forall s f, sval_wf (VStr s (Some f)) = true -> f < 2 ^ 64.
Proof. intros s f H. apply N.ltb_lt in H. exact H. Qed.
Lemma wf_int_range : forall z, i64_ok z = true -> (- 2 ^ 63 <= z < 2 ^ 63)%Z.
Proof.
  intros z H. apply andb_prop in H as [H1 H2]. apply Z.leb_le in H1. apply Z.ltb_lt in H2. split; assumption.
Qed.
Lemma sat_float : forall b, saturates (VFloat b) = f_saturates b.
Proof. reflexivity. Qed.

Lemma lane_exact : forall v x, sval_wf v = true -> num_of v = Some x -> saturates v = false ->
  match route_of v with
  | RI z => x = (z * num_scale)%Z /\ (- 2 ^ 63 <= z < 2 ^ 63)%Z
  | RU n => x = (Z.of_N n * num_scale)%Z /\ n < 2 ^ 64
  | RF b => x = f_val b /\ f_mag_scaled b <> 0 /\ b < 2 ^ 64
  | _ => False
  end.
Proof.
  intros v x Hwf Hn Hsat. destruct v as [|bb|z|z|b|s h|].
  - discriminate Hn.
  - discriminate Hn.
  - apply some_inj in Hn. subst x. split; [reflexivity|]. now apply wf_int_range.
  - apply some_inj in Hn. subst x. split; [reflexivity|]. now apply wf_int_range.
  - pose proof (wf_float_lt b Hwf) as Hb.
    pose proof (float_lane_exact b x Hb Hn Hsat) as H.
    change (route_of (VFloat b)) with (float_route b).
    destruct (float_route b); try exact H. destruct H as (-> & H1 & H2). auto.
  - unfold saturates, float_of in Hsat. unfold num_of in Hn. unfold route_of.
    destruct (parse_i64 s) as [i|] eqn:Hi.
    + apply some_inj in Hn. subst x. split; [reflexivity|]. now apply parse_i64_range in Hi.
    + destruct (parse_u64 s) as [u|] eqn:Hu.
      * apply some_inj in Hn. subst x. split; [reflexivity|]. now apply parse_u64_range in Hu.
      * destruct h as [f|]; [|discriminate Hn].
        pose proof (wf_str_lt s f Hwf) as Hb.
        pose proof (float_lane_exact f x Hb Hn Hsat) as H.
        destruct (float_route f); try exact H. destruct H as (-> & H1 & H2). auto.
  - discriminate Hn.
Qed.

(** ** Same lane => keys are 8 bytes and compare exactly as the numbers *)
Theorem same_lane_key_order : forall v p l,
  sval_wf v = true -> sval_wf p = true ->
  saturates v = false -> saturates p = false ->
  lane_of v = Some l -> lane_of p = Some l ->
  exists kv kp a b,
    encode_value v = Some kv /\ encode_value p = Some kp /\
    num_of v = Some a /\ num_of p = Some b /\
    length kv = 8%nat /\ length kp = 8%nat /\
    bytes_cmp kv kp = Z.compare a b.
Proof.
  intros v p l Wv Wp Sv Sp Lv Lp. unfold lane_of in Lv, Lp.
  destruct (num_of v) as [a|] eqn:Na; [|discriminate].
  destruct (num_of p) as [b|] eqn:Nb; [|discriminate].
  pose proof (lane_exact v a Wv Na Sv) as Ev. pose proof (lane_exact p b Wp Nb Sp) as Ep.
  unfold encode_value.
  destruct (route_of v) as [zv|nv|bv| |]; try discriminate;
    destruct (route_of p) as [zp|np|bp| |]; try discriminate;
    injection Lv as <-; try discriminate; clear Lp; cbn [enc_route].
  - destruct Ev as (-> & Rv). destruct Ep as (-> & Rp).
    exists (enc_i64 zv), (enc_i64 zp), (zv * num_scale)%Z, (zp * num_scale)%Z.
    repeat split; try reflexivity. rewrite scale_compare. now apply enc_i64_mono.
  - destruct Ev as (-> & Rv). destruct Ep as (-> & Rp).
    exists (enc_u64 nv), (enc_u64 np), (Z.of_N nv * num_scale)%Z, (Z.of_N np * num_scale)%Z.
    repeat split; try reflexivity. rewrite scale_compare, enc_u64_mono by assumption.
    now rewrite N2Z.inj_compare.
  - destruct Ev as (-> & Zv & Bv). destruct Ep as (-> & Zp & Bp).
    exists (enc_f64 bv), (enc_f64 bp), (f_val bv), (f_val bp).
    repeat split; try reflexivity. now apply enc_f64_value_order.
Qed.

(** every numeric route yields an 8-byte key *)
Lemma enc_route_len8 : forall r k, enc_route r = Some k ->
  match r with RI _ | RU _ | RF _ => length k = 8%nat | _ => True end.
Proof. intros [z|n|b|raw|] k H; cbn [enc_route] in H; try exact I; now injection H as <-. Qed.

Theorem f64_bits_order_is_value_order : forall a b, a < 2 ^ 64 -> b < 2 ^ 64 ->
  ((f_val a < f_val b)%Z -> f64_total_cmp a b = Lt) /\
  (f_mag_scaled a <> 0 -> f_mag_scaled b <> 0 ->
   bytes_cmp (enc_f64 a) (enc_f64 b) = Z.compare (f_val a) (f_val b)).
Proof.
  intros a b Ha Hb. split; [now apply f_val_lt_total|now apply enc_f64_value_order].
Qed.

(** the hypotheses above are satisfiable: 1.5 < 2.5, -2.5 < 1.5 *)
Example f64_order_inhabited :
  (f_val 4609434218613702656 < f_val 4612811918334230528)%Z /\
  (f_val 13836183955189006336 < f_val 4609434218613702656)%Z /\
  f_mag_scaled 4609434218613702656 <> 0.
Proof. repeat split; vm_compute; congruence. Qed.

(** [same_lane_key_order] applies, e.g., to the integer 7 and the integral double 9.0 *)
Example same_lane_inhabited :
  sval_wf (VInt 7) = true /\ sval_wf (VFloat 4621256167635550208) = true /\
  saturates (VInt 7) = false /\ saturates (VFloat 4621256167635550208) = false /\
  lane_of (VInt 7) = Some LI /\ lane_of (VFloat 4621256167635550208) = Some LI.
Proof. repeat split; vm_compute; reflexivity. Qed.

(** completeness of the integrality test: a finite double whose scaled magnitude is a multiple
    of 2^1074 (i.e. whose value is an integer) is recognised *)
Lemma f_int_mag_complete : forall b mag, b < 2 ^ 64 -> f_is_finite b = true ->
  f_mag_scaled b = mag * 2 ^ 1074 -> f_int_mag b = Some mag.
Proof.
  intros b mag Hb Hfin. destruct (f_fields b Hb) as (Hm & He & _).
  unfold f_is_finite in Hfin. unfold f_int_mag, f_mag_scaled.
  revert Hm He Hfin. generalize (f_exp b) as e. generalize (f_man b) as m. intros m e Hm He Hfin.
  assert (P1074 : 2 ^ 1074 <> 0) by (apply N.pow_nonzero; lia).
  destruct (N.eqb_spec e 2047) as [|Hne]; [discriminate Hfin|].
  destruct (N.eqb_spec e 0) as [E0|E0].
  - intros H. assert (Hmag : mag = 0).
    { destruct (N.eq_dec mag 0) as [|Hnz]; [assumption|]. exfalso.
      assert (2 ^ 1074 <= mag * 2 ^ 1074).
      { rewrite <- (N.mul_1_l (2 ^ 1074)) at 1. apply N.mul_le_mono_r. lia. }
      assert (two52 < 2 ^ 1074) by (unfold two52; apply N.pow_lt_mono_r; lia). lia. }
    subst mag. rewrite N.mul_0_l in H. subst m. reflexivity.
  - rewrite N.shiftl_mul_pow2. destruct (N.leb_spec 1075 e) as [Hge|Hlt].
    + intros H. f_equal. rewrite N.shiftl_mul_pow2.
      assert (Hp : 2 ^ (e - 1) = 2 ^ (e - 1075) * 2 ^ 1074).
      { rewrite <- (N.pow_add_r 2 (e - 1075) 1074). f_equal. lia. }
      rewrite Hp, N.mul_assoc in H. now apply N.mul_cancel_r in H.
    + intros H. rewrite N.land_ones.
      assert (Hp : 2 ^ 1074 = 2 ^ (1075 - e) * 2 ^ (e - 1)).
      { rewrite <- (N.pow_add_r 2 (1075 - e) (e - 1)). f_equal. lia. }
      assert (PA : 2 ^ (e - 1) <> 0) by (apply N.pow_nonzero; lia).
      assert (PB : 2 ^ (1075 - e) <> 0) by (apply N.pow_nonzero; lia).
      rewrite Hp, N.mul_assoc in H. apply N.mul_cancel_r in H; [|assumption].
      rewrite H, N.mod_mul by assumption. cbn [N.eqb].
      f_equal. rewrite N.shiftr_div_pow2. now rewrite N.div_mul.
Qed.
