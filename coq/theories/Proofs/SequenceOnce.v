(** Proofs about Model/Sequence.v (C15), part 2: every a-row is matched at most once.
    [subseq l1 l2]: [l1] is obtained from [l2] by deleting elements (order kept). *)
From Coq Require Import ZArith NArith List Bool Lia Sorted Permutation.
From Snel Require Import Base.Bytes Gen.Params Model.Sequence Proofs.SequenceProofs.
Import ListNotations.
Open Scope N_scope.

Inductive subseq {A : Type} : list A -> list A -> Prop :=
| ss_nil : forall l, subseq [] l
| ss_skip : forall x l1 l2, subseq l1 l2 -> subseq l1 (x :: l2)
| ss_take : forall x l1 l2, subseq l1 l2 -> subseq (x :: l1) (x :: l2).

Lemma subseq_In : forall (A : Type) (l1 l2 : list A) x, subseq l1 l2 -> In x l1 -> In x l2.
Proof.
  intros A l1 l2 x H. induction H as [l|y l1 l2 H IH|y l1 l2 H IH]; intros Hx.
  - destruct Hx.
  - right. apply IH. exact Hx.
  - destruct Hx as [Hx|Hx]; [left; exact Hx|right; apply IH; exact Hx].
Qed.

Lemma subseq_NoDup : forall (A : Type) (l1 l2 : list A), subseq l1 l2 -> NoDup l2 -> NoDup l1.
Proof.
  intros A l1 l2 H. induction H as [l|y l1 l2 H IH|y l1 l2 H IH]; intros Hn.
  - constructor.
  - inversion Hn; subst. apply IH. assumption.
  - inversion Hn as [|? ? Hy Hn']; subst. constructor.
    + intros Hin. apply Hy. eapply subseq_In; eassumption.
    + apply IH. exact Hn'.
Qed.

Lemma subseq_length : forall (A : Type) (l1 l2 : list A), subseq l1 l2 -> (length l1 <= length l2)%nat.
Proof.
  intros A l1 l2 H. induction H as [l|y l1 l2 H IH|y l1 l2 H IH]; cbn [length]; lia.
Qed.

(** * The two sweeps spend each a-row once *)

Lemma followed_by_fst_subseq : forall w la lb, subseq (map fst (followed_by w la lb)) la.
Proof.
  intros w la. induction la as [|a0 la IH]; intros lb; [constructor|].
  induction lb as [|b0 lb IHb]; [rewrite followed_by_nil_r; constructor|].
  rewrite followed_by_cons. destruct (ts a0 <=? ts b0).
  - rewrite map_app. destruct (w a0 b0); cbn [map fst app].
    + apply ss_take. apply IH.
    + apply ss_skip. apply IH.
  - exact IHb.
Qed.

Lemma preceded_fixed_fst_subseq : forall w la lb, subseq (map fst (preceded_by_gen true w la lb)) la.
Proof.
  intros w la. induction la as [|a0 la IH]; intros lb; [constructor|].
  destruct lb as [|b0 lb]; [rewrite preceded_fixed_nil_r; constructor|].
  rewrite preceded_fixed_cons. destruct (ts b0 <? ts a0).
  - destruct (latest_before (ts a0) b0 lb) as [l rest]. rewrite map_app. destruct (w a0 l); cbn [map fst app].
    + apply ss_take. apply IH.
    + apply ss_skip. apply IH.
  - apply ss_skip. apply IH.
Qed.

Lemma match_group_fst_subseq : forall lk w g, subseq (map fst (match_group lk w g)) (g_a g).
Proof.
  intros lk w g. unfold match_group. destruct (g_a g) as [|a ga] eqn:Ea; [constructor|].
  destruct (g_b g) as [|b gb] eqn:Eb; [constructor|].
  destruct lk.
  - apply followed_by_fst_subseq.
  - rewrite preceded_by_is_fixed. apply preceded_fixed_fst_subseq.
Qed.

(** * Lifting to the matcher: groups have pairwise different keys *)

Lemma nodup_app : forall (A : Type) (l1 l2 : list A),
  NoDup l1 -> NoDup l2 -> (forall x, In x l1 -> In x l2 -> False) -> NoDup (l1 ++ l2).
Proof.
  intros A l1. induction l1 as [|x l1 IH]; intros l2 H1 H2 Hd; [exact H2|].
  inversion H1 as [|? ? Hx H1']; subst. cbn [app]. constructor.
  - intros Hin. apply in_app_or in Hin. destruct Hin as [Hin|Hin]; [exact (Hx Hin)|].
    apply (Hd x); [left; reflexivity|exact Hin].
  - apply IH; [exact H1'|exact H2|]. intros y Hy1 Hy2. apply (Hd y); [right; exact Hy1|exact Hy2].
Qed.

Lemma existsb_lkey_false : forall k acc, existsb (lkey_eqb k) acc = false -> ~ In k acc.
Proof.
  intros k acc H Hin. assert (Ht : existsb (lkey_eqb k) acc = true).
  { apply existsb_exists. exists k. split; [exact Hin|]. apply lkey_eqb_eq. reflexivity. }
  rewrite H in Ht. discriminate Ht.
Qed.

Lemma keys_of_NoDup : forall l acc, NoDup acc -> NoDup (keys_of l acc).
Proof.
  induction l as [|e r IH]; intros acc Hn; cbn [keys_of]; [exact Hn|].
  destruct (e_link e) as [k|]; [|apply IH; exact Hn].
  destruct (existsb (lkey_eqb k) acc) eqn:E; [apply IH; exact Hn|].
  apply IH. apply nodup_app; [exact Hn|constructor; [intros []|constructor]|].
  intros x Hx [Hk|[]]. subst x. exact (existsb_lkey_false _ _ E Hx).
Qed.

Lemma make_groups_keys : forall la lb, map g_key (make_groups la lb) = keys_of lb (keys_of la []).
Proof.
  intros la lb. unfold make_groups. rewrite map_map. cbn [g_key]. apply map_id.
Qed.

Lemma insert_stable_perm : forall x l, Permutation (insert_stable x l) (x :: l).
Proof.
  intros x l. induction l as [|y r IH]; cbn [insert_stable]; [apply Permutation_refl|].
  destruct (ts y <? ts x); [|apply Permutation_refl].
  eapply Permutation_trans; [apply perm_skip; exact IH|apply perm_swap].
Qed.

Lemma sort_stable_perm : forall l, Permutation (sort_stable l) l.
Proof.
  induction l as [|x l IH]; [apply Permutation_refl|].
  unfold sort_stable in *. cbn [fold_right].
  eapply Permutation_trans; [apply insert_stable_perm|apply perm_skip; exact IH].
Qed.

Lemma insert_group_perm : forall x l, Permutation (insert_group x l) (x :: l).
Proof.
  intros x l. induction l as [|y r IH]; cbn [insert_group]; [apply Permutation_refl|].
  destruct (earliest y <? earliest x); [|apply Permutation_refl].
  eapply Permutation_trans; [apply perm_skip; exact IH|apply perm_swap].
Qed.

Lemma sort_groups_perm : forall l, Permutation (sort_groups l) l.
Proof.
  induction l as [|x l IH]; [apply Permutation_refl|].
  unfold sort_groups in *. cbn [fold_right].
  eapply Permutation_trans; [apply insert_group_perm|apply perm_skip; exact IH].
Qed.

Lemma group_a_NoDup : forall la lb g, NoDup la -> In g (make_groups la lb) -> NoDup (g_a g).
Proof.
  intros la lb g Hn Hg. destruct (make_groups_shape _ _ _ Hg) as [Ha _]. rewrite Ha.
  eapply Permutation_NoDup; [apply Permutation_sym; apply sort_stable_perm|].
  apply NoDup_filter. exact Hn.
Qed.

Lemma group_a_key : forall la lb g x, In g (make_groups la lb) -> In x (g_a g) -> e_link x = Some (g_key g).
Proof.
  intros la lb g x Hg Hx. destruct (make_groups_shape _ _ _ Hg) as [Ha _]. rewrite Ha in Hx.
  apply (proj1 (sort_stable_In _ _)) in Hx. apply (proj1 (filter_In _ _ _)) in Hx. destruct Hx as [_ Hk]. apply has_key_iff. exact Hk.
Qed.

Lemma flat_groups_NoDup : forall (F : group -> list event) gs,
  NoDup (map g_key gs) ->
  (forall g, In g gs -> NoDup (F g)) ->
  (forall g x, In g gs -> In x (F g) -> e_link x = Some (g_key g)) ->
  NoDup (flat_map F gs).
Proof.
  intros F gs. induction gs as [|g gs IH]; intros Hk Hn He; [constructor|]. change (flat_map F (g :: gs)) with (F g ++ flat_map F gs).
  cbn [map] in Hk. inversion Hk as [|? ? Hg Hk']; subst.
  apply nodup_app.
  - apply Hn. left. reflexivity.
  - apply IH; [exact Hk'| |].
    + intros g' Hg'. apply Hn. right. exact Hg'.
    + intros g' x Hg' Hx. apply (He g' x); [right; exact Hg'|exact Hx].
  - intros x Hx1 Hx2. apply in_flat_map in Hx2. destruct Hx2 as [g' [Hg' Hx2]].
    assert (E1 : e_link x = Some (g_key g)) by (apply He; [left; reflexivity|exact Hx1]).
    assert (E2 : e_link x = Some (g_key g')) by (apply (He g' x); [right; exact Hg'|exact Hx2]).
    rewrite E1 in E2. apply Hg. apply in_map_iff. exists g'. split; [|exact Hg'].
    injection E2 as E2. symmetry. exact E2.
Qed.

Lemma map_fst_flat_map : forall (f : group -> list pair) gs,
  map fst (flat_map f gs) = flat_map (fun g => map fst (f g)) gs.
Proof.
  intros f gs. induction gs as [|g gs IH]; [reflexivity|].
  change (flat_map f (g :: gs)) with (f g ++ flat_map f gs).
  change (flat_map (fun g0 => map fst (f g0)) (g :: gs)) with (map fst (f g) ++ flat_map (fun g0 => map fst (f g0)) gs).
  rewrite map_app. f_equal. exact IH.
Qed.

Lemma firstn_NoDup : forall (A : Type) n (l : list A), NoDup l -> NoDup (firstn n l).
Proof.
  intros A n. induction n as [|n IH]; intros l Hn; [constructor|].
  destruct l as [|x l]; [constructor|]. cbn [firstn]. inversion Hn as [|? ? Hx Hn']; subst. constructor.
  - intros Hin. apply Hx. eapply firstn_In. exact Hin.
  - apply IH. exact Hn'.
Qed.

Lemma opt_take_map : forall (A B : Type) (f : A -> B) o l, map f (opt_take o l) = opt_take o (map f l).
Proof.
  intros A B f o l. destruct o as [n|]; cbn [opt_take]; [|reflexivity]. symmetry. apply firstn_map.
Qed.

(** No a-row is matched twice: if the a-rows handed to the matcher are pairwise different (they
    carry their positions), so are the a-components of the returned pairs — for both links, every
    WHERE, every LIMIT and every b-list. *)
Theorem matched_once : forall lk wh ta tb limit la lb,
  NoDup la -> NoDup (map fst (matcher lk wh ta tb limit la lb)).
Proof.
  intros lk wh ta tb limit la lb Hn. unfold matcher, match_sequences.
  rewrite opt_take_map.
  assert (H : NoDup (map fst (flat_map (match_group lk (pair_where wh ta tb)) (sort_groups (make_groups la lb))))).
  { rewrite map_fst_flat_map. apply flat_groups_NoDup.
    - eapply Permutation_NoDup; [apply Permutation_sym; apply Permutation_map; apply sort_groups_perm|].
      rewrite make_groups_keys. apply keys_of_NoDup. apply keys_of_NoDup. constructor.
    - intros g Hg. apply (proj1 (sort_groups_In _ _)) in Hg.
      eapply subseq_NoDup; [apply match_group_fst_subseq|]. eapply group_a_NoDup; eassumption.
    - intros g x Hg Hx. apply (proj1 (sort_groups_In _ _)) in Hg. eapply group_a_key; [exact Hg|].
      eapply subseq_In; [apply match_group_fst_subseq|exact Hx]. }
  destruct limit as [n|]; cbn [opt_take]; [apply firstn_NoDup; exact H|exact H].
Qed.

(** hence no more sequences than a-rows *)
Theorem matched_count_le_a_rows : forall lk wh ta tb limit la lb,
  NoDup la -> (length (matcher lk wh ta tb limit la lb) <= length la)%nat.
Proof.
  intros lk wh ta tb limit la lb Hn.
  assert (E : length (map fst (matcher lk wh ta tb limit la lb)) = length (matcher lk wh ta tb limit la lb)) by apply map_length.
  rewrite <- E. clear E.
  apply NoDup_incl_length; [apply matched_once; exact Hn|].
  intros a Ha. apply in_map_iff in Ha. destruct Ha as [[a' b] [E Hin]]. cbn [fst] in E. subst a'.
  apply pairs_sound in Hin. destruct Hin as [Hin _]. exact Hin.
Qed.

(** the per-group statement, with the order: the a-components of a group's pairs are the group's
    a-rows in their (time) order with some rows deleted *)
Theorem group_matches_follow_a_rows : forall lk w g, subseq (map fst (match_group lk w g)) (g_a g).
Proof. exact match_group_fst_subseq. Qed.

(** non-vacuity: three different a-rows (two link keys), three b-rows, and each matched a-row occurs once *)
Example matched_once_nonvacuous :
  let a1 := ev 0 7 1 f_x 0 in let a2 := ev 1 7 2 f_x 0 in let a3 := ev 2 8 2 f_x 0 in
  let b1 := ev 3 7 3 f_y 0 in let b2 := ev 4 8 1 f_y 0 in let b3 := ev 5 7 4 f_y 0 in
  NoDup [a1; a2; a3] /\
  map fst (matcher FollowedBy None t_pa t_pb None [a1; a2; a3] [b1; b2; b3]) = [a1; a2].
Proof.
  cbv zeta. split; [|vm_compute; reflexivity].
  repeat constructor; cbn [In]; intros H; repeat (destruct H as [H|H]; [discriminate H|]); exact H.
Qed.
