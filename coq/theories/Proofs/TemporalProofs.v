(** Proofs about Model/Temporal.v (C08 part B): calendar buckets, per-zone index,
    builder invariants, the pruner's literal handling, soundness and its limits. *)
From Coq Require Import NArith ZArith List Bool Lia.
From Coq Require Import ZifyBool ZifyNat ZifyN.
From Snel Require Import Base.Bytes Gen.Params Model.ZoneSel Model.Time Model.Temporal Proofs.ZoneSelProofs.
Import ListNotations.

(** * Buckets *)
Section Buckets.
Open Scope N_scope.

Lemma gran_step_secs : forall g, gran_step g = gran_secs g.
Proof. destruct g; reflexivity. Qed.
Lemma gran_secs_pos : forall g, 0 < gran_secs g.
Proof. destruct g; vm_compute; reflexivity. Qed.

Lemma nb_aligned : forall g ts, naive_bucket_of g (naive_bucket_of g ts) = naive_bucket_of g ts.
Proof.
  intros g ts. unfold naive_bucket_of. pose proof (gran_secs_pos g).
  rewrite N.div_mul by lia. reflexivity.
Qed.
Lemma nb_mono : forall g a b, a <= b -> naive_bucket_of g a <= naive_bucket_of g b.
Proof.
  intros g a b Hab. unfold naive_bucket_of. pose proof (gran_secs_pos g).
  apply N.mul_le_mono_r. apply N.div_le_mono; lia.
Qed.
Lemma nb_le : forall g a, naive_bucket_of g a <= a.
Proof.
  intros g a. unfold naive_bucket_of. pose proof (gran_secs_pos g).
  rewrite N.mul_comm. apply N.mul_div_le. lia.
Qed.
Lemma bucket_id_aligned : forall g ts, bucket_id g (naive_bucket_of g ts) = bucket_id g ts.
Proof. intros g ts. unfold bucket_id. now rewrite nb_aligned. Qed.

(** the marking loop *)
Lemma iter_mark : forall g z n t m,
  fst (N.iter n (mark_body g z) (t, m)) = t + n * gran_step g /\
  (forall k, k < n -> in_bucket (snd (N.iter n (mark_body g z) (t, m))) (bucket_id g (t + k * gran_step g)) z) /\
  (forall b z0, in_bucket m b z0 -> in_bucket (snd (N.iter n (mark_body g z) (t, m))) b z0).
Proof.
  intros g z n t m. induction n as [|n IH] using N.peano_ind.
  - cbn [N.iter fst snd]. split; [lia|]. split; [intros k Hk; lia|auto].
  - rewrite N.iter_succ. destruct IH as [Hf [Hk Hm]].
    remember (N.iter n (mark_body g z) (t, m)) as st eqn:Est. destruct st as [t' m'].
    cbn [fst snd] in *. unfold mark_body. cbn [fst snd].
    split; [lia|]. split.
    + intros k Hlt. destruct (N.eq_dec k n) as [->|Hne].
      * subst t'. apply in_bucket_add_same.
      * apply in_bucket_add_mono. apply Hk. lia.
    + intros b z0 Hin. apply in_bucket_add_mono. now apply Hm.
Qed.

Lemma mark_range_mono : forall g z lo hi m b z0,
  in_bucket m b z0 -> in_bucket (mark_range g z lo hi m) b z0.
Proof.
  intros g z lo hi m b z0 Hin. unfold mark_range.
  destruct (naive_bucket_of g hi <? naive_bucket_of g lo); [assumption|].
  now apply iter_mark.
Qed.

Lemma mark_range_spec : forall g z lo hi m ts,
  lo <= ts -> ts <= hi -> in_bucket (mark_range g z lo hi m) (bucket_id g ts) z.
Proof.
  intros g z lo hi m ts Hlo Hhi. unfold mark_range.
  pose proof (nb_mono g lo ts Hlo) as M1. pose proof (nb_mono g ts hi Hhi) as M2.
  destruct (N.ltb_spec (naive_bucket_of g hi) (naive_bucket_of g lo)) as [Hlt|_]; [lia|].
  pose proof (gran_secs_pos g) as Hs.
  set (s := gran_secs g) in *.
  set (a := lo / s). set (b := ts / s). set (c := hi / s).
  assert (Hab : a <= b) by (apply N.div_le_mono; lia).
  assert (Hbc : b <= c) by (apply N.div_le_mono; lia).
  assert (Ea : naive_bucket_of g lo = a * s) by reflexivity.
  assert (Eb : naive_bucket_of g ts = b * s) by reflexivity.
  assert (Ec : naive_bucket_of g hi = c * s) by reflexivity.
  assert (Est : gran_step g = s) by apply gran_step_secs.
  assert (Ecnt : (c * s - a * s) / s = c - a).
  { rewrite <- N.mul_sub_distr_r. apply N.div_mul. lia. }
  rewrite <- (bucket_id_aligned g ts). rewrite Ea, Eb, Ec, Est, Ecnt.
  destruct (iter_mark g z (c - a + 1) (a * s) m) as [_ [Hk _]].
  specialize (Hk (b - a)). rewrite Est in Hk.
  replace (a * s + (b - a) * s) with (b * s) in Hk.
  - apply Hk. lia.
  - rewrite <- N.mul_add_distr_r. f_equal. lia.
Qed.

(** calendar lookups *)
Lemma zones_for_ts_in : forall c ts z,
  in_bucket (cal_hour c) (bucket_id GHour ts) z -> In z (zones_for_ts c ts).
Proof. intros c ts z [s [Hg Hin]]. unfold zones_for_ts. now rewrite Hg. Qed.

Lemma union_where_in : forall p m b s z,
  In (b, s) m -> p b = true -> In z s -> In z (union_where p m).
Proof.
  intros p m b s z. unfold union_where. induction m as [|[b' s'] r IH]; intros Hin Hp Hz; [contradiction|].
  cbn [fold_right fst snd]. destruct Hin as [[= -> ->]|Hin].
  - rewrite Hp. apply zs_union_in. now left.
  - destruct (p b'); [apply zs_union_in; right|]; now apply IH.
Qed.

Lemma zones_for_ge_in : forall c ts b z,
  in_bucket (cal_day c) b z -> bucket_id GDay ts <= b -> In z (zones_for_ge c ts).
Proof.
  intros c ts b z [s [Hg Hin]] Hle. unfold zones_for_ge.
  eapply union_where_in; [eapply am_get_in; eassumption| |assumption].
  cbn. lia.
Qed.
Lemma zones_for_le_in : forall c ts b z,
  in_bucket (cal_day c) b z -> b <= bucket_id GDay ts -> In z (zones_for_le c ts).
Proof.
  intros c ts b z [s [Hg Hin]] Hle. unfold zones_for_le.
  eapply union_where_in; [eapply am_get_in; eassumption| |assumption].
  cbn. lia.
Qed.

(** one calendar is contained in another *)
Definition cal_le (c c' : calendar) : Prop :=
  (forall b z, in_bucket (cal_hour c) b z -> in_bucket (cal_hour c') b z) /\
  (forall b z, in_bucket (cal_day c) b z -> in_bucket (cal_day c') b z).

Lemma cal_le_refl : forall c, cal_le c c.
Proof. intros c. split; auto. Qed.
Lemma cal_le_trans : forall a b c, cal_le a b -> cal_le b c -> cal_le a c.
Proof. intros a b c [H1 H2] [H3 H4]. split; auto. Qed.
Lemma add_zone_range_le : forall c z lo hi, cal_le c (add_zone_range c z lo hi).
Proof. intros c z lo hi. split; intros b z0 H; cbn; now apply mark_range_mono. Qed.
Lemma add_zone_range_hour : forall c z lo hi ts,
  lo <= ts -> ts <= hi -> in_bucket (cal_hour (add_zone_range c z lo hi)) (bucket_id GHour ts) z.
Proof. intros. cbn. now apply mark_range_spec. Qed.
Lemma add_zone_range_day : forall c z lo hi ts,
  lo <= ts -> ts <= hi -> in_bucket (cal_day (add_zone_range c z lo hi)) (bucket_id GDay ts) z.
Proof. intros. cbn. now apply mark_range_spec. Qed.
End Buckets.

Open Scope Z_scope.

(** * [sort_dedup] *)
Lemma zins_in : forall t s x, In x (zins t s) <-> x = t \/ In x s.
Proof.
  intros t s x. induction s as [|y r IH]; cbn [zins].
  - cbn. intuition.
  - destruct (Z.ltb_spec t y).
    + cbn. intuition.
    + destruct (Z.eqb_spec t y) as [->|Hne].
      * cbn. intuition.
      * cbn [In]. rewrite IH. intuition.
Qed.
Lemma sort_dedup_in : forall l x, In x (sort_dedup l) <-> In x l.
Proof.
  intros l x. unfold sort_dedup. induction l as [|y r IH]; cbn [fold_right]; [reflexivity|].
  rewrite zins_in, IH. cbn. intuition.
Qed.

Fixpoint zsorted (l : list Z) : Prop :=
  match l with
  | [] => True
  | x :: r => (forall y, In y r -> x < y) /\ zsorted r
  end.

Lemma zins_sorted : forall t s, zsorted s -> zsorted (zins t s).
Proof.
  intros t s. induction s as [|y r IH]; intros Hs; cbn [zins].
  - cbn. tauto.
  - destruct Hs as [Hy Hr]. destruct (Z.ltb_spec t y) as [Hlt|Hge].
    + cbn [zsorted]. split; [|split; assumption].
      intros x [<-|Hx]; [assumption|]. specialize (Hy x Hx). lia.
    + destruct (Z.eqb_spec t y) as [->|Hne]; [split; assumption|].
      cbn [zsorted]. split; [|now apply IH].
      intros x Hx. apply zins_in in Hx. destruct Hx as [->|Hx]; [lia|now apply Hy].
Qed.
Lemma sort_dedup_sorted : forall l, zsorted (sort_dedup l).
Proof.
  intros l. unfold sort_dedup. induction l as [|y r IH]; cbn [fold_right]; [exact I|].
  now apply zins_sorted.
Qed.

Lemma sorted_hd_le : forall s x, zsorted s -> In x s -> hd 0 s <= x.
Proof.
  intros s x Hs Hin. destruct s as [|y r]; [contradiction|]. cbn [hd].
  destruct Hs as [Hy _]. destruct Hin as [->|Hin]; [lia|]. specialize (Hy x Hin). lia.
Qed.
Lemma sorted_le_last : forall s x, zsorted s -> In x s -> x <= last s 0.
Proof.
  induction s as [|y r IH]; intros x Hs Hin; [contradiction|].
  destruct Hs as [Hy Hr]. destruct r as [|y2 r2].
  - destruct Hin as [->|[]]. cbn. lia.
  - change (last (y :: y2 :: r2) 0) with (last (y2 :: r2) 0).
    destruct Hin as [->|Hin].
    + assert (H2 : y2 <= last (y2 :: r2) 0) by (apply IH; [assumption|now left]).
      specialize (Hy y2 (or_introl eq_refl)). lia.
    + now apply IH.
Qed.

(** * The per-zone index *)
Lemma ft_bounds : forall ts t, In t ts ->
  z_min (from_timestamps ts) <= t <= z_max (from_timestamps ts).
Proof.
  intros ts t Hin. unfold from_timestamps. cbn [z_min z_max].
  pose proof (sort_dedup_sorted ts) as Hs. apply sort_dedup_in in Hin.
  split; [now apply sorted_hd_le|now apply sorted_le_last].
Qed.

Lemma ft_contains : forall ts t, In t ts -> contains_ts (from_timestamps ts) t = true.
Proof.
  intros ts t Hin. pose proof (ft_bounds ts t Hin) as [Hlo Hhi].
  unfold contains_ts.
  destruct (Z.ltb_spec t (z_min (from_timestamps ts))) as [?|_]; [lia|].
  destruct (Z.gtb_spec t (z_max (from_timestamps ts))) as [?|_]; [lia|].
  cbn [orb]. change (zidx_stride >? 1) with false. cbn [andb].
  apply existsb_exists. unfold from_timestamps. cbn [z_min z_keys].
  exists (key_of (hd 0 (sort_dedup ts)) t). split.
  - apply in_map. now apply sort_dedup_in.
  - unfold key_of. apply N.eqb_refl.
Qed.

(** the keys are strictly increasing (so the binary search of the code agrees with
    membership) whenever the span of the zone fits an i64 *)
Lemma to_i64_small : forall z, - 2 ^ 63 <= z < 2 ^ 63 -> to_i64 z = z.
Proof. intros z Hz. unfold to_i64. lia. Qed.

Fixpoint nsorted (l : list N) : Prop :=
  match l with
  | [] => True
  | x :: r => (forall y, In y r -> (x < y)%N) /\ nsorted r
  end.

Lemma keys_sorted_aux : forall mn s,
  zsorted s -> (forall x, In x s -> mn <= x /\ x - mn < 2 ^ 63) -> nsorted (map (key_of mn) s).
Proof.
  intros mn s. induction s as [|x r IH]; intros Hs Hb; [exact I|].
  destruct Hs as [Hx Hr]. cbn [map nsorted]. split.
  - intros k Hk. apply in_map_iff in Hk. destruct Hk as [y [<- Hy]].
    specialize (Hx y Hy).
    destruct (Hb x (or_introl eq_refl)) as [B1 B2]. destruct (Hb y (or_intror Hy)) as [B3 B4].
    unfold key_of. change zidx_stride with 1. rewrite !Z.quot_1_r.
    rewrite !to_i64_small by lia. lia.
  - apply IH; [assumption|]. intros y Hy. apply Hb. now right.
Qed.

Lemma keys_sorted : forall ts,
  (forall a b, In a ts -> In b ts -> b - a < 2 ^ 63) ->
  nsorted (z_keys (from_timestamps ts)).
Proof.
  intros ts Hspan. unfold from_timestamps. cbn [z_keys].
  apply keys_sorted_aux; [apply sort_dedup_sorted|].
  intros x Hx. pose proof (sort_dedup_sorted ts) as Hs.
  split; [now apply sorted_hd_le|].
  destruct (sort_dedup ts) as [|y r] eqn:E; [contradiction|]. cbn [hd].
  apply Hspan; apply sort_dedup_in; rewrite E; [now left|assumption].
Qed.

(** * [min] / [max] of the builder *)
Lemma zmin_list_le : forall l x, In x l -> zmin_list l <= x.
Proof.
  intros l x. unfold zmin_list. generalize (hd 0 l) as d.
  induction l as [|y r IH]; intros d Hin; [contradiction|]. cbn [fold_right].
  destruct Hin as [->|Hin]; [lia|]. specialize (IH d Hin). lia.
Qed.
Lemma zmax_list_ge : forall l x, In x l -> x <= zmax_list l.
Proof.
  intros l x. unfold zmax_list. generalize (hd 0 l) as d.
  induction l as [|y r IH]; intros d Hin; [contradiction|]. cbn [fold_right].
  destruct Hin as [->|Hin]; [lia|]. specialize (IH d Hin). lia.
Qed.
Lemma fold_min_ge : forall l d a, a <= d -> (forall x, In x l -> a <= x) -> a <= fold_right Z.min d l.
Proof.
  induction l as [|y r IH]; intros d a Hd Hl; cbn [fold_right]; [assumption|].
  assert (a <= fold_right Z.min d r) by (apply IH; [assumption|intros x Hx; apply Hl; now right]).
  specialize (Hl y (or_introl eq_refl)). lia.
Qed.
Lemma fold_max_le : forall l d a, d <= a -> (forall x, In x l -> x <= a) -> fold_right Z.max d l <= a.
Proof.
  induction l as [|y r IH]; intros d a Hd Hl; cbn [fold_right]; [assumption|].
  assert (fold_right Z.max d r <= a) by (apply IH; [assumption|intros x Hx; apply Hl; now right]).
  specialize (Hl y (or_introl eq_refl)). lia.
Qed.
Lemma zmin_list_ge : forall l a, l <> [] -> (forall x, In x l -> a <= x) -> a <= zmin_list l.
Proof.
  intros l a Hne Hl. unfold zmin_list. apply fold_min_ge; [|assumption].
  destruct l as [|y r]; [congruence|]. cbn [hd]. apply Hl. now left.
Qed.
Lemma zmax_list_le : forall l a, l <> [] -> (forall x, In x l -> x <= a) -> zmax_list l <= a.
Proof.
  intros l a Hne Hl. unfold zmax_list. apply fold_max_le; [|assumption].
  destruct l as [|y r]; [congruence|]. cbn [hd]. apply Hl. now left.
Qed.

(** * Builder invariants *)
Definition add_zone' (mode : N) (ix : tindex) (zv : N * list Z) : tindex := add_zone mode ix (fst zv) (snd zv).

Lemma build_fold : forall mode zones, build mode zones = fold_left (add_zone' mode) zones tindex_empty.
Proof. reflexivity. Qed.

Lemma zti_lookup_app1 : forall zid l z x,
  zti_lookup zid (l ++ [(z, x)]) = if (z =? zid)%N then Some x else zti_lookup zid l.
Proof.
  intros zid l z x. induction l as [|[z0 x0] r IH]; cbn [app zti_lookup].
  - destruct (z =? zid)%N; reflexivity.
  - rewrite IH. destruct (z =? zid)%N; reflexivity.
Qed.

Lemma add_zone_ztis : forall mode ix zid vals,
  t_ztis (add_zone mode ix zid vals) =
  match vals with [] => t_ztis ix | _ => t_ztis ix ++ [(zid, from_timestamps vals)] end.
Proof.
  intros mode ix zid vals. unfold add_zone. destruct vals as [|v r]; [reflexivity|].
  destruct (cal_range mode (zmin_list (v :: r)) (zmax_list (v :: r))) as [[lo hi]|]; reflexivity.
Qed.

Lemma add_zone_cal_le : forall mode ix zid vals c,
  t_cal ix = Some c -> exists c', t_cal (add_zone mode ix zid vals) = Some c' /\ cal_le c c'.
Proof.
  intros mode ix zid vals c Hc. unfold add_zone. destruct vals as [|v r].
  - exists c. split; [assumption|apply cal_le_refl].
  - destruct (cal_range mode (zmin_list (v :: r)) (zmax_list (v :: r))) as [[lo hi]|]; cbn [t_cal].
    + rewrite Hc. eexists. split; [reflexivity|apply add_zone_range_le].
    + exists c. split; [assumption|apply cal_le_refl].
Qed.

(** the range a zone is registered with: [Z.to_N] clamps at 0, so both modes give
    [to_N min .. to_N max] — mode 0 only for a zone without negative values *)
Lemma cal_range_spec : forall mode mn mx,
  (mode = 0%N -> 0 <= mn /\ 0 <= mx) ->
  cal_range mode mn mx = Some (Z.to_N mn, Z.to_N mx).
Proof.
  intros mode mn mx H. unfold cal_range. destruct mode as [|p].
  - destruct (H eq_refl) as [H1 H2].
    destruct (Z.leb_spec 0 mn); [|lia]. destruct (Z.leb_spec 0 mx); [|lia]. reflexivity.
  - f_equal. f_equal; lia.
Qed.

Lemma add_zone_marks : forall mode ix zid vals,
  vals <> [] -> (mode = 0%N -> forall u, In u vals -> 0 <= u) ->
  exists c, t_cal (add_zone mode ix zid vals) = Some c /\
    forall ts, (Z.to_N (zmin_list vals) <= ts)%N -> (ts <= Z.to_N (zmax_list vals))%N ->
      in_bucket (cal_hour c) (bucket_id GHour ts) zid /\ in_bucket (cal_day c) (bucket_id GDay ts) zid.
Proof.
  intros mode ix zid vals Hne Hb. unfold add_zone. destruct vals as [|v r] eqn:E; [congruence|]. rewrite <- E in *.
  assert (Hv : In v vals) by (rewrite E; now left).
  rewrite cal_range_spec.
  - cbn [t_cal]. eexists. split; [reflexivity|].
    intros ts Hlo Hhi. split; [now apply add_zone_range_hour|now apply add_zone_range_day].
  - intros Hm. specialize (Hb Hm). split.
    + apply zmin_list_ge; [assumption|exact Hb].
    + pose proof (zmax_list_ge vals v Hv). specialize (Hb v Hv). lia.
Qed.

Lemma fold_keeps_lookup : forall mode rest ix zid,
  ~ In zid (map fst rest) ->
  zti_lookup zid (t_ztis (fold_left (add_zone' mode) rest ix)) = zti_lookup zid (t_ztis ix).
Proof.
  intros mode. induction rest as [|[z vs] r IH]; intros ix zid Hnin; cbn [fold_left]; [reflexivity|].
  cbn [map fst In] in Hnin. rewrite IH by tauto. unfold add_zone'. cbn [fst snd].
  rewrite add_zone_ztis. destruct vs; [reflexivity|].
  rewrite zti_lookup_app1. destruct (N.eqb_spec z zid); [subst; tauto|reflexivity].
Qed.

Lemma fold_keeps_cal : forall mode rest ix c,
  t_cal ix = Some c -> exists c', t_cal (fold_left (add_zone' mode) rest ix) = Some c' /\ cal_le c c'.
Proof.
  intros mode. induction rest as [|[z vs] r IH]; intros ix c Hc; cbn [fold_left].
  - exists c. split; [assumption|apply cal_le_refl].
  - destruct (add_zone_cal_le mode ix z vs c Hc) as [c1 [H1 L1]].
    destruct (IH (add_zone' mode ix (z, vs)) c1 H1) as [c2 [H2 L2]].
    exists c2. split; [assumption|eapply cal_le_trans; eassumption].
Qed.

Lemma build_spec : forall mode zones ix zid vals,
  NoDup (map fst zones) -> In (zid, vals) zones -> vals <> [] ->
  zti_lookup zid (t_ztis (fold_left (add_zone' mode) zones ix)) = Some (from_timestamps vals) /\
  ((mode = 0%N -> forall u, In u vals -> 0 <= u) ->
   exists c, t_cal (fold_left (add_zone' mode) zones ix) = Some c /\
     forall ts, (Z.to_N (zmin_list vals) <= ts)%N -> (ts <= Z.to_N (zmax_list vals))%N ->
       in_bucket (cal_hour c) (bucket_id GHour ts) zid /\ in_bucket (cal_day c) (bucket_id GDay ts) zid).
Proof.
  intros mode. induction zones as [|[z vs] r IH]; intros ix zid vals Hnd Hin Hne; [contradiction|].
  cbn [map fst] in Hnd. inversion Hnd as [|? ? Hnin Hnd']; subst.
  cbn [fold_left]. destruct Hin as [[= -> ->]|Hin].
  - split.
    + rewrite fold_keeps_lookup by assumption. unfold add_zone'. cbn [fst snd].
      rewrite add_zone_ztis. destruct vals as [|v0 r0]; [congruence|].
      rewrite zti_lookup_app1. now rewrite N.eqb_refl.
    + intros Hb. destruct (add_zone_marks mode ix zid vals Hne Hb) as [c1 [H1 M1]].
      destruct (fold_keeps_cal mode r (add_zone' mode ix (zid, vals)) c1 H1) as [c2 [H2 [Lh Ld]]].
      exists c2. split; [assumption|]. intros ts Hlo Hhi.
      destruct (M1 ts Hlo Hhi) as [Mh Md]. split; [now apply Lh|now apply Ld].
  - now apply IH.
Qed.

(** * The probe literal *)
Ltac Zify.zify_post_hook ::= Z.div_mod_to_equations.

(** a literal that denotes the integer instant [v] is probed with exactly [v]
    (db7c428: no clamping of the per-zone test any more) *)
Lemma lit_ts_spec : forall l v, lit_value l = Some (LVInt v) -> lit_ts l = v.
Proof.
  intros l v Hl. destruct l as [z|s|n d|]; cbn [lit_value lit_ts] in *.
  - now injection Hl.
  - destruct (parse_str_to_epoch_seconds s) as [p|]; [now injection Hl|discriminate].
  - discriminate.
  - discriminate.
Qed.

(** * Soundness *)

(** the day bucket of the instant (clamped at 0, as the calendar sees it) starts below 2^32 *)
Definition day_in_u32 (x : Z) : Prop :=
  (naive_bucket_of GDay (Z.to_N x) < 2 ^ zidx_bucket_bits)%N.

Lemma bucket_id_small : forall g n,
  (naive_bucket_of g n < 2 ^ zidx_bucket_bits)%N -> bucket_id g n = naive_bucket_of g n.
Proof. intros g n H. unfold bucket_id. now apply N.mod_small. Qed.

Lemma cmp_holds_spec : forall op a b,
  cmp_holds op (a ?= b) = true ->
  match op with
  | OEq | OIn => a = b | ONeq => a <> b
  | OGt => a > b | OGte => a >= b | OLt => a < b | OLte => a <= b
  end.
Proof.
  intros op a b. destruct (Z.compare_spec a b); destruct op; cbn [cmp_holds]; intros; try discriminate; lia.
Qed.

Lemma bypass_temporal : forall op, bypass STemporal op = false.
Proof. intros op. unfold bypass. change zidx_sel_temporal_noneq_bypass with false. apply andb_false_r. Qed.

(** the core: any i64 data (negative included), any signed probe instant [p] *)
Theorem temporal_core : forall mode is_ts zones zid vals t op l p all,
  NoDup (map fst zones) -> In (zid, vals) zones -> In t vals ->
  (mode = 0%N -> forall u, In u vals -> 0 <= u) ->
  lit_ts l = p ->
  In op [OEq; OGt; OGte; OLt; OLte] ->
  cmp_holds op (t ?= p) = true ->
  (op = OEq \/ (day_in_u32 p /\ day_in_u32 t)) ->
  In zid (select_temporal is_ts (build mode zones) all op l).
Proof.
  intros mode is_ts zones zid vals t op l p all Hnd Hin Ht Hb Hp Hop Hcmp Hu32.
  assert (Hne : vals <> []) by (intros ->; contradiction).
  rewrite build_fold.
  destruct (build_spec mode zones tindex_empty zid vals Hnd Hin Hne) as [Hlk Hcal].
  destruct (Hcal Hb) as [c [Hc Hm]].
  pose proof (zmin_list_le vals t Ht) as Hmin. pose proof (zmax_list_ge vals t Ht) as Hmax.
  destruct (Hm (Z.to_N t)) as [Mh Md]; [lia|lia|].
  pose proof (ft_bounds vals t Ht) as [Fmin Fmax].
  pose proof (cmp_holds_spec op t p Hcmp) as Hrel.
  unfold select_temporal, apply_temporal_only.
  assert (Hans : op_answered op = true).
  { cbn in Hop. destruct Hop as [<-|[<-|[<-|[<-|[<-|[]]]]]]; reflexivity. }
  rewrite Hans. cbn [negb]. rewrite Hp, Hc. rewrite select_some by apply bypass_temporal.
  unfold cal_ts. apply filter_In. split.
  - cbn in Hop. destruct Hop as [<-|[<-|[<-|[<-|[<-|[]]]]]]; cbn [zones_intersecting];
      (destruct (Z.ltb_spec (Z.max p 0) 0); [lia|]).
    + cbn in Hrel. rewrite <- Hrel. replace (Z.to_N (Z.max t 0)) with (Z.to_N t) by lia.
      now apply zones_for_ts_in.
    + destruct Hu32 as [?|[U1 U2]]; [discriminate|].
      eapply zones_for_ge_in; [exact Md|]. unfold day_in_u32 in *.
      replace (Z.to_N (Z.max p 0)) with (Z.to_N p) by lia.
      rewrite !bucket_id_small by assumption. apply nb_mono. lia.
    + destruct Hu32 as [?|[U1 U2]]; [discriminate|].
      eapply zones_for_ge_in; [exact Md|]. unfold day_in_u32 in *.
      replace (Z.to_N (Z.max p 0)) with (Z.to_N p) by lia.
      rewrite !bucket_id_small by assumption. apply nb_mono. lia.
    + destruct Hu32 as [?|[U1 U2]]; [discriminate|].
      eapply zones_for_le_in; [exact Md|]. unfold day_in_u32 in *.
      replace (Z.to_N (Z.max p 0)) with (Z.to_N p) by lia.
      rewrite !bucket_id_small by assumption. apply nb_mono. lia.
    + destruct Hu32 as [?|[U1 U2]]; [discriminate|].
      eapply zones_for_le_in; [exact Md|]. unfold day_in_u32 in *.
      replace (Z.to_N (Z.max p 0)) with (Z.to_N p) by lia.
      rewrite !bucket_id_small by assumption. apply nb_mono. lia.
  - rewrite Hlk. cbn in Hop. destruct Hop as [<-|[<-|[<-|[<-|[<-|[]]]]]]; cbn [zone_overlaps].
    + cbn in Hrel. rewrite <- Hrel. now apply ft_contains.
    + lia.
    + lia.
    + lia.
    + lia.
Qed.

(** All of [=, >, >=, <, <=]; any zone count; ANY value lists, pre-1970 values included
    (for the fixed [timestamp] column, mode 0, the zone must hold no negative value);
    any probe, negative included: a zone holding a row that satisfies the probe is a
    candidate, provided the (clamped) day buckets of that row and of the probe start
    below 2^32.  (Replaces [temporal_sound_nonneg]; the two negative-instant classes
    are gone with db7c428.) *)
Theorem temporal_sound : forall mode is_ts zones zid vals t op l v all,
  NoDup (map fst zones) -> In (zid, vals) zones -> In t vals ->
  (mode = 0%N -> forall u, In u vals -> 0 <= u) ->
  lit_value l = Some (LVInt v) ->
  day_in_u32 v -> day_in_u32 t ->
  In op [OEq; OGt; OGte; OLt; OLte] ->
  row_matches op t (LVInt v) = true ->
  In zid (select_temporal is_ts (build mode zones) all op l).
Proof.
  intros mode is_ts zones zid vals t op l v all Hnd Hin Ht Hb Hl Uv Ut Hop Hm.
  eapply temporal_core with (p := v); eauto. now apply lit_ts_spec.
Qed.

(** [=] needs no bound at all on the magnitudes (bucket-id collisions only add zones). *)
Theorem temporal_eq_sound_any_magnitude : forall mode is_ts zones zid vals t l v all,
  NoDup (map fst zones) -> In (zid, vals) zones -> In t vals ->
  (mode = 0%N -> forall u, In u vals -> 0 <= u) ->
  lit_value l = Some (LVInt v) ->
  row_matches OEq t (LVInt v) = true ->
  In zid (select_temporal is_ts (build mode zones) all OEq l).
Proof.
  intros mode is_ts zones zid vals t l v all Hnd Hin Ht Hb Hl Hm.
  eapply temporal_core with (p := v); eauto.
  - now apply lit_ts_spec.
  - cbn. tauto.
Qed.

(** [!=] and [IN] (repaired by f801704): the pruner answers [None] and the selector now
    takes every zone of the segment ([all]); whatever the data and the literal.
    (Was [temporal_neq_refuted].) *)
Theorem temporal_neq_all_zones : forall is_ts ix all op l,
  op = ONeq \/ op = OIn ->
  select_temporal is_ts ix all op l = all.
Proof.
  intros is_ts ix all op l [-> | ->]; unfold select_temporal, apply_temporal_only; cbn [op_answered].
  - change zidx_temporal_handles_neq with false. cbn [negb].
    apply select_none_op_all; reflexivity.
  - cbn [negb]. apply select_none_op_all; reflexivity.
Qed.

Example temporal_sound_hyps_ok :
  let zones := [(0%N, [3599; 3600]); (1%N, [-7200; 86399; 90000])] in
  NoDup (map fst zones) /\ In (1%N, [-7200; 86399; 90000]) zones /\ In 90000 [-7200; 86399; 90000] /\
  lit_value (TLInt 86400) = Some (LVInt 86400) /\ day_in_u32 86400 /\ day_in_u32 90000 /\
  row_matches OGte 90000 (LVInt 86400) = true /\
  select_temporal false (build 1 zones) [0%N; 1%N] OGte (TLInt 86400) = [1%N].
Proof.
  cbn zeta.
  split; [repeat constructor; cbn; intuition discriminate|].
  split; [cbn; tauto|]. split; [cbn; tauto|].
  split; [reflexivity|].
  split; [vm_compute; reflexivity|]. split; [vm_compute; reflexivity|].
  split; vm_compute; reflexivity.
Qed.

(** the former witnesses of [TemporalNegativeValueInZone], [TemporalNegativeProbeGt] and
    [TemporalNeq] now pass (payload field: mode 1) *)
Example temporal_fixed_witnesses_pass :
  select_temporal false (build 1 [(0%N, [-5; 100])]) [0%N] OEq (TLInt 100) = [0%N] /\
  select_temporal false (build 1 [(0%N, [-5; 100])]) [0%N] OEq (TLInt (-5)) = [0%N] /\
  select_temporal false (build 1 [(0%N, [0])]) [0%N] OGt (TLInt (-5)) = [0%N] /\
  select_temporal false (build 1 [(0%N, [1; 2])]) [0%N] ONeq (TLInt 1) = [0%N].
Proof. repeat split; vm_compute; reflexivity. Qed.

(** * What the faithful model still gets wrong (each witness is replayed on the real pruner) *)

(** bucket ids are truncated to 32 bits but compared with [<=]: a probe whose day bucket
    starts at or after 2^32 (7 Feb 2106) wraps below the buckets of present-day data *)
Theorem temporal_u32_wrap_refuted :
  exists zones zid vals t l v,
    NoDup (map fst zones) /\ In (zid, vals) zones /\ In t vals /\ (forall u, In u vals -> 0 <= u) /\
    lit_value l = Some (LVInt v) /\ 0 <= v /\ row_matches OLte t (LVInt v) = true /\
    ~ In zid (select_temporal false (build 1 zones) [zid] OLte l).
Proof.
  exists [(0%N, [1000000])], 0%N, [1000000], 1000000, (TLInt 4295030400), 4295030400.
  split; [repeat constructor; cbn; tauto|].
  split; [cbn; tauto|]. split; [cbn; tauto|].
  split; [intros u [<-|[]]; lia|]. split; [reflexivity|]. split; [lia|].
  split; [vm_compute; reflexivity|]. vm_compute. tauto.
Qed.

(** a Float64 literal is probed as 0, whatever its value: [< 100.5] becomes [< 0] *)
Theorem temporal_float_literal_refuted :
  exists zones zid vals t l n d,
    NoDup (map fst zones) /\ In (zid, vals) zones /\ In t vals /\ (forall u, In u vals -> 0 <= u) /\
    lit_value l = Some (LVRat n d) /\ row_matches OLt t (LVRat n d) = true /\
    ~ In zid (select_temporal false (build 1 zones) [zid] OLt l).
Proof.
  exists [(0%N, [50])], 0%N, [50], 50, (TLFloat 201 2), 201, 2%positive.
  split; [repeat constructor; cbn; tauto|].
  split; [cbn; tauto|]. split; [cbn; tauto|].
  split; [intros u [<-|[]]; lia|]. split; [reflexivity|].
  split; [vm_compute; reflexivity|]. vm_compute. tauto.
Qed.

(** * Known classes and the strongest true statement *)
Definition beyond_u32 (x : Z) : bool :=
  (2 ^ zidx_bucket_bits <=? naive_bucket_of GDay (Z.to_N x))%N.

(** What is left after the fix round, for a row [t] that satisfies the probe:
    [TemporalNonIntegerLiteral] (a Float64 literal with one of [=,>,>=,<,<=]) and
    [TemporalBeyondU32] (a range operator with the probe's or the row's day bucket at or
    beyond 2^32).  [!=] / [IN], negative values and negative probes are no longer in it. *)
Definition temporal_known (t : Z) (op : cmp_op) (l : tlit) : bool :=
  match op with
  | ONeq | OIn => false
  | _ =>
      match lit_value l with
      | None => false
      | Some (LVRat _ _) => true
      | Some (LVInt v) => negb (cmp_op_eqb op OEq) && (beyond_u32 v || beyond_u32 t)
      end
  end.

Lemma beyond_false : forall x, beyond_u32 x = false -> day_in_u32 x.
Proof. intros x H. unfold beyond_u32 in H. unfold day_in_u32. lia. Qed.

(** Outside the known classes every zone that holds a matching row is a candidate: all
    zone counts, all value lists (any sign), every literal with a meaning, every
    operator ([!=] and [IN] included).  [all] is the list of all zones of the segment. *)
Theorem temporal_outside_known : forall mode is_ts zones zid vals t op l lv all,
  NoDup (map fst zones) -> In (zid, vals) zones -> In t vals -> In zid all ->
  (mode = 0%N -> forall u, In u vals -> 0 <= u) ->
  lit_value l = Some lv ->
  temporal_known t op l = false ->
  row_matches op t lv = true ->
  In zid (select_temporal is_ts (build mode zones) all op l).
Proof.
  intros mode is_ts zones zid vals t op l lv all Hnd Hin Ht Hall Hb Hl Hk Hm.
  destruct (cmp_op_eqb op ONeq || cmp_op_eqb op OIn) eqn:Eneq.
  - rewrite temporal_neq_all_zones; [assumption|]. destruct op; try discriminate; tauto.
  - assert (Hop : In op [OEq; OGt; OGte; OLt; OLte]) by (destruct op; cbn in Eneq |- *; try discriminate; tauto).
    assert (Hk' : match lv with
                  | LVRat _ _ => False
                  | LVInt v => negb (cmp_op_eqb op OEq) && (beyond_u32 v || beyond_u32 t) = false
                  end).
    { unfold temporal_known in Hk. rewrite Hl in Hk.
      destruct op; try discriminate; destruct lv; try discriminate; assumption. }
    destruct lv as [v|n d]; [|contradiction].
    cbn [row_matches] in Hm.
    eapply temporal_core with (p := v); eauto.
    + now apply lit_ts_spec.
    + destruct (cmp_op_eqb op OEq) eqn:E.
      * left. destruct op; try discriminate. reflexivity.
      * right. cbn [negb andb] in Hk'. apply orb_false_iff in Hk'. destruct Hk' as [B1 B2].
        split; now apply beyond_false.
Qed.
