(** Lexicographic order on byte strings ([Base.Bytes.bytes_cmp], Rust's [Ord for [u8]]):
    a strict total order; facts used by the trie and filter proofs (C08). *)
From Coq Require Import NArith List Bool Lia.
From Coq Require Import ZifyBool ZifyNat ZifyN.
From Snel Require Import Base.Bytes.
Import ListNotations.
Open Scope N_scope.

Definition blt (a b : bytes) : Prop := bytes_cmp a b = Lt.
Definition ble (a b : bytes) : Prop := bytes_cmp a b <> Gt.

Lemma bytes_cmp_refl : forall a, bytes_cmp a a = Eq.
Proof. induction a as [|x a IH]; cbn [bytes_cmp]; [reflexivity|]. now rewrite N.compare_refl. Qed.

Lemma bytes_cmp_eq : forall a b, bytes_cmp a b = Eq -> a = b.
Proof.
  induction a as [|x a IH]; intros [|y b] H; cbn [bytes_cmp] in H; try discriminate; [reflexivity|].
  destruct (N.compare_spec x y) as [->|Hl|Hg]; try discriminate. f_equal. now apply IH.
Qed.

Lemma bytes_cmp_antisym : forall a b, bytes_cmp b a = CompOpp (bytes_cmp a b).
Proof.
  induction a as [|x a IH]; intros [|y b]; cbn [bytes_cmp]; try reflexivity.
  rewrite (N.compare_antisym x y). destruct (N.compare x y); cbn [CompOpp]; auto.
Qed.

Lemma bytes_cmp_gt_lt : forall a b, bytes_cmp a b = Gt <-> bytes_cmp b a = Lt.
Proof. intros a b. rewrite (bytes_cmp_antisym a b). destruct (bytes_cmp a b); cbn; split; congruence. Qed.

Lemma blt_irrefl : forall a, ~ blt a a.
Proof. intros a H. unfold blt in H. rewrite bytes_cmp_refl in H. discriminate. Qed.

Lemma blt_trans : forall a b c, blt a b -> blt b c -> blt a c.
Proof.
  unfold blt. induction a as [|x a IH]; intros [|y b] [|z c] H1 H2; cbn [bytes_cmp] in *; try discriminate; try reflexivity.
  destruct (N.compare_spec x y) as [->|Hxy|Hxy]; try discriminate.
  - destruct (N.compare_spec y z) as [->|Hyz|Hyz]; try discriminate; [|reflexivity].
    now apply (IH b c).
  - destruct (N.compare_spec y z) as [->|Hyz|Hyz]; try discriminate.
    + destruct (N.compare_spec x z); try lia; reflexivity.
    + destruct (N.compare_spec x z); try lia; reflexivity.
Qed.

Lemma ble_refl : forall a, ble a a.
Proof. intros a. unfold ble. rewrite bytes_cmp_refl. discriminate. Qed.

Lemma ble_cases : forall a b, ble a b <-> (blt a b \/ a = b).
Proof.
  intros a b. unfold ble, blt. split.
  - intros H. destruct (bytes_cmp a b) eqn:E; [right; now apply bytes_cmp_eq|now left|congruence].
  - intros [H| ->]; [rewrite H; discriminate| rewrite bytes_cmp_refl; discriminate].
Qed.

Lemma blt_ble : forall a b, blt a b -> ble a b.
Proof. intros a b H. apply ble_cases. now left. Qed.

Lemma ble_lt_trans : forall a b c, ble a b -> blt b c -> blt a c.
Proof. intros a b c H1 H2. apply ble_cases in H1 as [H1| ->]; [eapply blt_trans; eauto|assumption]. Qed.

Lemma blt_le_trans : forall a b c, blt a b -> ble b c -> blt a c.
Proof. intros a b c H1 H2. apply ble_cases in H2 as [H2| <-]; [eapply blt_trans; eauto|assumption]. Qed.

Lemma ble_trans : forall a b c, ble a b -> ble b c -> ble a c.
Proof.
  intros a b c H1 H2. apply ble_cases in H1 as [H1| ->]; [|assumption].
  apply blt_ble. eapply blt_le_trans; eauto.
Qed.

Lemma not_blt_ble : forall a b, ~ blt a b <-> ble b a.
Proof.
  intros a b. unfold blt, ble. rewrite (bytes_cmp_antisym a b).
  destruct (bytes_cmp a b); cbn [CompOpp]; split; intros; congruence.
Qed.

Lemma not_ble_blt : forall a b, ~ ble a b <-> blt b a.
Proof.
  intros a b. unfold blt, ble. rewrite (bytes_cmp_antisym a b).
  destruct (bytes_cmp a b); cbn [CompOpp]; split; intros H; try congruence;
    try (exfalso; apply H; discriminate).
Qed.

Lemma blt_total : forall a b, blt a b \/ a = b \/ blt b a.
Proof.
  intros a b. destruct (bytes_cmp a b) eqn:E.
  - right; left. now apply bytes_cmp_eq.
  - now left.
  - right; right. now apply bytes_cmp_gt_lt.
Qed.

Lemma ble_antisym : forall a b, ble a b -> ble b a -> a = b.
Proof.
  intros a b H1 H2. apply ble_cases in H1 as [H1| ->]; [|reflexivity].
  apply not_blt_ble in H2. contradiction.
Qed.

Lemma blt_dec : forall a b, {blt a b} + {~ blt a b}.
Proof. intros a b. unfold blt. destruct (bytes_cmp a b); [right|left|right]; congruence. Qed.

(** structure *)
Lemma bytes_cmp_nil_l : forall b, bytes_cmp [] b = match b with [] => Eq | _ => Lt end.
Proof. now intros [|y b]. Qed.

Lemma ble_nil_l : forall b, ble [] b.
Proof. intros [|y b]; unfold ble; cbn; discriminate. Qed.

Lemma blt_nil_r : forall a, ~ blt a [].
Proof. intros [|x a]; unfold blt; cbn; discriminate. Qed.

Lemma ble_nil_r : forall a, ble a [] -> a = [].
Proof. intros [|x a] H; [reflexivity|]. exfalso. apply H. reflexivity. Qed.

Lemma bytes_cmp_cons_same : forall x a b, bytes_cmp (x :: a) (x :: b) = bytes_cmp a b.
Proof. intros. cbn [bytes_cmp]. now rewrite N.compare_refl. Qed.

Lemma bytes_cmp_cons_lt : forall x y a b, x < y -> bytes_cmp (x :: a) (y :: b) = Lt.
Proof. intros x y a b H. cbn [bytes_cmp]. apply N.compare_lt_iff in H. now rewrite H. Qed.

Lemma bytes_cmp_cons_gt : forall x y a b, y < x -> bytes_cmp (x :: a) (y :: b) = Gt.
Proof. intros x y a b H. cbn [bytes_cmp]. apply N.compare_gt_iff in H. now rewrite H. Qed.

Lemma blt_cons : forall x y a b, blt (x :: a) (y :: b) <-> (x < y \/ (x = y /\ blt a b)).
Proof.
  intros x y a b. unfold blt. cbn [bytes_cmp].
  destruct (N.compare_spec x y) as [->|H|H]; split; intros H'.
  - right. now split.
  - destruct H' as [H'|[_ H']]; [lia|assumption].
  - now left.
  - reflexivity.
  - discriminate.
  - destruct H' as [H'|[H' _]]; lia.
Qed.

Lemma ble_cons : forall x y a b, ble (x :: a) (y :: b) <-> (x < y \/ (x = y /\ ble a b)).
Proof.
  intros x y a b. unfold ble. cbn [bytes_cmp].
  destruct (N.compare_spec x y) as [->|H|H]; split; intros H'.
  - right. now split.
  - destruct H' as [H'|[_ H']]; [lia|assumption].
  - now left.
  - discriminate.
  - exfalso. now apply H'.
  - destruct H' as [H'|[H' _]]; lia.
Qed.

Lemma bytes_cmp_app_prefix : forall p a b, bytes_cmp (p ++ a) (p ++ b) = bytes_cmp a b.
Proof. induction p as [|x p IH]; intros a b; cbn [app]; [reflexivity|]. rewrite bytes_cmp_cons_same. apply IH. Qed.

(** a proper prefix is smaller *)
Definition proper_prefix (k t : bytes) : Prop := exists s, s <> [] /\ t = k ++ s.

Lemma proper_prefix_blt : forall k t, proper_prefix k t -> blt k t.
Proof.
  intros k t (s & Hs & ->). unfold blt.
  rewrite <- (app_nil_r k) at 1. rewrite bytes_cmp_app_prefix.
  destruct s; [congruence|reflexivity].
Qed.

(** equal-length strings: comparison never ends on a length difference *)
Lemma bytes_ltb_spec : forall a b, (match bytes_cmp a b with Lt => true | _ => false end) = true <-> blt a b.
Proof. intros a b. unfold blt. destruct (bytes_cmp a b); split; congruence. Qed.
