(** Proofs about Model/Agg.v (C09): the aggregators form a commutative monoid, a
    row update is a merge with a one-cell state, hence folding a concatenation is
    merging the folds; what the partial-state snapshot does to that law. *)
From Coq Require Import ZArith NArith List Bool Lia Permutation Sorting.Sorted.
From Coq Require Import ZifyBool ZifyNat ZifyN.
From Snel Require Import Base.Bytes Base.OrdF64 Gen.Params Model.Order Model.Bucket Model.Agg.
From Snel Require Import Proofs.SortMergeProofs Proofs.OrderProofs.
Import ListNotations.
Open Scope Z_scope.

(** * i64 wrap-around *)
Definition in_i64 (z : Z) : Prop := - two63 <= z < two63.

Lemma wrap_i64_range : forall z, in_i64 (wrap_i64 z).
Proof.
  intros z. unfold in_i64, wrap_i64, two63, two64.
  pose proof (Z.mod_pos_bound (z + 9223372036854775808) 18446744073709551616 ltac:(lia)). lia.
Qed.

Lemma wrap_i64_id : forall z, in_i64 z -> wrap_i64 z = z.
Proof.
  intros z H. unfold in_i64, wrap_i64, two63, two64 in *.
  rewrite Z.mod_small by lia. lia.
Qed.

Lemma wrap_i64_add_l : forall x y, wrap_i64 (wrap_i64 x + y) = wrap_i64 (x + y).
Proof.
  intros x y. unfold wrap_i64.
  replace ((x + two63) mod two64 - two63 + y + two63) with ((x + two63) mod two64 + y) by lia.
  rewrite Zplus_mod_idemp_l. f_equal. f_equal. lia.
Qed.

Lemma wrap_i64_add_r : forall x y, wrap_i64 (x + wrap_i64 y) = wrap_i64 (x + y).
Proof. intros x y. rewrite Z.add_comm, wrap_i64_add_l. f_equal. lia. Qed.

(** * Byte strings are totally ordered *)
Lemma bytes_cmp_eq : forall a b, bytes_cmp a b = Eq -> a = b.
Proof.
  induction a as [|x a IH]; intros [|y b] H; cbn in H; try discriminate; [reflexivity|].
  destruct (N.compare_spec x y); try discriminate. subst. f_equal. auto.
Qed.

Lemma bytes_cmp_refl : forall a, bytes_cmp a a = Eq.
Proof. intros a. apply (cmp_refl bytes_cmp bytes_cmp_tp). Qed.

Lemma bytes_cmp_lt_trans : forall a b c, bytes_cmp a b = Lt -> bytes_cmp b c = Lt -> bytes_cmp a c = Lt.
Proof.
  intros a b c H1 H2. apply (cmp_lt_le_trans bytes_cmp bytes_cmp_tp a b c H1). unfold cle. congruence.
Qed.

Lemma bytes_cmp_gt_lt : forall a b, bytes_cmp a b = Gt <-> bytes_cmp b a = Lt.
Proof.
  intros a b. rewrite (tp_sym _ bytes_cmp_tp a b). destruct (bytes_cmp a b); cbn; split; congruence.
Qed.

(** * Minima and maxima *)
Lemma min_z_min : forall a b, min_z a b = Z.min a b.
Proof. intros a b. unfold min_z. destruct (Z.ltb_spec b a); lia. Qed.
Lemma max_z_max : forall a b, max_z a b = Z.max a b.
Proof. intros a b. unfold max_z. destruct (Z.ltb_spec a b); lia. Qed.
Lemma min_z_comm : forall a b, min_z a b = min_z b a.
Proof. intros. rewrite !min_z_min. apply Z.min_comm. Qed.
Lemma min_z_assoc : forall a b c, min_z (min_z a b) c = min_z a (min_z b c).
Proof. intros. rewrite !min_z_min. symmetry. apply Z.min_assoc. Qed.
Lemma max_z_comm : forall a b, max_z a b = max_z b a.
Proof. intros. rewrite !max_z_max. apply Z.max_comm. Qed.
Lemma max_z_assoc : forall a b c, max_z (max_z a b) c = max_z a (max_z b c).
Proof. intros. rewrite !max_z_max. symmetry. apply Z.max_assoc. Qed.

Lemma min_z_range : forall a b, in_i64 a -> in_i64 b -> in_i64 (min_z a b).
Proof. intros a b. unfold min_z. destruct (b <? a); auto. Qed.
Lemma max_z_range : forall a b, in_i64 a -> in_i64 b -> in_i64 (max_z a b).
Proof. intros a b. unfold max_z. destruct (a <? b); auto. Qed.

Lemma bytes_ltb_lt : forall a b, bytes_ltb a b = true <-> bytes_cmp a b = Lt.
Proof. intros a b. unfold bytes_ltb. destruct (bytes_cmp a b); split; congruence. Qed.

(** three-way case analysis on two strings *)
Lemma bytes_cases : forall a b,
  (bytes_cmp a b = Lt /\ bytes_cmp b a = Gt) \/ (a = b) \/ (bytes_cmp a b = Gt /\ bytes_cmp b a = Lt).
Proof.
  intros a b. destruct (bytes_cmp a b) eqn:E.
  - right. left. now apply bytes_cmp_eq.
  - left. split; [reflexivity|]. rewrite (tp_sym _ bytes_cmp_tp a b), E. reflexivity.
  - right. right. split; [reflexivity|]. rewrite (tp_sym _ bytes_cmp_tp a b), E. reflexivity.
Qed.

Lemma min_b_comm : forall a b, min_b a b = min_b b a.
Proof.
  intros a b. unfold min_b, bytes_ltb.
  destruct (bytes_cases a b) as [[H1 H2]|[->|[H1 H2]]]; rewrite ?H1, ?H2, ?bytes_cmp_refl; reflexivity.
Qed.

Lemma max_b_comm : forall a b, max_b a b = max_b b a.
Proof.
  intros a b. unfold max_b, bytes_ltb.
  destruct (bytes_cases a b) as [[H1 H2]|[->|[H1 H2]]]; rewrite ?H1, ?H2, ?bytes_cmp_refl; reflexivity.
Qed.

Lemma min_b_spec : forall a b,
  (min_b a b = a /\ bytes_cmp a b <> Gt) \/ (min_b a b = b /\ bytes_cmp b a = Lt).
Proof.
  intros a b. unfold min_b, bytes_ltb.
  destruct (bytes_cases a b) as [[H1 H2]|[->|[H1 H2]]]; rewrite ?H1, ?H2, ?bytes_cmp_refl.
  - left. split; [reflexivity|congruence].
  - left. split; [reflexivity|congruence].
  - right. split; reflexivity || assumption.
Qed.

Lemma max_b_spec : forall a b,
  (max_b a b = a /\ bytes_cmp a b <> Lt) \/ (max_b a b = b /\ bytes_cmp a b = Lt).
Proof.
  intros a b. unfold max_b, bytes_ltb.
  destruct (bytes_cases a b) as [[H1 H2]|[->|[H1 H2]]]; rewrite ?H1, ?H2, ?bytes_cmp_refl.
  - right. split; reflexivity.
  - left. split; [reflexivity|congruence].
  - left. split; [reflexivity|congruence].
Qed.

Notation ble := (cle bytes_cmp).

Lemma ble_antisym : forall a b, ble a b -> ble b a -> a = b.
Proof. intros a b H1 H2. apply bytes_cmp_eq. apply (cle_antisym bytes_cmp bytes_cmp_tp); assumption. Qed.

Lemma min_b_glb : forall a b, ble (min_b a b) a /\ ble (min_b a b) b /\ (min_b a b = a \/ min_b a b = b).
Proof.
  intros a b. destruct (min_b_spec a b) as [[E L]|[E L]]; rewrite E.
  - repeat split; [apply (cle_refl bytes_cmp bytes_cmp_tp)|exact L|now left].
  - repeat split; [unfold cle; congruence|apply (cle_refl bytes_cmp bytes_cmp_tp)|now right].
Qed.

Lemma max_b_lub : forall a b, ble a (max_b a b) /\ ble b (max_b a b) /\ (max_b a b = a \/ max_b a b = b).
Proof.
  intros a b. destruct (max_b_spec a b) as [[E L]|[E L]]; rewrite E.
  - repeat split; [apply (cle_refl bytes_cmp bytes_cmp_tp)| |now left].
    unfold cle. rewrite (tp_sym _ bytes_cmp_tp a b). destruct (bytes_cmp a b); cbn; congruence.
  - repeat split; [unfold cle; congruence|apply (cle_refl bytes_cmp bytes_cmp_tp)|now right].
Qed.

Lemma min_b_assoc : forall a b c, min_b (min_b a b) c = min_b a (min_b b c).
Proof.
  intros a b c.
  pose proof (tp_trans _ bytes_cmp_tp) as T.
  destruct (min_b_glb a b) as (A1 & A2 & A3). destruct (min_b_glb (min_b a b) c) as (B1 & B2 & B3).
  destruct (min_b_glb b c) as (C1 & C2 & C3). destruct (min_b_glb a (min_b b c)) as (D1 & D2 & D3).
  set (x := min_b (min_b a b) c) in *. set (y := min_b a (min_b b c)) in *.
  assert (Xa : ble x a) by exact (T _ _ _ B1 A1).
  assert (Xb : ble x b) by exact (T _ _ _ B1 A2).
  assert (Yb : ble y b) by exact (T _ _ _ D2 C1).
  assert (Yc : ble y c) by exact (T _ _ _ D2 C2).
  apply ble_antisym.
  - destruct D3 as [-> | ->]; [exact Xa|]. destruct C3 as [-> | ->]; assumption.
  - destruct B3 as [-> | ->]; [|exact Yc]. destruct A3 as [-> | ->]; assumption.
Qed.

Lemma max_b_assoc : forall a b c, max_b (max_b a b) c = max_b a (max_b b c).
Proof.
  intros a b c.
  pose proof (tp_trans _ bytes_cmp_tp) as T.
  destruct (max_b_lub a b) as (A1 & A2 & A3). destruct (max_b_lub (max_b a b) c) as (B1 & B2 & B3).
  destruct (max_b_lub b c) as (C1 & C2 & C3). destruct (max_b_lub a (max_b b c)) as (D1 & D2 & D3).
  set (x := max_b (max_b a b) c) in *. set (y := max_b a (max_b b c)) in *.
  assert (Xa : ble a x) by exact (T _ _ _ A1 B1).
  assert (Xb : ble b x) by exact (T _ _ _ A2 B1).
  assert (Yb : ble b y) by exact (T _ _ _ C1 D2).
  assert (Yc : ble c y) by exact (T _ _ _ C2 D2).
  apply ble_antisym.
  - destruct B3 as [-> | ->]; [|exact Yc]. destruct A3 as [-> | ->]; assumption.
  - destruct D3 as [-> | ->]; [exact Xa|]. destruct C3 as [-> | ->]; assumption.
Qed.

Lemma opt_merge_comm : forall {A} (f : A -> A -> A), (forall a b, f a b = f b a) ->
  forall a b, opt_merge f a b = opt_merge f b a.
Proof. intros A f H [a|] [b|]; cbn; try reflexivity. now rewrite H. Qed.

Lemma opt_merge_assoc : forall {A} (f : A -> A -> A), (forall a b c, f (f a b) c = f a (f b c)) ->
  forall a b c, opt_merge f (opt_merge f a b) c = opt_merge f a (opt_merge f b c).
Proof. intros A f H [a|] [b|] [c|]; cbn; try reflexivity. now rewrite H. Qed.

Lemma opt_merge_none_r : forall {A} (f : A -> A -> A) a, opt_merge f a None = a.
Proof. intros A f [a|]; reflexivity. Qed.

(** * Sets of strings as strictly sorted lists *)
Definition blt (a b : bytes) : Prop := bytes_cmp a b = Lt.
Definition sset (l : list bytes) : Prop := StronglySorted blt l.

Lemma set_insert_in : forall x y l, In y (set_insert x l) <-> y = x \/ In y l.
Proof.
  induction l as [|z r IH]; cbn.
  - intuition.
  - destruct (bytes_cmp x z) eqn:E; cbn.
    + apply bytes_cmp_eq in E. subst. intuition.
    + intuition.
    + rewrite IH. intuition.
Qed.

Lemma set_insert_sset : forall x l, sset l -> sset (set_insert x l).
Proof.
  induction l as [|z r IH]; intros S; cbn.
  - repeat constructor.
  - inversion S as [|? ? S' F]; subst. destruct (bytes_cmp x z) eqn:E.
    + exact S.
    + constructor; [exact S|]. constructor; [exact E|].
      apply Forall_forall. intros w Hw. rewrite Forall_forall in F.
      eapply bytes_cmp_lt_trans; [exact E|apply F, Hw].
    + constructor; [apply IH; exact S'|]. apply Forall_forall. intros w Hw. apply set_insert_in in Hw.
      destruct Hw as [->|Hw]; [now apply bytes_cmp_gt_lt|]. rewrite Forall_forall in F. auto.
Qed.

Lemma sset_ext : forall l1 l2, sset l1 -> sset l2 -> (forall x, In x l1 <-> In x l2) -> l1 = l2.
Proof.
  induction l1 as [|a l1 IH]; intros l2 S1 S2 H.
  - destruct l2 as [|b l2]; [reflexivity|]. exfalso. apply (H b). now left.
  - destruct l2 as [|b l2]; [exfalso; apply (H a); now left|].
    inversion S1 as [|? ? S1' F1]; subst. inversion S2 as [|? ? S2' F2]; subst.
    rewrite Forall_forall in F1, F2.
    assert (a = b).
    { destruct (proj1 (H a) (or_introl eq_refl)) as [E|Ha]; [now symmetry|].
      destruct (proj2 (H b) (or_introl eq_refl)) as [E|Hb]; [exact E|].
      exfalso. pose proof (F1 b Hb) as L1. pose proof (F2 a Ha) as L2. unfold blt in *.
      pose proof (bytes_cmp_lt_trans a b a L1 L2) as C. rewrite bytes_cmp_refl in C. discriminate. }
    subst b. f_equal. apply IH; auto. intros x. split; intros Hx.
    + destruct (proj1 (H x) (or_intror Hx)) as [E|Hx']; [|exact Hx'].
      subst x. exfalso. pose proof (F1 a Hx) as C. unfold blt in C. rewrite bytes_cmp_refl in C. discriminate.
    + destruct (proj2 (H x) (or_intror Hx)) as [E|Hx']; [|exact Hx'].
      subst x. exfalso. pose proof (F2 a Hx) as C. unfold blt in C. rewrite bytes_cmp_refl in C. discriminate.
Qed.

Lemma set_union_in : forall a b x, In x (set_union a b) <-> In x a \/ In x b.
Proof.
  intros a b. induction b as [|y b IH]; intros x; cbn.
  - intuition.
  - rewrite set_insert_in, IH. intuition.
Qed.

Lemma set_union_sset : forall a b, sset a -> sset (set_union a b).
Proof. intros a b S. induction b as [|y b IH]; cbn; [exact S|now apply set_insert_sset]. Qed.

Lemma set_union_comm : forall a b, sset a -> sset b -> set_union a b = set_union b a.
Proof.
  intros a b Sa Sb. apply sset_ext; try now apply set_union_sset.
  intros x. rewrite !set_union_in. tauto.
Qed.

Lemma set_union_assoc : forall a b c, sset a ->
  set_union (set_union a b) c = set_union a (set_union b c).
Proof.
  intros a b c Sa. apply sset_ext.
  - now apply set_union_sset, set_union_sset.
  - now apply set_union_sset.
  - intros x. rewrite !set_union_in. tauto.
Qed.

Lemma set_union_nil_l : forall b, sset b -> set_union [] b = b.
Proof.
  intros b Sb. apply sset_ext; [apply set_union_sset; constructor|exact Sb|].
  intros x. rewrite set_union_in. cbn. tauto.
Qed.

(** * Well-formed aggregator states of a metric kind *)
Definition unparsable (s : option bytes) : Prop :=
  match s with Some x => parse_i64 x = None | None => True end.
Definition opt_in_i64 (n : option Z) : Prop :=
  match n with Some v => in_i64 v | None => True end.

Definition wf (k : mkind) (a : agg) : Prop :=
  match k, a with
  | (MCountAll | MCountField), ACount n => in_i64 n
  | MCountUnique, AUnique s => sset s
  | MTotal, ASum s => in_i64 s
  | MAvg, AAvg s c => in_i64 s /\ in_i64 c
  | MMin, AMin n s => opt_in_i64 n /\ unparsable s
  | MMax, AMax n s => opt_in_i64 n /\ unparsable s
  | _, _ => False
  end.

Lemma in_i64_0 : in_i64 0.
Proof. unfold in_i64, two63. lia. Qed.

Lemma wf_init : forall k, wf k (agg_init k).
Proof.
  intros []; cbn; auto using in_i64_0; try (split; auto using in_i64_0); try constructor; exact I.
Qed.

Lemma parse_i64_range : forall s z, parse_i64 s = Some z -> in_i64 z.
Proof.
  intros s z H. unfold parse_i64 in H. destruct (parse_int s) as [y|]; [|discriminate].
  destruct ((i64_lo <=? y) && (y <=? i64_hi)) eqn:E; [|discriminate]. injection H as <-.
  unfold in_i64, i64_lo, i64_hi, two63 in *. lia.
Qed.

(** the cells of well-typed batches: typed integers are i64 values *)
Definition cell_ok (c : cell) : Prop := match c with CInt z => in_i64 z | _ => True end.

Lemma cell_i64_range : forall c z, cell_ok c -> cell_i64 c = Some z -> in_i64 z.
Proof. intros [z'| |s] z H E; cbn in *; try discriminate; [congruence|eapply parse_i64_range; eassumption]. Qed.

(** the one-cell state: [upd k a c = merge_state a (unit k c)] *)
Definition unit (k : mkind) (c : cell) : agg :=
  match k with
  | MCountAll => ACount 1
  | MCountField => ACount (match c with CNull => 0 | _ => 1 end)
  | MCountUnique =>
      AUnique [match c with
               | CStr x => x
               | CInt z => if agg_count_unique_typed_empty then [] else dec_of_Z z
               | CNull => []
               end]
  | MTotal => ASum (match cell_i64 c with Some v => v | None => 0 end)
  | MAvg => match cell_i64 c with Some v => AAvg v 1 | None => AAvg 0 0 end
  | MMin => match cell_i64 c with
            | Some v => AMin (Some v) None
            | None => AMin None (cell_str c)
            end
  | MMax => match cell_i64 c with
            | Some v => AMax (Some v) None
            | None => AMax None (cell_str c)
            end
  end.

Lemma wf_unit : forall k c, cell_ok c -> wf k (unit k c).
Proof.
  intros k c Hc.
  assert (H1 : in_i64 1) by (unfold in_i64, two63; lia).
  destruct k; cbn [unit wf].
  - exact H1.
  - destruct c; auto using in_i64_0.
  - repeat constructor.
  - destruct (cell_i64 c) eqn:E; [eapply cell_i64_range; eassumption|apply in_i64_0].
  - destruct (cell_i64 c) eqn:E; cbn [wf].
    + split; [eapply cell_i64_range; eassumption|exact H1].
    + split; apply in_i64_0.
  - destruct (cell_i64 c) eqn:E; cbn [wf opt_in_i64 unparsable].
    + split; [eapply cell_i64_range; eassumption|exact I].
    + split; [exact I|]. destruct c; cbn in *; try exact I. exact E.
  - destruct (cell_i64 c) eqn:E; cbn [wf opt_in_i64 unparsable].
    + split; [eapply cell_i64_range; eassumption|exact I].
    + split; [exact I|]. destruct c; cbn in *; try exact I. exact E.
Qed.

Lemma upd_as_merge : forall k a c, wf k a -> upd k a c = merge_state a (unit k c).
Proof.
  intros k a c W. destruct k, a; cbn in W; try contradiction; cbn [upd unit merge_state].
  - reflexivity.
  - destruct c; try reflexivity. now rewrite Z.add_0_r, wrap_i64_id.
  - reflexivity.
  - destruct (cell_i64 c); [reflexivity|]. now rewrite Z.add_0_r, wrap_i64_id.
  - destruct W as [W1 W2]. destruct (cell_i64 c); cbn [merge_state]; [reflexivity|].
    now rewrite !Z.add_0_r, !wrap_i64_id.
  - destruct (cell_i64 c); cbn [merge_state]; [now rewrite opt_merge_none_r|].
    destruct (cell_str c); cbn [merge_state]; rewrite ?opt_merge_none_r; reflexivity.
  - destruct (cell_i64 c); cbn [merge_state]; [now rewrite opt_merge_none_r|].
    destruct (cell_str c); cbn [merge_state]; rewrite ?opt_merge_none_r; reflexivity.
Qed.

Lemma unparsable_merge : forall f a b, (forall x y, f x y = x \/ f x y = y) ->
  unparsable a -> unparsable b -> unparsable (opt_merge f a b).
Proof.
  intros f [a|] [b|] Hf Ha Hb; cbn in *; auto. destruct (Hf a b) as [->| ->]; assumption.
Qed.

Lemma opt_in_i64_merge : forall f a b, (forall x y, in_i64 x -> in_i64 y -> in_i64 (f x y)) ->
  opt_in_i64 a -> opt_in_i64 b -> opt_in_i64 (opt_merge f a b).
Proof. intros f [a|] [b|] Hf Ha Hb; cbn in *; auto. Qed.

Lemma min_b_either : forall x y, min_b x y = x \/ min_b x y = y.
Proof. intros x y. unfold min_b. destruct (bytes_ltb y x); auto. Qed.
Lemma max_b_either : forall x y, max_b x y = x \/ max_b x y = y.
Proof. intros x y. unfold max_b. destruct (bytes_ltb x y); auto. Qed.

Lemma wf_merge : forall k a b, wf k a -> wf k b -> wf k (merge_state a b).
Proof.
  intros k a b Wa Wb. destruct k, a; cbn in Wa; try contradiction; destruct b; cbn in Wb; try contradiction;
    cbn [merge_state wf]; try apply wrap_i64_range.
  - now apply set_union_sset.
  - split; apply wrap_i64_range.
  - destruct Wa, Wb. split; [apply opt_in_i64_merge; auto using min_z_range|
                              apply unparsable_merge; auto using min_b_either].
  - destruct Wa, Wb. split; [apply opt_in_i64_merge; auto using max_z_range|
                              apply unparsable_merge; auto using max_b_either].
Qed.

(** ** [AggState::merge] is commutative and associative, [agg_init] is its unit *)
Theorem merge_state_comm : forall k a b, wf k a -> wf k b -> merge_state a b = merge_state b a.
Proof.
  intros k a b Wa Wb. destruct k, a; cbn in Wa; try contradiction; destruct b; cbn in Wb; try contradiction;
    cbn [merge_state]; try (f_equal; f_equal; lia).
  - f_equal. now apply set_union_comm.
  - f_equal; apply opt_merge_comm; auto using min_z_comm, min_b_comm.
  - f_equal; apply opt_merge_comm; auto using max_z_comm, max_b_comm.
Qed.

Theorem merge_state_assoc : forall k a b c, wf k a -> wf k b -> wf k c ->
  merge_state (merge_state a b) c = merge_state a (merge_state b c).
Proof.
  intros k a b c Wa Wb Wc.
  destruct k, a; cbn in Wa; try contradiction; destruct b; cbn in Wb; try contradiction;
    destruct c; cbn in Wc; try contradiction; cbn [merge_state];
    try (f_equal; rewrite wrap_i64_add_l, wrap_i64_add_r; f_equal; lia).
  - f_equal. now apply set_union_assoc.
  - f_equal; apply opt_merge_assoc; auto using min_z_assoc, min_b_assoc.
  - f_equal; apply opt_merge_assoc; auto using max_z_assoc, max_b_assoc.
Qed.

Lemma merge_init_l : forall k a, wf k a -> merge_state (agg_init k) a = a.
Proof.
  intros k a W. destruct k, a; cbn in W; try contradiction; cbn [agg_init merge_state];
    rewrite ?Z.add_0_l; try (f_equal; now apply wrap_i64_id).
  f_equal. now apply set_union_nil_l.
Qed.

Lemma merge_init_r : forall k a, wf k a -> merge_state a (agg_init k) = a.
Proof.
  intros k a W. rewrite (merge_state_comm k) by auto using wf_init. now apply merge_init_l.
Qed.

(** * Folding rows = merging one-cell states; folding a concatenation = merging the folds *)
Definition run (k : mkind) (l : list cell) : agg := fold_left (upd k) l (agg_init k).

Lemma fold_upd_wf : forall k l a, Forall cell_ok l -> wf k a -> wf k (fold_left (upd k) l a).
Proof.
  intros k l. induction l as [|c l IH]; intros a F W; cbn; [exact W|].
  inversion F; subst. apply IH; [assumption|]. rewrite upd_as_merge by exact W.
  apply wf_merge; auto using wf_unit.
Qed.

Lemma run_wf : forall k l, Forall cell_ok l -> wf k (run k l).
Proof. intros k l F. apply fold_upd_wf; auto using wf_init. Qed.

Lemma fold_upd_merge : forall k l a, Forall cell_ok l -> wf k a ->
  fold_left (upd k) l a = merge_state a (run k l).
Proof.
  intros k l. induction l as [|c l IH]; intros a F W.
  - cbn. now rewrite merge_init_r.
  - inversion F as [|? ? Hc F']; subst. unfold run. cbn [fold_left].
    rewrite (IH (upd k a c)) by (auto; rewrite upd_as_merge by exact W; apply wf_merge; auto using wf_unit).
    rewrite (IH (upd k (agg_init k) c))
      by (auto; rewrite upd_as_merge by apply wf_init; apply wf_merge; auto using wf_unit, wf_init).
    rewrite !upd_as_merge by auto using wf_init.
    rewrite (merge_init_l k) by auto using wf_unit.
    fold (run k l). apply (merge_state_assoc k); auto using wf_unit, run_wf.
Qed.

(** the monoid homomorphism at the aggregator level, exact *)
Theorem run_app : forall k l1 l2, Forall cell_ok l1 -> Forall cell_ok l2 ->
  run k (l1 ++ l2) = merge_state (run k l1) (run k l2).
Proof.
  intros k l1 l2 F1 F2. unfold run at 1. rewrite fold_left_app. fold (run k l1).
  apply fold_upd_merge; auto using run_wf.
Qed.

Theorem run_perm : forall k l1 l2, Forall cell_ok l1 -> Permutation l1 l2 -> run k l1 = run k l2.
Proof.
  intros k l1 l2 F P. induction P as [|x l l' P IH|x y l|l l' l'' P1 IH1 P2 IH2].
  - reflexivity.
  - inversion F as [|? ? Hx Fl]; subst.
    assert (Fl' : Forall cell_ok l') by (eapply Permutation_Forall; eassumption).
    change (x :: l) with ([x] ++ l). change (x :: l') with ([x] ++ l').
    rewrite !run_app by (repeat constructor; assumption). f_equal. apply IH, Fl.
  - inversion F as [|? ? Hy F']; subst. inversion F' as [|? ? Hx F'']; subst.
    change (y :: x :: l) with ([y] ++ [x] ++ l). change (x :: y :: l) with ([x] ++ [y] ++ l).
    rewrite !run_app by (repeat constructor; auto).
    rewrite <- !(merge_state_assoc k) by (apply run_wf; repeat constructor; auto).
    f_equal. apply (merge_state_comm k); apply run_wf; repeat constructor; auto.
  - rewrite IH1 by exact F. apply IH2. eapply Permutation_Forall; eassumption.
Qed.

(** sums are wrap64(Σ): closed forms of TOTAL / AVG / COUNT *)
Definition cell_ints (l : list cell) : list Z :=
  flat_map (fun c => match cell_i64 c with Some v => [v] | None => [] end) l.

Definition zsum (l : list Z) : Z := fold_right Z.add 0 l.

Lemma cell_ints_cons : forall c l,
  cell_ints (c :: l) = match cell_i64 c with Some v => [v] | None => [] end ++ cell_ints l.
Proof. reflexivity. Qed.

Lemma fold_total : forall l s, fold_left (upd MTotal) l (ASum s) = ASum (wrap_i64 (s + zsum (cell_ints l))) \/
                               (cell_ints l = [] /\ fold_left (upd MTotal) l (ASum s) = ASum s).
Proof.
  induction l as [|c l IH]; intros s; cbn [fold_left].
  - right. split; reflexivity.
  - rewrite cell_ints_cons. cbn [upd]. destruct (cell_i64 c) as [v|] eqn:E.
    + left. cbn [app zsum fold_right]. fold (zsum (cell_ints l)).
      destruct (IH (wrap_i64 (s + v))) as [H|[En H]]; rewrite H.
      * rewrite wrap_i64_add_l. f_equal. f_equal. lia.
      * rewrite En. cbn [zsum fold_right]. f_equal. f_equal. lia.
    + cbn [app]. apply IH.
Qed.

Theorem total_is_wrapped_sum : forall l,
  run MTotal l = ASum (wrap_i64 (zsum (cell_ints l))).
Proof.
  intros l. unfold run. cbn [agg_init]. destruct (fold_total l 0) as [->|[En ->]].
  - reflexivity.
  - rewrite En. reflexivity.
Qed.

Corollary total_exact_when_fits : forall l,
  in_i64 (zsum (cell_ints l)) -> finalize (run MTotal l) = FInt (zsum (cell_ints l)).
Proof. intros l H. rewrite total_is_wrapped_sum. cbn. now rewrite wrap_i64_id. Qed.

(** * Snapshots.  What the coordinator merges are [wire] images. *)

(** two MIN/MAX states are equivalent when they finalise alike and merge alike *)
Definition norm (a : agg) : agg :=
  match a with
  | AMin (Some n) _ => AMin (Some n) None
  | AMax (Some n) _ => AMax (Some n) None
  | _ => a
  end.

Lemma finalize_norm : forall a, finalize (norm a) = finalize a.
Proof. intros [ | | | |[n|] [s|]|[n|] [s|]]; reflexivity. Qed.

Lemma norm_merge_l : forall a a' b, norm a = norm a' -> norm (merge_state a b) = norm (merge_state a' b).
Proof.
  intros a a' b H.
  destruct a as [ | | | |[n|] s|[n|] s]; destruct a' as [ | | | |[n'|] s'|[n'|] s']; cbn in H; try discriminate;
    try (injection H as ->); try (injection H as -> ->); try reflexivity;
    destruct b as [ | | | |[m|] t|[m|] t]; cbn; try reflexivity; try congruence.
Qed.

Lemma wire_spec : forall k a, wf k a ->
  wire a = match a with
           | AMin (Some n) _ => AMin (Some n) None
           | AMin None (Some s) => AMin None (Some s)
           | AMin None None => AMin None (Some [])
           | AMax (Some n) _ => AMax (Some n) None
           | AMax None (Some s) => AMax None (Some s)
           | AMax None None => AMax None (Some [])
           | _ => a
           end.
Proof.
  intros k a W. destruct k, a; cbn in W; try contradiction; try reflexivity.
  - destruct W as [_ U]. destruct num as [n|]; [reflexivity|]. destruct str as [s|]; [|reflexivity].
    cbn in U. unfold wire, snapshot, snap_minmax. rewrite U. reflexivity.
  - destruct W as [_ U]. destruct num as [n|]; [reflexivity|]. destruct str as [s|]; [|reflexivity].
    cbn in U. unfold wire, snapshot, snap_minmax. rewrite U. reflexivity.
Qed.

(** a MIN aggregator that no row touched *)
Definition min_untouched (k : mkind) (a : agg) : Prop :=
  k = MMin /\ a = AMin None None.

Lemma max_b_nil_l : forall y, max_b [] y = y.
Proof. intros [|c y]; reflexivity. Qed.
Lemma max_b_nil_r : forall y, max_b y [] = y.
Proof. intros y. rewrite max_b_comm. apply max_b_nil_l. Qed.

(** merging snapshots = snapshot of the merge, up to [norm], unless a MIN part is untouched *)
Theorem wire_merge : forall k a b, wf k a -> wf k b ->
  ~ min_untouched k a -> ~ min_untouched k b ->
  norm (merge_state (wire a) (wire b)) = norm (wire (merge_state a b)).
Proof.
  intros k a b Wa Wb Ua Ub.
  rewrite (wire_spec k a Wa), (wire_spec k b Wb), (wire_spec k _ (wf_merge k a b Wa Wb)).
  destruct k, a; cbn in Wa; try contradiction; destruct b; cbn in Wb; try contradiction; try reflexivity.
  - (* MIN *)
    destruct num as [n|], num0 as [m|]; cbn; try reflexivity.
    + destruct str0; reflexivity.
    + destruct str; reflexivity.
    + destruct str as [s|]; [|exfalso; apply Ua; split; reflexivity].
      destruct str0 as [t|]; [|exfalso; apply Ub; split; reflexivity]. reflexivity.
  - (* MAX *)
    destruct num as [n|], num0 as [m|]; cbn; try reflexivity.
    + destruct str0; reflexivity.
    + destruct str; reflexivity.
    + destruct str as [s|], str0 as [t|]; cbn; rewrite ?max_b_nil_l, ?max_b_nil_r; reflexivity.
Qed.

(** the refutation: one flow sees only nulls, the other the string "abc" *)
Definition abc : bytes := [97; 98; 99]%N.
Theorem agg_partition_min_refuted :
  exists l1 l2, finalize (merge_state (wire (run MMin l1)) (wire (run MMin l2)))
                <> finalize (wire (run MMin (l1 ++ l2))).
Proof. exists [CNull], [CStr abc]. vm_compute. discriminate. Qed.

(** ** A list of parts *)
Definition part (k : mkind) (l : list cell) : agg := wire (run k l).

Definition merge_parts (k : mkind) (p : list cell) (ps : list (list cell)) : agg :=
  fold_left merge_state (map (part k) ps) (part k p).

(** [touched k l]: the part updates the MIN aggregator at least once *)
Definition touches (k : mkind) (l : list cell) : Prop :=
  k = MMin -> exists c, In c l /\ c <> CNull.

Lemma run_min_shape : forall l a, (exists n s, a = AMin n s) -> exists n s, fold_left (upd MMin) l a = AMin n s.
Proof.
  induction l as [|c l IH]; intros a (n & s & ->); cbn [fold_left]; [eauto|].
  apply IH. cbn [upd]. destruct (cell_i64 c); [eauto|]. destruct (cell_str c); eauto.
Qed.

Lemma fold_min_touched : forall l n s, (n <> None \/ s <> None) ->
  exists n' s', fold_left (upd MMin) l (AMin n s) = AMin n' s' /\ (n' <> None \/ s' <> None).
Proof.
  induction l as [|c l IH]; intros n s H; cbn [fold_left]; [eauto|].
  cbn [upd]. destruct (cell_i64 c) as [v|].
  - apply IH. left. destruct n; cbn; discriminate.
  - destruct (cell_str c) as [x|]; [|apply IH; exact H].
    apply IH. right. destruct s; cbn; discriminate.
Qed.

Lemma touched_not_untouched : forall k l, touches k l -> ~ min_untouched k (run k l).
Proof.
  intros k l T [-> E]. destruct (T eq_refl) as (c & Hc & Nc).
  apply in_split in Hc. destruct Hc as (l1 & l2 & ->).
  unfold run in E. rewrite fold_left_app in E. cbn [fold_left agg_init] in E.
  destruct (run_min_shape l1 (AMin None None) ltac:(eauto)) as (n & s & E1). rewrite E1 in E.
  assert (H : exists n' s', upd MMin (AMin n s) c = AMin n' s' /\ (n' <> None \/ s' <> None)).
  { cbn [upd]. destruct c as [z| |x]; [| congruence |].
    - cbn [cell_i64]. eexists _, _. split; [reflexivity|]. left. destruct n; cbn; discriminate.
    - cbn [cell_i64 cell_str]. destruct (parse_i64 x).
      + eexists _, _. split; [reflexivity|]. left. destruct n; cbn; discriminate.
      + eexists _, _. split; [reflexivity|]. right. destruct s; cbn; discriminate. }
  destruct H as (n' & s' & E2 & H2). rewrite E2 in E.
  destruct (fold_min_touched l2 n' s' H2) as (n'' & s'' & E3 & H3). rewrite E3 in E.
  injection E as -> ->. destruct H3; congruence.
Qed.

(** for every split of the cells of a group into parts, merging the parts' partial
    states gives (up to [norm], hence after [finalize]) the partial state of the whole *)
Theorem agg_partition_cells : forall k p ps,
  Forall cell_ok p -> Forall (Forall cell_ok) ps ->
  touches k p -> Forall (touches k) ps ->
  norm (merge_parts k p ps) = norm (part k (p ++ concat ps)).
Proof.
  intros k p ps. revert p. induction ps as [|q ps IH]; intros p Fp Fps Tp Tps.
  - cbn. now rewrite app_nil_r.
  - inversion Fps as [|? ? Fq Fps']; subst. inversion Tps as [|? ? Tq Tps']; subst.
    unfold merge_parts. cbn [map fold_left concat].
    assert (E : norm (merge_state (part k p) (part k q)) = norm (part k (p ++ q))).
    { unfold part. rewrite run_app by assumption.
      apply (wire_merge k); auto using run_wf, touched_not_untouched. }
    assert (G : forall xs a a', norm a = norm a' ->
              norm (fold_left merge_state xs a) = norm (fold_left merge_state xs a')).
    { induction xs as [|x xs IHx]; intros a a' H; cbn; [exact H|]. apply IHx. now apply norm_merge_l. }
    rewrite (G _ _ _ E). fold (merge_parts k (p ++ q) ps).
    rewrite IH; auto.
    + now rewrite app_assoc.
    + apply Forall_app. split; assumption.
    + intros ->. destruct (Tp eq_refl) as (c & Hc & Nc). exists c. split; [apply in_or_app; now left|exact Nc].
Qed.

Corollary agg_partition_final : forall k p ps,
  Forall cell_ok p -> Forall (Forall cell_ok) ps ->
  touches k p -> Forall (touches k) ps ->
  finalize (merge_parts k p ps) = finalize (part k (p ++ concat ps)).
Proof.
  intros. rewrite <- (finalize_norm (merge_parts _ _ _)), <- (finalize_norm (part _ _)).
  f_equal. now apply agg_partition_cells.
Qed.

Example agg_partition_nonvacuous :
  let p := [CInt 5; CNull] in let ps := [[CStr abc]; [CInt (-2); CStr [55%N]]] in
  Forall cell_ok p /\ Forall (Forall cell_ok) ps /\ touches MMin p /\ Forall (touches MMin) ps
  /\ finalize (merge_parts MMin p ps) = FInt (-2).
Proof.
  cbn. repeat split; try (repeat constructor; unfold in_i64, two63; try lia; try exact I).
  - intros _. exists (CInt 5). split; [now left|discriminate].
  - intros _. exists (CStr abc). split; [now left|discriminate].
  - intros _. exists (CInt (-2)). split; [now left|discriminate].
Qed.

(** * Groups: every row is folded into exactly one group *)
Lemma bytes_eqb_eq : forall a b, bytes_eqb a b = true <-> a = b.
Proof.
  induction a as [|x a IH]; intros [|y b]; cbn; split; try discriminate; try reflexivity.
  - rewrite andb_true_iff, N.eqb_eq, IH. intros [-> ->]. reflexivity.
  - intros [= -> ->]. rewrite andb_true_iff, N.eqb_eq, IH. auto.
Qed.

Lemma list_eqb_eq : forall {A} (e : A -> A -> bool), (forall a b, e a b = true <-> a = b) ->
  forall a b, list_eqb e a b = true <-> a = b.
Proof.
  intros A e He. induction a as [|x a IH]; intros [|y b]; cbn; split; try discriminate; try reflexivity.
  - rewrite andb_true_iff, He, IH. intros [-> ->]. reflexivity.
  - intros [= -> ->]. rewrite andb_true_iff, He, IH. auto.
Qed.

Lemma gkey_eqb_eq : forall a b : gkey, gkey_eqb a b = true <-> a = b.
Proof.
  intros [[x|] ga] [[y|] gb]; unfold gkey_eqb; cbn [fst snd];
    rewrite ?andb_true_iff, ?(list_eqb_eq bytes_eqb bytes_eqb_eq), ?Z.eqb_eq; split;
    try (intros [H1 H2]; congruence); try (intros [= ]; subst; auto); try discriminate.
Qed.

Lemma gkey_eqb_refl : forall a, gkey_eqb a a = true.
Proof. intros a. now apply gkey_eqb_eq. Qed.

Lemma gkey_eqb_neq : forall a b, a <> b -> gkey_eqb a b = false.
Proof. intros a b H. destruct (gkey_eqb a b) eqn:E; [apply gkey_eqb_eq in E; contradiction|reflexivity]. Qed.

Section Assoc.
  Context {V : Type}.

  Fixpoint lookup (k : gkey) (st : list (gkey * V)) : option V :=
    match st with
    | [] => None
    | (k', v) :: r => if gkey_eqb k k' then Some v else lookup k r
    end.

  Lemma lookup_upsert_same : forall k f st, lookup k (upsert k f st) = Some (f (lookup k st)).
  Proof.
    intros k f. induction st as [|[k' v] r IH]; cbn.
    - now rewrite gkey_eqb_refl.
    - destruct (gkey_eqb k k') eqn:E; cbn; rewrite E; [reflexivity|exact IH].
  Qed.

  Lemma lookup_upsert_other : forall k k' f st, k <> k' -> lookup k' (upsert k f st) = lookup k' st.
  Proof.
    intros k k' f st N. induction st as [|[k0 v] r IH]; cbn.
    - rewrite (gkey_eqb_neq k' k) by congruence. reflexivity.
    - destruct (gkey_eqb k k0) eqn:E; cbn.
      + apply gkey_eqb_eq in E. subst k0. rewrite (gkey_eqb_neq k' k) by congruence. reflexivity.
      + destruct (gkey_eqb k' k0); [reflexivity|exact IH].
  Qed.

  Lemma upsert_keys_in : forall k f (st : list (gkey * V)) k', In k' (map fst (upsert k f st)) <-> k' = k \/ In k' (map fst st).
  Proof.
    intros k f st k'. induction st as [|[k0 v] r IH]; cbn.
    - intuition.
    - destruct (gkey_eqb k k0) eqn:E; cbn.
      + apply gkey_eqb_eq in E. subst. intuition.
      + rewrite IH. intuition.
  Qed.

  Lemma upsert_nodup : forall k f (st : list (gkey * V)), NoDup (map fst st) -> NoDup (map fst (upsert k f st)).
  Proof.
    intros k f st. induction st as [|[k0 v] r IH]; intros ND; cbn.
    - repeat constructor. intros [].
    - inversion ND as [|? ? Hn ND']; subst. destruct (gkey_eqb k k0) eqn:E; cbn.
      + constructor; assumption.
      + constructor; [|auto]. rewrite upsert_keys_in. intros [->|H]; [|contradiction].
        rewrite gkey_eqb_refl in E. discriminate.
  Qed.

  Lemma lookup_in_keys : forall k (st : list (gkey * V)), lookup k st <> None <-> In k (map fst st).
  Proof.
    intros k st. induction st as [|[k0 v] r IH]; cbn; [intuition|].
    destruct (gkey_eqb k k0) eqn:E.
    - apply gkey_eqb_eq in E. subst. split; [auto|discriminate].
    - rewrite IH. split; [auto|]. intros [->|H]; [rewrite gkey_eqb_refl in E; discriminate|exact H].
  Qed.
End Assoc.

(** the rows of group [k] *)
Definition sel (p : plan) (k : gkey) (rs : list crow) : list crow :=
  filter (fun r => gkey_eqb (row_key p r) k) rs.

Lemma sink_lookup : forall p rs st k,
  lookup k (fold_left (sink_step p) rs st) =
  match sel p k rs with
  | [] => lookup k st
  | l => Some (fold_left (upd_all (p_metrics p)) l
                 (match lookup k st with Some a => a | None => init_all (p_metrics p) end))
  end.
Proof.
  intros p rs. induction rs as [|r rs IH]; intros st k; cbn [fold_left sel filter]; [reflexivity|].
  fold (sel p k rs). rewrite IH. unfold sink_step.
  destruct (gkey_eqb (row_key p r) k) eqn:E.
  - apply gkey_eqb_eq in E. subst k. rewrite lookup_upsert_same.
    destruct (sel p (row_key p r) rs); reflexivity.
  - assert (Hne : row_key p r <> k).
    { intros Heq. rewrite Heq, gkey_eqb_refl in E. discriminate. }
    rewrite lookup_upsert_other by exact Hne. reflexivity.
Qed.

Lemma sink_nodup : forall p rs st, NoDup (map fst st) -> NoDup (map fst (fold_left (sink_step p) rs st)).
Proof.
  intros p rs. induction rs as [|r rs IH]; intros st ND; cbn; [exact ND|].
  apply IH. unfold sink_step. now apply upsert_nodup.
Qed.

(** Every row of a flow lands in exactly one group (its key), every group of the sink is
    the fold of exactly the rows with that key, and keys are not repeated. *)
Theorem each_event_one_group : forall p rs,
  NoDup (map fst (sink_rows p rs))
  /\ (forall k, lookup k (sink_rows p rs) =
                match sel p k rs with
                | [] => None
                | l => Some (fold_left (upd_all (p_metrics p)) l (init_all (p_metrics p)))
                end)
  /\ (forall r, In r rs -> In r (sel p (row_key p r) rs)
                           /\ forall k, k <> row_key p r -> ~ In r (sel p k rs))
  /\ (forall r, In r rs -> In (row_key p r) (map fst (sink_rows p rs))).
Proof.
  intros p rs. unfold sink_rows.
  assert (L : forall k, lookup k (fold_left (sink_step p) rs []) =
                match sel p k rs with
                | [] => None
                | l => Some (fold_left (upd_all (p_metrics p)) l (init_all (p_metrics p)))
                end).
  { intros k. rewrite sink_lookup. reflexivity. }
  split; [apply sink_nodup; constructor|]. split; [exact L|]. split.
  - intros r Hr. split.
    + unfold sel. apply filter_In. split; [exact Hr|apply gkey_eqb_refl].
    + intros k Nk Hin. unfold sel in Hin. apply filter_In in Hin. destruct Hin as [_ E].
      apply gkey_eqb_eq in E. congruence.
  - intros r Hr. apply lookup_in_keys. rewrite L.
    assert (Hs : In r (sel p (row_key p r) rs)).
    { unfold sel. apply filter_In. split; [exact Hr|apply gkey_eqb_refl]. }
    destruct (sel p (row_key p r) rs); [contradiction|discriminate].
Qed.

(** * LIMIT / OFFSET only select groups *)
Theorem limit_caps_groups : forall {V} p limit offset (groups : list (gkey * V)),
  let out := emit_groups p limit offset groups in
  (forall e, In e out -> In e groups)
  /\ (exists sorted, Permutation sorted groups
        /\ out = take_opt limit (match offset with Some o => dropN o | None => fun x => x end sorted))
  /\ (forall n, limit = Some n ->
        N.of_nat (length out) = N.min n (N.of_nat (length groups) - match offset with Some o => o | None => 0%N end)).
Proof.
  intros V p limit offset groups out. subst out. unfold emit_groups.
  set (cmp := fun a b : gkey * V => lex_cmp (out_key p (fst a)) (out_key p (fst b))).
  pose proof (sort_by_perm cmp groups) as P.
  split; [|split].
  - intros e He. eapply Permutation_in; [exact P|].
    assert (Hd : forall (l : list (gkey * V)) o x, In x (dropN o l) -> In x l).
    { intros l o x Hx. rewrite dropN_skipn in Hx. rewrite <- (firstn_skipn (N.to_nat o) l).
      apply in_or_app. now right. }
    assert (Ht : forall (l : list (gkey * V)) o x, In x (takeN o l) -> In x l).
    { intros l o x Hx. rewrite takeN_firstn in Hx. rewrite <- (firstn_skipn (N.to_nat o) l).
      apply in_or_app. now left. }
    destruct limit as [n|], offset as [o|]; cbn [take_opt] in He; eauto.
  - exists (sort_by cmp groups). split; [exact P|reflexivity].
  - intros n ->. cbn [take_opt]. rewrite takeN_length.
    pose proof (Permutation_length P) as HL.
    destruct offset as [o|].
    + rewrite dropN_length. rewrite HL. reflexivity.
    + rewrite N.sub_0_r, HL. reflexivity.
Qed.

(** * The known class of the partition law *)
Definition is_cnull (c : cell) : bool := match c with CNull => true | _ => false end.

(** MIN, and some part consists of null cells only (its aggregator is never updated) *)
Definition MinEmptyPartial (k : mkind) (parts : list (list cell)) : Prop :=
  k = MMin /\ existsb (forallb is_cnull) parts = true.

Lemma not_known_touches : forall k parts, ~ MinEmptyPartial k parts -> Forall (touches k) parts.
Proof.
  intros k parts H. apply Forall_forall. intros l Hl Hk.
  destruct (forallb is_cnull l) eqn:E.
  - exfalso. apply H. split; [exact Hk|]. apply existsb_exists. exists l. split; assumption.
  - clear - E. induction l as [|c l IH]; [discriminate|]. cbn in E. apply andb_false_iff in E.
    destruct c; cbn in E.
    + exists (CInt z). split; [now left|discriminate].
    + destruct E as [E|E]; [discriminate|]. destruct (IH E) as (c & Hc & Nc). exists c. split; [now right|exact Nc].
    + exists (CStr s). split; [now left|discriminate].
Qed.

Theorem agg_partition_outside_known : forall k p ps,
  Forall cell_ok p -> Forall (Forall cell_ok) ps ->
  ~ MinEmptyPartial k (p :: ps) ->
  finalize (merge_parts k p ps) = finalize (part k (p ++ concat ps)).
Proof.
  intros k p ps Fp Fps H. apply not_known_touches in H. inversion H; subst.
  apply agg_partition_final; assumption.
Qed.

Example min_empty_partial_witness :
  MinEmptyPartial MMin [[CNull]; [CStr abc]]
  /\ finalize (merge_parts MMin [CNull] [[CStr abc]]) = FStr []
  /\ finalize (part MMin ([CNull] ++ concat [[CStr abc]])) = FStr abc.
Proof. vm_compute. auto. Qed.

Theorem agg_merge_assoc_comm : forall k a b c, wf k a -> wf k b -> wf k c ->
  merge_state a b = merge_state b a
  /\ merge_state (merge_state a b) c = merge_state a (merge_state b c)
  /\ merge_state (agg_init k) a = a.
Proof.
  intros k a b c Wa Wb Wc. split; [now apply (merge_state_comm k)|].
  split; [now apply (merge_state_assoc k)|now apply merge_init_l].
Qed.

Example agg_merge_assoc_comm_nonvacuous : forall k l, Forall cell_ok l -> wf k (run k l).
Proof. exact run_wf. Qed.
