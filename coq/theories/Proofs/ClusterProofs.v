(** Proofs about Model/Cluster.v (C12): placement invariant, context locality, fan-out union,
    constant shard tag. *)
From Coq Require Import NArith List Bool Lia Permutation.
From Coq Require Import ZifyBool ZifyNat ZifyN.
From Snel Require Import Base.Bytes Gen.Params Model.EventId Model.SipHash Model.Cluster.
From Snel Require Import Proofs.EventIdProofs Proofs.SipHashProofs.
Import ListNotations.
Open Scope N_scope.

Lemma bytes_eqb_eq : forall a b, bytes_eqb a b = true -> a = b.
Proof.
  induction a as [|x a IH]; intros [|y b] H; cbn [bytes_eqb] in H; try discriminate; [reflexivity|].
  apply andb_true_iff in H. destruct H as [Hx Hr]. apply N.eqb_eq in Hx. subst y.
  f_equal. apply IH. exact Hr.
Qed.

Lemma bytes_eqb_refl : forall a, bytes_eqb a a = true.
Proof. induction a as [|x a IH]; cbn [bytes_eqb]; [reflexivity|]. rewrite N.eqb_refl. exact IH. Qed.

(** * Placement invariant *)

Definition placed_ok (n : N) (p : N * event) : Prop :=
  route (ev_ctx (snd p)) n = Some (fst p) /\ id_shard (ev_id (snd p)) = shard_component (fst p).

Definition inv (n : N) (st : cluster) : Prop :=
  cl_n st = n /\ Forall (placed_ok n) (cl_log st).

Lemma gen_next_tag : forall g sh rs id g' rs',
  gen_next g sh rs = Some (id, g', rs') -> id_shard id = shard_component sh.
Proof.
  intros g sh rs id g' rs' H. destruct (gen_next_spec _ _ _ _ _ _ H) as (-> & Hs & _).
  unfold gid. apply id_shard_pack. exact Hs.
Qed.

Lemma apply_op_inv : forall n st o, inv n st -> inv n (apply_op st o).
Proof.
  intros n st o [Hn Hlog]. destruct o as [ctx payload clock|]; cbn [apply_op].
  - destruct (route ctx (cl_n st)) as [i|] eqn:Hr; [|split; assumption].
    destruct (gen_next _ i clock) as [[[id g'] rs']|] eqn:Hg; [|split; assumption].
    split; [exact Hn|]. cbn [cl_log]. apply Forall_app. split; [exact Hlog|].
    constructor; [|constructor]. unfold placed_ok. cbn [fst snd ev_ctx ev_id].
    split; [rewrite <- Hn; exact Hr|]. eapply gen_next_tag. exact Hg.
  - split; assumption.
Qed.

Lemma run_ops_inv : forall n ops, inv n (run_ops n ops).
Proof.
  intros n ops. unfold run_ops.
  assert (G : forall st, inv n st -> inv n (fold_left apply_op ops st)).
  { induction ops as [|o ops IH]; intros st H; cbn [fold_left]; [exact H|].
    apply IH, apply_op_inv, H. }
  apply G. split; [reflexivity|constructor].
Qed.

(** * Shard index list *)

Lemma shard_ids_In : forall n j, In j (shard_ids n) <-> j < n.
Proof.
  intros n j. unfold shard_ids. rewrite in_map_iff. split.
  - intros (k & <- & Hk). apply in_seq in Hk. lia.
  - intro H. exists (N.to_nat j). split; [lia|]. apply in_seq. lia.
Qed.

Lemma shard_ids_NoDup : forall n, NoDup (shard_ids n).
Proof.
  intro n. unfold shard_ids. apply FinFun.Injective_map_NoDup; [|apply seq_NoDup].
  intros a b H. lia.
Qed.

Lemma flat_map_nil_on : forall (A : Type) (f : N -> list A) (l : list N),
  (forall j, In j l -> f j = []) -> flat_map f l = [].
Proof.
  intros A f l. induction l as [|a l IH]; intro H; [reflexivity|]. cbn [flat_map].
  rewrite (H a) by (left; reflexivity). cbn [app]. apply IH. intros j Hj. apply H. right. exact Hj.
Qed.

Lemma flat_map_single : forall (A : Type) (f : N -> list A) (l : list N) (i : N),
  NoDup l -> In i l -> (forall j, In j l -> j <> i -> f j = []) -> flat_map f l = f i.
Proof.
  intros A f l i. induction l as [|a l IH]; intros Hnd Hin Hz; [contradiction|].
  inversion Hnd as [|? ? Hnin Hnd']; subst. cbn [flat_map].
  destruct (N.eq_dec a i) as [->|Hne].
  - rewrite (flat_map_nil_on _ f l); [apply app_nil_r|].
    intros j Hj. apply Hz; [right; exact Hj|]. intros ->. contradiction.
  -
    assert (Ea : f a = []) by (apply Hz; [left; reflexivity|exact Hne]).
    rewrite Ea. cbn [app]. apply IH; [exact Hnd'| |].
    + destruct Hin as [Hin|Hin]; [contradiction|exact Hin].
    + intros j Hj. apply Hz. right. exact Hj.
Qed.

(** * Context locality *)

(** Every event of context [c] lies in shard [route c n]: the other shards hold none. *)
Lemma other_shards_empty : forall n st c i j,
  inv n st -> route c n = Some i -> j <> i ->
  filter (for_ctx c) (shard_events st j) = [].
Proof.
  intros n st c i j [_ Hlog] Hr Hne. unfold shard_events.
  induction Hlog as [|p log Hp _ IH]; [reflexivity|]. cbn [filter].
  destruct (N.eqb_spec (fst p) j) as [Ej|_]; [|exact IH].
  cbn [map filter]. unfold for_ctx at 1.
  destruct (bytes_eqb (ev_ctx (snd p)) c) eqn:Ec; [|exact IH].
  apply bytes_eqb_eq in Ec. destruct Hp as [Hp _]. rewrite Ec, Hr in Hp. congruence.
Qed.

Lemma own_shard_complete : forall n st c i,
  inv n st -> route c n = Some i ->
  filter (for_ctx c) (shard_events st i) = filter (for_ctx c) (applied st).
Proof.
  intros n st c i [_ Hlog] Hr. unfold shard_events, applied.
  induction Hlog as [|p log Hp _ IH]; [reflexivity|]. cbn [filter map].
  destruct (N.eqb_spec (fst p) i) as [Ei|Eni].
  - cbn [map filter]. rewrite IH. reflexivity.
  - unfold for_ctx at 2. destruct (bytes_eqb (ev_ctx (snd p)) c) eqn:Ec; [|exact IH].
    apply bytes_eqb_eq in Ec. destruct Hp as [Hp _]. rewrite Ec, Hr in Hp. congruence.
Qed.

(** [ctx_locality]: for every history (STOREs with arbitrary clocks, restarts) over [n] shards, a
    read scoped to context [c] — sent to all shards — gets its rows from shard [route c n] only,
    and they are all events of [c] ever applied, in apply order. *)
Lemma ctx_locality : forall n ops c i,
  route c n = Some i ->
  let st := run_ops n ops in
  read_scoped st c = filter (for_ctx c) (shard_events st i) /\
  read_scoped st c = filter (for_ctx c) (applied st).
Proof.
  intros n ops c i Hr st. pose proof (run_ops_inv n ops) as Hinv. fold st in Hinv.
  assert (E : read_scoped st c = filter (for_ctx c) (shard_events st i)).
  { unfold read_scoped. destruct Hinv as [Hn Hlog]. rewrite Hn.
    apply flat_map_single with (f := fun j => filter (for_ctx c) (shard_events st j)).
    - apply shard_ids_NoDup.
    - apply shard_ids_In. eapply route_lt_n. exact Hr.
    - intros j _ Hne. eapply other_shards_empty; [split; eassumption|exact Hr|exact Hne]. }
  split; [exact E|]. rewrite E. eapply own_shard_complete; eassumption.
Qed.

(** Each stored event is found where its context routes. *)
Lemma placement : forall n ops j e,
  In (j, e) (cl_log (run_ops n ops)) -> route (ev_ctx e) n = Some j /\ j < n.
Proof.
  intros n ops j e Hin. destruct (run_ops_inv n ops) as [_ Hlog].
  rewrite Forall_forall in Hlog. destruct (Hlog _ Hin) as [Hp _]. cbn [fst snd] in Hp.
  split; [exact Hp|]. eapply route_lt_n. exact Hp.
Qed.

(** * Fan-out *)

Lemma flat_map_all_nil : forall (A B : Type) (l : list A), flat_map (fun _ : A => @nil B) l = [].
Proof. induction l as [|a l IH]; [reflexivity|exact IH]. Qed.

Lemma flat_map_ext_on : forall (A B : Type) (f g : A -> list B) (l : list A),
  (forall a, In a l -> f a = g a) -> flat_map f l = flat_map g l.
Proof.
  intros A B f g l. induction l as [|a l IH]; intro H; [reflexivity|]. cbn [flat_map].
  rewrite (H a) by (left; reflexivity). f_equal. apply IH. intros b Hb. apply H. right. exact Hb.
Qed.

Lemma partition_perm : forall (log : list (N * event)) (l : list N),
  NoDup l -> (forall p, In p log -> In (fst p) l) ->
  Permutation (flat_map (fun j => map snd (filter (fun p => fst p =? j) log)) l) (map snd log).
Proof.
  induction log as [|p log IH]; intros l Hnd Hin.
  - cbn [filter map]. rewrite flat_map_all_nil. constructor.
  - cbn [map].
    set (f := fun j => map snd (filter (fun q : N * event => fst q =? j) log)).
    set (f' := fun j => map snd (filter (fun q : N * event => fst q =? j) (p :: log))).
    assert (Hf' : forall j, f' j = if fst p =? j then snd p :: f j else f j).
    { intro j. unfold f', f. cbn [filter]. destruct (fst p =? j); reflexivity. }
    assert (Hmid : forall l0, NoDup l0 -> In (fst p) l0 ->
                     Permutation (flat_map f' l0) (snd p :: flat_map f l0)).
    { clear Hnd Hin l. intro l. induction l as [|a l IHl]; intros Hnd Hi; [contradiction|].
      inversion Hnd as [|? ? Hnin Hnd']; subst. cbn [flat_map]. rewrite Hf'.
      destruct (N.eqb_spec (fst p) a) as [Ea|Ena].
      - subst a. assert (E : flat_map f' l = flat_map f l).
        { apply flat_map_ext_on. intros j Hj. rewrite Hf'.
          destruct (N.eqb_spec (fst p) j) as [Ej|_]; [subst j; contradiction|reflexivity]. }
        rewrite E. reflexivity.
      - destruct Hi as [Hi|Hi]; [congruence|].
        specialize (IHl Hnd' Hi).
        apply Permutation_trans with (f a ++ snd p :: flat_map f l).
        + apply Permutation_app_head. exact IHl.
        + apply Permutation_sym, Permutation_middle. }
    apply Permutation_trans with (snd p :: flat_map f l).
    + apply Hmid; [exact Hnd|]. apply Hin. left. reflexivity.
    + constructor. apply IH; [exact Hnd|]. intros q Hq. apply Hin. right. exact Hq.
Qed.

(** [fanout_union]: an unscoped read returns every applied event exactly once — the union over
    all shards, none omitted, also when some shards are empty. *)
Lemma fanout_union : forall n ops,
  Permutation (read_all (run_ops n ops)) (applied (run_ops n ops)).
Proof.
  intros n ops. pose proof (run_ops_inv n ops) as [Hn Hlog].
  unfold read_all, applied, shard_events. rewrite Hn.
  apply partition_perm; [apply shard_ids_NoDup|].
  intros p Hp. rewrite Forall_forall in Hlog. destruct (Hlog p Hp) as [Hr _].
  apply shard_ids_In. eapply route_lt_n. exact Hr.
Qed.

(** * Shard tag *)

(** [shard_tag_const]: the shard bits of the id of every event are those of the shard its context
    routes to; so all ids of one context carry one tag, across restarts. *)
Lemma shard_tag_const : forall n ops j1 e1 j2 e2,
  In (j1, e1) (cl_log (run_ops n ops)) -> In (j2, e2) (cl_log (run_ops n ops)) ->
  ev_ctx e1 = ev_ctx e2 ->
  j1 = j2 /\ id_shard (ev_id e1) = id_shard (ev_id e2) /\
  id_shard (ev_id e1) = shard_component j1.
Proof.
  intros n ops j1 e1 j2 e2 H1 H2 Ec. destruct (run_ops_inv n ops) as [_ Hlog].
  rewrite Forall_forall in Hlog.
  destruct (Hlog _ H1) as [R1 T1]. destruct (Hlog _ H2) as [R2 T2]. cbn [fst snd] in *.
  rewrite Ec in R1. assert (j1 = j2) by congruence. subst j2.
  repeat split; congruence.
Qed.

(** with at most 2^SHARD_ID_BITS shards the tag is the shard index itself *)
Lemma shard_tag_is_route : forall n ops j e,
  n <= 2 ^ id_shard_bits -> In (j, e) (cl_log (run_ops n ops)) ->
  route (ev_ctx e) n = Some (id_shard (ev_id e)).
Proof.
  intros n ops j e Hn Hin. destruct (placement _ _ _ _ Hin) as [Hr Hlt].
  destruct (run_ops_inv n ops) as [_ Hlog]. rewrite Forall_forall in Hlog.
  destruct (Hlog _ Hin) as [_ T]. cbn [fst snd] in T.
  rewrite T, shard_component_small; [exact Hr|]. unfold TB. lia.
Qed.

(** Non-vacuity: a history with three contexts ("a", "d", "ctx-1") on three shards, a restart in
    the middle. *)
Example cluster_example :
  let e := id_epoch_ms in
  let a := [97] in let d := [100] in let c := [99; 116; 120; 45; 49] in
  let st := run_ops 3 [Store c 1 [e + 5]; Store a 2 [e + 5]; Store c 3 [e + 5]; Restart;
                       Store d 4 [e + 9]; Store c 5 [e + 9]; Store a 6 [e + 9]] in
  route a 3 = Some 0 /\ route d 3 = Some 1 /\ route c 3 = Some 2 /\
  map ev_payload (read_scoped st c) = [1; 3; 5] /\ map ev_payload (read_scoped st a) = [2; 6] /\
  map ev_payload (read_all st) = [2; 6; 4; 1; 3; 5] /\
  map (fun x => id_shard (ev_id x)) (read_scoped st c) = [2; 2; 2].
Proof. vm_compute. repeat split; reflexivity. Qed.
