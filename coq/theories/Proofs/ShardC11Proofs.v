(** Proofs about Model/Shard.v + Model/Compaction.v for C11: published segments
    are immutable and appear or disappear as a whole. *)
From Coq Require Import ZArith NArith List Bool Lia Permutation.
From Coq Require Import ZifyBool ZifyNat ZifyN.
From Snel Require Import Gen.Params Model.Shard Proofs.ShardC03Proofs Model.Compaction Proofs.CompactionProofs.
Import ListNotations.
Open Scope N_scope.
Ltac Zify.zify_post_hook ::= Z.div_mod_to_equations.

(** * Directories *)

Definition has_dirb (ds : list segdir) (i : N) : bool := existsb (fun d => sid d =? i) ds.

Lemma has_dirb_true ds i : has_dirb ds i = true <-> has_dir ds i.
Proof.
  unfold has_dirb, has_dir. rewrite existsb_exists. split; intros (d & Hd & E); exists d; split; auto;
    apply N.eqb_eq; exact E.
Qed.

Lemma has_dirb_false ds i : has_dirb ds i = false <-> forall d, In d ds -> sid d <> i.
Proof.
  split.
  - intros H d Hd E. assert (T : has_dirb ds i = true) by (apply has_dirb_true; exists d; auto). congruence.
  - intros H. destruct (has_dirb ds i) eqn:E; [|reflexivity]. apply has_dirb_true in E as (d & Hd & E).
    exfalso. exact (H d Hd E).
Qed.

Lemma has_dir_sids ds i : has_dir ds i <-> In i (map sid ds).
Proof.
  unfold has_dir. rewrite in_map_iff. split; intros (d & A & B); exists d; auto.
Qed.

Lemma add_rows_sids ds seg r :
  map sid (dir_add_rows ds seg r) = if has_dirb ds seg then map sid ds else map sid ds ++ [seg].
Proof.
  unfold has_dirb. induction ds as [|d ds IH]; cbn [dir_add_rows existsb map sid app]; [reflexivity|].
  destruct (sid d =? seg) eqn:E; cbn [orb map sid].
  - apply N.eqb_eq in E. rewrite E. reflexivity.
  - rewrite IH. destruct (existsb _ ds); reflexivity.
Qed.

Lemma rows_of_nodir ds i : ~ In i (map sid ds) -> rows_of ds i = [].
Proof. intros H. apply rows_of_no_dir. intros d Hd E. apply H. rewrite <- E. apply in_map, Hd. Qed.

Lemma rows_of_add_eq ds seg r i :
  NoDup (map sid ds) ->
  rows_of (dir_add_rows ds seg r) i = if seg =? i then rows_of ds i ++ r else rows_of ds i.
Proof.
  induction ds as [|d ds IH]; intros Hn; cbn [dir_add_rows].
  - rewrite rows_of_single. destruct (seg =? i); reflexivity.
  - cbn [map] in Hn. apply NoDup_cons_iff in Hn as [Hd Hn].
    change (d :: ds) with ([d] ++ ds). destruct (N.eqb_spec (sid d) seg) as [E|E].
    + change (mkSeg seg (srows d ++ r) :: ds) with ([mkSeg seg (srows d ++ r)] ++ ds).
      rewrite !rows_of_app, rows_of_single. destruct d as [i0 rs]. cbn [sid srows] in *. subst i0.
      rewrite rows_of_single. destruct (N.eqb_spec seg i) as [Ei|_]; [|reflexivity].
      rewrite <- Ei, (rows_of_nodir ds seg Hd), !app_nil_r. reflexivity.
    + change (d :: dir_add_rows ds seg r) with ([d] ++ dir_add_rows ds seg r).
      rewrite !rows_of_app, (IH Hn). destruct (seg =? i); [rewrite app_assoc|]; reflexivity.
Qed.

(** * Guards of a crash-free history and completeness *)

(** A directory is complete unless a flush job of that segment has not reached
    the index entry yet (the directory of a compaction output is written by the
    single step [CWrite]). *)
Definition CompleteC (ds : list segdir) (js : list job) (i : N) : Prop :=
  has_dir ds i /\ forall j, In j js -> jseg j = i -> written (jstage j) = true.
Definition Complete (s : shard) (i : N) : Prop := CompleteC (dirs s) (jobs s) i.

Definition cstep_ok (s : shard) (l : clabel) : bool :=
  match l with
  | CBase x => negb (is_crash x) && (alloc0 (step s x) <=? level_span)
  | CWrite b => (level_span <=? b_out b) && negb (has_dirb (dirs s) (b_out b))
  | CIndex b => (level_span <=? b_out b) && has_dirb (dirs s) (b_out b)
  | CLive b dr => (level_span <=? b_out b) && has_dirb (dirs s) (b_out b)
  | CReclaim dr =>
      forallb (fun i => negb (memb i (live s)) && negb (memb i (index_labels (index s)))
                        && negb (memb i (map jseg (jobs s)))) dr
  end.

Fixpoint hist_ok (s : shard) (ls : list clabel) : bool :=
  match ls with
  | [] => true
  | l :: r => cstep_ok s l && hist_ok (cstep s l) r
  end.

Lemma hist_ok_app s a : forall b, hist_ok s (a ++ b) = hist_ok s a && hist_ok (crun s a) b.
Proof.
  revert s. induction a as [|l a IH]; intros s b; cbn [app hist_ok crun fold_left]; [reflexivity|].
  rewrite IH, andb_assoc. reflexivity.
Qed.

Lemma crun_app s a b : crun s (a ++ b) = crun (crun s a) b.
Proof. unfold crun. apply fold_left_app. Qed.

Record CIC (lv : list N) (ds : list segdir) (ix : list (N * list N)) (js : list job) (al : N) : Prop := {
  c_al : al <= level_span;
  c_jlt : forall j, In j js -> jseg j < al;
  c_jnd : NoDup (map jseg js);
  c_dlt : forall d, In d ds -> sid d < al \/ level_span <= sid d;
  c_dnd : NoDup (map sid ds);
  c_live : forall i, In i lv -> CompleteC ds js i;
  c_idx : forall i, In i (index_labels ix) -> CompleteC ds js i;
  c_wr : forall j, In j js -> written (jstage j) = true -> has_dir ds (jseg j) }.

Definition CI (s : shard) : Prop := CIC (live s) (dirs s) (index s) (jobs s) (alloc0 s).

Ltac dC C := destruct C as [Cal Cjlt Cjnd Cdlt Cdnd Clive Cidx Cwr].

Lemma ci_init c : CI (init c).
Proof.
  unfold CI, init. cbn [live dirs index jobs alloc0].
  split; cbn [index_labels map In]; try (intros; contradiction); try constructor. unfold level_span. lia.
Qed.

Lemma cic_rotate lv ds ix js al m :
  CIC lv ds ix js al -> N.succ al <= level_span ->
  CIC lv ds ix (js ++ [mkJob al m StQueued]) (N.succ al).
Proof.
  intros C Hal. dC C.
  assert (Hfresh : forall i, has_dir ds i -> i <> al).
  { intros i (d & Hd & E) ->. apply Cdlt in Hd. lia. }
  assert (Hc : forall i, CompleteC ds js i -> CompleteC ds (js ++ [mkJob al m StQueued]) i).
  { intros i [H1 H2]. split; [exact H1|]. intros j Hj E. apply in_app_iff in Hj as [Hj|[<-|[]]]; [auto|].
    cbn [jseg] in E. exfalso. exact (Hfresh i H1 (eq_sym E)). }
  split; auto.
  - intros j Hj. apply in_app_iff in Hj as [Hj|[<-|[]]]; [apply Cjlt in Hj; lia | cbn [jseg]; lia].
  - rewrite map_app. cbn [map jseg]. apply nodup_app. split; [exact Cjnd|]. split; [repeat constructor; intros []|].
    intros x Hx [<-|[]]. apply in_map_iff in Hx as (j & E & Hj). apply Cjlt in Hj. lia.
  - intros d Hd. destruct (Cdlt d Hd); [left; lia | right; assumption].
  - intros j Hj Hw. apply in_app_iff in Hj as [Hj|[<-|[]]]; [auto | discriminate].
Qed.

Lemma cic_adv lv ds ix j rest al st' :
  CIC lv ds ix (j :: rest) al ->
  (written (jstage j) = true -> written st' = true) ->
  (written st' = true -> written (jstage j) = true \/ has_dir ds (jseg j)) ->
  CIC lv ds ix (mkJob (jseg j) (jevs j) st' :: rest) al.
Proof.
  intros C H1 H2. dC C.
  assert (Hc : forall i, CompleteC ds (j :: rest) i -> CompleteC ds (mkJob (jseg j) (jevs j) st' :: rest) i).
  { intros i [Hd Hj]. split; [exact Hd|]. intros j0 [<-|Hj0] E; cbn [jseg jstage] in *.
    - apply H1, (Hj j); [left; reflexivity | exact E].
    - apply Hj; [right; exact Hj0 | exact E]. }
  split; auto.
  - intros j0 [<-|Hj0]; [apply (Cjlt j); left; reflexivity | apply Cjlt; right; exact Hj0].
  - intros j0 [<-|Hj0] Hw; cbn [jseg jstage] in *.
    + destruct (H2 Hw) as [H|H]; [apply (Cwr j); [left; reflexivity | exact H] | exact H].
    + apply Cwr; [right; exact Hj0 | exact Hw].
Qed.

Lemma cic_dirs lv ds ds' ix js al :
  CIC lv ds ix js al ->
  (forall i, has_dir ds i -> In i lv \/ In i (index_labels ix) \/ In i (map jseg js) -> has_dir ds' i) ->
  (forall d, In d ds' -> sid d < al \/ level_span <= sid d) -> NoDup (map sid ds') ->
  CIC lv ds' ix js al.
Proof.
  intros C H1 H2 H3. dC C. split; auto.
  - intros i Hi. destruct (Clive i Hi) as [Hd Hj]. split; [apply H1; auto | exact Hj].
  - intros i Hi. destruct (Cidx i Hi) as [Hd Hj]. split; [apply H1; auto | exact Hj].
  - intros j Hj Hw. apply H1; [apply Cwr; assumption|]. right. right. apply in_map, Hj.
Qed.

Lemma cic_index lv ds ix ix' js al :
  CIC lv ds ix js al ->
  (forall i, In i (index_labels ix') -> In i (index_labels ix) \/ CompleteC ds js i) ->
  CIC lv ds ix' js al.
Proof. intros C H. dC C. split; auto. intros i Hi. destruct (H i Hi); auto. Qed.

Lemma cic_live lv lv' ds ix js al :
  CIC lv ds ix js al -> (forall i, In i lv' -> In i lv \/ CompleteC ds js i) -> CIC lv' ds ix js al.
Proof. intros C H. dC C. split; auto. intros i Hi. destruct (H i Hi); auto. Qed.

Lemma cic_done lv ds ix j rest al : CIC lv ds ix (j :: rest) al -> CIC lv ds ix rest al.
Proof.
  intros C. dC C.
  assert (Hc : forall i, CompleteC ds (j :: rest) i -> CompleteC ds rest i).
  { intros i [Hd Hj]. split; [exact Hd|]. intros j0 Hj0. apply Hj. right. exact Hj0. }
  split; auto.
  - intros j0 Hj0. apply Cjlt. right. exact Hj0.
  - cbn [map] in Cjnd. apply NoDup_cons_iff in Cjnd. tauto.
  - intros j0 Hj0. apply Cwr. right. exact Hj0.
Qed.

Lemma cic_add_rows lv ds ix j rest al r :
  CIC lv ds ix (j :: rest) al -> CIC lv (dir_add_rows ds (jseg j) r) ix (j :: rest) al.
Proof.
  intros C. eapply cic_dirs; [exact C | | |].
  - intros i Hi _. apply has_dir_add, Hi.
  - intros d Hd. apply add_sid in Hd as [E|Hd]; [|apply (c_dlt _ _ _ _ _ C), Hd].
    left. rewrite E. apply (c_jlt _ _ _ _ _ C). left. reflexivity.
  - rewrite add_rows_sids. destruct (has_dirb ds (jseg j)) eqn:E; [apply (c_dnd _ _ _ _ _ C)|].
    apply nodup_app. split; [apply (c_dnd _ _ _ _ _ C)|]. split; [repeat constructor; intros []|].
    intros x Hx [<-|[]]. apply has_dir_sids, has_dirb_true in Hx. congruence.
Qed.

(** ** flush-worker labels *)
Lemma ci_fw s l : CI s -> CI (fw_step s l).
Proof.
  intros C. unfold fw_step. destruct (jobs s) as [|j rest] eqn:Hj; [exact C|].
  assert (C' : CIC (live s) (dirs s) (index s) (j :: rest) (alloc0 s)) by (rewrite <- Hj; exact C).
  destruct l; destruct (jstage j) eqn:Hst; try exact C.
  - (* FwBegin *) unfold CI; cbn [live dirs index jobs alloc0].
    apply cic_adv; [exact C' | rewrite Hst; discriminate | discriminate].
  - (* FwMkdir *) unfold CI; cbn [live dirs index jobs alloc0]. apply cic_add_rows, C'.
  - (* FwWrite *)
    destruct (negb (memb u (uids_of (jevs j))) || dir_has_uid s (jseg j) u); [exact C|].
    unfold CI; cbn [live dirs index jobs alloc0]. apply cic_add_rows, C'.
  - (* FwIndex *)
    destruct (is_empty (jevs j) || negb (forallb (dir_has_uid s (jseg j)) (uids_of (jevs j)))) eqn:Hc; [exact C|].
    apply orb_false_iff in Hc as [He Hc]. apply negb_false_iff in Hc. rewrite forallb_forall in Hc.
    assert (Hd : has_dir (dirs s) (jseg j)).
    { destruct (jevs j) as [|e0 r] eqn:Hev; [discriminate|].
      assert (Hu : In (euid e0) (uids_of (e0 :: r))) by (apply memb_true, uids_of_in; left; reflexivity).
      apply Hc, dir_has_uid_spec in Hu as (e & Hin & _). eapply rows_of_has_dir, Hin. }
    unfold CI; cbn [live dirs index jobs alloc0].
    assert (C2 : CIC (live s) (dirs s) (index s) (mkJob (jseg j) (jevs j) StIndexed :: rest) (alloc0 s))
      by (apply cic_adv; [exact C' | reflexivity | intros _; right; exact Hd]).
    eapply cic_index; [exact C2|]. intros i Hi. unfold index_labels in Hi. rewrite map_app, in_app_iff in Hi.
    destruct Hi as [Hi|[<-|[]]]; [left; exact Hi|]. right. cbn [fst]. split; [exact Hd|].
    intros j0 [<-|Hj0] E; [reflexivity|]. exfalso.
    pose proof (c_jnd _ _ _ _ _ C') as Hn. cbn [map] in Hn. apply NoDup_cons_iff in Hn as [Hn _].
    apply Hn. rewrite <- E. apply in_map, Hj0.
  - (* FwPublish *)
    assert (C2 : CIC (live s) (dirs s) (index s) (mkJob (jseg j) (jevs j) StPublished :: rest) (alloc0 s))
      by (apply cic_adv; [exact C' | reflexivity | rewrite Hst; left; reflexivity]).
    destruct (is_empty (jevs j)); [exact C2|].
    unfold CI; cbn [live dirs index jobs alloc0]. eapply cic_live; [exact C2|].
    intros i Hi. destruct (memb (jseg j) (live s)); [left; exact Hi|].
    apply in_app_iff in Hi as [Hi|[<-|[]]]; [left; exact Hi|]. right. split.
    + apply (c_wr _ _ _ _ _ C' j); [left; reflexivity | rewrite Hst; reflexivity].
    + intros j0 [<-|Hj0] E; [reflexivity|]. exfalso. cbn [jseg] in E.
      pose proof (c_jnd _ _ _ _ _ C') as Hn. cbn [map] in Hn. apply NoDup_cons_iff in Hn as [Hn _].
      apply Hn. rewrite <- E. apply in_map, Hj0.
  - (* FwClear *)
    assert (C2 : CIC (live s) (dirs s) (index s) (mkJob (jseg j) (jevs j) StCleared :: rest) (alloc0 s))
      by (apply cic_adv; [exact C' | reflexivity | rewrite Hst; left; reflexivity]).
    destruct (is_empty (jevs j)); exact C2.
  - (* FwWalDel *)
    destruct (is_empty (jevs j) || negb (id <? N.succ (jseg j))); [exact C | exact C'].
  - (* FwWalClean *)
    assert (C2 : CIC (live s) (dirs s) (index s) (mkJob (jseg j) (jevs j) StWalCleaned :: rest) (alloc0 s))
      by (apply cic_adv; [exact C' | reflexivity | rewrite Hst; left; reflexivity]).
    destruct (is_empty (jevs j)); exact C2.
  - (* FwDone, empty *)
    destruct (is_empty (jevs j)); [|exact C].
    unfold CI; cbn [live dirs index jobs alloc0]. eapply cic_done, C'.
  - (* FwDone *)
    unfold CI; cbn [live dirs index jobs alloc0]. eapply cic_done, C'.
Qed.

Lemma ci_base s x : CI s -> is_crash x = false -> alloc0 (step s x) <= level_span -> CI (step s x).
Proof.
  intros C Hx Hal. destruct x; try discriminate; cbn [step] in *.
  - unfold store in *. cbv zeta in *. destruct (cap s <=? len _); [|exact C].
    unfold CI, rotate in *. cbn [live dirs index jobs alloc0 mem] in *. apply cic_rotate; [exact C | exact Hal].
  - unfold flush_cmd, CI, rotate in *. cbn [live dirs index jobs alloc0] in *. apply cic_rotate; [exact C | exact Hal].
  - unfold wal_write. destruct (walq s); exact C.
  - unfold wal_rotate. destruct (cap s <=? wcnt s); exact C.
  - apply ci_fw, C.
Qed.

(** ** compaction labels *)
Lemma cp_index_labels s b i :
  In i (index_labels (index (cp_index s b))) -> i = b_out b \/ In i (index_labels (index s)).
Proof.
  unfold cp_index, index_labels. cbn [index]. rewrite map_app, in_app_iff. cbn [map fst In].
  intros [H|[H|[]]]; [|left; auto]. right. apply in_map_iff in H as (e & E & H).
  apply filter_In in H as [H _]. apply filter_In in H as [H _].
  change (map fst (index s)) with (index_labels (index s)). rewrite <- (retire_labels (index s) b).
  rewrite <- E. apply in_map, H.
Qed.

Lemma out_complete s o : CI s -> level_span <= o -> has_dir (dirs s) o -> Complete s o.
Proof.
  intros C Ho Hd. split; [exact Hd|]. intros j Hj E. exfalso.
  apply (c_jlt _ _ _ _ _ C) in Hj. pose proof (c_al _ _ _ _ _ C). lia.
Qed.

Lemma ci_cstep s l : CI s -> cstep_ok s l = true -> CI (cstep s l).
Proof.
  intros C G. destruct l as [x|b|b|b dr|dr]; cbn [cstep_ok cstep] in *.
  - apply andb_true_iff in G as [G1 G2]. apply negb_true_iff in G1. apply N.leb_le in G2.
    apply ci_base; assumption.
  - apply andb_true_iff in G as [G1 G2]. apply N.leb_le in G1. apply negb_true_iff in G2.
    rewrite has_dirb_false in G2.
    unfold CI, cp_write. cbn [live dirs index jobs alloc0]. eapply cic_dirs; [exact C | | |].
    + intros i (d & Hd & E) _. exists d. split; [|exact E]. apply in_app_iff. left. apply filter_In.
      split; [exact Hd|]. apply negb_true_iff, N.eqb_neq, G2, Hd.
    + intros d Hd. apply in_app_iff in Hd as [Hd|[<-|[]]]; [|right; exact G1].
      apply filter_In in Hd as [Hd _]. apply (c_dlt _ _ _ _ _ C), Hd.
    + rewrite map_app. cbn [map sid]. apply nodup_app.
      split; [apply nodup_map_filter, (c_dnd _ _ _ _ _ C)|]. split; [repeat constructor; intros []|].
      intros x Hx [<-|[]]. apply in_map_iff in Hx as (d & E & Hd). apply filter_In in Hd as [Hd _].
      exact (G2 d Hd E).
  - apply andb_true_iff in G as [G1 G2]. apply N.leb_le in G1. apply has_dirb_true in G2.
    eapply cic_index; [exact C|]. intros i Hi. apply cp_index_labels in Hi as [->|Hi]; [right | left; exact Hi].
    apply (out_complete s); assumption.
  - apply andb_true_iff in G as [G1 G2]. apply N.leb_le in G1. apply has_dirb_true in G2.
    unfold CI, cp_live. cbn [live dirs index jobs alloc0]. eapply cic_live; [exact C|].
    intros i Hi. apply sort_n_in, in_app_iff in Hi as [Hi|[<-|[]]].
    + left. apply filter_In in Hi. tauto.
    + right. apply (out_complete s); assumption.
  - rewrite forallb_forall in G.
    unfold CI, cp_reclaim. cbn [live dirs index jobs alloc0]. eapply cic_dirs; [exact C | | |].
    + intros i (d & Hd & E) Hi. exists d. split; [|exact E]. apply filter_In. split; [exact Hd|].
      apply negb_true_iff, memb_false. intros Hdr. apply G in Hdr.
      apply andb_true_iff in Hdr as [Hdr H3]. apply andb_true_iff in Hdr as [H1 H2].
      apply negb_true_iff, memb_false in H1, H2, H3. rewrite E in *. tauto.
    + intros d Hd. apply filter_In in Hd as [Hd _]. apply (c_dlt _ _ _ _ _ C), Hd.
    + apply nodup_map_filter, (c_dnd _ _ _ _ _ C).
Qed.

Lemma ci_crun ls : forall s, CI s -> hist_ok s ls = true -> CI (crun s ls).
Proof.
  induction ls as [|l r IH]; intros s C H; cbn [hist_ok crun fold_left] in *; [exact C|].
  apply andb_true_iff in H as [H1 H2]. apply IH; [apply ci_cstep; assumption | exact H2].
Qed.

(** * What a step does to an existing directory *)

Lemma step_dirs s x :
  is_crash x = false ->
  dirs (step s x) = dirs s \/
  exists j rest r, jobs s = j :: rest /\ jstage j = StBegun /\ dirs (step s x) = dir_add_rows (dirs s) (jseg j) r.
Proof.
  intros Hx. destruct x; try discriminate; cbn [step].
  - left. unfold store. cbv zeta. destruct (cap s <=? len _); reflexivity.
  - left. reflexivity.
  - left. unfold wal_write. destruct (walq s); reflexivity.
  - left. unfold wal_rotate. destruct (cap s <=? wcnt s); reflexivity.
  - unfold fw_step. destruct (jobs s) as [|j rest] eqn:Hj; [left; reflexivity|].
    destruct l; destruct (jstage j) eqn:Hst; try (left; reflexivity);
      repeat match goal with |- context [if ?c then _ else _] => destruct c end;
      try (left; reflexivity); right; exists j, rest; eexists; (split; [reflexivity|]); (split; [exact Hst|]);
      cbn [dirs]; reflexivity.
Qed.

(** Every step of a guarded history leaves an existing directory unchanged, or
    removes it as a whole (then it was neither live nor listed in the index), or
    it is the flush worker appending to the directory of its own unfinished job
    (not complete, hence neither live nor listed). An existing directory is never
    replaced. *)
Theorem dirs_step : forall s l i,
  CI s -> cstep_ok s l = true -> has_dir (dirs s) i ->
  let s' := cstep s l in
  rows_of (dirs s') i = rows_of (dirs s) i /\ has_dir (dirs s') i
  \/ (~ has_dir (dirs s') i /\ ~ In i (live s) /\ ~ In i (index_labels (index s)))
  \/ (exists extra j rest, rows_of (dirs s') i = rows_of (dirs s) i ++ extra /\ has_dir (dirs s') i /\
        jobs s = j :: rest /\ jseg j = i /\ jstage j = StBegun /\ ~ Complete s i).
Proof.
  intros s l i C G Hd s'. unfold s'. clear s'.
  destruct l as [x|b|b|b dr|dr]; cbn [cstep_ok cstep] in *.
  - apply andb_true_iff in G as [G1 _]. apply negb_true_iff in G1.
    destruct (step_dirs s x G1) as [E|(j & rest & r & Hj & Hst & E)]; rewrite E.
    + left. auto.
    + rewrite (rows_of_add_eq _ _ _ _ (c_dnd _ _ _ _ _ C)).
      destruct (N.eqb_spec (jseg j) i) as [Ei|Ei]; [|left; split; [reflexivity | apply has_dir_add, Hd]].
      right. right. exists r, j, rest. split; [reflexivity|]. split; [apply has_dir_add, Hd|].
      split; [exact Hj|]. split; [exact Ei|]. split; [exact Hst|].
      intros [_ Hc]. specialize (Hc j). rewrite Hj, Hst in Hc. specialize (Hc (or_introl eq_refl) Ei). discriminate.
  - left. apply andb_true_iff in G as [_ G2]. apply negb_true_iff in G2. rewrite has_dirb_false in G2.
    assert (Hio : b_out b <> i) by (destruct Hd as (d & Hd & E); intros E2; apply (G2 d Hd); congruence).
    unfold cp_write. cbn [dirs]. split.
    + rewrite rows_of_app, rows_of_single. destruct (N.eqb_spec (b_out b) i); [contradiction|].
      rewrite app_nil_r. apply rows_of_filter. intros d Hin E. apply negb_true_iff, N.eqb_neq. congruence.
    + destruct Hd as (d & Hd & E). exists d. split; [|exact E]. apply in_app_iff. left. apply filter_In.
      split; [exact Hd|]. apply negb_true_iff, N.eqb_neq, G2, Hd.
  - left. auto.
  - left. auto.
  - rewrite forallb_forall in G. unfold cp_reclaim. cbn [dirs live index].
    destruct (in_dec N.eq_dec i dr) as [Hdr|Hdr].
    + right. left. apply G in Hdr as Hg.
      apply andb_true_iff in Hg as [Hg _]. apply andb_true_iff in Hg as [H1 H2].
      apply negb_true_iff, memb_false in H1, H2. split; [|auto].
      intros (d & Hin & E). apply filter_In in Hin as [_ Hc]. apply negb_true_iff, memb_false in Hc.
      rewrite E in Hc. auto.
    + left. split.
      * apply rows_of_filter. intros d _ E. apply negb_true_iff, memb_false. rewrite E. exact Hdr.
      * destruct Hd as (d & Hd & E). exists d. split; [|exact E]. apply filter_In. split; [exact Hd|].
        apply negb_true_iff, memb_false. rewrite E. exact Hdr.
Qed.

(** a directory is created only under an id that has none *)
Theorem dir_created_fresh : forall s l i,
  CI s -> cstep_ok s l = true -> ~ has_dir (dirs s) i -> has_dir (dirs (cstep s l)) i ->
  (exists b, l = CWrite b /\ b_out b = i /\ rows_of (dirs (cstep s l)) i = batch_rows (dirs s) b)
  \/ (exists j rest, jobs s = j :: rest /\ jseg j = i /\ jstage j = StBegun /\ ~ In i (live s) /\
        ~ In i (index_labels (index s))).
Proof.
  intros s l i C G Hn Hd. destruct l as [x|b|b|b dr|dr]; cbn [cstep_ok cstep] in *.
  - right. apply andb_true_iff in G as [G1 _]. apply negb_true_iff in G1.
    destruct (step_dirs s x G1) as [E|(j & rest & r & Hj & Hst & E)]; rewrite E in Hd; [contradiction|].
    destruct Hd as (d & Hd & Ed). apply add_sid in Hd as [Es|Hd]; [|exfalso; apply Hn; exists d; auto].
    exists j, rest. split; [exact Hj|]. split; [congruence|]. split; [exact Hst|].
    split; intros H; [apply (c_live _ _ _ _ _ C) in H | apply (c_idx _ _ _ _ _ C) in H]; destruct H as [H _]; auto.
  - left. exists b. split; [reflexivity|]. apply andb_true_iff in G as [_ G2]. apply negb_true_iff in G2.
    rewrite has_dirb_false in G2. unfold cp_write in *. cbn [dirs] in *.
    assert (Ei : b_out b = i).
    { destruct Hd as (d & Hd & Ed). apply in_app_iff in Hd as [Hd|[<-|[]]]; [|exact Ed].
      apply filter_In in Hd as [Hd _]. exfalso. apply Hn. exists d. auto. }
    split; [exact Ei|]. subst i. rewrite rows_of_app, rows_of_single, N.eqb_refl.
    rewrite (rows_of_no_dir (dirs s) (b_out b) G2). cbn [filter app].
    rewrite rows_of_no_dir; [reflexivity|]. intros d Hin. apply filter_In in Hin as [Hin _]. apply G2, Hin.
  - contradiction.
  - contradiction.
  - exfalso. apply Hn. unfold cp_reclaim in Hd. cbn [dirs] in Hd. destruct Hd as (d & Hd & E).
    apply filter_In in Hd as [Hd _]. exists d. auto.
Qed.

(** * The theorems over guarded histories from [init] *)

Theorem ci_reachable : forall c ls, hist_ok (init c) ls = true -> CI (crun (init c) ls).
Proof. intros c ls H. apply ci_crun; [apply ci_init | exact H]. Qed.

Theorem live_names_complete : forall c ls i,
  hist_ok (init c) ls = true -> In i (live (crun (init c) ls)) -> Complete (crun (init c) ls) i.
Proof. intros c ls i H Hi. exact (c_live _ _ _ _ _ (ci_reachable c ls H) i Hi). Qed.

Theorem index_names_complete : forall c ls i,
  hist_ok (init c) ls = true -> In i (index_labels (index (crun (init c) ls))) -> Complete (crun (init c) ls) i.
Proof. intros c ls i H Hi. exact (c_idx _ _ _ _ _ (ci_reachable c ls H) i Hi). Qed.

Lemma live_rows_immutable_from ls : forall s i,
  CI s -> hist_ok s ls = true ->
  (forall n, In i (live (crun s (firstn n ls)))) ->
  rows_of (dirs (crun s ls)) i = rows_of (dirs s) i.
Proof.
  induction ls as [|l r IH]; intros s i C H Hl; [reflexivity|].
  cbn [hist_ok] in H. apply andb_true_iff in H as [H1 H2]. cbn [crun fold_left].
  pose proof (Hl 0%nat) as L0. cbn [firstn crun fold_left] in L0.
  pose proof (Hl 1%nat) as L1. cbn [firstn crun fold_left] in L1.
  pose proof (c_live _ _ _ _ _ C i L0) as Hc.
  change (fold_left cstep r (cstep s l)) with (crun (cstep s l) r).
  rewrite (IH (cstep s l) i (ci_cstep s l C H1) H2); [|intros n; exact (Hl (S n))].
  destruct (dirs_step s l i C H1 (proj1 Hc)) as [[E _]|[(_ & Hnl & _)|(x & j & rest & _ & _ & _ & _ & _ & Hnc)]].
  - exact E.
  - contradiction.
  - contradiction.
Qed.

Theorem live_rows_immutable_no_crash : forall c ls1 ls2 i,
  hist_ok (init c) (ls1 ++ ls2) = true ->
  (forall n, In i (live (crun (init c) (ls1 ++ firstn n ls2)))) ->
  rows_of (dirs (crun (init c) (ls1 ++ ls2))) i = rows_of (dirs (crun (init c) ls1)) i.
Proof.
  intros c ls1 ls2 i H Hl. rewrite hist_ok_app in H. apply andb_true_iff in H as [H1 H2].
  rewrite crun_app. apply live_rows_immutable_from; [apply ci_reachable, H1 | exact H2|].
  intros n. rewrite <- crun_app. apply Hl.
Qed.

(** * A whole batch of the policy satisfies the guards *)

Lemma batch_ok_level ix k b : batch_ok ix k b = true -> level_span <= b_out b.
Proof.
  intros H. destruct (batch_ok_spec _ _ _ H) as (_ & Hne & _ & _ & Hl).
  destruct (b_inputs b) as [|i0 r]; [contradiction|]. specialize (Hl i0 (or_introl eq_refl)).
  unfold level_of, level_span in *. lia.
Qed.

Lemma batch_hist_ok k s b :
  WF s -> BatchPre k s b -> (forall i, In i (b_inputs b) -> ~ In i (map jseg (jobs s))) ->
  hist_ok s (batch_labels s b) = true.
Proof.
  intros W P Hj. pose proof (batch_ok_level _ _ _ (bp_ok _ _ _ P)) as Hl. apply N.leb_le in Hl.
  assert (Hd : has_dirb (dirs (cstep s (CWrite b))) (b_out b) = true).
  { apply has_dirb_true. eexists. split; [cbn [cstep cp_write dirs]; apply in_app_iff; right; left; reflexivity|].
    reflexivity. }
  unfold batch_labels. cbn [hist_ok cstep_ok]. rewrite Hl. cbn [andb].
  apply andb_true_iff. split.
  { apply negb_true_iff, has_dirb_false, (bp_fresh _ _ _ P). }
  apply andb_true_iff. split; [exact Hd|]. apply andb_true_iff. split; [exact Hd|].
  rewrite andb_true_r. apply forallb_forall. intros i Hi.
  change (live (cstep (cstep (cstep s (CWrite b)) (CIndex b)) (CLive b (drained (index s) b))))
    with (live (run_batch s b)).
  change (index (cstep (cstep (cstep s (CWrite b)) (CIndex b)) (CLive b (drained (index s) b))))
    with (index (run_batch s b)).
  change (jobs (cstep (cstep (cstep s (CWrite b)) (CIndex b)) (CLive b (drained (index s) b))))
    with (jobs s).
  pose proof (ob_out_not_dr k s b W P) as Ho.
  apply andb_true_iff. split; [apply andb_true_iff; split|]; apply negb_true_iff, memb_false.
  - intros H. apply in_live_after in H as [->|[_ H]]; contradiction.
  - intros H. apply (index_after_labels _ _ _ (w_nd _ W)) in H as [->|[_ H]]; contradiction.
  - apply Hj, (ob_dr_input s b), Hi.
Qed.

(** * Output ids within one process lifetime

    [PStart] marks the start of a planning round (hook point cs).  The state carries
    the planner's bookkeeping of the lifetime: [p_lab], the index labels at every
    round start so far ([Compaction.seen_round_start]); [p_routs], the output ids
    taken in the current round ([seen_batch]); and [p_rix], the index of the current
    round start, against which the batches of the round are planned.  A crash or
    restart label ENDS the lifetime: [p_lab] is reset to [[]] (the engine's set of
    remembered labels lives in process memory).  [p_ok] accumulates the guards of
    every non-crash step ([cstep_ok]) and, for every [CWrite b], [batch_ok_fresh]
    w.r.t. [p_routs ++ p_lab]. *)
Inductive plabel := PStart | PStep (c : clabel).

Record pst := mkP { p_s : shard; p_lab : list N; p_routs : list N; p_rix : list (N * list N); p_ok : bool }.

Definition is_crash_c (c : clabel) : bool := match c with CBase x => is_crash x | _ => false end.

Definition pstep (k : N) (p : pst) (l : plabel) : pst :=
  match l with
  | PStart => mkP (p_s p) (seen_round_start (p_lab p) (index (p_s p))) [] (index (p_s p)) (p_ok p)
  | PStep c =>
      if is_crash_c c then mkP (cstep (p_s p) c) [] [] [] (p_ok p)
      else match c with
           | CWrite b => mkP (cstep (p_s p) c) (p_lab p) (seen_batch (p_routs p) b) (p_rix p)
                             (p_ok p && cstep_ok (p_s p) c && batch_ok_fresh (p_routs p ++ p_lab p) (p_rix p) k b)
           | _ => mkP (cstep (p_s p) c) (p_lab p) (p_routs p) (p_rix p) (p_ok p && cstep_ok (p_s p) c)
           end
  end.

Definition prun (k : N) (p : pst) (ls : list plabel) : pst := fold_left (pstep k) ls p.
Definition pinit (c : N) : pst := mkP (init c) [] [] [] true.

(** no crash / restart label: the history lies inside one lifetime *)
Definition no_pcrash (ls : list plabel) : Prop :=
  forall c, In (PStep c) ls -> is_crash_c c = false.
(** no round start: the history lies inside one planning round *)
Definition no_pstart (ls : list plabel) : Prop := ~ In PStart ls.

Lemma prun_app k p a b : prun k p (a ++ b) = prun k (prun k p a) b.
Proof. unfold prun. apply fold_left_app. Qed.

Lemma prun_snoc k p a l : prun k p (a ++ [l]) = pstep k (prun k p a) l.
Proof. rewrite prun_app. reflexivity. Qed.

Lemma fresh_flag : compaction_ids_fresh_in_lifetime = true.
Proof. reflexivity. Qed.

Lemma batch_ok_fresh_spec seen ix k b :
  batch_ok_fresh seen ix k b = true <-> batch_ok ix k b = true /\ ~ In (b_out b) seen.
Proof.
  unfold batch_ok_fresh. rewrite fresh_flag, andb_true_iff, negb_true_iff, memb_false. reflexivity.
Qed.

Lemma pstep_ok k p l : p_ok (pstep k p l) = true -> p_ok p = true.
Proof.
  destruct l as [|c]; cbn [pstep p_ok]; [auto|].
  destruct (is_crash_c c); cbn [p_ok]; [auto|].
  destruct c; cbn [p_ok]; intros H; repeat (apply andb_true_iff in H as [H _]); exact H.
Qed.

Lemma prun_ok_prefix k p a : forall b, p_ok (prun k p (a ++ b)) = true -> p_ok (prun k p a) = true.
Proof.
  intros b. induction b as [|l b IH] using rev_ind; [rewrite app_nil_r; auto|].
  rewrite app_assoc, prun_snoc. intros H. apply IH, (pstep_ok _ _ _ H).
Qed.

(** what a non-crash step with [p_ok] does *)
Lemma pstep_inv k p l :
  p_ok (pstep k p l) = true ->
  match l with
  | PStart => p_s (pstep k p l) = p_s p /\ p_lab (pstep k p l) = index_labels (index (p_s p)) ++ p_lab p
              /\ p_routs (pstep k p l) = []
  | PStep c =>
      is_crash_c c = false ->
      p_s (pstep k p l) = cstep (p_s p) c /\ cstep_ok (p_s p) c = true /\ p_lab (pstep k p l) = p_lab p /\
      match c with
      | CWrite b => p_routs (pstep k p l) = b_out b :: p_routs p /\ ~ In (b_out b) (p_routs p ++ p_lab p)
                    /\ batch_ok (p_rix p) k b = true
      | _ => p_routs (pstep k p l) = p_routs p
      end
  end.
Proof.
  destruct l as [|c]; cbn [pstep]; [intros _; repeat split; reflexivity|].
  intros H Hc. rewrite Hc in *. destruct c as [x|b|b|b dr|dr]; cbn [p_ok p_s p_lab p_routs] in *;
    try (apply andb_true_iff in H as [H G]; split; [reflexivity|]; split; [exact G|]; split; reflexivity).
  apply andb_true_iff in H as [H F]. apply andb_true_iff in H as [H G].
  apply batch_ok_fresh_spec in F as [F1 F2]. repeat split; assumption.
Qed.

Lemma no_pcrash_app a b : no_pcrash (a ++ b) <-> no_pcrash a /\ no_pcrash b.
Proof.
  unfold no_pcrash. split.
  - intros H. split; intros c Hc; apply H, in_app_iff; auto.
  - intros [H1 H2] c Hc. apply in_app_iff in Hc as [Hc|Hc]; auto.
Qed.

Lemma no_pstart_app a b : no_pstart (a ++ b) <-> no_pstart a /\ no_pstart b.
Proof. unfold no_pstart. rewrite in_app_iff. tauto. Qed.

(** [p_lab] only grows inside a lifetime, [p_routs] only grows inside a round *)
Lemma prun_lab_mono k p ls x :
  no_pcrash ls -> p_ok (prun k p ls) = true -> In x (p_lab p) -> In x (p_lab (prun k p ls)).
Proof.
  induction ls as [|l ls IH] using rev_ind; intros Hc H Hx; [exact Hx|].
  apply no_pcrash_app in Hc as [Hc1 Hc2]. rewrite prun_snoc in *.
  specialize (IH Hc1 (pstep_ok _ _ _ H) Hx). pose proof (pstep_inv _ _ _ H) as I. destruct l as [|c].
  - destruct I as (_ & E & _). rewrite E. apply in_app_iff. right. exact IH.
  - destruct (I (Hc2 c (or_introl eq_refl))) as (_ & _ & E & _). rewrite E. exact IH.
Qed.

Lemma prun_routs_mono k p ls x :
  no_pcrash ls -> no_pstart ls -> p_ok (prun k p ls) = true -> In x (p_routs p) -> In x (p_routs (prun k p ls)).
Proof.
  induction ls as [|l ls IH] using rev_ind; intros Hc Hs H Hx; [exact Hx|].
  apply no_pcrash_app in Hc as [Hc1 Hc2]. apply no_pstart_app in Hs as [Hs1 Hs2]. rewrite prun_snoc in *.
  specialize (IH Hc1 Hs1 (pstep_ok _ _ _ H) Hx). pose proof (pstep_inv _ _ _ H) as I. destruct l as [|c].
  - exfalso. apply Hs2. left. reflexivity.
  - destruct (I (Hc2 c (or_introl eq_refl))) as (_ & _ & _ & E). destruct c; try (rewrite E; exact IH).
    destruct E as [E _]. rewrite E. right. exact IH.
Qed.

(** Every output id is new: it differs from every label that was in the index at
    any round start of the lifetime so far (and from the labels remembered at the
    beginning), and from every output id taken earlier in the same round. *)
Theorem ids_fresh_in_lifetime : forall k p ls,
  no_pcrash ls -> p_ok (prun k p ls) = true ->
  forall l1 b l2, ls = l1 ++ PStep (CWrite b) :: l2 ->
    ~ In (b_out b) (p_lab p) /\
    (forall a r, l1 = a ++ PStart :: r -> ~ In (b_out b) (index_labels (index (p_s (prun k p a))))) /\
    (forall a b' r, l1 = a ++ PStep (CWrite b') :: r -> no_pstart r -> b_out b' <> b_out b).
Proof.
  intros k p ls Hc Hok l1 b l2 ->.
  change (l1 ++ PStep (CWrite b) :: l2) with (l1 ++ [PStep (CWrite b)] ++ l2) in *.
  rewrite app_assoc in Hok. apply prun_ok_prefix in Hok.
  apply no_pcrash_app in Hc as [Hc1 Hc2].
  rewrite prun_snoc in Hok. pose proof (pstep_inv _ _ _ Hok) as I. cbn beta iota in I.
  destruct (I eq_refl) as (_ & _ & _ & _ & Hfresh & _). apply pstep_ok in Hok.
  rewrite in_app_iff in Hfresh.
  split; [|split].
  - intros Hx. apply Hfresh. right. apply prun_lab_mono; assumption.
  - intros a r -> Hx.
    change (a ++ PStart :: r) with (a ++ [PStart] ++ r) in *.
    rewrite app_assoc in *. apply no_pcrash_app in Hc1 as [Hca Hcr].
    apply Hfresh. right. rewrite prun_app. apply prun_lab_mono; [exact Hcr | rewrite <- prun_app; exact Hok|].
    pose proof (prun_ok_prefix _ _ _ _ Hok) as Hoka. rewrite prun_snoc in *.
    destruct (pstep_inv _ _ _ Hoka) as (_ & Es & _). rewrite Es. apply in_app_iff. left. exact Hx.
  - intros a b' r -> Hs E.
    change (a ++ PStep (CWrite b') :: r) with (a ++ [PStep (CWrite b')] ++ r) in *.
    rewrite app_assoc in *. apply no_pcrash_app in Hc1 as [Hca Hcr].
    apply Hfresh. left. rewrite prun_app. apply prun_routs_mono; [exact Hcr | exact Hs | rewrite <- prun_app; exact Hok|].
    pose proof (prun_ok_prefix _ _ _ _ Hok) as Hoka. rewrite prun_snoc in *.
    destruct (pstep_inv _ _ _ Hoka eq_refl) as (_ & _ & _ & Es & _). rewrite Es, E. left. reflexivity.
Qed.

(** the output ids of a history, in order *)
Fixpoint outs (ls : list plabel) : list N :=
  match ls with
  | [] => []
  | PStep (CWrite b) :: r => b_out b :: outs r
  | _ :: r => outs r
  end.

Lemma outs_in ls x : In x (outs ls) -> exists a b r, ls = a ++ PStep (CWrite b) :: r /\ b_out b = x.
Proof.
  induction ls as [|l r IH]; cbn [outs]; [intros []|].
  assert (G : In x (outs r) -> exists a b r0, l :: r = a ++ PStep (CWrite b) :: r0 /\ b_out b = x).
  { intros H. destruct (IH H) as (a & b & r0 & -> & E). exists (l :: a), b, r0. split; [reflexivity | exact E]. }
  destruct l as [|c]; [exact G|]. destruct c; try exact G.
  intros [<-|H]; [exists [], b, r; split; reflexivity | exact (G H)].
Qed.

Lemma outs_app a b : outs (a ++ b) = outs a ++ outs b.
Proof.
  induction a as [|l a IH]; [reflexivity|]. cbn [app outs]. destruct l as [|c]; [exact IH|].
  destruct c; cbn [app]; rewrite IH; reflexivity.
Qed.

(** inside one planning round the output ids are pairwise distinct *)
Theorem round_outs_nodup : forall k p ls,
  no_pcrash ls -> no_pstart ls -> p_ok (prun k p ls) = true -> NoDup (outs ls).
Proof.
  intros k p ls. induction ls as [|l ls IH] using rev_ind; intros Hc Hs Hok; [constructor|].
  apply no_pcrash_app in Hc as Hc'. destruct Hc' as [Hc1 _]. apply no_pstart_app in Hs as Hs'. destruct Hs' as [Hs1 _].
  pose proof (prun_ok_prefix _ _ _ _ Hok) as Hok1. specialize (IH Hc1 Hs1 Hok1).
  rewrite outs_app. destruct l as [|c]; [cbn [outs]; rewrite app_nil_r; exact IH|].
  destruct c; cbn [outs]; rewrite ?app_nil_r; try exact IH.
  apply nodup_app. split; [exact IH|]. split; [repeat constructor; intros []|].
  intros x Hx [<-|[]]. apply outs_in in Hx as (a & b' & r & -> & E).
  destruct (ids_fresh_in_lifetime k p _ Hc Hok _ b [] eq_refl) as (_ & _ & H).
  apply no_pstart_app in Hs1 as [_ Hr]. unfold no_pstart in Hr. cbn [In] in Hr.
  refine (H a b' r eq_refl _ E). intros Hin. apply Hr. right. exact Hin.
Qed.

(** ** a published name is not created again in the lifetime *)

Lemma fw_shape s l :
  (dirs (fw_step s l) = dirs s /\ alloc0 (fw_step s l) = alloc0 s /\
   forall j', In j' (jobs (fw_step s l)) -> In (jseg j') (map jseg (jobs s)))
  \/ (exists j rest r, jobs s = j :: rest /\ dirs (fw_step s l) = dir_add_rows (dirs s) (jseg j) r /\
        jobs (fw_step s l) = jobs s /\ alloc0 (fw_step s l) = alloc0 s).
Proof.
  unfold fw_step. destruct (jobs s) as [|j rest] eqn:Hj.
  { left. rewrite Hj. split; [reflexivity|]. split; [reflexivity|]. intros j' []. }
  destruct l; destruct (jstage j) eqn:Hst;
    repeat match goal with |- context [if ?c then _ else _] => destruct c end;
    first [ left; unfold set_jobs; cbn [dirs jobs alloc0]; rewrite ?Hj; split; [reflexivity|]; split; [reflexivity|];
            intros j' Hj'; cbn [map];
            first [ exact (in_map jseg _ _ Hj')
                  | destruct Hj' as [<-|Hj']; [left; reflexivity | right; exact (in_map jseg _ _ Hj')]
                  | right; exact (in_map jseg _ _ Hj') ]
          | right; exists j, rest; eexists; cbn [dirs jobs alloc0]; rewrite ?Hj;
            split; [reflexivity|]; split; [reflexivity|]; split; reflexivity ].
Qed.

Lemma step_shape s x :
  is_crash x = false ->
  (dirs (step s x) = dirs s /\ alloc0 s <= alloc0 (step s x) /\
   forall j', In j' (jobs (step s x)) ->
     In (jseg j') (map jseg (jobs s)) \/ (jseg j' = alloc0 s /\ alloc0 (step s x) = N.succ (alloc0 s)))
  \/ (exists j rest r, jobs s = j :: rest /\ dirs (step s x) = dir_add_rows (dirs s) (jseg j) r /\
        jobs (step s x) = jobs s /\ alloc0 (step s x) = alloc0 s).
Proof.
  intros Hx. destruct x; try discriminate; cbn [step].
  - left. unfold store. cbv zeta. destruct (cap s <=? len _); unfold rotate; cbn [dirs alloc0 jobs mem].
    + split; [reflexivity|]. split; [lia|]. intros j' Hj'. apply in_app_iff in Hj' as [Hj'|[<-|[]]].
      * left. apply in_map, Hj'.
      * right. split; reflexivity.
    + split; [reflexivity|]. split; [lia|]. intros j' Hj'. left. apply in_map, Hj'.
  - left. unfold flush_cmd, rotate. cbn [dirs alloc0 jobs]. split; [reflexivity|]. split; [lia|].
    intros j' Hj'. apply in_app_iff in Hj' as [Hj'|[<-|[]]]; [left; apply in_map, Hj' | right; split; reflexivity].
  - left. unfold wal_write. destruct (walq s); cbn [dirs alloc0 jobs]; (split; [reflexivity|]); (split; [lia|]);
      intros j' Hj'; left; apply in_map, Hj'.
  - left. unfold wal_rotate. destruct (cap s <=? wcnt s); cbn [dirs alloc0 jobs]; (split; [reflexivity|]); (split; [lia|]);
      intros j' Hj'; left; apply in_map, Hj'.
  - destruct (fw_shape s l) as [(E1 & E2 & E3)|H]; [left | right; exact H].
    split; [exact E1|]. split; [rewrite E2; lia|]. intros j' Hj'. left. apply E3, Hj'.
Qed.

Lemma has_dir_add_iff ds seg r i : has_dir (dir_add_rows ds seg r) i <-> has_dir ds i \/ i = seg.
Proof.
  split.
  - intros (d & Hd & E). apply add_sid in Hd as [Hd|Hd]; [right; congruence | left; exists d; auto].
  - intros [H| ->]; [apply has_dir_add, H|]. apply has_dir_sids. rewrite add_rows_sids.
    destruct (has_dirb ds seg) eqn:E; [apply has_dir_sids, has_dirb_true, E|].
    apply in_app_iff. right. left. reflexivity.
Qed.

(** [E] over-approximates the names that have had a directory in this lifetime;
    the level-0 names among them are below the level-0 allocator, and a queued
    flush job whose name is among them still has its directory *)
Record LI (s : shard) (E : N -> Prop) : Prop := {
  li_ci : CI s;
  li_dir : forall i, has_dir (dirs s) i -> E i;
  li_lo : forall i, E i -> i < level_span -> i < alloc0 s;
  li_job : forall j, In j (jobs s) -> E (jseg j) -> has_dir (dirs s) (jseg j) }.

Lemma li_step s c (E E' : N -> Prop) :
  LI s E -> cstep_ok s c = true ->
  (forall i, E' i <-> E i \/ has_dir (dirs (cstep s c)) i) ->
  LI (cstep s c) E' /\
  (forall i, i < level_span -> ~ has_dir (dirs s) i -> has_dir (dirs (cstep s c)) i -> ~ E i).
Proof.
  intros L G HE. destruct L as [Lci Ldir Llo Ljob].
  pose proof (ci_cstep s c Lci G) as Lci'.
  destruct c as [x|b|b|b dr|dr]; cbn [cstep cstep_ok] in *.
  - (* base label *)
    apply andb_true_iff in G as [G1 G2]. apply negb_true_iff in G1. apply N.leb_le in G2.
    destruct (step_shape s x G1) as [(Ed & Ea & Ej)|(j & rest & r & Hj & Ed & Ejb & Ea)].
    + rewrite Ed in HE.
      assert (HE2 : forall i, E' i <-> E i) by (intros i; rewrite HE; split; [intros [H|H]; auto | auto]).
      split; [|rewrite Ed; intros i _ H1 H2; contradiction].
      split; auto.
      * rewrite Ed. intros i Hi. apply HE2, Ldir, Hi.
      * intros i Hi Hl. apply HE2 in Hi. specialize (Llo i Hi Hl). lia.
      * rewrite Ed. intros j Hj Hi. apply HE2 in Hi. destruct (Ej j Hj) as [Hin|[E1 E2]].
        -- apply in_map_iff in Hin as (j0 & E0 & Hj0). rewrite <- E0 in *. apply Ljob; assumption.
        -- exfalso. rewrite E1 in Hi. assert (alloc0 s < level_span) by lia. specialize (Llo _ Hi H). lia.
    + rewrite Ed in HE. rewrite Ed.
      assert (Hseg : jseg j < alloc0 s) by (apply (c_jlt _ _ _ _ _ Lci); rewrite Hj; left; reflexivity).
      split.
      * split; auto; rewrite ?Ed, ?Ejb, ?Ea.
        -- intros i Hi. apply HE. right. exact Hi.
        -- intros i Hi Hl. apply HE in Hi as [Hi|Hi]; [apply Llo; assumption|].
           apply has_dir_add_iff in Hi as [Hi| ->]; [apply Llo; [apply Ldir, Hi | exact Hl] | exact Hseg].
        -- intros j0 Hj0 Hi. apply HE in Hi as [Hi|Hi]; [apply has_dir_add, Ljob; assumption | exact Hi].
      * intros i _ Hn Hi. apply has_dir_add_iff in Hi as [Hi| ->]; [contradiction|].
        intros HEi. apply Hn, Ljob; [rewrite Hj; left; reflexivity | exact HEi].
  - (* CWrite *)
    apply andb_true_iff in G as [G1 G2]. apply N.leb_le in G1. apply negb_true_iff in G2.
    rewrite has_dirb_false in G2. unfold cp_write in *. cbn [dirs jobs alloc0] in *.
    assert (Hd : forall i, has_dir (filter (fun d => negb (sid d =? b_out b)) (dirs s) ++
                 [mkSeg (b_out b) (filter (fun e => negb (memb (euid e) (b_uids b))) (rows_of (dirs s) (b_out b))
                                   ++ batch_rows (dirs s) b)]) i <-> has_dir (dirs s) i \/ i = b_out b).
    { intros i. split.
      - intros (d & Hd & E0). apply in_app_iff in Hd as [Hd|[<-|[]]]; [|right; symmetry; exact E0].
        apply filter_In in Hd as [Hd _]. left. exists d. auto.
      - intros [(d & Hd & E0)| ->].
        + exists d. split; [|exact E0]. apply in_app_iff. left. apply filter_In. split; [exact Hd|].
          apply negb_true_iff, N.eqb_neq, G2, Hd.
        + eexists. split; [apply in_app_iff; right; left; reflexivity | reflexivity]. }
    split.
    + split; auto.
      * intros i Hi. apply HE. right. exact Hi.
      * intros i Hi Hl. apply HE in Hi as [Hi|Hi]; [apply Llo; assumption|].
        apply Hd in Hi as [Hi| ->]; [apply Llo; [apply Ldir, Hi | exact Hl] | lia].
      * intros j Hj Hi. apply Hd. apply HE in Hi as [Hi|Hi]; [left; apply Ljob; assumption|]. apply Hd, Hi.
    + intros i Hl Hn Hi. apply Hd in Hi as [Hi| ->]; [contradiction | lia].
  - (* CIndex *)
    unfold cp_index in *. cbn [dirs jobs alloc0] in *.
    assert (HE2 : forall i, E' i <-> E i) by (intros i; rewrite HE; split; [intros [H|H]; auto | auto]).
    split; [|intros i _ H1 H2; contradiction].
    split; auto.
    + intros i Hi. apply HE2, Ldir, Hi.
    + intros i Hi. apply Llo, HE2, Hi.
    + intros j Hj Hi. apply Ljob; [exact Hj | apply HE2, Hi].
  - (* CLive *)
    unfold cp_live in *. cbn [dirs jobs alloc0] in *.
    assert (HE2 : forall i, E' i <-> E i) by (intros i; rewrite HE; split; [intros [H|H]; auto | auto]).
    split; [|intros i _ H1 H2; contradiction].
    split; auto.
    + intros i Hi. apply HE2, Ldir, Hi.
    + intros i Hi. apply Llo, HE2, Hi.
    + intros j Hj Hi. apply Ljob; [exact Hj | apply HE2, Hi].
  - (* CReclaim *)
    unfold cp_reclaim in *. cbn [dirs jobs alloc0] in *. rewrite forallb_forall in G.
    assert (Hsub : forall i, has_dir (filter (fun d => negb (memb (sid d) dr)) (dirs s)) i -> has_dir (dirs s) i).
    { intros i (d & Hd & E0). apply filter_In in Hd as [Hd _]. exists d. auto. }
    assert (HE2 : forall i, E' i <-> E i).
    { intros i. rewrite HE. split; [intros [H|H]; [exact H | apply Ldir, Hsub, H] | auto]. }
    split; [|intros i _ H1 H2; exfalso; apply H1, Hsub, H2].
    split; auto.
    + intros i Hi. apply HE2, Ldir, Hsub, Hi.
    + intros i Hi. apply Llo, HE2, Hi.
    + intros j Hj Hi. apply HE2 in Hi. destruct (Ljob j Hj Hi) as (d & Hd & E0). exists d. split; [|exact E0].
      apply filter_In. split; [exact Hd|]. apply negb_true_iff, memb_false. intros Hdr. apply G in Hdr.
      apply andb_true_iff in Hdr as [_ H3]. apply negb_true_iff, memb_false in H3. apply H3.
      rewrite E0. apply in_map, Hj.
Qed.

(** names that had a directory at some state of the history so far *)
Definition Ever (k : N) (p : pst) (ls : list plabel) (i : N) : Prop :=
  exists n, has_dir (dirs (p_s (prun k p (firstn n ls)))) i.

Lemma ever_snoc k p ls l i :
  Ever k p (ls ++ [l]) i <-> Ever k p ls i \/ has_dir (dirs (p_s (prun k p (ls ++ [l])))) i.
Proof.
  unfold Ever. split.
  - intros (n & H). destruct (Nat.le_gt_cases n (length ls)) as [Hn|Hn].
    + left. exists n. rewrite firstn_app in H. replace (n - length ls)%nat with 0%nat in H by lia.
      cbn [firstn] in H. rewrite app_nil_r in H. exact H.
    + right. rewrite firstn_all2 in H; [exact H | rewrite app_length; cbn [length]; lia].
  - intros [(n & H)|H].
    + destruct (Nat.le_gt_cases n (length ls)) as [Hn|Hn].
      * exists n. rewrite firstn_app. replace (n - length ls)%nat with 0%nat by lia.
        cbn [firstn]. rewrite app_nil_r. exact H.
      * exists (length ls). rewrite firstn_app, firstn_all, Nat.sub_diag. cbn [firstn]. rewrite app_nil_r.
        rewrite firstn_all2 in H by lia. exact H.
    + exists (length (ls ++ [l])). rewrite firstn_all. exact H.
Qed.

Lemma li_run k c ls :
  no_pcrash ls -> p_ok (prun k (pinit c) ls) = true ->
  LI (p_s (prun k (pinit c) ls)) (Ever k (pinit c) ls).
Proof.
  induction ls as [|l ls IH] using rev_ind; intros Hc Hok.
  - assert (Hnone : forall i, ~ Ever k (pinit c) [] i).
    { intros i (n & Hn). rewrite firstn_nil in Hn. destruct Hn as (d & Hd & _). exact Hd. }
    split.
    + apply ci_init.
    + intros i (d & Hd & _). destruct Hd.
    + intros i Hi. destruct (Hnone i Hi).
    + intros j Hj. destruct Hj.
  - apply no_pcrash_app in Hc as [Hc1 Hc2]. rewrite prun_snoc in *.
    specialize (IH Hc1 (pstep_ok _ _ _ Hok)). pose proof (pstep_inv _ _ _ Hok) as I.
    destruct l as [|c0].
    + destruct I as (Es & _). destruct IH as [A B C D]. rewrite Es. split; auto.
      * intros i Hi. apply ever_snoc. left. apply B, Hi.
      * intros i Hi. apply ever_snoc in Hi as [Hi|Hi]; [apply C, Hi|]. rewrite prun_snoc, Es in Hi. apply C, B, Hi.
      * intros j Hj Hi. apply ever_snoc in Hi as [Hi|Hi]; [apply D; assumption|]. rewrite prun_snoc, Es in Hi. exact Hi.
    + destruct (I (Hc2 c0 (or_introl eq_refl))) as (Es & G & _). rewrite Es.
      refine (proj1 (li_step _ c0 _ _ IH G _)).
      intros i. rewrite ever_snoc, prun_snoc, Es. reflexivity.
Qed.

(** A directory that a step of the first lifetime creates:
    - on level 0 (a flush directory) its name had no directory at ANY earlier state
      of the lifetime;
    - above level 0 it is the output of a [CWrite] and its name was not listed in the
      index at any earlier round start of the lifetime.
    A name published once (listed in the index when some planning round started)
    is therefore never created again before the next restart. *)
Theorem name_never_recreated : forall k c ls,
  no_pcrash ls -> p_ok (prun k (pinit c) ls) = true ->
  forall l1 l l2 i, ls = l1 ++ l :: l2 ->
    ~ has_dir (dirs (p_s (prun k (pinit c) l1))) i ->
    has_dir (dirs (p_s (prun k (pinit c) (l1 ++ [l])))) i ->
    (i < level_span -> forall n, ~ has_dir (dirs (p_s (prun k (pinit c) (firstn n l1)))) i) /\
    (level_span <= i ->
       (exists b, l = PStep (CWrite b) /\ b_out b = i) /\
       forall a r, l1 = a ++ PStart :: r -> ~ In i (index_labels (index (p_s (prun k (pinit c) a))))).
Proof.
  intros k c ls Hc Hok l1 l l2 i Els Hn Hd. subst ls.
  pose proof Hc as Hc0. pose proof Hok as Hok0.
  change (l1 ++ l :: l2) with (l1 ++ [l] ++ l2) in Hc, Hok. rewrite app_assoc in Hc, Hok.
  apply prun_ok_prefix in Hok. apply no_pcrash_app in Hc as [Hc _].
  apply no_pcrash_app in Hc as Hc'. destruct Hc' as [Hc1 Hc2].
  pose proof (li_run k c l1 Hc1 (prun_ok_prefix _ _ _ _ Hok)) as L.
  rewrite prun_snoc in *. pose proof (pstep_inv _ _ _ Hok) as I.
  destruct l as [|c0].
  { destruct I as (Es & _). rewrite Es in Hd. contradiction. }
  destruct (I (Hc2 c0 (or_introl eq_refl))) as (Es & G & _). rewrite Es in Hd.
  split.
  - intros Hlo n Hbefore.
    destruct (li_step _ c0 _ (fun i => Ever k (pinit c) l1 i \/ has_dir (dirs (cstep (p_s (prun k (pinit c) l1)) c0)) i)
                L G (fun i => conj (fun H => H) (fun H => H))) as [_ Hfresh].
    apply (Hfresh i Hlo Hn Hd). exists n. exact Hbefore.
  - intros Hhi.
    destruct (dir_created_fresh _ c0 i (li_ci _ _ L) G Hn Hd) as [(b & -> & Eb & _)|(j & rest & Hj & Ej & _)].
    + split; [exists b; split; [reflexivity | exact Eb]|]. intros a r Ea.
      destruct (ids_fresh_in_lifetime k (pinit c) _ Hc0 Hok0 l1 b l2 eq_refl) as (_ & H & _).
      rewrite <- Eb. exact (H a r Ea).
    + exfalso. pose proof (li_ci _ _ L) as Ci.
      assert (jseg j < alloc0 (p_s (prun k (pinit c) l1))) by (apply (c_jlt _ _ _ _ _ Ci); rewrite Hj; left; reflexivity).
      pose proof (c_al _ _ _ _ _ Ci). lia.
Qed.

(** * Known findings and non-vacuity *)

Lemma memb_true_in x l : memb x l = true -> In x l.
Proof. apply memb_true. Qed.
Lemma memb_false_notin x l : memb x l = false -> ~ In x l.
Proof. apply memb_false. Qed.
Lemma has_dirb_false_not ds i : has_dirb ds i = false -> ~ has_dir ds i.
Proof. intros H Hd. apply has_dirb_true in Hd. congruence. Qed.

Ltac vm_conj :=
  repeat (match goal with |- _ /\ _ => split; [vm_compute; reflexivity|] end); vm_compute; reflexivity.

(** every batch written in the history is one the k-way policy can produce on the index of that moment *)
Fixpoint policy_ok (k : N) (s : shard) (ls : list clabel) : bool :=
  match ls with
  | [] => true
  | l :: r => match l with CWrite b => batch_ok (index s) k b | _ => true end && policy_ok k (cstep s l) r
  end.

Definition whole (b : batch) (dr : list N) : list clabel := [CWrite b; CIndex b; CLive b dr; CReclaim dr].

(** one event of type 0 stored with capacity 1 and flushed completely *)
Definition seg1 (n : N) : list clabel := map CBase ([LStore (mkEv n 0 0)] ++ flush_all [0]).

(** Former finding SegmentLabelReused (repaired by a19e65f).  Capacity 1, k = 2, one
    type.  Segments 0..3; round 1: [0;1] -> 10000, [2;3] -> 10001; round 2:
    [10000;10001] -> 20000 (10000 is retired and its directory reclaimed); segments
    4, 5; round 3: an allocator seeded from the index labels {20000, 4, 5} alone would
    hand out 10000 again for [4;5].  The history up to the start of round 3
    satisfies every guard; [rb4] still satisfies [batch_ok] (a lower bound) but is
    rejected by [batch_ok_fresh], because [p_lab] holds 10000 from the first two
    round starts; the id the repaired allocator hands out, 10002, is accepted. *)
Definition rb1 : batch := mkBatch 10000 [0; 1] [0].
Definition rb2 : batch := mkBatch 10001 [2; 3] [0].
Definition rb3 : batch := mkBatch 20000 [10000; 10001] [0].
Definition rb4 : batch := mkBatch 10000 [4; 5] [0].
Definition rb4' : batch := mkBatch 10002 [4; 5] [0].
Definition reuse1 : list clabel := seg1 0 ++ seg1 1 ++ seg1 2 ++ seg1 3 ++ whole rb1 [0; 1].
Definition reuse2 : list clabel := whole rb2 [2; 3] ++ whole rb3 [10000; 10001].
Definition reuse3 : list clabel := seg1 4 ++ seg1 5 ++ whole rb4 [4; 5].

Definition lift (ls : list clabel) : list plabel := map PStep ls.

(** the same history with the round starts marked, up to the start of round 3 *)
Definition reuse_p : list plabel :=
  lift (seg1 0 ++ seg1 1 ++ seg1 2 ++ seg1 3) ++ [PStart] ++ lift (whole rb1 [0; 1] ++ whole rb2 [2; 3])
  ++ [PStart] ++ lift (whole rb3 [10000; 10001]) ++ lift (seg1 4 ++ seg1 5) ++ [PStart].

Lemma no_pcrash_b ls :
  forallb (fun l => match l with PStep c => negb (is_crash_c c) | PStart => true end) ls = true -> no_pcrash ls.
Proof.
  intros H c Hc. rewrite forallb_forall in H. apply H in Hc. apply negb_true_iff in Hc. exact Hc.
Qed.

Example label_reuse_rejected_example :
  let p := prun 2 (pinit 1) reuse_p in
  hist_ok (init 1) (reuse1 ++ reuse2 ++ reuse3) = true /\ policy_ok 2 (init 1) (reuse1 ++ reuse2 ++ reuse3) = true /\
  no_pcrash reuse_p /\ p_ok p = true /\
  p_rix p = [(20000, [0]); (4, [0]); (5, [0])] /\ In 10000 (p_lab p) /\
  batch_ok (p_rix p) 2 rb4 = true /\ batch_ok_fresh (p_routs p ++ p_lab p) (p_rix p) 2 rb4 = false /\
  p_ok (prun 2 (pinit 1) (reuse_p ++ lift (whole rb4 [4; 5]))) = false /\
  batch_ok_fresh (p_routs p ++ p_lab p) (p_rix p) 2 rb4' = true /\
  p_ok (prun 2 (pinit 1) (reuse_p ++ lift (whole rb4' [4; 5]))) = true.
Proof.
  cbv zeta. split; [vm_compute; reflexivity|]. split; [vm_compute; reflexivity|].
  split; [apply no_pcrash_b; vm_compute; reflexivity|]. split; [vm_compute; reflexivity|].
  split; [vm_compute; reflexivity|]. split; [apply memb_true_in; vm_compute; reflexivity|].
  vm_conj.
Qed.

(** Across a restart the bookkeeping is gone ([p_lab] is reset, as the engine's set
    of remembered labels lives in process memory) and a retired output id IS handed
    out again.  Capacity 1, k = 4, one type.  Lifetime A: segments 0..8; round 1:
    [0;1;2;3] -> 10000, [4;5;6;7] -> 10001 (8 is left over); round 2: [10000;10001]
    -> 20000, both reclaimed.  Crash, restart (level-0 allocator continues at 9).
    Lifetime B: segments 9, 10, 11; round 3: the index labels are {20000, 8..11}, so
    [8;9;10;11] -> 10000 satisfies [batch_ok_fresh] and every guard: the name 10000 is
    published a second time with other rows.  (Model-level; no level-0 name is
    reused in this history.) *)
Fixpoint segs (a : N) (n : nat) : list clabel :=
  match n with O => [] | S m => seg1 a ++ segs (N.succ a) m end.
Definition xb1 : batch := mkBatch 10000 [0; 1; 2; 3] [0].
Definition xb2 : batch := mkBatch 10001 [4; 5; 6; 7] [0].
Definition xb3 : batch := mkBatch 20000 [10000; 10001] [0].
Definition xb4 : batch := mkBatch 10000 [8; 9; 10; 11] [0].
Definition lifeA1 : list plabel :=
  lift (segs 0 9) ++ [PStart] ++ lift (whole xb1 [0; 1; 2; 3] ++ whole xb2 [4; 5; 6; 7]).
Definition lifeA2 : list plabel := [PStart] ++ lift (whole xb3 [10000; 10001]).
Definition lifeB : list plabel := lift (segs 9 3) ++ [PStart] ++ lift (whole xb4 [8; 9; 10; 11]).

Lemma label_reuse_across_restart_refuted :
  exists k c lA1 lA2 lB i,
    let restart := [PStep (CBase LCrash); PStep (CBase LRestart)] in
    let p1 := prun k (pinit c) lA1 in
    let p2 := prun k (pinit c) (lA1 ++ lA2) in
    let p3 := prun k (pinit c) (lA1 ++ lA2 ++ restart) in
    let p4 := prun k (pinit c) (lA1 ++ lA2 ++ restart ++ lB) in
    no_pcrash (lA1 ++ lA2) /\ no_pcrash lB /\ p_ok p4 = true /\
    In i (live (p_s p1)) /\ rows_of (dirs (p_s p1)) i = [mkEv 0 0 0; mkEv 1 0 0; mkEv 2 0 0; mkEv 3 0 0] /\
    ~ In i (live (p_s p2)) /\ ~ has_dir (dirs (p_s p2)) i /\ In i (p_lab p2) /\
    p_lab p3 = [] /\ alloc0 (p_s p3) = 9 /\
    In (PStep (CWrite (mkBatch i [8; 9; 10; 11] [0]))) lB /\
    In i (live (p_s p4)) /\ rows_of (dirs (p_s p4)) i = [mkEv 8 0 0; mkEv 9 0 0; mkEv 10 0 0; mkEv 11 0 0].
Proof.
  exists 4, 1, lifeA1, lifeA2, lifeB, 10000. cbv zeta.
  split; [apply no_pcrash_b; vm_compute; reflexivity|]. split; [apply no_pcrash_b; vm_compute; reflexivity|].
  split; [vm_compute; reflexivity|].
  split; [apply memb_true_in; vm_compute; reflexivity|]. split; [vm_compute; reflexivity|].
  split; [apply memb_false_notin; vm_compute; reflexivity|].
  split; [apply has_dirb_false_not; vm_compute; reflexivity|].
  split; [apply memb_true_in; vm_compute; reflexivity|].
  split; [vm_compute; reflexivity|]. split; [vm_compute; reflexivity|].
  split; [unfold lifeB, lift, whole; rewrite !in_app_iff; right; right; left; reflexivity|].
  split; [apply memb_true_in; vm_compute; reflexivity|]. vm_compute; reflexivity.
Qed.

(** What the repair does not cover inside a lifetime: an output id whose batch did
    not reach its index entry (index save failed, no crash) is not remembered.
    Capacity 1, k = 3: [0;1] -> 10000 is written but not indexed; segment 2; the
    next round plans [0;1;2] -> 10000 again: [batch_ok_fresh] accepts it, the guard
    of [CWrite] (no directory of that name) does not - the leftover, never
    published directory is overwritten.  (Observed on the engine with an injected
    index-save failure.) *)
Definition failed_p : list plabel :=
  lift (seg1 0 ++ seg1 1) ++ [PStart; PStep (CWrite (mkBatch 10000 [0; 1] [0]))] ++ lift (seg1 2) ++ [PStart].

Example failed_batch_id_retaken_example :
  let p := prun 3 (pinit 1) failed_p in
  let b := mkBatch 10000 [0; 1; 2] [0] in
  no_pcrash failed_p /\ p_ok p = true /\ index (p_s p) = [(0, [0]); (1, [0]); (2, [0])] /\
  batch_ok_fresh (p_routs p ++ p_lab p) (p_rix p) 3 b = true /\
  has_dirb (dirs (p_s p)) 10000 = true /\ cstep_ok (p_s p) (CWrite b) = false /\
  ~ In 10000 (live (p_s p)) /\ outs (failed_p ++ [PStep (CWrite b)]) = [10000; 10000].
Proof.
  cbv zeta. split; [apply no_pcrash_b; vm_compute; reflexivity|].
  do 5 (split; [vm_compute; reflexivity|]).
  split; [apply memb_false_notin; vm_compute; reflexivity|]. vm_compute; reflexivity.
Qed.

(** Non-vacuity of the lifetime theorems: the C05 example history with its two
    rounds marked satisfies [p_ok] without a crash label. *)
Example ids_fresh_example :
  let h := lift (map CBase ls_3) ++ [PStart] ++ lift (whole b_31 [1]) ++ [PStart] ++ lift (whole b_32 [0; 2]) in
  no_pcrash h /\ p_ok (prun 2 (pinit 2) h) = true /\ outs h = [10000; 10001] /\
  map sid (dirs (p_s (prun 2 (pinit 2) h))) = [10000; 10001].
Proof.
  cbv zeta. split; [apply no_pcrash_b; vm_compute; reflexivity|]. vm_conj.
Qed.

(** Known finding CrashLeftoverDirectoryBecomesLive.  (a) capacity 1: crash right
    after [FwMkdir], restart: the empty directory 0 is live and not in the index.
    (b) capacity 2, types 0 and 1: crash after the files of type 0 were written:
    directory 0 is live, holds one of the two rotated events and is not in the index. *)
Definition leftover_a : list clabel :=
  map CBase [LStore (mkEv 0 0 0); LFw FwBegin; LFw FwMkdir].
Definition leftover_b : list clabel :=
  map CBase [LStore (mkEv 0 0 0); LStore (mkEv 1 0 1); LWalWrite; LWalWrite;
             LFw FwBegin; LFw FwMkdir; LFw (FwWrite 0)].

Lemma crash_leftover_refuted :
  (exists c pre, let s0 := crun (init c) pre in
     let s := crun (init c) (pre ++ [CBase LCrash; CBase LRestart]) in
     hist_ok (init c) pre = true /\ ~ In 0 (live s0) /\ ~ Complete s0 0 /\
     jobs s0 = [mkJob 0 [mkEv 0 0 0] StBegun] /\
     In 0 (live s) /\ index s = [] /\ dirs s = [mkSeg 0 []]) /\
  (exists c pre, let s0 := crun (init c) pre in
     let s := crun (init c) (pre ++ [CBase LCrash; CBase LRestart]) in
     hist_ok (init c) pre = true /\ ~ In 0 (live s0) /\ ~ Complete s0 0 /\
     jobs s0 = [mkJob 0 [mkEv 0 0 0; mkEv 1 0 1] StBegun] /\
     In 0 (live s) /\ index s = [] /\ dirs s = [mkSeg 0 [mkEv 0 0 0]] /\
     mem s = [mkEv 0 0 0; mkEv 1 0 1]).
Proof.
  split.
  - exists 1, leftover_a. cbv zeta. split; [vm_compute; reflexivity|].
    split; [apply memb_false_notin; vm_compute; reflexivity|].
    split; [intros [_ H]; specialize (H (mkJob 0 [mkEv 0 0 0] StBegun)); vm_compute in H;
            specialize (H (or_introl eq_refl) eq_refl); discriminate|].
    split; [vm_compute; reflexivity|]. split; [apply memb_true_in; vm_compute; reflexivity|]. vm_conj.
  - exists 2, leftover_b. cbv zeta. split; [vm_compute; reflexivity|].
    split; [apply memb_false_notin; vm_compute; reflexivity|].
    split; [intros [_ H]; specialize (H (mkJob 0 [mkEv 0 0 0; mkEv 1 0 1] StBegun)); vm_compute in H;
            specialize (H (or_introl eq_refl) eq_refl); discriminate|].
    split; [vm_compute; reflexivity|]. split; [apply memb_true_in; vm_compute; reflexivity|]. vm_conj.
Qed.

(** Known finding L0IdReusedAfterCompactionAndRestart.  Capacity 1, k = 2: segments 0
    and 1 are merged into 10000 and reclaimed (guarded history, [batch_ok] batch);
    crash and restart: [restart] seeds the level-0 allocator from the directory
    names that still exist ([alloc0_from [10000] = 0]), so the next flush publishes
    the name 0 again with different rows. *)
Definition l0r1 : list clabel := seg1 0 ++ seg1 1.
Definition l0r2 : list clabel := whole (mkBatch 10000 [0; 1] [0]) [0; 1].
Definition l0r3 : list clabel := [CBase LCrash; CBase LRestart] ++ seg1 2.

Lemma l0_reuse_after_restart_refuted :
  exists c k l1 l2 l3 i,
    let s1 := crun (init c) l1 in
    let s2 := crun (init c) (l1 ++ l2) in
    let s3 := crun (init c) (l1 ++ l2 ++ l3) in
    hist_ok (init c) (l1 ++ l2) = true /\ policy_ok k (init c) (l1 ++ l2) = true /\
    l3 = [CBase LCrash; CBase LRestart] ++ seg1 2 /\
    hist_ok (crun (init c) (l1 ++ l2 ++ [CBase LCrash; CBase LRestart])) (seg1 2) = true /\
    In i (live s1) /\ rows_of (dirs s1) i = [mkEv 0 0 0] /\
    ~ In i (live s2) /\ ~ has_dir (dirs s2) i /\ alloc0 s2 = 2 /\
    alloc0 (crun (init c) (l1 ++ l2 ++ [CBase LCrash; CBase LRestart])) = 0 /\
    In i (live s3) /\ In i (index_labels (index s3)) /\ rows_of (dirs s3) i = [mkEv 2 0 0].
Proof.
  exists 1, 2, l0r1, l0r2, l0r3, 0. cbv zeta.
  split; [vm_compute; reflexivity|]. split; [vm_compute; reflexivity|]. split; [reflexivity|].
  split; [vm_compute; reflexivity|].
  split; [apply memb_true_in; vm_compute; reflexivity|]. split; [vm_compute; reflexivity|].
  split; [apply memb_false_notin; vm_compute; reflexivity|].
  split; [apply has_dirb_false_not; vm_compute; reflexivity|].
  split; [vm_compute; reflexivity|]. split; [vm_compute; reflexivity|].
  split; [apply memb_true_in; vm_compute; reflexivity|]. split; [apply memb_true_in; vm_compute; reflexivity|].
  vm_compute; reflexivity.
Qed.

(** The guard of [CReclaim] (no queued flush job refers to the directory) is needed
    in the model: a [batch_ok] batch that drains a segment whose flush job is between
    [FwIndex] and [FwPublish], followed by [FwPublish], leaves a live id without a
    directory.  (Model-level interleaving; not observed on the engine.) *)
Definition race : list clabel :=
  map CBase [LStore (mkEv 0 0 0); LFw FwBegin; LFw FwMkdir; LFw (FwWrite 0); LFw FwIndex]
  ++ whole (mkBatch 10000 [0] [0]) [0] ++ [CBase (LFw FwPublish)].

Example reclaim_guard_needed :
  let s := crun (init 1) race in
  policy_ok 2 (init 1) race = true /\ hist_ok (init 1) race = false /\
  live s = [10000; 0] /\ map sid (dirs s) = [10000].
Proof. cbv zeta. vm_conj. Qed.

(** Non-vacuity: the history of the C05 example (three segments, two event types,
    two batches) satisfies every guard; id 10000 is live from the end of the first
    batch on, throughout the second batch. *)
Example live_rows_immutable_example :
  let pre := map CBase ls_3 ++ whole b_31 [1] in
  let post := whole b_32 [0; 2] in
  hist_ok (init 2) (pre ++ post) = true /\ policy_ok 2 (init 2) (pre ++ post) = true /\
  (forall n, In 10000 (live (crun (init 2) (pre ++ firstn n post)))) /\
  live (crun (init 2) pre) = [0; 2; 10000] /\ live (crun (init 2) (pre ++ post)) = [10000; 10001] /\
  index (crun (init 2) (pre ++ post)) = [(10000, [0]); (10001, [1])] /\
  rows_of (dirs (crun (init 2) (pre ++ post))) 10000 = [mkEv 0 0 0; mkEv 2 0 0; mkEv 3 1 0].
Proof.
  cbv zeta. split; [vm_compute; reflexivity|]. split; [vm_compute; reflexivity|].
  split; [intros n; apply memb_true_in; destruct n as [|[|[|[|[|n]]]]]; vm_compute; reflexivity|].
  vm_conj.
Qed.

(** a flush history with a queued and an in-flight job satisfies the guards *)
Example guards_flush_example :
  hist_ok (init 2) (map CBase ls_ex) = true /\
  map jstage (jobs (crun (init 2) (map CBase ls_ex))) = [StBegun; StQueued] /\
  live (crun (init 2) (map CBase ls_ex)) = [0].
Proof. vm_conj. Qed.
