(** Proofs about Model/XorKey.v (C08 part B): builder and probe derive the same key,
    and — given only the contract of the binary-fuse filter — a zone that holds the
    probed value is a candidate. *)
From Coq Require Import NArith ZArith List Bool Lia.
From Snel Require Import Base.Bytes Gen.Params Model.ZoneSel Model.XorKey Proofs.ZoneSelProofs.
Import ListNotations.
Open Scope N_scope.

(** * Key sets *)
Lemma dedup_keys_in : forall l x, In x (dedup_keys l) <-> In x l.
Proof.
  induction l as [|y r IH]; intros x; cbn [dedup_keys]; [reflexivity|].
  destruct (existsb (N.eqb y) r) eqn:E.
  - rewrite IH. cbn. split; [tauto|]. intros [<-|H]; [|assumption].
    apply existsb_exists in E. destruct E as [z [Hz Heq]]. apply N.eqb_eq in Heq. now subst.
  - cbn [In]. rewrite IH. reflexivity.
Qed.

Lemma zone_strings_in : forall cells c s,
  In (Some c) cells -> value_to_string c = Some s -> In s (zone_strings cells).
Proof.
  intros cells c s Hin Hs. unfold zone_strings. apply in_flat_map.
  exists (Some c). split; [assumption|]. rewrite Hs. now left.
Qed.

(** the builder's key set of a zone contains the hash of every convertible cell *)
Lemma zone_keys_in : forall cells c s,
  In (Some c) cells -> value_to_string c = Some s -> In (stable_hash64 s) (zone_keys cells).
Proof.
  intros cells c s Hin Hs. unfold zone_keys. apply dedup_keys_in, in_map.
  eapply zone_strings_in; eassumption.
Qed.

(** on the kinds the probe supports, the field-level builder's string
    ([Event::scalar_to_string]) is the probe's string ([value_to_string]) *)
Lemma scalar_to_string_agrees : forall c s, value_to_string c = Some s -> scalar_to_string c = s.
Proof. intros c s. destruct c; cbn; congruence. Qed.

Lemma field_keys_in : forall zones zid cells c s,
  In (zid, cells) zones -> In (Some c) cells -> value_to_string c = Some s ->
  In (stable_hash64 s) (field_keys zones).
Proof.
  intros zones zid cells c s Hz Hc Hs. unfold field_keys. apply dedup_keys_in, in_map.
  unfold field_strings. apply in_flat_map. exists (zid, cells). split; [assumption|].
  cbn [snd]. assert (Hk : zone_has_key cells = true).
  { unfold zone_has_key. apply existsb_exists. exists (Some c). split; [assumption|reflexivity]. }
  rewrite Hk. apply in_map_iff. exists (Some c). split; [|assumption].
  cbn [get_field_value]. now apply scalar_to_string_agrees.
Qed.

(** * Builder and probe agree on the key.
    For a cell [c] of a zone and a literal [l] with the same canonical string (in
    particular [l = c]): the key the probe looks up is one of the keys the zone-level
    builder inserted, and one of the keys the field-level builder inserted. *)
Theorem xor_key_agree : forall zones zid cells c l s,
  In (zid, cells) zones -> In (Some c) cells ->
  value_to_string c = Some s -> value_to_string l = Some s ->
  exists k, probe_key l = Some k /\ In k (zone_keys cells) /\ In k (field_keys zones).
Proof.
  intros zones zid cells c l s Hz Hc Hs Hl. exists (stable_hash64 s).
  split; [unfold probe_key; now rewrite Hl|].
  split; [eapply zone_keys_in; eassumption|eapply field_keys_in; eassumption].
Qed.

(** the same value gives the same key, whatever its kind says *)
Corollary xor_key_same_value : forall c s, value_to_string c = Some s -> probe_key c = Some (stable_hash64 s).
Proof. intros c s H. unfold probe_key. now rewrite H. Qed.

Example xor_cross_kind_keys :
  probe_key (SInt 5) = probe_key (SUtf8 [53]) /\ probe_key (STs 5) = probe_key (SInt 5) /\
  probe_key (SBool true) = probe_key (SUtf8 [116; 114; 117; 101]) /\
  probe_key (SFloat [50]) = probe_key (SInt 2).
Proof. repeat split. Qed.

Section Fuse.
  Variable fuse : Type.
  Variable fbuild : list N -> option fuse.
  Variable fcontains : fuse -> N -> bool.
  (** the ONLY assumption about the binary-fuse filter *)
  Hypothesis fuse_contract : forall ks f k, fbuild ks = Some f -> In k ks -> fcontains f k = true.

  Lemma bzf_keeps : forall zones acc zid f,
    ~ In zid (map fst zones) -> am_get zid acc = Some f ->
    am_get zid (build_zone_filters fuse fbuild zones acc) = Some f.
  Proof.
    induction zones as [|[z cells] r IH]; intros acc zid f Hnin Hg; cbn [build_zone_filters]; [assumption|].
    cbn [map fst In] in Hnin.
    destruct (zone_strings cells); [apply IH; tauto|].
    destruct (fbuild (zone_keys cells)) as [f'|]; [|apply IH; tauto].
    apply IH; [tauto|]. rewrite am_get_set_other; [assumption|]. intros ->. tauto.
  Qed.

  Lemma bzf_absent : forall zones acc zid,
    ~ In zid (map fst zones) -> am_get zid acc = None ->
    am_get zid (build_zone_filters fuse fbuild zones acc) = None.
  Proof.
    induction zones as [|[z cells] r IH]; intros acc zid Hnin Hg; cbn [build_zone_filters]; [assumption|].
    cbn [map fst In] in Hnin.
    destruct (zone_strings cells); [apply IH; tauto|].
    destruct (fbuild (zone_keys cells)) as [f'|]; [|apply IH; tauto].
    apply IH; [tauto|]. rewrite am_get_set_other; [assumption|]. intros ->. tauto.
  Qed.

  Lemma bzf_spec : forall zones acc zid cells f,
    NoDup (map fst zones) -> In (zid, cells) zones ->
    zone_strings cells <> [] -> fbuild (zone_keys cells) = Some f ->
    am_get zid (build_zone_filters fuse fbuild zones acc) = Some f.
  Proof.
    induction zones as [|[z cs] r IH]; intros acc zid cells f Hnd Hin Hne Hf; [contradiction|].
    cbn [map fst] in Hnd. inversion Hnd as [|? ? Hnin Hnd']; subst.
    cbn [build_zone_filters]. destruct Hin as [[= -> ->]|Hin].
    - destruct (zone_strings cells) eqn:E; [congruence|]. rewrite Hf.
      apply bzf_keeps; [assumption|apply am_get_set_same].
    - destruct (zone_strings cs); [now apply (IH acc zid cells f)|].
      destruct (fbuild (zone_keys cs)); now apply (IH _ zid cells f).
  Qed.

  Lemma in_zones_maybe : forall ix l zid f k,
    probe_key l = Some k -> am_get zid ix = Some f -> fcontains f k = true ->
    In zid (zones_maybe_containing fuse fcontains ix l).
  Proof.
    intros ix l zid f k Hk Hg Hc. unfold zones_maybe_containing. rewrite Hk.
    apply zs_of_list_in, in_map_iff. exists (zid, f). split; [reflexivity|].
    apply filter_In. split; [now apply am_get_in|exact Hc].
  Qed.

  (** Zone-level filter: for every zone count and cell list, a zone whose filter was
      constructed and that holds a cell with the literal's canonical string is a
      candidate of [=]. *)
  Theorem xor_zone_sound : forall zones zid cells c l s inflight all,
    NoDup (map fst zones) -> In (zid, cells) zones -> In (Some c) cells ->
    value_to_string c = Some s -> value_to_string l = Some s ->
    fbuild (zone_keys cells) <> None ->
    In zid (select_zxf fuse fcontains (build_for_field fuse fbuild zones) inflight all OEq l).
  Proof.
    intros zones zid cells c l s inflight all Hnd Hin Hc Hs Hl Hf.
    destruct (fbuild (zone_keys cells)) as [f|] eqn:Ef; [|congruence].
    assert (Hne : zone_strings cells <> []).
    { intros E. pose proof (zone_strings_in cells c s Hc Hs) as H. now rewrite E in H. }
    pose proof (bzf_spec zones [] zid cells f Hnd Hin Hne Ef) as Hg.
    unfold select_zxf, apply_zone_index_only, build_for_field. cbn [op_answered negb].
    destruct (build_zone_filters fuse fbuild zones []) as [|e r] eqn:Eb; [discriminate|].
    rewrite select_some by reflexivity. rewrite <- Eb in *.
    eapply in_zones_maybe; [unfold probe_key; rewrite Hl; reflexivity|exact Hg|].
    eapply fuse_contract; [exact Ef|]. eapply zone_keys_in; eassumption.
  Qed.

  (** Field-level filter: if any zone holds the value, the presence filter (when it
      was constructed) admits every zone of the segment. *)
  Theorem xor_field_sound : forall zones zid cells c l s f all,
    In (zid, cells) zones -> In (Some c) cells ->
    value_to_string c = Some s -> value_to_string l = Some s ->
    build_field_filter fuse fbuild zones = Some f ->
    select_xf fuse fcontains (Some f) all OEq l = all.
  Proof.
    intros zones zid cells c l s f all Hin Hc Hs Hl Hf.
    pose proof (field_keys_in zones zid cells c s Hin Hc Hs) as Hk.
    unfold build_field_filter in Hf. destruct (field_keys zones) as [|k0 ks] eqn:E; [contradiction|].
    unfold select_xf, apply_presence_only, contains_value, probe_key. cbn [op_answered negb].
    rewrite Hl. cbn [option_map].
    rewrite (fuse_contract _ _ _ Hf Hk). reflexivity.
  Qed.

  Lemma bzf_failed : forall zid cells, fbuild (zone_keys cells) = None ->
    forall zs acc, am_get zid acc = None -> NoDup (map fst zs) -> In (zid, cells) zs ->
      am_get zid (build_zone_filters fuse fbuild zs acc) = None.
  Proof.
    intros zid cells Hf. induction zs as [|[z cs] r IH]; intros acc Ha Hd Hi; [contradiction|].
    cbn [map fst] in Hd. inversion Hd as [|? ? Hnin Hd']; subst.
    cbn [build_zone_filters]. destruct Hi as [[= -> ->]|Hi].
    - destruct (zone_strings cells); [now apply bzf_absent|]. rewrite Hf. now apply bzf_absent.
    - assert (z <> zid) by (intros ->; apply Hnin; apply in_map_iff; exists (zid, cells); tauto).
      destruct (zone_strings cs); [now apply IH|].
      destruct (fbuild (zone_keys cs)); [|now apply IH].
      apply IH; [|assumption|assumption]. rewrite am_get_set_other; [assumption|congruence].
  Qed.

  Lemma am_in_get : forall (m : list (N * fuse)) k v, In (k, v) m -> am_get k m <> None.
  Proof.
    induction m as [|[k' v'] r IH]; intros k v Hin; [contradiction|]. cbn [am_get].
    destruct (N.eqb_spec k k'); [discriminate|].
    destruct Hin as [[= -> ->]|Hin]; [congruence|]. eapply IH; eassumption.
  Qed.

  (** A zone whose filter construction failed can never be a candidate (latent: the
      failure is not deterministically reachable, see the notes). *)
  Theorem xor_failed_construction_loses_zone : forall zones zid cells l,
    NoDup (map fst zones) -> In (zid, cells) zones ->
    fbuild (zone_keys cells) = None ->
    forall fs, build_for_field fuse fbuild zones = Some fs ->
    ~ In zid (zones_maybe_containing fuse fcontains fs l).
  Proof.
    intros zones zid cells l Hnd Hin Hf fs Hb Hz.
    pose proof (bzf_failed zid cells Hf zones [] eq_refl Hnd Hin) as Hnone.
    unfold build_for_field in Hb.
    destruct (build_zone_filters fuse fbuild zones []) as [|e r] eqn:Eb; [discriminate|].
    injection Hb as <-. unfold zones_maybe_containing in Hz.
    destruct (probe_key l) as [k|]; [|contradiction].
    apply zs_of_list_in, in_map_iff in Hz. destruct Hz as [[z f] [Hz1 Hz2]]. cbn [fst] in Hz1. subst z.
    apply filter_In in Hz2. destruct Hz2 as [Hz2 _].
    exact (am_in_get _ _ _ Hz2 Hnone).
  Qed.

  (** Any operator other than [=]: the pruner answers [None]; once the segment is no
      longer in flight the selector turned that into "no zones" — repaired by f801704:
      for an operator other than [=] the selector now takes every zone of the segment
      without consulting the xor structures.  (Was [xor_non_eq_no_zones] / [xor_neq_refuted].) *)
  Lemma xor_non_eq_all_zones : forall ix inflight all op l,
    op <> OEq -> select_zxf fuse fcontains ix inflight all op l = all.
  Proof.
    intros ix inflight all op l Hop. unfold select_zxf. apply select_bypass.
    destruct op; try congruence; reflexivity.
  Qed.
  Lemma xor_presence_non_eq_all_zones : forall f all op l,
    op <> OEq -> select_xf fuse fcontains f all op l = all.
  Proof.
    intros f all op l Hop. unfold select_xf. apply select_bypass.
    destruct op; try congruence; reflexivity.
  Qed.

  (** No known class is left for the zone xor index: EVERY operator is sound.  For [=]
      through the filter contract; for any other operator because all zones of the
      segment ([all]) are scanned. *)
  Theorem xor_sound_all_operators : forall zones zid cells c l s op inflight all,
    In zid all ->
    NoDup (map fst zones) -> In (zid, cells) zones -> In (Some c) cells ->
    value_to_string c = Some s -> value_to_string l = Some s ->
    fbuild (zone_keys cells) <> None ->
    In zid (select_zxf fuse fcontains (build_for_field fuse fbuild zones) inflight all op l).
  Proof.
    intros zones zid cells c l s op inflight all Hall Hnd Hin Hc Hs Hl Hf.
    destruct (cmp_op_eqb op OEq) eqn:E.
    - destruct op; try discriminate. eapply xor_zone_sound; eassumption.
    - rewrite xor_non_eq_all_zones; [assumption|]. intros ->. discriminate.
  Qed.
End Fuse.

(** the former witness of [XorNonEqOperator] now passes, for every filter implementation *)
Example xor_neq_witness_passes :
  forall (fuse : Type) (fbuild : list N -> option fuse) (fcontains : fuse -> N -> bool),
    select_zxf fuse fcontains (build_for_field fuse fbuild [(0, [Some (SInt 2)])]) false [0] ONeq (SInt 1) = [0].
Proof. intros. apply xor_non_eq_all_zones. discriminate. Qed.

(** the hypotheses of the soundness theorems are satisfiable (with the exact filter) *)
Example xor_sound_hyps_ok :
  let zones := [(0, [Some (SInt 5); None]); (1, [Some (SUtf8 [53]); Some SNull]); (2, [None; Some SNull])] in
  (forall ks f k, exact_build ks = Some f -> In k ks -> exact_contains f k = true) /\
  NoDup (map fst zones) /\ exact_build (zone_keys [Some (SInt 5); None]) <> None /\
  select_zxf _ exact_contains (build_for_field _ exact_build zones) false [0; 1; 2] OEq (SInt 5) = [0; 1].
Proof.
  cbn zeta. split.
  - intros ks f k [= <-] Hin. unfold exact_contains. apply existsb_exists. exists k. split; [assumption|apply N.eqb_refl].
  - split; [repeat constructor; cbn; intuition discriminate|].
    split; [discriminate|]. vm_compute. reflexivity.
Qed.
