(** C09: the metrics of the model against their typed meaning on the column kinds where the
    code is right (integer columns with nulls; plain string columns), and the closed witnesses of
    the classes where it is not. *)
From Coq Require Import ZArith NArith List Bool Lia.
From Snel Require Import Base.Bytes Base.OrdF64 Gen.Params Model.Order Model.Bucket Model.Agg.
From Snel Require Import Proofs.AggProofs.
Import ListNotations.
Open Scope Z_scope.

(** * Integer columns (Int64 cells and nulls) *)
Definition int_or_null (v : value) : Prop :=
  match v with VInt z => in_i64 z | VNull => True | _ => False end.

Definition ints_of (vs : list value) : list Z :=
  flat_map (fun v => match v with VInt z => [z] | _ => [] end) vs.

Definition zmin_list (l : list Z) : option Z :=
  match l with [] => None | x :: r => Some (fold_left Z.min r x) end.
Definition zmax_list (l : list Z) : option Z :=
  match l with [] => None | x :: r => Some (fold_left Z.max r x) end.

Definition int_cell (v : value) : cell := match v with VInt z => CInt z | _ => CNull end.

Lemma int_column_typed : forall vs, Forall int_or_null vs -> col_typed vs = true.
Proof.
  intros vs F. unfold col_typed. apply forallb_forall. intros v Hv. rewrite Forall_forall in F.
  specialize (F v Hv). destruct v; cbn in F; try contradiction; reflexivity.
Qed.

Lemma int_column_cells : forall vs, Forall int_or_null vs -> to_cells vs = map int_cell vs.
Proof. intros vs F. unfold to_cells. now rewrite int_column_typed. Qed.

(** an all-integer column converts the same way however it is cut into batches *)
Lemma int_column_batching : forall a b, Forall int_or_null (a ++ b) ->
  to_cells (a ++ b) = to_cells a ++ to_cells b.
Proof.
  intros a b F. pose proof F as F'. apply Forall_app in F'. destruct F' as [Fa Fb].
  rewrite !int_column_cells by assumption. apply map_app.
Qed.

Lemma cell_ints_int_column : forall vs, cell_ints (map int_cell vs) = ints_of vs.
Proof.
  induction vs as [|v vs IH]; [reflexivity|]. cbn [map]. rewrite cell_ints_cons, IH.
  destruct v; reflexivity.
Qed.

Lemma fold_count_all : forall (l : list cell) n,
  fold_left (upd MCountAll) l (ACount (wrap_i64 n)) = ACount (wrap_i64 (n + Z.of_nat (length l))).
Proof.
  induction l as [|c l IH]; intros n; cbn [fold_left upd length].
  - now rewrite Z.add_0_r.
  - rewrite wrap_i64_add_l, IH. f_equal. f_equal. lia.
Qed.

Lemma fold_count_field : forall vs n,
  fold_left (upd MCountField) (map int_cell vs) (ACount (wrap_i64 n)) =
  ACount (wrap_i64 (n + Z.of_nat (length (ints_of vs)))).
Proof.
  induction vs as [|v vs IH]; intros n; cbn [fold_left map].
  - cbn. now rewrite Z.add_0_r.
  - destruct v; cbn [int_cell upd ints_of flat_map app]; fold (ints_of vs); try apply IH.
    rewrite wrap_i64_add_l, IH. cbn [length]. f_equal. f_equal. lia.
Qed.

Lemma fold_avg : forall vs s n,
  fold_left (upd MAvg) (map int_cell vs) (AAvg (wrap_i64 s) (wrap_i64 n)) =
  AAvg (wrap_i64 (s + zsum (ints_of vs))) (wrap_i64 (n + Z.of_nat (length (ints_of vs)))).
Proof.
  induction vs as [|v vs IH]; intros s n; cbn [fold_left map].
  - cbn. now rewrite !Z.add_0_r.
  - destruct v; cbn [int_cell upd cell_i64 ints_of flat_map app]; fold (ints_of vs); try apply IH.
    rewrite !wrap_i64_add_l, IH. cbn [zsum fold_right length]. fold (zsum (ints_of vs)).
    f_equal; f_equal; lia.
Qed.

Lemma fold_opt_min : forall l x,
  fold_left (fun a z => opt_merge min_z a (Some z)) l (Some x) = Some (fold_left Z.min l x).
Proof.
  induction l as [|z l IH]; intros x.
  - reflexivity.
  - cbn [fold_left opt_merge]. rewrite min_z_min. apply IH.
Qed.
Lemma fold_opt_max : forall l x,
  fold_left (fun a z => opt_merge max_z a (Some z)) l (Some x) = Some (fold_left Z.max l x).
Proof.
  induction l as [|z l IH]; intros x.
  - reflexivity.
  - cbn [fold_left opt_merge]. rewrite max_z_max. apply IH.
Qed.

Lemma fold_min_int : forall vs acc,
  fold_left (upd MMin) (map int_cell vs) (AMin acc None) =
  AMin (fold_left (fun a z => opt_merge min_z a (Some z)) (ints_of vs) acc) None.
Proof.
  induction vs as [|v vs IH]; intros acc; cbn [fold_left map]; [reflexivity|].
  destruct v; cbn [int_cell upd cell_i64 cell_str ints_of flat_map app]; fold (ints_of vs); apply IH.
Qed.
Lemma fold_max_int : forall vs acc,
  fold_left (upd MMax) (map int_cell vs) (AMax acc None) =
  AMax (fold_left (fun a z => opt_merge max_z a (Some z)) (ints_of vs) acc) None.
Proof.
  induction vs as [|v vs IH]; intros acc; cbn [fold_left map]; [reflexivity|].
  destruct v; cbn [int_cell upd cell_i64 cell_str ints_of flat_map app]; fold (ints_of vs); apply IH.
Qed.

Lemma zmin_list_fold : forall l, fold_left (fun a z => opt_merge min_z a (Some z)) l None = zmin_list l.
Proof. intros [|x l]; [reflexivity|]. cbn [fold_left opt_merge zmin_list]. apply fold_opt_min. Qed.
Lemma zmax_list_fold : forall l, fold_left (fun a z => opt_merge max_z a (Some z)) l None = zmax_list l.
Proof. intros [|x l]; [reflexivity|]. cbn [fold_left opt_merge zmax_list]. apply fold_opt_max. Qed.

(** on an integer column every metric except COUNT UNIQUE is the typed one: number of rows,
    number of non-null values, wrap64 of the sum, (sum, count), least and greatest value *)
Theorem int_column_metrics : forall vs, Forall int_or_null vs ->
  let cs := to_cells vs in
  let xs := ints_of vs in
  run MCountAll cs = ACount (wrap_i64 (Z.of_nat (length vs)))
  /\ run MCountField cs = ACount (wrap_i64 (Z.of_nat (length xs)))
  /\ run MTotal cs = ASum (wrap_i64 (zsum xs))
  /\ run MAvg cs = AAvg (wrap_i64 (zsum xs)) (wrap_i64 (Z.of_nat (length xs)))
  /\ run MMin cs = AMin (zmin_list xs) None
  /\ run MMax cs = AMax (zmax_list xs) None.
Proof.
  intros vs F cs xs. subst cs xs. rewrite int_column_cells by exact F. unfold run. cbn [agg_init].
  assert (W0 : wrap_i64 0 = 0) by reflexivity.
  repeat split.
  - rewrite <- W0 at 1. rewrite fold_count_all, map_length. reflexivity.
  - rewrite <- W0 at 1. rewrite fold_count_field. reflexivity.
  - pose proof (total_is_wrapped_sum (map int_cell vs)) as T. unfold run in T. cbn [agg_init] in T.
    rewrite T, cell_ints_int_column. reflexivity.
  - rewrite <- W0 at 1 2. rewrite fold_avg. reflexivity.
  - rewrite fold_min_int, zmin_list_fold. reflexivity.
  - rewrite fold_max_int, zmax_list_fold. reflexivity.
Qed.

Example int_column_metrics_nonvacuous :
  Forall int_or_null [VInt 5; VNull; VInt (-2)]
  /\ finalize (run MAvg (to_cells [VInt 5; VNull; VInt (-2)])) = FAvg 3 2
  /\ finalize (run MMin (to_cells [VInt 5; VNull; VInt (-2)])) = FInt (-2).
Proof. split; [repeat constructor; unfold in_i64, two63; lia|]. vm_compute. auto. Qed.

(** * COUNT UNIQUE counts the distinct texts of the values, whatever the batching *)

(** what a cell contributes to the set ([agg_count_unique_typed_empty] is [false] on the
    repaired tree: a typed integer counts as its decimal text) *)
Definition cell_text (c : cell) : bytes :=
  match c with CStr x => x | CInt z => dec_of_Z z | CNull => [] end.

Definition unique_set (a : agg) : list bytes := match a with AUnique s => s | _ => [] end.

Lemma count_unique_flag : agg_count_unique_typed_empty = false.
Proof. reflexivity. Qed.

Lemma fold_unique : forall l s0, sset s0 ->
  exists s, fold_left (upd MCountUnique) l (AUnique s0) = AUnique s /\ sset s
            /\ forall x, In x s <-> In x s0 \/ In x (map cell_text l).
Proof.
  induction l as [|c l IH]; intros s0 S0; cbn [fold_left].
  - exists s0. repeat split; auto. cbn. tauto.
  - cbn [upd]. rewrite count_unique_flag.
    replace (match c with CInt z => dec_of_Z z | CNull => [] | CStr x => x end) with (cell_text c)
      by (destruct c; reflexivity).
    destruct (IH (set_insert (cell_text c) s0) (set_insert_sset _ _ S0)) as (s & E & S & M).
    exists s. split; [exact E|]. split; [exact S|]. intros x. rewrite M, set_insert_in. cbn [map In].
    intuition.
Qed.

Lemma cell_text_to_cells : forall vs, map cell_text (to_cells vs) = map cell_string vs.
Proof.
  intros vs. unfold to_cells. destruct (col_typed vs) eqn:T; rewrite map_map.
  - apply map_ext_in. intros v Hv. unfold col_typed in T. rewrite forallb_forall in T.
    specialize (T v Hv). destruct v; try discriminate; reflexivity.
  - apply map_ext. reflexivity.
Qed.

(** for every way of cutting the values of a column into batches (each converted on its own,
    typed or not), COUNT UNIQUE holds exactly the set of the values' texts *)
Theorem count_unique_texts : forall (batches : list (list value)),
  exists s, run MCountUnique (concat (map to_cells batches)) = AUnique s /\ sset s
            /\ (forall x, In x s <-> In x (map cell_string (concat batches)))
            /\ finalize (run MCountUnique (concat (map to_cells batches))) = FInt (Z.of_nat (length s)).
Proof.
  intros batches. unfold run. cbn [agg_init].
  destruct (fold_unique (concat (map to_cells batches)) [] ltac:(constructor)) as (s & E & S & M).
  exists s. rewrite E. repeat split; auto.
  - intros H. apply M in H. destruct H as [[]|H].
    rewrite concat_map, map_map in H. rewrite concat_map.
    erewrite map_ext in H; [exact H|]. intros b. apply cell_text_to_cells.
  - intros H. apply M. right. rewrite concat_map, map_map. rewrite concat_map in H.
    erewrite map_ext; [exact H|]. intros b. apply cell_text_to_cells.
Qed.

Example count_unique_texts_example :
  finalize (run MCountUnique (concat (map to_cells [[VInt 5; VInt 7]; [VInt 5; VStr [120%N]]; [VNull; VInt 7]]))) = FInt 4.
Proof. vm_compute. reflexivity. Qed.

(** * Closed witnesses of the known classes (what the model, hence the code, computes) *)
Definition f_of (r : bytes) (bits : N) : value := VFloat bits r.
Definition v15 : value := VFloat 4609434218613702656%N [49; 46; 53]%N.          (* 1.5 *)
Definition v95 : value := VFloat 4621537642106257408%N [57; 46; 53]%N.          (* 9.5 *)
Definition v105 : value := VFloat 4622100592059678720%N [49; 48; 46; 53]%N.     (* 10.5 *)

Definition w9 : value := VStr [57%N].
Definition w10 : value := VStr [49%N; 48%N].
Definition w1a : value := VStr [49%N; 97%N].

Example known_class_witnesses :
  (* formerly CountUniqueTypedBatch (fixed by 6631182): COUNT UNIQUE over 5,7,5 in one all-integer batch *)
  finalize (run MCountUnique (to_cells [VInt 5; VInt 7; VInt 5])) = FInt 2
  (* ... and next to a string the same values are counted by the same texts *)
  /\ finalize (run MCountUnique (to_cells [VInt 5; VInt 7; VInt 5; VStr [120%N]])) = FInt 3
  (* CountFieldNullInStringBatch: COUNT f over 'a', null *)
  /\ finalize (run MCountField (to_cells [VStr [97%N]; VNull])) = FInt 2
  (* NonIntegerMetricField: TOTAL / MIN / MAX over 1.5, 9.5, 10.5 *)
  /\ finalize (run MTotal (to_cells [v15; v95; v105])) = FInt 0
  /\ finalize (wire (run MMax (to_cells [v15; v95; v105]))) = FStr [57; 46; 53]%N
  (* MinMaxNumericLookingStrings: MIN / MAX over "9", "10", "1a" *)
  /\ finalize (wire (run MMin (to_cells [w9; w10; w1a]))) = FInt 9
  /\ finalize (wire (run MMax (to_cells [w9; w10; w1a]))) = FInt 10
  (* MinNullAsEmptyString: MIN over "abc", null *)
  /\ finalize (wire (run MMin (to_cells [VStr abc; VNull]))) = FStr [].
Proof.
  repeat split; vm_compute; reflexivity.
Qed.
