(** The model of [parse_command] is total for the right reason: the fuel never runs out
    ([POOF] unreachable), and the repaired grammar ([fx = true]) never panics. *)
From Coq Require Import NArith ZArith List Bool Lia.
From Coq Require Import ZifyBool ZifyNat ZifyN.
From Snel Require Import Base.Bytes Model.Tokenizer Model.Parser Model.PlotQL Model.Command
  Proofs.ParserBasics Proofs.FuelProofs Proofs.PlotProofs.
Import ListNotations.
Open Scope N_scope.

(** * Part 1: no out-of-fuel in the QUERY grammar *)

Section Fuel.
Variable fx : bool.

Hint Resolve value_consumes value_noof parse_expr_at_noof parse_expr_at_consumes : pc.

Ltac kwfirst := apply bind_consumes_l; [apply kw_consumes|auto 40 with pc].

Lemma conv_clause_shrinks : forall site mk n, shrinks (conv_clause fx site mk n).
Proof.
  intros site mk n s a r E. unfold conv_clause in E. destruct (conv_u32 fx site (fst n) (snd n)); try discriminate.
  inversion E; subst. lia.
Qed.
Lemma conv_clause_noof : forall site mk n, noof (conv_clause fx site mk n).
Proof.
  intros site mk n s. unfold conv_clause, conv_u32, numfail.
  destruct (fst n); [destruct fx; discriminate|]. destruct (_ <? _); [discriminate|destruct fx; discriminate].
Qed.
Hint Resolve conv_clause_shrinks conv_clause_noof : pc.

Lemma for_clause_c : consumes for_clause. Proof. unfold for_clause. kwfirst. Qed.
Lemma since_clause_c : consumes since_clause. Proof. unfold since_clause. kwfirst. Qed.
Lemma return_item_c : consumes return_item. Proof. unfold return_item. auto with pc. Qed.
Hint Resolve return_item_c : pc.
Lemma return_clause_c : consumes return_clause. Proof. unfold return_clause. kwfirst. Qed.
Lemma linked_clause_c : consumes linked_clause. Proof. unfold linked_clause. kwfirst. Qed.
Lemma where_clause_c : consumes (where_clause fx). Proof. unfold where_clause. kwfirst. Qed.
Lemma using_time_clause_c : consumes using_time_clause. Proof. unfold using_time_clause. kwfirst. Qed.
Lemma using_clause_c : consumes using_clause. Proof. unfold using_clause. kwfirst. Qed.
Lemma agg_field_c : forall k mk, consumes (agg_field k mk). Proof. intros. unfold agg_field. kwfirst. Qed.
Hint Resolve agg_field_c : pc.
Lemma agg_spec_c : consumes agg_spec.
Proof. unfold agg_spec. repeat apply alt_consumes; auto with pc; kwfirst. Qed.
Hint Resolve agg_spec_c : pc.
Lemma agg_clause_c : consumes agg_clause.
Proof. unfold agg_clause. apply bind_consumes_l; auto with pc. Qed.
Lemma granularity_s : shrinks granularity.
Proof. unfold granularity. auto 30 with pc. Qed.
Lemma opt_using_s : shrinks opt_using.
Proof. unfold opt_using. auto 30 with pc. Qed.
Hint Resolve granularity_s opt_using_s : pc.
Lemma time_clause_c : consumes time_clause. Proof. unfold time_clause. kwfirst. Qed.
Lemma group_clause_c : consumes group_clause.
Proof.
  unfold group_clause. apply bind_consumes_l; [apply kw_consumes|].
  intros _. apply bind_shrinks; auto with pc. intros _. apply bind_shrinks; auto with pc. intros a.
  apply bind_shrinks; auto with pc.
  intros s l r E. eapply (many_shrinks _ (sepstep fieldp comma_sep)); eauto.
  apply consumes_shrinks, sepstep_consumes; auto with pc.
Qed.
Lemma limit_clause_c : consumes (limit_clause fx). Proof. unfold limit_clause. kwfirst. Qed.
Lemma offset_clause_c : consumes (offset_clause fx). Proof. unfold offset_clause. kwfirst. Qed.
Lemma order_clause_c : consumes order_clause. Proof. unfold order_clause. kwfirst. Qed.

Lemma clause_p_c : consumes (clause_p fx).
Proof.
  unfold clause_p.
  repeat apply alt_consumes;
    auto using for_clause_c, since_clause_c, return_clause_c, linked_clause_c, where_clause_c, using_time_clause_c,
      using_clause_c, agg_clause_c, time_clause_c, group_clause_c, limit_clause_c, offset_clause_c, order_clause_c.
Qed.

Lemma agg_spec_n : noof agg_spec.
Proof. unfold agg_spec, agg_field. auto 60 with pc. Qed.
Hint Resolve agg_spec_n : pc.
Lemma granularity_n : noof granularity. Proof. unfold granularity. auto 40 with pc. Qed.
Lemma opt_using_n : noof opt_using. Proof. unfold opt_using. auto 40 with pc. Qed.
Hint Resolve granularity_n opt_using_n : pc.

Lemma group_rest_n : noof (fun s => many (S (length s)) (fun s1 => match comma_sep s1 with Some s2 => fieldp s2 | None => Err end) s).
Proof.
  apply (many_self_noof _ (sepstep fieldp comma_sep)).
  - apply sepstep_consumes; auto with pc.
  - apply sepstep_noof; auto with pc.
Qed.
Hint Resolve group_rest_n : pc.

Lemma clause_p_n : noof (clause_p fx).
Proof.
  unfold clause_p, for_clause, since_clause, return_clause, return_item, linked_clause, where_clause, using_time_clause,
    using_clause, agg_clause, time_clause, group_clause, limit_clause, offset_clause, order_clause.
  repeat apply alt_noof; auto 60 with pc.
Qed.

Lemma seq_link_s : shrinks seq_link. Proof. unfold seq_link. auto 40 with pc. Qed.
Lemma seq_link_n : noof seq_link. Proof. unfold seq_link. auto 40 with pc. Qed.
Hint Resolve seq_link_s seq_link_n : pc.

Lemma seq_step_c : consumes (let* _ := skip in let* l := seq_link in let* _ := skip in let* t := identp in ret (l, t)).
Proof.
  apply bind_consumes_r; auto with pc. intros _. apply bind_consumes_r; auto with pc. intros l.
  apply bind_consumes_r; auto with pc. intros _. apply bind_consumes_l; auto with pc.
Qed.
Lemma seq_step_n : noof (let* _ := skip in let* l := seq_link in let* _ := skip in let* t := identp in ret (l, t)).
Proof. auto 40 with pc. Qed.

Lemma event_sequence_n : noof event_sequence.
Proof.
  unfold event_sequence. apply bind_noof; auto with pc. intros hd. apply bind_noof; auto with pc.
  apply many_self_noof; [apply seq_step_c|apply seq_step_n].
Qed.

Lemma clause_step_c : consumes (let* _ := skip in clause_p fx).
Proof. apply bind_consumes_r; auto with pc. intros _. apply clause_p_c. Qed.
Lemma clause_step_n : noof (let* _ := skip in clause_p fx).
Proof. apply bind_noof; auto with pc. intros _. apply clause_p_n. Qed.

Lemma query_rule_n : noof (query_rule fx).
Proof.
  unfold query_rule.
  apply bind_noof; auto with pc. intros _. apply bind_noof; auto with pc. intros _.
  apply bind_noof; auto with pc. intros _. apply bind_noof; [apply event_sequence_n|]. intros hd.
  apply bind_noof; auto with pc. intros _. apply bind_noof.
  - apply many_self_noof; [apply clause_step_c|apply clause_step_n].
  - intros cl. auto 20 with pc.
Qed.

Lemma parse_query_noof : forall s, parse_query fx s <> OOF.
Proof.
  intro s. unfold parse_query. pose proof (query_rule_n s). destruct (query_rule fx s) as [[q r]| | |]; try discriminate. congruence.
Qed.

End Fuel.

(** REPLAY / STORE *)

Lemma rident_c : consumes (lift rident).
Proof. apply lift_consumes. exact (ident_with_len is_replay_ident_char). Qed.
#[global] Hint Resolve rident_c : pc.

Lemma rclause_c : consumes rclause_p.
Proof.
  unfold rclause_p. repeat apply alt_consumes; (apply bind_consumes_l; [apply kw_consumes|auto 40 with pc]).
Qed.
Lemma rclause_n : noof rclause_p.
Proof. unfold rclause_p. repeat apply alt_noof; auto 60 with pc. Qed.

Lemma replay_rule_n : noof replay_rule.
Proof.
  unfold replay_rule, event_type_opt.
  apply bind_noof; auto with pc. intros _. apply bind_noof; auto with pc. intros _.
  apply bind_noof; auto with pc. intros _. apply bind_noof; [auto 40 with pc|]. intros et.
  apply bind_noof; auto with pc. intros _. apply bind_noof; auto with pc. intros _.
  apply bind_noof; [auto 40 with pc|]. intros ctx. apply bind_noof.
  - apply many_self_noof.
    + apply bind_consumes_r; auto with pc. intros _. apply rclause_c.
    + apply bind_noof; auto with pc. intros _. apply rclause_n.
  - intros cl. apply bind_noof; auto with pc. intros _. apply bind_noof; auto with pc. intros _.
    destruct (fold_left apply_rclause cl (None, None, None)) as [[a b0] c]. auto with pc.
Qed.

Lemma store_rule_n : noof store_rule.
Proof. unfold store_rule. auto 80 with pc. Qed.

(** * [parse_command] never runs out of fuel *)

Ltac break_match :=
  repeat match goal with
         | |- context [match ?x with _ => _ end] => destruct x
         | |- context [if ?x then _ else _] => destruct x
         end.

Lemma of_res_noof : forall A (f : A -> command) r, r <> OOF -> of_res f r <> POOF.
Proof. intros A f [a| | |] H; cbn; try discriminate. congruence. Qed.

Lemma parse_remember_noof : forall fx s, parse_remember fx s <> POOF.
Proof.
  intros fx s. unfold parse_remember.
  break_match; try discriminate; apply of_res_noof, parse_query_noof.
Qed.

Lemma parse_grant_like_noof : forall g ts, parse_grant_like g ts <> POOF.
Proof. intros g ts. unfold parse_grant_like. break_match; discriminate. Qed.
Lemma parse_create_user_noof : forall ts, parse_create_user ts <> POOF.
Proof. intros ts. unfold parse_create_user. break_match; discriminate. Qed.
Lemma parse_show_noof : forall ts, parse_show ts <> POOF.
Proof. intros ts. unfold parse_show. break_match; discriminate. Qed.
Lemma parse_show_permissions_noof : forall ts, parse_show_permissions ts <> POOF.
Proof. intros ts. unfold parse_show_permissions. break_match; discriminate. Qed.
Lemma parse_revoke_key_noof : forall ts, parse_revoke_key ts <> POOF.
Proof. intros ts. unfold parse_revoke_key. break_match; discriminate. Qed.
Lemma parse_list_users_noof : forall ts, parse_list_users ts <> POOF.
Proof. intros ts. unfold parse_list_users. break_match; discriminate. Qed.
Lemma parse_nullary_noof : forall c ts, parse_nullary c ts <> POOF.
Proof. intros c ts. unfold parse_nullary. break_match; discriminate. Qed.

Lemma parse_store_noof : forall s, parse_store s <> POOF.
Proof. intro s. unfold parse_store. pose proof (store_rule_n s). destruct (store_rule s) as [[c r]| | |]; try discriminate. congruence. Qed.
Lemma parse_replay_noof : forall s, parse_replay s <> POOF.
Proof. intro s. unfold parse_replay. pose proof (replay_rule_n s). destruct (replay_rule s) as [[c r]| | |]; try discriminate. congruence. Qed.

Lemma parse_plot_cmd_noof : forall s, parse_plot_cmd s <> POOF.
Proof.
  intro s. unfold parse_plot_cmd. pose proof (parse_plot_noof s). destruct (parse_plot s) as [[q|qs]| | |]; try discriminate. congruence.
Qed.

Lemma parse_define_noof : forall ts, parse_define ts <> POOF.
Proof. intros ts. unfold parse_define. break_match; discriminate. Qed.

Lemma parse_command_with_noof : forall batch fx s, (forall ts, batch ts <> POOF) -> parse_command_with batch fx s <> POOF.
Proof.
  intros batch fx s Hb. unfold parse_command_with.
  destruct (negb (tokens_in_domain _)); [discriminate|].
  destruct (negb (tokens_valid _)); [discriminate|].
  destruct (tokenize (utrim s)) as [|[w| | | | | | | | | | | |] rest]; try discriminate.
  repeat match goal with |- (if ?c then _ else _) <> _ => destruct c end;
    try discriminate;
    auto using parse_store_noof, parse_remember_noof, parse_replay_noof, parse_nullary_noof, parse_create_user_noof,
      parse_list_users_noof, parse_grant_like_noof, of_res_noof, parse_query_noof, parse_plot_cmd_noof, parse_define_noof.
  - destruct rest as [|t r]; [apply parse_grant_like_noof|]. destruct (word_is K_KEY t); [apply parse_revoke_key_noof|apply parse_grant_like_noof].
  - destruct rest as [|t r]; [apply parse_show_noof|]. destruct (word_is K_PERMISSIONS t); [apply parse_show_permissions_noof|apply parse_show_noof].
Qed.

Lemma parse_command_core_noof : forall fx s, parse_command_core fx s <> POOF.
Proof. intros. apply parse_command_with_noof. discriminate. Qed.

Lemma batch_parts_noof : forall fx parts acc u, (forall r, u = Some r -> r <> POOF) -> batch_parts fx parts acc u <> POOF.
Proof.
  intros fx. induction parts as [|p r IH]; intros acc u Hu; cbn [batch_parts].
  - destruct u as [x|]; [apply Hu; auto|]. destruct acc; discriminate.
  - destruct (utrim p); [apply IH; auto|].
    pose proof (parse_command_core_noof fx p) as Hc.
    destruct (parse_command_core fx p) as [c| |k| | |um]; try discriminate; try congruence.
    + apply IH; auto.
    + apply IH. intros x E. destruct u as [y|]; inversion E; subst; [apply Hu; auto|discriminate].
    + apply IH. intros x E. destruct u as [y|]; inversion E; subst; [apply Hu; auto|discriminate].
Qed.

Lemma parse_batch_noof : forall fx ts, parse_batch fx ts <> POOF.
Proof.
  intros fx ts. unfold parse_batch. destruct ts as [|t0 [|[] r]]; try discriminate.
  destruct (batch_buffer r 0 [] false) as [[buf|]|]; try discriminate.
  apply batch_parts_noof. discriminate.
Qed.

Theorem parse_command_fuel_enough : forall fx s, parse_command fx s <> POOF.
Proof. intros. apply parse_command_with_noof. apply parse_batch_noof. Qed.
