(** Panics of the model come only from the numeric conversions: the repaired grammar
    ([fx = true]) never panics, and it agrees with the grammar as it is on every input on
    which that one does not panic. *)
From Coq Require Import NArith ZArith List Bool Lia.
From Snel Require Import Base.Bytes Gen.Params Model.Tokenizer Model.Parser Model.PlotQL Model.Command
  Proofs.ParserBasics Proofs.FuelProofs.
Import ListNotations.
Open Scope N_scope.

(** * Part A: combinators preserve "never panics" *)

Definition nopanic {A} (p : P A) : Prop := forall s k, p s <> Panic k.

Lemma ret_np : forall A (a : A), nopanic (ret a).
Proof. intros A a s k. unfold ret. discriminate. Qed.
Lemma bind_np : forall A B (p : P A) (f : A -> P B), nopanic p -> (forall a, nopanic (f a)) -> nopanic (bind p f).
Proof.
  intros A B p f Hp Hf s k. unfold bind. destruct (p s) as [[a r1]| |k'|] eqn:E1; try discriminate.
  - apply Hf.
  - exfalso. eapply Hp; eauto.
Qed.
Lemma alt_np : forall A (p q : P A), nopanic p -> nopanic q -> nopanic (alt p q).
Proof.
  intros A p q Hp Hq s k. unfold alt. destruct (p s) as [[a r1]| |k'|] eqn:E1; try discriminate.
  - apply Hq.
  - exfalso. eapply Hp; eauto.
Qed.
Lemma opt_np : forall A (p : P A), nopanic p -> nopanic (opt p).
Proof. intros A p Hp s k. unfold opt. destruct (p s) as [[a r1]| |k'|] eqn:E1; try discriminate. exfalso. eapply Hp; eauto. Qed.
Lemma lift_np : forall A (t : bytes -> option (A * bytes)), nopanic (lift t).
Proof. intros A t s k. unfold lift. destruct (t s); discriminate. Qed.
Lemma kw_np : forall w, nopanic (kw w).
Proof. intros w s k. unfold kw. destruct (ci w s); discriminate. Qed.
Lemma sym_np : forall c, nopanic (sym c).
Proof. intros c s k. unfold sym. destruct (lit c s); discriminate. Qed.
Lemma skip_np : nopanic skip.
Proof. intros s k. unfold skip. discriminate. Qed.
Lemma notp_np : forall A (t : bytes -> option A), nopanic (notp t).
Proof. intros A t s k. unfold notp. destruct (t s); discriminate. Qed.
Lemma eof_np : nopanic eof.
Proof. intros s k. unfold eof. destruct s; discriminate. Qed.
Lemma many_np : forall A (p : P A), nopanic p -> forall f, nopanic (many f p).
Proof.
  intros A p Hp. induction f as [|f IH]; intros s k; cbn; try discriminate.
  destruct (p s) as [[a r1]| |k'|] eqn:E1; try discriminate.
  - specialize (IH r1 k). destruct (many f p r1) as [[l r']| |k''|]; try discriminate. congruence.
  - exfalso. eapply Hp; eauto.
Qed.
Lemma many_self_np : forall A (p : P A), nopanic p -> nopanic (fun s => many (S (length s)) p s).
Proof. intros A p Hp s k. apply many_np; auto. Qed.
Lemma sepstep_np : forall A (p : P A) sep, nopanic p -> nopanic (sepstep p sep).
Proof. intros A p sep Hp s k. unfold sepstep. destruct (sep s); [apply Hp|discriminate]. Qed.
Lemma sep_list_np : forall A (p : P A) sep, nopanic p -> nopanic (sep_list p sep).
Proof.
  intros A p sep Hp s k. unfold sep_list. destruct (p s) as [[a r1]| |k'|] eqn:E1; try discriminate.
  - fold (sepstep p sep). pose proof (many_np _ _ (sepstep_np _ p sep Hp) (S (length r1)) r1 k) as H.
    destruct (many _ _ r1) as [[l r']| |k''|]; try discriminate. congruence.
  - exfalso. eapply Hp; eauto.
Qed.
Lemma sep_list1_np : forall A (p : P A) sep, nopanic p -> nopanic (sep_list1 p sep).
Proof.
  intros A p sep Hp s k. unfold sep_list1. pose proof (sep_list_np _ p sep Hp s k) as H.
  destruct (sep_list p sep s) as [[[|a l] r']| |k'|]; try discriminate. congruence.
Qed.

Lemma fieldp_np : nopanic fieldp. Proof. apply lift_np. Qed.
Lemma identp_np : nopanic identp. Proof. apply lift_np. Qed.
Lemma strp_np : nopanic strp. Proof. apply lift_np. Qed.
Lemma intp_np : nopanic intp. Proof. apply lift_np. Qed.

#[global] Hint Resolve ret_np bind_np alt_np opt_np lift_np kw_np sym_np skip_np notp_np eof_np many_self_np
  sep_list_np sep_list1_np fieldp_np identp_np strp_np intp_np : np.

(** ** the repaired grammar *)

Lemma number_np : nopanic (number true).
Proof.
  intros s k. unfold number. destruct (number_text s) as [[[[neg d] [fd|]] r0]|]; try discriminate.
  - destruct (float_overflows d fd); discriminate.
  - unfold conv_i64, numfail. destruct (_ && _)%bool; discriminate.
Qed.
Lemma value_np : nopanic (value true).
Proof.
  unfold value. apply alt_np; [|apply alt_np; [apply number_np|]].
  - intros s k. destruct (string_lit s) as [[x y]|]; discriminate.
  - intros s k. destruct (ident s) as [[x y]|]; discriminate.
Qed.
#[global] Hint Resolve value_np : np.
Lemma leaf_np : nopanic (leaf true).
Proof. unfold leaf, comparison, in_expr, atom. auto 60 with np. Qed.

Lemma expr_np : forall f, nopanic (or_expr true f) /\ nopanic (and_expr true f) /\ nopanic (factor true f).
Proof.
  induction f as [|f (IHo & IHa & IHf)].
  - repeat split; intros s k; discriminate.
  - assert (Hfac : nopanic (factor true (S f))).
    { intros s k. rewrite factor_S.
      assert (Hpl : paren_or_leaf true f s <> Panic k).
      { unfold paren_or_leaf. destruct (lit 40 s) as [r1|]; [|apply leaf_np].
        specialize (IHo (ws r1) k). destruct (or_expr true f (ws r1)) as [[e r2]| |k'|]; try discriminate; try apply leaf_np; try congruence.
        destruct (lit 41 (ws r2)); [discriminate|apply leaf_np]. }
      destruct (ci K_NOT s) as [r1|]; auto.
      specialize (IHf (ws r1) k). destruct (factor true f (ws r1)) as [[x r2]| |k'|]; try discriminate; auto. }
    assert (Hand : nopanic (and_expr true (S f))).
    { intros s k. rewrite and_expr_S. specialize (IHf s k).
      destruct (factor true f s) as [[x r0]| |k'|]; try discriminate; try congruence.
      destruct (ci K_AND (ws r0)) as [r1|]; [|discriminate].
      specialize (IHa (ws r1) k). destruct (and_expr true f (ws r1)) as [[y r2]| |k''|]; try discriminate; congruence. }
    repeat split; auto.
    intros s k. rewrite or_expr_S. specialize (IHa s k).
    destruct (and_expr true f s) as [[x r0]| |k'|]; try discriminate; try congruence.
    destruct (ci K_OR (ws r0)) as [r1|]; [|discriminate].
    specialize (IHo (ws r1) k). destruct (or_expr true f (ws r1)) as [[y r2]| |k''|]; try discriminate; congruence.
Qed.

Section ExprNpG.
Variable lf : P expr.
Hypothesis Hlnp : nopanic lf.

Lemma expr_np_g : forall f, nopanic (or_expr_g lf f) /\ nopanic (and_expr_g lf f) /\ nopanic (factor_g lf f).
Proof.
  induction f as [|f (IHo & IHa & IHf)].
  - repeat split; intros s k; discriminate.
  - assert (Hfac : nopanic (factor_g lf (S f))).
    { intros s k. rewrite factor_g_S.
      assert (Hpl : paren_or_leaf_g lf f s <> Panic k).
      { unfold paren_or_leaf_g. destruct (lit 40 s) as [r1|]; [|apply Hlnp].
        specialize (IHo (ws r1) k). destruct (or_expr_g lf f (ws r1)) as [[e r2]| |k'|]; try discriminate; try apply Hlnp; try congruence.
        destruct (lit 41 (ws r2)); [discriminate|apply Hlnp]. }
      destruct (ci K_NOT s) as [r1|]; auto.
      specialize (IHf (ws r1) k). destruct (factor_g lf f (ws r1)) as [[x r2]| |k'|]; try discriminate; auto. }
    assert (Hand : nopanic (and_expr_g lf (S f))).
    { intros s k. rewrite and_expr_g_S. specialize (IHf s k).
      destruct (factor_g lf f s) as [[x r0]| |k'|]; try discriminate; try congruence.
      destruct (ci K_AND (ws r0)) as [r1|]; [|discriminate].
      specialize (IHa (ws r1) k). destruct (and_expr_g lf f (ws r1)) as [[y r2]| |k''|]; try discriminate; congruence. }
    repeat split; auto.
    intros s k. rewrite or_expr_g_S. specialize (IHa s k).
    destruct (and_expr_g lf f s) as [[x r0]| |k'|]; try discriminate; try congruence.
    destruct (ci K_OR (ws r0)) as [r1|]; [|discriminate].
    specialize (IHo (ws r1) k). destruct (or_expr_g lf f (ws r1)) as [[y r2]| |k''|]; try discriminate; congruence.
Qed.

End ExprNpG.

(** ** the PLOT grammar never panics (its number rule has always been fallible) *)
Lemma p_value_np : nopanic p_value.
Proof.
  unfold p_value. apply alt_np; [|apply alt_np; [apply number_np|]].
  - intros s k. destruct (string_lit s) as [[x y]|]; discriminate.
  - intros s k. destruct (p_ident s) as [[x y]|]; discriminate.
Qed.
#[global] Hint Resolve p_value_np : np.
Lemma sep_many_np : forall A (p : P A), nopanic p ->
  nopanic (fun s => many (S (length s)) (fun s1 => match comma_sep s1 with Some s2 => p s2 | None => Err end) s).
Proof. intros A p Hp. apply (many_self_np _ (sepstep p comma_sep)), sepstep_np; auto. Qed.
Lemma p_leaf_np : nopanic p_leaf.
Proof.
  unfold p_leaf, p_comparison, p_in_expr, p_value_list, p_exists_expr, p_exists_args, p_fieldp, p_identp.
  repeat apply alt_np; auto 60 using sep_many_np with np.
Qed.
Lemma p_expression_np : nopanic p_expression.
Proof. intros s k. unfold p_expression. apply (proj1 (expr_np_g p_leaf p_leaf_np _)). Qed.
#[global] Hint Resolve p_expression_np : np.
Lemma p_integer_np : nopanic p_integer.
Proof.
  intros s k. unfold p_integer. destruct (integer s) as [[[neg d] r0]|]; [|discriminate].
  destruct neg; [destruct (_ =? 0)|destruct (_ <=? _)]; discriminate.
Qed.
Lemma seq_sep_np : nopanic seq_sep.
Proof.
  unfold seq_sep. apply alt_np; [|apply kw_np].
  intros s k. destruct s as [|x [|y r']]; try discriminate. destruct ((x =? 45) && (y =? 62)); discriminate.
Qed.
#[global] Hint Resolve p_integer_np seq_sep_np : np.
Lemma paren_field_np : nopanic paren_field. Proof. unfold paren_field, p_fieldp. auto 40 with np. Qed.
#[global] Hint Resolve paren_field_np : np.
Lemma metric_expr_np : nopanic metric_expr.
Proof. unfold metric_expr, agg_func. repeat apply alt_np; auto 40 with np. Qed.
#[global] Hint Resolve metric_expr_np : np.
Lemma clause_before_np : nopanic clause_before_vs.
Proof. unfold clause_before_vs, filter_clause, top_clause, top_by_target, p_fieldp. repeat apply alt_np; auto 60 with np. Qed.
Lemma clause_after_np : nopanic clause_after_vs.
Proof.
  unfold clause_after_vs, breakdown_clause, ptime_clause, top_clause, top_by_target, p_field_list, p_fieldp, granularity.
  repeat apply alt_np; auto 60 using sep_many_np with np.
Qed.
Lemma metric_of_events_np : nopanic metric_of_events.
Proof.
  unfold metric_of_events, p_events, clauses_of, p_identp.
  apply bind_np; auto with np. intros m. apply bind_np; auto with np. intros _. apply bind_np; auto with np. intros _.
  apply bind_np; auto with np. intros _. apply bind_np.
  - apply bind_np; auto with np. intros h. apply bind_np; auto 40 with np.
  - intros ev. apply bind_np; auto with np. apply many_self_np. apply bind_np; auto with np. intros _. apply clause_before_np.
Qed.
Lemma plot_rule_np : nopanic plot_rule.
Proof.
  unfold plot_rule, clauses_of.
  apply bind_np; auto with np. intros _. apply bind_np; auto with np. intros _. apply bind_np; auto with np. intros _.
  apply bind_np; [apply metric_of_events_np|]. intros main. apply bind_np.
  - apply many_self_np. apply bind_np; auto with np. intros _. apply bind_np; auto with np. intros _.
    apply bind_np; auto with np. intros _. apply metric_of_events_np.
  - intros sides. apply bind_np.
    + apply many_self_np. apply bind_np; auto with np. intros _. apply clause_after_np.
    + intros after. auto 20 with np.
Qed.
Lemma parse_plot_cmd_np : forall s k, parse_plot_cmd s <> PPanic k.
Proof.
  intros s k. unfold parse_plot_cmd, parse_plot. pose proof (plot_rule_np s k) as H.
  destruct (plot_rule s) as [[[[m sd] af] r]| |k'|]; try discriminate.
  - destruct (forallb _ sd); [|discriminate]. destruct sd; discriminate.
  - congruence.
Qed.

Lemma parse_expr_at_np : nopanic (parse_expr_at true).
Proof. intros s k. unfold parse_expr_at. apply (proj1 (expr_np _)). Qed.

Lemma conv_clause_np : forall site mk n, nopanic (conv_clause true site mk n).
Proof.
  intros site mk n s k. unfold conv_clause, conv_u32, numfail.
  destruct (fst n); [discriminate|]. destruct (_ <? _); discriminate.
Qed.
#[global] Hint Resolve parse_expr_at_np conv_clause_np : np.

Lemma group_rest_np : nopanic (fun s => many (S (length s)) (fun s1 => match comma_sep s1 with Some s2 => fieldp s2 | None => Err end) s).
Proof. apply (many_self_np _ (sepstep fieldp comma_sep)), sepstep_np; auto with np. Qed.
#[global] Hint Resolve group_rest_np : np.

Lemma agg_field_np : forall k mk, nopanic (agg_field k mk).
Proof. intros. unfold agg_field. auto 40 with np. Qed.
#[global] Hint Resolve agg_field_np : np.
Lemma agg_spec_np : nopanic agg_spec.
Proof. unfold agg_spec. repeat apply alt_np; auto 40 with np. Qed.
#[global] Hint Resolve agg_spec_np : np.
Lemma granularity_np : nopanic granularity. Proof. unfold granularity. repeat apply alt_np; auto 20 with np. Qed.
Lemma opt_using_np : nopanic opt_using. Proof. unfold opt_using. auto 40 with np. Qed.
#[global] Hint Resolve granularity_np opt_using_np : np.

Lemma clause_p_np : nopanic (clause_p true).
Proof.
  unfold clause_p. repeat apply alt_np.
  - unfold for_clause. auto 40 with np.
  - unfold since_clause. auto 40 with np.
  - unfold return_clause, return_item. auto 60 with np.
  - unfold linked_clause. auto 40 with np.
  - unfold where_clause. auto 40 with np.
  - unfold using_time_clause. auto 40 with np.
  - unfold using_clause. auto 40 with np.
  - unfold agg_clause. auto 40 with np.
  - unfold time_clause. auto 40 with np.
  - unfold group_clause. auto 40 with np.
  - unfold limit_clause. auto 40 with np.
  - unfold offset_clause. auto 40 with np.
  - unfold order_clause. auto 60 with np.
Qed.

Lemma query_rule_np : nopanic (query_rule true).
Proof.
  unfold query_rule, event_sequence, seq_link.
  apply bind_np; auto with np. intros _. apply bind_np; auto with np. intros _.
  apply bind_np; auto with np. intros _. apply bind_np.
  - apply bind_np; auto with np. intros hd. apply bind_np; auto with np. apply many_self_np. auto 60 with np.
  - intros hd. apply bind_np; auto with np. intros _. apply bind_np.
    + apply many_self_np. apply bind_np; auto with np. intros _. apply clause_p_np.
    + intros cl. auto 20 with np.
Qed.

Lemma parse_query_np : forall s k, parse_query true s <> Panic k.
Proof.
  intros s k. unfold parse_query. pose proof (query_rule_np s k). destruct (query_rule true s) as [[q r]| |k'|]; try discriminate. congruence.
Qed.

Lemma replay_rule_np : nopanic replay_rule.
Proof.
  unfold replay_rule, event_type_opt, rclause_p.
  apply bind_np; auto with np. intros _. apply bind_np; auto with np. intros _.
  apply bind_np; auto with np. intros _. apply bind_np; [auto 40 with np|]. intros et.
  apply bind_np; auto with np. intros _. apply bind_np; auto with np. intros _.
  apply bind_np; [auto 40 with np|]. intros ctx. apply bind_np.
  - apply many_self_np. auto 80 with np.
  - intros cl. apply bind_np; auto with np. intros _. apply bind_np; auto with np. intros _.
    destruct (fold_left apply_rclause cl (None, None, None)) as [[a b0] c]. auto with np.
Qed.
Lemma store_rule_np : nopanic store_rule.
Proof. unfold store_rule. auto 80 with np. Qed.

Ltac break_match :=
  repeat match goal with
         | |- context [match ?x with _ => _ end] => destruct x
         | |- context [if ?x then _ else _] => destruct x
         end.

Lemma of_res_np : forall A (f : A -> command) r k, r <> Panic k -> of_res f r <> PPanic k.
Proof. intros A f [a| |k'|] k H; cbn; try discriminate. congruence. Qed.

(** the token parsers, REPLAY and STORE never panic, whatever the mode *)
Lemma parse_store_np : forall s k, parse_store s <> PPanic k.
Proof. intros s k. unfold parse_store. pose proof (store_rule_np s k). destruct (store_rule s) as [[c r]| |k'|]; try discriminate. congruence. Qed.
Lemma parse_replay_np : forall s k, parse_replay s <> PPanic k.
Proof. intros s k. unfold parse_replay. pose proof (replay_rule_np s k). destruct (replay_rule s) as [[c r]| |k'|]; try discriminate. congruence. Qed.
Lemma parse_grant_like_np : forall g ts k, parse_grant_like g ts <> PPanic k.
Proof. intros g ts k. unfold parse_grant_like. break_match; discriminate. Qed.
Lemma parse_create_user_np : forall ts k, parse_create_user ts <> PPanic k.
Proof. intros ts k. unfold parse_create_user. break_match; discriminate. Qed.
Lemma parse_show_np : forall ts k, parse_show ts <> PPanic k.
Proof. intros ts k. unfold parse_show. break_match; discriminate. Qed.
Lemma parse_show_permissions_np : forall ts k, parse_show_permissions ts <> PPanic k.
Proof. intros ts k. unfold parse_show_permissions. break_match; discriminate. Qed.
Lemma parse_revoke_key_np : forall ts k, parse_revoke_key ts <> PPanic k.
Proof. intros ts k. unfold parse_revoke_key. break_match; discriminate. Qed.
Lemma parse_list_users_np : forall ts k, parse_list_users ts <> PPanic k.
Proof. intros ts k. unfold parse_list_users. break_match; discriminate. Qed.
Lemma parse_nullary_np : forall c ts k, parse_nullary c ts <> PPanic k.
Proof. intros c ts k. unfold parse_nullary. break_match; discriminate. Qed.

Lemma parse_remember_np : forall s k, parse_remember true s <> PPanic k.
Proof.
  intros s k. unfold parse_remember.
  break_match; try discriminate; apply of_res_np, parse_query_np.
Qed.

Lemma parse_define_np : forall ts k, parse_define ts <> PPanic k.
Proof. intros ts k. unfold parse_define. break_match; discriminate. Qed.

(** Panics arise only under the QUERY / FIND / REMEMBER heads (directly or as a part of a BATCH) *)
Lemma panic_only_in_query_with : forall batch fx s k,
  (forall ts, batch ts = PPanic k -> exists q, parse_query fx q = Panic k) ->
  parse_command_with batch fx s = PPanic k -> exists q, parse_query fx q = Panic k.
Proof.
  intros batch fx s k Hb. unfold parse_command_with.
  destruct (negb (tokens_in_domain _)); [discriminate|].
  destruct (negb (tokens_valid _)); [discriminate|].
  destruct (tokenize (utrim s)) as [|[w| | | | | | | | | | | |] rest]; try discriminate.
  repeat match goal with |- (if ?c then _ else _) = _ -> _ => destruct c end; try discriminate; intro H.
  - exfalso. eapply parse_define_np; eauto.
  - exfalso. eapply parse_store_np; eauto.
  - unfold parse_remember in H. revert H. break_match; try discriminate. intro H.
    match type of H with of_res _ (parse_query fx ?q0) = _ => exists q0; destruct (parse_query fx q0) as [q| |k'|] end;
      cbn in H; try discriminate. congruence.
  - exists (utrim s). destruct (parse_query fx (utrim s)) as [q| |k'|]; cbn in H; try discriminate. congruence.
  - exfalso. eapply parse_replay_np; eauto.
  - eauto.
  - exfalso. eapply parse_nullary_np; eauto.
  - exfalso. eapply parse_nullary_np; eauto.
  - exfalso. eapply parse_plot_cmd_np; eauto.
  - exfalso. eapply parse_create_user_np; eauto.
  - exfalso. destruct rest as [|t r]; [eapply parse_grant_like_np; eauto|].
    destruct (word_is K_KEY t); [eapply parse_revoke_key_np|eapply parse_grant_like_np]; eauto.
  - exfalso. eapply parse_list_users_np; eauto.
  - exfalso. eapply parse_grant_like_np; eauto.
  - exfalso. destruct rest as [|t r]; [eapply parse_show_np; eauto|].
    destruct (word_is K_PERMISSIONS t); [eapply parse_show_permissions_np|eapply parse_show_np]; eauto.
Qed.

Lemma batch_parts_panic : forall fx k parts acc u, (forall r, u = Some r -> r <> PPanic k) ->
  batch_parts fx parts acc u = PPanic k -> exists q, parse_query fx q = Panic k.
Proof.
  intros fx k. induction parts as [|p r IH]; intros acc u Hu H; cbn [batch_parts] in H.
  - destruct u as [x|]; [exfalso; eapply Hu; eauto|]. destruct acc; discriminate.
  - destruct (utrim p); [eapply IH; eauto|].
    destruct (parse_command_core fx p) as [c| |k'| | |um] eqn:E; try discriminate.
    + eapply IH; eauto.
    + inversion H; subst. unfold parse_command_core in E. eapply panic_only_in_query_with; [|exact E]. discriminate.
    + eapply IH; [|exact H]. intros x Ex. destruct u as [y|]; inversion Ex; subst; [apply Hu; auto|discriminate].
    + eapply IH; [|exact H]. intros x Ex. destruct u as [y|]; inversion Ex; subst; [apply Hu; auto|discriminate].
Qed.

Lemma panic_only_in_query : forall fx s k, parse_command fx s = PPanic k -> exists q, parse_query fx q = Panic k.
Proof.
  intros fx s k. unfold parse_command. apply panic_only_in_query_with.
  intros ts H. unfold parse_batch in H. destruct ts as [|t0 [|[] r]]; try discriminate.
  destruct (batch_buffer r 0 [] false) as [[buf|]|]; try discriminate.
  eapply batch_parts_panic; [|exact H]. discriminate.
Qed.

Theorem fixed_never_panics : forall s k, parse_command true s <> PPanic k.
Proof.
  intros s k H. destruct (panic_only_in_query true s k H) as (q & Hq). eapply parse_query_np; eauto.
Qed.

(** The parser in the mode the Rust text is in: the translator reads fallible actions in query.rs,
    so this is the repaired grammar.  (If the text goes back to [unwrap()] the flag flips and this
    proof no longer checks.) *)
Lemma cur_mode_fallible : query_numeric_fallible = true.
Proof. reflexivity. Qed.

Theorem parse_never_panics : forall s k, parse_command_cur s <> PPanic k.
Proof. intros s k. unfold parse_command_cur. rewrite cur_mode_fallible. apply fixed_never_panics. Qed.

(** * Part B: the repaired grammar agrees with the present one wherever that one does not panic *)

Definition sim {A} (r0 r1 : res A) : Prop := (exists k, r0 = Panic k) \/ r0 = r1.
Definition psim {A} (p0 p1 : P A) : Prop := forall s, sim (p0 s) (p1 s).

Lemma psim_refl : forall A (p : P A), psim p p.
Proof. intros A p s. right. auto. Qed.

Lemma bind_psim : forall A B (p0 p1 : P A) (f0 f1 : A -> P B),
  psim p0 p1 -> (forall a, psim (f0 a) (f1 a)) -> psim (bind p0 f0) (bind p1 f1).
Proof.
  intros A B p0 p1 f0 f1 Hp Hf s. unfold bind. destruct (Hp s) as [[k E]|E].
  - rewrite E. left. eauto.
  - rewrite <- E. destruct (p0 s) as [[a r]| |k|]; try (right; reflexivity). apply Hf.
Qed.

Lemma alt_psim : forall A (p0 p1 q0 q1 : P A), psim p0 p1 -> psim q0 q1 -> psim (alt p0 q0) (alt p1 q1).
Proof.
  intros A p0 p1 q0 q1 Hp Hq s. unfold alt. destruct (Hp s) as [[k E]|E].
  - rewrite E. left. eauto.
  - rewrite <- E. destruct (p0 s) as [[a r]| |k|]; try (right; reflexivity). apply Hq.
Qed.

Lemma opt_psim : forall A (p0 p1 : P A), psim p0 p1 -> psim (opt p0) (opt p1).
Proof.
  intros A p0 p1 Hp s. unfold opt. destruct (Hp s) as [[k E]|E].
  - rewrite E. left. eauto.
  - rewrite <- E. right. reflexivity.
Qed.

Lemma many_psim : forall A (p0 p1 : P A), psim p0 p1 -> forall f, psim (many f p0) (many f p1).
Proof.
  intros A p0 p1 Hp. induction f as [|f IH]; intro s; cbn; [right; reflexivity|].
  destruct (Hp s) as [[k E]|E].
  - rewrite E. left. eauto.
  - rewrite <- E. destruct (p0 s) as [[a r]| |k|]; try (right; reflexivity).
    destruct (IH r) as [[k E']|E'].
    + rewrite E'. left. eauto.
    + rewrite <- E'. right. reflexivity.
Qed.

Lemma many_self_psim : forall A (p0 p1 : P A), psim p0 p1 ->
  psim (fun s => many (S (length s)) p0 s) (fun s => many (S (length s)) p1 s).
Proof. intros A p0 p1 Hp s. apply many_psim; auto. Qed.

Lemma sepstep_psim : forall A (p0 p1 : P A) sep, psim p0 p1 -> psim (sepstep p0 sep) (sepstep p1 sep).
Proof. intros A p0 p1 sep Hp s. unfold sepstep. destruct (sep s); [apply Hp|right; reflexivity]. Qed.

Lemma sep_list_psim : forall A (p0 p1 : P A) sep, psim p0 p1 -> psim (sep_list p0 sep) (sep_list p1 sep).
Proof.
  intros A p0 p1 sep Hp s. unfold sep_list. destruct (Hp s) as [[k E]|E].
  - rewrite E. left. eauto.
  - rewrite <- E. destruct (p0 s) as [[a r]| |k|]; try (right; reflexivity).
    fold (sepstep p0 sep). fold (sepstep p1 sep).
    destruct (many_psim _ _ _ (sepstep_psim _ p0 p1 sep Hp) (S (length r)) r) as [[k E']|E'].
    + rewrite E'. left. eauto.
    + rewrite <- E'. right. reflexivity.
Qed.

Lemma sep_list1_psim : forall A (p0 p1 : P A) sep, psim p0 p1 -> psim (sep_list1 p0 sep) (sep_list1 p1 sep).
Proof.
  intros A p0 p1 sep Hp s. unfold sep_list1. destruct (sep_list_psim _ p0 p1 sep Hp s) as [[k E]|E].
  - rewrite E. left. eauto.
  - rewrite <- E. right. reflexivity.
Qed.

#[global] Hint Resolve psim_refl bind_psim alt_psim opt_psim many_self_psim sep_list_psim sep_list1_psim : ps.

Lemma number_psim : psim (number false) (number true).
Proof.
  intro s. unfold number. destruct (number_text s) as [[[[neg d] [fd|]] r0]|]; try (right; reflexivity).
  - destruct (float_overflows d fd); [left; cbn; eauto|right; reflexivity].
  - unfold conv_i64, numfail. destruct (_ && _)%bool; [right; reflexivity|left; eauto].
Qed.
Lemma value_psim : psim (value false) (value true).
Proof. unfold value. apply alt_psim; [apply psim_refl|]. apply alt_psim; [apply number_psim|apply psim_refl]. Qed.
#[global] Hint Resolve value_psim : ps.
Lemma leaf_psim : psim (leaf false) (leaf true).
Proof.
  unfold leaf. apply alt_psim; [|apply alt_psim; [|apply psim_refl]].
  - unfold comparison. apply bind_psim; [apply psim_refl|intros f]. apply bind_psim; [apply psim_refl|intros _].
    apply bind_psim; [apply psim_refl|intros o]. apply bind_psim; [apply psim_refl|intros _].
    apply bind_psim; [apply value_psim|intros v; apply psim_refl].
  - unfold in_expr. apply bind_psim; [apply psim_refl|intros f]. apply bind_psim; [apply psim_refl|intros _].
    apply bind_psim; [apply psim_refl|intros _]. apply bind_psim; [apply psim_refl|intros _].
    apply bind_psim; [apply psim_refl|intros _]. apply bind_psim; [apply psim_refl|intros _].
    apply bind_psim; [apply sep_list_psim, value_psim|intros vs; apply psim_refl].
Qed.

Lemma expr_psim : forall f,
  psim (or_expr false f) (or_expr true f) /\ psim (and_expr false f) (and_expr true f) /\ psim (factor false f) (factor true f).
Proof.
  induction f as [|f (IHo & IHa & IHf)].
  - repeat split; intro s; right; reflexivity.
  - assert (Hfac : psim (factor false (S f)) (factor true (S f))).
    { intro s. rewrite !factor_S.
      assert (Hpl : sim (paren_or_leaf false f s) (paren_or_leaf true f s)).
      { unfold paren_or_leaf. destruct (lit 40 s) as [r1|]; [|apply leaf_psim].
        destruct (IHo (ws r1)) as [[k E]|E].
        - rewrite E. left. eauto.
        - rewrite <- E. destruct (or_expr false f (ws r1)) as [[e r2]| |k|]; try (right; reflexivity); try apply leaf_psim.
          destruct (lit 41 (ws r2)); [right; reflexivity|apply leaf_psim]. }
      destruct (ci K_NOT s) as [r1|]; auto.
      destruct (IHf (ws r1)) as [[k E]|E].
      - rewrite E. left. eauto.
      - rewrite <- E. destruct (factor false f (ws r1)) as [[x r2]| |k|]; try (right; reflexivity); auto. }
    assert (Hand : psim (and_expr false (S f)) (and_expr true (S f))).
    { intro s. rewrite !and_expr_S. destruct (IHf s) as [[k E]|E].
      - rewrite E. left. eauto.
      - rewrite <- E. destruct (factor false f s) as [[x r0]| |k|]; try (right; reflexivity).
        destruct (ci K_AND (ws r0)) as [r1|]; [|right; reflexivity].
        destruct (IHa (ws r1)) as [[k E']|E'].
        + rewrite E'. left. eauto.
        + rewrite <- E'. right. reflexivity. }
    repeat split; auto.
    intro s. rewrite !or_expr_S. destruct (IHa s) as [[k E]|E].
    + rewrite E. left. eauto.
    + rewrite <- E. destruct (and_expr false f s) as [[x r0]| |k|]; try (right; reflexivity).
      destruct (ci K_OR (ws r0)) as [r1|]; [|right; reflexivity].
      destruct (IHo (ws r1)) as [[k E']|E'].
      * rewrite E'. left. eauto.
      * rewrite <- E'. right. reflexivity.
Qed.

Lemma parse_expr_at_psim : psim (parse_expr_at false) (parse_expr_at true).
Proof. intro s. unfold parse_expr_at. apply (proj1 (expr_psim _)). Qed.

Lemma conv_clause_psim : forall site mk n, psim (conv_clause false site mk n) (conv_clause true site mk n).
Proof.
  intros site mk n s. unfold conv_clause, conv_u32, numfail.
  destruct (fst n); [left; eauto|]. destruct (_ <? _); [right; reflexivity|left; eauto].
Qed.
#[global] Hint Resolve parse_expr_at_psim conv_clause_psim : ps.

Lemma clause_p_psim : psim (clause_p false) (clause_p true).
Proof.
  unfold clause_p. repeat (apply alt_psim; [try apply psim_refl|]); try apply psim_refl.
  - unfold where_clause. apply bind_psim; [apply psim_refl|intros _]. apply bind_psim; [apply psim_refl|intros _].
    apply bind_psim; [apply parse_expr_at_psim|intros e; apply psim_refl].
  - unfold limit_clause. apply bind_psim; [apply psim_refl|intros _]. apply bind_psim; [apply psim_refl|intros _].
    apply bind_psim; [apply psim_refl|intros n; apply conv_clause_psim].
  - unfold offset_clause. apply bind_psim; [apply psim_refl|intros _]. apply bind_psim; [apply psim_refl|intros _].
    apply bind_psim; [apply psim_refl|intros n; apply conv_clause_psim].
Qed.

Lemma query_rule_psim : psim (query_rule false) (query_rule true).
Proof.
  unfold query_rule.
  apply bind_psim; [apply psim_refl|intros _]. apply bind_psim; [apply psim_refl|intros _].
  apply bind_psim; [apply psim_refl|intros _]. apply bind_psim; [apply psim_refl|intros hd].
  apply bind_psim; [apply psim_refl|intros _]. apply bind_psim; [|intros cl; apply psim_refl].
  apply many_self_psim. apply bind_psim; [apply psim_refl|intros _]. apply clause_p_psim.
Qed.

Lemma parse_query_sim : forall s, sim (parse_query false s) (parse_query true s).
Proof.
  intro s. unfold parse_query. destruct (query_rule_psim s) as [[k E]|E].
  - rewrite E. left. eauto.
  - rewrite <- E. right. reflexivity.
Qed.

Lemma of_res_sim : forall A (f : A -> command) r0 r1, sim r0 r1 ->
  (exists k, of_res f r0 = PPanic k) \/ of_res f r0 = of_res f r1.
Proof. intros A f r0 r1 [[k E]|E]; subst; [left; cbn; eauto|right; auto]. Qed.

(** agreement of the two modes on one command text (every head but BATCH) and on batches *)
Lemma agrees_with : forall batch0 batch1 s,
  (forall ts, (forall k, batch0 ts <> PPanic k) -> batch1 ts = batch0 ts) ->
  (forall k, parse_command_with batch0 false s <> PPanic k) ->
  parse_command_with batch1 true s = parse_command_with batch0 false s.
Proof.
  intros batch0 batch1 s Hb Hn. revert Hn. unfold parse_command_with.
  destruct (negb (tokens_in_domain _)); [reflexivity|].
  destruct (negb (tokens_valid _)); [reflexivity|].
  destruct (tokenize (utrim s)) as [|t rest]; [reflexivity|].
  destruct t as [w| | | | | | | | | | | |]; [|intros _; reflexivity ..].
  repeat match goal with |- _ -> (if ?c then _ else _) = _ => destruct c end;
    try (intros _; match goal with |- ?a = ?b => constr_eq a b; reflexivity end); intro Hn.
  - unfold parse_remember in *. revert Hn.
    break_match; try (intros _; match goal with |- ?a = ?b => constr_eq a b; reflexivity end). intro Hn.
    match goal with |- of_res ?f (parse_query true ?q) = _ => destruct (of_res_sim _ f _ _ (parse_query_sim q)) as [[k E]|E] end.
    + exfalso. eapply Hn; eauto.
    + symmetry; exact E.
  - destruct (of_res_sim _ CQuery _ _ (parse_query_sim (utrim s))) as [[k E]|E].
    + exfalso. eapply Hn; eauto.
    + symmetry; exact E.
  - apply Hb. exact Hn.
Qed.

Lemma batch_parts_agree : forall parts acc u, (forall k, batch_parts false parts acc u <> PPanic k) ->
  batch_parts true parts acc u = batch_parts false parts acc u.
Proof.
  induction parts as [|p r IH]; intros acc u Hn; cbn [batch_parts] in *; [reflexivity|].
  destruct (utrim p); [apply IH; auto|].
  assert (E : (exists k, parse_command_core false p = PPanic k) \/ parse_command_core true p = parse_command_core false p).
  { destruct (parse_command_core false p) as [c| |k| | |um] eqn:E0;
      [right|right|left; eauto|right|right|right];
      (rewrite <- E0; unfold parse_command_core; apply agrees_with;
       [intros; reflexivity|intro k0; fold (parse_command_core false p); rewrite E0; discriminate]). }
  destruct E as [[k E]|E].
  - rewrite E in Hn. exfalso. eapply Hn; eauto.
  - rewrite E. destruct (parse_command_core false p) as [c| |k| | |um]; auto.
Qed.

Theorem fixed_agrees : forall s, (forall k, parse_command false s <> PPanic k) ->
  parse_command true s = parse_command false s.
Proof.
  intros s Hn. unfold parse_command in *. apply agrees_with; auto.
  intros ts Hb. unfold parse_batch in *. destruct ts as [|t0 [|[] r]]; try reflexivity.
  destruct (batch_buffer r 0 [] false) as [[buf|]|]; try reflexivity.
  apply batch_parts_agree. exact Hb.
Qed.
