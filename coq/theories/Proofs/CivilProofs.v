(** Proofs about Base/Civil.v: Hinnant's [days_from_civil] / [civil_from_days]
    are mutually inverse on the whole proleptic Gregorian calendar (all of Z).

    Method: the Gregorian calendar repeats every 400 years = 146097 days.
    Both directions are checked exhaustively (by the kernel, [vm_compute]) on
    ONE full cycle — all 146097 days, resp. all 400 x 12 x 31 candidate dates —
    and extended to every integer by the shift lemmas below.  The exhaustive
    check is complete for the cycle (not a sample); the shift lemmas are proved
    for all integers. *)
From Coq Require Import ZArith Bool Lia.
From Coq Require Import ZifyBool.
From Snel Require Import Base.Civil.
Open Scope Z_scope.
Ltac Zify.zify_post_hook ::= Z.div_mod_to_equations.

(** * Exhaustive check of a boolean predicate over an interval [lo, lo+len) by halving *)
Fixpoint all_range (fuel : nat) (p : Z -> bool) (lo len : Z) : bool :=
  match fuel with
  | O => len <=? 0
  | S f =>
      if len <=? 0 then true
      else if len =? 1 then p lo
      else let h := len / 2 in all_range f p lo h && all_range f p (lo + h) (len - h)
  end.

Lemma all_range_sound : forall fuel p lo len,
  all_range fuel p lo len = true -> forall x, lo <= x < lo + len -> p x = true.
Proof.
  induction fuel as [|f IH]; intros p lo len H x Hx; cbn [all_range] in H.
  - lia.
  - destruct (Z.leb_spec len 0) as [Hl|Hl]; [lia|].
    destruct (Z.eqb_spec len 1) as [He|He].
    + assert (x = lo) by lia. subst x. exact H.
    + apply andb_prop in H. destruct H as [H1 H2].
      destruct (Z_lt_ge_dec x (lo + len / 2)) as [Hx1|Hx1].
      * apply (IH p lo (len / 2) H1). lia.
      * apply (IH p (lo + len / 2) (len - len / 2) H2). lia.
Qed.

(** * Shift by whole 400-year cycles *)

Lemma is_leap_shift : forall y k, is_leap (y + 400 * k) = is_leap y.
Proof.
  intros y k. unfold is_leap.
  assert (E4 : (y + 400 * k) mod 4 = y mod 4) by lia.
  assert (E100 : (y + 400 * k) mod 100 = y mod 100) by lia.
  assert (E400 : (y + 400 * k) mod 400 = y mod 400) by lia.
  rewrite E4, E100, E400. reflexivity.
Qed.

Lemma valid_ymd_shift : forall y m d k, valid_ymd (y + 400 * k) m d = valid_ymd y m d.
Proof.
  intros. unfold valid_ymd, days_in_month. rewrite is_leap_shift. reflexivity.
Qed.

Lemma days_from_civil_shift : forall y m d k,
  days_from_civil (y + 400 * k) m d = days_from_civil y m d + 146097 * k.
Proof.
  intros y m d k. unfold days_from_civil.
  set (y0 := if m <=? 2 then y - 1 else y).
  replace (if m <=? 2 then y + 400 * k - 1 else y + 400 * k) with (y0 + k * 400)
    by (unfold y0; destruct (m <=? 2); ring).
  cbv zeta.
  rewrite Z.div_add by lia.
  replace (y0 + k * 400 - (y0 / 400 + k) * 400) with (y0 - y0 / 400 * 400) by ring.
  ring.
Qed.

Lemma civil_from_days_shift : forall z k,
  civil_from_days (z + 146097 * k) =
  let '(y, m, d) := civil_from_days z in (y + 400 * k, m, d).
Proof.
  intros z k. unfold civil_from_days. cbv zeta.
  replace (z + 146097 * k + 719468) with (z + 719468 + k * 146097) by ring.
  rewrite Z.div_add by lia.
  replace (z + 719468 + k * 146097 - ((z + 719468) / 146097 + k) * 146097)
    with (z + 719468 - (z + 719468) / 146097 * 146097) by ring.
  set (doe := z + 719468 - (z + 719468) / 146097 * 146097).
  set (yoe := (doe - doe / 1460 + doe / 36524 - doe / 146096) / 365).
  set (doy := doe - (365 * yoe + yoe / 4 - yoe / 100)).
  set (mp := (5 * doy + 2) / 153).
  set (m := if mp <? 10 then mp + 3 else mp - 9).
  destruct (m <=? 2); f_equal; f_equal; ring.
Qed.

(** * One full cycle, exhaustively *)

Definition era_day_ok (doe : Z) : bool :=
  let z := doe - 719468 in
  let '(y, m, d) := civil_from_days z in
  valid_ymd y m d && (days_from_civil y m d =? z).

Lemma era_days_checked : all_range 20 era_day_ok 0 146097 = true.
Proof. vm_compute. reflexivity. Qed.

Definition ymd_ok (y m d : Z) : bool :=
  negb (valid_ymd y m d) ||
  (let '(y', m', d') := civil_from_days (days_from_civil y m d) in
   (y' =? y) && (m' =? m) && (d' =? d)).

Definition year_dates_ok (y : Z) : bool :=
  all_range 5 (fun m => all_range 6 (fun d => ymd_ok y m d) 1 31) 1 12.

Lemma cycle_dates_checked : all_range 10 year_dates_ok 0 400 = true.
Proof. vm_compute. reflexivity. Qed.

(** * The round trips, for all integers *)

Theorem civil_roundtrip_valid : forall z,
  let '(y, m, d) := civil_from_days z in
  days_from_civil y m d = z /\ valid_ymd y m d = true.
Proof.
  intros z.
  set (era := (z + 719468) / 146097).
  set (doe := z + 719468 - era * 146097).
  assert (Hdoe : 0 <= doe < 0 + 146097) by (unfold doe, era; lia).
  pose proof (all_range_sound _ _ _ _ era_days_checked doe Hdoe) as Hok.
  replace z with (doe - 719468 + 146097 * era) by (unfold doe; ring).
  rewrite civil_from_days_shift.
  unfold era_day_ok in Hok. cbv zeta in Hok.
  destruct (civil_from_days (doe - 719468)) as [[y m] d].
  apply andb_prop in Hok. destruct Hok as [Hv He].
  apply Z.eqb_eq in He.
  rewrite days_from_civil_shift, valid_ymd_shift. split; [lia | exact Hv].
Qed.

Theorem civil_roundtrip : forall z,
  let '(y, m, d) := civil_from_days z in days_from_civil y m d = z.
Proof.
  intros z. pose proof (civil_roundtrip_valid z) as H.
  destruct (civil_from_days z) as [[y m] d]. exact (proj1 H).
Qed.

Theorem civil_from_days_valid : forall z,
  let '(y, m, d) := civil_from_days z in valid_ymd y m d = true.
Proof.
  intros z. pose proof (civil_roundtrip_valid z) as H.
  destruct (civil_from_days z) as [[y m] d]. exact (proj2 H).
Qed.

Lemma days_in_month_le_31 : forall y m, days_in_month y m <= 31.
Proof.
  intros y m. unfold days_in_month.
  destruct (m =? 2); [destruct (is_leap y); lia|].
  destruct ((m =? 4) || (m =? 6) || (m =? 9) || (m =? 11)); lia.
Qed.

Lemma valid_ymd_bounds : forall y m d,
  valid_ymd y m d = true -> 1 <= m <= 12 /\ 1 <= d <= days_in_month y m.
Proof.
  intros y m d H. unfold valid_ymd in H.
  repeat (apply andb_prop in H; destruct H as [H ?]).
  lia.
Qed.

Theorem civil_of_days_from_civil : forall y m d,
  valid_ymd y m d = true -> civil_from_days (days_from_civil y m d) = (y, m, d).
Proof.
  intros y m d Hv.
  destruct (valid_ymd_bounds _ _ _ Hv) as [Hm Hd].
  pose proof (days_in_month_le_31 y m) as H31.
  set (k := y / 400). set (y0 := y - 400 * k).
  assert (Hy0 : 0 <= y0 < 0 + 400) by (unfold y0, k; lia).
  pose proof (all_range_sound _ _ _ _ cycle_dates_checked y0 Hy0) as Hyr.
  unfold year_dates_ok in Hyr.
  pose proof (all_range_sound _ _ _ _ Hyr m ltac:(lia)) as Hmo. cbv beta in Hmo.
  pose proof (all_range_sound _ _ _ _ Hmo d ltac:(lia)) as Hok. cbv beta in Hok.
  assert (Hv0 : valid_ymd y0 m d = true).
  { rewrite <- Hv. replace y with (y0 + 400 * k) by (unfold y0; ring).
    symmetry. apply valid_ymd_shift. }
  unfold ymd_ok in Hok. rewrite Hv0 in Hok. cbn [negb orb] in Hok.
  replace y with (y0 + 400 * k) by (unfold y0; ring).
  rewrite days_from_civil_shift, civil_from_days_shift.
  destruct (civil_from_days (days_from_civil y0 m d)) as [[y' m'] d'].
  repeat (apply andb_prop in Hok; destruct Hok as [Hok ?]).
  f_equal; [f_equal|]; lia.
Qed.

(** [days_from_civil] is injective on valid dates. *)
Corollary days_from_civil_inj : forall y1 m1 d1 y2 m2 d2,
  valid_ymd y1 m1 d1 = true -> valid_ymd y2 m2 d2 = true ->
  days_from_civil y1 m1 d1 = days_from_civil y2 m2 d2 -> (y1, m1, d1) = (y2, m2, d2).
Proof.
  intros y1 m1 d1 y2 m2 d2 H1 H2 E.
  rewrite <- (civil_of_days_from_civil _ _ _ H1), <- (civil_of_days_from_civil _ _ _ H2), E.
  reflexivity.
Qed.

(** * Years and day numbers: the four-digit years are exactly the days
      -719528 (0000-01-01) .. 2932896 (9999-12-31). *)

Lemma dfc_year_neg : forall y m d,
  valid_ymd y m d = true -> y < 0 -> days_from_civil y m d < -719528.
Proof.
  intros y m d Hv Hy.
  destruct (valid_ymd_bounds _ _ _ Hv) as [Hm Hd].
  pose proof (days_in_month_le_31 y m) as H31.
  unfold days_from_civil. cbv zeta.
  destruct (Z.leb_spec m 2) as [Hm2|Hm2]; destruct (Z.ltb_spec 2 m) as [Hm3|Hm3]; try lia.
Qed.

Lemma dfc_year_big : forall y m d,
  valid_ymd y m d = true -> 10000 <= y -> 2932897 <= days_from_civil y m d.
Proof.
  intros y m d Hv Hy.
  destruct (valid_ymd_bounds _ _ _ Hv) as [Hm Hd].
  unfold days_from_civil. cbv zeta.
  destruct (Z.leb_spec m 2) as [Hm2|Hm2]; destruct (Z.ltb_spec 2 m) as [Hm3|Hm3]; try lia.
Qed.

Theorem four_digit_year : forall z,
  -719528 <= z <= 2932896 ->
  let '(y, m, d) := civil_from_days z in 0 <= y <= 9999.
Proof.
  intros z Hz. pose proof (civil_roundtrip_valid z) as H.
  destruct (civil_from_days z) as [[y m] d]. destruct H as [He Hv].
  destruct (Z_lt_ge_dec y 0) as [Hn|Hn].
  - pose proof (dfc_year_neg _ _ _ Hv Hn). lia.
  - destruct (Z_lt_ge_dec y 10000) as [Hb|Hb]; [lia|].
    pose proof (dfc_year_big _ _ _ Hv ltac:(lia)). lia.
Qed.

Example day_0000_01_01 : days_from_civil 0 1 1 = -719528. Proof. reflexivity. Qed.
Example day_9999_12_31 : days_from_civil 9999 12 31 = 2932896. Proof. reflexivity. Qed.
Example day_1970_01_01 : days_from_civil 1970 1 1 = 0. Proof. reflexivity. Qed.
Example civil_leap_day_2000 : civil_from_days 11016 = (2000, 2, 29). Proof. reflexivity. Qed.
Example civil_1900_not_leap : civil_from_days (-25508) = (1900, 3, 1)
  /\ civil_from_days (-25509) = (1900, 2, 28). Proof. split; reflexivity. Qed.
Example civil_before_epoch : civil_from_days (-1) = (1969, 12, 31). Proof. reflexivity. Qed.
