(** Proofs about Model/Json.v, Schema.v, SchemaReg.v, Validate.v (C06).

    The declarative specification [Conforms] is defined here, independently of the
    executable [store_check]: it speaks about membership of key/value pairs, inductive
    "has type" judgements and explicit numeric ranges, never about the validation
    functions.  The only executable it mentions is C16's time-string parser, which is
    what "a parseable time" means for strings. *)
From Coq Require Import ZArith NArith List Bool Lia.
From Coq Require Import ZifyBool ZifyNat ZifyN.
From Snel Require Import Base.Bytes Gen.Params Model.Time Model.Json Model.Schema Model.SchemaReg Model.Validate.
From Snel Require Import Proofs.TimeProofs.
Import ListNotations.

(** * Association lists with byte-string keys *)

Lemma bytes_eqb_eq : forall a b, bytes_eqb a b = true <-> a = b.
Proof.
  induction a as [|x a IH]; destruct b as [|y b]; cbn [bytes_eqb]; split; intro H; try discriminate; try reflexivity.
  - apply andb_true_iff in H. destruct H as [H1 H2]. apply N.eqb_eq in H1. apply IH in H2. subst. reflexivity.
  - inversion H; subst. apply andb_true_iff. split; [apply N.eqb_refl | apply IH; reflexivity].
Qed.

Lemma bytes_eqb_refl : forall a, bytes_eqb a a = true.
Proof. intro a. apply bytes_eqb_eq. reflexivity. Qed.

Lemma bytes_eqb_neq : forall a b, bytes_eqb a b = false <-> a <> b.
Proof.
  intros a b. split; intro H.
  - intro E. apply bytes_eqb_eq in E. congruence.
  - destruct (bytes_eqb a b) eqn:E; [|reflexivity]. apply bytes_eqb_eq in E. contradiction.
Qed.

Lemma mem_bytes_In : forall k l, mem_bytes k l = true <-> In k l.
Proof.
  induction l as [|x l IH]; cbn [mem_bytes In]; [split; [discriminate|tauto]|].
  rewrite orb_true_iff, IH, bytes_eqb_eq. tauto.
Qed.

(** a generic lookup; the three model lookups are instances *)
Fixpoint aget {A : Type} (m : list (bytes * A)) (k : bytes) : option A :=
  match m with
  | [] => None
  | (k', v) :: r => if bytes_eqb k' k then Some v else aget r k
  end.

Lemma obj_get_aget : forall m k, obj_get m k = aget m k.
Proof. induction m as [|[k' v] m IH]; intro k; cbn; [reflexivity|]. rewrite IH. reflexivity. Qed.
Lemma schema_get_aget : forall m k, schema_get m k = aget m k.
Proof. induction m as [|[k' v] m IH]; intro k; cbn; [reflexivity|]. rewrite IH. reflexivity. Qed.
Lemma reg_get_aget : forall m k, reg_get m k = aget m k.
Proof. induction m as [|[k' v] m IH]; intro k; cbn; [reflexivity|]. rewrite IH. reflexivity. Qed.

Section Assoc.
  Context {A : Type}.
  Implicit Types (m : list (bytes * A)) (k : bytes) (v : A).

  Lemma aget_In : forall m k v, aget m k = Some v -> In (k, v) m.
  Proof.
    induction m as [|[k' v'] m IH]; intros k v H; cbn in H; [discriminate|].
    destruct (bytes_eqb k' k) eqn:E.
    - apply bytes_eqb_eq in E. inversion H; subst. left; reflexivity.
    - right. apply IH. exact H.
  Qed.

  Lemma aget_None : forall m k, aget m k = None -> forall v, ~ In (k, v) m.
  Proof.
    induction m as [|[k' v'] m IH]; intros k H v Hin; cbn in *; [exact Hin|].
    destruct (bytes_eqb k' k) eqn:E; [discriminate|].
    destruct Hin as [Heq|Hin].
    - inversion Heq; subst. rewrite bytes_eqb_refl in E. discriminate.
    - exact (IH k H v Hin).
  Qed.

  Lemma In_aget_some : forall m k v, In (k, v) m -> exists v', aget m k = Some v'.
  Proof.
    intros m k v Hin. destruct (aget m k) eqn:E; [eauto|].
    exfalso. exact (aget_None m k E v Hin).
  Qed.

  Lemma In_aget_unique : forall m k v, keys_unique m = true -> In (k, v) m -> aget m k = Some v.
  Proof.
    induction m as [|[k' v'] m IH]; intros k v Hu Hin; [destruct Hin|].
    unfold keys_unique in Hu. cbn in Hu. apply andb_true_iff in Hu. destruct Hu as [Hnm Hu].
    cbn. destruct Hin as [Heq|Hin].
    - inversion Heq; subst. rewrite bytes_eqb_refl. reflexivity.
    - destruct (bytes_eqb k' k) eqn:E.
      + apply bytes_eqb_eq in E. subst k'. exfalso.
        apply negb_true_iff in Hnm.
        assert (Hm : mem_bytes k (map fst m) = true).
        { apply mem_bytes_In. change k with (fst (k, v)). apply in_map. exact Hin. }
        congruence.
      + apply IH; assumption.
  Qed.

  Lemma In_unique_eq : forall m k v v', keys_unique m = true -> In (k, v) m -> In (k, v') m -> v = v'.
  Proof.
    intros m k v v' Hu H1 H2.
    pose proof (In_aget_unique m k v Hu H1) as E1.
    pose proof (In_aget_unique m k v' Hu H2) as E2. congruence.
  Qed.
End Assoc.

(** * White space and blank strings *)

(** The UTF-8 encodings of the code points with the Unicode property White_Space. *)
Definition ws_chars : list bytes :=
  [ [9]; [10]; [11]; [12]; [13]; [32];
    [194; 133]; [194; 160]; [225; 154; 128];
    [226; 128; 128]; [226; 128; 129]; [226; 128; 130]; [226; 128; 131]; [226; 128; 132];
    [226; 128; 133]; [226; 128; 134]; [226; 128; 135]; [226; 128; 136]; [226; 128; 137];
    [226; 128; 138]; [226; 128; 168]; [226; 128; 169]; [226; 128; 175]; [226; 129; 159];
    [227; 128; 128] ]%N.

Definition WsChar (w : bytes) : Prop := In w ws_chars.

(** a string made of white-space characters only *)
Inductive Blank : bytes -> Prop :=
| Blank_nil : Blank []
| Blank_app : forall w s, WsChar w -> Blank s -> Blank (w ++ s).

Lemma ws_prefix_app : forall w s, WsChar w -> ws_prefix (w ++ s) = length w.
Proof.
  intros w s H. unfold WsChar, ws_chars in H. cbn [In] in H.
  repeat (destruct H as [H|H]; [subst w; reflexivity|]). destruct H.
Qed.

Ltac ws_pick := unfold WsChar, ws_chars; cbn [In]; tauto.

Lemma ws_prefix_inv : forall s, ws_prefix s <> O ->
  exists w, WsChar w /\ s = w ++ skipn (ws_prefix s) s.
Proof.
  intros s H. destruct s as [|c r]; [cbn in H; congruence|].
  unfold ws_prefix in *.
  destruct (is_ascii_ws c) eqn:Ea.
  { exists [c]. split; [|reflexivity].
    unfold is_ascii_ws in Ea.
    assert (Hc : (c = 9 \/ c = 10 \/ c = 11 \/ c = 12 \/ c = 13 \/ c = 32)%N) by lia.
    destruct Hc as [->|[->|[->|[->|[->| ->]]]]]; ws_pick. }
  destruct r as [|d r2]; [congruence|].
  destruct (N.eqb_spec c 194) as [->|N1].
  { destruct ((d =? 133) || (d =? 160))%N eqn:Ed; [|congruence].
    assert (Hd : (d = 133 \/ d = 160)%N) by lia.
    destruct Hd as [->| ->]; [exists [194; 133]%N | exists [194; 160]%N]; (split; [ws_pick|reflexivity]). }
  destruct r2 as [|e r3]; [congruence|].
  destruct ((c =? 225) && (d =? 154) && (e =? 128))%N eqn:E1.
  { assert (c = 225 /\ d = 154 /\ e = 128)%N as (-> & -> & ->) by lia.
    exists [225; 154; 128]%N. split; [ws_pick|reflexivity]. }
  destruct ((c =? 226) && (d =? 128) && (((128 <=? e) && (e <=? 138)) || (e =? 168) || (e =? 169) || (e =? 175)))%N eqn:E2.
  { assert (c = 226 /\ d = 128)%N as (-> & ->) by lia.
    assert (He : (e = 128 \/ e = 129 \/ e = 130 \/ e = 131 \/ e = 132 \/ e = 133 \/ e = 134 \/ e = 135 \/
                  e = 136 \/ e = 137 \/ e = 138 \/ e = 168 \/ e = 169 \/ e = 175)%N) by lia.
    exists [226; 128; e]%N. split; [|reflexivity].
    repeat (destruct He as [->|He]; [ws_pick|]). subst e. ws_pick. }
  destruct ((c =? 226) && (d =? 129) && (e =? 159))%N eqn:E3.
  { assert (c = 226 /\ d = 129 /\ e = 159)%N as (-> & -> & ->) by lia.
    exists [226; 129; 159]%N. split; [ws_pick|reflexivity]. }
  destruct ((c =? 227) && (d =? 128) && (e =? 128))%N eqn:E4.
  { assert (c = 227 /\ d = 128 /\ e = 128)%N as (-> & -> & ->) by lia.
    exists [227; 128; 128]%N. split; [ws_pick|reflexivity]. }
  congruence.
Qed.

Lemma WsChar_len : forall w, WsChar w -> (1 <= length w)%nat.
Proof.
  intros w H. unfold WsChar, ws_chars in H. cbn [In] in H.
  repeat (destruct H as [H|H]; [subst w; cbn; lia|]). destruct H.
Qed.

Lemma Blank_inv : forall s, Blank s -> s = [] \/ exists w s', WsChar w /\ Blank s' /\ s = w ++ s'.
Proof. intros s B. destruct B as [|w s' Hw Hb]; [left; reflexivity|right; eauto]. Qed.

Lemma all_ws_fuel_spec : forall f s, (length s <= f)%nat -> (all_ws_fuel f s = true <-> Blank s).
Proof.
  induction f as [|f IH]; intros s Hl.
  - destruct s; [|cbn in Hl; lia]. cbn. split; [constructor|reflexivity].
  - destruct s as [|c r]; [cbn; split; [constructor|reflexivity]|].
    cbn [all_ws_fuel]. remember (c :: r) as s eqn:Hs.
    destruct (ws_prefix s) as [|n] eqn:Ep.
    + split; [discriminate|]. intro B. exfalso.
      destruct (Blank_inv _ B) as [E|(w & s' & Hw & Hb & E)]; [congruence|].
      rewrite E, (ws_prefix_app w s' Hw) in Ep. pose proof (WsChar_len w Hw). lia.
    + destruct (ws_prefix_inv s) as [w [Hw Es]]; [lia|]. rewrite Ep in Es.
      assert (Hlen : length w = S n).
      { rewrite Es in Ep at 1. rewrite (ws_prefix_app w _ Hw) in Ep. exact Ep. }
      assert (Hl' : (length (skipn (S n) s) <= f)%nat).
      { rewrite skipn_length. lia. }
      destruct (IH _ Hl') as [I1 I2]. split.
      * intro B. rewrite Es. constructor; [assumption|apply I1; exact B].
      * intro B. apply I2. destruct (Blank_inv _ B) as [E|(w' & s' & Hw' & Hb & E)]; [congruence|].
        assert (Hlw : length w' = S n).
        { rewrite E, (ws_prefix_app w' s' Hw') in Ep. exact Ep. }
        assert (Es' : skipn (S n) s = s').
        { rewrite E, <- Hlw. rewrite skipn_app, skipn_all, Nat.sub_diag. reflexivity. }
        rewrite Es'. exact Hb.
Qed.

Theorem is_blank_spec : forall s, is_blank s = true <-> Blank s.
Proof. intro s. unfold is_blank. apply all_ws_fuel_spec. lia. Qed.

(** * Which integers normalise as times *)

Open Scope Z_scope.

Lemma normalize_some_iff : forall n, normalize_integer_epoch n <> None <-> Z.abs n < 10 ^ 19.
Proof.
  intro n. split.
  - intro H. destruct (Z.lt_ge_cases (Z.abs n) (10 ^ 19)) as [L|G]; [exact L|].
    exfalso. apply H. apply normalize_reject. lia.
  - intros H E.
    destruct (Z.lt_ge_cases (Z.abs n) (10 ^ 11)) as [L1|G1].
    { rewrite normalize_seconds in E by exact L1. discriminate. }
    destruct (Z.lt_ge_cases (Z.abs n) (10 ^ 14)) as [L2|G2].
    { rewrite normalize_ms in E by lia. discriminate. }
    destruct (Z.lt_ge_cases (Z.abs n) (10 ^ 16)) as [L3|G3].
    { rewrite normalize_us in E by lia. discriminate. }
    rewrite normalize_ns in E by lia. discriminate.
Qed.

(** * The declarative specification *)

(** [FT] says which float bit patterns count as a time; the code's reading is "all of
    them" ([fun _ => True]), the property's is "those whose floor is a representable
    second count". *)
Section Spec.
  Variable FT : N -> Prop.

  (** a JSON value that is "a parseable time" *)
  Inductive TimeValue : json -> Prop :=
  | TV_str : forall s t, parse_str_to_epoch_seconds (utrim s) = Some t -> TimeValue (JStr s)
  | TV_pos : forall n, Z.of_N n < 10 ^ 19 -> TimeValue (JNum (PosInt n))
  | TV_neg : forall z, Z.abs z < 10 ^ 19 -> TimeValue (JNum (NegInt z))
  | TV_float : forall b, FT b -> TimeValue (JNum (Float b)).

  (** a JSON value of a declared primitive type, with the code's reading made explicit *)
  Inductive HasPrim : prim -> json -> Prop :=
  | HP_string : forall s, HasPrim TString (JStr s)
  | HP_u64 : forall n, HasPrim TU64 (JNum (PosInt n))
  | HP_i64_pos : forall n, Z.of_N n <= i64_hi -> HasPrim TI64 (JNum (PosInt n))
  | HP_i64_neg : forall z, HasPrim TI64 (JNum (NegInt z))
  | HP_f64 : forall x, HasPrim TF64 (JNum x)
  | HP_bool : forall b, HasPrim TBool (JBool b)
  | HP_timestamp : forall v, TimeValue v -> HasPrim TTimestamp v
  | HP_date : forall v, TimeValue v -> HasPrim TDate v.

  Inductive HasType : ftype -> json -> Prop :=
  | HT_prim : forall p v, HasPrim p v -> HasType (FPrim p) v
  | HT_opt_null : forall p, HasType (FOpt p) JNull
  | HT_opt_some : forall p v, HasPrim p v -> HasType (FOpt p) v
  | HT_enum : forall vs s, In s vs -> HasType (FEnum vs) (JStr s).

  Definition Optional (ft : ftype) : Prop := exists p, ft = FOpt p.

  (** The STORE conforms to the registry: type and context are not blank, the type is
      defined, the payload is an object, every entry's key is a field of the schema and
      its value has the field's type, and every field that is not optional is present. *)
  Definition Conforms (reg : registry) (cmd : store_cmd) : Prop :=
    ~ Blank (sc_type cmd) /\ ~ Blank (sc_ctx cmd) /\
    exists sc obj,
      In (sc_type cmd, sc) reg /\ sc_payload cmd = JObj obj /\
      (forall k v, In (k, v) obj -> exists ft, In (k, ft) sc /\ HasType ft v) /\
      (forall k ft, In (k, ft) sc -> (exists v, In (k, v) obj) \/ Optional ft).
End Spec.

Definition AnyFloat : N -> Prop := fun _ => True.
Definition FloatInRange : N -> Prop := fun b => i64_lo <= f64_floor b <= i64_hi.
(** The code's reading of "a float that is a time", as regenerated from the source: every
    float while [normalize_json_value] casts without a range check
    ([time_float_range_checked = false], the pinned tree), the in-range ones once it checks. *)
Definition CodeFloat : N -> Prop := fun b => time_float_range_checked = true -> FloatInRange b.

Lemma in_i64_spec : forall z, in_i64 z = true <-> i64_lo <= z <= i64_hi.
Proof. intro z. unfold in_i64. lia. Qed.

(** well-formedness: the maps are maps *)
Definition wf_reg (reg : registry) : Prop :=
  keys_unique reg = true /\ forall et sc, In (et, sc) reg -> keys_unique sc = true.
Definition wf_payload (v : json) : Prop :=
  match v with JObj obj => keys_unique obj = true | _ => True end.

(** * The executable check against the specification, value by value *)

Lemma tav_codes :
  tav_string = 0%N /\ tav_u64 = 1%N /\ tav_i64 = 2%N /\ tav_f64 = 3%N /\ tav_bool = 4%N /\
  tav_timestamp = 5%N /\ tav_date = 5%N.
Proof. repeat split; reflexivity. Qed.

Lemma time_of_value_some : forall v,
  (is_string v || is_number v = true /\ time_of_value v <> None) <-> TimeValue CodeFloat v.
Proof.
  intro v. split.
  - intros [Hs Ht]. destruct v as [| |n|s| |]; cbn in Hs; try discriminate.
    + destruct n as [n|z|b]; cbn [time_of_value] in Ht.
      * apply TV_pos. apply normalize_some_iff in Ht. lia.
      * apply TV_neg. apply normalize_some_iff in Ht. exact Ht.
      * apply TV_float. intro Hf. rewrite Hf in Ht. cbn [andb] in Ht.
        apply in_i64_spec. destruct (in_i64 (f64_floor b)); [reflexivity|]. exfalso. apply Ht. reflexivity.
    + cbn [time_of_value] in Ht. destruct (parse_str_to_epoch_seconds (utrim s)) as [t|] eqn:E; [|congruence].
      apply TV_str with t. exact E.
  - intro H. inversion H as [s t E| n Hn| z Hz| b Hb]; subst; cbn [is_string is_number orb time_of_value]; split; try reflexivity.
    + congruence.
    + apply normalize_some_iff. lia.
    + apply normalize_some_iff. assumption.
    + destruct time_float_range_checked eqn:Hf; cbn [andb]; [|discriminate].
      assert (R : in_i64 (f64_floor b) = true) by (apply in_i64_spec; apply Hb; exact Hf).
      rewrite R. cbn [negb]. discriminate.
Qed.

Lemma prim_allows_nontime : forall p v, time_prim p = false ->
  (prim_allows p v = true <-> HasPrim AnyFloat p v).
Proof.
  intros p v Hp. unfold prim_allows, tav_code.
  destruct p; try discriminate Hp; cbn [pred_of_code tav_string tav_u64 tav_i64 tav_f64 tav_bool]; split; intro H.
  - destruct v; try discriminate. constructor.
  - inversion H; reflexivity.
  - destruct v as [| |n| | |]; try discriminate. destruct n; try discriminate. constructor.
  - inversion H; reflexivity.
  - destruct v as [| |n| | |]; try discriminate. destruct n as [n|z|b]; cbn [as_i64 num_as_i64] in H; try discriminate.
    + destruct (Z.leb_spec (Z.of_N n) i64_hi); [|discriminate]. constructor. assumption.
    + constructor.
  - inversion H; subst; cbn [as_i64 num_as_i64].
    + destruct (Z.leb_spec (Z.of_N n) i64_hi); [reflexivity|lia].
    + reflexivity.
  - destruct v as [| |n| | |]; try discriminate. constructor.
  - inversion H; reflexivity.
  - destruct v; try discriminate. constructor.
  - inversion H; reflexivity.
Qed.

Lemma prim_allows_time : forall p v, time_prim p = true ->
  prim_allows p v = (is_string v || is_number v).
Proof. intros p v Hp. destruct p; try discriminate Hp; reflexivity. Qed.

Lemma HasPrim_time : forall FT p v, time_prim p = true -> (HasPrim FT p v <-> TimeValue FT v).
Proof.
  intros FT p v Hp. destruct p; try discriminate Hp; split; intro H; try (inversion H; subst; assumption); constructor; assumption.
Qed.

Lemma HasPrim_nontime_any : forall FT p v, time_prim p = false -> (HasPrim FT p v <-> HasPrim AnyFloat p v).
Proof.
  intros FT p v Hp. split; intro H; inversion H; subst; try discriminate Hp; constructor; assumption.
Qed.

(** what the handler demands of one present value: allowed by [type_allows_value], and
    normalisable when the normaliser will touch it *)
Definition value_accepted (ft : ftype) (v : json) : Prop :=
  type_allows_value ft v = true /\ (needs_time ft v = true -> time_of_value v <> None).

Lemma prim_accepted : forall p v,
  (prim_allows p v = true /\ (time_prim p = true -> time_of_value v <> None)) <-> HasPrim CodeFloat p v.
Proof.
  intros p v. destruct (time_prim p) eqn:Hp.
  - rewrite prim_allows_time by exact Hp. rewrite (HasPrim_time CodeFloat p v Hp).
    rewrite <- time_of_value_some. tauto.
  - rewrite (HasPrim_nontime_any CodeFloat p v Hp), (prim_allows_nontime p v Hp).
    split; [tauto|]. intro H. split; [exact H|discriminate].
Qed.

Lemma value_accepted_spec : forall ft v, value_accepted ft v <-> HasType CodeFloat ft v.
Proof.
  intros ft v. unfold value_accepted. destruct ft as [p|p|vs]; cbn [type_allows_value needs_time].
  - rewrite prim_accepted. split; [intro H; constructor; exact H|intro H; inversion H; assumption].
  - destruct v as [| |n|s| |]; cbn [is_null orb negb andb].
    1: { split; [intros _; constructor|]. intros _. split; [reflexivity|]. rewrite andb_false_r. discriminate. }
    all: rewrite andb_true_r; rewrite prim_accepted;
      (split; [intro H; apply HT_opt_some; exact H|intro H; inversion H; assumption]).
  - split.
    + intros [H _]. destruct v; cbn in H; try discriminate. constructor. apply mem_bytes_In. exact H.
    + intro H. inversion H; subst. split; [|discriminate]. cbn. apply mem_bytes_In. assumption.
Qed.

(** * The field loop, the extra-key test and the normaliser against the specification *)

Lemma normalize_obj_some : forall sc obj,
  normalize_obj sc obj <> None <-> (forall k v, In (k, v) obj -> normalize_value sc k v <> None).
Proof.
  intros sc obj. induction obj as [|[k v] obj IH]; cbn [normalize_obj].
  - split; [intros _ k v []|discriminate].
  - split.
    + intros H k' v' [E|Hin].
      * inversion E; subst. destruct (normalize_value sc k' v'); [discriminate|]. exfalso. apply H. reflexivity.
      * apply IH; [|exact Hin]. destruct (normalize_value sc k v); [|exfalso; apply H; reflexivity].
        destruct (normalize_obj sc obj); [discriminate|]. exfalso. apply H. reflexivity.
    + intro H.
      assert (H1 : normalize_value sc k v <> None) by (apply H; left; reflexivity).
      assert (H2 : normalize_obj sc obj <> None) by (apply IH; intros k' v' Hin; apply H; right; exact Hin).
      destruct (normalize_value sc k v); [|congruence].
      destruct (normalize_obj sc obj); [discriminate|congruence].
Qed.

Lemma normalize_value_some : forall sc k v ft, schema_get sc k = Some ft ->
  (normalize_value sc k v <> None <-> (needs_time ft v = true -> time_of_value v <> None)).
Proof.
  intros sc k v ft E. unfold normalize_value. rewrite E.
  destruct (needs_time ft v).
  - destruct (time_of_value v); cbn; split; intro H; try discriminate; try congruence.
    exfalso. apply H; reflexivity.
  - split; [discriminate|]. intros _. discriminate.
Qed.

Lemma is_optional_spec : forall ft, is_optional ft = true <-> Optional ft.
Proof.
  intro ft. unfold Optional. destruct ft; cbn; split; intro H; try discriminate; eauto.
  - destruct H as [q H]. discriminate.
  - destruct H as [q H]. discriminate.
Qed.

Lemma payload_ok_spec : forall sc obj,
  keys_unique sc = true -> keys_unique obj = true ->
  ((check_fields obj sc = true /\ no_extra_keys obj sc = true /\ normalize_obj sc obj <> None)
   <->
   ((forall k v, In (k, v) obj -> exists ft, In (k, ft) sc /\ HasType CodeFloat ft v) /\
    (forall k ft, In (k, ft) sc -> (exists v, In (k, v) obj) \/ Optional ft))).
Proof.
  intros sc obj Hsu Hou. unfold check_fields, no_extra_keys. rewrite !forallb_forall, normalize_obj_some.
  split.
  - intros (Hcf & Hne & Hno). split.
    + intros k v Hin.
      specialize (Hne (k, v) Hin). cbn [fst] in Hne. rewrite schema_get_aget in Hne.
      destruct (aget sc k) as [ft|] eqn:Eg; [|discriminate].
      pose proof (aget_In _ _ _ Eg) as Hs.
      exists ft. split; [exact Hs|]. apply value_accepted_spec. split.
      * specialize (Hcf (k, ft) Hs). unfold field_ok in Hcf. cbn [fst snd] in Hcf.
        rewrite obj_get_aget, (In_aget_unique obj k v Hou Hin) in Hcf. exact Hcf.
      * apply (normalize_value_some sc k v ft); [rewrite schema_get_aget; exact Eg|]. apply Hno. exact Hin.
    + intros k ft Hs. specialize (Hcf (k, ft) Hs). unfold field_ok in Hcf. cbn [fst snd] in Hcf.
      rewrite obj_get_aget in Hcf. destruct (aget obj k) as [v|] eqn:Eg.
      * left. exists v. apply aget_In. exact Eg.
      * right. apply is_optional_spec. exact Hcf.
  - intros (H1 & H2). split; [|split].
    + intros [f ft] Hs. unfold field_ok. cbn [fst snd]. rewrite obj_get_aget.
      destruct (aget obj f) as [v|] eqn:Eg.
      * pose proof (aget_In _ _ _ Eg) as Hin. destruct (H1 f v Hin) as (ft' & Hs' & Ht).
        rewrite (In_unique_eq sc f ft ft' Hsu Hs Hs'). apply value_accepted_spec in Ht. apply Ht.
      * destruct (H2 f ft Hs) as [[v Hin]|Ho].
        -- exfalso. exact (aget_None obj f Eg v Hin).
        -- apply is_optional_spec. exact Ho.
    + intros [k v] Hin. cbn [fst]. destruct (H1 k v Hin) as (ft & Hs & _).
      rewrite schema_get_aget. destruct (In_aget_some sc k ft Hs) as [ft' E]. rewrite E. reflexivity.
    + intros k v Hin. destruct (H1 k v Hin) as (ft & Hs & Ht).
      apply (normalize_value_some sc k v ft).
      * rewrite schema_get_aget. apply In_aget_unique; assumption.
      * apply value_accepted_spec in Ht. apply Ht.
Qed.

(** * C06: accept iff conforms *)

Theorem store_ok_iff_conforms : forall reg cmd,
  wf_reg reg -> wf_payload (sc_payload cmd) ->
  (store_ok reg cmd = true <-> Conforms CodeFloat reg cmd).
Proof.
  intros reg cmd [Hru Hrs] Hwp. unfold store_ok, store_check, Conforms.
  destruct (is_blank (sc_type cmd)) eqn:Bt.
  { split; [discriminate|]. intros (Nb & _). exfalso. apply Nb. apply is_blank_spec. exact Bt. }
  destruct (is_blank (sc_ctx cmd)) eqn:Bc.
  { split; [discriminate|]. intros (_ & Nb & _). exfalso. apply Nb. apply is_blank_spec. exact Bc. }
  assert (NBt : ~ Blank (sc_type cmd)) by (intro B; apply is_blank_spec in B; congruence).
  assert (NBc : ~ Blank (sc_ctx cmd)) by (intro B; apply is_blank_spec in B; congruence).
  rewrite reg_get_aget.
  destruct (aget reg (sc_type cmd)) as [sc|] eqn:Eg.
  2: { split; [discriminate|]. intros (_ & _ & sc & obj & Hin & _). exfalso. exact (aget_None reg _ Eg sc Hin). }
  pose proof (aget_In _ _ _ Eg) as Hin. pose proof (Hrs _ _ Hin) as Hsu.
  destruct (sc_payload cmd) as [| | | | |obj] eqn:Ep; cbn [validate_payload];
    try (split; [discriminate|]; intros (_ & _ & sc' & obj' & _ & Hp & _); discriminate).
  cbn [wf_payload] in Hwp.
  pose proof (payload_ok_spec sc obj Hsu Hwp) as Spec.
  split.
  - intro H. split; [exact NBt|split; [exact NBc|]]. exists sc, obj. split; [exact Hin|split; [reflexivity|]].
    apply Spec.
    destruct (check_fields obj sc); [|discriminate].
    destruct (no_extra_keys obj sc); [|discriminate].
    destruct (normalize_obj sc obj); [|discriminate].
    repeat split; discriminate.
  - intros (_ & _ & sc' & obj' & Hin' & Hp & Hc).
    inversion Hp; subst obj'.
    rewrite (In_unique_eq reg _ sc' sc Hru Hin' Hin) in Hc.
    apply Spec in Hc. destruct Hc as (H1 & H2 & H3).
    rewrite H1, H2. destruct (normalize_obj sc obj); [reflexivity|congruence].
Qed.

(** Conformance implies the shape the property speaks of: a flat object whose keys all
    are fields and cover every non-optional field. *)
Definition scalar (v : json) : Prop :=
  match v with JArr _ | JObj _ => False | _ => True end.

Lemma HasType_scalar : forall FT ft v, HasType FT ft v -> scalar v.
Proof.
  intros FT ft v H. inversion H as [p v' Hp| |p v' Hp|]; subst; try exact I;
    inversion Hp as [| | | | | |v'' Ht|v'' Ht]; subst; try exact I; inversion Ht; exact I.
Qed.

Theorem conforms_flat_exact_keys : forall FT reg cmd, Conforms FT reg cmd ->
  exists sc obj, In (sc_type cmd, sc) reg /\ sc_payload cmd = JObj obj /\
    (forall k v, In (k, v) obj -> scalar v /\ exists ft, In (k, ft) sc) /\
    (forall k ft, In (k, ft) sc -> ~ Optional ft -> exists v, In (k, v) obj).
Proof.
  intros FT reg cmd (_ & _ & sc & obj & Hin & Hp & H1 & H2).
  exists sc, obj. repeat split; try assumption.
  - destruct (H1 k v H) as (ft & _ & Ht). exact (HasType_scalar FT ft v Ht).
  - destruct (H1 k v H) as (ft & Hs & _). eauto.
  - intros k ft Hs Hno. destruct (H2 k ft Hs) as [Hv|Ho]; [exact Hv|contradiction].
Qed.

(** * No trace of a rejected STORE; exactly one event of an accepted one *)

Theorem reject_no_trace : forall st cmd,
  store_ok (st_reg st) cmd = false -> step_store st cmd = st.
Proof.
  intros st cmd H. unfold step_store, store_ok in *.
  destruct (store_check (st_reg st) cmd); [discriminate|reflexivity].
Qed.

Lemma visible_app : forall r es e et,
  visible {| st_reg := r; st_events := es ++ [e] |} et =
  visible {| st_reg := r; st_events := es |} et ++ (if bytes_eqb (ev_type e) et then [e] else []).
Proof. intros. unfold visible. cbn [st_events]. rewrite filter_app. cbn [filter]. reflexivity. Qed.

Theorem accept_one_event : forall st cmd,
  store_ok (st_reg st) cmd = true ->
  exists p,
    let ev := {| ev_type := sc_type cmd; ev_ctx := sc_ctx cmd; ev_payload := p |} in
    store_check (st_reg st) cmd = Accepted p /\
    st_reg (step_store st cmd) = st_reg st /\
    st_events (step_store st cmd) = st_events st ++ [ev] /\
    visible (step_store st cmd) (sc_type cmd) = visible st (sc_type cmd) ++ [ev] /\
    (forall et, et <> sc_type cmd -> visible (step_store st cmd) et = visible st et).
Proof.
  intros st cmd H. unfold store_ok in H. unfold step_store.
  destruct (store_check (st_reg st) cmd) as [p|e] eqn:E; [|discriminate].
  exists p. cbn zeta. repeat split.
  - destruct st as [r es]. cbn [st_reg st_events]. rewrite visible_app. cbn [ev_type].
    rewrite bytes_eqb_refl. reflexivity.
  - intros et Hne. destruct st as [r es]. cbn [st_reg st_events]. rewrite visible_app. cbn [ev_type].
    assert (F : bytes_eqb (sc_type cmd) et = false) by (apply bytes_eqb_neq; congruence).
    rewrite F, app_nil_r. reflexivity.
Qed.

(** * DEFINE *)

Theorem define_error_keeps : forall reg et cs e,
  define reg et cs = DefErr e -> define_reg reg et cs = reg.
Proof. intros reg et cs e H. unfold define_reg. rewrite H. reflexivity. Qed.

Theorem define_error_iff : forall reg et cs e,
  define reg et cs = DefErr e <->
  ((exists sc, reg_get reg et = Some sc) /\ e = AlreadyDefined) \/
  (reg_get reg et = None /\ cs = [] /\ e = EmptySchema).
Proof.
  intros reg et cs e. unfold define. destruct (reg_get reg et) as [sc|].
  - split.
    + intro H. inversion H. left. eauto.
    + intros [[_ ->]|[H _]]; [reflexivity|discriminate].
  - destruct cs as [|c cs].
    + split.
      * intro H. inversion H. right. auto.
      * intros [[[sc H] _]|(_ & _ & ->)]; [discriminate|reflexivity].
    + split; [discriminate|]. intros [[[sc H] _]|(_ & H & _)]; discriminate.
Qed.

Lemma aget_app_none : forall {A} (m : list (bytes * A)) k x, aget m k = None ->
  forall k', aget (m ++ [(k, x)]) k' = if bytes_eqb k k' then Some x else aget m k'.
Proof.
  intros A m k x. induction m as [|[k0 v0] m IH]; intros Hn k'; cbn in *.
  - reflexivity.
  - destruct (bytes_eqb k0 k) eqn:E0; [discriminate|].
    destruct (bytes_eqb k0 k') eqn:E1.
    + destruct (bytes_eqb k k') eqn:E2; [|reflexivity].
      apply bytes_eqb_eq in E1, E2. subst. rewrite bytes_eqb_refl in E0. discriminate.
    + apply IH. exact Hn.
Qed.

Theorem define_ok_appends : forall reg et cs r',
  define reg et cs = DefOk r' ->
  reg_get reg et = None /\ cs <> [] /\
  reg_get r' et = Some (schema_of_cmd cs) /\
  (forall et', et' <> et -> reg_get r' et' = reg_get reg et').
Proof.
  intros reg et cs r' H. unfold define in H.
  destruct (reg_get reg et) eqn:Eg; [discriminate|]. destruct cs as [|c cs]; [discriminate|].
  inversion H; subst r'. split; [reflexivity|split; [discriminate|]].
  rewrite reg_get_aget in Eg. split.
  - rewrite reg_get_aget, (aget_app_none reg et _ Eg), bytes_eqb_refl. reflexivity.
  - intros et' Hne. rewrite !reg_get_aget, (aget_app_none reg et _ Eg).
    assert (F : bytes_eqb et et' = false) by (apply bytes_eqb_neq; congruence). rewrite F. reflexivity.
Qed.

(** schemas are append-only: whatever a DEFINE answers, every schema already in force stays *)
Theorem define_keeps_existing : forall reg et cs et' sc,
  reg_get reg et' = Some sc -> reg_get (define_reg reg et cs) et' = Some sc.
Proof.
  intros reg et cs et' sc H. unfold define_reg. destruct (define reg et cs) as [r'|e] eqn:E; [|exact H].
  destruct (define_ok_appends _ _ _ _ E) as (Hn & _ & _ & Ho).
  rewrite Ho; [exact H|]. intro Heq. subst. congruence.
Qed.

Theorem define_history_keeps : forall (ds : list (bytes * cmd_schema)) reg et sc,
  reg_get reg et = Some sc ->
  reg_get (fold_left (fun r d => define_reg r (fst d) (snd d)) ds reg) et = Some sc.
Proof.
  induction ds as [|d ds IH]; intros reg et sc H; cbn [fold_left]; [exact H|].
  apply IH. apply define_keeps_existing. exact H.
Qed.

(** a DEFINE of a type that exists is answered with an error, the state is untouched and
    every later STORE is judged exactly as before *)
Theorem define_existing_rejected : forall st et cs sc,
  reg_get (st_reg st) et = Some sc ->
  define (st_reg st) et cs = DefErr AlreadyDefined /\
  step_define st et cs = st /\
  (forall cmd, store_check (st_reg (step_define st et cs)) cmd = store_check (st_reg st) cmd).
Proof.
  intros st et cs sc H.
  assert (D : define (st_reg st) et cs = DefErr AlreadyDefined) by (unfold define; rewrite H; reflexivity).
  assert (S : step_define st et cs = st).
  { unfold step_define. rewrite (define_error_keeps _ _ _ _ D). destruct st; reflexivity. }
  split; [exact D|split; [exact S|]]. intro cmd. rewrite S. reflexivity.
Qed.

Theorem define_error_state : forall st et cs e,
  define (st_reg st) et cs = DefErr e -> step_define st et cs = st.
Proof.
  intros st et cs e D. unfold step_define. rewrite (define_error_keeps _ _ _ _ D). destruct st; reflexivity.
Qed.

(** ** Registries built by DEFINE are well formed *)

Lemma keys_unique_schema_of_cmd : forall cs, keys_unique (schema_of_cmd cs) = keys_unique cs.
Proof.
  intro cs. unfold keys_unique, schema_of_cmd. rewrite map_map.
  f_equal. apply map_ext. intros [n s]. reflexivity.
Qed.

Lemma mem_bytes_app : forall k a b, mem_bytes k (a ++ b) = mem_bytes k a || mem_bytes k b.
Proof. induction a as [|x a IH]; intro b; cbn; [reflexivity|]. rewrite IH, orb_assoc. reflexivity. Qed.

Lemma uniq_bytes_snoc : forall l k, uniq_bytes l = true -> mem_bytes k l = false -> uniq_bytes (l ++ [k]) = true.
Proof.
  induction l as [|x l IH]; intros k Hu Hm; cbn in *; [reflexivity|].
  apply andb_true_iff in Hu. destruct Hu as [Hx Hu]. apply orb_false_iff in Hm. destruct Hm as [Hxk Hm].
  apply andb_true_iff. split; [|apply IH; assumption].
  rewrite mem_bytes_app. cbn. rewrite orb_false_r. apply negb_true_iff in Hx. rewrite Hx. cbn.
  apply negb_true_iff. apply bytes_eqb_neq. apply bytes_eqb_neq in Hxk. congruence.
Qed.

Lemma aget_none_not_mem : forall {A} (m : list (bytes * A)) k, aget m k = None -> mem_bytes k (map fst m) = false.
Proof.
  intros A m k H. destruct (mem_bytes k (map fst m)) eqn:E; [|reflexivity].
  apply mem_bytes_In in E. apply in_map_iff in E. destruct E as ([k' v] & Ek & Hin). cbn in Ek. subst k'.
  exfalso. exact (aget_None m k H v Hin).
Qed.

Inductive Reachable : registry -> Prop :=
| R_empty : Reachable []
| R_define : forall reg et cs, Reachable reg -> keys_unique cs = true -> Reachable (define_reg reg et cs).

Lemma wf_reg_empty : wf_reg [].
Proof. split; [reflexivity|intros et sc []]. Qed.

Lemma wf_reg_define : forall reg et cs, wf_reg reg -> keys_unique cs = true -> wf_reg (define_reg reg et cs).
Proof.
  intros reg et cs [Hu Hs] Hc. unfold define_reg, define.
  destruct (reg_get reg et) eqn:Eg; [split; assumption|].
  destruct cs as [|c cs]; [split; assumption|].
  rewrite reg_get_aget in Eg. split.
  - unfold keys_unique in *. rewrite map_app. cbn [map fst]. apply uniq_bytes_snoc; [exact Hu|].
    apply aget_none_not_mem. exact Eg.
  - intros et' sc Hin. apply in_app_or in Hin. destruct Hin as [Hin|[Heq|[]]]; [eauto|].
    inversion Heq; subst. rewrite <- keys_unique_schema_of_cmd in Hc. exact Hc.
Qed.

Theorem reachable_wf : forall reg, Reachable reg -> wf_reg reg.
Proof. induction 1; [apply wf_reg_empty|apply wf_reg_define; assumption]. Qed.

(** * After the repairs (fix round): the property's own reading, with no excluded class

    The three places where the pinned code contradicted the property statement were repaired in
    /repo (8f02d15 float times range-checked, fced25a STORE grammar skips JSON strings, b3737c8
    tokenizer accepts '+').  The translator now regenerates [time_float_range_checked = true],
    [store_brace_scan_ignores_strings = false], [tokenizer_rejects_plus = false]; the proofs
    below compute with these values, so they stop checking if any of the three regresses. *)

Lemma HasPrim_mono : forall (F1 F2 : N -> Prop), (forall b, F1 b -> F2 b) ->
  forall p v, HasPrim F1 p v -> HasPrim F2 p v.
Proof.
  intros F1 F2 M p v H.
  inversion H as [| | | | | |v' Ht|v' Ht]; subst; try constructor; try assumption;
    (inversion Ht; subst; [eapply TV_str; eassumption|apply TV_pos; assumption|apply TV_neg; assumption|apply TV_float; auto]).
Qed.

Lemma HasType_mono : forall (F1 F2 : N -> Prop), (forall b, F1 b -> F2 b) ->
  forall ft v, HasType F1 ft v -> HasType F2 ft v.
Proof.
  intros F1 F2 M ft v H. inversion H; subst.
  - apply HT_prim. eapply HasPrim_mono; eassumption.
  - apply HT_opt_null.
  - apply HT_opt_some. eapply HasPrim_mono; eassumption.
  - apply HT_enum. assumption.
Qed.

Lemma Conforms_mono : forall (F1 F2 : N -> Prop), (forall b, F1 b -> F2 b) ->
  forall reg cmd, Conforms F1 reg cmd -> Conforms F2 reg cmd.
Proof.
  intros F1 F2 M reg cmd (A & B & sc & obj & Hin & Hp & H1 & H2).
  split; [exact A|split; [exact B|]]. exists sc, obj. repeat split; try assumption.
  intros k v Hkv. destruct (H1 k v Hkv) as (ft & Hs & Ht). exists ft. split; [exact Hs|].
  eapply HasType_mono; eassumption.
Qed.

(** the repaired source rejects a float time whose floor is not an i64: the code's reading of
    "a float that is a time" now IS the property's *)
Lemma code_float_in_range : forall b, CodeFloat b <-> FloatInRange b.
Proof.
  intro b. unfold CodeFloat. split; [intro H; apply H; reflexivity|intros H _; exact H].
Qed.

(** C06 at full strength: accepted iff conforming under the property's reading, every STORE *)
Theorem accept_iff_conforms_strict : forall reg cmd,
  wf_reg reg -> wf_payload (sc_payload cmd) ->
  (store_ok reg cmd = true <-> Conforms FloatInRange reg cmd).
Proof.
  intros reg cmd Hwr Hwp. pose proof (store_ok_iff_conforms reg cmd Hwr Hwp) as E. split.
  - intro H. apply (Conforms_mono CodeFloat FloatInRange); [intro b; apply code_float_in_range|]. apply E. exact H.
  - intro C. apply E. apply (Conforms_mono FloatInRange CodeFloat); [intro b; apply code_float_in_range|exact C].
Qed.

(** ** The command line adds nothing any more *)

Lemma text_parses_obj : forall t,
  text_parses t = match sc_payload (tx_cmd t) with JObj _ => true | _ => false end.
Proof.
  intro t. unfold text_parses, braces_ok, tokenizer_rejects_plus, store_brace_scan_ignores_strings.
  cbn [andb negb]. reflexivity.
Qed.

(** a command line whose payload is a JSON object reaches the handler, whatever its strings
    and number spellings: the text front is transparent *)
Theorem text_front_transparent : forall reg t obj,
  sc_payload (tx_cmd t) = JObj obj -> store_text_ok reg t = store_ok reg (tx_cmd t).
Proof. intros reg t obj Hp. unfold store_text_ok. rewrite text_parses_obj, Hp. reflexivity. Qed.

Theorem text_accept_iff_conforms : forall reg t,
  wf_reg reg -> wf_payload (sc_payload (tx_cmd t)) ->
  (store_text_ok reg t = true <-> Conforms FloatInRange reg (tx_cmd t)).
Proof.
  intros reg t Hwr Hwp. unfold store_text_ok. rewrite text_parses_obj.
  pose proof (accept_iff_conforms_strict reg (tx_cmd t) Hwr Hwp) as E. split.
  - intro H. apply andb_true_iff in H. apply E. apply H.
  - intro C. apply andb_true_iff. split; [|apply E; exact C].
    destruct C as (_ & _ & sc & obj & _ & Hpay & _). rewrite Hpay. reflexivity.
Qed.

Theorem text_reject_no_trace : forall st t,
  store_text_ok (st_reg st) t = false -> step_store_text st t = st.
Proof.
  intros st t H. unfold step_store_text, store_text_ok in *.
  destruct (text_parses t); [|reflexivity]. cbn [andb] in H. apply reject_no_trace. exact H.
Qed.

(** ** The former witnesses, now on the right side

    DEFINE t { ts: "datetime" };             STORE t FOR c PAYLOAD {"ts": 1e300}      -> rejected
    DEFINE t { s: "string", f: "float" };    STORE t FOR c PAYLOAD {"s":"}","f":1}    -> accepted
                                             STORE t FOR c PAYLOAD {"s":"x","f":1e+16} -> accepted *)
Definition w_ts : bytes := [116; 115]%N.
Definition w_t : bytes := [116]%N.
Definition w_c : bytes := [99]%N.
Definition w_s : bytes := [115]%N.
Definition w_f : bytes := [102]%N.
Definition w_reg_time : registry :=
  define_reg [] w_t [(w_ts, SPrim [100; 97; 116; 101; 116; 105; 109; 101]%N)].
Definition w_cmd_1e300 : store_cmd :=
  {| sc_type := w_t; sc_ctx := w_c; sc_payload := JObj [(w_ts, JNum (Float 9094988921128908188%N))] |}.
Definition w_reg_text : registry :=
  define_reg [] w_t [(w_s, SPrim [115; 116; 114; 105; 110; 103]%N); (w_f, SPrim [102; 108; 111; 97; 116]%N)].
Definition w_text_brace : store_text :=
  {| tx_cmd := {| sc_type := w_t; sc_ctx := w_c;
                  sc_payload := JObj [(w_s, JStr [125]%N); (w_f, JNum (PosInt 1))] |};
     tx_plus_exp := false |}.
Definition w_text_plus : store_text :=
  {| tx_cmd := {| sc_type := w_t; sc_ctx := w_c;
                  sc_payload := JObj [(w_s, JStr [120]%N); (w_f, JNum (Float 4846369599423283200%N))] |};
     tx_plus_exp := true |}.

Lemma w_reg_time_reachable : Reachable w_reg_time.
Proof. apply R_define; [apply R_empty|reflexivity]. Qed.
Lemma w_reg_text_reachable : Reachable w_reg_text.
Proof. apply R_define; [apply R_empty|reflexivity]. Qed.

Theorem former_witnesses_repaired :
  store_ok w_reg_time w_cmd_1e300 = false /\
  store_text_ok w_reg_text w_text_brace = true /\
  store_text_ok w_reg_text w_text_plus = true.
Proof. repeat split; vm_compute; reflexivity. Qed.

(** * The hypotheses of the implications above are satisfiable *)

Definition w_cmd_ok : store_cmd :=
  {| sc_type := w_t; sc_ctx := w_c; sc_payload := JObj [(w_s, JStr [120]%N); (w_f, JNum (PosInt 1))] |}.

Example conforms_witness :
  wf_reg w_reg_text /\ wf_payload (sc_payload w_cmd_ok) /\
  store_ok w_reg_text w_cmd_ok = true /\ Conforms FloatInRange w_reg_text w_cmd_ok.
Proof.
  pose proof (reachable_wf _ w_reg_text_reachable) as Hwf.
  split; [exact Hwf|]. split; [reflexivity|]. split; [vm_compute; reflexivity|].
  apply (accept_iff_conforms_strict _ _ Hwf); [reflexivity|vm_compute; reflexivity].
Qed.

Example text_conforms_witness :
  Conforms FloatInRange w_reg_text (tx_cmd w_text_brace) /\ Conforms FloatInRange w_reg_text (tx_cmd w_text_plus).
Proof.
  pose proof (reachable_wf _ w_reg_text_reachable) as Hwf.
  split; apply (text_accept_iff_conforms _ _ Hwf); try reflexivity; vm_compute; reflexivity.
Qed.

Example reject_witness : store_ok w_reg_text {| sc_type := w_t; sc_ctx := []; sc_payload := JNull |} = false.
Proof. vm_compute. reflexivity. Qed.

Example define_error_witness :
  exists e, define w_reg_text w_t [(w_s, SPrim [105; 110; 116]%N)] = DefErr e.
Proof. eexists. vm_compute. reflexivity. Qed.

Example define_ok_witness :
  exists r, define [] w_t [(w_s, SPrim [105; 110; 116]%N)] = DefOk r.
Proof. eexists. vm_compute. reflexivity. Qed.

Theorem define_error_keeps_schema : forall st et cs e,
  define (st_reg st) et cs = DefErr e ->
  step_define st et cs = st /\
  (forall et', reg_get (st_reg (step_define st et cs)) et' = reg_get (st_reg st) et') /\
  (forall cmd, store_check (st_reg (step_define st et cs)) cmd = store_check (st_reg st) cmd).
Proof.
  intros st et cs e D. pose proof (define_error_state st et cs e D) as S.
  split; [exact S|]. split; intros; rewrite S; reflexivity.
Qed.

(** * Every primitive alias resolves as listed, in any letter case, alone and as [T | null] *)

Lemma to_lower_idem : forall c, to_lower (to_lower c) = to_lower c.
Proof. intro c. unfold to_lower. repeat match goal with |- context [if ?b then _ else _] => destruct b eqn:? end; lia. Qed.

Lemma to_lower_upper : forall c, to_lower (to_upper c) = to_lower c.
Proof. intro c. unfold to_lower, to_upper. repeat match goal with |- context [if ?b then _ else _] => destruct b eqn:? end; lia. Qed.

Theorem alias_case_insensitive : forall s s',
  map to_lower s = map to_lower s' -> from_primitive_str s = from_primitive_str s'.
Proof. intros s s' H. unfold from_primitive_str. rewrite H. reflexivity. Qed.

Corollary alias_upper : forall s, from_primitive_str (map to_upper s) = from_primitive_str s.
Proof.
  intro s. apply alias_case_insensitive. rewrite map_map. apply map_ext. apply to_lower_upper.
Qed.

Definition bar_null : bytes := [32; 124; 32; 110; 117; 108; 108]%N.   (* " | null" *)
Definition null_bar : bytes := [110; 117; 108; 108; 32; 124; 32]%N.   (* "null | " *)

Definition alias_ok (e : bytes * N) : bool :=
  match prim_of_code (snd e) with
  | None => false
  | Some p =>
      match from_spec_with_nullable (fst e), from_spec_with_nullable (map to_upper (fst e)),
            from_spec_with_nullable (fst e ++ bar_null), from_spec_with_nullable (null_bar ++ fst e) with
      | Some (FPrim p1), Some (FPrim p2), Some (FOpt p3), Some (FOpt p4) =>
          match p, p1, p2, p3, p4 with
          | TString, TString, TString, TString, TString
          | TU64, TU64, TU64, TU64, TU64
          | TI64, TI64, TI64, TI64, TI64
          | TF64, TF64, TF64, TF64, TF64
          | TBool, TBool, TBool, TBool, TBool
          | TTimestamp, TTimestamp, TTimestamp, TTimestamp, TTimestamp
          | TDate, TDate, TDate, TDate, TDate => true
          | _, _, _, _, _ => false
          end
      | _, _, _, _ => false
      end
  end.

(** a finite sweep over the regenerated alias table (19 entries on the pinned tree) *)
Theorem alias_resolution : forallb alias_ok schema_alias_table = true /\ (1 <= length schema_alias_table)%nat.
Proof. split; [vm_compute; reflexivity|vm_compute; lia]. Qed.

Theorem unknown_spec_is_string : forall s,
  from_spec_with_nullable s = None -> field_of_spec (SPrim s) = FPrim TString.
Proof. intros s H. unfold field_of_spec. rewrite H. reflexivity. Qed.

Example unknown_spec_witness :
  from_spec_with_nullable [102; 111; 111; 32; 124; 32; 110; 117; 108; 108]%N = None.   (* "foo | null" *)
Proof. vm_compute. reflexivity. Qed.

(** * Persistence: the registry after a restart is the registry before it *)

Lemma reg_insert_absent : forall r et sc, aget r et = None -> reg_insert r et sc = r ++ [(et, sc)].
Proof.
  induction r as [|[k s] r IH]; intros et sc H; cbn in *; [reflexivity|].
  destruct (bytes_eqb k et); [discriminate|]. rewrite IH by exact H. reflexivity.
Qed.

Lemma aget_of_not_mem : forall {A} (m : list (bytes * A)) k, mem_bytes k (map fst m) = false -> aget m k = None.
Proof.
  intros A m k H. destruct (aget m k) as [v|] eqn:E; [|reflexivity].
  apply aget_In in E. assert (X : mem_bytes k (map fst m) = true).
  { apply mem_bytes_In. change k with (fst (k, v)). apply in_map. exact E. }
  congruence.
Qed.

Lemma uniq_bytes_app_l : forall a b, uniq_bytes (a ++ b) = true -> uniq_bytes a = true.
Proof.
  induction a as [|x a IH]; intros b H; cbn in *; [reflexivity|].
  apply andb_true_iff in H. destruct H as [H1 H2]. apply andb_true_iff. split; [|eapply IH; exact H2].
  rewrite mem_bytes_app in H1. apply negb_true_iff in H1. apply orb_false_iff in H1. apply negb_true_iff. apply H1.
Qed.

Lemma uniq_bytes_mid : forall a x b, uniq_bytes (a ++ x :: b) = true -> mem_bytes x a = false.
Proof.
  induction a as [|y a IH]; intros x b H; cbn in *; [reflexivity|].
  apply andb_true_iff in H. destruct H as [H1 H2]. apply orb_false_iff. split; [|eapply IH; exact H2].
  apply negb_true_iff in H1. rewrite mem_bytes_app in H1. apply orb_false_iff in H1. destruct H1 as [_ H1].
  cbn in H1. apply orb_false_iff in H1. destruct H1 as [H1 _].
  apply bytes_eqb_neq. apply bytes_eqb_neq in H1. congruence.
Qed.

Lemma replay_from : forall l acc, keys_unique (acc ++ l) = true ->
  fold_left (fun r rc => reg_insert r (fst rc) (snd rc)) l acc = acc ++ l.
Proof.
  induction l as [|[et sc] l IH]; intros acc H; cbn [fold_left fst snd]; [rewrite app_nil_r; reflexivity|].
  assert (Hn : aget acc et = None).
  { apply aget_of_not_mem. unfold keys_unique in H. rewrite map_app in H. cbn [map fst] in H.
    eapply uniq_bytes_mid. exact H. }
  rewrite (reg_insert_absent acc et sc Hn).
  rewrite IH; rewrite <- app_assoc; cbn [app]; [reflexivity|exact H].
Qed.

Theorem replay_unique : forall l, keys_unique l = true -> replay l = l.
Proof. intros l H. unfold replay. rewrite (replay_from l [] H). reflexivity. Qed.

(** the records on disk are exactly the registry in memory, and event types are unique *)
Definition ps_inv (ps : pstate) : Prop := ps_log ps = ps_reg ps /\ keys_unique (ps_reg ps) = true.

Lemma ps_inv_init : ps_inv ps_init.
Proof. split; reflexivity. Qed.

Lemma ps_inv_restart : forall ps, ps_inv ps -> restart_p ps = ps.
Proof.
  intros [r l] [E U]. cbn [ps_reg ps_log] in *. subst l. unfold restart_p. cbn [ps_reg ps_log]. rewrite (replay_unique r U). reflexivity.
Qed.

Lemma ps_inv_step : forall ps op, ps_inv ps -> ps_inv (step_p ps op).
Proof.
  intros ps op I. destruct op as [et cs|]; cbn [step_p].
  - destruct ps as [r l]. destruct I as [E U]. cbn [ps_reg ps_log] in E, U. subst l.
    unfold define_p, define. cbn [ps_reg ps_log].
    destruct (reg_get r et) eqn:Eg; [split; [reflexivity|exact U]|].
    destruct cs as [|c cs]; [split; [reflexivity|exact U]|]. cbn [fst]. split; [reflexivity|].
    cbn [ps_reg]. unfold keys_unique in *. rewrite map_app. cbn [map fst]. apply uniq_bytes_snoc; [exact U|].
    apply aget_none_not_mem. rewrite <- reg_get_aget. exact Eg.
  - rewrite (ps_inv_restart ps I). exact I.
Qed.

Lemma ps_inv_fold : forall ops ps, ps_inv ps -> ps_inv (fold_left step_p ops ps).
Proof. induction ops as [|op ops IH]; intros ps H; cbn [fold_left]; [exact H|]. apply IH. apply ps_inv_step. exact H. Qed.

Lemma ps_inv_run : forall ops, ps_inv (run_p ops).
Proof. intro ops. apply ps_inv_fold. apply ps_inv_init. Qed.

(** Replaying the file written by ANY history of DEFINEs and restarts yields the state the
    process had: registry (hence every STORE verdict) and file are unchanged by a restart. *)
Theorem restart_same_registry : forall ops,
  restart_p (run_p ops) = run_p ops /\
  (forall cmd, store_check (ps_reg (restart_p (run_p ops))) cmd = store_check (ps_reg (run_p ops)) cmd).
Proof.
  intro ops. pose proof (ps_inv_restart _ (ps_inv_run ops)) as R. split; [exact R|]. intro cmd. rewrite R. reflexivity.
Qed.

(** A DEFINE answered with an error leaves no trace: neither in memory nor in the file, so not
    after a restart either. *)
Theorem rejected_define_no_trace_p : forall ps et cs e,
  define (ps_reg ps) et cs = DefErr e ->
  fst (define_p ps et cs) = ps /\ snd (define_p ps et cs) = Some e /\
  restart_p (fst (define_p ps et cs)) = restart_p ps.
Proof.
  intros ps et cs e H. unfold define_p. rewrite H. cbn [fst snd]. repeat split; reflexivity.
Qed.

(** The first accepted schema of an event type stays in force through every later DEFINE
    (accepted or rejected) and every restart. *)
Theorem accepted_schema_survives : forall ops ops' et sc,
  reg_get (ps_reg (run_p ops)) et = Some sc ->
  reg_get (ps_reg (run_p (ops ++ ops'))) et = Some sc.
Proof.
  intros ops ops' et sc H. unfold run_p. rewrite fold_left_app. fold (run_p ops).
  pose proof (ps_inv_run ops) as I. revert I H. generalize (run_p ops) as ps.
  induction ops' as [|op ops' IH]; intros ps I H; cbn [fold_left]; [exact H|].
  apply IH; [apply ps_inv_step; exact I|].
  destruct op as [et' cs|]; cbn [step_p].
  - unfold define_p. pose proof (define_keeps_existing (ps_reg ps) et' cs et sc H) as K. unfold define_reg in K.
    destruct (define (ps_reg ps) et' cs); cbn [fst ps_reg]; exact K.
  - rewrite (ps_inv_restart ps I). exact H.
Qed.

Example restart_witness :
  let ops := [OpDefine w_t [(w_s, SPrim [105; 110; 116]%N)]; OpDefine w_t [(w_s, SPrim [115; 116; 114]%N)]; OpRestart] in
  reg_get (ps_reg (run_p ops)) w_t = Some [(w_s, FPrim TI64)] /\ length (ps_log (run_p ops)) = 1%nat.
Proof. vm_compute. split; reflexivity. Qed.
