(** C17 — top-level statements about the WHERE expression grammar. *)
From Coq Require Import NArith ZArith List Bool Lia.
From Snel Require Import Base.Bytes Model.Tokenizer Model.Parser Model.Printer
  Proofs.ParserBasics Proofs.ExprRoundTrip Proofs.FuelProofs.
Import ListNotations.
Open Scope N_scope.

(** the grammar on a suffix-free text: print, then parse, with the fuel of the entry point *)
Lemma parse_print_at : forall fx sp e rest, speller_ok sp -> wf_expr e = true -> ostop rest ->
  parse_expr_at fx (print_expr sp e ++ rest) = Ok (e, rest).
Proof.
  intros fx sp e rest Hsp Hw Hst. destruct (rt_expr fx sp Hsp e Hw) as [f0 R].
  unfold parse_expr_at. set (s := print_expr sp e ++ rest).
  pose proof (proj1 (expr_noof fx (expr_fuel s) s) ltac:(unfold expr_fuel; lia)) as Hn.
  pose proof (or_expr_mono fx (expr_fuel s) (Nat.max f0 (expr_fuel s)) s _ ltac:(lia) eq_refl Hn) as Hm.
  destruct (R (Nat.max f0 (expr_fuel s)) ltac:(lia) rest) as (Ho & _ & _).
  unfold s in *. unfold print_expr in *. rewrite (Ho Hst) in Hm. auto.
Qed.

Theorem parse_print_expr : forall fx sp e, speller_ok sp -> wf_expr e = true ->
  parse_expr fx (print_expr sp e) = Ok e.
Proof.
  intros fx sp e Hsp Hw. unfold parse_expr.
  pose proof (parse_print_at fx sp e [] Hsp Hw ostop_nil) as H. rewrite app_nil_r in H. rewrite H. auto.
Qed.

(** keywords are case-insensitive: any two letter-casings of the keywords parse to the same expression *)
Theorem keywords_ci : forall fx sp sp' e, speller_ok sp -> speller_ok sp' -> wf_expr e = true ->
  parse_expr fx (print_expr sp e) = parse_expr fx (print_expr sp' e).
Proof. intros. rewrite !parse_print_expr; auto. Qed.

Lemma speller_modes_ok : forall m, speller_ok (speller m).
Proof.
  intros m w. unfold speller. destruct (m =? 0); auto. destruct (m =? 1).
  - rewrite map_map. apply map_ext. intro c. unfold to_lower, to_upper.
    destruct ((65 <=? c) && (c <=? 90)) eqn:E.
    + replace ((97 <=? c + 32) && (c + 32 <=? 122)) with true by lia.
      replace ((97 <=? c) && (c <=? 122)) with false by lia. lia.
    + auto.
  - generalize false. induction w as [|c w IH]; intro bb; cbn [alternate map]; auto. rewrite IH. f_equal.
    destruct bb.
    + apply to_upper_idem.
    + unfold to_lower, to_upper. destruct ((65 <=? c) && (c <=? 90)) eqn:E.
      * replace ((97 <=? c + 32) && (c + 32 <=? 122)) with true by lia.
        replace ((97 <=? c) && (c <=? 122)) with false by lia. lia.
      * auto.
Qed.

(** * Precedence and associativity *)

Definition is_factor (e : expr) : bool := match e with EAnd _ _ | EOr _ _ => false | _ => true end.

Lemma factor_level_indep : forall sp e lvl, is_factor e = true -> print_expr_at sp lvl e = print_expr_at sp 2 e.
Proof. intros sp [f o v|f vs|x y|x y|x] lvl H; try discriminate; reflexivity. Qed.

Section Precedence.
Variable fx : bool.
Variable sp : bytes -> bytes.
Hypothesis Hsp : speller_ok sp.
Variables a b c : expr.
Hypothesis Ha : wf_expr a = true.
Hypothesis Hb : wf_expr b = true.
Hypothesis Hc : wf_expr c = true.
Hypothesis Fa : is_factor a = true.
Hypothesis Fb : is_factor b = true.
Hypothesis Fc : is_factor c = true.

Let A := print_expr_at sp 2 a.
Let B := print_expr_at sp 2 b.
Let C := print_expr_at sp 2 c.
Let AND := 32 :: sp K_AND ++ [32].
Let OR := 32 :: sp K_OR ++ [32].
Let NOT := sp K_NOT ++ [32].

Ltac by_print e :=
  match goal with |- parse_expr _ ?s = _ =>
    replace s with (print_expr sp e);
    [apply parse_print_expr; auto; cbn [wf_expr]; rewrite ?Ha, ?Hb, ?Hc; reflexivity
    |unfold print_expr; cbn [print_expr_at Nat.ltb Nat.leb];
     rewrite ?(factor_level_indep sp a 1 Fa), ?(factor_level_indep sp b 1 Fb), ?(factor_level_indep sp c 1 Fc),
             ?(factor_level_indep sp a 0 Fa), ?(factor_level_indep sp b 0 Fb), ?(factor_level_indep sp c 0 Fc);
     unfold A, B, C, AND, OR, NOT; repeat (rewrite <- app_assoc || rewrite <- app_comm_cons); cbn [app]; reflexivity]
  end.

(** AND binds tighter than OR, on either side *)
Lemma prec_or_and : parse_expr fx (A ++ OR ++ B ++ AND ++ C) = Ok (EOr a (EAnd b c)).
Proof. by_print (EOr a (EAnd b c)). Qed.
Lemma prec_and_or : parse_expr fx (A ++ AND ++ B ++ OR ++ C) = Ok (EOr (EAnd a b) c).
Proof. by_print (EOr (EAnd a b) c). Qed.
(** NOT binds tighter than AND and OR *)
Lemma prec_not_and : parse_expr fx (NOT ++ A ++ AND ++ B) = Ok (EAnd (ENot a) b).
Proof. by_print (EAnd (ENot a) b). Qed.
Lemma prec_not_or : parse_expr fx (NOT ++ A ++ OR ++ B) = Ok (EOr (ENot a) b).
Proof. by_print (EOr (ENot a) b). Qed.
(** parentheses override precedence *)
Lemma prec_paren_or : parse_expr fx (40 :: A ++ OR ++ B ++ 41 :: AND ++ C) = Ok (EAnd (EOr a b) c).
Proof. by_print (EAnd (EOr a b) c). Qed.
Lemma prec_not_paren : parse_expr fx (NOT ++ 40 :: A ++ AND ++ B ++ [41]) = Ok (ENot (EAnd a b)).
Proof. by_print (ENot (EAnd a b)). Qed.
(** AND and OR chains nest to the right *)
Lemma assoc_and : parse_expr fx (A ++ AND ++ B ++ AND ++ C) = Ok (EAnd a (EAnd b c)).
Proof. by_print (EAnd a (EAnd b c)). Qed.
Lemma assoc_or : parse_expr fx (A ++ OR ++ B ++ OR ++ C) = Ok (EOr a (EOr b c)).
Proof. by_print (EOr a (EOr b c)). Qed.
(** ... unless parenthesised to the left *)
Lemma assoc_and_left : parse_expr fx (40 :: A ++ AND ++ B ++ 41 :: AND ++ C) = Ok (EAnd (EAnd a b) c).
Proof. by_print (EAnd (EAnd a b) c). Qed.

Lemma precedence_all :
  parse_expr fx (A ++ OR ++ B ++ AND ++ C) = Ok (EOr a (EAnd b c)) /\
  parse_expr fx (A ++ AND ++ B ++ OR ++ C) = Ok (EOr (EAnd a b) c) /\
  parse_expr fx (NOT ++ A ++ AND ++ B) = Ok (EAnd (ENot a) b) /\
  parse_expr fx (NOT ++ A ++ OR ++ B) = Ok (EOr (ENot a) b) /\
  parse_expr fx (40 :: A ++ OR ++ B ++ 41 :: AND ++ C) = Ok (EAnd (EOr a b) c) /\
  parse_expr fx (NOT ++ 40 :: A ++ AND ++ B ++ [41]) = Ok (ENot (EAnd a b)) /\
  parse_expr fx (A ++ AND ++ B ++ AND ++ C) = Ok (EAnd a (EAnd b c)) /\
  parse_expr fx (A ++ OR ++ B ++ OR ++ C) = Ok (EOr a (EOr b c)) /\
  parse_expr fx (40 :: A ++ AND ++ B ++ 41 :: AND ++ C) = Ok (EAnd (EAnd a b) c).
Proof.
  repeat split; [apply prec_or_and|apply prec_and_or|apply prec_not_and|apply prec_not_or|apply prec_paren_or
                |apply prec_not_paren|apply assoc_and|apply assoc_or|apply assoc_and_left].
Qed.

End Precedence.

(** the hypotheses of the precedence statements are satisfiable *)
Example precedence_example :
  let a := ECmp [97] OpEq (VInt 1) in
  wf_expr a = true /\ is_factor a = true /\ speller_ok (fun w => w).
Proof. repeat split. Qed.

(** * Keyword-prefixed identifiers: the round trip fails outside [wf_expr] *)

(** [not_found = 1]: [not_found] is an identifier of the grammar, but [ci("NOT")] reads its
    leading letters as the keyword *)
Definition kw_prefixed_witness : expr :=
  ECmp [110; 111; 116; 95; 102; 111; 117; 110; 100] OpEq (VInt 1).

Lemma parse_print_expr_refuted :
  ident_syntax [110; 111; 116; 95; 102; 111; 117; 110; 100] = true /\
  parse_expr false (print_expr (fun w => w) kw_prefixed_witness)
  = Ok (ENot (ECmp [95; 102; 111; 117; 110; 100] OpEq (VInt 1))).
Proof. split; vm_compute; reflexivity. Qed.
