(** PLOT grammar (Model/PlotQL.v): every repetition consumes input, so the fuel suffices. *)
From Coq Require Import NArith ZArith List Bool Lia.
From Snel Require Import Base.Bytes Model.Tokenizer Model.Parser Model.PlotQL
  Proofs.ParserBasics Proofs.FuelProofs.
Import ListNotations.
Open Scope N_scope.

Lemma pid_tail_len : forall f s t r, pid_tail f s = (t, r) -> (length r <= length s)%nat.
Proof.
  induction f as [|f IH]; intros s t r H; cbn [pid_tail] in H.
  - inversion H; subst. auto.
  - destruct s as [|c s']; [inversion H; subst; auto|].
    destruct (c =? 45); [|inversion H; subst; auto].
    destruct (span is_pa s') as [a r'] eqn:S. apply span_length in S.
    destruct a as [|x a']; [inversion H; subst; auto|].
    destruct (pid_tail f r') as [t' r''] eqn:T. inversion H; subst. apply IH in T. cbn [length] in *. lia.
Qed.

Lemma p_ident_len : forall s a r, p_ident s = Some (a, r) -> (length r < length s)%nat.
Proof.
  intros s a r H. unfold p_ident in H. destruct s as [|c s']; [discriminate|].
  destruct (is_ident_start c); [|discriminate].
  destruct (span is_pa s') as [x r1] eqn:S. apply span_length in S.
  destruct (pid_tail (length r1) r1) as [t r2] eqn:T. apply pid_tail_len in T.
  inversion H; subst. cbn [length]. lia.
Qed.

Lemma p_field_len : forall s a r, p_field s = Some (a, r) -> (length r < length s)%nat.
Proof.
  intros s a r E. unfold p_field in E. destruct (p_ident s) as [[i r0]|] eqn:E0; [|discriminate].
  apply p_ident_len in E0. destruct r0 as [|c r1]; [inversion E; subst; auto|].
  destruct (c =? 46).
  - destruct (p_ident r1) as [[j r2]|] eqn:E1; inversion E; subst; auto.
    apply p_ident_len in E1. cbn [length] in *. lia.
  - inversion E; subst; auto.
Qed.

Lemma p_identp_c : consumes p_identp. Proof. apply lift_consumes, p_ident_len. Qed.
Lemma p_fieldp_c : consumes p_fieldp. Proof. apply lift_consumes, p_field_len. Qed.
Lemma p_identp_n : noof p_identp. Proof. apply lift_noof. Qed.
Lemma p_fieldp_n : noof p_fieldp. Proof. apply lift_noof. Qed.
#[global] Hint Resolve p_identp_c p_fieldp_c p_identp_n p_fieldp_n : pc.

Lemma p_value_c : consumes p_value.
Proof.
  unfold p_value. apply alt_consumes; [|apply alt_consumes].
  - intros s a r E. destruct (string_lit s) as [[x y]|] eqn:E0; try discriminate. inversion E; subst.
    eapply string_lit_len; eauto.
  - apply number_consumes.
  - intros s a r E. destruct (p_ident s) as [[x y]|] eqn:E0; try discriminate. inversion E; subst.
    eapply p_ident_len; eauto.
Qed.
Lemma p_value_n : noof p_value.
Proof.
  unfold p_value. apply alt_noof; [|apply alt_noof].
  - intros s. destruct (string_lit s) as [[x y]|]; discriminate.
  - apply number_noof.
  - intros s. destruct (p_ident s) as [[x y]|]; discriminate.
Qed.
#[global] Hint Resolve p_value_c p_value_n : pc.

Lemma sep_many_n : forall A (p : P A), consumes p -> noof p ->
  noof (fun s => many (S (length s)) (fun s1 => match comma_sep s1 with Some s2 => p s2 | None => Err end) s).
Proof.
  intros A p Hc Hn. apply (many_self_noof _ (sepstep p comma_sep)).
  - apply sepstep_consumes; auto with pc.
  - apply sepstep_noof; auto.
Qed.
Lemma sep_many_s : forall A (p : P A), consumes p ->
  shrinks (fun s => many (S (length s)) (fun s1 => match comma_sep s1 with Some s2 => p s2 | None => Err end) s).
Proof.
  intros A p Hc s l r E. eapply (many_shrinks _ (sepstep p comma_sep)); eauto.
  apply consumes_shrinks, sepstep_consumes; auto with pc.
Qed.

Lemma p_value_list_s : shrinks p_value_list.
Proof.
  unfold p_value_list. apply bind_shrinks; auto with pc. intros v. apply bind_shrinks; auto with pc.
  apply sep_many_s; auto with pc.
Qed.
Lemma p_value_list_n : noof p_value_list.
Proof.
  unfold p_value_list. apply bind_noof; auto with pc. intros v. apply bind_noof; auto with pc.
  apply sep_many_n; auto with pc.
Qed.
#[global] Hint Resolve p_value_list_s p_value_list_n : pc.

Lemma p_exists_args_c : forall v, consumes (p_exists_args v).
Proof. intro v. unfold p_exists_args. apply bind_consumes_l; [apply kw_consumes|auto 40 with pc]. Qed.
Lemma p_leaf_c : consumes p_leaf.
Proof.
  unfold p_leaf. apply alt_consumes; [|apply alt_consumes].
  - unfold p_comparison. apply bind_consumes_l; auto 30 with pc.
  - unfold p_in_expr. apply bind_consumes_l; auto 40 with pc.
  - unfold p_exists_expr. apply alt_consumes; [|apply p_exists_args_c].
    apply bind_consumes_l; [apply kw_consumes|]. intros _. apply bind_shrinks; auto with pc.
    intros _. apply consumes_shrinks, p_exists_args_c.
Qed.
Lemma p_leaf_n : noof p_leaf.
Proof.
  unfold p_leaf, p_comparison, p_in_expr, p_exists_expr, p_exists_args. repeat apply alt_noof; auto 60 with pc.
Qed.

Lemma p_expression_n : noof p_expression.
Proof.
  intro s. unfold p_expression, expr_fuel. apply (proj1 (expr_noof_g p_leaf p_leaf_c p_leaf_n _ s)). lia.
Qed.
Lemma p_expression_c : consumes p_expression.
Proof. intros s a r E. unfold p_expression in E. eapply (proj1 (expr_consumes_g p_leaf p_leaf_c _)); eauto. Qed.
#[global] Hint Resolve p_expression_n p_expression_c : pc.

Lemma paren_field_s : shrinks paren_field. Proof. unfold paren_field. auto 40 with pc. Qed.
Lemma paren_field_n : noof paren_field. Proof. unfold paren_field. auto 40 with pc. Qed.
#[global] Hint Resolve paren_field_s paren_field_n : pc.

Lemma agg_func_c : consumes agg_func.
Proof. unfold agg_func. repeat apply alt_consumes; (apply bind_consumes_l; [apply kw_consumes|auto with pc]). Qed.
Lemma agg_func_n : noof agg_func. Proof. unfold agg_func. repeat apply alt_noof; auto 20 with pc. Qed.
#[global] Hint Resolve agg_func_c agg_func_n : pc.

Lemma metric_expr_c : consumes metric_expr.
Proof.
  unfold metric_expr. repeat apply alt_consumes.
  - apply bind_consumes_l; auto 20 with pc.
  - apply bind_consumes_l; [apply kw_consumes|auto 20 with pc].
  - apply bind_consumes_l; [apply kw_consumes|auto 20 with pc].
  - apply bind_consumes_l; [apply kw_consumes|auto 20 with pc].
Qed.
Lemma metric_expr_n : noof metric_expr. Proof. unfold metric_expr. repeat apply alt_noof; auto 30 with pc. Qed.
#[global] Hint Resolve metric_expr_c metric_expr_n : pc.

Lemma seq_sep_c : consumes seq_sep.
Proof.
  unfold seq_sep. apply alt_consumes; [|apply kw_consumes].
  intros s a r E. destruct s as [|x [|y r']]; try discriminate.
  destruct ((x =? 45) && (y =? 62)); inversion E; subst. cbn. lia.
Qed.
Lemma seq_sep_n : noof seq_sep.
Proof.
  unfold seq_sep. apply alt_noof; [|apply kw_noof].
  intros s. destruct s as [|x [|y r']]; try discriminate. destruct ((x =? 45) && (y =? 62)); discriminate.
Qed.
#[global] Hint Resolve seq_sep_c seq_sep_n : pc.

Lemma p_events_s : shrinks p_events.
Proof.
  unfold p_events. apply bind_shrinks; auto with pc. intros h. apply bind_shrinks; auto with pc.
  intros s l r E. eapply many_shrinks; eauto. auto 30 with pc.
Qed.
Lemma p_events_n : noof p_events.
Proof.
  unfold p_events. apply bind_noof; auto with pc. intros h. apply bind_noof; auto with pc.
  apply many_self_noof; [|auto 30 with pc].
  apply bind_consumes_r; auto with pc. intros _. apply bind_consumes_l; auto 20 with pc.
Qed.
#[global] Hint Resolve p_events_s p_events_n : pc.

Lemma p_integer_c : consumes p_integer.
Proof.
  intros s a r E. unfold p_integer in E. destruct (integer s) as [[[neg d] r0]|] eqn:I; [|discriminate].
  apply integer_len in I. destruct neg.
  - destruct (_ =? 0); inversion E; subst; auto.
  - destruct (_ <=? _); inversion E; subst; auto.
Qed.
Lemma p_integer_n : noof p_integer.
Proof.
  intros s. unfold p_integer. destruct (integer s) as [[[neg d] r0]|]; [|discriminate].
  destruct neg; [destruct (_ =? 0)|destruct (_ <=? _)]; discriminate.
Qed.
#[global] Hint Resolve p_integer_c p_integer_n : pc.

Lemma p_field_list_s : shrinks p_field_list.
Proof.
  unfold p_field_list. apply bind_shrinks; auto with pc. intros f. apply bind_shrinks; auto with pc.
  apply sep_many_s; auto with pc.
Qed.
Lemma p_field_list_n : noof p_field_list.
Proof.
  unfold p_field_list. apply bind_noof; auto with pc. intros f. apply bind_noof; auto with pc.
  apply sep_many_n; auto with pc.
Qed.
#[global] Hint Resolve p_field_list_s p_field_list_n : pc.

Lemma granularity_sh : shrinks granularity. Proof. unfold granularity. auto 30 with pc. Qed.
Lemma granularity_no : noof granularity. Proof. unfold granularity. auto 40 with pc. Qed.
#[global] Hint Resolve granularity_sh granularity_no : pc.

Lemma top_by_target_s : shrinks top_by_target. Proof. unfold top_by_target. auto 20 with pc. Qed.
Lemma top_by_target_n : noof top_by_target. Proof. unfold top_by_target. auto 20 with pc. Qed.
#[global] Hint Resolve top_by_target_s top_by_target_n : pc.

Lemma clause_before_c : consumes clause_before_vs.
Proof.
  unfold clause_before_vs, filter_clause, top_clause. apply alt_consumes; (apply bind_consumes_l; [apply kw_consumes|auto 40 with pc]).
Qed.
Lemma clause_before_n : noof clause_before_vs.
Proof. unfold clause_before_vs, filter_clause, top_clause. auto 60 with pc. Qed.
Lemma clause_after_c : consumes clause_after_vs.
Proof.
  unfold clause_after_vs, breakdown_clause, ptime_clause, top_clause.
  repeat apply alt_consumes; (apply bind_consumes_l; [apply kw_consumes|auto 40 with pc]).
Qed.
Lemma clause_after_n : noof clause_after_vs.
Proof. unfold clause_after_vs, breakdown_clause, ptime_clause, top_clause. repeat apply alt_noof; auto 60 with pc. Qed.

Lemma clauses_of_s : forall p, consumes p -> shrinks (clauses_of p).
Proof.
  intros p Hp s l r E. unfold clauses_of in E. eapply many_shrinks; eauto.
  apply bind_shrinks; auto with pc.
Qed.
Lemma clauses_of_n : forall p, consumes p -> noof p -> noof (clauses_of p).
Proof.
  intros p Hc Hn. unfold clauses_of. apply many_self_noof.
  - apply bind_consumes_r; auto with pc.
  - apply bind_noof; auto with pc.
Qed.

Lemma metric_of_events_c : consumes metric_of_events.
Proof.
  unfold metric_of_events. apply bind_consumes_l; auto with pc. intros m.
  apply bind_shrinks; auto with pc. intros _. apply bind_shrinks; auto with pc. intros _.
  apply bind_shrinks; auto with pc. intros _. apply bind_shrinks; auto with pc. intros ev.
  apply bind_shrinks; [apply clauses_of_s, clause_before_c|auto with pc].
Qed.
Lemma metric_of_events_n : noof metric_of_events.
Proof.
  unfold metric_of_events. apply bind_noof; auto with pc. intros m.
  apply bind_noof; auto with pc. intros _. apply bind_noof; auto with pc. intros _.
  apply bind_noof; auto with pc. intros _. apply bind_noof; auto with pc. intros ev.
  apply bind_noof; [apply clauses_of_n; [apply clause_before_c|apply clause_before_n]|auto with pc].
Qed.

Lemma plot_rule_n : noof plot_rule.
Proof.
  unfold plot_rule.
  apply bind_noof; auto with pc. intros _. apply bind_noof; auto with pc. intros _.
  apply bind_noof; auto with pc. intros _. apply bind_noof; [apply metric_of_events_n|]. intros main.
  apply bind_noof.
  - apply many_self_noof.
    + apply bind_consumes_r; auto with pc. intros _. apply bind_consumes_l; auto with pc. intros _.
      apply bind_shrinks; auto with pc. intros _. apply consumes_shrinks, metric_of_events_c.
    + apply bind_noof; auto with pc. intros _. apply bind_noof; auto with pc. intros _.
      apply bind_noof; auto with pc. intros _. apply metric_of_events_n.
  - intros sides. apply bind_noof; [apply clauses_of_n; [apply clause_after_c|apply clause_after_n]|].
    intros after. auto 20 with pc.
Qed.

Lemma parse_plot_noof : forall s, parse_plot s <> OOF.
Proof.
  intro s. unfold parse_plot. pose proof (plot_rule_n s) as H.
  destruct (plot_rule s) as [[[[m sd] af] r]| | |]; try discriminate; [|congruence].
  destruct (forallb _ sd); [|discriminate]. destruct sd; discriminate.
Qed.
