(** Generic theory of the list machinery of Model/Order.v: total preorders given
    by three-valued comparators, sorted permutations, the heap-driven k-way merge,
    the merger loop, and the top-k-of-parts theorem. *)
From Coq Require Import ZArith NArith List Bool Lia Permutation Sorting.Sorted.
From Coq Require Import ZifyBool ZifyNat ZifyN.
From Snel Require Import Base.Bytes Model.Order.
Import ListNotations.

(** * takeN / dropN *)
Section TakeDrop.
  Context {A : Type}.

  Lemma takeN_firstn : forall (l : list A) n, takeN n l = firstn (N.to_nat n) l.
  Proof.
    induction l as [|x r IH]; intros n; cbn [takeN].
    - now rewrite firstn_nil.
    - destruct (N.eqb_spec n 0) as [->|Hn]; [reflexivity|].
      replace (N.to_nat n) with (S (N.to_nat (N.pred n))) by lia.
      cbn [firstn]. now rewrite IH.
  Qed.

  Lemma dropN_skipn : forall (l : list A) n, dropN n l = skipn (N.to_nat n) l.
  Proof.
    induction l as [|x r IH]; intros n; cbn [dropN].
    - now rewrite skipn_nil.
    - destruct (N.eqb_spec n 0) as [->|Hn]; [reflexivity|].
      replace (N.to_nat n) with (S (N.to_nat (N.pred n))) by lia.
      cbn [skipn]. now rewrite IH.
  Qed.

  Lemma dropN_0 : forall l : list A, dropN 0 l = l.
  Proof. now destruct l. Qed.

  Lemma takeN_0 : forall l : list A, takeN 0 l = [].
  Proof. now destruct l. Qed.

  Lemma slice_firstn_skipn : forall (l : list A) m n,
    slice m n l = skipn (N.to_nat m) (firstn (N.to_nat (m + n)) l).
  Proof.
    intros l m n. unfold slice. rewrite takeN_firstn, dropN_skipn.
    replace (N.to_nat (m + n)) with (N.to_nat m + N.to_nat n)%nat by lia.
    now rewrite firstn_skipn_comm.
  Qed.

  Lemma takeN_length : forall (l : list A) n,
    N.of_nat (length (takeN n l)) = N.min n (N.of_nat (length l)).
  Proof. intros l n. rewrite takeN_firstn, firstn_length. lia. Qed.

  Lemma dropN_length : forall (l : list A) n,
    N.of_nat (length (dropN n l)) = (N.of_nat (length l) - n)%N.
  Proof. intros l n. rewrite dropN_skipn, skipn_length. lia. Qed.

  Lemma slice_length : forall (l : list A) m n,
    N.of_nat (length (slice m n l)) = N.min n (N.of_nat (length l) - m)%N.
  Proof. intros. unfold slice. now rewrite takeN_length, dropN_length. Qed.
End TakeDrop.

(** * Total preorders given by a comparator *)
Section Preorder.
  Context {A : Type}.
  Variable cmp : A -> A -> comparison.

  Definition cle (a b : A) : Prop := cmp a b <> Gt.
  Definition ceq (a b : A) : Prop := cmp a b = Eq.

  Record total_preorder : Prop := {
    tp_sym : forall a b, cmp b a = CompOpp (cmp a b);
    tp_trans : forall a b c, cle a b -> cle b c -> cle a c
  }.

  Hypothesis TP : total_preorder.

  Lemma cmp_refl : forall a, cmp a a = Eq.
  Proof. intros a. pose proof (tp_sym TP a a) as H. destruct (cmp a a); cbn in H; congruence. Qed.

  Lemma cle_refl : forall a, cle a a.
  Proof. intros a. unfold cle. now rewrite cmp_refl. Qed.

  Lemma cle_total : forall a b, cle a b \/ cle b a.
  Proof.
    intros a b. unfold cle. rewrite (tp_sym TP a b). destruct (cmp a b); cbn; intuition congruence.
  Qed.

  Lemma cle_antisym : forall a b, cle a b -> cle b a -> ceq a b.
  Proof.
    intros a b. unfold cle, ceq. rewrite (tp_sym TP a b). destruct (cmp a b); cbn; intuition congruence.
  Qed.

  Lemma ceq_cle : forall a b, ceq a b -> cle a b /\ cle b a.
  Proof.
    intros a b. unfold cle, ceq. rewrite (tp_sym TP a b). intros ->. cbn. split; congruence.
  Qed.

  Lemma ceq_refl : forall a, ceq a a.
  Proof. exact cmp_refl. Qed.

  Lemma ceq_sym : forall a b, ceq a b -> ceq b a.
  Proof. intros a b H. apply ceq_cle in H. apply cle_antisym; tauto. Qed.

  Lemma ceq_trans : forall a b c, ceq a b -> ceq b c -> ceq a c.
  Proof.
    intros a b c H1 H2. apply ceq_cle in H1. apply ceq_cle in H2.
    apply cle_antisym; eapply (tp_trans TP); intuition eauto.
  Qed.

  Lemma not_cle_lt : forall a b, ~ cle a b -> cle b a.
  Proof. intros a b H. destruct (cle_total a b); tauto. Qed.

  (** pointwise equivalence of lists *)
  Lemma Forall2_ceq_refl : forall l, Forall2 ceq l l.
  Proof. induction l; constructor; auto using ceq_refl. Qed.

  Lemma Forall2_ceq_trans : forall l1 l2 l3,
    Forall2 ceq l1 l2 -> Forall2 ceq l2 l3 -> Forall2 ceq l1 l3.
  Proof.
    intros l1 l2 l3 H. revert l3. induction H; intros l3 H3; inversion H3; subst; constructor.
    - eapply ceq_trans; eauto.
    - auto.
  Qed.

  Lemma Forall2_firstn : forall (R : A -> A -> Prop) n l1 l2,
    Forall2 R l1 l2 -> Forall2 R (firstn n l1) (firstn n l2).
  Proof.
    intros R n. induction n; intros l1 l2 H; cbn; [constructor|].
    inversion H; subst; constructor; auto.
  Qed.

  Lemma Forall2_skipn : forall (R : A -> A -> Prop) n l1 l2,
    Forall2 R l1 l2 -> Forall2 R (skipn n l1) (skipn n l2).
  Proof.
    intros R n. induction n; intros l1 l2 H; cbn; [assumption|].
    inversion H; subst; [constructor|auto].
  Qed.

  (** ** Sorted lists *)
  Definition sorted (l : list A) : Prop := StronglySorted cle l.

  Lemma sorted_tl : forall x l, sorted (x :: l) -> sorted l.
  Proof. intros x l H. now inversion H. Qed.

  Lemma sorted_app_inv : forall l1 l2, sorted (l1 ++ l2) -> sorted l1 /\ sorted l2 /\
    (forall a b, In a l1 -> In b l2 -> cle a b).
  Proof.
    induction l1 as [|x l1 IH]; intros l2 H; cbn in *.
    - repeat split; [constructor|assumption|contradiction].
    - inversion H as [|? ? Hs Hf]; subst. destruct (IH _ Hs) as (S1 & S2 & S3).
      rewrite Forall_app in Hf. destruct Hf as [F1 F2].
      repeat split; [constructor; assumption|assumption|].
      intros a b [->|Ha] Hb; [rewrite Forall_forall in F2; auto|auto].
  Qed.

  Lemma sorted_remove_middle : forall l1 x l2, sorted (l1 ++ x :: l2) -> sorted (l1 ++ l2).
  Proof.
    induction l1 as [|y l1 IH]; intros x l2 H; cbn in *.
    - now inversion H.
    - inversion H as [|? ? Hs Hf]; subst. constructor; [eapply IH; exact Hs|].
      apply Forall_app in Hf. destruct Hf as [F1 F2]. apply Forall_app.
      split; [assumption|now inversion F2].
  Qed.

  (** moving an element across a run of equivalent elements keeps lists pointwise equivalent *)
  Lemma rotate_equiv : forall w a a' v,
    Forall (ceq a) w -> ceq a a' -> Forall2 ceq (a :: w ++ v) (w ++ a' :: v).
  Proof.
    induction w as [|c w IH]; intros a a' v Hw Ha; cbn.
    - constructor; [assumption|apply Forall2_ceq_refl].
    - inversion Hw as [|? ? Hc Hw']; subst. constructor; [assumption|].
      apply IH.
      + rewrite Forall_forall in *. intros y Hy. eapply ceq_trans; [apply ceq_sym; eassumption|auto].
      + eapply ceq_trans; [apply ceq_sym; eassumption|assumption].
  Qed.

  (** Two sorted permutations of the same list agree position by position up to
      the equivalence of the preorder. *)
  Lemma sorted_perm_equiv : forall l1 l2,
    sorted l1 -> sorted l2 -> Permutation l1 l2 -> Forall2 ceq l1 l2.
  Proof.
    intros l1. remember (length l1) as n eqn:Hn. revert l1 Hn.
    induction n as [|n IH]; intros l1 Hn l2 S1 S2 P.
    - destruct l1; [|discriminate]. apply Permutation_nil in P. subst. constructor.
    - destruct l1 as [|a l1']; [discriminate|]. injection Hn as Hn.
      destruct l2 as [|b l2']; [apply Permutation_sym, Permutation_nil in P; discriminate|].
      assert (Ha : In a (b :: l2')) by (eapply Permutation_in; [exact P|now left]).
      assert (Hb : In b (a :: l1')) by (eapply Permutation_in; [apply Permutation_sym; exact P|now left]).
      inversion S1 as [|? ? S1' F1]; subst. inversion S2 as [|? ? S2' F2]; subst.
      rewrite Forall_forall in F1, F2.
      assert (Hab : ceq a b).
      { apply cle_antisym.
        - destruct Hb as [->|Hb]; [apply cle_refl|auto].
        - destruct Ha as [->|Ha]; [apply cle_refl|auto]. }
      destruct Ha as [Ha|Ha].
      + subst b. apply Permutation_cons_inv in P. constructor; [assumption|].
        apply IH; auto.
      + apply in_split in Ha. destruct Ha as (u & v & ->).
        assert (P' : Permutation l1' (b :: u ++ v)).
        { apply Permutation_cons_inv with (a := a).
          eapply Permutation_trans; [exact P|].
          apply Permutation_sym. exact (Permutation_middle (b :: u) v a). }
        assert (S3 : sorted (b :: u ++ v)).
        { change (b :: u ++ v) with ((b :: u) ++ v).
          apply sorted_remove_middle with (x := a). exact S2. }
        assert (E1 : Forall2 ceq l1' (b :: u ++ v)) by (apply IH; auto).
        apply Forall2_ceq_trans with (l2 := a :: b :: u ++ v).
        * constructor; [apply ceq_refl|assumption].
        * change (b :: u ++ a :: v) with ((b :: u) ++ a :: v).
          change (a :: b :: u ++ v) with (a :: (b :: u) ++ v).
          apply rotate_equiv; [|apply ceq_refl].
          constructor; [assumption|].
          apply Forall_forall. intros y Hy.
          apply sorted_app_inv in S2'. destruct S2' as (_ & _ & S4).
          apply cle_antisym.
          -- apply (tp_trans TP) with (b := b); [apply ceq_cle in Hab; tauto|].
             apply F2. apply in_or_app. now left.
          -- apply S4; [assumption|now left].
  Qed.

  (** ** Insertion sort *)
  Lemma insert_by_perm : forall x l, Permutation (insert_by cmp x l) (x :: l).
  Proof.
    induction l as [|y r IH]; cbn; [reflexivity|].
    destruct (cmp x y); try reflexivity.
    eapply Permutation_trans; [apply perm_skip, IH|apply perm_swap].
  Qed.

  Lemma insert_by_sorted : forall x l, sorted l -> sorted (insert_by cmp x l).
  Proof.
    induction l as [|y r IH]; intros S; cbn.
    - repeat constructor.
    - inversion S as [|? ? S' F]; subst.
      assert (Hle : cmp x y <> Gt -> sorted (x :: y :: r)).
      { intros E. constructor; [assumption|]. constructor; [exact E|].
        apply Forall_forall. intros z Hz. rewrite Forall_forall in F.
        apply (tp_trans TP) with (b := y); [exact E|auto]. }
      destruct (cmp x y) eqn:E.
      + apply Hle. congruence.
      + apply Hle. congruence.
      + constructor; [apply IH; exact S'|].
        assert (Hyx : cle y x).
        { unfold cle. rewrite (tp_sym TP x y), E. cbn. congruence. }
        apply Forall_forall. intros z Hz. rewrite Forall_forall in F.
        eapply Permutation_in in Hz; [|apply insert_by_perm].
        destruct Hz as [<-|Hz]; auto.
  Qed.

  Lemma sort_by_perm : forall l, Permutation (sort_by cmp l) l.
  Proof.
    induction l as [|x r IH]; cbn; [reflexivity|].
    eapply Permutation_trans; [apply insert_by_perm|now apply perm_skip].
  Qed.

  Lemma sort_by_sorted : forall l, sorted (sort_by cmp l).
  Proof. induction l; cbn; [constructor|now apply insert_by_sorted]. Qed.
End Preorder.

Arguments total_preorder {A} cmp.
Arguments cle {A} cmp a b.
Arguments ceq {A} cmp a b.
Arguments sorted {A} cmp l.

Lemma Forall2_imp : forall {A B} (R S : A -> B -> Prop) l1 l2,
  (forall a b, R a b -> S a b) -> Forall2 R l1 l2 -> Forall2 S l1 l2.
Proof. intros A B R S l1 l2 H F. induction F; constructor; auto. Qed.

(** * Derived facts about comparators *)
Section CmpFacts.
  Context {A : Type}.
  Variable cmp : A -> A -> comparison.
  Hypothesis TP : total_preorder cmp.

  Lemma cmp_lt_le_trans : forall a b c, cmp a b = Lt -> cle cmp b c -> cmp a c = Lt.
  Proof.
    intros a b c Hab Hbc. destruct (cmp a c) eqn:E; [| reflexivity |]; exfalso.
    - assert (Hca : cle cmp c a) by (unfold cle; rewrite (tp_sym _ TP a c), E; cbn; congruence).
      pose proof (tp_trans _ TP b c a Hbc Hca) as Hba. unfold cle in Hba.
      rewrite (tp_sym _ TP a b), Hab in Hba. cbn in Hba. congruence.
    - assert (Hca : cle cmp c a) by (unfold cle; rewrite (tp_sym _ TP a c), E; cbn; congruence).
      pose proof (tp_trans _ TP b c a Hbc Hca) as Hba. unfold cle in Hba.
      rewrite (tp_sym _ TP a b), Hab in Hba. cbn in Hba. congruence.
  Qed.

  Lemma cmp_le_lt_trans : forall a b c, cle cmp a b -> cmp b c = Lt -> cmp a c = Lt.
  Proof.
    intros a b c Hab Hbc. destruct (cmp a c) eqn:E; [| reflexivity |]; exfalso.
    - assert (Hca : cle cmp c a) by (unfold cle; rewrite (tp_sym _ TP a c), E; cbn; congruence).
      pose proof (tp_trans _ TP c a b Hca Hab) as Hcb. unfold cle in Hcb.
      rewrite (tp_sym _ TP b c), Hbc in Hcb. cbn in Hcb. congruence.
    - assert (Hca : cle cmp c a) by (unfold cle; rewrite (tp_sym _ TP a c), E; cbn; congruence).
      pose proof (tp_trans _ TP c a b Hca Hab) as Hcb. unfold cle in Hcb.
      rewrite (tp_sym _ TP b c), Hbc in Hcb. cbn in Hcb. congruence.
  Qed.

  (** reversing a total preorder gives a total preorder *)
  Lemma flip_tp : total_preorder (fun a b => CompOpp (cmp a b)).
  Proof.
    split.
    - intros a b. now rewrite (tp_sym _ TP a b).
    - intros a b c Hab Hbc. unfold cle in *.
      assert (H1 : cle cmp b a).
      { unfold cle. rewrite (tp_sym _ TP a b). destruct (cmp a b); cbn in *; congruence. }
      assert (H2 : cle cmp c b).
      { unfold cle. rewrite (tp_sym _ TP b c). destruct (cmp b c); cbn in *; congruence. }
      pose proof (tp_trans _ TP c b a H2 H1) as H3. unfold cle in H3.
      rewrite (tp_sym _ TP a c) in H3. destruct (cmp a c); cbn in *; congruence.
  Qed.

  Lemma dir_cmp_tp : forall asc, total_preorder (dir_cmp cmp asc).
  Proof. intros [|]; unfold dir_cmp; [exact TP|exact flip_tp]. Qed.

  (** the heap's item order is a total preorder on (stream index, key) *)
  Definition item_ord (x y : nat * A) : comparison :=
    match cmp (snd x) (snd y) with
    | Eq => Nat.compare (fst y) (fst x)
    | c => c
    end.

  Lemma item_ord_tp : total_preorder item_ord.
  Proof.
    split.
    - intros [i a] [j b]. unfold item_ord. cbn [fst snd].
      rewrite (tp_sym _ TP a b). destruct (cmp a b); cbn; try reflexivity.
      apply Nat.compare_antisym.
    - intros [i a] [j b] [k c]. unfold cle, item_ord. cbn [fst snd]. intros H1 H2.
      destruct (cmp a b) eqn:Eab; [| |congruence];
      destruct (cmp b c) eqn:Ebc; try congruence.
      + assert (Eac : cmp a c = Eq) by (eapply (ceq_trans cmp TP); eassumption).
        rewrite Eac. destruct (Nat.compare_spec j i), (Nat.compare_spec k j), (Nat.compare_spec k i);
          try congruence; lia.
      + assert (Eac : cmp a c = Lt).
        { apply cmp_le_lt_trans with (b := b); [unfold cle; congruence|assumption]. }
        rewrite Eac. congruence.
      + assert (Eac : cmp a c = Lt).
        { apply cmp_lt_le_trans with (b := b); [assumption|unfold cle; congruence]. }
        rewrite Eac. congruence.
      + assert (Eac : cmp a c = Lt).
        { apply cmp_lt_le_trans with (b := b); [assumption|unfold cle; congruence]. }
        rewrite Eac. congruence.
  Qed.
End CmpFacts.

Lemma heap_item_cmp_tp : forall {A} (cmp : A -> A -> comparison) asc,
  total_preorder cmp -> total_preorder (heap_item_cmp cmp asc).
Proof.
  intros A cmp asc TP.
  pose proof (item_ord_tp cmp TP) as T.
  destruct asc.
  - pose proof (flip_tp _ T) as F. destruct F as [F1 F2]. split.
    + intros x y. exact (F1 x y).
    + intros x y z. exact (F2 x y z).
  - destruct T as [F1 F2]. split.
    + intros x y. exact (F1 x y).
    + intros x y z. exact (F2 x y z).
Qed.

(** * The heap-driven k-way merge *)
Section Merge.
  Context {A : Type}.
  Variable cmp : A -> A -> comparison.
  Hypothesis TP : total_preorder cmp.
  Variable asc : bool.

  Let hcmp := heap_item_cmp cmp asc.
  Let before := heap_before cmp asc.
  Let dcmp := dir_cmp cmp asc.

  Lemma hcmp_tp : total_preorder hcmp.
  Proof. apply heap_item_cmp_tp, TP. Qed.

  Lemma dcmp_tp : total_preorder dcmp.
  Proof. apply dir_cmp_tp, TP. Qed.

  Lemma before_spec : forall x y, before x y = true <-> hcmp x y = Gt.
  Proof.
    intros x y. unfold before, heap_before, hcmp. destruct (heap_item_cmp cmp asc x y); split; congruence.
  Qed.

  (** an item that is not popped before [r] has a key that is not smaller in the
      requested direction *)
  Lemma hle_dle : forall x r, cle hcmp x r -> cle dcmp (snd r) (snd x).
  Proof.
    intros [i a] [j b]. unfold cle, hcmp, heap_item_cmp, dcmp, dir_cmp. cbn [fst snd].
    rewrite (tp_sym _ TP a b). destruct asc; destruct (cmp a b); cbn; try congruence.
  Qed.

  (** ** [pick] returns the greatest head *)
  Definition head_at (ss : list (list A)) (k : nat) (y : A) : Prop :=
    exists t, nth_error ss k = Some (y :: t).

  Lemma pick_spec : forall ss i best r,
    pick before i ss best = Some r ->
    (best = Some r \/ exists k, head_at ss k (snd r) /\ fst r = (i + k)%nat)
    /\ (forall b, best = Some b -> cle hcmp b r)
    /\ (forall k y, head_at ss k y -> cle hcmp ((i + k)%nat, y) r).
  Proof.
    induction ss as [|s ss IH]; intros i best r H; cbn [pick] in H.
    - subst best. repeat split.
      + now left.
      + intros b [= ->]. apply (cle_refl _ hcmp_tp).
      + intros k y [t Ht]. destruct k; discriminate.
    - destruct s as [|x s'].
      + specialize (IH _ _ _ H). destruct IH as (I1 & I2 & I3). repeat split.
        * destruct I1 as [I1|(k & (t & Hk) & Hf)]; [now left|right].
          exists (S k). split; [exists t; exact Hk|lia].
        * exact I2.
        * intros k y [t Ht]. destruct k as [|k]; [discriminate|].
          replace (i + S k)%nat with (S i + k)%nat by lia. apply I3. exists t. exact Ht.
      + set (best' := match best with
                      | None => Some (i, x)
                      | Some b => if before (i, x) b then Some (i, x) else best
                      end) in H.
        specialize (IH _ _ _ H). destruct IH as (I1 & I2 & I3).
        assert (Hx : cle hcmp (i, x) r).
        { destruct best as [b|]; cbn in best'.
          - destruct (before (i, x) b) eqn:Eb; subst best'.
            + apply I2. reflexivity.
            + apply (tp_trans _ hcmp_tp) with (b := b); [|apply I2; reflexivity].
              unfold cle. intros Hgt. apply before_spec in Hgt. congruence.
          - apply I2. reflexivity. }
        assert (Hb : forall b, best = Some b -> cle hcmp b r).
        { intros b ->. cbn in best'. destruct (before (i, x) b) eqn:Eb; subst best'.
          - apply (tp_trans _ hcmp_tp) with (b := (i, x)); [|apply I2; reflexivity].
            apply before_spec in Eb. unfold cle. rewrite (tp_sym _ hcmp_tp (i, x) b), Eb. cbn. congruence.
          - apply I2. reflexivity. }
        repeat split.
        * destruct I1 as [I1|(k & (t & Hk) & Hf)].
          -- destruct best as [b|]; cbn in best'.
             ++ destruct (before (i, x) b); subst best'.
                ** injection I1 as <-. right. exists O. split; [exists s'; reflexivity|cbn; lia].
                ** now left.
             ++ subst best'. injection I1 as <-. right. exists O. split; [exists s'; reflexivity|cbn; lia].
          -- right. exists (S k). split; [exists t; exact Hk|lia].
        * exact Hb.
        * intros k y [t Ht]. destruct k as [|k].
          -- cbn in Ht. injection Ht as <- <-. replace (i + 0)%nat with i by lia. exact Hx.
          -- replace (i + S k)%nat with (S i + k)%nat by lia. apply I3. exists t. exact Ht.
  Qed.

  Lemma pick_none : forall ss i best,
    pick before i ss best = None <-> best = None /\ Forall (fun s : list A => s = []) ss.
  Proof.
    induction ss as [|s ss IH]; intros i best; cbn [pick].
    - split; [intros ->; split; [reflexivity|constructor]|tauto].
    - rewrite IH. destruct s as [|x s'].
      + split; intros [H1 H2]; split; auto. now inversion H2.
      + split.
        * intros [H1 _]. destruct best as [b|]; [destruct (before (i, x) b)|]; discriminate.
        * intros [_ H2]. inversion H2; discriminate.
  Qed.

  (** ** [drop_head] *)
  Lemma drop_head_perm : forall (ss : list (list A)) k x t,
    nth_error ss k = Some (x :: t) ->
    Permutation (concat ss) (x :: concat (drop_head k ss)).
  Proof.
    induction ss as [|s ss IH]; intros k x t H; destruct k as [|k]; try discriminate; cbn in *.
    - injection H as ->. cbn. reflexivity.
    - specialize (IH _ _ _ H).
      eapply Permutation_trans; [apply Permutation_app_head, IH|].
      apply Permutation_sym, Permutation_middle.
  Qed.

  Lemma drop_head_len : forall (ss : list (list A)) k x t,
    nth_error ss k = Some (x :: t) -> total_len ss = S (total_len (drop_head k ss)).
  Proof.
    induction ss as [|s ss IH]; intros k x t H; destruct k as [|k]; try discriminate; cbn in *.
    - injection H as ->. cbn. lia.
    - specialize (IH _ _ _ H). lia.
  Qed.

  Lemma drop_head_Forall : forall (P : list A -> Prop) ss k,
    (forall s, P s -> P (tl s)) -> Forall P ss -> Forall P (drop_head k ss).
  Proof.
    intros P. induction ss as [|s ss IH]; intros k HP H; destruct k; cbn; inversion H; subst;
      constructor; auto.
  Qed.

  Lemma total_len_0 : forall ss : list (list A), total_len ss = O -> Forall (fun s : list A => s = []) ss.
  Proof.
    induction ss as [|s ss IH]; cbn; intros H; constructor.
    - destruct s; [reflexivity|cbn in H; lia].
    - apply IH. lia.
  Qed.

  (** ** Fuel *)
  Lemma kmerge_fuel_enough : forall f1 f2 ss,
    (total_len ss <= f1)%nat -> (total_len ss <= f2)%nat ->
    kmerge_fuel before f1 ss = kmerge_fuel before f2 ss.
  Proof.
    induction f1 as [|f1 IH]; intros f2 ss H1 H2.
    - assert (Hn : pick before O ss None = None).
      { apply pick_none. split; [reflexivity|apply total_len_0; lia]. }
      destruct f2; cbn; [reflexivity|now rewrite Hn].
    - destruct f2 as [|f2].
      + assert (Hn : pick before O ss None = None).
        { apply pick_none. split; [reflexivity|apply total_len_0; lia]. }
        cbn. now rewrite Hn.
      + cbn. destruct (pick before O ss None) as [[i x]|] eqn:Ep; [|reflexivity].
        f_equal. apply pick_spec in Ep. destruct Ep as ([E|(k & (t & Hk) & Hf)] & _); [discriminate|].
        cbn in Hf, Hk. subst i. pose proof (drop_head_len _ _ _ _ Hk). apply IH; lia.
  Qed.

  (** ** The merge is a sorted permutation of the concatenation *)
  Lemma kmerge_fuel_perm : forall f ss,
    (total_len ss <= f)%nat -> Permutation (kmerge_fuel before f ss) (concat ss).
  Proof.
    induction f as [|f IH]; intros ss Hf; cbn.
    - assert (E : Forall (fun s : list A => s = []) ss) by (apply total_len_0; lia).
      clear Hf. induction E as [|s ss -> _ IHE]; cbn; auto.
    - destruct (pick before O ss None) as [[i x]|] eqn:Ep.
      + apply pick_spec in Ep. destruct Ep as ([E|(k & (t & Hk) & Hi)] & _); [discriminate|].
        cbn in Hi, Hk. subst i. pose proof (drop_head_len _ _ _ _ Hk).
        eapply Permutation_trans; [apply perm_skip, IH; lia|].
        apply Permutation_sym. eapply drop_head_perm; eassumption.
      + apply pick_none in Ep. destruct Ep as [_ E].
        clear Hf IH. induction E as [|s ss -> _ IHE]; cbn; auto.
  Qed.

  Lemma kmerge_fuel_sorted : forall f ss,
    (total_len ss <= f)%nat -> Forall (sorted dcmp) ss -> sorted dcmp (kmerge_fuel before f ss).
  Proof.
    induction f as [|f IH]; intros ss Hf HS; cbn; [constructor|].
    destruct (pick before O ss None) as [[i x]|] eqn:Ep; [|constructor].
    pose proof (pick_spec _ _ _ _ Ep) as ([E|(k & (t & Hk) & Hi)] & _ & Hmax); [discriminate|].
    cbn in Hi, Hk. subst i. pose proof (drop_head_len _ _ _ _ Hk) as Hl.
    constructor.
    - apply IH; [lia|]. apply drop_head_Forall; [|assumption].
      intros s Hs. destruct s; [constructor|]. cbn. eapply sorted_tl; eassumption.
    - apply Forall_forall. intros y Hy.
      eapply Permutation_in in Hy; [|apply kmerge_fuel_perm; lia].
      assert (Hy' : In y (concat ss)).
      { eapply Permutation_in; [apply Permutation_sym; eapply drop_head_perm; eassumption|]. now right. }
      apply in_concat in Hy'. destruct Hy' as (s & Hs & Hys).
      apply In_nth_error in Hs. destruct Hs as (j & Hj).
      destruct s as [|h s']; [contradiction|].
      assert (Hh : cle dcmp x h).
      { change x with (snd (k, x)). change h with (snd ((0 + j)%nat, h)).
        apply hle_dle. apply Hmax. exists s'. exact Hj. }
      destruct Hys as [<-|Hys]; [exact Hh|].
      apply (tp_trans _ dcmp_tp) with (b := h); [exact Hh|].
      rewrite Forall_forall in HS. assert (Ss : sorted dcmp (h :: s')).
      { apply HS. eapply nth_error_In; eassumption. }
      inversion Ss as [|? ? _ F]; subst. rewrite Forall_forall in F. auto.
  Qed.

  Theorem kmerge_sorted_perm : forall ss,
    Forall (sorted dcmp) ss ->
    sorted dcmp (kmerge before ss) /\ Permutation (kmerge before ss) (concat ss).
  Proof.
    intros ss HS. unfold kmerge. split.
    - apply kmerge_fuel_sorted; [lia|assumption].
    - apply kmerge_fuel_perm; lia.
  Qed.

  (** ** The first [k] outputs only depend on the first [k] elements of every stream *)
  Lemma pick_heads : forall ss ts i best,
    Forall2 (fun s t => hd_error s = hd_error t) ss ts ->
    pick before i ss best = pick before i ts best.
  Proof.
    intros ss ts i best H. revert i best. induction H as [|s t ss ts Hh _ IH]; intros i best; cbn [pick].
    - reflexivity.
    - destruct s, t; cbn in Hh; try discriminate; [apply IH|].
      injection Hh as ->. apply IH.
  Qed.

  Lemma firstn_S_hd : forall k (s t : list A), firstn (S k) s = firstn (S k) t -> hd_error s = hd_error t.
  Proof. intros k [|x s] [|y t] H; cbn in *; congruence. Qed.

  Lemma firstn_S_tl : forall k (s t : list A), firstn (S k) s = firstn (S k) t -> firstn k (tl s) = firstn k (tl t).
  Proof.
    intros k [|x s] [|y t] H; cbn in *; congruence.
  Qed.

  Lemma firstn_S_weaken : forall k (s t : list A), firstn (S k) s = firstn (S k) t -> firstn k s = firstn k t.
  Proof.
    intros k s t H.
    replace (firstn k s) with (firstn k (firstn (S k) s)) by (rewrite firstn_firstn; f_equal; lia).
    replace (firstn k t) with (firstn k (firstn (S k) t)) by (rewrite firstn_firstn; f_equal; lia).
    now rewrite H.
  Qed.

  Lemma kmerge_fuel_prefix : forall k f ss ts,
    (total_len ss <= f)%nat -> (total_len ts <= f)%nat ->
    Forall2 (fun s t => firstn k s = firstn k t) ss ts ->
    firstn k (kmerge_fuel before f ss) = firstn k (kmerge_fuel before f ts).
  Proof.
    induction k as [|k IH]; intros f ss ts H1 H2 HR; [reflexivity|].
    destruct f as [|f].
    - reflexivity.
    - cbn [kmerge_fuel].
      assert (Hp : pick before O ss None = pick before O ts None).
      { apply pick_heads. eapply Forall2_imp; [|exact HR]. intros s t. apply firstn_S_hd. }
      destruct (pick before O ss None) as [[i x]|] eqn:Ep; rewrite <- Hp; [|reflexivity].
      cbn [firstn]. f_equal.
      pose proof (pick_spec _ _ _ _ Ep) as ([E|(j & (t1 & Hj) & Hi)] & _); [discriminate|].
      symmetry in Hp.
      pose proof (pick_spec _ _ _ _ Hp) as ([E|(j' & (t2 & Hj') & Hi')] & _); [discriminate|].
      cbn in Hi, Hi', Hj, Hj'. subst i. subst j'.
      pose proof (drop_head_len _ _ _ _ Hj). pose proof (drop_head_len _ _ _ _ Hj').
      apply IH; [lia|lia|].
      clear - HR. revert j. induction HR as [|s t ss ts Hst HR' IHR]; intros j; destruct j; cbn.
      + constructor.
      + constructor.
      + constructor; [now apply firstn_S_tl|].
        eapply Forall2_imp; [|exact HR']. intros a b. apply firstn_S_weaken.
      + constructor; [now apply firstn_S_weaken|apply IHR].
  Qed.

  Lemma total_len_firstn : forall k (ss : list (list A)),
    (total_len (map (firstn k) ss) <= total_len ss)%nat.
  Proof.
    induction ss as [|s ss IH]; cbn [map total_len]; [lia|]. rewrite firstn_length. lia.
  Qed.

  (** ** The merger loop is: merge, skip [offset], take [limit] *)
  Lemma merger_loop_spec : forall f ss sk lim em,
    merger_loop before f ss sk lim em =
    match lim with
    | None => dropN sk (kmerge_fuel before f ss)
    | Some l => takeN (l - em) (dropN sk (kmerge_fuel before f ss))
    end.
  Proof.
    induction f as [|f IH]; intros ss sk lim em; cbn [merger_loop kmerge_fuel].
    - destruct lim; reflexivity.
    - destruct (pick before O ss None) as [[i x]|]; [|destruct lim; reflexivity].
      destruct lim as [l|].
      + destruct (N.leb_spec l em) as [Hfull|Hnf].
        * replace (l - em)%N with 0%N by lia. now rewrite takeN_0.
        * destruct (N.ltb_spec 0 sk) as [Hsk|Hsk].
          -- rewrite IH. cbn [dropN]. destruct (N.eqb_spec sk 0); [lia|reflexivity].
          -- assert (sk = 0%N) by lia. subst sk. cbn [dropN N.eqb]. cbn [takeN].
             destruct (N.eqb_spec (l - em) 0); [lia|]. f_equal.
             destruct (N.leb_spec l (N.succ em)) as [Hf'|Hf'].
             ++ replace (N.pred (l - em)) with 0%N by lia. now rewrite takeN_0.
             ++ rewrite IH, dropN_0. f_equal. lia.
      + destruct (N.ltb_spec 0 sk) as [Hsk|Hsk].
        * rewrite IH. cbn [dropN]. destruct (N.eqb_spec sk 0); [lia|reflexivity].
        * assert (sk = 0%N) by lia. subst sk. cbn [dropN N.eqb]. f_equal.
          now rewrite IH, dropN_0.
  Qed.

  (** ** Top-k of parts.  Every stream is the first [K] rows of a sorted
      arrangement of its part; [m + n <= K]. *)
  Definition topk_of (K : N) (part stream : list A) : Prop :=
    exists full, sorted dcmp full /\ Permutation full part /\ stream = takeN K full.

  Theorem topk_of_parts_gen : forall (parts streams : list (list A)) (K m n : N) (ref : list A),
    Forall2 (topk_of K) parts streams ->
    (m + n <= K)%N ->
    sorted dcmp ref -> Permutation ref (concat parts) ->
    Forall2 (ceq dcmp) (slice m n (kmerge before streams)) (slice m n ref).
  Proof.
    intros parts streams K m n ref HT HK Sref Pref.
    (* the full (untruncated) sorted arrangements *)
    assert (HF : exists fulls, Forall2 (fun p f => sorted dcmp f /\ Permutation f p) parts fulls
                               /\ streams = map (takeN K) fulls).
    { clear - HT. induction HT as [|p s ps ss (full & S & P & E) _ (fulls & F1 & F2)].
      - exists []. split; [constructor|reflexivity].
      - exists (full :: fulls). split; [constructor; auto|cbn; congruence]. }
    destruct HF as (fulls & HF & ->).
    rewrite !slice_firstn_skipn. apply Forall2_skipn.
    set (k := N.to_nat (m + n)).
    assert (Hk : (k <= N.to_nat K)%nat) by (subst k; lia).
    clearbody k.
    assert (E : firstn k (kmerge before (map (takeN K) fulls)) = firstn k (kmerge before fulls)).
    { unfold kmerge.
      rewrite (kmerge_fuel_enough (total_len (map (takeN K) fulls)) (total_len fulls)).
      - apply kmerge_fuel_prefix.
        + replace (map (takeN K) fulls) with (map (firstn (N.to_nat K)) fulls)
            by (apply map_ext; intros; now rewrite takeN_firstn).
          apply total_len_firstn.
        + lia.
        + clear - Hk. induction fulls as [|s ss IH]; cbn; constructor; [|exact IH].
          rewrite takeN_firstn, firstn_firstn. f_equal. lia.
      - lia.
      - replace (map (takeN K) fulls) with (map (firstn (N.to_nat K)) fulls)
          by (apply map_ext; intros; now rewrite takeN_firstn).
        apply total_len_firstn. }
    rewrite E. apply Forall2_firstn.
    assert (HS : Forall (sorted dcmp) fulls).
    { clear - HF. induction HF as [|? ? ? ? [S _] _ IH]; constructor; auto. }
    destruct (kmerge_sorted_perm fulls HS) as [Sk Pk].
    apply (sorted_perm_equiv dcmp dcmp_tp); [assumption|assumption|].
    eapply Permutation_trans; [exact Pk|].
    eapply Permutation_trans; [|apply Permutation_sym; exact Pref].
    clear - HF. induction HF as [|? ? ? ? [_ P] _ IH]; cbn; [reflexivity|].
    apply Permutation_app; assumption.
  Qed.
End Merge.
