(** C02 — proofs about the query path models (Model/{Sem,Cond,Prune,Layout,Known}.v). *)
From Coq Require Import ZArith NArith List Bool Lia.
From Snel Require Import Base.Bytes Gen.Params Model.Time Model.Value Model.Expr Model.Sem Model.Cond Model.Prune
  Model.Layout Model.Known.
Import ListNotations.

(** The general theorems below hold whatever the switches read from the Rust text (Gen/Params.v)
    say; only the closed witnesses of Part 5 compute with their current values. *)
Local Opaque query_not_leaf_complement query_u64_neg_rejects_all query_i64_buffer_claims_all
  query_mem_f64_view query_unserved_no_zones_temporal query_unserved_no_zones_enum query_unserved_no_zones_zonexor
  query_hydrate_tagged_only query_bool_block_str_view.

(** * Part 1 — zone sets *)

Lemma cmem_filter_fst : forall (p : zid -> bool) l z,
  cmem z (filter (fun c : czone => p (fst c)) l) = cmem z l && p z.
Proof.
  induction l as [|[x t] l IH]; intros z; simpl; [reflexivity|].
  destruct (p x) eqn:Px; simpl.
  - destruct (z =? x)%N eqn:E; simpl.
    + apply N.eqb_eq in E. subst. now rewrite Px.
    + apply IH.
  - rewrite IH. destruct (z =? x)%N eqn:E; simpl; [|reflexivity].
    apply N.eqb_eq in E. subst. rewrite Px. now rewrite andb_false_r.
Qed.

Lemma cmem_app : forall a b z, cmem z (a ++ b) = cmem z a || cmem z b.
Proof.
  induction a as [|[x t] a IH]; intros; simpl; [reflexivity|].
  rewrite IH. now rewrite orb_assoc.
Qed.

Lemma cmem_inter : forall a b z, cmem z (inter a b) = cmem z a && cmem z b.
Proof. intros. unfold inter. apply (cmem_filter_fst (fun x => cmem x b)). Qed.

Lemma cmem_union : forall a b z, cmem z (union a b) = cmem z a || cmem z b.
Proof.
  intros. unfold union. rewrite cmem_app.
  rewrite (cmem_filter_fst (fun x => negb (cmem x b))).
  destruct (cmem z a), (cmem z b); reflexivity.
Qed.

Lemma cmem_minus : forall a b z, cmem z (minus a b) = cmem z a && negb (cmem z b).
Proof. intros. unfold minus. apply (cmem_filter_fst (fun x => negb (cmem x b))). Qed.

Lemma cmem_tagged : forall zs z, cmem z (tagged zs) = memN z zs.
Proof. induction zs; simpl; intros; [reflexivity|]. now rewrite IHzs. Qed.
Lemma cmem_untagged : forall zs z, cmem z (untagged zs) = memN z zs.
Proof. induction zs; simpl; intros; [reflexivity|]. now rewrite IHzs. Qed.

Lemma ctag_some_cmem : forall l z, cmem z l = true <-> exists t, ctag z l = Some t.
Proof.
  induction l as [|[x t] l IH]; intros; simpl.
  - split; [discriminate|intros [t H]; discriminate].
  - destruct (z =? x)%N; simpl.
    + split; eauto.
    + apply IH.
Qed.

(** * Part 2 — the filter-group tree *)

Definition leaf_sat (sch : schema) (l : leaf) (r : row) : bool :=
  sat_atom sch r (l_field l) (l_op l) (l_lit l).

Fixpoint fg_sat (sch : schema) (g : fg) (r : row) : bool :=
  match g with
  | FLeaf l => leaf_sat sch l r
  | FAnd a b => fg_sat sch a r && fg_sat sch b r
  | FOr a b => fg_sat sch a r || fg_sat sch b r
  | FNot a => negb (fg_sat sch a r)
  end.

Fixpoint fg_not_free (g : fg) : bool :=
  match g with
  | FLeaf _ => true
  | FAnd a b | FOr a b => fg_not_free a && fg_not_free b
  | FNot _ => false
  end.

(** [collect_zones] over a NOT-free tree: if every leaf lists the zone whenever the zone holds a row
    satisfying that leaf, the combination lists the zone whenever it holds a row satisfying the tree. *)
Theorem collect_zones_sound_notfree : forall sch ans all g z (rows : list row),
  fg_not_free g = true ->
  (forall l, In l (fg_leaves g) ->
             (exists r, In r rows /\ leaf_sat sch l r = true) ->
             cmem z (leaf_zones sch ans all l) = true) ->
  (exists r, In r rows /\ fg_sat sch g r = true) ->
  cmem z (collect sch ans all false g) = true.
Proof.
  induction g as [l|a IHa b IHb|a IHa b IHb|a IHa]; intros z rows NF HL [r [Hin Hs]]; simpl in *.
  - apply HL; [now left|eauto].
  - apply andb_true_iff in NF as [Na Nb]. apply andb_true_iff in Hs as [Sa Sb].
    rewrite cmem_inter. apply andb_true_iff. split.
    + apply (IHa z rows); auto. intros l Hl. apply HL. apply in_or_app. now left. eauto.
    + apply (IHb z rows); auto. intros l Hl. apply HL. apply in_or_app. now right. eauto.
  - apply andb_true_iff in NF as [Na Nb]. rewrite cmem_union. apply orb_true_iff.
    apply orb_true_iff in Hs as [Sa|Sb].
    + left. apply (IHa z rows); auto. intros l Hl. apply HL. apply in_or_app. now left. eauto.
    + right. apply (IHb z rows); auto. intros l Hl. apply HL. apply in_or_app. now right. eauto.
  - discriminate.
Qed.

(** the tree built from an expression means what the expression means *)
Lemma in_leaves_sat : forall sch f ls l0 r,
  fg_sat sch (in_leaves f l0 ls) r = existsb (fun l => sat_atom sch r f CEq l) (l0 :: ls).
Proof.
  induction ls as [|l1 ls IH]; intros; simpl.
  - unfold leaf_sat. simpl. now rewrite orb_false_r.
  - rewrite IH. unfold leaf_sat. reflexivity.
Qed.

Lemma build_fg_sat : forall sch e g r, build_fg e = Some g -> fg_sat sch g r = sat sch e r.
Proof.
  induction e as [f op l|f ls|a IHa b IHb|a IHa b IHb|a IHa]; intros g r H; simpl in H.
  - inversion H. reflexivity.
  - destruct ls as [|l0 ls]; [discriminate|]. inversion H. apply in_leaves_sat.
  - destruct (build_fg a) as [x|]; [|discriminate]. destruct (build_fg b) as [y|]; [|discriminate].
    inversion H. simpl. now rewrite (IHa x), (IHb y).
  - destruct (build_fg a) as [x|]; [|discriminate]. destruct (build_fg b) as [y|]; [|discriminate].
    inversion H. simpl. now rewrite (IHa x), (IHb y).
  - destruct (build_fg a) as [x|]; [|discriminate]. inversion H. simpl. now rewrite (IHa x).
Qed.

Lemma in_leaves_not_free : forall f ls l0, fg_not_free (in_leaves f l0 ls) = true.
Proof. induction ls; intros; simpl; auto. Qed.

Lemma build_fg_not_free : forall e g, build_fg e = Some g -> not_free e = true -> fg_not_free g = true.
Proof.
  induction e as [f op l|f ls|a IHa b IHb|a IHa b IHb|a IHa]; intros g H NF; simpl in *.
  - inversion H. reflexivity.
  - destruct ls; [discriminate|]. inversion H. apply in_leaves_not_free.
  - destruct (build_fg a) as [x|]; [|discriminate]. destruct (build_fg b) as [y|]; [|discriminate].
    inversion H. apply andb_true_iff in NF as [? ?]. simpl. rewrite (IHa x), (IHb y); auto.
  - destruct (build_fg a) as [x|]; [|discriminate]. destruct (build_fg b) as [y|]; [|discriminate].
    inversion H. apply andb_true_iff in NF as [? ?]. simpl. rewrite (IHa x), (IHb y); auto.
  - discriminate.
Qed.

(** ** The zone complement used for NOT is not a superset *)
Definition nf_schema : schema := [mk_fdecl [97%N] KInt false].
Definition nf_leaf : leaf := mk_leaf [97%N] CEq (LInt 1).
Definition nf_rows : list row := [[VInt 1]; [VInt 2]].
(** the structure answers exactly: zone 0 holds a row with a = 1 *)
Definition nf_ans : leaf -> option (list zid) := fun _ => Some [0%N].

Theorem collect_zones_not_refuted :
  (forall l, In l (fg_leaves (FNot (FLeaf nf_leaf))) ->
             (exists r, In r nf_rows /\ leaf_sat nf_schema l r = true) ->
             cmem 0%N (leaf_zones nf_schema nf_ans [0%N] l) = true) /\
  (exists r, In r nf_rows /\ fg_sat nf_schema (FNot (FLeaf nf_leaf)) r = true) /\
  cmem 0%N (collect nf_schema nf_ans [0%N] false (FNot (FLeaf nf_leaf))) = false.
Proof.
  split; [|split].
  - intros l [Hl|[]] _. subst. vm_compute. reflexivity.
  - exists [VInt 2]. split; [right; now left|vm_compute; reflexivity].
  - vm_compute. reflexivity.
Qed.

(** * Part 3 — the row filter agrees with the specification outside the known classes *)

Lemma pow1074_pos : (0 < 2 ^ 1074)%Z.
Proof. apply Z.pow_pos_nonneg; lia. Qed.

Lemma scale_compare : forall x z, Z.compare (scale_int x) (scale_int z) = Z.compare x z.
Proof. intros. unfold scale_int. symmetry. apply Zmult_compare_compat_r. pose proof pow1074_pos. lia. Qed.

Lemma bytes_eqb_refl : forall a, bytes_eqb a a = true.
Proof. induction a; simpl; auto. rewrite N.eqb_refl. auto. Qed.

Lemma bytes_eqb_eq : forall a b, bytes_eqb a b = true <-> a = b.
Proof.
  induction a as [|x a IH]; destruct b as [|y b]; simpl; split; intros H; try discriminate; auto.
  - apply andb_true_iff in H as [H1 H2]. apply N.eqb_eq in H1. apply IH in H2. now subst.
  - inversion H. subst. rewrite N.eqb_refl. simpl. apply bytes_eqb_refl.
Qed.

Lemma bytes_cmp_eqb : forall a b, match bytes_cmp a b with Eq => true | _ => false end = bytes_eqb a b.
Proof.
  induction a as [|x a IH]; destruct b as [|y b]; simpl; auto.
  destruct (N.compare x y) eqn:C.
  - apply N.compare_eq in C. subst. rewrite N.eqb_refl. simpl. apply IH.
  - assert ((x =? y)%N = false) by (apply N.eqb_neq; intros ->; rewrite N.compare_refl in C; discriminate).
    now rewrite H.
  - assert ((x =? y)%N = false) by (apply N.eqb_neq; intros ->; rewrite N.compare_refl in C; discriminate).
    now rewrite H.
Qed.

Lemma cmp_holds_eq_bytes : forall a b, cmp_holds CEq (bytes_cmp a b) = bytes_eqb a b.
Proof. intros. rewrite <- bytes_cmp_eqb. destruct (bytes_cmp a b); reflexivity. Qed.
Lemma cmp_holds_ne_bytes : forall a b, cmp_holds CNe (bytes_cmp a b) = negb (bytes_eqb a b).
Proof. intros. rewrite <- bytes_cmp_eqb. destruct (bytes_cmp a b); reflexivity. Qed.

(** the i64 view and the string view of a cell *)
Definition num_view (v : value) : option Z :=
  match v with VInt x | VTime x => Some x | VU64 n => Some (Z.of_N n) | _ => None end.
Definition str_view (v : value) : option bytes :=
  match v with
  | VStr t | VEnum t => Some t
  | VBool b => Some (if b then b_true else b_false)
  | _ => None
  end.

Definition is_num_kind (k : kind) : bool := match k with KInt | KU64 | KTime => true | _ => false end.
Definition is_str_kind (k : kind) : bool := match k with KStr | KEnum _ | KBool => true | _ => false end.

Definition small_u64 (v : value) : Prop :=
  match v with VU64 n => (Z.of_N n <= i64_max)%Z | _ => True end.

(** the switches of the Rust text (Gen/Params.v) the repaired fragment depends on: if one of them
    flips back, these lemmas — and with them [exact_outside_known] — stop checking *)
Lemma p_mem_f64 : query_mem_f64_view = true. Proof. reflexivity. Qed.
Lemma p_i64_claims : query_i64_buffer_claims_all = false. Proof. reflexivity. Qed.
Lemma p_bool_view : query_bool_block_str_view = true. Proof. reflexivity. Qed.
Lemma p_hydrate : query_hydrate_tagged_only = false. Proof. reflexivity. Qed.

(** what [atom_class d op l = None] leaves: a numeric condition on an integer/time field, an
    integer threshold below 2^53 on a float field, or a string condition on a string / enum /
    bool field *)
Inductive good_atom (d : fdecl) (op : cmp) (l : lit) : Prop :=
| GoodNum (z : Z) :
    is_num_kind (f_kind d) = true -> build_lit l = BNum z ->
    lit_scaled (f_kind d) l = Some (scale_int z) ->
    (f_kind d = KU64 -> (op = CGt \/ op = CGe \/ op = CNe) -> (0 <= z)%Z) ->
    good_atom d op l
| GoodFloat (z : Z) :
    f_kind d = KFloat -> l = LInt z -> (Z.abs z < 2 ^ 53)%Z ->
    good_atom d op l
| GoodStr (s : bytes) :
    is_str_kind (f_kind d) = true -> l = LStr s -> build_lit l = BStr s ->
    (f_kind d = KBool -> s = b_true \/ s = b_false) ->
    (op = CEq \/ (op = CNe /\ f_opt d = false)) ->
    (f_opt d = true -> null_like s = false) ->
    good_atom d op l.

Lemma plain_build : forall s, is_plain_str s = true -> build_lit (LStr s) = BStr s.
Proof.
  intros s H. unfold is_plain_str in H. unfold build_lit in *.
  destruct (parse_str_to_epoch_seconds s); [discriminate|].
  destruct (parse_i64 s); [discriminate|]. reflexivity.
Qed.

Lemma bool_lit_cases : forall op s, wt_atom KBool op (LStr s) = true ->
  (s = b_true \/ s = b_false) /\ is_range op = false.
Proof.
  intros op s H. simpl in H. apply andb_true_iff in H as [H1 H2].
  split; [|now apply negb_true_iff in H2].
  apply orb_true_iff in H1 as [E|E]; apply bytes_eqb_eq in E; auto.
Qed.

Lemma op_eq_or_ne : forall op, is_range op = false -> op = CEq \/ op = CNe.
Proof. destruct op; simpl; intros; try discriminate; auto. Qed.

Lemma atom_class_none : forall d op l, atom_class d op l = None -> good_atom d op l.
Proof.
  intros d op l H. unfold atom_class in H. destruct l as [z|b j|s|b].
  - (* LInt *)
    destruct (f_kind d) eqn:K; try discriminate.
    + apply (GoodNum d op (LInt z) z); rewrite ?K; auto; congruence.
    + apply (GoodNum d op (LInt z) z); rewrite ?K; auto.
      intros _ [->|[->| ->]]; destruct (z <? 0)%Z eqn:E; try discriminate; apply Z.ltb_ge in E; lia.
    + destruct (Z.abs z <? 2 ^ 53)%Z eqn:E; [|discriminate].
      apply (GoodFloat d op (LInt z) z); auto. now apply Z.ltb_lt.
    + apply (GoodNum d op (LInt z) z); rewrite ?K; auto; congruence.
  - destruct (wt_atom (f_kind d) op (LFloat b j)); discriminate.
  - (* LStr *)
    destruct (f_kind d) eqn:K; try discriminate.
    + (* KStr *)
      destruct (is_plain_str s) eqn:P; simpl in H; [|discriminate].
      destruct (is_range op) eqn:R; [discriminate|].
      destruct (f_opt d && null_like s) eqn:N1; [discriminate|].
      destruct (f_opt d && is_ne op) eqn:N2; [discriminate|].
      apply (GoodStr d op (LStr s) s); rewrite ?K; auto using plain_build; try congruence.
      * destruct (op_eq_or_ne op R) as [->| ->]; auto. right. split; auto.
        destruct (f_opt d); simpl in *; congruence.
      * intros O. rewrite O in N1. exact N1.
    + (* KBool *)
      destruct (wt_atom KBool op (LStr s)) eqn:W; [|discriminate].
      destruct (f_opt d && is_ne op) eqn:N2; [discriminate|].
      destruct (bool_lit_cases op s W) as [BS R].
      apply (GoodStr d op (LStr s) s); rewrite ?K; auto.
      * destruct BS as [->| ->]; vm_compute; reflexivity.
      * destruct (op_eq_or_ne op R) as [->| ->]; auto. right. split; auto.
        destruct (f_opt d); simpl in *; congruence.
      * intros _. destruct BS as [->| ->]; vm_compute; reflexivity.
    + (* KEnum *)
      destruct (is_range op) eqn:R; [discriminate|].
      destruct (is_plain_str s) eqn:P; simpl in H; [|discriminate].
      destruct (f_opt d && null_like s) eqn:N1; [discriminate|].
      destruct (f_opt d && is_ne op) eqn:N2; [discriminate|].
      apply (GoodStr d op (LStr s) s); rewrite ?K; auto using plain_build; try congruence.
      * destruct (op_eq_or_ne op R) as [->| ->]; auto. right. split; auto.
        destruct (f_opt d); simpl in *; congruence.
      * intros O. rewrite O in N1. exact N1.
    + (* KTime *)
      destruct (parse_str_to_epoch_seconds s) as [v|] eqn:P; [|discriminate].
      apply (GoodNum d op (LStr s) v); rewrite ?K; auto; try congruence.
      * unfold build_lit. now rewrite P.
      * simpl. now rewrite P.
  - destruct (wt_atom (f_kind d) op (LBool b)); discriminate.
Qed.

Lemma cmp_holds_scale : forall op x z,
  cmp_holds op (Z.compare (scale_int x) (scale_int z)) = cmpZ op x z.
Proof. intros. unfold cmpZ. now rewrite scale_compare. Qed.

(** the specification on a good numeric atom, through the i64 view *)
Lemma sat_num_view : forall d v op l z,
  is_num_kind (f_kind d) = true -> conforms d v = true ->
  lit_scaled (f_kind d) l = Some (scale_int z) ->
  sat_cmp (f_kind d) v op l = match num_view v with Some x => cmpZ op x z | None => false end.
Proof.
  intros d v op l z K C L.
  destruct v; simpl in *; try reflexivity; try rewrite L; try apply cmp_holds_scale;
    destruct (f_kind d); simpl in *; try discriminate.
Qed.

Lemma sat_str_view : forall d v op s,
  is_str_kind (f_kind d) = true -> conforms d v = true ->
  (f_kind d = KBool -> s = b_true \/ s = b_false) ->
  (op = CEq \/ op = CNe) ->
  sat_cmp (f_kind d) v op (LStr s) = match str_view v with Some t => str_op op t s | None => false end.
Proof.
  intros d v op s K C BS O.
  destruct v; simpl in *; try reflexivity;
    try (destruct (f_kind d); simpl in *; discriminate).
  - destruct O as [-> | ->]; simpl; rewrite <- bytes_cmp_eqb; destruct (bytes_cmp _ _); reflexivity.
  - (* VBool *)
    assert (KB : f_kind d = KBool) by (destruct (f_kind d); simpl in *; try discriminate; reflexivity).
    destruct (BS KB) as [-> | ->]; destruct b; destruct O as [-> | ->]; vm_compute; reflexivity.
  - destruct O as [-> | ->]; simpl; rewrite <- bytes_cmp_eqb; destruct (bytes_cmp _ _); reflexivity.
Qed.

(** a float cell against an integer threshold below 2^53: [threshold as f64] is exact *)
Lemma as_f64_exact : forall z, (Z.abs z < 2 ^ 53)%Z -> i64_as_f64_scaled z = scale_int z.
Proof.
  intros z H. unfold i64_as_f64_scaled.
  assert (E : (Z.abs z <? 2 ^ 53)%Z = true) by now apply Z.ltb_lt.
  rewrite E. f_equal. destruct (z <? 0)%Z eqn:N; [apply Z.ltb_lt in N|apply Z.ltb_ge in N]; lia.
Qed.

Definition float_view (v : value) : option N :=
  match v with VFloat b _ => Some b | _ => None end.

Lemma sat_float_view : forall d v op z, f_kind d = KFloat -> conforms d v = true ->
  sat_cmp (f_kind d) v op (LInt z)
  = match float_view v with Some b => cmp_holds op (Z.compare (f64_scaled b) (scale_int z)) | None => false end.
Proof.
  intros d v op z K C. rewrite K. destruct v; simpl in *; try reflexivity; try rewrite K in C; discriminate.
Qed.

Lemma mem_float_view : forall d v op z, f_kind d = KFloat -> conforms d v = true -> (Z.abs z < 2 ^ 53)%Z ->
  mem_num (to_mem v) op z
  = match float_view v with Some b => cmp_holds op (Z.compare (f64_scaled b) (scale_int z)) | None => false end.
Proof.
  intros d v op z K C A.
  destruct v; simpl in C; try rewrite K in C; try discriminate; cbn [to_mem float_view]; unfold mem_num;
    cbn [m_as_i64]; try reflexivity.
  rewrite p_mem_f64. now rewrite (as_f64_exact z A).
Qed.

(** in memory *)
Lemma mem_num_view : forall d v, is_num_kind (f_kind d) = true -> conforms d v = true -> small_u64 v ->
  m_as_i64 (to_mem v) = num_view v.
Proof.
  intros d v K C S. destruct v; simpl in *; try reflexivity;
    try (destruct (f_kind d); simpl in *; discriminate).
  apply Z.leb_le in S. now rewrite S.
Qed.

Lemma mem_num_exact : forall d v op z,
  is_num_kind (f_kind d) = true -> conforms d v = true -> small_u64 v ->
  mem_num (to_mem v) op z = match num_view v with Some x => cmpZ op x z | None => false end.
Proof.
  intros d v op z K C S. unfold mem_num. rewrite (mem_num_view d v K C S).
  destruct v; simpl in *; try reflexivity; destruct (f_kind d); simpl in *; discriminate.
Qed.

Lemma null_like_false : forall s, null_like s = false -> bytes_eqb [] s = false /\ bytes_eqb b_null s = false.
Proof.
  intros s H. unfold null_like in H. apply orb_false_iff in H as [H1 H2].
  split.
  - destruct s; simpl in *; auto.
  - destruct (bytes_eqb b_null s) eqn:E; auto. apply bytes_eqb_eq in E. subst.
    now rewrite bytes_eqb_refl in H2.
Qed.

Lemma mem_str_view : forall d v op s, is_str_kind (f_kind d) = true -> conforms d v = true ->
  (op = CEq \/ (op = CNe /\ f_opt d = false)) -> (f_opt d = true -> null_like s = false) ->
  str_op op (m_to_string (to_mem v)) s = match str_view v with Some t => str_op op t s | None => false end.
Proof.
  intros d v op s K C O NL.
  destruct v; cbn [to_mem m_to_string str_view]; try reflexivity;
    try (simpl in C; destruct (f_kind d); simpl in *; discriminate).
  - (* VNull *) simpl in C. destruct O as [-> | [-> O]]; [|congruence]. simpl. now apply null_like_false, NL.
  - (* VAbsent *) simpl in C. destruct O as [-> | [-> O]]; [|congruence]. simpl. now apply null_like_false, NL.
Qed.

(** in a hydrated zone: [g] is the column accessor of the row *)
Definition cell_of (d : fdecl) (v : value) (c : option cell) : Prop :=
  c = Some (to_cell (f_kind d) v) \/ (c = None /\ v = VAbsent).

Lemma seg_num_view : forall d v c op z,
  is_num_kind (f_kind d) = true -> conforms d v = true -> cell_of d v c ->
  (f_kind d = KU64 -> (op = CGt \/ op = CGe \/ op = CNe) -> (0 <= z)%Z) ->
  num_at c op z = match num_view v with Some x => cmpZ op x z | None => false end /\
  num_simd c op z = match num_view v with Some x => cmpZ op x z | None => false end.
Proof.
  intros d v c op z K C [-> | [-> ->]] U; [|split; reflexivity].
  destruct (f_kind d) eqn:KK; try discriminate; destruct v; simpl in *; try rewrite KK in C;
    try discriminate; auto.
  (* u64 *)
  clear C.
  destruct (z <? 0)%Z eqn:E; [|auto].
  apply Z.ltb_lt in E. assert (Hn : (0 <= Z.of_N n)%Z) by lia.
  unfold cmpZ. destruct (Z.compare_spec (Z.of_N n) z); try lia.
  destruct query_u64_neg_rejects_all;
    (destruct op; simpl; try (split; reflexivity);
     exfalso; assert (0 <= z)%Z by (apply U; auto); lia).
Qed.

Lemma seg_float_view : forall d v c op z, f_kind d = KFloat -> conforms d v = true -> cell_of d v c ->
  (Z.abs z < 2 ^ 53)%Z ->
  num_at c op z
  = match float_view v with Some b => cmp_holds op (Z.compare (f64_scaled b) (scale_int z)) | None => false end /\
  num_simd c op z
  = match float_view v with Some b => cmp_holds op (Z.compare (f64_scaled b) (scale_int z)) | None => false end.
Proof.
  intros d v c op z K C [-> | [-> ->]] A; [|split; reflexivity].
  rewrite K. destruct v; simpl in C; try rewrite K in C; try discriminate;
    cbn [to_cell float_view num_at num_simd]; rewrite ?p_i64_claims; cbn [num_at];
    rewrite ?(as_f64_exact z A); split; reflexivity.
Qed.

Lemma seg_str_view : forall d v c op s, is_str_kind (f_kind d) = true -> conforms d v = true -> cell_of d v c ->
  (op = CEq \/ (op = CNe /\ f_opt d = false)) -> (f_opt d = true -> null_like s = false) ->
  str_at c op s = match str_view v with Some t => str_op op t s | None => false end.
Proof.
  intros d v c op s K C [-> | [-> ->]] O NL; [|reflexivity].
  destruct (f_kind d) eqn:KK; try discriminate; destruct v; simpl in C; try rewrite KK in C;
    try discriminate; unfold str_at; cbn [to_cell cell_str str_view]; rewrite ?p_bool_view; try reflexivity;
    (destruct O as [-> | [-> O]]; [|congruence]); specialize (NL C); cbn [str_op];
    (destruct s; [discriminate NL | reflexivity]).
Qed.

(** ** From cells to rows *)
Lemma lookup_conforms : forall sch r f d,
  row_conforms sch r = true -> find_decl sch f = Some d ->
  exists v, lookup sch r f = Some (d, v) /\ conforms d v = true.
Proof.
  induction sch as [|d0 sch IH]; intros r f d RC FD; simpl in *; [discriminate|].
  destruct r as [|v0 r]; [discriminate|].
  apply andb_true_iff in RC as [C0 RC].
  destruct (bytes_eqb (f_name d0) f).
  - inversion FD. subst. eauto.
  - eauto.
Qed.

Lemma cmpZ_eq : forall x z, cmpZ CEq x z = (x =? z)%Z.
Proof.
  intros. unfold cmpZ. destruct (Z.compare_spec x z); simpl.
  - subst. now rewrite Z.eqb_refl.
  - symmetry. apply Z.eqb_neq. lia.
  - symmetry. apply Z.eqb_neq. lia.
Qed.

Lemma first_some_none : forall A (l : list (option A)), first_some l = None -> Forall (fun x => x = None) l.
Proof. induction l as [|[a|] l IH]; simpl; intros H; [constructor|discriminate|constructor; auto]. Qed.

(** IN over good numeric literals *)
Lemma good_num_kind : forall d l, is_num_kind (f_kind d) = true -> good_atom d CEq l ->
  exists z, build_lit l = BNum z /\ lit_scaled (f_kind d) l = Some (scale_int z).
Proof.
  intros d l K G. destruct G as [z _ B L _ | z K' _ _ | s K' -> B _ _ _].
  - eauto.
  - rewrite K' in K. discriminate.
  - exfalso. destruct (f_kind d); simpl in *; discriminate.
Qed.

Lemma all_nums_good : forall d ls,
  is_num_kind (f_kind d) = true ->
  Forall (fun l => good_atom d CEq l) ls ->
  exists zs, all_nums ls = Some zs /\ length zs = length ls /\
    forall v, conforms d v = true ->
      existsb (fun l => sat_cmp (f_kind d) v CEq l) ls
      = match num_view v with Some x => memZ x zs | None => false end.
Proof.
  intros d ls K F. induction F as [|l ls G F IH].
  - exists []. repeat split; auto. intros v _. simpl. destruct (num_view v); reflexivity.
  - destruct IH as [zs [A [Len S]]].
    destruct (good_num_kind d l K G) as [z [B L]].
    exists (z :: zs). split; [|split].
    + simpl. unfold lit_num. rewrite B, A. reflexivity.
    + simpl. now rewrite Len.
    + intros v C. simpl. rewrite (S v C). rewrite (sat_num_view d v CEq l z K C L).
      destruct (num_view v); [|reflexivity]. now rewrite cmpZ_eq.
Qed.

Lemma mem_bytes_none : forall ss t, Forall (fun s => bytes_eqb t s = false) ss -> mem_bytes t ss = false.
Proof. induction 1; simpl; auto. now rewrite H, IHForall. Qed.

(** IN over good string literals *)
Lemma good_str_kind : forall d l, is_str_kind (f_kind d) = true -> good_atom d CEq l ->
  exists s, l = LStr s /\ build_lit l = BStr s /\
    (f_kind d = KBool -> s = b_true \/ s = b_false) /\ (f_opt d = true -> null_like s = false).
Proof.
  intros d l K G. destruct G as [z K' _ _ _ | z K' _ _ | s _ -> B BS _ NL].
  - exfalso. destruct (f_kind d); simpl in *; discriminate.
  - rewrite K' in K. discriminate.
  - eauto 6.
Qed.

Lemma all_strs_good : forall d ls,
  is_str_kind (f_kind d) = true ->
  Forall (fun l => good_atom d CEq l) ls ->
  (ls <> [] -> all_nums ls = None) /\
  (f_opt d = true -> Forall (fun s => null_like s = false) (map lit_text ls)) /\
  forall v, conforms d v = true ->
    existsb (fun l => sat_cmp (f_kind d) v CEq l) ls
    = match str_view v with Some t => mem_bytes t (map lit_text ls) | None => false end.
Proof.
  intros d ls K F. induction F as [|l ls G F IH].
  - split; [congruence|]. split; [intros _; constructor|].
    intros v _. simpl. destruct (str_view v); reflexivity.
  - destruct IH as [_ [NLs S]].
    destruct (good_str_kind d l K G) as [s [-> [B [BS NL]]]].
    split; [|split].
    + intros _. simpl. unfold lit_num. now rewrite B.
    + intros O. simpl. constructor; auto.
    + intros v C. cbn [existsb map lit_text mem_bytes]. rewrite (S v C).
      rewrite (sat_str_view d v CEq s K C BS (or_introl eq_refl)).
      destruct (str_view v); reflexivity.
Qed.

Lemma null_not_member : forall ss, Forall (fun s => null_like s = false) ss ->
  mem_bytes [] ss = false /\ mem_bytes b_null ss = false.
Proof.
  induction 1 as [|s ss Hs F [I1 I2]]; [split; reflexivity|].
  apply null_like_false in Hs as [E1 E2]. cbn [mem_bytes]. now rewrite E1, E2, I1, I2.
Qed.

Lemma eval_and2_mem : forall g a b x y, eval_mem g a = Some x -> eval_mem g b = Some y ->
  eval_mem g (CLogic LAnd [a; b]) = Some (x && y).
Proof. intros. simpl. rewrite H. destruct x; simpl; [rewrite H0; destruct y|]; reflexivity. Qed.
Lemma eval_or2_mem : forall g a b x y, eval_mem g a = Some x -> eval_mem g b = Some y ->
  eval_mem g (CLogic LOr [a; b]) = Some (x || y).
Proof. intros. simpl. rewrite H. destruct x; simpl; [|rewrite H0; destruct y]; reflexivity. Qed.
Lemma eval_and2_at : forall g a b x y, eval_at g a = Some x -> eval_at g b = Some y ->
  eval_at g (CLogic LAnd [a; b]) = Some (x && y).
Proof. intros. simpl. rewrite H. destruct x; simpl; [rewrite H0; destruct y|]; reflexivity. Qed.
Lemma eval_or2_at : forall g a b x y, eval_at g a = Some x -> eval_at g b = Some y ->
  eval_at g (CLogic LOr [a; b]) = Some (x || y).
Proof. intros. simpl. rewrite H. destruct x; simpl; [|rewrite H0; destruct y]; reflexivity. Qed.

Definition ok_event (sch : schema) (e : expr) (ev : event) : Prop :=
  row_conforms sch (ev_row ev) = true /\ forall f, In f (fields_of e) -> big_u64 sch ev f = false.

Lemma small_from_big : forall sch ev f d v,
  lookup sch (ev_row ev) f = Some (d, v) -> big_u64 sch ev f = false -> small_u64 v.
Proof.
  intros sch ev f d v L B. unfold big_u64 in B. rewrite L in B.
  destruct v; simpl; auto. apply Z.ltb_ge in B. exact B.
Qed.

Lemma mem_in_str_view : forall d v ss, is_str_kind (f_kind d) = true -> conforms d v = true ->
  (f_opt d = true -> Forall (fun s => null_like s = false) ss) ->
  mem_bytes (m_to_string (to_mem v)) ss = match str_view v with Some t => mem_bytes t ss | None => false end.
Proof.
  intros d v ss K C NL.
  destruct v; cbn [to_mem m_to_string str_view]; try reflexivity;
    try (simpl in C; destruct (f_kind d); simpl in *; discriminate).
  - apply null_not_member, NL, C.
  - apply null_not_member, NL, C.
Qed.

Lemma sat_in_lookup : forall sch r f d v ls, lookup sch r f = Some (d, v) ->
  sat sch (EIn f ls) r = existsb (fun l => sat_cmp (f_kind d) v CEq l) ls.
Proof.
  intros. cbn [sat]. induction ls as [|l ls IH]; cbn [existsb]; [reflexivity|].
  rewrite IH. unfold sat_atom. now rewrite H.
Qed.

(** The in-memory row filter of an expression outside the known classes is the specification. *)
Lemma expr_mem_exact : forall sch e ev,
  expr_class sch e = None -> ok_event sch e ev ->
  exists c, build e = [c] /\ eval_mem (mem_get sch (ev_row ev)) c = Some (sat sch e (ev_row ev)).
Proof.
  intros sch e ev. induction e as [f op l|f ls|a IHa b IHb|a IHa b IHb|a IHa]; intros EC [RC BU]; simpl in EC.
  - destruct (find_decl sch f) as [d|] eqn:FD; [|discriminate].
    destruct (lookup_conforms sch (ev_row ev) f d RC FD) as [v [LK C]].
    assert (SM : small_u64 v) by (eapply small_from_big; eauto; apply BU; simpl; auto).
    apply atom_class_none in EC.
    simpl sat. unfold sat_atom. rewrite LK.
    destruct EC as [z K B L _ | z K -> A | s K -> B BS O NL].
    + exists (CNum f op z). split; [cbn [build]; now rewrite B|].
      cbn [eval_mem]. unfold mem_get. rewrite LK. rewrite (mem_num_exact d v op z K C SM).
      now rewrite (sat_num_view d v op l z K C L).
    + exists (CNum f op z). split; [reflexivity|].
      cbn [eval_mem]. unfold mem_get. rewrite LK. rewrite (mem_float_view d v op z K C A).
      now rewrite (sat_float_view d v op z K C).
    + exists (CStrC f op s). split; [cbn [build]; now rewrite B|].
      cbn [eval_mem]. unfold mem_get. rewrite LK. rewrite (mem_str_view d v op s K C O NL).
      rewrite (sat_str_view d v op s K C BS); [reflexivity|]. destruct O as [->|[-> _]]; auto.
  - destruct (find_decl sch f) as [d|] eqn:FD; [|discriminate].
    destruct ls as [|l0 ls]; [discriminate|].
    destruct (lookup_conforms sch (ev_row ev) f d RC FD) as [v [LK C]].
    assert (SM : small_u64 v) by (eapply small_from_big; eauto; apply BU; simpl; auto).
    assert (EC' : first_some (map (atom_class d CEq) (l0 :: ls)) = None /\ f_kind d <> KFloat)
      by (destruct (f_kind d); try discriminate; split; auto; discriminate).
    destruct EC' as [EC' NF]. clear EC. rename EC' into EC.
    apply first_some_none in EC.
    assert (G : Forall (fun l => good_atom d CEq l) (l0 :: ls)).
    { apply Forall_forall. intros l Hl. apply atom_class_none.
      rewrite Forall_forall in EC. apply EC. apply in_map_iff. eauto. }
    rewrite (sat_in_lookup sch (ev_row ev) f d v (l0 :: ls) LK).
    assert (G0 : good_atom d CEq l0) by (inversion G; auto).
    destruct G0 as [z0 K _ _ _ | z0 K _ _ | s0 K _ _ _ _ _]; [|contradiction|].
    + destruct (all_nums_good d (l0 :: ls) K G) as [zs [A [Len S]]].
      destruct zs as [|z zs]; [simpl in Len; discriminate|].
      exists (CInNum f (z :: zs)). split.
      * unfold build. now rewrite A.
      * cbn [eval_mem]. unfold mem_get. rewrite LK. rewrite (mem_num_view d v K C SM).
        now rewrite (S v C).
    + destruct (all_strs_good d (l0 :: ls) K G) as [A [NLs S]].
      exists (CInStr f (map lit_text (l0 :: ls))). split.
      * unfold build. rewrite A; [reflexivity|discriminate].
      * cbn [eval_mem]. unfold mem_get. rewrite LK. rewrite (S v C).
        now rewrite (mem_in_str_view d v _ K C NLs).
  - destruct (expr_class sch a) eqn:Ea; [discriminate|].
    destruct IHa as [ca [Ba Va]]; auto. { split; auto. intros f Hf. apply BU. simpl. apply in_or_app. auto. }
    destruct IHb as [cb [Bb Vb]]; auto. { split; auto. intros f Hf. apply BU. simpl. apply in_or_app. auto. }
    exists (CLogic LAnd [ca; cb]). split; [simpl; now rewrite Ba, Bb|].
    simpl sat. now apply eval_and2_mem.
  - destruct (expr_class sch a) eqn:Ea; [discriminate|].
    destruct IHa as [ca [Ba Va]]; auto. { split; auto. intros f Hf. apply BU. simpl. apply in_or_app. auto. }
    destruct IHb as [cb [Bb Vb]]; auto. { split; auto. intros f Hf. apply BU. simpl. apply in_or_app. auto. }
    exists (CLogic LOr [ca; cb]). split; [simpl; now rewrite Ba, Bb|].
    simpl sat. now apply eval_or2_mem.
  - discriminate.
Qed.

(** ** The same for a row of a hydrated zone *)
Definition hollow_ok (sch : schema) (hollow : bytes -> bool) (r : row) : Prop :=
  forall f, hollow f = true -> is_absent sch r f = true.

Lemma seg_cell_of : forall sch hollow r f d v,
  lookup sch r f = Some (d, v) -> hollow_ok sch hollow r -> cell_of d v (seg_get sch hollow r f).
Proof.
  intros sch hollow r f d v LK HO. unfold seg_get. destruct (hollow f) eqn:H.
  - right. split; auto. apply HO in H. unfold is_absent in H. rewrite LK in H.
    destruct v; try discriminate. reflexivity.
  - left. now rewrite LK.
Qed.

Lemma seg_in_num_view : forall d v c zs,
  is_num_kind (f_kind d) = true -> conforms d v = true -> small_u64 v -> cell_of d v c ->
  in_num_at c zs = match num_view v with Some x => memZ x zs | None => false end.
Proof.
  intros d v c zs K C S [-> | [-> ->]]; [|reflexivity].
  destruct (f_kind d) eqn:KK; try discriminate; destruct v; simpl in *; try rewrite KK in C;
    try discriminate; auto.
  apply Z.leb_le in S. now rewrite S.
Qed.

Lemma seg_in_str_view : forall d v c ss,
  is_str_kind (f_kind d) = true -> conforms d v = true -> cell_of d v c ->
  (f_opt d = true -> Forall (fun s => null_like s = false) ss) ->
  in_str_at c ss = match str_view v with Some t => mem_bytes t ss | None => false end.
Proof.
  intros d v c ss K C [-> | [-> ->]] NL; [|reflexivity].
  destruct (f_kind d) eqn:KK; try discriminate; destruct v; cbn [to_cell in_str_at str_view];
    try reflexivity; try (simpl in C; rewrite KK in C; discriminate);
    apply null_not_member, NL, C.
Qed.

Lemma expr_seg_exact : forall sch hollow e ev,
  expr_class sch e = None -> ok_event sch e ev -> hollow_ok sch hollow (ev_row ev) ->
  exists c, build e = [c] /\
    eval_at (seg_get sch hollow (ev_row ev)) c = Some (sat sch e (ev_row ev)) /\
    eval_seg_top (seg_get sch hollow (ev_row ev)) c = Some (sat sch e (ev_row ev)).
Proof.
  intros sch hollow e ev. induction e as [f op l|f ls|a IHa b IHb|a IHa b IHb|a IHa];
    intros EC [RC BU] HO; simpl in EC.
  - destruct (find_decl sch f) as [d|] eqn:FD; [|discriminate].
    destruct (lookup_conforms sch (ev_row ev) f d RC FD) as [v [LK C]].
    pose proof (seg_cell_of sch hollow (ev_row ev) f d v LK HO) as CO.
    apply atom_class_none in EC.
    simpl sat. unfold sat_atom. rewrite LK.
    destruct EC as [z K B L U | z K -> A | s K -> B BS O NL].
    + exists (CNum f op z). split; [cbn [build]; now rewrite B|].
      destruct (seg_num_view d v _ op z K C CO U) as [E1 E2].
      rewrite (sat_num_view d v op l z K C L). cbn [eval_at eval_seg_top]. now rewrite E1, E2.
    + exists (CNum f op z). split; [reflexivity|].
      destruct (seg_float_view d v _ op z K C CO A) as [E1 E2].
      rewrite (sat_float_view d v op z K C). cbn [eval_at eval_seg_top]. now rewrite E1, E2.
    + exists (CStrC f op s). split; [cbn [build]; now rewrite B|].
      rewrite (sat_str_view d v op s K C BS); [|destruct O as [->|[-> _]]; auto].
      cbn [eval_at eval_seg_top]. now rewrite (seg_str_view d v _ op s K C CO O NL).
  - destruct (find_decl sch f) as [d|] eqn:FD; [|discriminate].
    destruct ls as [|l0 ls]; [discriminate|].
    destruct (lookup_conforms sch (ev_row ev) f d RC FD) as [v [LK C]].
    assert (SM : small_u64 v) by (eapply small_from_big; eauto; apply BU; simpl; auto).
    pose proof (seg_cell_of sch hollow (ev_row ev) f d v LK HO) as CO.
    assert (EC' : first_some (map (atom_class d CEq) (l0 :: ls)) = None /\ f_kind d <> KFloat)
      by (destruct (f_kind d); try discriminate; split; auto; discriminate).
    destruct EC' as [EC' NF]. clear EC. rename EC' into EC.
    apply first_some_none in EC.
    assert (G : Forall (fun l => good_atom d CEq l) (l0 :: ls)).
    { apply Forall_forall. intros l Hl. apply atom_class_none.
      rewrite Forall_forall in EC. apply EC. apply in_map_iff. eauto. }
    rewrite (sat_in_lookup sch (ev_row ev) f d v (l0 :: ls) LK).
    assert (G0 : good_atom d CEq l0) by (inversion G; auto).
    destruct G0 as [z0 K _ _ _ | z0 K _ _ | s0 K _ _ _ _ _]; [|contradiction|].
    + destruct (all_nums_good d (l0 :: ls) K G) as [zs [A [Len S]]].
      destruct zs as [|z zs]; [simpl in Len; discriminate|].
      exists (CInNum f (z :: zs)). split; [unfold build; now rewrite A|].
      cbn [eval_at eval_seg_top]. rewrite (seg_in_num_view d v _ (z :: zs) K C SM CO).
      now rewrite (S v C).
    + destruct (all_strs_good d (l0 :: ls) K G) as [A [NLs S]].
      exists (CInStr f (map lit_text (l0 :: ls))). split; [unfold build; rewrite A; [reflexivity|discriminate]|].
      cbn [eval_at eval_seg_top]. rewrite (seg_in_str_view d v _ _ K C CO NLs).
      now rewrite (S v C).
  - destruct (expr_class sch a) eqn:Ea; [discriminate|].
    destruct IHa as [ca [Ba [Va _]]]; auto. { split; auto. intros f Hf. apply BU. simpl. apply in_or_app. auto. }
    destruct IHb as [cb [Bb [Vb _]]]; auto. { split; auto. intros f Hf. apply BU. simpl. apply in_or_app. auto. }
    exists (CLogic LAnd [ca; cb]). split; [simpl; now rewrite Ba, Bb|].
    simpl sat. unfold eval_seg_top. split; now apply eval_and2_at.
  - destruct (expr_class sch a) eqn:Ea; [discriminate|].
    destruct IHa as [ca [Ba [Va _]]]; auto. { split; auto. intros f Hf. apply BU. simpl. apply in_or_app. auto. }
    destruct IHb as [cb [Bb [Vb _]]]; auto. { split; auto. intros f Hf. apply BU. simpl. apply in_or_app. auto. }
    exists (CLogic LOr [ca; cb]). split; [simpl; now rewrite Ba, Bb|].
    simpl sat. unfold eval_seg_top. split; now apply eval_or2_at.
  - discriminate.
Qed.

(** * Part 4 — a layout *)

Lemma filter_opt_exact : forall A (p : A -> option bool) (b : A -> bool) l,
  (forall x, In x l -> p x = Some (b x)) -> filter_opt p l = Some (filter b l).
Proof.
  induction l as [|x l IH]; intros H; simpl; [reflexivity|].
  rewrite (H x (or_introl eq_refl)). rewrite IH; [|intros; apply H; now right].
  reflexivity.
Qed.

Lemma map_snd_filter : forall A B (p : B -> bool) (l : list (A * B)),
  map snd (filter (fun ze => p (snd ze)) l) = filter p (map snd l).
Proof.
  induction l as [|[a b] l IH]; simpl; [reflexivity|]. destruct (p b); simpl; now rewrite IH.
Qed.

Lemma filter_flat_map : forall A B (p : B -> bool) (f : A -> list B) l,
  filter p (flat_map f l) = flat_map (fun x => filter p (f x)) l.
Proof.
  induction l; simpl; [reflexivity|]. rewrite filter_app. now rewrite IHl.
Qed.

Lemma filter_none : forall A (p : A -> bool) l, (forall x, In x l -> p x = false) -> filter p l = [].
Proof.
  induction l as [|x l IH]; intros H; simpl; [reflexivity|].
  rewrite (H x (or_introl eq_refl)). apply IH. intros; apply H; now right.
Qed.

(** the complete row filters *)
Definition q_ok (sch : schema) (q : query) (ev : event) : Prop :=
  row_conforms sch (ev_row ev) = true /\
  match q_where q with Some e => forall f, In f (fields_of e) -> big_u64 sch ev f = false | None => True end.

Definition q_class_none (sch : schema) (q : query) : Prop :=
  match q_where q with Some e => expr_class sch e = None | None => True end.

Lemma filter_mem_exact : forall sch q ev, q_class_none sch q -> q_ok sch q ev ->
  filter_mem sch q ev = Some (sat_query sch q ev).
Proof.
  intros sch q ev QC [RC BU]. unfold filter_mem, sat_query, where_conds, q_class_none, ctx_ok in *.
  destruct (q_where q) as [e|].
  - destruct (expr_mem_exact sch e ev QC (conj RC BU)) as [c [B V]].
    rewrite B. simpl. rewrite V. destruct (sat sch e (ev_row ev)).
    + now rewrite andb_true_r.
    + now rewrite andb_false_r.
  - simpl. now rewrite andb_true_r.
Qed.

Lemma filter_seg_exact : forall sch q zrows ev, q_class_none sch q -> q_ok sch q ev -> In ev zrows ->
  filter_seg sch q zrows ev = Some (sat_query sch q ev).
Proof.
  intros sch q zrows ev QC [RC BU] IN. unfold filter_seg, sat_query, where_conds, q_class_none, ctx_ok in *.
  destruct (q_where q) as [e|].
  - assert (HO : hollow_ok sch (hollow_in sch zrows) (ev_row ev)).
    { intros f H. unfold hollow_in in H. rewrite forallb_forall in H. now apply H. }
    destruct (expr_seg_exact sch _ e ev QC (conj RC BU) HO) as [c [B [_ V]]].
    rewrite B. cbn [all_conds]. rewrite V. destruct (sat sch e (ev_row ev)).
    + now rewrite andb_true_r.
    + now rewrite andb_false_r.
  - simpl. now rewrite andb_true_r.
Qed.

(** ** Candidate zones *)
Lemma ctag_in : forall l z t, ctag z l = Some t -> In (z, t) l.
Proof.
  induction l as [|[x u] l IH]; intros z t H; simpl in *; [discriminate|].
  destruct (z =? x)%N eqn:E.
  - apply N.eqb_eq in E. subst. inversion H. now left.
  - right. now apply IH.
Qed.

Lemma hydrated_cmem : forall ot cand z,
  (ot = true -> forall c, In c cand -> snd c = true) ->
  hydrated ot cand z = false -> cmem (z_id z) cand = false.
Proof.
  intros ot cand z T H. unfold hydrated in H.
  destruct (ctag (z_id z) cand) as [t|] eqn:E.
  - destruct ot; [|discriminate]. subst. apply ctag_in in E. apply (T eq_refl) in E. discriminate.
  - destruct (cmem (z_id z) cand) eqn:M; [|reflexivity].
    apply ctag_some_cmem in M as [t M]. congruence.
Qed.

Lemma memN_zone_ids : forall (s : segment) z, In z s -> memN (z_id z) (zone_ids s) = true.
Proof.
  induction s as [|z0 s IH]; intros z H; simpl in *; [contradiction|].
  destruct H as [->|H].
  - now rewrite N.eqb_refl.
  - rewrite (IH z H). apply orb_true_r.
Qed.

Definition where_sat (sch : schema) (q : query) (ev : event) : bool :=
  match q_where q with Some e => sat sch e (ev_row ev) | None => true end.

Lemma sat_query_where : forall sch q ev, where_sat sch q ev = false -> sat_query sch q ev = false.
Proof. intros. unfold sat_query, where_sat in *. rewrite H. apply andb_false_r. Qed.

Lemma existsb_leaf_holds : forall sch l (z : zone),
  leaf_holds sch l z = true <-> exists r, In r (map ev_row (z_rows z)) /\ leaf_sat sch l r = true.
Proof.
  intros. unfold leaf_holds. rewrite existsb_exists. split.
  - intros [ev [I S]]. exists (ev_row ev). split; [now apply in_map|exact S].
  - intros [r [I S]]. apply in_map_iff in I as [ev [<- I]]. eauto.
Qed.

Lemma class_none_not_free : forall sch e, expr_class sch e = None -> not_free e = true.
Proof.
  induction e as [f op l|f ls|a IHa b IHb|a IHa b IHb|a IHa]; simpl; intros H; auto.
  - destruct (expr_class sch a); [discriminate|]. rewrite IHa, IHb; auto.
  - destruct (expr_class sch a); [discriminate|]. rewrite IHa, IHb; auto.
  - discriminate.
Qed.

(** a zone that is not a candidate holds no row satisfying the WHERE clause *)
Lemma non_candidate_no_match : forall sch ans q i (s : segment) z ev,
  q_class_none sch q ->
  (match q_where q with
   | Some e => match build_fg e with
               | Some g => forallb (seg_leaf_sound sch ans i s) (fg_leaves g) = true
               | None => True
               end
   | None => True
   end) ->
  In z s -> In ev (z_rows z) ->
  cmem (z_id z) (seg_candidates sch ans q i s) = false ->
  where_sat sch q ev = false.
Proof.
  intros sch ans q i s z ev QC LS Iz Iev NC.
  unfold seg_candidates, candidates, where_sat, q_class_none in *.
  destruct (q_where q) as [e|].
  - destruct (build_fg e) as [g|] eqn:BG.
    + destruct (sat sch e (ev_row ev)) eqn:S; [|reflexivity]. exfalso.
      assert (NF : not_free e = true) by (eapply class_none_not_free; eauto).
      assert (C : cmem (z_id z) (collect sch (ans i) (zone_ids s) false g) = true).
      { apply (collect_zones_sound_notfree sch (ans i) (zone_ids s) g (z_id z) (map ev_row (z_rows z))).
        - eapply build_fg_not_free; eauto.
        - intros l Hl Hex. rewrite forallb_forall in LS. specialize (LS l Hl).
          unfold seg_leaf_sound in LS. rewrite forallb_forall in LS. specialize (LS z Iz).
          apply orb_true_iff in LS as [LS|LS]; [|exact LS].
          apply existsb_leaf_holds in Hex. rewrite Hex in LS. discriminate.
        - exists (ev_row ev). split; [now apply in_map|]. now rewrite (build_fg_sat sch e g). }
      congruence.
    + rewrite cmem_untagged in NC. rewrite memN_zone_ids in NC by auto. discriminate.
  - rewrite cmem_untagged in NC. rewrite memN_zone_ids in NC by auto. discriminate.
Qed.

Section Exact.
  Variable sch : schema.
  Variable ans : nat -> leaf -> option (list zid).
  Variable q : query.
  Hypothesis QC : q_class_none sch q.

  Definition sound_from (i : nat) (ss : list segment) : Prop :=
    match q_where q with
    | Some e => match build_fg e with
                | Some g => segs_leaves_sound sch ans (fg_leaves g) i ss = true
                | None => True
                end
    | None => True
    end.

  Lemma sound_from_cons : forall i s ss, sound_from i (s :: ss) ->
    (match q_where q with
     | Some e => match build_fg e with
                 | Some g => forallb (seg_leaf_sound sch ans i s) (fg_leaves g) = true
                 | None => True
                 end
     | None => True
     end) /\ sound_from (S i) ss.
  Proof.
    intros i s ss H. unfold sound_from in *. destruct (q_where q) as [e|]; [|auto].
    destruct (build_fg e) as [g|]; [|auto]. simpl in H. now apply andb_true_iff in H.
  Qed.

  Lemma map_snd_seg_read : forall ot cand (s : segment),
    map snd (seg_read ot cand s) = flat_map (fun z => if hydrated ot cand z then z_rows z else []) s.
  Proof.
    intros. unfold seg_read. induction s as [|z s IH]; simpl; [reflexivity|].
    rewrite map_app, IH. f_equal. destruct (hydrated ot cand z); [|reflexivity].
    rewrite map_map. simpl. apply map_id.
  Qed.

  Lemma segs_read_in : forall ot ss cs ze, In ze (segs_read ot cs ss) ->
    exists s z, In s ss /\ In z s /\ fst ze = z_rows z /\ In (snd ze) (z_rows z).
  Proof.
    induction ss as [|s ss IH]; intros cs ze H; destruct cs as [|c cs]; simpl in H; try contradiction.
    apply in_app_or in H as [H|H].
    - unfold seg_read in H. apply in_flat_map in H as [z [Iz H]].
      destruct (hydrated ot c z); [|contradiction].
      apply in_map_iff in H as [ev [<- Iev]]. exists s, z. simpl. auto.
    - destruct (IH cs ze H) as [s' [z [I1 [I2 [I3 I4]]]]]. exists s', z. simpl. auto.
  Qed.

  Lemma flat_map_ext_in' : forall A B (f g : A -> list B) l,
    (forall x, In x l -> f x = g x) -> flat_map f l = flat_map g l.
  Proof.
    induction l as [|x l IH]; intros H; simpl; [reflexivity|].
    rewrite (H x (or_introl eq_refl)). rewrite IH; [reflexivity|]. intros; apply H; now right.
  Qed.

  Lemma seg_rows_exact : forall ot i (s : segment),
    (ot = true -> forall c, In c (seg_candidates sch ans q i s) -> snd c = true) ->
    (match q_where q with
     | Some e => match build_fg e with
                 | Some g => forallb (seg_leaf_sound sch ans i s) (fg_leaves g) = true
                 | None => True
                 end
     | None => True
     end) ->
    filter (sat_query sch q) (map snd (seg_read ot (seg_candidates sch ans q i s) s))
    = filter (sat_query sch q) (seg_events s).
  Proof.
    intros ot i s T LS. rewrite map_snd_seg_read. unfold seg_events.
    rewrite !filter_flat_map. apply flat_map_ext_in'. intros z Iz.
    destruct (hydrated ot (seg_candidates sch ans q i s) z) eqn:H; [reflexivity|].
    simpl. symmetry. apply filter_none. intros ev Iev. apply sat_query_where.
    apply (non_candidate_no_match sch ans q i s z ev QC LS Iz Iev).
    now apply (hydrated_cmem ot).
  Qed.

  Lemma segs_rows_exact : forall ot ss i,
    (ot = true -> forall c, In c (all_candidates sch ans q i ss) -> forall z, In z c -> snd z = true) ->
    sound_from i ss ->
    filter (sat_query sch q) (map snd (segs_read ot (all_candidates sch ans q i ss) ss))
    = filter (sat_query sch q) (flat_map seg_events ss).
  Proof.
    induction ss as [|s ss IH]; intros i T SF; simpl; [reflexivity|].
    apply sound_from_cons in SF as [LS SF].
    rewrite map_app, !filter_app. f_equal.
    - apply seg_rows_exact; auto. intros O c Ic. apply (T O (seg_candidates sch ans q i s)); simpl; auto.
    - apply IH; auto. intros O c Ic. apply (T O c). simpl. auto.
  Qed.
End Exact.

Lemma no_untagged : forall cs,
  existsb (fun l : list czone => existsb (fun z => negb (snd z)) l) cs = false ->
  forall c, In c cs -> forall z, In z c -> snd z = true.
Proof.
  intros cs H c Ic z Iz. destruct (snd z) eqn:E; [reflexivity|]. exfalso.
  assert (existsb (fun l : list czone => existsb (fun z => negb (snd z)) l) cs = true).
  { apply existsb_exists. exists c. split; auto. apply existsb_exists. exists z. split; auto. now rewrite E. }
  congruence.
Qed.

Lemma known_class_none : forall sch evs q, known_class sch evs q = None ->
  q_class_none sch q /\
  forall ev, In ev evs ->
    match q_where q with Some e => forall f, In f (fields_of e) -> big_u64 sch ev f = false | None => True end.
Proof.
  intros sch evs q H. unfold known_class, q_class_none in *. destruct (q_where q) as [e|]; [|auto].
  destruct (expr_class sch e); [discriminate|]. split; [reflexivity|].
  intros ev Iev f If.
  destruct (existsb (fun ev => existsb (big_u64 sch ev) (fields_of e)) evs) eqn:E; [discriminate|].
  destruct (big_u64 sch ev f) eqn:B; [|reflexivity]. exfalso.
  assert (existsb (fun ev => existsb (big_u64 sch ev) (fields_of e)) evs = true).
  { apply existsb_exists. exists ev. split; auto. apply existsb_exists. exists f. auto. }
  congruence.
Qed.

Lemma exact_outside_known_mp : forall sch ans L q,
  (forall ev, In ev (events L) -> row_conforms sch (ev_row ev) = true) ->
  known_class sch (events L) q = None ->
  mixed_provenance sch ans L q = false ->
  leaves_sound sch ans L q = true ->
  run_query sch ans L q = filter (sat_query sch q) (events L).
Proof.
  intros sch ans L q RC KC MP LS.
  destruct (known_class_none sch (events L) q KC) as [QC BU].
  assert (OK : forall ev, In ev (events L) -> q_ok sch q ev) by (intros ev I; split; [apply RC; auto | apply BU; auto]).
  unfold run_query, events. rewrite filter_app. f_equal.
  - rewrite (filter_opt_exact _ (filter_mem sch q) (sat_query sch q)); [reflexivity|].
    intros ev I. apply filter_mem_exact; auto. apply OK. unfold events. apply in_or_app. now left.
  - rewrite (filter_opt_exact _ _ (fun ze => sat_query sch q (snd ze))).
    + rewrite map_snd_filter. unfold read_rows.
      apply segs_rows_exact; auto.
      * intros O. apply andb_true_iff in O as [O1 O2]. unfold mixed_provenance in MP.
        rewrite O1, O2 in MP. simpl in MP. now apply no_untagged.
      * unfold sound_from, leaves_sound in *. destruct (q_where q); auto. destruct (build_fg e); auto.
    + intros ze I. unfold read_rows in I. apply segs_read_in in I as [s [z [I1 [I2 [I3 I4]]]]].
      rewrite I3. apply filter_seg_exact; auto. apply OK. unfold events. apply in_or_app. right.
      apply in_flat_map. exists s. split; auto. unfold seg_events. apply in_flat_map. eauto.
Qed.

(** since /repo d4c8eed every candidate zone is hydrated, whatever its provenance *)
Lemma mixed_provenance_gone : forall sch ans L q, mixed_provenance sch ans L q = false.
Proof. intros. unfold mixed_provenance. now rewrite p_hydrate. Qed.

(** QUERY is exact for every query outside the known classes, over sound leaves, in every layout. *)
Theorem exact_outside_known : forall sch ans L q,
  (forall ev, In ev (events L) -> row_conforms sch (ev_row ev) = true) ->
  known_class sch (events L) q = None ->
  leaves_sound sch ans L q = true ->
  run_query sch ans L q = filter (sat_query sch q) (events L).
Proof. intros. apply exact_outside_known_mp; auto using mixed_provenance_gone. Qed.

(** hence the answer depends only on the multiset of stored events *)
From Coq Require Import Permutation.
Lemma filter_perm : forall A (p : A -> bool) l l', Permutation l l' -> Permutation (filter p l) (filter p l').
Proof.
  induction 1; simpl; auto.
  - destruct (p x); auto.
  - destruct (p x), (p y); auto. apply perm_swap.
  - eapply perm_trans; eauto.
Qed.

Theorem layout_independent : forall sch ans1 ans2 L1 L2 q,
  Permutation (events L1) (events L2) ->
  (forall ev, In ev (events L1) -> row_conforms sch (ev_row ev) = true) ->
  known_class sch (events L1) q = None ->
  leaves_sound sch ans1 L1 q = true ->
  leaves_sound sch ans2 L2 q = true ->
  Permutation (run_query sch ans1 L1 q) (run_query sch ans2 L2 q).
Proof.
  intros sch ans1 ans2 L1 L2 q P RC KC S1 S2.
  assert (RC2 : forall ev, In ev (events L2) -> row_conforms sch (ev_row ev) = true).
  { intros ev I. apply RC. eapply Permutation_in; [apply Permutation_sym; eauto|auto]. }
  assert (KC2 : known_class sch (events L2) q = None).
  { unfold known_class in *. destruct (q_where q) as [e|]; auto. destruct (expr_class sch e); auto.
    destruct (existsb (fun ev => existsb (big_u64 sch ev) (fields_of e)) (events L1)) eqn:E1; [discriminate|].
    destruct (existsb (fun ev => existsb (big_u64 sch ev) (fields_of e)) (events L2)) eqn:E2; [|reflexivity].
    exfalso. apply existsb_exists in E2 as [ev [I B]].
    assert (existsb (fun ev => existsb (big_u64 sch ev) (fields_of e)) (events L1) = true).
    { apply existsb_exists. exists ev. split; auto. eapply Permutation_in; [apply Permutation_sym; eauto|auto]. }
    congruence. }
  rewrite (exact_outside_known sch ans1 L1 q), (exact_outside_known sch ans2 L2 q); auto.
  now apply filter_perm.
Qed.

(** * Part 5 — closed witnesses: exactness fails in every known class *)

Definition bs (l : list N) : bytes := l.
Definition n_a := bs [97%N].   Definition n_u := bs [117%N].  Definition n_f := bs [102%N].
Definition n_s := bs [115%N].  Definition n_b := bs [98%N].   Definition n_e := bs [101%N].
Definition n_d := bs [100%N].  Definition n_os := bs [111; 115]%N.  Definition n_oi := bs [111; 105]%N.
Definition s_lo := bs [108; 111]%N.  Definition s_hi := bs [104; 105]%N.
Definition s_x := bs [120%N].  Definition s_y := bs [121%N].  Definition s_p := bs [112%N].
Definition s_7 := bs [55%N].   Definition s_007 := bs [48; 48; 55]%N.  Definition s_zzz := bs [122; 122; 122]%N.
Definition s_1_5 := bs [49; 46; 53]%N.  Definition s_2_5 := bs [50; 46; 53]%N.
Definition f_1_5 : N := 4609434218613702656%N.   (* 1.5 *)
Definition f_2_5 : N := 4612811918334230528%N.   (* 2.5 *)

Definition w_sch : schema :=
  [ mk_fdecl n_a KInt false; mk_fdecl n_u KU64 false; mk_fdecl n_f KFloat false; mk_fdecl n_s KStr false;
    mk_fdecl n_b KBool false; mk_fdecl n_e (KEnum [s_lo; s_hi]) false; mk_fdecl n_d KTime false;
    mk_fdecl n_os KStr true; mk_fdecl n_oi KInt true ].

Definition w_c1 : bytes := [99; 49]%N.
Definition w_r1 : event := mk_event w_c1
  [VInt 1; VU64 1; VFloat f_1_5 s_1_5; VStr s_x; VBool true; VEnum s_lo; VTime 0; VNull; VNull].
Definition w_r2 : event := mk_event w_c1
  [VInt 2; VU64 2; VFloat f_2_5 s_2_5; VStr s_7; VBool false; VEnum s_hi; VTime 0; VStr s_p; VInt 5].
(** a float cell holding the integer 2, and one holding 2^53 *)
Definition f_2_0 : N := 4611686018427387904%N.    (* 2.0 *)
Definition f_2p53 : N := 4845873199050653696%N.   (* 9007199254740992.0 *)
Definition s_2 := bs [50%N].
Definition s_2p53 := bs [57; 48; 48; 55; 49; 57; 57; 50; 53; 52; 55; 52; 48; 57; 57; 50]%N.
Definition w_r4 : event := mk_event w_c1
  [VInt 4; VU64 4; VFloat f_2_0 s_2; VStr s_x; VBool true; VEnum s_lo; VTime 0; VNull; VNull].
Definition w_r5 : event := mk_event w_c1
  [VInt 5; VU64 5; VFloat f_2p53 s_2p53; VStr s_x; VBool true; VEnum s_lo; VTime 0; VNull; VNull].
(** a u64 cell above i64::MAX *)
Definition w_r3 : event := mk_event w_c1
  [VInt 3; VU64 (2 ^ 63); VFloat f_2_5 s_2_5; VStr s_y; VBool false; VEnum s_hi; VTime 0; VStr s_p; VInt 5].

(** both rows in memory / both rows in one zone of one flushed segment / one row per segment *)
Definition w_mem : layout := mk_layout [w_r1; w_r2] [].
Definition w_seg : layout := mk_layout [] [[mk_zone 0%N [w_r1; w_r2]]].
Definition w_two : layout := mk_layout [] [[mk_zone 0%N [w_r1]]; [mk_zone 0%N [w_r2]]].
Definition w_big : layout := mk_layout [w_r3] [].
Definition w_f2 : layout := mk_layout [w_r4] [].
Definition w_f53 : layout := mk_layout [w_r5] [[mk_zone 0%N [w_r5]]].

(** the ideal structures: exactly the zones holding a satisfying row *)
Definition w_ideal (L : layout) : nat -> leaf -> option (list zid) :=
  fun i l => ideal_ans w_sch (nth i (l_segs L) []) l.

Definition conforming (sch : schema) (L : layout) : bool :=
  forallb (fun ev => row_conforms sch (ev_row ev)) (events L).
Definition wt_query (sch : schema) (q : query) : bool :=
  match q_where q with Some e => well_typed sch e | None => true end.
Definition deviates (sch : schema) (ans : nat -> leaf -> option (list zid)) (L : layout) (q : query) : Prop :=
  run_query sch ans L q <> filter (sat_query sch q) (events L).

(** a well-typed query over conforming rows, in the given class, on which QUERY is not exact *)
Definition witness (c : option kclass) (ans : nat -> leaf -> option (list zid)) (L : layout) (q : query) : Prop :=
  conforming w_sch L = true /\ wt_query w_sch q = true /\ known_class w_sch (events L) q = c /\
  deviates w_sch ans L q.

Definition qw (e : expr) : query := mk_query None (Some e).

Ltac witness_tac :=
  split; [vm_compute; reflexivity|split; [vm_compute; reflexivity|split; [vm_compute; reflexivity|
    let H := fresh in intro H; vm_compute in H; discriminate H]]].

Lemma w_not : witness (Some NotComplement) (w_ideal w_seg) w_seg (qw (ENot (ECmp n_a CEq (LInt 1)))).
Proof. witness_tac. Qed.
Lemma w_not_sound : leaves_sound w_sch (w_ideal w_seg) w_seg (qw (ENot (ECmp n_a CEq (LInt 1)))) = true.
Proof. vm_compute. reflexivity. Qed.
Lemma w_dropped : witness (Some LiteralDropped) (w_ideal w_mem) w_mem (qw (ECmp n_a CGt (LFloat f_1_5 s_1_5))).
Proof. witness_tac. Qed.
Lemma w_dropped_seg : witness (Some LiteralDropped) (w_ideal w_seg) w_seg (qw (ECmp n_a CGt (LFloat f_1_5 s_1_5))).
Proof. witness_tac. Qed.
Lemma w_float_in : witness (Some FloatColumnIn) (w_ideal w_f2) w_f2 (qw (EIn n_f [LInt 2])).
Proof. witness_tac. Qed.
(** [f < 2^53 + 1] on the cell 2^53: the threshold is rounded to 2^53 *)
Lemma w_float_round : witness (Some FloatThresholdRounded) (w_ideal w_f53) w_f53
  (qw (ECmp n_f CLt (LInt 9007199254740993))).
Proof. witness_tac. Qed.
Lemma w_neq_opt : witness (Some NeqOnOptionalText) (w_ideal w_mem) w_mem (qw (ECmp n_os CNe (LStr s_zzz))).
Proof. witness_tac. Qed.
Lemma w_neq_opt_seg : witness (Some NeqOnOptionalText) (w_ideal w_seg) w_seg (qw (ECmp n_os CNe (LStr s_zzz))).
Proof. witness_tac. Qed.
Lemma w_u64neg_ne : witness (Some U64NegativeThreshold) (w_ideal w_seg) w_seg (qw (ECmp n_u CNe (LInt (-1)))).
Proof. witness_tac. Qed.
Lemma w_u64neg : witness (Some U64NegativeThreshold) (w_ideal w_seg) w_seg (qw (ECmp n_u CGt (LInt (-1)))).
Proof. witness_tac. Qed.
Lemma w_u64big : witness (Some U64AboveI64Max) (w_ideal w_big) w_big (qw (ECmp n_u CGt (LInt 0))).
Proof. witness_tac. Qed.
Lemma w_numstr : witness (Some NumericLookingString) (w_ideal w_mem) w_mem (qw (ECmp n_s CEq (LStr s_007))).
Proof. witness_tac. Qed.
Lemma w_strord : witness (Some StringOrdering) (w_ideal w_mem) w_mem (qw (ECmp n_s CGt (LStr s_p))).
Proof. witness_tac. Qed.
Lemma w_nullsp : witness (Some NullSpelling) (w_ideal w_mem) w_mem (qw (ECmp n_os CEq (LStr b_null))).
Proof. witness_tac. Qed.
(** a leaf answer that is not a superset (C08) *)
Lemma w_unsound :
  witness None (fun _ _ => Some []) w_seg (qw (ECmp n_a CEq (LInt 1))) /\
  leaves_sound w_sch (fun _ _ => Some []) w_seg (qw (ECmp n_a CEq (LInt 1))) = false.
Proof. split; [witness_tac|vm_compute; reflexivity]. Qed.

(** The former witnesses of the repaired classes (FloatColumn, BoolColumn, NeqPruned,
    EnumUnknownVariant, TemporalNegativeLiteral over a sound temporal answer, MixedZoneProvenance)
    are now answered exactly — closed instances of [exact_outside_known], kept as regression
    anchors of the repairs: each one fails again if its switch in Gen/Params.v flips back. *)
Definition exact_on (ans : nat -> leaf -> option (list zid)) (L : layout) (q : query) : Prop :=
  known_class w_sch (events L) q = None /\ leaves_sound w_sch ans L q = true /\
  run_query w_sch ans L q = filter (sat_query w_sch q) (events L).
Ltac exact_tac := split; [vm_compute; reflexivity|split; vm_compute; reflexivity].
Definition w_mixed_ans : nat -> leaf -> option (list zid) :=
  fun i _ => match i with O => None | _ => Some [0%N] end.
Lemma repaired_exact :
  exact_on (w_ideal w_mem) w_mem (qw (ECmp n_f CGt (LInt 1))) /\
  exact_on (w_ideal w_seg) w_seg (qw (ECmp n_f CGt (LInt 1))) /\
  exact_on (w_ideal w_seg) w_seg (qw (ECmp n_b CEq (LStr b_true))) /\
  exact_on (w_ideal w_seg) w_seg (qw (ECmp n_a CNe (LInt 1))) /\
  exact_on (w_ideal w_seg) w_seg (qw (ECmp n_e CNe (LStr s_zzz))) /\
  exact_on (w_ideal w_seg) w_seg (qw (ECmp n_d CGt (LInt (-5)))) /\
  exact_on w_mixed_ans w_two (qw (ECmp n_oi CGe (LInt 0))).
Proof. repeat split; vm_compute; reflexivity. Qed.

(** [C02_exact]: QUERY does not return exactly the matching events — even over ideal pruning
    structures, for a well-typed predicate over conforming rows. *)
Theorem exact_refuted : exists sch ans L q,
  conforming sch L = true /\ wt_query sch q = true /\ leaves_sound sch ans L q = true /\
  ~ Permutation (run_query sch ans L q) (filter (sat_query sch q) (events L)).
Proof.
  exists w_sch, (w_ideal w_seg), w_seg, (qw (ENot (ECmp n_a CEq (LInt 1)))).
  split; [vm_compute; reflexivity|split; [vm_compute; reflexivity|split; [exact w_not_sound|]]].
  intro P. apply Permutation_length in P. vm_compute in P. discriminate P.
Qed.

(** ** The hypotheses of [exact_outside_known] are satisfiable on a layout that mixes matching and
    non-matching rows in one zone, with a compound predicate *)
Definition ex_q : query :=
  mk_query (Some w_c1)
    (Some (EOr (EAnd (ECmp n_a CGe (LInt 2)) (EIn n_e [LStr s_hi; LStr s_zzz]))
               (EOr (EAnd (ECmp n_s CEq (LStr s_x)) (ECmp n_u CLt (LInt (-3))))
                    (EAnd (ECmp n_f CGt (LInt 2))
                          (EAnd (ECmp n_b CEq (LStr b_false))
                                (EAnd (ECmp n_a CNe (LInt 1)) (ECmp n_e CNe (LStr s_zzz)))))))).
Definition ex_L : layout := mk_layout [w_r2] [[mk_zone 0%N [w_r1; w_r2]]; [mk_zone 0%N [w_r1]; mk_zone 1%N [w_r2; w_r2]]].
Lemma outside_known_example :
  (forall ev, In ev (events ex_L) -> row_conforms w_sch (ev_row ev) = true) /\
  known_class w_sch (events ex_L) ex_q = None /\
  leaves_sound w_sch (w_ideal ex_L) ex_L ex_q = true /\
  wt_query w_sch ex_q = true /\
  length (run_query w_sch (w_ideal ex_L) ex_L ex_q) = 4 /\ length (events ex_L) = 6.
Proof.
  split.
  - assert (H : conforming w_sch ex_L = true) by (vm_compute; reflexivity).
    unfold conforming in H. rewrite forallb_forall in H. exact H.
  - repeat split; vm_compute; reflexivity.
Qed.

(** the hypotheses of [layout_independent] are satisfiable: the three-tier layout above and the
    layout that keeps the same events in memory only *)
Definition ex_L_mem : layout := mk_layout (events ex_L) [].
Lemma layout_independent_example :
  Permutation (events ex_L) (events ex_L_mem) /\
  leaves_sound w_sch (w_ideal ex_L_mem) ex_L_mem ex_q = true /\
  length (run_query w_sch (w_ideal ex_L_mem) ex_L_mem ex_q) = 4.
Proof.
  split; [|repeat split; vm_compute; reflexivity].
  assert (E : events ex_L_mem = events ex_L) by (vm_compute; reflexivity).
  rewrite E. apply Permutation_refl.
Qed.
