(** The FILTER expression grammar of PLOT (plotql.rs carries its own copy of the or / and / factor
    rules over its own leaves): printing a well-formed filter and parsing it with the PLOT grammar
    gives the filter back; NOT > AND > OR, parentheses and right-nesting as for QUERY. *)
From Coq Require Import NArith ZArith List Bool Lia.
From Coq Require Import ZifyBool ZifyNat ZifyN.
From Snel Require Import Base.Bytes Model.Tokenizer Model.Parser Model.PlotQL Model.Printer
  Proofs.ParserBasics Proofs.ExprRoundTrip Proofs.ExprRoundTripG Proofs.FuelProofs Proofs.PlotProofs
  Proofs.QueryRoundTrip Proofs.ParserProofs.
Import ListNotations.
Open Scope N_scope.

(** * well-formed PLOT filters: comparisons and non-empty IN lists over hyphen-free, non-keyword identifiers *)

Definition pid_syntax (i : bytes) : bool :=
  match i with c :: r => is_ident_start c && forallb is_pa r | [] => false end.
Definition wf_pident (i : bytes) : bool := pid_syntax i && negb (is_keyword (fst (span is_alpha i))).
Definition wf_pfield (f : bytes) : bool :=
  match split_dot f with
  | (a, None) => wf_pident a
  | (a, Some b2) => wf_pident a && pid_syntax b2
  end.

Definition wf_pleaf (e : expr) : bool :=
  match e with
  | ECmp f _ v => wf_pfield f && wf_val v
  | EIn f vs => wf_pfield f && negb (match vs with [] => true | _ => false end) && forallb wf_val vs
  | _ => false
  end.

Definition pistop (rest : bytes) : bool := negb (head_is (fun c => is_pa c || (c =? 45)) rest).
Definition pstop (rest : bytes) : bool := negb (head_is (fun c => is_pa c || (c =? 45) || (c =? 46)) rest).

Lemma pstop_pistop : forall rest, pstop rest = true -> pistop rest = true.
Proof. intros [|c r] H; [reflexivity|]. unfold pstop, pistop, head_is in *. cbv beta in *. destruct (is_pa c), (c =? 45); try discriminate; reflexivity. Qed.

Lemma pa_identchar : forall c, is_pa c = true -> is_ident_char c = true.
Proof. intros c H. unfold is_pa, is_alpha, is_digit in H. unfold is_ident_char, is_alpha, is_digit. lia. Qed.

Lemma pid_ident_syntax : forall i, pid_syntax i = true -> ident_syntax i = true.
Proof.
  intros [|c r] H; [discriminate|]. cbn [pid_syntax ident_syntax] in *. apply andb_prop in H as [H1 H2]. rewrite H1. cbn [andb].
  clear H1. induction r as [|x r IH]; [reflexivity|]. cbn [forallb] in *. apply andb_prop in H2 as [Hx Hr].
  rewrite (pa_identchar x Hx), (IH Hr). reflexivity.
Qed.

Lemma wf_pident_ident : forall i, wf_pident i = true -> wf_ident i = true.
Proof. intros i H. unfold wf_pident in H. apply andb_prop in H as [H1 H2]. unfold wf_ident. rewrite (pid_ident_syntax i H1), H2. reflexivity. Qed.

Lemma wf_pfield_field : forall f, wf_pfield f = true -> wf_field f = true.
Proof.
  intros f H. unfold wf_pfield in H. unfold wf_field. destruct (split_dot f) as [a [b2|]].
  - apply andb_prop in H as [H1 H2]. rewrite (wf_pident_ident a H1), (pid_ident_syntax b2 H2). reflexivity.
  - apply wf_pident_ident; auto.
Qed.

Lemma p_ident_print : forall i rest, pid_syntax i = true -> pistop rest = true -> p_ident (i ++ rest) = Some (i, rest).
Proof.
  intros [|c r] rest Hi Hr; [discriminate|]. cbn [pid_syntax] in Hi. apply andb_prop in Hi as [Hc Hr'].
  unfold p_ident. cbn [app]. rewrite Hc.
  assert (Hh : head_is is_pa rest = false).
  { destruct rest as [|x y]; [reflexivity|]. unfold pistop, head_is in *. cbv beta in Hr. destruct (is_pa x); [discriminate|reflexivity]. }
  rewrite (span_app is_pa r rest Hr' Hh).
  assert (Ht : pid_tail (length rest) rest = ([], rest)).
  { destruct rest as [|x y]; [reflexivity|]. cbn [length pid_tail]. unfold pistop, head_is in Hr. cbv beta in Hr.
    destruct (is_pa x); [discriminate|]. destruct (x =? 45); [discriminate|reflexivity]. }
  rewrite Ht, app_nil_r. reflexivity.
Qed.

Lemma pstop_cons : forall c r, pstop (c :: r) = true -> (c =? 46) = false.
Proof. intros c r H. unfold pstop, head_is in H. cbv beta in H. destruct (is_pa c), (c =? 45), (c =? 46); try discriminate; reflexivity. Qed.

Lemma p_field_print : forall f rest, wf_pfield f = true -> pstop rest = true -> p_field (f ++ rest) = Some (f, rest).
Proof.
  intros f rest Hf Hr. unfold wf_pfield in Hf.
  destruct (split_dot f) as [a o] eqn:S. apply split_dot_spec in S as [Hnd Hf'].
  unfold p_field. destruct o as [b2|].
  - apply andb_prop in Hf as [Ha Hb]. subst f. norm_app.
    unfold wf_pident in Ha. apply andb_prop in Ha as [Ha _].
    rewrite (p_ident_print a (46 :: b2 ++ rest) Ha eq_refl). cbn [N.eqb Pos.eqb].
    rewrite (p_ident_print b2 rest Hb (pstop_pistop _ Hr)). reflexivity.
  - subst f. unfold wf_pident in Hf. apply andb_prop in Hf as [Ha _].
    rewrite (p_ident_print a rest Ha (pstop_pistop _ Hr)). destruct rest as [|c r]; auto. rewrite (pstop_cons _ _ Hr). auto.
Qed.

Lemma head_ok_pstop : forall rest, head_ok rest = true -> pstop rest = true.
Proof.
  intros [|c r] H; [reflexivity|]. unfold head_ok in H. unfold pstop, head_is, is_pa, is_alpha, is_digit. cbv beta. lia.
Qed.

Lemma p_value_print : forall v rest, wf_val v = true -> val_stop rest = true -> p_value (print_val v ++ rest) = Ok (v, rest).
Proof.
  intros v rest Hv Hr. unfold p_value, alt. destruct v as [s|z|neg d fd|bv]; cbn [print_val wf_val] in *.
  - norm_app. rewrite (string_lit_print s rest Hv). auto.
  - destruct (dec_of_Z_shape z) as (neg & d & E & Hd & Hne & Hz). rewrite E. norm_app.
    assert (Hs : string_lit ((if neg then [45] else []) ++ d ++ rest) = None).
    { destruct neg; cbn [app]; [reflexivity|]. destruct d as [|c d']; [congruence|].
      apply is_some_string_lit_digit. unfold all_digits in Hd. cbn [forallb] in Hd. unfold is_digit in Hd. lia. }
    rewrite Hs. unfold number. rewrite (number_text_int neg d rest Hd Hne Hr).
    unfold conv_i64. rewrite Hz. rewrite Hv. auto.
  - destruct (wf_float_parts neg d fd Hv) as (Hd & Hfd & Hdne & Hfne & Hov).
    norm_app.
    assert (Hs : string_lit ((if neg then [45] else []) ++ d ++ 46 :: fd ++ rest) = None).
    { destruct neg; cbn [app]; [reflexivity|]. destruct d as [|c d']; [congruence|].
      apply is_some_string_lit_digit. unfold all_digits in Hd. cbn [forallb] in Hd. unfold is_digit in Hd. lia. }
    rewrite Hs. unfold number. rewrite (number_text_float neg d fd rest); auto.
    rewrite Hov. auto.
  - discriminate.
Qed.

Section PRT.
Variable sp : bytes -> bytes.
Hypothesis Hsp : speller_ok sp.

Lemma pfield_nows : forall f rest, wf_pfield f = true -> head_is is_tws (f ++ rest) = false.
Proof.
  intros f rest Hf. destruct (wf_field_head f rest (wf_pfield_field f Hf)) as (c & r & E & Hc). rewrite E.
  unfold head_is. unfold is_ident_start, is_alpha in Hc. unfold is_tws. lia.
Qed.

Lemma pleaf_cmp : forall f o v rest, wf_pfield f = true -> wf_val v = true -> head_ok rest = true ->
  p_leaf (f ++ 32 :: print_op o ++ 32 :: print_val v ++ rest) = Ok (ECmp f o v, rest).
Proof.
  intros f o v rest Hf Hv Hr. unfold p_leaf, alt, p_comparison, bind, p_fieldp, lift, skip, ret.
  rewrite (p_field_print f (32 :: _) Hf eq_refl).
  rewrite ws_space, (ws_nows _ (print_op_head o _)), print_op_step.
  rewrite ws_space, (ws_nows _ (print_val_head v _ Hv)).
  rewrite (p_value_print v rest Hv (head_ok_fld_stop _ Hr)). auto.
Qed.

Lemma pleaf_in : forall f vs rest, wf_pfield f = true -> vs <> [] -> forallb wf_val vs = true ->
  p_leaf (f ++ 32 :: sp K_IN ++ 32 :: 40 :: print_vals vs ++ 41 :: rest) = Ok (EIn f vs, rest).
Proof.
  intros f vs rest Hf Hne Hv. unfold p_leaf, alt.
  assert (Hc : p_comparison (f ++ 32 :: sp K_IN ++ 32 :: 40 :: print_vals vs ++ 41 :: rest) = Err).
  { unfold p_comparison, bind, p_fieldp, lift, skip. rewrite (p_field_print f (32 :: _) Hf eq_refl).
    rewrite ws_space, (ws_nows _ (alpha_not_ws _ (sp_head_alpha sp Hsp K_IN _ ltac:(kw_in)))).
    rewrite (cmp_op_alpha _ (sp_head_alpha sp Hsp K_IN _ ltac:(kw_in))). auto. }
  rewrite Hc. unfold p_in_expr, bind, p_fieldp, lift, skip, kw, sym, ret.
  rewrite (p_field_print f (32 :: _) Hf eq_refl).
  rewrite ws_space, (ws_nows _ (alpha_not_ws _ (sp_head_alpha sp Hsp K_IN _ ltac:(kw_in)))).
  rewrite (ci_sp sp Hsp K_IN (32 :: _) ltac:(kw_in) eq_refl).
  rewrite ws_space, (ws_nows (40 :: _) eq_refl), lit_hit.
  destruct vs as [|v vs']; [congruence|]. cbn [forallb] in Hv. apply andb_prop in Hv as [Hv1 Hv2].
  unfold print_vals, sep_print. norm_app.
  rewrite (ws_nows _ (print_val_head v _ Hv1)).
  unfold p_value_list, bind.
  rewrite (p_value_print v); [|auto|destruct vs'; reflexivity].
  change (fun s1 : bytes => match comma_sep s1 with Some s2 => p_value s2 | None => Err end) with (sepstep p_value comma_sep).
  rewrite (many_sep_tail _ print_val p_value (fun r => val_stop r = true) vs' (41 :: rest)); auto.
  - intros x r Hx Hr. apply p_value_print; auto. rewrite forallb_forall in Hv2. auto.
  - intros x r Hx. apply print_val_head. rewrite forallb_forall in Hv2. auto.
  - pose proof (flat_map_len_ge _ print_val vs' (41 :: rest)). lia.
Qed.

Lemma wf_pleaf_cmp_print : forall f o v lvl, wf_val v = true ->
  print_expr_at sp lvl (ECmp f o v) = f ++ 32 :: print_op o ++ 32 :: print_val v.
Proof. intros f o v lvl Hv. destruct v as [| | |[|]]; try discriminate; destruct o; reflexivity. Qed.

Lemma pleaf_ok : forall e lvl rest, is_leafe e = true -> wf_pleaf e = true -> fstop rest ->
  ci K_NOT (print_expr_at sp lvl e ++ rest) = None /\ lit 40 (print_expr_at sp lvl e ++ rest) = None /\
  p_leaf (print_expr_at sp lvl e ++ rest) = Ok (e, rest).
Proof.
  intros [f o v|f vs|x y|x y|x] lvl rest Hl Hw (Hh & _ & _); try discriminate; cbn [wf_pleaf] in Hw.
  - apply andb_prop in Hw as [Hf Hv]. rewrite (wf_pleaf_cmp_print f o v lvl Hv). norm_app.
    pose proof (wf_pfield_field f Hf) as Hff. repeat split.
    + apply (leaf_not_not f (32 :: _)); auto.
    + apply leaf_not_paren; auto.
    + apply pleaf_cmp; auto.
  - apply andb_prop in Hw as [Hw Hv]. apply andb_prop in Hw as [Hf Hne]. cbn [print_expr_at]. norm_app.
    pose proof (wf_pfield_field f Hf) as Hff. repeat split.
    + apply (leaf_not_not f (32 :: _)); auto.
    + apply leaf_not_paren; auto.
    + apply pleaf_in; auto. destruct vs; [discriminate|congruence].
Qed.

Lemma pleaf_head : forall e lvl rest, is_leafe e = true -> wf_pleaf e = true ->
  exists c r, print_expr_at sp lvl e ++ rest = c :: r /\ goodhead c = true.
Proof.
  intros [f o v|f vs|x y|x y|x] lvl rest Hl Hw; try discriminate; cbn [wf_pleaf] in Hw.
  - apply andb_prop in Hw as [Hf Hv]. rewrite (wf_pleaf_cmp_print f o v lvl Hv). norm_app.
    destruct (wf_field_head f (32 :: print_op o ++ 32 :: print_val v ++ rest) (wf_pfield_field f Hf)) as (c & r & E & Hc).
    rewrite E. exists c, r. split; auto. unfold goodhead. rewrite Hc. auto.
  - apply andb_prop in Hw as [Hw Hv]. apply andb_prop in Hw as [Hf Hne]. cbn [print_expr_at]. norm_app.
    destruct (wf_field_head f (32 :: sp K_IN ++ 32 :: 40 :: print_vals vs ++ 41 :: rest) (wf_pfield_field f Hf)) as (c & r & E & Hc).
    rewrite E. exists c, r. split; auto. unfold goodhead. rewrite Hc. auto.
Qed.

(** well-formed PLOT filters *)
Definition wf_pexpr : expr -> bool := wf_g wf_pleaf.

Lemma plot_print_at : forall e rest, wf_pexpr e = true -> ostop rest ->
  p_expression (print_expr sp e ++ rest) = Ok (e, rest).
Proof.
  intros e rest Hw Hst. destruct (rt_expr_g p_leaf sp Hsp wf_pleaf pleaf_ok pleaf_head e Hw) as [f0 R].
  unfold p_expression. set (s := print_expr sp e ++ rest).
  pose proof (proj1 (expr_noof_g p_leaf p_leaf_c p_leaf_n (expr_fuel s) s) ltac:(unfold expr_fuel; lia)) as Hn.
  pose proof (or_expr_mono_g p_leaf (expr_fuel s) (Nat.max f0 (expr_fuel s)) s _ ltac:(lia) eq_refl Hn) as Hm.
  destruct (R (Nat.max f0 (expr_fuel s)) ltac:(lia) rest) as (Ho & _ & _).
  unfold s in *. unfold print_expr in *. rewrite (Ho Hst) in Hm. auto.
Qed.

End PRT.

(** the FILTER grammar on a whole text *)
Definition plot_filter (s : bytes) : res expr :=
  match p_expression s with
  | Ok (e, []) => Ok e
  | Ok (_, _ :: _) => Err
  | Err => Err | Panic k => Panic k | OOF => OOF
  end.

Theorem plot_parse_print_expr : forall sp e, speller_ok sp -> wf_pexpr e = true ->
  plot_filter (print_expr sp e) = Ok e.
Proof.
  intros sp e Hsp Hw. unfold plot_filter.
  pose proof (plot_print_at sp Hsp e [] Hw ostop_nil) as H. rewrite app_nil_r in H. rewrite H. auto.
Qed.

(** * Precedence and associativity in PLOT filters *)
Section PPrecedence.
Variable sp : bytes -> bytes.
Hypothesis Hsp : speller_ok sp.
Variables a b c : expr.
Hypothesis Ha : wf_pexpr a = true.
Hypothesis Hb : wf_pexpr b = true.
Hypothesis Hc : wf_pexpr c = true.
Hypothesis Fa : is_factor a = true.
Hypothesis Fb : is_factor b = true.
Hypothesis Fc : is_factor c = true.

Let A := print_expr_at sp 2 a.
Let B := print_expr_at sp 2 b.
Let C := print_expr_at sp 2 c.
Let AND := 32 :: sp K_AND ++ [32].
Let OR := 32 :: sp K_OR ++ [32].
Let NOT := sp K_NOT ++ [32].

Ltac by_print e :=
  match goal with |- plot_filter ?s = _ =>
    replace s with (print_expr sp e);
    [apply plot_parse_print_expr; auto; unfold wf_pexpr in *; cbn [wf_g]; rewrite ?Ha, ?Hb, ?Hc; reflexivity
    |unfold print_expr; cbn [print_expr_at Nat.ltb Nat.leb];
     rewrite ?(factor_level_indep sp a 1 Fa), ?(factor_level_indep sp b 1 Fb), ?(factor_level_indep sp c 1 Fc),
             ?(factor_level_indep sp a 0 Fa), ?(factor_level_indep sp b 0 Fb), ?(factor_level_indep sp c 0 Fc);
     unfold A, B, C, AND, OR, NOT; repeat (rewrite <- app_assoc || rewrite <- app_comm_cons); cbn [app]; reflexivity]
  end.

Lemma plot_precedence_all :
  plot_filter (A ++ OR ++ B ++ AND ++ C) = Ok (EOr a (EAnd b c)) /\
  plot_filter (A ++ AND ++ B ++ OR ++ C) = Ok (EOr (EAnd a b) c) /\
  plot_filter (NOT ++ A ++ AND ++ B) = Ok (EAnd (ENot a) b) /\
  plot_filter (NOT ++ A ++ OR ++ B) = Ok (EOr (ENot a) b) /\
  plot_filter (40 :: A ++ OR ++ B ++ 41 :: AND ++ C) = Ok (EAnd (EOr a b) c) /\
  plot_filter (NOT ++ 40 :: A ++ AND ++ B ++ [41]) = Ok (ENot (EAnd a b)) /\
  plot_filter (A ++ AND ++ B ++ AND ++ C) = Ok (EAnd a (EAnd b c)) /\
  plot_filter (A ++ OR ++ B ++ OR ++ C) = Ok (EOr a (EOr b c)) /\
  plot_filter (40 :: A ++ AND ++ B ++ 41 :: AND ++ C) = Ok (EAnd (EAnd a b) c).
Proof.
  split; [by_print (EOr a (EAnd b c))|]. split; [by_print (EOr (EAnd a b) c)|].
  split; [by_print (EAnd (ENot a) b)|]. split; [by_print (EOr (ENot a) b)|].
  split; [by_print (EAnd (EOr a b) c)|]. split; [by_print (ENot (EAnd a b))|].
  split; [by_print (EAnd a (EAnd b c))|]. split; [by_print (EOr a (EOr b c))|by_print (EAnd (EAnd a b) c)].
Qed.

End PPrecedence.

Example plot_precedence_example :
  let a := ECmp [97] OpGt (VInt 1) in wf_pexpr a = true /\ is_factor a = true.
Proof. split; reflexivity. Qed.
