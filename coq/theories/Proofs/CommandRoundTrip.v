(** Printing then parsing a well-formed Query command through the public entry point
    [parse_command] (trim, tokenize + validate, switch on the first word, peg grammar). *)
From Coq Require Import NArith ZArith Arith List Bool Lia.
From Coq Require Import ZifyBool ZifyNat ZifyN.
From Snel Require Import Base.Bytes Model.Tokenizer Model.Parser Model.Command Model.Printer
  Proofs.ParserBasics Proofs.ExprRoundTrip Proofs.QueryRoundTrip Proofs.LexProofs.
Import ListNotations.
Open Scope N_scope.

(** * character classes of the printed pieces *)

Definition piece (t : bytes) : Prop := neutral t /\ endok t.

Lemma alpha_outc : forall c, is_alpha c = true -> outc c = true /\ edge_ok c = true.
Proof.
  intros c H. unfold is_alpha in H.
  unfold outc, edge_ok, is_tws, is_digit, is_symchar, is_wordchar, is_alnum, is_alpha, is_digit, is_ascii_ws. lia.
Qed.

Lemma identchar_outc : forall c, is_ident_char c = true -> outc c = true /\ edge_ok c = true.
Proof.
  intros c H. unfold is_ident_char, is_alpha, is_digit in H.
  unfold outc, edge_ok, is_tws, is_digit, is_symchar, is_wordchar, is_alnum, is_alpha, is_digit, is_ascii_ws. lia.
Qed.

Lemma digit_outc : forall c, is_digit c = true -> outc c = true /\ edge_ok c = true.
Proof.
  intros c H. unfold is_digit in H.
  unfold outc, edge_ok, is_tws, is_digit, is_symchar, is_wordchar, is_alnum, is_alpha, is_digit, is_ascii_ws. lia.
Qed.

Lemma forallb_impl2 : forall (p : N -> bool) t, (forall c, p c = true -> outc c = true /\ edge_ok c = true) ->
  forallb p t = true -> forallb outc t = true /\ forallb edge_ok t = true.
Proof.
  intros p t H. induction t as [|c t IH]; intro Hp; [split; reflexivity|]. cbn [forallb] in *.
  apply andb_prop in Hp as [Hc Hp]. destruct (H c Hc) as [H1 H2]. destruct (IH Hp) as [I1 I2]. rewrite H1, H2, I1, I2. auto.
Qed.

Lemma piece_of_chars : forall t, t <> [] -> forallb outc t = true -> forallb edge_ok t = true -> piece t.
Proof. intros t Hne H1 H2. split; [apply neutral_plain; auto|apply endok_nonempty_all; auto]. Qed.

Section CRT.
Variable sp : bytes -> bytes.
Hypothesis Hsp : speller_ok sp.

Lemma kw_piece : forall K, In K keywords -> piece (sp K).
Proof.
  intros K HK. destruct (K_alpha K HK) as [Ha Hne].
  pose proof (speller_alpha sp K Hsp Ha) as Hal. pose proof (speller_nonempty sp K Hsp Hne) as Hn.
  destruct (forallb_impl2 is_alpha (sp K) alpha_outc Hal) as [H1 H2]. apply piece_of_chars; auto.
Qed.

Lemma ident_chars : forall i, ident_syntax i = true -> i <> [] /\ forallb outc i = true /\ forallb edge_ok i = true.
Proof.
  intros [|c r] H; [discriminate|]. cbn [ident_syntax] in H. apply andb_prop in H as [Hc Hr].
  assert (Hc' : is_ident_char c = true) by (unfold is_ident_start, is_alpha in Hc; unfold is_ident_char, is_alpha, is_digit; lia).
  destruct (identchar_outc c Hc') as [C1 C2]. destruct (forallb_impl2 is_ident_char r identchar_outc Hr) as [R1 R2].
  split; [congruence|]. cbn [forallb]. rewrite C1, C2, R1, R2. auto.
Qed.

Lemma ident_piece : forall i, ident_syntax i = true -> piece i.
Proof. intros i H. destruct (ident_chars i H) as (H0 & H1 & H2). apply piece_of_chars; auto. Qed.

Lemma field_piece : forall f, wf_field f = true -> piece f.
Proof.
  intros f Hf. unfold wf_field in Hf. destruct (split_dot f) as [a o] eqn:S. apply split_dot_spec in S as [_ Hf'].
  destruct o as [b2|].
  - apply andb_prop in Hf as [Ha Hb]. subst f. destruct (ident_chars a (wf_ident_syntax _ Ha)) as (A0 & A1 & A2).
    destruct (ident_chars b2 Hb) as (B0 & B1 & B2). apply piece_of_chars.
    + destruct a; [congruence|discriminate].
    + rewrite forallb_app. cbn [forallb]. rewrite A1, B1. reflexivity.
    + rewrite forallb_app. cbn [forallb]. rewrite A2, B2. reflexivity.
  - subst f. apply ident_piece, wf_ident_syntax; auto.
Qed.

Lemma quoted_piece : forall s, no_quote s = true -> no_backslash s = true -> piece (34 :: s ++ [34]).
Proof.
  intros s H1 H2. split; [apply neutral_quoted; auto|].
  change (34 :: s ++ [34]) with ((34 :: s) ++ [34]). apply endok_last. reflexivity.
Qed.

Lemma digits_piece : forall d, d <> [] -> all_digits d = true -> piece d.
Proof.
  intros d Hne Hd. destruct (forallb_impl2 is_digit d digit_outc Hd) as [H1 H2]. apply piece_of_chars; auto.
Qed.

Lemma piece_app : forall a b, neutral a -> piece b -> piece (a ++ b).
Proof. intros a b Ha [Hb1 Hb2]. split; [apply neutral_app; auto|apply endok_app; auto]. Qed.
Lemma piece_cons : forall c b, outc c = true -> piece b -> piece (c :: b).
Proof. intros c b Hc [Hb1 Hb2]. split; [apply neutral_cons; auto|apply endok_cons; auto]. Qed.

Lemma dec_of_N_piece : forall n, piece (dec_of_N n).
Proof. intro n. destruct (dec_of_N_spec n) as (H1 & H2 & _). apply digits_piece; auto. Qed.

Lemma val_piece : forall v, wf_val v = true -> clean_val v = true -> piece (print_val v).
Proof.
  intros [s|z|neg d fd|bv] Hw Hc; cbn [print_val wf_val clean_val] in *.
  - apply quoted_piece; auto.
  - destruct (dec_of_Z_shape z) as (neg & d & E & Hd & Hne & _). rewrite E.
    destruct neg; [apply (piece_cons 45); [reflexivity|]|]; apply digits_piece; auto.
  - destruct (wf_float_parts neg d fd Hw) as (Hd & Hfd & Hdne & Hfne & _).
    assert (P : piece (d ++ 46 :: fd)).
    { destruct (digits_piece d Hdne Hd) as [N1 _]. apply piece_app; auto. apply piece_cons; [reflexivity|]. apply digits_piece; auto. }
    destruct neg; [apply (piece_cons 45); [reflexivity|exact P]|exact P].
  - discriminate.
Qed.

Lemma op_neutral : forall o, neutral (print_op o).
Proof. intros []; apply neutral_plain; reflexivity. Qed.

Lemma vals_neutral : forall vs, forallb wf_val vs = true -> forallb clean_val vs = true -> neutral (print_vals vs).
Proof.
  intros vs Hw Hc. unfold print_vals, sep_print. destruct vs as [|v vs]; [apply neutral_nil|].
  cbn [forallb] in Hw, Hc. apply andb_prop in Hw as [Hv Hw]. apply andb_prop in Hc as [Cv Hc].
  apply neutral_app; [apply (val_piece v Hv Cv)|].
  induction vs as [|x vs IH]; [apply neutral_nil|]. cbn [forallb] in Hw, Hc.
  apply andb_prop in Hw as [Hx Hw]. apply andb_prop in Hc as [Cx Hc]. cbn [flat_map].
  change (44 :: 32 :: print_val x) with ([44; 32] ++ print_val x). rewrite <- app_assoc.
  apply neutral_app; [apply neutral_plain; reflexivity|]. apply neutral_app; [apply (val_piece x Hx Cx)|auto].
Qed.

Lemma expr_piece : forall e lvl, wf_expr e = true -> clean_expr e = true -> piece (print_expr_at sp lvl e).
Proof.
  induction e as [f o v | f vs | x IHx y IHy | x IHx y IHy | x IHx]; intros lvl Hw Hc.
  - destruct (wf_cmp sp f o v lvl Hw) as [Hf [(-> & -> & E)|(Hv & E)]]; rewrite E.
    + apply field_piece; auto.
    + destruct (field_piece f Hf) as [F1 _]. apply piece_app; auto. apply piece_cons; [reflexivity|].
      apply piece_app; [apply op_neutral|]. apply piece_cons; [reflexivity|]. apply val_piece; auto.
  - cbn [wf_expr clean_expr print_expr_at] in *. apply andb_prop in Hw as [Hf Hv].
    destruct (field_piece f Hf) as [F1 _]. destruct (kw_piece K_IN ltac:(cbn; tauto)) as [K1 _].
    apply piece_app; auto. apply piece_cons; [reflexivity|]. apply piece_app; auto.
    apply piece_cons; [reflexivity|]. apply piece_cons; [reflexivity|].
    split; [apply neutral_app; [apply vals_neutral; auto|apply neutral_plain; reflexivity]|apply endok_last; reflexivity].
  - cbn [wf_expr clean_expr print_expr_at] in *. apply andb_prop in Hw as [Hx Hy]. apply andb_prop in Hc as [Cx Cy].
    destruct (IHx 2%nat Hx Cx) as [X1 _]. destruct (kw_piece K_AND ltac:(cbn; tauto)) as [K1 _].
    assert (P : piece (print_expr_at sp 2 x ++ 32 :: sp K_AND ++ 32 :: print_expr_at sp 1 y)).
    { apply piece_app; auto. apply piece_cons; [reflexivity|]. apply piece_app; auto. apply piece_cons; [reflexivity|]. apply IHy; auto. }
    destruct (Nat.ltb 1 lvl); [|exact P].
    destruct P as [P1 _]. split; [apply neutral_cons; [reflexivity|]; apply neutral_app; [exact P1|apply neutral_plain; reflexivity]|].
    change (40 :: (print_expr_at sp 2 x ++ 32 :: sp K_AND ++ 32 :: print_expr_at sp 1 y) ++ [41])
      with ((40 :: print_expr_at sp 2 x ++ 32 :: sp K_AND ++ 32 :: print_expr_at sp 1 y) ++ [41]). apply endok_last. reflexivity.
  - cbn [wf_expr clean_expr print_expr_at] in *. apply andb_prop in Hw as [Hx Hy]. apply andb_prop in Hc as [Cx Cy].
    destruct (IHx 1%nat Hx Cx) as [X1 _]. destruct (kw_piece K_OR ltac:(cbn; tauto)) as [K1 _].
    assert (P : piece (print_expr_at sp 1 x ++ 32 :: sp K_OR ++ 32 :: print_expr_at sp 0 y)).
    { apply piece_app; auto. apply piece_cons; [reflexivity|]. apply piece_app; auto. apply piece_cons; [reflexivity|]. apply IHy; auto. }
    destruct (Nat.ltb 0 lvl); [|exact P].
    destruct P as [P1 _]. split; [apply neutral_cons; [reflexivity|]; apply neutral_app; [exact P1|apply neutral_plain; reflexivity]|].
    change (40 :: (print_expr_at sp 1 x ++ 32 :: sp K_OR ++ 32 :: print_expr_at sp 0 y) ++ [41])
      with ((40 :: print_expr_at sp 1 x ++ 32 :: sp K_OR ++ 32 :: print_expr_at sp 0 y) ++ [41]). apply endok_last. reflexivity.
  - cbn [wf_expr clean_expr print_expr_at] in *. destruct (kw_piece K_NOT ltac:(cbn; tauto)) as [K1 _].
    apply piece_app; auto. apply piece_cons; [reflexivity|]. apply IHx; auto.
Qed.

(** ** clauses *)

Definition clean_clause (c : clause) : bool :=
  match c with
  | ClFor s | ClSince s => no_backslash s
  | ClWhere e => clean_expr e
  | ClReturn l => forallb no_backslash l
  | _ => true
  end.

Ltac kwp K := destruct (kw_piece K ltac:(cbn; tauto)) as [?N ?E].

Lemma list_neutral : forall A (pr : A -> bytes) (l : list A), (forall x, In x l -> neutral (pr x)) -> neutral (sep_print pr l).
Proof.
  intros A pr l H. unfold sep_print. destruct l as [|x l]; [apply neutral_nil|].
  apply neutral_app; [apply H; left; auto|].
  assert (H' : forall y, In y l -> neutral (pr y)) by (intros; apply H; right; auto). clear H.
  induction l as [|y l IH]; [apply neutral_nil|]. cbn [flat_map].
  change (44 :: 32 :: pr y) with ([44; 32] ++ pr y). rewrite <- app_assoc.
  apply neutral_app; [apply neutral_plain; reflexivity|]. apply neutral_app; [apply H'; left; auto|].
  apply IH. intros; apply H'; right; auto.
Qed.

Lemma list_piece : forall A (pr : A -> bytes) (l : list A), l <> [] -> (forall x, In x l -> piece (pr x)) -> piece (sep_print pr l).
Proof.
  intros A pr l Hne H. split; [apply list_neutral; intros; apply H; auto|].
  unfold sep_print. destruct l as [|x l]; [congruence|].
  assert (H' : forall y, In y l -> piece (pr y)) by (intros; apply H; right; auto).
  destruct l as [|y l]; [cbn [flat_map]; rewrite app_nil_r; apply H; left; auto|].
  apply endok_app. clear H Hne x.
  revert y H'. induction l as [|z l IH]; intros y H'.
  - cbn [flat_map]. rewrite app_nil_r. apply endok_cons, endok_cons. apply H'. left; auto.
  - cbn [flat_map]. apply endok_app. apply (IH z). intros w Hw. apply H'. right; auto.
Qed.

Lemma agg_piece : forall a, wf_agg a = true -> piece (print_agg sp a).
Proof.
  intros [[f|]|f|f|f|f|f] H; cbn [print_agg wf_agg] in *.
  - kwp K_COUNT. kwp K_UNIQUE. apply piece_app; auto. apply piece_cons; [reflexivity|]. apply piece_app; auto.
    apply piece_cons; [reflexivity|]. apply field_piece; auto.
  - apply kw_piece. cbn; tauto.
  - kwp K_COUNT. apply piece_app; auto. apply piece_cons; [reflexivity|]. apply field_piece; auto.
  - kwp K_TOTAL. apply piece_app; auto. apply piece_cons; [reflexivity|]. apply field_piece; auto.
  - kwp K_AVG. apply piece_app; auto. apply piece_cons; [reflexivity|]. apply field_piece; auto.
  - kwp K_MIN. apply piece_app; auto. apply piece_cons; [reflexivity|]. apply field_piece; auto.
  - kwp K_MAX. apply piece_app; auto. apply piece_cons; [reflexivity|]. apply field_piece; auto.
Qed.

Lemma clause_piece : forall c, wf_clause c = true -> clean_clause c = true -> piece (print_clause sp c).
Proof.
  intros c Hw Hc. destruct c as [s|s|l|f|e|f|f|l|g u|l u|n|n|f d]; cbn [print_clause wf_clause clean_clause] in *.
  - kwp K_FOR. apply piece_app; auto. apply piece_cons; [reflexivity|]. apply quoted_piece; auto.
  - kwp K_SINCE. apply piece_app; auto. apply piece_cons; [reflexivity|]. apply quoted_piece; auto.
  - kwp K_RETURN. apply piece_app; auto. apply piece_cons; [reflexivity|]. apply piece_cons; [reflexivity|].
    split; [|apply endok_last; reflexivity].
    apply neutral_app; [|apply neutral_plain; reflexivity]. unfold print_list. apply list_neutral.
    intros x Hx. rewrite forallb_forall in Hw, Hc. apply (quoted_piece x); auto.
  - kwp K_LINKED. kwp K_BY. apply piece_app; auto. apply piece_cons; [reflexivity|]. apply piece_app; auto.
    apply piece_cons; [reflexivity|]. apply ident_piece, wf_ident_syntax; auto.
  - kwp K_WHERE. apply piece_app; auto. apply piece_cons; [reflexivity|]. apply expr_piece; auto.
  - kwp K_USING. apply piece_app; auto. apply piece_cons; [reflexivity|]. apply field_piece; auto.
  - kwp K_USING. kwp K_TIME. apply piece_app; auto. apply piece_cons; [reflexivity|]. apply piece_app; auto.
    apply piece_cons; [reflexivity|]. apply field_piece; auto.
  - apply andb_prop in Hw as [Hne Hl]. unfold print_aggs. apply list_piece; [destruct l; [discriminate|congruence]|].
    intros x Hx. rewrite forallb_forall in Hl. apply agg_piece; auto.
  - kwp K_PER. apply piece_app; auto. apply piece_cons; [reflexivity|]. apply kw_piece. destruct g; cbn; tauto.
  - apply andb_prop in Hw as [Hw _]. apply andb_prop in Hw as [Hne Hl]. kwp K_BY.
    apply piece_app; auto. apply piece_cons; [reflexivity|]. unfold print_list. apply list_piece; [destruct l; [discriminate|congruence]|].
    intros x Hx. rewrite forallb_forall in Hl. apply field_piece; auto.
  - kwp K_LIMIT. apply piece_app; auto. apply piece_cons; [reflexivity|]. apply dec_of_N_piece.
  - kwp K_OFFSET. apply piece_app; auto. apply piece_cons; [reflexivity|]. apply dec_of_N_piece.
  - kwp K_ORDER. kwp K_BY. destruct (field_piece f Hw) as [F1 _].
    apply piece_app; auto. apply piece_cons; [reflexivity|]. apply piece_app; auto. apply piece_cons; [reflexivity|].
    apply piece_app; auto. apply piece_cons; [reflexivity|]. apply kw_piece. destruct d; cbn; tauto.
Qed.

Definition all_clean (cs : list clause) : Prop := Forall (fun c => clean_clause c = true) cs.

Lemma clean_optl : forall A (o : option A) (f : A -> clause) (p : A -> bool) r,
  wf_opt p o = true -> (forall a, p a = true -> clean_clause (f a) = true) -> all_clean r -> all_clean (optl o f ++ r).
Proof. intros A [a|] f p r Ho Hf Hr; cbn [optl app]; auto. constructor; auto. Qed.

Lemma clean_optl_any : forall A (o : option A) (f : A -> clause) r,
  (forall a, clean_clause (f a) = true) -> all_clean r -> all_clean (optl o f ++ r).
Proof. intros A [a|] f r Hf Hr; cbn [optl app]; auto. constructor; auto. Qed.

Lemma clauses_clean : forall q, clean_query q = true -> all_clean (clauses_of q).
Proof.
  intros q H. unfold clean_query in H.
  apply andb_prop in H as [H W4]. apply andb_prop in H as [H W3]. apply andb_prop in H as [W1 W2].
  unfold clauses_of.
  apply (clean_optl _ _ _ _ _ W1); [auto|]. apply (clean_optl _ _ _ _ _ W2); [auto|].
  apply clean_optl_any; [reflexivity|]. apply clean_optl_any; [reflexivity|].
  apply (clean_optl _ _ _ _ _ W3); [auto|]. apply (clean_optl _ _ _ _ _ W4); [auto|].
  apply clean_optl_any; [reflexivity|]. apply clean_optl_any; [reflexivity|].
  apply clean_optl_any; [reflexivity|]. apply clean_optl_any; [reflexivity|].
  apply clean_optl_any; [reflexivity|]. apply clean_optl_any; [reflexivity|].
  rewrite <- (app_nil_r (optl (q_offset q) ClOffset)). apply clean_optl_any; [reflexivity|constructor].
Qed.

Lemma ctexts_neutral : forall cs, all_wf cs -> all_clean cs -> neutral (flat_map (ctext sp) cs).
Proof.
  induction cs as [|c cs IH]; intros Hw Hc; [apply neutral_nil|].
  inversion Hw; subst. inversion Hc; subst. cbn [flat_map]. apply neutral_app; auto.
  unfold ctext. apply neutral_cons; [reflexivity|]. apply (clause_piece c); auto.
Qed.

Lemma ctexts_endok : forall cs, cs <> [] -> all_wf cs -> all_clean cs -> endok (flat_map (ctext sp) cs).
Proof.
  induction cs as [|c cs IH]; intros Hne Hw Hc; [congruence|].
  inversion Hw; subst. inversion Hc; subst. cbn [flat_map]. destruct cs as [|c' cs'].
  - cbn [flat_map]. rewrite app_nil_r. unfold ctext. apply endok_cons. apply (clause_piece c); auto.
  - apply endok_app. apply IH; auto. congruence.
Qed.

Lemma link_piece : forall l, wf_ident (snd l) = true -> piece (print_link sp l).
Proof.
  intros [d e] H. cbn [snd] in H. unfold print_link. cbn [fst snd].
  assert (Hd : In (match d with FollowedBy => K_FOLLOWED | PrecededBy => K_PRECEDED end) keywords) by (destruct d; cbn; tauto).
  destruct (kw_piece _ Hd) as [D1 _]. kwp K_BY.
  apply piece_cons; [reflexivity|]. apply piece_app; auto. apply piece_cons; [reflexivity|]. apply piece_app; auto.
  apply piece_cons; [reflexivity|]. apply ident_piece, wf_ident_syntax; auto.
Qed.

Lemma links_neutral : forall ls, forallb (fun l => wf_ident (snd l)) ls = true -> neutral (flat_map (print_link sp) ls).
Proof.
  induction ls as [|l ls IH]; intro H; [apply neutral_nil|]. cbn [forallb] in H. apply andb_prop in H as [H1 H2].
  cbn [flat_map]. apply neutral_app; auto. apply (link_piece l H1).
Qed.

Lemma links_endok : forall ls, ls <> [] -> forallb (fun l => wf_ident (snd l)) ls = true -> endok (flat_map (print_link sp) ls).
Proof.
  induction ls as [|l ls IH]; intros Hne H; [congruence|]. cbn [forallb] in H. apply andb_prop in H as [H1 H2].
  cbn [flat_map]. destruct ls as [|l' ls'].
  - cbn [flat_map]. rewrite app_nil_r. apply (link_piece l H1).
  - apply endok_app. apply IH; auto. congruence.
Qed.

(** * the printed query as a whole *)

Lemma query_text_piece : forall q, wf_query q = true -> clean_query q = true -> piece (print_query sp q).
Proof.
  intros q Hq Hc. pose proof (clauses_wf q Hq) as Hcw. pose proof (clauses_clean q Hc) as Hcc.
  assert (Hev : wf_ident (q_event q) = true /\ forallb (fun l => wf_ident (snd l)) (q_seq q) = true).
  { unfold wf_query in Hq. do 12 (apply andb_prop in Hq as [Hq _]). apply andb_prop in Hq. exact Hq. }
  destruct Hev as [Hev Hls].
  rewrite (print_query_eq sp), concat_map_flat_map.
  kwp K_QUERY. destruct (ident_piece _ (wf_ident_syntax _ Hev)) as [V1 V2].
  pose proof (links_neutral _ Hls) as L1. pose proof (ctexts_neutral _ Hcw Hcc) as C1.
  split.
  - apply neutral_app; auto. apply neutral_cons; [reflexivity|]. apply neutral_app; auto. apply neutral_app; auto.
  - apply endok_app. apply endok_cons.
    destruct (clauses_of q) as [|c cs] eqn:Ecs.
    + cbn [flat_map]. rewrite app_nil_r. destruct (q_seq q) as [|l ls] eqn:Els.
      * cbn [flat_map]. rewrite app_nil_r. exact V2.
      * apply endok_app. apply links_endok; [congruence|exact Hls].
    + apply endok_app, endok_app. apply ctexts_endok; [congruence|exact Hcw|exact Hcc].
Qed.

(** the first token of a printed query is the word QUERY (in the speller's casing) *)
Lemma first_token : forall rest, exists ts, tokenize (sp K_QUERY ++ 32 :: rest) = TWord (sp K_QUERY) :: ts.
Proof.
  intro rest. destruct (K_alpha K_QUERY ltac:(cbn; tauto)) as [Ha Hne].
  pose proof (speller_alpha sp K_QUERY Hsp Ha) as Hal. pose proof (speller_nonempty sp K_QUERY Hsp Hne) as Hn.
  destruct (sp K_QUERY) as [|c w] eqn:E; [congruence|]. unfold all_alpha in Hal. cbn [forallb] in Hal.
  apply andb_prop in Hal as [Hc Hw]. unfold tokenize. cbn [app length tokenize_fuel]. unfold next_token.
  unfold is_alpha in Hc.
  replace (is_tws c) with false by (unfold is_tws; lia). replace (c =? 123) with false by lia.
  replace (c =? 125) with false by lia. replace (c =? 59) with false by lia. replace (c =? 34) with false by lia.
  replace (is_digit c || (c =? 45)) with false by (unfold is_digit; lia).
  replace (is_symchar c) with false
    by (destruct (is_symchar c) eqn:Sy; [apply symchar_side in Sy; unfold sym_side, is_alpha in Sy; lia|reflexivity]).
  replace (c =? 91) with false by lia. replace (c =? 93) with false by lia. replace (c =? 40) with false by lia.
  replace (c =? 41) with false by lia. replace (128 <=? c) with false by lia.
  replace (is_wordchar c) with true by (unfold is_wordchar, is_alnum, is_alpha, is_digit; lia).
  assert (Hww : forallb is_wordchar w = true).
  { clear -Hw. induction w as [|x w IH]; [reflexivity|]. cbn [forallb] in *. apply andb_prop in Hw as [Hx Hw].
    rewrite (IH Hw). unfold is_alpha in Hx. unfold is_wordchar, is_alnum, is_alpha, is_digit. lia. }
  rewrite (span_app is_wordchar w (32 :: rest) Hww eq_refl). eexists. reflexivity.
Qed.

End CRT.

Theorem parse_print_command : forall fx sp q, speller_ok sp -> wf_query q = true -> clean_query q = true ->
  parse_command fx (print_query sp q) = POk (CQuery q).
Proof.
  intros fx sp q Hsp Hq Hc. destruct (query_text_piece sp Hsp q Hq Hc) as [Hn (body & cl & Ebody & Hcl)].
  pose proof (print_query_eq sp q) as Epq.
  destruct (K_alpha K_QUERY ltac:(cbn; tauto)) as [Ha Hne].
  pose proof (speller_alpha sp K_QUERY Hsp Ha) as Hal. pose proof (speller_nonempty sp K_QUERY Hsp Hne) as Hnn.
  (* trim is the identity *)
  assert (Hhead : exists c0 r, print_query sp q = c0 :: r /\ is_alpha c0 = true).
  { rewrite Epq. destruct (sp K_QUERY) as [|k0 ks] eqn:Ek; [congruence|]. cbn [app]. eexists. eexists. split; [reflexivity|].
    unfold all_alpha in Hal. cbn [forallb] in Hal. apply andb_prop in Hal. tauto. }
  destruct Hhead as (c0 & r & Es & Hc0).
  assert (Htrim : utrim (print_query sp q) = print_query sp q).
  { rewrite Es. apply (utrim_id c0 r body cl); [rewrite <- Es; exact Ebody|apply (alpha_outc c0 Hc0)|exact Hcl]. }
  unfold parse_command, parse_command_with. rewrite Htrim.
  (* the tokenizer finds nothing invalid *)
  assert (Hlex : lex_ok false (print_query sp q) = true).
  { specialize (Hn []). rewrite app_nil_r in Hn. rewrite Hn. reflexivity. }
  destruct (clean_valid _ (tokens_clean (length (print_query sp q)) _ Hlex)) as [Hv Hd].
  fold (tokenize (print_query sp q)) in Hv, Hd. rewrite Hd, Hv. cbn [negb].
  (* the first word *)
  rewrite Epq at 1. destruct (first_token sp Hsp (q_event q ++ concat (map (print_link sp) (q_seq q)) ++ flat_map (ctext sp) (clauses_of q))) as [ts Et].
  rewrite Et.
  assert (Hci : forall K, ci_eqb (sp K_QUERY) K = bytes_eqb (map to_upper K_QUERY) (map to_upper K)).
  { intro K. unfold ci_eqb. rewrite (Hsp K_QUERY). reflexivity. }
  rewrite !Hci.
  change (bytes_eqb (map to_upper K_QUERY) (map to_upper K_DEFINE)) with false.
  change (bytes_eqb (map to_upper K_QUERY) (map to_upper K_STORE)) with false.
  change (bytes_eqb (map to_upper K_QUERY) (map to_upper K_REMEMBER)) with false.
  change (bytes_eqb (map to_upper K_QUERY) (map to_upper K_QUERY)) with true.
  cbn [orb]. rewrite (parse_print_query fx sp Hsp q Hq). reflexivity.
Qed.
