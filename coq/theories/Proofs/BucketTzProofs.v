From Coq Require Import ZArith Lia.
From Snel Require Import Base.Civil Model.Bucket Model.BucketTz Proofs.BucketProofs.
Open Scope Z_scope.

(** the bucket contains the instant, and its start is on the LOCAL calendar boundary *)
Lemma bucket_off_contains : forall ws off secs g, 0 <= ws <= 6 ->
  calendar_bucket_secs_off ws off secs g <= secs < calendar_next_secs_off ws off secs g.
Proof.
  intros ws off secs g Hws. unfold calendar_bucket_secs_off, calendar_next_secs_off.
  pose proof (bucket_contains ws (secs + off) g Hws). lia.
Qed.

Lemma bucket_off_on_local_boundary : forall ws off secs g, 0 <= ws <= 6 ->
  on_boundary ws g (calendar_bucket_secs_off ws off secs g + off).
Proof.
  intros ws off secs g Hws. unfold calendar_bucket_secs_off.
  replace (calendar_bucket_secs ws (secs + off) g - off + off) with (calendar_bucket_secs ws (secs + off) g) by lia.
  apply bucket_on_boundary; exact Hws.
Qed.

(** hour buckets of a zone whose offset is not a whole number of hours do NOT start on a UTC hour *)
Example half_hour_zone_hour_bucket :
  calendar_bucket_secs_off 0 19800 1700000000 GHour = 1699997400
  /\ 1699997400 mod 3600 = 1800.
Proof. split; vm_compute; reflexivity. Qed.
