(** Proofs about Model/Order.v (C10). *)
From Coq Require Import ZArith NArith List Bool Lia Permutation Sorting.Sorted.
From Coq Require Import ZifyBool ZifyNat ZifyN.
From Snel Require Import Base.Bytes Base.OrdF64 Gen.Params Model.Order Proofs.SortMergeProofs Proofs.F64Proofs.
Import ListNotations.

(** * Basic total preorders *)

Lemma Zcompare_tp : total_preorder Z.compare.
Proof.
  split.
  - intros a b. apply Z.compare_antisym.
  - intros a b c. unfold cle. rewrite !Z.compare_gt_iff. lia.
Qed.

Lemma bool_cmp_tp : total_preorder bool_cmp.
Proof.
  split.
  - intros [|] [|]; reflexivity.
  - intros [|] [|] [|]; unfold cle; cbn; congruence.
Qed.

Lemma bytes_cmp_tp : total_preorder bytes_cmp.
Proof.
  split.
  - induction a as [|x a IH]; intros [|y b]; cbn; try reflexivity.
    rewrite (N.compare_antisym x y). destruct (N.compare x y); cbn; auto.
  - unfold cle. induction a as [|x a IH]; intros [|y b] [|z c]; cbn; try congruence.
    destruct (N.compare_spec x y), (N.compare_spec y z), (N.compare_spec x z);
      try congruence; try lia.
    apply IH.
Qed.

Lemma proj_tp : forall {A B} (f : A -> B) (c : B -> B -> comparison),
  total_preorder c -> total_preorder (fun a b => c (f a) (f b)).
Proof.
  intros A B f c [S T]. split.
  - intros a b. apply S.
  - intros a b d. apply T.
Qed.

Lemma opt_cmp_tp : forall {A} (c : A -> A -> comparison),
  total_preorder c -> total_preorder (opt_cmp c).
Proof.
  intros A c [S T]. split.
  - intros [a|] [b|]; cbn; auto.
  - intros [a|] [b|] [d|]; unfold cle; cbn; try congruence. apply T.
Qed.

Lemma typed_compare_tp : forall k, total_preorder (typed_compare k).
Proof.
  intros []; unfold typed_compare.
  - apply (proj_tp as_i64), opt_cmp_tp, Zcompare_tp.
  - apply (proj_tp as_u64), opt_cmp_tp, Zcompare_tp.
  - apply (proj_tp (fun a => match a with VFloat x _ => Some (f64_key x) | _ => None end)),
      opt_cmp_tp, Zcompare_tp.
  - apply (proj_tp num_key), opt_cmp_tp, Zcompare_tp.
  - apply (proj_tp (fun a => match a with VBool x => Some x | _ => None end)), opt_cmp_tp, bool_cmp_tp.
  - apply (proj_tp (fun a => match a with VStr s => s | _ => [] end)), bytes_cmp_tp.
Qed.

(** * String renderings are non-empty where needed *)

Lemma dec_digits_fuel_nonempty : forall f n acc, dec_digits_fuel (S f) n acc <> [].
Proof.
  induction f as [|f IH]; intros n acc; cbn [dec_digits_fuel].
  - destruct (n / 10 =? 0)%N; discriminate.
  - destruct (n / 10 =? 0)%N; [discriminate|]. apply IH.
Qed.

Lemma dec_of_Z_nonempty : forall z, dec_of_Z z <> [].
Proof.
  intros [|p|p]; cbn [dec_of_Z]; try discriminate; unfold dec_of_N; apply dec_digits_fuel_nonempty.
Qed.

Lemma bytes_cmp_nil_l : forall s, s <> [] -> bytes_cmp [] s = Lt.
Proof. intros [|c s] H; [congruence|reflexivity]. Qed.

Lemma parse_int_nonempty : forall s z, parse_int s = Some z -> s <> [].
Proof. intros [|c s] z H; [discriminate|discriminate]. Qed.

Lemma parse_i64_nonempty : forall s z, parse_i64 s = Some z -> s <> [].
Proof.
  intros s z H. unfold parse_i64 in H. destruct (parse_int s) eqn:E; [|discriminate].
  eapply parse_int_nonempty; eassumption.
Qed.

Lemma parse_u64_int : forall s z, parse_u64 s = Some z -> parse_int s = Some z.
Proof.
  intros s z H. unfold parse_u64 in H. destruct (starts_with_minus s); [discriminate|].
  destruct (parse_int s) as [y|]; [|discriminate].
  destruct ((0 <=? y) && (y <=? u64_hi)); congruence.
Qed.

Lemma parse_u64_nonempty : forall s z, parse_u64 s = Some z -> s <> [].
Proof. intros s z H. eapply parse_int_nonempty, parse_u64_int, H. Qed.

Lemma parse_u64_i64_agree : forall s x y, parse_u64 s = Some x -> parse_i64 s = Some y -> x = y.
Proof.
  intros s x y Hu Hi. apply parse_u64_int in Hu. unfold parse_i64 in Hi. rewrite Hu in Hi.
  destruct ((i64_lo <=? x) && (x <=? i64_hi)); congruence.
Qed.

(** * [scalar_compare] is the typed order on each column kind *)

Lemma scalar_compare_null_l : forall b,
  to_string_repr b <> [] -> scalar_compare VNull b = Lt.
Proof. intros b H. unfold scalar_compare. cbn. now apply bytes_cmp_nil_l. Qed.

Lemma scalar_compare_null_r : forall a,
  to_string_repr a <> [] -> as_str a = None \/ True -> scalar_compare a VNull = Gt.
Proof.
  intros a H _. unfold scalar_compare.
  replace (as_u64 VNull) with (@None Z) by reflexivity.
  replace (as_i64 VNull) with (@None Z) by reflexivity.
  replace (as_f64 VNull) with (@None N) by reflexivity.
  replace (as_bool VNull) with (@None bool) by reflexivity.
  replace (as_str VNull) with (@None bytes) by reflexivity.
  destruct (as_u64 a), (as_i64 a), (as_f64 a), (as_bool a), (as_str a); cbn [to_string_repr];
    destruct (to_string_repr a) eqn:E; solve [congruence | reflexivity].
Qed.

Theorem cmp_total_on_kind : forall k a b,
  in_kind k a = true -> in_kind k b = true ->
  scalar_compare a b = typed_compare k a b.
Proof.
  intros k a b Ha Hb. destruct k; cbn [in_kind] in Ha, Hb.
  - (* KInt *)
    destruct a as [| |xa| |xa| |], b as [| |xb| |xb| |]; cbn in Ha, Hb; try discriminate;
      try reflexivity;
      try (cbn [typed_compare as_i64 opt_cmp]; apply scalar_compare_null_l; apply dec_of_Z_nonempty);
      try (cbn [typed_compare as_i64 opt_cmp]; apply scalar_compare_null_r; [apply dec_of_Z_nonempty|auto]);
      unfold scalar_compare; cbn [as_u64 as_i64 typed_compare opt_cmp];
      destruct (0 <=? xa), (0 <=? xb); reflexivity.
  - (* KU64 *)
    assert (Hsome : forall v, is_u64like v = true -> v = VNull \/ exists z, as_u64 v = Some z).
    { intros v Hv. destruct v; cbn in *; try discriminate; eauto.
      - rewrite Hv. eauto.
      - rewrite Hv. eauto.
      - destruct (parse_u64 s); [eauto|discriminate]. }
    assert (Hrepr : forall v z, as_u64 v = Some z -> to_string_repr v <> []).
    { intros v z Hz. destruct v; cbn in *; try discriminate; try apply dec_of_Z_nonempty.
      eapply parse_u64_nonempty; eassumption. }
    destruct (Hsome a Ha) as [->|[x Hx]], (Hsome b Hb) as [->|[y Hy]].
    + reflexivity.
    + cbn [typed_compare]. rewrite Hy. cbn. apply scalar_compare_null_l. eauto.
    + cbn [typed_compare]. rewrite Hx. cbn. apply scalar_compare_null_r; eauto.
    + cbn [typed_compare]. rewrite Hx, Hy. cbn [opt_cmp]. unfold scalar_compare. now rewrite Hx, Hy.
  - (* KFloat *)
    destruct a as [| | |xa ra| | |], b as [| | |xb rb| | |]; cbn in Ha, Hb; try discriminate.
    + reflexivity.
    + cbn [typed_compare opt_cmp]. apply scalar_compare_null_l. cbn. destruct rb; [|discriminate].
      cbn in Hb. rewrite andb_false_r in Hb. discriminate.
    + cbn [typed_compare opt_cmp]. apply scalar_compare_null_r; [|auto]. cbn. destruct ra; [|discriminate].
      cbn in Ha. rewrite andb_false_r in Ha. discriminate.
    + cbn [typed_compare opt_cmp]. unfold scalar_compare. cbn [as_u64 as_i64 as_f64].
      unfold f64_partial_cmp.
      destruct (f64_is_nan xa); [discriminate|]. destruct (f64_is_nan xb); [discriminate|]. reflexivity.
  - (* KNum *)
    assert (Hint : forall x y, is_numlike (VInt x) = true -> is_numlike (VInt y) = true ->
              Z.compare x y = Z.compare (f64_key (f64_of_Z x)) (f64_key (f64_of_Z y))).
    { intros x y Hx Hy. cbn in Hx, Hy. unfold num_int_bound in *.
      symmetry. apply (int_key_compare x y); unfold two53; lia. }
    assert (Hnan : forall x, is_numlike (VInt x) = true -> f64_is_nan (f64_of_Z x) = false).
    { intros x Hx. cbn in Hx. unfold num_int_bound in *. apply int_not_nan. unfold two53. lia. }
    assert (Hii : forall x y, is_numlike (VInt x) = true -> is_numlike (VInt y) = true ->
              forall a' b', as_u64 a' = (if 0 <=? x then Some x else None) -> as_i64 a' = Some x ->
                            as_u64 b' = (if 0 <=? y then Some y else None) -> as_i64 b' = Some y ->
              scalar_compare a' b' = Z.compare (f64_key (f64_of_Z x)) (f64_key (f64_of_Z y))).
    { intros x y Hx Hy a' b' U1 I1 U2 I2. unfold scalar_compare. rewrite U1, I1, U2, I2, <- (Hint x y Hx Hy).
      destruct (0 <=? x), (0 <=? y); reflexivity. }
    assert (Hif : forall x xb rb, is_numlike (VInt x) = true -> is_numlike (VFloat xb rb) = true ->
              forall a', as_u64 a' = (if 0 <=? x then Some x else None) -> as_i64 a' = Some x ->
                         as_f64 a' = Some (f64_of_Z x) ->
              scalar_compare a' (VFloat xb rb) = Z.compare (f64_key (f64_of_Z x)) (f64_key xb)
              /\ scalar_compare (VFloat xb rb) a' = Z.compare (f64_key xb) (f64_key (f64_of_Z x))).
    { intros x xb rb Hx Hf a' U I F. unfold scalar_compare. rewrite U, I, F. cbn [as_u64 as_i64 as_f64].
      unfold f64_partial_cmp. rewrite (Hnan x Hx). cbn in Hf. destruct (f64_is_nan xb); [discriminate|].
      cbn. destruct (0 <=? x); split; reflexivity. }
    destruct a as [| |xa|xa ra|xa| |], b as [| |xb|xb rb|xb| |]; try discriminate;
      cbn [typed_compare num_key opt_cmp]; try reflexivity;
      try (apply scalar_compare_null_l; cbn; first [apply dec_of_Z_nonempty
             | cbn in Hb; destruct rb; [rewrite andb_false_r in Hb; discriminate|discriminate]]);
      try (apply scalar_compare_null_r; [|auto]; cbn; first [apply dec_of_Z_nonempty
             | cbn in Ha; destruct ra; [rewrite andb_false_r in Ha; discriminate|discriminate]]);
      try (apply (Hii xa xb Ha Hb); reflexivity);
      try (apply (Hif xa xb rb Ha Hb); reflexivity);
      try (apply (Hif xb xa ra Hb Ha); reflexivity).
    unfold scalar_compare. cbn [as_u64 as_i64 as_f64]. unfold f64_partial_cmp.
    cbn in Ha, Hb. destruct (f64_is_nan xa); [discriminate|]. destruct (f64_is_nan xb); [discriminate|]. reflexivity.
  - (* KBool *)
    destruct a as [|xa| | | | |], b as [|xb| | | | |]; cbn in Ha, Hb; try discriminate; try reflexivity.
    + destruct xb; reflexivity.
    + destruct xa; reflexivity.
  - (* KStr *)
    destruct a as [| | | | |sa|], b as [| | | | |sb|]; cbn in Ha, Hb; try discriminate; try reflexivity.
    + unfold scalar_compare. cbn [as_u64 as_i64 as_f64 as_str typed_compare].
      unfold plain_string in Ha.
      destruct (parse_u64 sa), (parse_i64 sa), (parse_f64 sa), (as_bool (VStr sa)); try discriminate.
      reflexivity.
    + unfold scalar_compare. cbn [as_u64 as_i64 as_f64 as_str typed_compare].
      unfold plain_string in Ha, Hb.
      destruct (parse_u64 sa), (parse_i64 sa), (parse_f64 sa), (as_bool (VStr sa)); try discriminate.
      destruct (parse_u64 sb), (parse_i64 sb), (parse_f64 sb), (as_bool (VStr sb)); try discriminate.
      reflexivity.
Qed.

(** * The comparator is not a total preorder on all values *)

Definition s9 : value := VStr [57%N].
Definition s10 : value := VStr [49%N; 48%N].
Definition s1a : value := VStr [49%N; 97%N].

(** "9" < "10" (as numbers), "10" < "1a" (as strings), but "1a" < "9" (as strings) *)
Lemma cmp_cycle_strings :
  scalar_compare s9 s10 = Lt /\ scalar_compare s10 s1a = Lt /\ scalar_compare s9 s1a = Gt.
Proof. vm_compute. auto. Qed.

Theorem cmp_total_refuted : ~ total_preorder scalar_compare.
Proof.
  intros [_ T]. destruct cmp_cycle_strings as (H1 & H2 & H3).
  apply (T s9 s10 s1a); unfold cle; congruence.
Qed.

(** 2^53 < 2^53+1 as integers, but both equal the double 2^53 *)
Definition i2p53 : value := VInt 9007199254740992.
Definition i2p53s : value := VInt 9007199254740993.
Definition f2p53 : value :=
  VFloat 4845873199050653696%N [57;48;48;55;49;57;57;50;53;52;55;52;48;57;57;50]%N.

Lemma cmp_cycle_int_float :
  scalar_compare i2p53 i2p53s = Lt /\ scalar_compare i2p53s f2p53 = Eq /\ scalar_compare f2p53 i2p53 = Eq.
Proof. vm_compute. auto. Qed.

(** * Outside the known classes the comparator behaves as a total preorder *)

Lemma coherent_kind : forall vs, coherent vs = true ->
  exists k, forall v, In v vs -> in_kind k v = true.
Proof.
  intros vs H. unfold coherent in H. apply existsb_exists in H. destruct H as (k & _ & Hk).
  exists k. rewrite forallb_forall in Hk. exact Hk.
Qed.

Lemma classify_none_coherent : forall vs, classify_column vs = None -> coherent vs = true.
Proof.
  intros vs H. unfold classify_column in H. destruct (coherent vs); [reflexivity|].
  destruct (forallb is_strnull vs); [discriminate|]. destruct (forallb is_numnull vs); discriminate.
Qed.

Theorem cmp_total_outside_known : forall a b c,
  classify_column [a; b; c] = None ->
  scalar_compare b a = CompOpp (scalar_compare a b)
  /\ (cle scalar_compare a b -> cle scalar_compare b c -> cle scalar_compare a c).
Proof.
  intros a b c H. apply classify_none_coherent, coherent_kind in H. destruct H as (k & Hk).
  assert (Ha : in_kind k a = true) by (apply Hk; cbn; auto).
  assert (Hb : in_kind k b = true) by (apply Hk; cbn; auto).
  assert (Hc : in_kind k c = true) by (apply Hk; cbn; auto).
  unfold cle. rewrite !(cmp_total_on_kind k) by assumption.
  destruct (typed_compare_tp k) as [S T]. split; [apply S|apply T].
Qed.

Example cmp_total_outside_known_nonvacuous :
  classify_column [VInt 3; VNull; VTs 20] = None
  /\ classify_column [s9; s10; s1a] = Some NumericLookingStrings
  /\ classify_column [i2p53; i2p53s; f2p53] = Some NumericMixed.
Proof. vm_compute. auto. Qed.

(** * Extensionality: the list functions only compare elements of their inputs *)
Section Ext.
  Context {A : Type}.
  Variable P : A -> Prop.

  Lemma insert_by_ext : forall c1 c2 x l,
    (forall a b, P a -> P b -> c1 a b = c2 a b) -> P x -> Forall P l ->
    insert_by c1 x l = insert_by c2 x l.
  Proof.
    intros c1 c2 x l H Hx. induction l as [|y r IH]; intros F; cbn; [reflexivity|].
    inversion F; subst. rewrite H by assumption. destruct (c2 x y); try reflexivity. now rewrite IH.
  Qed.

  Lemma insert_by_Forall : forall c x l, P x -> Forall P l -> Forall P (insert_by c x l).
  Proof.
    intros c x l Hx. induction l as [|y r IH]; intros F; cbn; [auto|].
    inversion F; subst. destruct (c x y); auto.
  Qed.

  Lemma sort_by_Forall : forall c l, Forall P l -> Forall P (sort_by c l).
  Proof.
    intros c l. induction l as [|x r IH]; intros F; cbn; [auto|].
    inversion F; subst. apply insert_by_Forall; auto.
  Qed.

  Lemma sort_by_ext : forall c1 c2 l,
    (forall a b, P a -> P b -> c1 a b = c2 a b) -> Forall P l -> sort_by c1 l = sort_by c2 l.
  Proof.
    intros c1 c2 l H. induction l as [|x r IH]; intros F; cbn; [reflexivity|].
    inversion F; subst. rewrite IH by assumption. apply insert_by_ext; auto using sort_by_Forall.
  Qed.

  Lemma pick_ext : forall b1 b2 ss i best,
    (forall x y, P (snd x) -> P (snd y) -> b1 x y = b2 x y) ->
    Forall (Forall P) ss -> (forall r, best = Some r -> P (snd r)) ->
    pick b1 i ss best = pick b2 i ss best.
  Proof.
    intros b1 b2 ss i best H. revert i best.
    induction ss as [|s ss IH]; intros i best F Hb; cbn [pick]; [reflexivity|].
    inversion F as [|? ? Fs Fss]; subst. destruct s as [|x s'].
    - apply IH; assumption.
    - inversion Fs; subst. destruct best as [b|].
      + rewrite H by (cbn; auto). destruct (b2 (i, x) b); apply IH; auto.
        intros r [= <-]. assumption.
      + apply IH; auto. intros r [= <-]. assumption.
  Qed.

  Lemma pick_P : forall b ss i best r,
    Forall (Forall P) ss -> (forall r, best = Some r -> P (snd r)) ->
    pick b i ss best = Some r -> P (snd r).
  Proof.
    intros b ss. induction ss as [|s ss IH]; intros i best r F Hb H; cbn [pick] in H.
    - auto.
    - inversion F as [|? ? Fs Fss]; subst. eapply IH; [exact Fss| |exact H].
      destruct s as [|x s']; [exact Hb|]. inversion Fs; subst.
      destruct best as [b0|]; [destruct (b (i, x) b0)|]; intros r0 [= <-]; auto.
  Qed.

  Lemma drop_head_FF : forall (ss : list (list A)) i, Forall (Forall P) ss -> Forall (Forall P) (drop_head i ss).
  Proof.
    induction ss as [|s ss IH]; intros i F; destruct i; cbn; auto; inversion F; subst; constructor; auto.
    destruct s; [constructor|]. cbn. now inversion H1.
  Qed.

  Lemma kmerge_fuel_ext : forall b1 b2 f ss,
    (forall x y, P (snd x) -> P (snd y) -> b1 x y = b2 x y) ->
    Forall (Forall P) ss -> kmerge_fuel b1 f ss = kmerge_fuel b2 f ss.
  Proof.
    intros b1 b2 f. induction f as [|f IH]; intros ss H F; cbn; [reflexivity|].
    rewrite (pick_ext b1 b2 ss O None H F) by discriminate.
    destruct (pick b2 O ss None) as [[i x]|]; [|reflexivity]. f_equal.
    apply IH; auto using drop_head_FF.
  Qed.

  Lemma merger_loop_ext : forall b1 b2 f ss sk lim em,
    (forall x y, P (snd x) -> P (snd y) -> b1 x y = b2 x y) ->
    Forall (Forall P) ss -> merger_loop b1 f ss sk lim em = merger_loop b2 f ss sk lim em.
  Proof.
    intros b1 b2 f. induction f as [|f IH]; intros ss sk lim em H F; cbn; [reflexivity|].
    rewrite (pick_ext b1 b2 ss O None H F) by discriminate.
    destruct (pick b2 O ss None) as [[i x]|]; [|reflexivity].
    rewrite !(IH (drop_head i ss)) by auto using drop_head_FF. reflexivity.
  Qed.
End Ext.

(** * The ordered pipeline *)
Section Pipeline.
  Context {A : Type}.
  Variable cmp : A -> A -> comparison.
  Hypothesis TP : total_preorder cmp.
  Variable asc : bool.

  Let before := heap_before cmp asc.
  Let dcmp := dir_cmp cmp asc.

  Lemma merger_run_spec : forall off lim ss,
    merger_run_g cmp asc off lim ss = take_opt lim (dropN off (kmerge before ss)).
  Proof.
    intros off lim ss. unfold merger_run_g. rewrite (merger_loop_spec cmp asc).
    destruct lim as [l|]; cbn [take_opt]; unfold kmerge; [|reflexivity].
    now rewrite N.sub_0_r.
  Qed.

  Lemma concat_perm : forall (l1 l2 : list (list A)),
    Forall2 (@Permutation A) l1 l2 -> Permutation (concat l1) (concat l2).
  Proof. intros l1 l2 H. induction H; cbn; [reflexivity|now apply Permutation_app]. Qed.

  (** DESIGN formula: per-part sort + truncate to [m+n], merge, slice = slice of the full sort *)
  Theorem topk_of_parts : forall (parts : list (list A)) (m n : N),
    Forall2 (ceq dcmp)
      (slice m n (kmerge before (map (fun p => takeN (m + n) (sort_by dcmp p)) parts)))
      (slice m n (sort_by dcmp (concat parts))).
  Proof.
    intros parts m n.
    apply (topk_of_parts_gen cmp TP asc parts _ (m + n)%N m n).
    - induction parts as [|p ps IH]; cbn; constructor; [|exact IH].
      exists (sort_by dcmp p). split; [apply sort_by_sorted, dir_cmp_tp, TP|].
      split; [apply sort_by_perm|reflexivity].
    - lia.
    - apply sort_by_sorted, dir_cmp_tp, TP.
    - apply sort_by_perm.
  Qed.

  (** each shard stream is the first [K] rows of a sorted arrangement of the shard's rows *)
  Lemma shard_stream_topk : forall K (flows : list (list A)),
    topk_of cmp asc K (concat flows)
            (takeN K (kmerge before (map (flow_sort_g cmp asc None) flows))).
  Proof.
    intros K flows. exists (kmerge before (map (flow_sort_g cmp asc None) flows)).
    assert (HS : Forall (sorted dcmp) (map (flow_sort_g cmp asc None) flows)).
    { apply Forall_forall. intros s Hs. apply in_map_iff in Hs. destruct Hs as (f & <- & _).
      unfold flow_sort_g. cbn [take_opt]. apply sort_by_sorted, dir_cmp_tp, TP. }
    destruct (kmerge_sorted_perm cmp TP asc _ HS) as [S P].
    split; [exact S|]. split; [|reflexivity].
    eapply Permutation_trans; [exact P|]. apply concat_perm.
    clear. induction flows as [|f fs IH]; cbn; constructor; [|exact IH].
    unfold flow_sort_g. cbn [take_opt]. apply sort_by_perm.
  Qed.

  (** ORDER BY .. LIMIT n [OFFSET m] over shards x flows: the rows returned are,
      position by position and up to the equivalence of the order, rows m .. m+n of
      the fully sorted selection *)
  Theorem ordered_slice : forall (n : N) (om : option N) (shards : list (list (list A))),
    let m := match om with Some o => o | None => 0%N end in
    Forall2 (ceq dcmp)
      (coord_ordered_g cmp asc (Some n) om shards)
      (slice m n (sort_by dcmp (concat (map (@concat A) shards)))).
  Proof.
    intros n om shards m. unfold coord_ordered_g. rewrite merger_run_spec. cbn [take_opt].
    fold m. change (takeN n (dropN m ?l)) with (slice m n l).
    apply (topk_of_parts_gen cmp TP asc (map (@concat A) shards) _ (n + m)%N m n).
    - induction shards as [|fl sh IH]; cbn [map]; constructor; [|exact IH].
      unfold shard_ordered_g. rewrite merger_run_spec. cbn [effective_limit take_opt].
      rewrite dropN_0. fold m. apply shard_stream_topk.
    - lia.
    - apply sort_by_sorted, dir_cmp_tp, TP.
    - apply sort_by_perm.
  Qed.

  (** ORDER BY without LIMIT: the whole selection, sorted *)
  Theorem ordered_full : forall (shards : list (list (list A))),
    Forall2 (ceq dcmp)
      (coord_ordered_g cmp asc None None shards)
      (sort_by dcmp (concat (map (@concat A) shards))).
  Proof.
    intros shards. unfold coord_ordered_g. rewrite merger_run_spec. cbn [take_opt]. rewrite dropN_0.
    set (streams := map (shard_ordered_g cmp asc None None) shards).
    assert (HS : Forall2 (fun p s => sorted dcmp s /\ Permutation s p) (map (@concat A) shards) streams).
    { subst streams. induction shards as [|fl sh IH]; cbn [map]; constructor; [|exact IH].
      unfold shard_ordered_g. rewrite merger_run_spec. cbn [effective_limit take_opt]. rewrite dropN_0.
      destruct (shard_stream_topk 0 fl) as (full & _). clear full.
      assert (HS : Forall (sorted dcmp) (map (flow_sort_g cmp asc None) fl)).
      { apply Forall_forall. intros s Hs. apply in_map_iff in Hs. destruct Hs as (f & <- & _).
        unfold flow_sort_g. cbn [take_opt]. apply sort_by_sorted, dir_cmp_tp, TP. }
      destruct (kmerge_sorted_perm cmp TP asc _ HS) as [S P]. split; [exact S|].
      eapply Permutation_trans; [exact P|]. apply concat_perm.
      clear. induction fl as [|f fs IH]; cbn; constructor; [|exact IH].
      unfold flow_sort_g. cbn [take_opt]. apply sort_by_perm. }
    assert (HS' : Forall (sorted dcmp) streams).
    { clear - HS. induction HS as [|? ? ? ? [S _] _ IH]; constructor; auto. }
    destruct (kmerge_sorted_perm cmp TP asc _ HS') as [S P].
    apply (sorted_perm_equiv dcmp (dir_cmp_tp cmp TP asc)); [exact S|apply sort_by_sorted, dir_cmp_tp, TP|].
    eapply Permutation_trans; [exact P|].
    eapply Permutation_trans; [|apply Permutation_sym, sort_by_perm].
    apply concat_perm. clear - HS.
    induction HS as [|? ? ? ? [_ P] _ IH]; constructor; auto.
  Qed.
End Pipeline.

(** ** Changing the comparator on rows where both agree *)
Section PipelineExt.
  Context {A : Type}.
  Variable P : A -> Prop.
  Variables c1 c2 : A -> A -> comparison.
  Hypothesis AG : forall a b, P a -> P b -> c1 a b = c2 a b.

  Lemma heap_before_agree : forall asc x y, P (snd x) -> P (snd y) ->
    heap_before c1 asc x y = heap_before c2 asc x y.
  Proof. intros asc x y Hx Hy. unfold heap_before, heap_item_cmp. now rewrite AG. Qed.

  Lemma dir_cmp_agree : forall asc a b, P a -> P b -> dir_cmp c1 asc a b = dir_cmp c2 asc a b.
  Proof. intros asc a b Ha Hb. unfold dir_cmp. now rewrite AG. Qed.

  Lemma takeN_Forall : forall n (l : list A), Forall P l -> Forall P (takeN n l).
  Proof.
    intros n l. revert n. induction l as [|x r IH]; intros n F; cbn; [constructor|].
    inversion F; subst. destruct (n =? 0)%N; constructor; auto.
  Qed.

  Lemma merger_loop_Forall : forall b f (ss : list (list A)) sk lim em,
    Forall (Forall P) ss -> Forall P (merger_loop b f ss sk lim em).
  Proof.
    intros b f. induction f as [|f IH]; intros ss sk lim em F; cbn; [constructor|].
    destruct (pick b O ss None) as [[i x]|] eqn:Ep; [|constructor].
    assert (Px : P x).
    { change x with (snd (i, x)). eapply pick_P; [exact F| |exact Ep]. discriminate. }
    destruct (match lim with Some l => (l <=? em)%N | None => false end); [constructor|].
    destruct (0 <? sk)%N; [apply IH, drop_head_FF, F|].
    constructor; [exact Px|].
    destruct (match lim with Some l => (l <=? N.succ em)%N | None => false end); [constructor|].
    apply IH, drop_head_FF, F.
  Qed.

  Lemma merger_run_ext : forall asc off lim (ss : list (list A)),
    Forall (Forall P) ss -> merger_run_g c1 asc off lim ss = merger_run_g c2 asc off lim ss.
  Proof.
    intros asc off lim ss F. unfold merger_run_g.
    apply (merger_loop_ext P); [|exact F]. intros x y. apply heap_before_agree.
  Qed.

  Lemma flow_sort_ext : forall asc lim (l : list A),
    Forall P l -> flow_sort_g c1 asc lim l = flow_sort_g c2 asc lim l.
  Proof.
    intros asc lim l F. unfold flow_sort_g. f_equal.
    apply (sort_by_ext P); [|exact F]. intros a b. apply dir_cmp_agree.
  Qed.

  Lemma flow_sort_Forall : forall c asc lim (l : list A), Forall P l -> Forall P (flow_sort_g c asc lim l).
  Proof.
    intros c asc lim l F. unfold flow_sort_g. destruct lim; cbn [take_opt].
    - apply takeN_Forall, sort_by_Forall, F.
    - apply sort_by_Forall, F.
  Qed.

  Lemma shard_ordered_ext : forall asc lim off (flows : list (list A)),
    Forall (Forall P) flows -> shard_ordered_g c1 asc lim off flows = shard_ordered_g c2 asc lim off flows.
  Proof.
    intros asc lim off flows F. unfold shard_ordered_g.
    replace (map (flow_sort_g c1 asc None) flows) with (map (flow_sort_g c2 asc None) flows).
    - apply merger_run_ext. apply Forall_forall. intros s Hs. apply in_map_iff in Hs.
      destruct Hs as (f & <- & Hf). apply flow_sort_Forall. rewrite Forall_forall in F. auto.
    - apply map_ext_in. intros f Hf. symmetry. apply flow_sort_ext. rewrite Forall_forall in F. auto.
  Qed.

  Lemma shard_ordered_Forall : forall c asc lim off (flows : list (list A)),
    Forall (Forall P) flows -> Forall P (shard_ordered_g c asc lim off flows).
  Proof.
    intros c asc lim off flows F. unfold shard_ordered_g, merger_run_g. apply merger_loop_Forall.
    apply Forall_forall. intros s Hs. apply in_map_iff in Hs.
    destruct Hs as (f & <- & Hf). apply flow_sort_Forall. rewrite Forall_forall in F. auto.
  Qed.

  Lemma coord_ordered_ext : forall asc lim off (shards : list (list (list A))),
    Forall (Forall (Forall P)) shards ->
    coord_ordered_g c1 asc lim off shards = coord_ordered_g c2 asc lim off shards.
  Proof.
    intros asc lim off shards F. unfold coord_ordered_g.
    replace (map (shard_ordered_g c1 asc lim off) shards) with (map (shard_ordered_g c2 asc lim off) shards).
    - apply merger_run_ext. apply Forall_forall. intros s Hs. apply in_map_iff in Hs.
      destruct Hs as (f & <- & Hf). apply shard_ordered_Forall. rewrite Forall_forall in F. auto.
    - apply map_ext_in. intros f Hf. symmetry. apply shard_ordered_ext. rewrite Forall_forall in F. auto.
  Qed.
End PipelineExt.

(** ** The concrete pipeline on columns of one kind *)
Definition trow_cmp (k : kind) (a b : row) : comparison := typed_compare k (fst a) (fst b).
Definition row_in (k : kind) (r : row) : Prop := in_kind k (fst r) = true.

Lemma trow_cmp_tp : forall k, total_preorder (trow_cmp k).
Proof. intros k. apply (proj_tp fst), typed_compare_tp. Qed.

Lemma row_cmp_agree : forall k a b, row_in k a -> row_in k b -> row_cmp a b = trow_cmp k a b.
Proof. intros k a b Ha Hb. apply cmp_total_on_kind; assumption. Qed.

Definition key_equiv (k : kind) (a b : row) : Prop := typed_compare k (fst a) (fst b) = Eq.

Lemma ceq_dir_key_equiv : forall k asc a b, ceq (dir_cmp (trow_cmp k) asc) a b <-> key_equiv k a b.
Proof.
  intros k asc a b. unfold ceq, dir_cmp, key_equiv, trow_cmp.
  destruct asc; [tauto|]. destruct (typed_compare k (fst a) (fst b)); cbn; split; congruence.
Qed.

Theorem ordered_query_slice : forall k asc n om (shards : list (list (list row))),
  Forall (Forall (Forall (row_in k))) shards ->
  let m := match om with Some o => o | None => 0%N end in
  Forall2 (key_equiv k)
    (coord_ordered asc (Some n) om shards)
    (slice m n (sort_by (dir_cmp row_cmp asc) (concat (map (@concat row) shards)))).
Proof.
  intros k asc n om shards F m. unfold coord_ordered.
  rewrite (coord_ordered_ext (row_in k) row_cmp (trow_cmp k) (row_cmp_agree k)) by exact F.
  rewrite (sort_by_ext (row_in k) (dir_cmp row_cmp asc) (dir_cmp (trow_cmp k) asc)).
  - eapply Forall2_imp; [|apply (ordered_slice (trow_cmp k) (trow_cmp_tp k) asc n om shards)].
    intros a b. apply ceq_dir_key_equiv.
  - intros a b. apply dir_cmp_agree. apply row_cmp_agree.
  - apply Forall_forall. intros r Hr. apply in_concat in Hr. destruct Hr as (l & Hl & Hr).
    apply in_map_iff in Hl. destruct Hl as (sh & <- & Hsh). apply in_concat in Hr.
    destruct Hr as (fl & Hfl & Hr). rewrite Forall_forall in F. specialize (F _ Hsh).
    rewrite Forall_forall in F. specialize (F _ Hfl). rewrite Forall_forall in F. auto.
Qed.

Theorem ordered_query_full : forall k asc (shards : list (list (list row))),
  Forall (Forall (Forall (row_in k))) shards ->
  Forall2 (key_equiv k)
    (coord_ordered asc None None shards)
    (sort_by (dir_cmp row_cmp asc) (concat (map (@concat row) shards))).
Proof.
  intros k asc shards F. unfold coord_ordered.
  rewrite (coord_ordered_ext (row_in k) row_cmp (trow_cmp k) (row_cmp_agree k)) by exact F.
  rewrite (sort_by_ext (row_in k) (dir_cmp row_cmp asc) (dir_cmp (trow_cmp k) asc)).
  - eapply Forall2_imp; [|apply (ordered_full (trow_cmp k) (trow_cmp_tp k) asc shards)].
    intros a b. apply ceq_dir_key_equiv.
  - intros a b. apply dir_cmp_agree. apply row_cmp_agree.
  - apply Forall_forall. intros r Hr. apply in_concat in Hr. destruct Hr as (l & Hl & Hr).
    apply in_map_iff in Hl. destruct Hl as (sh & <- & Hsh). apply in_concat in Hr.
    destruct Hr as (fl & Hfl & Hr). rewrite Forall_forall in F. specialize (F _ Hsh).
    rewrite Forall_forall in F. specialize (F _ Hfl). rewrite Forall_forall in F. auto.
Qed.

Example ordered_query_slice_nonvacuous :
  let shards := [[[(VInt 5, 0%N); (VNull, 1%N)]; [(VInt 3, 2%N)]]; [[(VInt 4, 3%N); (VInt 3, 4%N)]]] in
  Forall (Forall (Forall (row_in KInt))) shards
  /\ map snd (coord_ordered true (Some 2%N) (Some 1%N) shards) = [4%N; 2%N].
Proof. cbn. split; [repeat constructor|reflexivity]. Qed.

(** * The response writer: dedup by event id, skip m, stop at n *)
Section Writer.
  Context {A : Type}.

  (** first occurrence of every event id (rows without an id are all kept) *)
  Fixpoint dedup_go (seen : list N) (rows : list (option N * A)) : list (option N * A) :=
    match rows with
    | [] => []
    | (Some id, x) :: r => if mem_N id seen then dedup_go seen r
                           else (Some id, x) :: dedup_go (id :: seen) r
    | (None, x) :: r => (None, x) :: dedup_go seen r
    end.
  Definition dedup_rows := dedup_go [].

  Definition drop_opt (m : option N) (l : list (option N * A)) :=
    match m with Some k => dropN k l | None => l end.

  Lemma writer_go_spec : forall rows lim off seen sk em,
    (match off with Some o => sk <= o | None => True end)%N ->
    (em = 0 \/ match off with Some o => sk = o | None => True end)%N ->
    writer_go lim off seen sk em rows =
    map snd (match lim with
             | Some l => takeN (l - em)
             | None => fun x => x
             end (match off with
                  | Some o => dropN (o - sk)
                  | None => fun x => x
                  end (dedup_go seen rows))).
  Proof.
    induction rows as [|[oid x] r IH]; intros lim off seen sk em Hsk Hem.
    - cbn. destruct lim, off; cbn; reflexivity.
    - cbn [writer_go dedup_go]. destruct oid as [id|].
      + destruct (mem_N id seen) eqn:Em.
        * apply IH; assumption.
        * destruct off as [o|].
          -- destruct (N.ltb_spec sk o) as [Hlt|Hge].
             ++ rewrite IH by lia. cbn [dropN]. destruct (N.eqb_spec (o - sk) 0); [lia|].
                replace (N.pred (o - sk)) with (o - N.succ sk)%N by lia. reflexivity.
             ++ assert (o - sk = 0)%N by lia. rewrite H, dropN_0.
                destruct lim as [l|].
                ** destruct (N.leb_spec l em) as [Hf|Hf].
                   --- replace (l - em)%N with 0%N by lia. now rewrite takeN_0.
                   --- rewrite IH by lia. cbn [takeN]. destruct (N.eqb_spec (l - em) 0); [lia|].
                       cbn [map snd]. f_equal. rewrite H, dropN_0. f_equal. f_equal. lia.
                ** rewrite IH by lia. rewrite H, dropN_0. reflexivity.
          -- destruct lim as [l|].
             ++ destruct (N.leb_spec l em) as [Hf|Hf].
                --- replace (l - em)%N with 0%N by lia. now rewrite takeN_0.
                --- rewrite IH by auto. cbn [takeN]. destruct (N.eqb_spec (l - em) 0); [lia|].
                    cbn [map snd]. f_equal. f_equal. f_equal. lia.
             ++ rewrite IH by auto. reflexivity.
      + destruct off as [o|].
        * destruct (N.ltb_spec sk o) as [Hlt|Hge].
          -- rewrite IH by lia. cbn [dropN]. destruct (N.eqb_spec (o - sk) 0); [lia|].
             replace (N.pred (o - sk)) with (o - N.succ sk)%N by lia. reflexivity.
          -- assert (o - sk = 0)%N by lia. rewrite H, dropN_0.
             destruct lim as [l|].
             ++ destruct (N.leb_spec l em) as [Hf|Hf].
                --- replace (l - em)%N with 0%N by lia. now rewrite takeN_0.
                --- rewrite IH by lia. cbn [takeN]. destruct (N.eqb_spec (l - em) 0); [lia|].
                    cbn [map snd]. f_equal. rewrite H, dropN_0. f_equal. f_equal. lia.
             ++ rewrite IH by lia. rewrite H, dropN_0. reflexivity.
        * destruct lim as [l|].
          -- destruct (N.leb_spec l em) as [Hf|Hf].
             ++ replace (l - em)%N with 0%N by lia. now rewrite takeN_0.
             ++ rewrite IH by auto. cbn [takeN]. destruct (N.eqb_spec (l - em) 0); [lia|].
                cbn [map snd]. f_equal. f_equal. f_equal. lia.
          -- rewrite IH by auto. reflexivity.
  Qed.

  Theorem writer_run_spec : forall lim off rows,
    writer_run lim off rows = map snd (take_opt lim (drop_opt off (dedup_rows rows))).
  Proof.
    intros lim off rows. unfold writer_run. rewrite writer_go_spec.
    - destruct lim, off; cbn [take_opt drop_opt]; rewrite ?N.sub_0_r; reflexivity.
    - destruct off; lia.
    - now left.
  Qed.

  (** ids of the deduplicated rows are pairwise distinct and were not seen before *)
  Fixpoint ids_of (l : list (option N * A)) : list N :=
    match l with
    | [] => []
    | (Some id, _) :: r => id :: ids_of r
    | (None, _) :: r => ids_of r
    end.

  Lemma mem_N_In : forall x l, mem_N x l = true <-> In x l.
  Proof.
    induction l as [|y r IH]; cbn; [split; [discriminate|tauto]|].
    rewrite orb_true_iff, IH, N.eqb_eq. split; intros [H|H]; auto.
  Qed.

  Lemma dedup_go_ids : forall rows seen,
    NoDup (ids_of (dedup_go seen rows)) /\ (forall id, In id (ids_of (dedup_go seen rows)) -> ~ In id seen).
  Proof.
    induction rows as [|[[id|] x] r IH]; intros seen; cbn [dedup_go ids_of].
    - split; [constructor|contradiction].
    - destruct (mem_N id seen) eqn:Em; [apply IH|].
      destruct (IH (id :: seen)) as [ND NI]. cbn [ids_of]. split.
      + constructor; [|exact ND]. intros Hin. apply NI in Hin. apply Hin. now left.
      + intros i [<-|Hi].
        * intros Hs. apply mem_N_In in Hs. congruence.
        * intros Hs. apply NI in Hi. apply Hi. now right.
    - apply IH.
  Qed.

  Lemma dedup_go_complete : forall rows seen id,
    In id (ids_of rows) -> In id seen \/ In id (ids_of (dedup_go seen rows)).
  Proof.
    induction rows as [|[[i|] x] r IH]; intros seen id H; cbn [dedup_go ids_of] in *.
    - contradiction.
    - destruct (mem_N i seen) eqn:Em.
      + destruct H as [<-|H]; [left; now apply mem_N_In|apply IH, H].
      + cbn [ids_of]. destruct H as [<-|H]; [right; now left|].
        destruct (IH (i :: seen) id H) as [[<-|Hs]|Hd]; [right; now left|now left|right; now right].
    - apply IH, H.
  Qed.

  Lemma dedup_go_sub : forall rows seen r, In r (dedup_go seen rows) -> In r rows.
  Proof.
    induction rows as [|[[i|] x] rs IH]; intros seen r H; cbn [dedup_go] in H.
    - contradiction.
    - destruct (mem_N i seen); [right; eapply IH, H|].
      destruct H as [<-|H]; [now left|right; eapply IH, H].
    - destruct H as [<-|H]; [now left|right; eapply IH, H].
  Qed.

  (** LIMIT n [OFFSET m] without ORDER BY: [min n (distinct - m)] rows, all distinct
      (by event id), all taken from the matching rows *)
  Theorem unordered_limit : forall n om (rows : list (option N * A)),
    let m := match om with Some o => o | None => 0%N end in
    let d := dedup_rows rows in
    writer_run (Some n) om rows = map snd (slice m n d)
    /\ N.of_nat (length (writer_run (Some n) om rows)) = N.min n (N.of_nat (length d) - m)
    /\ NoDup (ids_of d)
    /\ (forall id, In id (ids_of rows) <-> In id (ids_of d))
    /\ (forall r, In r d -> In r rows).
  Proof.
    intros n om rows m d.
    assert (E : writer_run (Some n) om rows = map snd (slice m n d)).
    { rewrite writer_run_spec. cbn [take_opt]. unfold slice. subst m d.
      destruct om; cbn [drop_opt]; [reflexivity|now rewrite dropN_0]. }
    split; [exact E|]. split; [rewrite E, map_length; apply slice_length|].
    subst d. unfold dedup_rows. destruct (dedup_go_ids rows []) as [ND _].
    split; [exact ND|]. split.
    - intros id. split.
      + intros H. destruct (dedup_go_complete rows [] id H) as [[]|H']; exact H'.
      + intros H. clear - H. revert H. generalize (@nil N).
        induction rows as [|[[i|] x] r IH]; intros seen H; cbn [dedup_go ids_of] in *.
        * contradiction.
        * destruct (mem_N i seen); [right; eapply IH, H|].
          cbn [ids_of] in H. destruct H as [<-|H]; [now left|right; eapply IH, H].
        * eapply IH, H.
    - intros r. apply dedup_go_sub.
  Qed.
End Writer.

Example unordered_limit_nonvacuous :
  writer_run (Some 2%N) (Some 1%N)
    [(Some 7%N, 0%N); (Some 7%N, 1%N); (Some 8%N, 2%N); (None, 3%N); (Some 9%N, 4%N)] = [2%N; 3%N].
Proof. reflexivity. Qed.

(** * Handler rule: OFFSET without LIMIT is rejected (and nothing else is) *)
Theorem offset_requires_limit : forall lim off,
  handler_precheck lim off = PreBadRequest <-> (off <> None /\ lim = None).
Proof.
  intros lim off. unfold handler_precheck.
  assert (E : query_offset_requires_limit = true) by reflexivity. rewrite E.
  destruct off as [o|], lim as [l|]; split; intros H; try discriminate; try tauto;
    try (destruct H as [H1 H2]; congruence).
  split; [discriminate|reflexivity].
Qed.
