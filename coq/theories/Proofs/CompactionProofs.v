(** Proofs about Model/Compaction.v for C05: compaction changes layout, never content. *)
From Coq Require Import NArith List Bool Lia Permutation.
From Coq Require Import ZifyBool ZifyNat ZifyN.
From Snel Require Import Model.Shard Proofs.ShardC03Proofs Model.Compaction.
Import ListNotations.
Open Scope N_scope.

(** [rows_of] below is the model's [Compaction.rows_of]; the C03 development has
    a convertible copy. *)
Lemma rows_of_same ds i : ShardC03Proofs.rows_of ds i = rows_of ds i.
Proof. reflexivity. Qed.

(** * Generic list facts *)

Lemma filter_none {A} (p : A -> bool) l : (forall x, In x l -> p x = false) -> filter p l = [].
Proof.
  induction l as [|x r IH]; cbn [filter]; intros H; [reflexivity|].
  rewrite (H x (or_introl eq_refl)). apply IH. intros y Hy. apply H. right. exact Hy.
Qed.

Lemma filter_all_in {A} (p : A -> bool) l : (forall x, In x l -> p x = true) -> filter p l = l.
Proof. intros H. apply filter_all, forallb_forall, H. Qed.

Lemma filter_filter {A} (p q : A -> bool) l : filter p (filter q l) = filter (fun x => q x && p x) l.
Proof.
  induction l as [|x r IH]; cbn [filter]; [reflexivity|].
  destruct (q x); cbn [filter andb]; [destruct (p x)|]; rewrite IH; reflexivity.
Qed.

Lemma filter_ext_in' {A} (p q : A -> bool) l : (forall x, In x l -> p x = q x) -> filter p l = filter q l.
Proof.
  induction l as [|x r IH]; cbn [filter]; intros H; [reflexivity|].
  rewrite (H x (or_introl eq_refl)), IH; [reflexivity|]. intros y Hy. apply H. right. exact Hy.
Qed.

Lemma perm_filter {A} (p : A -> bool) (a b : list A) : Permutation a b -> Permutation (filter p a) (filter p b).
Proof.
  induction 1 as [|x a b H IH|x y a|a b c H1 IH1 H2 IH2]; cbn [filter].
  - constructor.
  - destruct (p x); [constructor|]; exact IH.
  - destruct (p x), (p y); try reflexivity. apply perm_swap.
  - etransitivity; eassumption.
Qed.

Lemma perm_concat_split {A B} (f : A -> list B) (q : A -> bool) (l : list A) :
  Permutation (concat (map f l))
              (concat (map f (filter q l)) ++ concat (map f (filter (fun x => negb (q x)) l))).
Proof.
  induction l as [|x r IH]; cbn [map concat filter]; [constructor|].
  destruct (q x); cbn [negb map concat].
  - rewrite <- app_assoc. apply Permutation_app_head, IH.
  - rewrite IH. rewrite app_assoc, (Permutation_app_comm (f x)), <- app_assoc. reflexivity.
Qed.

Lemma len_perm {A} (a b : list A) : Permutation a b -> len a = len b.
Proof. intros H. unfold len. rewrite (Permutation_length H). reflexivity. Qed.

Lemma len_nil_iff {A} (l : list A) : len l = 0 <-> l = [].
Proof. destruct l; unfold len; cbn [length]; split; intros H; try reflexivity; try discriminate; lia. Qed.

(** * Rows of one event type *)

Lemma of_uid_app u a b : of_uid u (a ++ b) = of_uid u a ++ of_uid u b.
Proof. apply filter_app. Qed.

Lemma of_uid_concat u ls : of_uid u (concat ls) = concat (map (of_uid u) ls).
Proof.
  induction ls as [|x r IH]; cbn [concat map]; [reflexivity|]. rewrite of_uid_app, IH. reflexivity.
Qed.

Lemma of_uid_in u l e : In e (of_uid u l) <-> In e l /\ euid e = u.
Proof. unfold of_uid. rewrite filter_In, N.eqb_eq. tauto. Qed.

Lemma of_uid_perm u a b : Permutation a b -> Permutation (of_uid u a) (of_uid u b).
Proof. apply perm_filter. Qed.

Lemma of_uid_all u l : (forall e, In e l -> euid e = u) -> of_uid u l = l.
Proof. intros H. apply filter_all_in. intros e He. apply N.eqb_eq, H, He. Qed.

Lemma of_uid_none u l : (forall e, In e l -> euid e <> u) -> of_uid u l = [].
Proof. intros H. apply filter_none. intros e He. apply N.eqb_neq, H, He. Qed.

(** * Directories *)

Definition has_dir (ds : list segdir) (i : N) : Prop := exists d, In d ds /\ sid d = i.

Lemma in_rows_of ds i e : In e (rows_of ds i) <-> exists d, In d ds /\ sid d = i /\ In e (srows d).
Proof.
  unfold rows_of. rewrite in_concat. split.
  - intros (z & Hz & He). apply in_map_iff in Hz as (d & <- & Hd). apply filter_In in Hd as [Hd Hs].
    apply N.eqb_eq in Hs. exists d. auto.
  - intros (d & Hd & Hs & He). exists (srows d). split; [|exact He]. apply in_map, filter_In.
    split; [exact Hd | apply N.eqb_eq, Hs].
Qed.

Lemma rows_of_has_dir ds i e : In e (rows_of ds i) -> has_dir ds i.
Proof. intros H. apply in_rows_of in H as (d & Hd & Hs & _). exists d. auto. Qed.

Lemma rows_of_no_dir ds i : (forall d, In d ds -> sid d <> i) -> rows_of ds i = [].
Proof.
  intros H. unfold rows_of. rewrite filter_none; [reflexivity|].
  intros d Hd. apply N.eqb_neq, H, Hd.
Qed.

Lemma rows_of_app ds ds' i : rows_of (ds ++ ds') i = rows_of ds i ++ rows_of ds' i.
Proof. unfold rows_of. rewrite filter_app, map_app, concat_app. reflexivity. Qed.

Lemma rows_of_single i j r : rows_of [mkSeg j r] i = if j =? i then r else [].
Proof. unfold rows_of. cbn [filter sid]. destruct (j =? i); cbn [map concat srows]; [apply app_nil_r | reflexivity]. Qed.

Lemma rows_of_filter ds p i :
  (forall d, In d ds -> sid d = i -> p d = true) -> rows_of (filter p ds) i = rows_of ds i.
Proof.
  intros H. unfold rows_of. rewrite filter_filter. f_equal. f_equal. apply filter_ext_in'.
  intros d Hd. destruct (N.eqb_spec (sid d) i) as [E|E]; [|destruct (p d); reflexivity].
  rewrite (H d Hd E). reflexivity.
Qed.

Lemma in_seg_rows s e :
  In e (seg_rows s) <->
  exists d, In d (dirs s) /\ (In (sid d) (live s) \/ In (sid d) (inflight s)) /\ In e (srows d).
Proof.
  unfold seg_rows, scanned_dirs. rewrite in_concat. split.
  - intros (z & Hz & He). apply in_map_iff in Hz as (d & <- & Hd). apply filter_In in Hd as [Hd Hs].
    apply orb_true_iff in Hs. rewrite !memb_true in Hs. exists d. auto.
  - intros (d & Hd & Hs & He). exists (srows d). split; [|exact He]. apply in_map, filter_In.
    split; [exact Hd|]. apply orb_true_iff. rewrite !memb_true. exact Hs.
Qed.

Lemma live_rows_scanned s i e : In i (live s) -> In e (rows_of (dirs s) i) -> In e (seg_rows s).
Proof.
  intros Hl He. apply in_rows_of in He as (d & Hd & Hs & He). apply in_seg_rows.
  exists d. subst i. auto.
Qed.

(** * The merge neither drops nor invents rows *)

Lemma merge_rows_perm ds inputs u :
  Permutation (merge_rows ds inputs u) (of_uid u (concat (map (rows_of ds) inputs))).
Proof.
  unfold merge_rows. rewrite flush_order_perm, of_uid_concat, map_map. reflexivity.
Qed.

Lemma merge_rows_in ds inputs u e :
  In e (merge_rows ds inputs u) <-> euid e = u /\ exists i, In i inputs /\ In e (rows_of ds i).
Proof.
  split.
  - intros H. apply (Permutation_in _ (merge_rows_perm ds inputs u)) in H.
    apply of_uid_in in H as [H Hu]. split; [exact Hu|].
    apply in_concat in H as (z & Hz & He). apply in_map_iff in Hz as (i & <- & Hi). eauto.
  - intros (Hu & i & Hi & He). apply (Permutation_in _ (Permutation_sym (merge_rows_perm ds inputs u))).
    apply of_uid_in. split; [|exact Hu]. apply in_concat. exists (rows_of ds i). split; [apply in_map, Hi | exact He].
Qed.

Lemma merge_rows_uid ds inputs u e : In e (merge_rows ds inputs u) -> euid e = u.
Proof. intros H. apply merge_rows_in in H. tauto. Qed.

Lemma batch_rows_in ds b e :
  In e (batch_rows ds b) <->
  In (euid e) (b_uids b) /\ exists i, In i (b_inputs b) /\ In e (rows_of ds i).
Proof.
  unfold batch_rows. rewrite in_concat. split.
  - intros (z & Hz & He). apply in_map_iff in Hz as (u & <- & Hu). apply merge_rows_in in He as [E H].
    subst u. auto.
  - intros (Hu & H). exists (merge_rows ds (b_inputs b) (euid e)). split; [apply in_map, Hu|].
    apply merge_rows_in. auto.
Qed.

Lemma of_uid_batch_rows_notin ds b u : ~ In u (b_uids b) -> of_uid u (batch_rows ds b) = [].
Proof.
  intros Hn. apply of_uid_none. intros e He E. apply batch_rows_in in He as [Hu _]. subst u. auto.
Qed.

Lemma of_uid_batch_rows_in ds b u :
  NoDup (b_uids b) -> In u (b_uids b) -> of_uid u (batch_rows ds b) = merge_rows ds (b_inputs b) u.
Proof.
  unfold batch_rows. generalize (b_inputs b) as inputs. intros inputs.
  induction (b_uids b) as [|v r IH]; intros Hn Hu; [destruct Hu|].
  apply NoDup_cons_iff in Hn as [Hv Hn]. cbn [map concat]. rewrite of_uid_app.
  destruct (N.eq_dec v u) as [->|Hne].
  - rewrite of_uid_all by (intros e He; eapply merge_rows_uid; eauto).
    rewrite of_uid_none; [apply app_nil_r|].
    intros e He E. apply in_concat in He as (z & Hz & He). apply in_map_iff in Hz as (w & <- & Hw).
    apply merge_rows_uid in He. congruence.
  - destruct Hu as [E|Hu]; [contradiction|].
    rewrite of_uid_none; [|intros e He E; apply merge_rows_uid in He; congruence].
    cbn [app]. apply IH; assumption.
Qed.

Theorem rows_multiset : forall ds b u,
  NoDup (b_uids b) -> In u (b_uids b) ->
  Permutation (of_uid u (batch_rows ds b)) (of_uid u (concat (map (rows_of ds) (b_inputs b)))).
Proof.
  intros ds b u Hn Hu. rewrite of_uid_batch_rows_in by assumption. apply merge_rows_perm.
Qed.

(** uids outside the batch get no rows at all *)
Lemma rows_multiset_other : forall ds b u, ~ In u (b_uids b) -> of_uid u (batch_rows ds b) = [].
Proof. exact of_uid_batch_rows_notin. Qed.

(** * One whole batch *)

Definition batch_labels (s : shard) (b : batch) : list clabel :=
  [CWrite b; CIndex b; CLive b (drained (index s) b); CReclaim (drained (index s) b)].

Definition run_batch (s : shard) (b : batch) : shard := crun s (batch_labels s b).

Lemma run_batch_mem s b : mem (run_batch s b) = mem s. Proof. reflexivity. Qed.
Lemma run_batch_passives s b : passives (run_batch s b) = passives s. Proof. reflexivity. Qed.
Lemma run_batch_inflight s b : inflight (run_batch s b) = inflight s. Proof. reflexivity. Qed.
Lemma run_batch_jobs s b : jobs (run_batch s b) = jobs s. Proof. reflexivity. Qed.
Lemma run_batch_mem_rows s b : mem_rows (run_batch s b) = mem_rows s. Proof. reflexivity. Qed.

Lemma run_batch_live s b :
  live (run_batch s b) =
  sort_n (filter (fun i => negb (memb i (drained (index s) b))) (live s) ++ [b_out b]).
Proof. reflexivity. Qed.

Lemma run_batch_index s b :
  index (run_batch s b) =
  filter (fun e => negb (fst e =? b_out b))
    (filter (fun e => negb (memb (fst e) (b_inputs b) && is_empty (snd e))) (retire (index s) b))
  ++ [(b_out b, b_uids b)].
Proof. reflexivity. Qed.

Lemma run_batch_dirs s b :
  dirs (run_batch s b) =
  filter (fun d => negb (memb (sid d) (drained (index s) b)))
    (filter (fun d => negb (sid d =? b_out b)) (dirs s)
     ++ [mkSeg (b_out b) (filter (fun e => negb (memb (euid e) (b_uids b))) (rows_of (dirs s) (b_out b))
                          ++ batch_rows (dirs s) b)]).
Proof. reflexivity. Qed.

(** ** the index after [retire] *)

Definition keep_uids (b : batch) (us : list N) : list N := filter (fun u => negb (memb u (b_uids b))) us.

Lemma keep_uids_in b us u : In u (keep_uids b us) <-> In u us /\ ~ In u (b_uids b).
Proof. unfold keep_uids. rewrite filter_In, negb_true_iff, memb_false. tauto. Qed.

Lemma in_retire ix b i us' :
  In (i, us') (retire ix b) <->
  exists us, In (i, us) ix /\
    ((In i (b_inputs b) /\ us' = keep_uids b us) \/ (~ In i (b_inputs b) /\ us' = us)).
Proof.
  unfold retire. rewrite in_map_iff. split.
  - intros ([j us] & E & Hin). cbn [fst snd] in E. destruct (memb j (b_inputs b)) eqn:Hm.
    + inversion E; subst. apply memb_true in Hm. exists us. split; [exact Hin|]. left. auto.
    + inversion E; subst. apply memb_false in Hm. exists us'. split; [exact Hin|]. right. auto.
  - intros (us & Hin & [[Hi ->]|[Hi ->]]); exists (i, us); cbn [fst snd]; (split; [|exact Hin]).
    + apply memb_true in Hi. rewrite Hi. reflexivity.
    + apply memb_false in Hi. rewrite Hi. reflexivity.
Qed.

Lemma retire_labels ix b : index_labels (retire ix b) = index_labels ix.
Proof.
  unfold index_labels, retire. rewrite map_map. apply map_ext. intros [i us]. cbn [fst snd].
  destruct (memb i (b_inputs b)); reflexivity.
Qed.

Lemma index_entry_unique ix i us us' :
  NoDup (index_labels ix) -> In (i, us) ix -> In (i, us') ix -> us = us'.
Proof.
  intros Hn H1 H2. unfold index_labels in Hn.
  assert (E : (i, us) = (i, us')) by (apply (nodup_map_inj_on fst ix Hn); auto). congruence.
Qed.

Lemma in_drained ix b i :
  In i (drained ix b) <->
  In i (b_inputs b) /\ exists us, In (i, us) ix /\ keep_uids b us = [].
Proof.
  unfold drained. rewrite in_map_iff. split.
  - intros ([j us'] & E & Hin). cbn [fst] in E. subst j. apply filter_In in Hin as [Hin Hc].
    cbn [fst snd] in Hc. apply andb_true_iff in Hc as [Hi He]. apply memb_true in Hi.
    apply is_empty_true in He. subst us'. split; [exact Hi|].
    apply in_retire in Hin as (us & Hin & [[_ E]|[Hn _]]); [|contradiction]. exists us. auto.
  - intros (Hi & us & Hin & He). exists (i, []). split; [reflexivity|]. apply filter_In. split.
    + apply in_retire. exists us. split; [exact Hin|]. left. auto.
    + cbn [fst snd]. apply memb_true in Hi. rewrite Hi. reflexivity.
Qed.

Lemma drained_nodup ix b : NoDup (index_labels ix) -> NoDup (drained ix b).
Proof.
  intros Hn. unfold drained. rewrite <- (retire_labels ix b) in Hn. unfold index_labels in Hn.
  induction (retire ix b) as [|x r IH]; cbn [filter map]; [constructor|].
  cbn [map] in Hn. apply NoDup_cons_iff in Hn as [Hx Hn].
  destruct (memb (fst x) (b_inputs b) && is_empty (snd x)); [|auto].
  cbn [map]. constructor; [|auto]. intros H. apply Hx. apply in_map_iff in H as (y & E & Hy).
  apply filter_In in Hy as [Hy _]. rewrite <- E. apply in_map, Hy.
Qed.

Lemma in_index_after s b i us' :
  In (i, us') (index (run_batch s b)) <->
  (i = b_out b /\ us' = b_uids b) \/
  (i <> b_out b /\ exists us, In (i, us) (index s) /\
     ((In i (b_inputs b) /\ us' = keep_uids b us /\ us' <> []) \/ (~ In i (b_inputs b) /\ us' = us))).
Proof.
  rewrite run_batch_index, in_app_iff, !filter_In. cbn [fst snd In]. split.
  - intros [((Hin & Hc) & Ho)|[E|[]]].
    + right. apply negb_true_iff, N.eqb_neq in Ho. split; [exact Ho|].
      apply in_retire in Hin as (us & Hin & [[Hi E]|[Hi E]]); exists us; (split; [exact Hin|]).
      * left. split; [exact Hi|]. split; [exact E|]. intros E2. apply memb_true in Hi.
        rewrite Hi, E2 in Hc. discriminate.
      * right. auto.
    + inversion E; subst. left. auto.
  - intros [[-> ->]|(Ho & us & Hin & H)]; [right; left; reflexivity|]. left.
    split; [split|apply negb_true_iff, N.eqb_neq, Ho].
    + apply in_retire. exists us. split; [exact Hin|]. destruct H as [(Hi & E & _)|[Hi E]]; auto.
    + destruct H as [(Hi & E & Hne)|[Hi E]].
      * destruct us'; [contradiction|]. cbn [is_empty]. rewrite andb_false_r. reflexivity.
      * apply memb_false in Hi. rewrite Hi. reflexivity.
Qed.

Lemma index_after_labels s b i :
  NoDup (index_labels (index s)) ->
  In i (index_labels (index (run_batch s b))) ->
  i = b_out b \/ (In i (index_labels (index s)) /\ ~ In i (drained (index s) b)).
Proof.
  intros Hn H. unfold index_labels in H. apply in_map_iff in H as ([j us'] & E & Hin). cbn [fst] in E. subst j.
  apply in_index_after in Hin as [[-> _]|(Ho & us & Hin & H)]; [left; reflexivity|]. right.
  assert (Hl : In i (index_labels (index s))) by (apply in_map_iff; exists (i, us); auto).
  split; [exact Hl|]. intros Hd. apply in_drained in Hd as (Hi & us2 & Hin2 & He).
  rewrite (index_entry_unique _ _ _ _ Hn Hin2 Hin) in He.
  destruct H as [(_ & E & Hne)|[Hni _]]; [congruence | contradiction].
Qed.

Lemma index_after_nodup s b : NoDup (index_labels (index s)) -> NoDup (index_labels (index (run_batch s b))).
Proof.
  intros Hn. rewrite run_batch_index. unfold index_labels. rewrite map_app. cbn [map fst].
  apply nodup_app. split; [|split; [repeat constructor; intros []|]].
  - rewrite <- (retire_labels (index s) b) in Hn. unfold index_labels in Hn.
    induction (retire (index s) b) as [|x r IH]; cbn [filter map]; [constructor|].
    cbn [map] in Hn. apply NoDup_cons_iff in Hn as [Hx Hn].
    assert (Hsub : forall y, In y (map fst (filter (fun e => negb (fst e =? b_out b))
               (filter (fun e => negb (memb (fst e) (b_inputs b) && is_empty (snd e))) r))) -> In y (map fst r)).
    { intros y Hy. apply in_map_iff in Hy as (z & E & Hz). apply filter_In in Hz as [Hz _].
      apply filter_In in Hz as [Hz _]. rewrite <- E. apply in_map, Hz. }
    destruct (negb (memb (fst x) (b_inputs b) && is_empty (snd x))); cbn [filter]; [|auto].
    destruct (negb (fst x =? b_out b)); cbn [map]; [|auto]. constructor; auto.
  - intros y Hy [<-|[]]. apply in_map_iff in Hy as (z & E & Hz). apply filter_In in Hz as [_ Hz].
    apply negb_true_iff, N.eqb_neq in Hz. auto.
Qed.

Lemma in_live_after s b i :
  In i (live (run_batch s b)) <-> i = b_out b \/ (In i (live s) /\ ~ In i (drained (index s) b)).
Proof.
  rewrite run_batch_live, sort_n_in, in_app_iff, filter_In, negb_true_iff, memb_false. cbn [In].
  intuition.
Qed.

(** * What [batch_ok] says about the inputs *)

Lemma insert_sorted_perm x l : Permutation (insert_sorted x l) (x :: l).
Proof.
  induction l as [|y r IH]; cbn [insert_sorted]; [reflexivity|].
  destruct (x <=? y); [reflexivity|]. rewrite IH. apply perm_swap.
Qed.

Lemma sort_n_perm l : Permutation (sort_n l) l.
Proof.
  unfold sort_n. induction l as [|x r IH]; cbn [fold_right]; [constructor|].
  rewrite insert_sorted_perm. constructor. exact IH.
Qed.

Lemma nodup_map_filter {A B} (f : A -> B) p (l : list A) : NoDup (map f l) -> NoDup (map f (filter p l)).
Proof.
  induction l as [|x r IH]; cbn [map filter]; intros H; [constructor|].
  apply NoDup_cons_iff in H as [Hx H]. destruct (p x); cbn [map]; [|auto].
  constructor; [|auto]. intros Hin. apply Hx. apply in_map_iff in Hin as (y & E & Hy).
  apply filter_In in Hy as [Hy _]. rewrite <- E. apply in_map, Hy.
Qed.

Lemma list_eqb_eq a : forall b, list_eqb a b = true -> a = b.
Proof.
  induction a as [|x a IH]; intros [|y b]; cbn [list_eqb]; intros H; try discriminate; [reflexivity|].
  apply andb_true_iff in H as [H1 H2]. apply N.eqb_eq in H1. subst y. f_equal. apply IH, H2.
Qed.

Lemma firstn_sub {A} k (l : list A) x : In x (firstn k l) -> In x l.
Proof. intros H. rewrite <- (firstn_skipn k l). apply in_app_iff. left. exact H. Qed.

Lemma skipn_sub {A} k (l : list A) x : In x (skipn k l) -> In x l.
Proof. intros H. rewrite <- (firstn_skipn k l). apply in_app_iff. right. exact H. Qed.

Lemma chunks_fuel_sub f k : forall l c,
  In c (chunks_fuel f k l) -> (forall x, In x c -> In x l) /\ (NoDup l -> NoDup c).
Proof.
  induction f as [|f IH]; intros l c H; cbn [chunks_fuel] in H; [destruct H|].
  destruct l as [|a l]; [destruct H|]. destruct H as [<-|H].
  - split; [intros x; apply firstn_sub|]. intros Hn. rewrite <- (firstn_skipn k (a :: l)) in Hn.
    apply nodup_app in Hn. tauto.
  - apply IH in H as [H1 H2]. split; [intros x Hx; eapply skipn_sub, H1, Hx|].
    intros Hn. apply H2. rewrite <- (firstn_skipn k (a :: l)) in Hn. apply nodup_app in Hn. tauto.
Qed.

Lemma labels_of_uid_in ix lvl u i :
  In i (labels_of_uid ix lvl u) -> level_of i = lvl /\ exists us, In (i, us) ix /\ In u us.
Proof.
  unfold labels_of_uid. rewrite sort_n_in, in_map_iff. intros ([j us] & E & H). cbn [fst] in E. subst j.
  apply filter_In in H as [H Hc]. cbn [fst snd] in Hc. apply andb_true_iff in Hc as [Hl Hu].
  apply N.eqb_eq in Hl. apply memb_true in Hu. eauto.
Qed.

Lemma labels_of_uid_nodup ix lvl u : NoDup (index_labels ix) -> NoDup (labels_of_uid ix lvl u).
Proof.
  intros Hn. unfold labels_of_uid. eapply Permutation_NoDup; [symmetry; apply sort_n_perm|].
  apply nodup_map_filter, Hn.
Qed.

Lemma planned_inputs_sub ix k lvl u c :
  In c (planned_inputs ix k lvl u) ->
  (forall x, In x c -> In x (labels_of_uid ix lvl u)) /\ (NoDup (index_labels ix) -> NoDup c).
Proof.
  unfold planned_inputs. cbv zeta.
  destruct (len (labels_of_uid ix lvl u) <? N.max 1 (k * 2 / 3)); [intros []|].
  destruct (len (labels_of_uid ix lvl u) <? k).
  - intros [<-|[]]. split; [auto | apply labels_of_uid_nodup].
  - intros H. apply filter_In in H as [H _]. apply chunks_fuel_sub in H as [H1 H2].
    split; [exact H1|]. intros Hn. apply H2, labels_of_uid_nodup, Hn.
Qed.

Lemma batch_ok_spec ix k b :
  batch_ok ix k b = true ->
  b_uids b <> [] /\ b_inputs b <> [] /\
  (forall u i, In u (b_uids b) -> In i (b_inputs b) -> exists us, In (i, us) ix /\ In u us) /\
  (NoDup (index_labels ix) -> NoDup (b_inputs b)) /\
  (forall i, In i (b_inputs b) -> level_of (b_out b) = N.succ (level_of i)).
Proof.
  unfold batch_ok. destruct (b_inputs b) as [|i0 r] eqn:Hin; [discriminate|].
  rewrite <- Hin. intros H. apply andb_true_iff in H as [H Hnext]. apply andb_true_iff in H as [H Hlvl].
  apply andb_true_iff in H as [H Hpl]. apply andb_true_iff in H as [Hne Hsame].
  rewrite forallb_forall in Hpl, Hsame. apply N.eqb_eq in Hlvl.
  assert (Hu : forall u, In u (b_uids b) -> In (b_inputs b) (planned_inputs ix k (level_of i0) u)).
  { intros u Hu. apply Hpl in Hu. apply existsb_exists in Hu as (c & Hc & E). apply list_eqb_eq in E.
    rewrite E. exact Hc. }
  split; [intros E; rewrite E in Hne; discriminate|]. split; [rewrite Hin; discriminate|]. split; [|split].
  - intros u i Hu0 Hi. apply Hu, planned_inputs_sub in Hu0 as [H1 _]. apply H1, labels_of_uid_in in Hi. tauto.
  - intros Hn. destruct (b_uids b) as [|u us]; [discriminate|].
    destruct (planned_inputs_sub _ _ _ _ _ (Hu u (or_introl eq_refl))) as [_ H2]. auto.
  - intros i Hi. apply Hsame, N.eqb_eq in Hi. congruence.
Qed.

(** * The well-formedness invariant *)

(** a scanned row [e] has an authoritative copy: a live segment whose index entry
    lists the type of [e] holds it *)
Definition Auth (s : shard) (e : event) : Prop :=
  exists j us, In j (live s) /\ In (j, us) (index s) /\ In (euid e) us /\ In e (rows_of (dirs s) j).

Record WF (s : shard) : Prop := {
  (* live ids have directories *)
  w_dirs : forall i, In i (live s) -> has_dir (dirs s) i;
  w_nd : NoDup (index_labels (index s));
  (* a listed type has rows in the directory *)
  w_sound : forall i us u, In (i, us) (index s) -> In u us ->
            exists e, In e (rows_of (dirs s) i) /\ euid e = u;
  (* a row of a live directory is listed there, or its type was retired from that
     entry and a live segment listing the type holds the same row *)
  w_auth : forall i e, In i (live s) -> In e (rows_of (dirs s) i) -> Auth s e;
  (* event keys are unique among the scanned rows, up to identical copies *)
  w_key : forall a b, In a (mem_rows s ++ seg_rows s) -> In b (mem_rows s ++ seg_rows s) ->
          ek a = ek b -> a = b }.

Record BatchPre (k : N) (s : shard) (b : batch) : Prop := {
  bp_ok : batch_ok (index s) k b = true;
  bp_live : forall i, In i (b_inputs b) -> In i (live s);
  (* the output id is fresh: no directory of that name *)
  bp_fresh : forall d, In d (dirs s) -> sid d <> b_out b }.

Section OneBatch.
  Variables (k : N) (s : shard) (b : batch).
  Hypothesis W : WF s.
  Hypothesis P : BatchPre k s b.

  Let dr := drained (index s) b.
  Let s' := run_batch s b.

  Lemma ob_out_no_dir : ~ has_dir (dirs s) (b_out b).
  Proof. intros (d & Hd & E). exact (bp_fresh _ _ _ P d Hd E). Qed.

  Lemma ob_out_not_live : ~ In (b_out b) (live s).
  Proof. intros H. apply ob_out_no_dir, (w_dirs _ W), H. Qed.

  Lemma ob_out_not_input : ~ In (b_out b) (b_inputs b).
  Proof. intros H. apply ob_out_not_live, (bp_live _ _ _ P), H. Qed.

  Lemma ob_dr_input i : In i dr -> In i (b_inputs b).
  Proof. intros H. apply in_drained in H. tauto. Qed.

  Lemma ob_out_not_dr : ~ In (b_out b) dr.
  Proof. intros H. apply ob_out_not_input, ob_dr_input, H. Qed.

  Lemma ob_dirs :
    dirs s' = filter (fun d => negb (memb (sid d) dr)) (dirs s) ++ [mkSeg (b_out b) (batch_rows (dirs s) b)].
  Proof.
    unfold s'. rewrite run_batch_dirs. fold dr.
    rewrite (filter_all_in (fun d => negb (sid d =? b_out b)) (dirs s))
      by (intros d Hd; apply negb_true_iff, N.eqb_neq, (bp_fresh _ _ _ P), Hd).
    rewrite (rows_of_no_dir (dirs s) (b_out b)) by (apply (bp_fresh _ _ _ P)).
    cbn [filter app]. rewrite filter_app. cbn [filter sid].
    assert (E : memb (b_out b) dr = false) by (apply memb_false, ob_out_not_dr). rewrite E. reflexivity.
  Qed.

  Lemma ob_rows_out : rows_of (dirs s') (b_out b) = batch_rows (dirs s) b.
  Proof.
    rewrite ob_dirs, rows_of_app, rows_of_single, N.eqb_refl.
    rewrite rows_of_no_dir; [reflexivity|]. intros d Hd. apply filter_In in Hd as [Hd _].
    apply (bp_fresh _ _ _ P), Hd.
  Qed.

  Lemma ob_rows_keep i : i <> b_out b -> ~ In i dr -> rows_of (dirs s') i = rows_of (dirs s) i.
  Proof.
    intros Ho Hd. rewrite ob_dirs, rows_of_app, rows_of_single.
    destruct (N.eqb_spec (b_out b) i) as [E|_]; [congruence|]. rewrite app_nil_r.
    apply rows_of_filter. intros d _ E. subst i. apply negb_true_iff, memb_false, Hd.
  Qed.

  Lemma ob_rows_dr i : In i dr -> rows_of (dirs s') i = [].
  Proof.
    intros Hd. apply rows_of_no_dir. intros d Hin E. rewrite ob_dirs in Hin.
    apply in_app_iff in Hin as [Hin|[<-|[]]].
    - apply filter_In in Hin as [_ Hc]. apply negb_true_iff, memb_false in Hc. subst i. auto.
    - cbn [sid] in E. subst i. apply ob_out_not_dr, Hd.
  Qed.

  Lemma ob_has_dir i : i <> b_out b -> ~ In i dr -> has_dir (dirs s) i -> has_dir (dirs s') i.
  Proof.
    intros Ho Hd (d & Hin & E). exists d. split; [|exact E]. rewrite ob_dirs. apply in_app_iff. left.
    apply filter_In. split; [exact Hin|]. subst i. apply negb_true_iff, memb_false, Hd.
  Qed.

  (** an authoritative copy stays or moves to the output *)
  Lemma ob_auth e : Auth s e -> Auth s' e.
  Proof.
    intros (j & us & Hl & Hix & Hu & He).
    destruct (in_dec N.eq_dec j (b_inputs b)) as [Hj|Hj];
      [destruct (in_dec N.eq_dec (euid e) (b_uids b)) as [Hb|Hb]|].
    - exists (b_out b), (b_uids b). split; [apply in_live_after; left; reflexivity|].
      split; [apply in_index_after; left; auto|]. split; [exact Hb|].
      rewrite ob_rows_out. apply batch_rows_in. eauto.
    - assert (Hk : In (euid e) (keep_uids b us)) by (apply keep_uids_in; auto).
      assert (Hjo : j <> b_out b) by (intros E; subst j; apply ob_out_not_live, Hl).
      assert (Hjd : ~ In j dr).
      { intros Hd. apply in_drained in Hd as (_ & us2 & Hin2 & E).
        rewrite (index_entry_unique _ _ _ _ (w_nd _ W) Hin2 Hix) in E. rewrite E in Hk. destruct Hk. }
      exists j, (keep_uids b us). split; [apply in_live_after; right; auto|].
      split; [|split; [exact Hk | rewrite ob_rows_keep; assumption]].
      apply in_index_after. right. split; [exact Hjo|]. exists us. split; [exact Hix|]. left.
      split; [exact Hj|]. split; [reflexivity|]. intros E. rewrite E in Hk. destruct Hk.
    - assert (Hjo : j <> b_out b) by (intros E; subst j; apply ob_out_not_live, Hl).
      assert (Hjd : ~ In j dr) by (intros Hd; apply Hj, ob_dr_input, Hd).
      exists j, us. split; [apply in_live_after; right; auto|].
      split; [|split; [exact Hu | rewrite ob_rows_keep; assumption]].
      apply in_index_after. right. split; [exact Hjo|]. exists us. auto.
  Qed.

  Lemma auth_scanned t e : Auth t e -> In e (seg_rows t).
  Proof. intros (j & us & Hl & _ & _ & He). eapply live_rows_scanned; eauto. Qed.

  (** the set of scanned segment rows is unchanged *)
  Lemma ob_seg_rows e : In e (seg_rows s') <-> In e (seg_rows s).
  Proof.
    split.
    - intros H. apply in_seg_rows in H as (d & Hd & Hs & He). rewrite ob_dirs in Hd.
      apply in_app_iff in Hd as [Hd|[<-|[]]].
      + apply filter_In in Hd as [Hd Hc]. apply negb_true_iff, memb_false in Hc.
        apply in_seg_rows. exists d. split; [exact Hd|]. split; [|exact He].
        destruct Hs as [Hs|Hs]; [|right; exact Hs]. apply in_live_after in Hs as [E|[Hs _]]; [|left; exact Hs].
        exfalso. exact (bp_fresh _ _ _ P d Hd E).
      + cbn [srows] in He. apply batch_rows_in in He as (_ & i & Hi & He).
        eapply live_rows_scanned; [apply (bp_live _ _ _ P), Hi | exact He].
    - intros H. apply in_seg_rows in H as (d & Hd & Hs & He).
      destruct (in_dec N.eq_dec (sid d) dr) as [Hdr|Hdr].
      + apply auth_scanned, ob_auth. apply (w_auth _ W (sid d)).
        * apply (bp_live _ _ _ P), ob_dr_input, Hdr.
        * apply in_rows_of. exists d. auto.
      + apply in_seg_rows. exists d. split; [|split; [|exact He]].
        * rewrite ob_dirs. apply in_app_iff. left. apply filter_In. split; [exact Hd|].
          apply negb_true_iff, memb_false, Hdr.
        * destruct Hs as [Hs|Hs]; [left | right; exact Hs]. apply in_live_after. right. auto.
  Qed.

  Lemma ob_rows e : In e (mem_rows s' ++ seg_rows s') <-> In e (mem_rows s ++ seg_rows s).
  Proof. rewrite !in_app_iff, ob_seg_rows. reflexivity. Qed.

  (** the invariant is preserved *)
  Lemma ob_wf : WF s'.
  Proof.
    split.
    - intros i Hi. apply in_live_after in Hi as [->|[Hl Hd]].
      + exists (mkSeg (b_out b) (batch_rows (dirs s) b)). split; [|reflexivity].
        rewrite ob_dirs. apply in_app_iff. right. left. reflexivity.
      + apply ob_has_dir; [|exact Hd | apply (w_dirs _ W), Hl].
        intros E. subst i. apply ob_out_not_live, Hl.
    - apply index_after_nodup, (w_nd _ W).
    - intros i us' u Hix Hu. apply in_index_after in Hix as [[-> ->]|(Ho & us & Hix & H)].
      + destruct (batch_ok_spec _ _ _ (bp_ok _ _ _ P)) as (_ & Hne & Hidx & _).
        destruct (b_inputs b) as [|i0 r] eqn:Hin; [contradiction|].
        destruct (Hidx u i0 Hu (or_introl eq_refl)) as (us & Hix & Hus).
        destruct (w_sound _ W _ _ _ Hix Hus) as (e & He & E). exists e. split; [|exact E].
        rewrite ob_rows_out. apply batch_rows_in. rewrite E. split; [exact Hu|].
        exists i0. rewrite Hin. split; [left; reflexivity | exact He].
      + assert (Hus : In u us /\ ~ In i dr).
        { destruct H as [(Hi & -> & Hne)|[Hi ->]].
          - apply keep_uids_in in Hu as Hu'. split; [tauto|]. intros Hd.
            apply in_drained in Hd as (_ & us2 & Hin2 & E).
            rewrite (index_entry_unique _ _ _ _ (w_nd _ W) Hin2 Hix) in E. rewrite E in Hu. destruct Hu.
          - split; [exact Hu|]. intros Hd. apply Hi, ob_dr_input, Hd. }
        destruct Hus as [Hus Hd]. destruct (w_sound _ W _ _ _ Hix Hus) as (e & He & E).
        exists e. split; [|exact E]. rewrite ob_rows_keep; assumption.
    - intros i e Hi He. apply in_live_after in Hi as [->|[Hl Hd]].
      + rewrite ob_rows_out in He. apply batch_rows_in in He as (_ & i & Hi & He).
        apply ob_auth, (w_auth _ W i); [apply (bp_live _ _ _ P), Hi | exact He].
      + rewrite ob_rows_keep in He; [|intros E; subst i; apply ob_out_not_live, Hl | exact Hd].
        apply ob_auth, (w_auth _ W i); assumption.
    - intros x y Hx Hy. apply ob_rows in Hx, Hy. apply (w_key _ W); assumption.
  Qed.
End OneBatch.

(** * Selections *)

Lemma dedup_perm l l' :
  (forall e, In e l <-> In e l') ->
  (forall a b, In a l -> In b l -> ek a = ek b -> a = b) ->
  Permutation (dedup_ev l []) (dedup_ev l' []).
Proof.
  intros Hset Hk.
  assert (Hk' : forall a b, In a l' -> In b l' -> ek a = ek b -> a = b)
    by (intros x y Hx Hy; apply Hk; apply Hset; assumption).
  apply NoDup_Permutation.
  - apply (NoDup_map_inv ek), dedup_keys.
  - apply (NoDup_map_inv ek), dedup_keys.
  - intros e. split; intros H; apply dedup_keys in H as [_ H].
    + apply dedup_in; [exact Hk' | apply Hset, H | reflexivity].
    + apply dedup_in; [exact Hk | apply Hset, H | reflexivity].
Qed.

Lemma select_perm_of_rows s t u :
  (forall e, In e (mem_rows t ++ seg_rows t) <-> In e (mem_rows s ++ seg_rows s)) ->
  (forall a b, In a (mem_rows s ++ seg_rows s) -> In b (mem_rows s ++ seg_rows s) -> ek a = ek b -> a = b) ->
  Permutation (select s u) (select t u).
Proof.
  intros Hset Hk. unfold select, scan. apply dedup_perm.
  - intros e. rewrite !of_uid_in, Hset. reflexivity.
  - intros x y Hx Hy. apply of_uid_in in Hx as [Hx _], Hy as [Hy _]. apply Hk; assumption.
Qed.

Theorem select_preserved : forall k s b,
  WF s -> BatchPre k s b ->
  WF (run_batch s b) /\ forall u, Permutation (select s u) (select (run_batch s b) u).
Proof.
  intros k s b W P. split; [eapply ob_wf; eassumption|].
  intros u. apply select_perm_of_rows; [intros e; eapply ob_rows; eassumption | apply (w_key _ W)].
Qed.

(** any number of batches (rounds) *)
Definition run_batches (s : shard) (bs : list batch) : shard := fold_left run_batch bs s.

Fixpoint batches_pre (k : N) (s : shard) (bs : list batch) : Prop :=
  match bs with
  | [] => True
  | b :: r => BatchPre k s b /\ batches_pre k (run_batch s b) r
  end.

Theorem select_preserved_rounds : forall k bs s,
  WF s -> batches_pre k s bs ->
  WF (run_batches s bs) /\ forall u, Permutation (select s u) (select (run_batches s bs) u).
Proof.
  intros k bs. induction bs as [|b r IH]; intros s W H; cbn [run_batches fold_left].
  - split; [exact W | reflexivity].
  - destruct H as [P H]. destruct (select_preserved k s b W P) as [W1 S1].
    destruct (IH _ W1 H) as [W2 S2]. split; [exact W2|]. intros u. rewrite (S1 u). apply S2.
Qed.

Lemma run_batches_crun s bs :
  run_batches s bs = fold_left (fun t b => crun t (batch_labels t b)) bs s.
Proof. reflexivity. Qed.

(** * COUNT *)

Lemma bool_eq_iff (a b : bool) : (a = true <-> b = true) -> a = b.
Proof. destruct a, b; intros [H1 H2]; try reflexivity; [symmetry; auto | auto]. Qed.

Lemma rows_of_list_perm ds l :
  NoDup l ->
  Permutation (concat (map srows (filter (fun d => memb (sid d) l) ds))) (concat (map (rows_of ds) l)).
Proof.
  induction l as [|i r IH]; intros Hn.
  - rewrite filter_none by reflexivity. constructor.
  - apply NoDup_cons_iff in Hn as [Hi Hn]. cbn [map concat].
    rewrite (perm_concat_split srows (fun d => sid d =? i)). rewrite !filter_filter.
    apply Permutation_app.
    + unfold rows_of. erewrite filter_ext_in'; [reflexivity|]. intros d _. cbn beta.
      rewrite memb_cons. destruct (sid d =? i); [reflexivity | apply andb_false_r].
    + rewrite <- (IH Hn). erewrite filter_ext_in'; [reflexivity|]. intros d _. cbn beta.
      rewrite memb_cons. destruct (N.eqb_spec (sid d) i) as [E|E]; cbn [orb negb]; [|apply andb_true_r].
      rewrite andb_false_r. symmetry. apply memb_false. rewrite E. exact Hi.
Qed.

Definition undrained (s : shard) (b : batch) : list N :=
  filter (fun i => negb (memb i (drained (index s) b))) (b_inputs b).

(** every live row is listed in the entry of its own segment (no retired leftovers) *)
Definition Exact (s : shard) : Prop :=
  forall i e, In i (live s) -> In e (rows_of (dirs s) i) -> exists us, In (i, us) (index s) /\ In (euid e) us.

Section OneBatchCount.
  Variables (k : N) (s : shard) (b : batch).
  Hypothesis W : WF s.
  Hypothesis P : BatchPre k s b.

  Let dr := drained (index s) b.
  Let s' := run_batch s b.

  Lemma obc_memb_live i : i <> b_out b -> ~ In i dr -> memb i (live s') = memb i (live s).
  Proof.
    intros Ho Hd. apply bool_eq_iff. rewrite !memb_true. unfold s'. rewrite in_live_after. fold dr. tauto.
  Qed.

  Lemma obc_seg_rows :
    seg_rows s' =
    concat (map srows (filter (fun d => negb (memb (sid d) dr)) (scanned_dirs s))) ++ batch_rows (dirs s) b.
  Proof.
    unfold seg_rows at 1, scanned_dirs at 1. unfold s' at 3. rewrite (ob_dirs k s b W P). fold dr s'.
    rewrite filter_app, map_app, concat_app. f_equal.
    - f_equal. f_equal. unfold scanned_dirs. rewrite !filter_filter. apply filter_ext_in'.
      intros d Hd. cbn beta. destruct (memb (sid d) dr) eqn:Hm; cbn [negb andb]; [symmetry; apply andb_false_r|].
      rewrite andb_true_r. rewrite obc_memb_live; [reflexivity | apply (bp_fresh _ _ _ P), Hd | apply memb_false, Hm].
    - cbn [filter sid]. assert (E : memb (b_out b) (live s') = true).
      { apply memb_true. unfold s'. apply in_live_after. left. reflexivity. }
      rewrite E. cbn [orb map concat srows]. apply app_nil_r.
  Qed.

  Lemma obc_perm :
    Permutation (seg_rows s ++ batch_rows (dirs s) b)
                (seg_rows s' ++ concat (map (rows_of (dirs s)) dr)).
  Proof.
    rewrite obc_seg_rows. unfold seg_rows.
    rewrite (perm_concat_split srows (fun d => memb (sid d) dr) (scanned_dirs s)).
    assert (E : filter (fun d => memb (sid d) dr) (scanned_dirs s) = filter (fun d => memb (sid d) dr) (dirs s)).
    { unfold scanned_dirs. rewrite filter_filter. apply filter_ext_in'. intros d _. cbn beta.
      destruct (memb (sid d) dr) eqn:Hm; [|apply andb_false_r]. rewrite andb_true_r.
      apply memb_true in Hm. apply (ob_dr_input s b) in Hm. apply (bp_live _ _ _ P), memb_true in Hm.
      rewrite Hm. reflexivity. }
    rewrite E, (rows_of_list_perm (dirs s) dr) by (apply drained_nodup, (w_nd _ W)).
    rewrite <- !app_assoc. rewrite Permutation_app_comm, <- !app_assoc. reflexivity.
  Qed.

  Lemma obc_count_eq u :
    count s' u + len (of_uid u (concat (map (rows_of (dirs s)) dr)))
    = count s u + len (of_uid u (batch_rows (dirs s) b)).
  Proof.
    rewrite !count_typed. pose proof (len_perm _ _ (of_uid_perm u _ _ obc_perm)) as H.
    rewrite !of_uid_app, !len_app in H. change (mem_rows s') with (mem_rows s). lia.
  Qed.

  Lemma obc_inputs_split :
    NoDup (b_inputs b) -> Permutation (b_inputs b) (dr ++ undrained s b).
  Proof.
    intros Hn. apply NoDup_Permutation; [exact Hn | |].
    - apply nodup_app. split; [apply drained_nodup, (w_nd _ W)|]. split; [apply NoDup_filter, Hn|].
      intros x Hx Hx2. apply filter_In in Hx2 as [_ Hc]. apply negb_true_iff, memb_false in Hc. auto.
    - intros x. rewrite in_app_iff. unfold undrained. rewrite filter_In, negb_true_iff, memb_false. fold dr.
      split; [intros Hx; destruct (in_dec N.eq_dec x dr); auto|].
      intros [Hx|[Hx _]]; [apply (ob_dr_input s b), Hx | exact Hx].
  Qed.

  Lemma concat_map_perm {A B} (f : A -> list B) l l' :
    Permutation l l' -> Permutation (concat (map f l)) (concat (map f l')).
  Proof.
    induction 1 as [|x a c H IH|x y a|a c d H1 IH1 H2 IH2]; cbn [map concat].
    - constructor.
    - apply Permutation_app_head, IH.
    - rewrite !app_assoc. apply Permutation_app_tail, Permutation_app_comm.
    - etransitivity; eassumption.
  Qed.

  (** a type of the batch: COUNT grows by exactly its rows in the inputs that stay live *)
  Lemma obc_count_in u :
    NoDup (b_uids b) -> In u (b_uids b) ->
    count s' u = count s u + len (of_uid u (concat (map (rows_of (dirs s)) (undrained s b)))).
  Proof.
    intros Hn Hu. pose proof (obc_count_eq u) as H.
    destruct (batch_ok_spec _ _ _ (bp_ok _ _ _ P)) as (_ & _ & _ & Hni & _).
    pose proof (obc_inputs_split (Hni (w_nd _ W))) as Hsp.
    pose proof (len_perm _ _ (rows_multiset (dirs s) b u Hn Hu)) as H2.
    rewrite (len_perm _ _ (of_uid_perm u _ _ (concat_map_perm (rows_of (dirs s)) _ _ Hsp))) in H2.
    rewrite map_app, concat_app, of_uid_app, len_app in H2. lia.
  Qed.

  (** another type: COUNT loses the rows of that type held by the drained directories *)
  Lemma obc_count_notin u :
    ~ In u (b_uids b) ->
    count s' u + len (of_uid u (concat (map (rows_of (dirs s)) dr))) = count s u.
  Proof.
    intros Hu. pose proof (obc_count_eq u) as H. rewrite (rows_multiset_other _ _ _ Hu) in H.
    change (len (@nil event)) with 0 in H. lia.
  Qed.

  Lemma obc_exact_drained u :
    Exact s -> ~ In u (b_uids b) -> of_uid u (concat (map (rows_of (dirs s)) dr)) = [].
  Proof.
    intros X Hu. apply of_uid_none. intros e He E. apply in_concat in He as (z & Hz & He).
    apply in_map_iff in Hz as (i & <- & Hi). pose proof Hi as Hd.
    apply in_drained in Hd as (Hin & us & Hix & Hk).
    destruct (X i e (bp_live _ _ _ P i Hin) He) as (us2 & Hix2 & Hus).
    rewrite (index_entry_unique _ _ _ _ (w_nd _ W) Hix2 Hix) in Hus.
    assert (Hkk : In (euid e) (keep_uids b us)) by (apply keep_uids_in; split; [exact Hus | congruence]).
    rewrite Hk in Hkk. destruct Hkk.
  Qed.

  Lemma obc_full_drain u :
    Exact s -> NoDup (b_uids b) -> (forall i, In i (b_inputs b) -> In i dr) -> count s' u = count s u.
  Proof.
    intros X Hn Hall. destruct (in_dec N.eq_dec u (b_uids b)) as [Hu|Hu].
    - rewrite (obc_count_in u Hn Hu). unfold undrained. rewrite filter_none.
      + cbn [map concat of_uid filter]. change (len (@nil event)) with 0. lia.
      + intros i Hi. apply negb_false_iff, memb_true, Hall, Hi.
    - pose proof (obc_count_notin u Hu) as H. rewrite (obc_exact_drained u X Hu) in H.
      change (len (@nil event)) with 0 in H. lia.
  Qed.

  Lemma obc_exact : Exact s -> (forall i, In i (b_inputs b) -> In i dr) -> Exact s'.
  Proof.
    intros X Hall i e Hi He. unfold s' in Hi. apply in_live_after in Hi as [->|[Hl Hd]].
    - exists (b_uids b). split; [apply in_index_after; left; auto|].
      unfold s' in He. rewrite (ob_rows_out k s b W P) in He. apply batch_rows_in in He. tauto.
    - assert (Ho : i <> b_out b) by (intros E; subst i; apply (ob_out_not_live k s b W P), Hl).
      unfold s' in He. rewrite (ob_rows_keep k s b W P i Ho Hd) in He.
      destruct (X i e Hl He) as (us & Hix & Hus). exists us. split; [|exact Hus].
      apply in_index_after. right. split; [exact Ho|]. exists us. split; [exact Hix|]. right.
      split; [|reflexivity]. intros Hin. apply Hd, Hall, Hin.
  Qed.
End OneBatchCount.

Theorem count_after_batch : forall k s b u,
  WF s -> BatchPre k s b -> NoDup (b_uids b) ->
  (In u (b_uids b) ->
     count (run_batch s b) u
     = count s u + len (of_uid u (concat (map (rows_of (dirs s)) (undrained s b))))) /\
  (~ In u (b_uids b) -> Exact s -> count (run_batch s b) u = count s u).
Proof.
  intros k s b u W P Hn. split.
  - intros Hu. eapply obc_count_in; eassumption.
  - intros Hu X. pose proof (obc_count_notin k s b W P u Hu) as H.
    rewrite (obc_exact_drained k s b W P u X Hu) in H. change (len (@nil event)) with 0 in H. lia.
Qed.

Theorem count_preserved_full_drain : forall k s b,
  WF s -> Exact s -> BatchPre k s b -> NoDup (b_uids b) ->
  (forall i, In i (b_inputs b) -> In i (drained (index s) b)) ->
  Exact (run_batch s b) /\ forall u, count (run_batch s b) u = count s u.
Proof.
  intros k s b W X P Hn Hall. split.
  - eapply obc_exact; eassumption.
  - intros u. eapply obc_full_drain; eassumption.
Qed.

(** a batch with a single event type listed alone in every input drains every input *)
Lemma single_type_full_drain s b u :
  b_uids b = [u] ->
  (forall i us, In i (b_inputs b) -> In (i, us) (index s) -> forall v, In v us -> v = u) ->
  (forall i, In i (b_inputs b) -> In i (index_labels (index s))) ->
  forall i, In i (b_inputs b) -> In i (drained (index s) b).
Proof.
  intros Hu Hone Hix i Hi. apply in_drained. split; [exact Hi|].
  apply Hix in Hi as Hl. unfold index_labels in Hl. apply in_map_iff in Hl as ([j us] & E & Hin).
  cbn [fst] in E. subst j. exists us. split; [exact Hin|].
  destruct (keep_uids b us) as [|v r] eqn:Hk; [reflexivity|]. exfalso.
  assert (Hv : In v (keep_uids b us)) by (rewrite Hk; left; reflexivity).
  apply keep_uids_in in Hv as [Hv Hn]. apply Hn. rewrite Hu. left. symmetry. eapply Hone; eauto.
Qed.

(** * A run that stops after the output was written *)

Definition wal_rows (s : shard) : list event := concat (map snd (walfiles s)).

(** unique event keys, up to identical copies, among what is on disk *)
Definition KeysOkDisk (s : shard) : Prop :=
  forall a b, In a (wal_rows s ++ all_rows (dirs s)) -> In b (wal_rows s ++ all_rows (dirs s)) ->
              ek a = ek b -> a = b.

Lemma restart_seg_rows t : seg_rows (restart t) = all_rows (dirs t).
Proof.
  unfold seg_rows, scanned_dirs, all_rows. cbn [restart live inflight dirs].
  rewrite filter_all_in; [reflexivity|]. intros d Hd. apply orb_true_iff. left.
  apply memb_true, sort_n_in, in_map, Hd.
Qed.

Lemma restart_mem_rows t : mem_rows (restart t) = wal_rows t ++ [].
Proof. reflexivity. Qed.

Lemma cp_write_dirs_fresh s b :
  (forall d, In d (dirs s) -> sid d <> b_out b) ->
  dirs (cp_write s b) = dirs s ++ [mkSeg (b_out b) (batch_rows (dirs s) b)].
Proof.
  intros Hf. unfold cp_write. cbn [dirs]. rewrite (rows_of_no_dir _ _ Hf). cbn [filter app].
  rewrite filter_all_in; [reflexivity|]. intros d Hd. apply negb_true_iff, N.eqb_neq, Hf, Hd.
Qed.

Lemma all_rows_app a b : all_rows (a ++ b) = all_rows a ++ all_rows b.
Proof. unfold all_rows. rewrite map_app, concat_app. reflexivity. Qed.

Lemma rows_of_in_all ds i e : In e (rows_of ds i) -> In e (all_rows ds).
Proof. apply in_concat_filter. Qed.

Theorem failed_run_harmless : forall s b,
  (forall d, In d (dirs s) -> sid d <> b_out b) -> KeysOkDisk s ->
  let s1 := crun s [CWrite b; CBase LCrash; CBase LRestart] in
  let s0 := crun s [CBase LCrash; CBase LRestart] in
  index s1 = index s0 /\
  (forall u, Permutation (select s1 u) (select s0 u)) /\
  (forall u, count s1 u = count s0 u + len (of_uid u (batch_rows (dirs s) b))).
Proof.
  intros s b Hf Hk s1 s0. split; [reflexivity|].
  assert (Hm1 : mem_rows s1 = wal_rows s ++ []) by reflexivity.
  assert (Hm0 : mem_rows s0 = wal_rows s ++ []) by reflexivity.
  assert (Hs1 : seg_rows s1 = all_rows (dirs s) ++ batch_rows (dirs s) b).
  { change s1 with (restart (crash (cp_write s b))). rewrite restart_seg_rows.
    change (dirs (crash (cp_write s b))) with (dirs (cp_write s b)).
    rewrite (cp_write_dirs_fresh _ _ Hf), all_rows_app. unfold all_rows at 2. cbn [map concat srows].
    rewrite app_nil_r. reflexivity. }
  assert (Hs0 : seg_rows s0 = all_rows (dirs s)).
  { change s0 with (restart (crash s)). rewrite restart_seg_rows. reflexivity. }
  split.
  - intros u. symmetry. apply select_perm_of_rows.
    + intros e. rewrite Hm1, Hm0, Hs1, Hs0, !in_app_iff. split; [|tauto].
      intros [H|[H|H]]; auto. right. apply batch_rows_in in H as (_ & i & _ & H).
      eapply rows_of_in_all, H.
    + rewrite Hm0, Hs0, app_nil_r. exact Hk.
  - intros u. rewrite !count_typed. rewrite Hm1, Hm0, Hs1, Hs0, !of_uid_app, !len_app. lia.
Qed.

(** without the restart the leftover directory is not read at all *)
Theorem failed_run_unread : forall s b,
  (forall d, In d (dirs s) -> sid d <> b_out b) ->
  ~ In (b_out b) (live s) -> ~ In (b_out b) (inflight s) ->
  let s1 := cstep s (CWrite b) in
  index s1 = index s /\ live s1 = live s /\
  forall u, select s1 u = select s u /\ count s1 u = count s u.
Proof.
  intros s b Hf Hl Hi s1. split; [reflexivity|]. split; [reflexivity|].
  assert (E : seg_rows s1 = seg_rows s).
  { unfold seg_rows, scanned_dirs. change (live s1) with (live s). change (inflight s1) with (inflight s).
    change (dirs s1) with (dirs (cp_write s b)). rewrite (cp_write_dirs_fresh _ _ Hf), filter_app.
    cbn [filter sid]. apply memb_false in Hl, Hi. rewrite Hl, Hi. cbn [orb]. rewrite app_nil_r. reflexivity. }
  intros u. rewrite !count_typed. unfold select, scan. rewrite E. split; reflexivity.
Qed.

(** * Flush-only histories reach well-formed states *)

Record FIC (lv : list N) (ds : list segdir) (ix : list (N * list N)) (js : list job) (al : N) : Prop := {
  f_nd : NoDup (index_labels ix);
  f_ilt : forall i, In i (index_labels ix) -> i < al;
  f_unw : forall j, In j js -> written (jstage j) = false -> ~ In (jseg j) (index_labels ix);
  f_wr : forall j, In j js -> written (jstage j) = true -> In (jseg j) (index_labels ix);
  f_dir : forall i, In i (index_labels ix) -> has_dir ds i;
  f_sound : forall i us u, In (i, us) ix -> In u us -> exists e, In e (rows_of ds i) /\ euid e = u;
  f_exact : forall i us e, In (i, us) ix -> In e (rows_of ds i) -> In (euid e) us;
  f_live : forall i, In i lv -> In i (index_labels ix);
  f_sub : forall j, In j js -> written (jstage j) = false ->
          forall e, In e (rows_of ds (jseg j)) -> In e (jevs j) }.

Definition FI (s : shard) : Prop := FIC (live s) (dirs s) (index s) (jobs s) (alloc0 s).

Ltac dF F := destruct F as [Fnd Filt Funw Fwr Fdir Fsound Fexact Flive Fsub].

Lemma fi_init c : FI (init c).
Proof.
  unfold FI, init. cbn [live dirs index jobs alloc0].
  split; cbn [index_labels map In]; try (intros; contradiction). constructor.
Qed.

Lemma fic_rotate lv ds ix js al m :
  FIC lv ds ix js al -> (forall d, In d ds -> sid d < al) ->
  FIC lv ds ix (js ++ [mkJob al m StQueued]) (N.succ al).
Proof.
  intros F Hd. dF F. split; auto.
  - intros i Hi. apply Filt in Hi. lia.
  - intros j Hj Hw. apply in_app_iff in Hj as [Hj|[<-|[]]]; [auto|]. cbn [jseg]. intros H. apply Filt in H. lia.
  - intros j Hj Hw. apply in_app_iff in Hj as [Hj|[<-|[]]]; [auto | discriminate].
  - intros j Hj Hw e He. apply in_app_iff in Hj as [Hj|[<-|[]]]; [eauto|]. cbn [jseg] in He.
    exfalso. eapply rows_of_fresh; eauto.
Qed.

Lemma fic_adv lv ds ix j rest al st' :
  FIC lv ds ix (j :: rest) al -> written st' = written (jstage j) ->
  FIC lv ds ix (mkJob (jseg j) (jevs j) st' :: rest) al.
Proof.
  intros F Hw. dF F. split; auto.
  - intros j0 [<-|Hj0] H; cbn [jseg jstage] in *; [apply (Funw j); [left; reflexivity | congruence] | apply Funw; [right|]; assumption].
  - intros j0 [<-|Hj0] H; cbn [jseg jstage] in *; [apply (Fwr j); [left; reflexivity | congruence] | apply Fwr; [right|]; assumption].
  - intros j0 [<-|Hj0] H; cbn [jseg jstage jevs] in *; [apply (Fsub j); [left; reflexivity | congruence] | apply Fsub; [right|]; assumption].
Qed.

Lemma has_dir_add ds seg r i : has_dir ds i -> has_dir (dir_add_rows ds seg r) i.
Proof.
  intros (d & Hd & E). induction ds as [|x ds IH]; [destruct Hd|]. cbn [dir_add_rows].
  destruct (N.eqb_spec (sid x) seg) as [Hx|Hx].
  - destruct Hd as [->|Hd]; [exists (mkSeg seg (srows d ++ r)); split; [left; reflexivity | cbn [sid]; congruence]|].
    exists d. split; [right; exact Hd | exact E].
  - destruct Hd as [->|Hd]; [exists d; split; [left; reflexivity | exact E]|].
    destruct (IH Hd) as (d' & Hd' & E'). exists d'. split; [right; exact Hd' | exact E'].
Qed.

Lemma fic_add_rows lv ds ix j rest al r :
  FIC lv ds ix (j :: rest) al -> NoDup (map jseg (j :: rest)) -> written (jstage j) = false ->
  (forall e, In e r -> In e (jevs j)) ->
  FIC lv (dir_add_rows ds (jseg j) r) ix (j :: rest) al.
Proof.
  intros F Hn Hw Hr. dF F.
  assert (Hseg : ~ In (jseg j) (index_labels ix)) by (apply Funw; [left; reflexivity | exact Hw]).
  split; auto.
  - intros i Hi. apply has_dir_add, Fdir, Hi.
  - intros i us u Hix Hu. destruct (Fsound i us u Hix Hu) as (e & He & E). exists e. split; [|exact E].
    apply rows_of_add. left. exact He.
  - intros i us e Hix He. apply rows_of_add in He as [He|[E _]]; [eauto|].
    exfalso. apply Hseg. subst i. apply in_map_iff. exists (jseg j, us). auto.
  - intros j0 Hj0 Hw0 e He. apply rows_of_add in He as [He|[E He]]; [eauto|].
    destruct Hj0 as [<-|Hj0]; [auto|]. exfalso. cbn [map] in Hn. apply NoDup_cons_iff in Hn as [Hn _].
    apply Hn. rewrite <- E. apply in_map, Hj0.
Qed.

Lemma uids_of_inv evs u : In u (uids_of evs) -> exists e, In e evs /\ euid e = u.
Proof.
  unfold uids_of. rewrite sort_n_in, dedup_n_in, in_map_iff. intros (e & E & He). eauto.
Qed.

Lemma fic_index (s : shard) lv ix j rest al :
  FIC lv (dirs s) ix (j :: rest) al -> NoDup (map jseg (j :: rest)) -> jseg j < al ->
  written (jstage j) = false -> jevs j <> [] ->
  forallb (dir_has_uid s (jseg j)) (uids_of (jevs j)) = true ->
  FIC lv (dirs s) (ix ++ [(jseg j, uids_of (jevs j))]) (mkJob (jseg j) (jevs j) StIndexed :: rest) al.
Proof.
  intros F Hn Hlt Hw Hne Hall. dF F. rewrite forallb_forall in Hall.
  assert (Hseg : ~ In (jseg j) (index_labels ix)) by (apply Funw; [left; reflexivity | exact Hw]).
  cbn [map] in Hn. apply NoDup_cons_iff in Hn as [Hnj Hn].
  assert (Hlab : forall i, In i (index_labels (ix ++ [(jseg j, uids_of (jevs j))])) <-> In i (index_labels ix) \/ i = jseg j).
  { intros i. unfold index_labels. rewrite map_app, in_app_iff. cbn [map fst In]. intuition. }
  split.
  - unfold index_labels. rewrite map_app. cbn [map fst]. apply nodup_app. split; [exact Fnd|].
    split; [repeat constructor; intros []|]. intros x Hx [<-|[]]. auto.
  - intros i Hi. apply Hlab in Hi as [Hi| ->]; auto.
  - intros j0 [<-|Hj0] H0; [discriminate|]. rewrite Hlab. intros [H| E].
    + apply (Funw j0); [right|..]; assumption.
    + apply Hnj. rewrite <- E. apply in_map, Hj0.
  - intros j0 [<-|Hj0] H0; rewrite Hlab; [right; reflexivity | left; apply Fwr; [right|]; assumption].
  - intros i Hi. apply Hlab in Hi as [Hi| ->]; [auto|].
    destruct (jevs j) as [|e0 r] eqn:Hev; [contradiction|].
    assert (Hu : In (euid e0) (uids_of (e0 :: r))) by (apply memb_true, uids_of_in; left; reflexivity).
    apply Hall, dir_has_uid_spec in Hu as (e & He & _). eapply rows_of_has_dir, He.
  - intros i us u Hix Hu. apply in_app_iff in Hix as [Hix|[E|[]]]; [eauto|]. inversion E; subst.
    apply Hall, dir_has_uid_spec in Hu as (e & He & Eu). exists e. auto.
  - intros i us e Hix He. apply in_app_iff in Hix as [Hix|[E|[]]]; [eauto|]. inversion E; subst.
    apply memb_true, uids_of_in. apply (Fsub j); [left; reflexivity | exact Hw | exact He].
  - intros i Hi. apply Hlab. left. auto.
  - intros j0 [<-|Hj0] H0; [discriminate|]. apply Fsub; [right|]; assumption.
Qed.

Lemma fic_live lv lv' ds ix js al :
  FIC lv ds ix js al -> (forall i, In i lv' -> In i lv \/ In i (index_labels ix)) -> FIC lv' ds ix js al.
Proof. intros F H. dF F. split; auto. intros i Hi. apply H in Hi as [Hi|Hi]; auto. Qed.

Lemma fic_done lv ds ix j rest al : FIC lv ds ix (j :: rest) al -> FIC lv ds ix rest al.
Proof.
  intros F. dF F. split; auto.
  - intros j0 Hj0. apply Funw. right. exact Hj0.
  - intros j0 Hj0. apply Fwr. right. exact Hj0.
  - intros j0 Hj0. apply Fsub. right. exact Hj0.
Qed.

Lemma fi_rotate A s : Inv A s -> FI s -> FI (rotate s).
Proof.
  intros I F. unfold FI, rotate. cbn [live dirs index jobs alloc0].
  apply fic_rotate; [exact F | exact (i_dlt _ _ _ _ _ _ _ I)].
Qed.

Lemma fi_store A s e : Inv A s -> FI s -> FI (store s e).
Proof.
  intros I F. unfold store. cbv zeta. destruct (cap s <=? len _); [|exact F].
  unfold FI, rotate. cbn [live dirs index jobs alloc0 mem].
  apply fic_rotate; [exact F | exact (i_dlt _ _ _ _ _ _ _ I)].
Qed.

Lemma fi_fw A s l : Inv A s -> FI s -> FI (fw_step s l).
Proof.
  intros I F. unfold fw_step. destruct (jobs s) as [|j rest] eqn:Hj; [exact F|].
  assert (F' : FIC (live s) (dirs s) (index s) (j :: rest) (alloc0 s)) by (rewrite <- Hj; exact F).
  assert (Hn : NoDup (map jseg (j :: rest))) by (rewrite <- Hj; exact (i_jnd _ _ _ _ _ _ _ I)).
  assert (Hlt : jseg j < alloc0 s) by (apply (i_jlt _ _ _ _ _ _ _ I); rewrite Hj; left; reflexivity).
  destruct l; destruct (jstage j) eqn:Hst; try exact F.
  - (* FwBegin *) unfold FI; cbn [live dirs index jobs alloc0]. apply fic_adv; [exact F' | rewrite Hst; reflexivity].
  - (* FwMkdir *) unfold FI; cbn [live dirs index jobs alloc0].
    apply fic_add_rows; [exact F' | exact Hn | rewrite Hst; reflexivity | intros e []].
  - (* FwWrite *)
    destruct (negb (memb u (uids_of (jevs j))) || dir_has_uid s (jseg j) u); [exact F|].
    unfold FI; cbn [live dirs index jobs alloc0].
    apply fic_add_rows; [exact F' | exact Hn | rewrite Hst; reflexivity|].
    intros e He. apply filter_In in He as [He _]. apply flush_order_in, He.
  - (* FwIndex *)
    destruct (is_empty (jevs j) || negb (forallb (dir_has_uid s (jseg j)) (uids_of (jevs j)))) eqn:Hc; [exact F|].
    apply orb_false_iff in Hc as [He Hc]. apply negb_false_iff in Hc.
    unfold FI; cbn [live dirs index jobs alloc0].
    apply fic_index; [exact F' | exact Hn | exact Hlt | rewrite Hst; reflexivity | | exact Hc].
    intros E. rewrite E in He. discriminate.
  - (* FwPublish *)
    assert (F2 : FIC (live s) (dirs s) (index s) (mkJob (jseg j) (jevs j) StPublished :: rest) (alloc0 s))
      by (apply fic_adv; [exact F' | rewrite Hst; reflexivity]).
    destruct (is_empty (jevs j)); [exact F2|].
    unfold FI; cbn [live dirs index jobs alloc0]. eapply fic_live; [exact F2|].
    intros i Hi. destruct (memb (jseg j) (live s)); [left; exact Hi|].
    apply in_app_iff in Hi as [Hi|[<-|[]]]; [left; exact Hi|]. right.
    apply (f_wr _ _ _ _ _ F' j); [left; reflexivity | rewrite Hst; reflexivity].
  - (* FwClear *)
    assert (F2 : FIC (live s) (dirs s) (index s) (mkJob (jseg j) (jevs j) StCleared :: rest) (alloc0 s))
      by (apply fic_adv; [exact F' | rewrite Hst; reflexivity]).
    destruct (is_empty (jevs j)); exact F2.
  - (* FwWalDel *)
    destruct (is_empty (jevs j) || negb (id <? N.succ (jseg j))); [exact F | exact F'].
  - (* FwWalClean *)
    assert (F2 : FIC (live s) (dirs s) (index s) (mkJob (jseg j) (jevs j) StWalCleaned :: rest) (alloc0 s))
      by (apply fic_adv; [exact F' | rewrite Hst; reflexivity]).
    destruct (is_empty (jevs j)); exact F2.
  - (* FwDone, empty *)
    destruct (is_empty (jevs j)); [|exact F].
    unfold FI; cbn [live dirs index jobs alloc0]. eapply fic_done, F'.
  - (* FwDone *)
    unfold FI; cbn [live dirs index jobs alloc0]. eapply fic_done, F'.
Qed.

Lemma fi_run c ls :
  no_crash ls -> NoDup (map ek (applied ls)) -> FI (run (init c) ls).
Proof.
  intros Hc Hk. pose proof (fun ls' => inv_run c ls') as IR. revert Hc Hk.
  unfold no_crash. induction ls as [|l ls IH] using rev_ind; intros Hc Hk; [apply fi_init|].
  rewrite forallb_app in Hc. apply andb_true_iff in Hc as [Hc Hl]. cbn [forallb] in Hl.
  rewrite applied_app, map_app in Hk. apply nodup_app in Hk as (Hk1 & _ & _).
  specialize (IH Hc Hk1). pose proof (inv_run c ls Hc Hk1) as I.
  rewrite run_snoc. destruct l; cbn [is_crash negb andb] in Hl; try discriminate; cbn [step].
  - eapply fi_store; eassumption.
  - eapply fi_rotate; eassumption.
  - unfold wal_write. destruct (walq _); exact IH.
  - unfold wal_rotate. destruct (cap _ <=? wcnt _); exact IH.
  - eapply fi_fw; eassumption.
Qed.

Theorem wf_reachable : forall c ls,
  no_crash ls -> NoDup (map ek (applied ls)) ->
  WF (run (init c) ls) /\ Exact (run (init c) ls).
Proof.
  intros c ls Hc Hk. pose proof (inv_run c ls Hc Hk) as I. pose proof (fi_run c ls Hc Hk) as F.
  set (s := run (init c) ls) in *. unfold FI in F. dF F.
  assert (X : Exact s).
  { intros i e Hi He. apply Flive in Hi. unfold index_labels in Hi. apply in_map_iff in Hi as ([j us] & E & Hix).
    cbn [fst] in E. subst j. exists us. split; [exact Hix | eapply Fexact; eauto]. }
  split; [|exact X]. split; auto.
  - intros i e Hi He. destruct (X i e Hi He) as (us & Hix & Hu). exists i, us. auto.
  - pose proof (inv_rows _ _ I) as Hrows. intros a b Ha Hb.
    apply (nodup_map_inj_on ek (applied ls) Hk); apply Hrows; assumption.
Qed.

(** the WAL holds applied events only *)
Definition WalSub (A : list event) (s : shard) : Prop :=
  (forall e, In e (walq s) -> In e A) /\ (forall e, In e (wal_rows s) -> In e A).

Lemma wal_append_in f id e x :
  In x (concat (map snd (wal_append f id e))) -> In x (concat (map snd f)) \/ x = e.
Proof.
  induction f as [|[i es] r IH]; cbn [wal_append].
  - cbn [map concat snd app In]. intros [H|[]]. auto.
  - destruct (i =? id); [|destruct (id <? i)]; cbn [map concat snd app In]; rewrite ?in_app_iff; cbn [In].
    + intros [[H|[H|[]]]|H]; auto.
    + intros [H|[H|H]]; auto.
    + intros [H|H]; [tauto|]. apply IH in H. tauto.
Qed.

Lemma wal_touch_in f id x :
  In x (concat (map snd (wal_touch f id))) -> In x (concat (map snd f)).
Proof.
  induction f as [|[i es] r IH]; cbn [wal_touch].
  - cbn [map concat snd app]. auto.
  - destruct (i =? id); [|destruct (id <? i)]; cbn [map concat snd app]; rewrite ?in_app_iff; auto.
    intros [H|H]; [tauto|]. apply IH in H. tauto.
Qed.

Lemma fw_wal s l :
  walq (fw_step s l) = walq s /\ forall e, In e (wal_rows (fw_step s l)) -> In e (wal_rows s).
Proof.
  unfold fw_step, wal_rows. destruct (jobs s) as [|j rest]; [auto|].
  destruct l; destruct (jstage j); try (split; [reflexivity | auto]);
    repeat match goal with |- context [if ?c then _ else _] => destruct c end;
    unfold set_jobs, wal_cleanup; cbn [walq walfiles]; (split; [reflexivity|]); auto;
    intros e; apply in_concat_filter.
Qed.

Lemma walsub_run c ls : no_crash ls -> WalSub (applied ls) (run (init c) ls).
Proof.
  unfold no_crash. induction ls as [|l ls IH] using rev_ind; intros Hc.
  - split; cbn; intros e H; [destruct H | destruct H].
  - rewrite forallb_app in Hc. apply andb_true_iff in Hc as [Hc Hl]. cbn [forallb] in Hl.
    destruct (IH Hc) as [Hq Hf]. rewrite run_snoc, applied_app. set (s := run (init c) ls) in *.
    destruct l; cbn [is_crash negb andb] in Hl; try discriminate; cbn [step applied]; rewrite ?app_nil_r.
    + unfold store. cbv zeta. destruct (cap s <=? len _); unfold rotate, WalSub, wal_rows; cbn [walq walfiles];
        (split; intros x Hx; apply in_app_iff; [apply in_app_iff in Hx as [Hx|Hx]; auto | left; apply Hf, Hx]).
    + exact (conj Hq Hf).
    + unfold wal_write. destruct (walq s) as [|e q] eqn:Hwq; [exact (IH Hc)|].
      unfold WalSub, wal_rows. cbn [walq walfiles]. split; [intros x Hx; apply Hq; right; exact Hx|].
      intros x Hx. destruct (wunlinked s); [apply Hf, Hx|]. apply wal_append_in in Hx as [Hx| ->]; [apply Hf, Hx|].
      apply Hq. left. reflexivity.
    + unfold wal_rotate. destruct (cap s <=? wcnt s); [|exact (conj Hq Hf)].
      unfold WalSub, wal_rows. cbn [walq walfiles]. split; [exact Hq|]. intros x Hx. apply Hf, (wal_touch_in _ _ _ Hx).
    + destruct (fw_wal s l) as [E1 E2]. split; [rewrite E1; exact Hq | intros x Hx; apply Hf, E2, Hx].
Qed.

Theorem keys_ok_disk_reachable : forall c ls,
  no_crash ls -> NoDup (map ek (applied ls)) -> KeysOkDisk (run (init c) ls).
Proof.
  intros c ls Hc Hk. pose proof (inv_run c ls Hc Hk) as I. destruct (walsub_run c ls Hc) as [_ Hf].
  assert (Hsub : forall e, In e (wal_rows (run (init c) ls) ++ all_rows (dirs (run (init c) ls))) -> In e (applied ls)).
  { intros e He. apply in_app_iff in He as [He|He]; [apply Hf, He | apply (i_dir _ _ _ _ _ _ _ I), He]. }
  intros a b Ha Hb. apply (nodup_map_inj_on ek (applied ls) Hk); apply Hsub; assumption.
Qed.

(** * Witnesses and non-vacuity *)

Ltac vm_conj :=
  repeat (match goal with |- _ /\ _ => split; [vm_compute; reflexivity|] end); vm_compute; reflexivity.

Definition batch_pre_b (k : N) (s : shard) (b : batch) : bool :=
  batch_ok (index s) k b && forallb (fun i => memb i (live s)) (b_inputs b)
  && forallb (fun d => negb (sid d =? b_out b)) (dirs s).

Lemma batch_pre_b_sound k s b : batch_pre_b k s b = true -> BatchPre k s b.
Proof.
  unfold batch_pre_b. intros H. apply andb_true_iff in H as [H H3]. apply andb_true_iff in H as [H1 H2].
  rewrite forallb_forall in H2, H3. split; [exact H1 | |].
  - intros i Hi. apply memb_true, H2, Hi.
  - intros d Hd. apply N.eqb_neq, negb_true_iff, H3, Hd.
Qed.

Lemma incl_b_sound (l l' : list N) : forallb (fun i => memb i l') l = true -> forall i, In i l -> In i l'.
Proof. intros H i Hi. rewrite forallb_forall in H. apply memb_true, H, Hi. Qed.

Lemma fresh_b_sound (ds : list segdir) (o : N) :
  forallb (fun d => negb (sid d =? o)) ds = true -> forall d, In d ds -> sid d <> o.
Proof. intros H d Hd. rewrite forallb_forall in H. apply N.eqb_neq, negb_true_iff, H, Hd. Qed.

Fixpoint batches_pre_b (k : N) (s : shard) (bs : list batch) : bool :=
  match bs with
  | [] => true
  | b :: r => batch_pre_b k s b && batches_pre_b k (run_batch s b) r
  end.

Lemma batches_pre_b_sound k bs : forall s, batches_pre_b k s bs = true -> batches_pre k s bs.
Proof.
  induction bs as [|b r IH]; intros s H; cbn [batches_pre_b batches_pre] in *; [exact I|].
  apply andb_true_iff in H as [H1 H2]. split; [apply batch_pre_b_sound, H1 | apply IH, H2].
Qed.

(** Known finding CountAfterPartialDrain.  Capacity 2: segment 0 holds
    types {0,1}, segment 1 holds type 0 only.  With k = 2 the policy plans the batch
    [0;1] -> 10000 for type 0.  Segment 1 is drained; segment 0 stays live for type 1
    and keeps the files of type 0: COUNT for type 0 goes from 3 to 4, the selection
    stays exact. *)
Definition ls_pd : list label :=
  [LStore (mkEv 0 0 0); LStore (mkEv 1 0 1)] ++ flush_all [0; 1] ++
  [LStore (mkEv 2 0 0); LStore (mkEv 3 1 0)] ++ flush_all [0].
Definition b_pd : batch := mkBatch 10000 [0; 1] [0].

Lemma count_partial_drain_refuted :
  exists c ls k b u,
    let s := run (init c) ls in
    no_crash ls /\ NoDup (map ek (applied ls)) /\ BatchPre k s b /\ NoDup (b_uids b) /\ In u (b_uids b) /\
    index s = [(0, [0; 1]); (1, [0])] /\
    drained (index s) b = [1] /\ undrained s b = [0] /\
    live (run_batch s b) = [0; 10000] /\ index (run_batch s b) = [(0, [1]); (10000, [0])] /\
    count s u = 3 /\ count (run_batch s b) u = 4 /\
    select (run_batch s b) u = select s u /\ len (select s u) = 3.
Proof.
  exists 2, ls_pd, 2, b_pd, 0. cbv zeta.
  split; [vm_compute; reflexivity|]. split; [apply nodupb_sound; vm_compute; reflexivity|].
  split; [apply batch_pre_b_sound; vm_compute; reflexivity|].
  split; [apply nodupb_sound; vm_compute; reflexivity|]. split; [left; reflexivity|].
  vm_conj.
Qed.

(** the same batch, stopped after the output was written, then crash and restart:
    every selection is as without the run, COUNT also counts the leftover copy *)
Lemma failed_run_count_refuted :
  exists c ls b u,
    let s := run (init c) ls in
    let s1 := crun s [CWrite b; CBase LCrash; CBase LRestart] in
    let s0 := crun s [CBase LCrash; CBase LRestart] in
    no_crash ls /\ NoDup (map ek (applied ls)) /\ (forall d, In d (dirs s) -> sid d <> b_out b) /\
    live s1 = [0; 1; 10000] /\ index s1 = index s /\
    select s1 u = select s0 u /\ count s0 u = 3 /\ count s1 u = 6.
Proof.
  exists 2, ls_pd, b_pd, 0. cbv zeta.
  split; [vm_compute; reflexivity|]. split; [apply nodupb_sound; vm_compute; reflexivity|].
  split; [apply fresh_b_sound; vm_compute; reflexivity|].
  vm_conj.
Qed.

(** Non-vacuity: two event types in different subsets of three segments
    (segment 0 {0,1}, segment 1 {0}, segment 2 {1}) and one event in the memtable;
    two batches of the k = 2 policy, the first drains segment 0 partially, the
    second drains it completely. *)
Definition ls_3 : list label :=
  ls_pd ++ [LStore (mkEv 4 1 1); LStore (mkEv 5 0 1)] ++ flush_all [1] ++ [LStore (mkEv 6 2 0)].
Definition b_31 : batch := mkBatch 10000 [0; 1] [0].
Definition b_32 : batch := mkBatch 10001 [0; 2] [1].

Example select_preserved_example :
  let s := run (init 2) ls_3 in
  let t := run_batches s [b_31; b_32] in
  no_crash ls_3 /\ NoDup (map ek (applied ls_3)) /\ batches_pre 2 s [b_31; b_32] /\
  index s = [(0, [0; 1]); (1, [0]); (2, [1])] /\ live s = [0; 1; 2] /\
  index t = [(10000, [0]); (10001, [1])] /\ live t = [10000; 10001] /\ map sid (dirs t) = [10000; 10001] /\
  select s 0 = [mkEv 6 2 0; mkEv 0 0 0; mkEv 2 0 0; mkEv 3 1 0] /\ select t 0 = select s 0 /\
  select s 1 = [mkEv 1 0 1; mkEv 5 0 1; mkEv 4 1 1] /\ select t 1 = select s 1 /\
  count s 0 = 4 /\ count (run_batch s b_31) 0 = 5 /\ count t 0 = 4.
Proof.
  cbv zeta. split; [vm_compute; reflexivity|]. split; [apply nodupb_sound; vm_compute; reflexivity|].
  split; [apply batches_pre_b_sound; vm_compute; reflexivity|].
  vm_conj.
Qed.

(** a single event type, two segments: the batch drains both inputs *)
Definition ls_fd : list label :=
  [LStore (mkEv 0 1 0); LStore (mkEv 1 0 0)] ++ flush_all [0] ++
  [LStore (mkEv 2 0 0); LStore (mkEv 3 1 0)] ++ flush_all [0] ++ [LStore (mkEv 4 0 0)].

Example count_preserved_full_drain_example :
  let s := run (init 2) ls_fd in
  let b := mkBatch 10000 [0; 1] [0] in
  no_crash ls_fd /\ NoDup (map ek (applied ls_fd)) /\ BatchPre 2 s b /\ NoDup (b_uids b) /\
  (forall i, In i (b_inputs b) -> In i (drained (index s) b)) /\
  live (run_batch s b) = [10000] /\ count s 0 = 5 /\ count (run_batch s b) 0 = 5.
Proof.
  cbv zeta. split; [vm_compute; reflexivity|]. split; [apply nodupb_sound; vm_compute; reflexivity|].
  split; [apply batch_pre_b_sound; vm_compute; reflexivity|].
  split; [apply nodupb_sound; vm_compute; reflexivity|].
  split; [apply incl_b_sound; vm_compute; reflexivity|].
  vm_conj.
Qed.

Example failed_run_example :
  let s := run (init 2) ls_3 in
  no_crash ls_3 /\ NoDup (map ek (applied ls_3)) /\
  (forall d, In d (dirs s) -> sid d <> b_out b_31) /\
  live (crun s [CWrite b_31; CBase LCrash; CBase LRestart]) = [0; 1; 2; 10000].
Proof.
  cbv zeta. split; [vm_compute; reflexivity|]. split; [apply nodupb_sound; vm_compute; reflexivity|].
  split; [apply fresh_b_sound; vm_compute; reflexivity|].
  vm_conj.
Qed.
