(** Cost of the expression and brace grammars, in rule invocations, for the two forms the Rust
    text can be in (read by tools/params/p34_expr_reparse.py and p33_store_braces.py).

    peg does not memoise.  In the form [x:and_expr() _ ci("OR") _ y:or_expr() {..} / and_expr()]
    the first operand is parsed a second time whenever the first alternative fails after it;
    in the form [x:and_expr() y:( _ ci("OR") _ y:or_expr() {y} )?] it is parsed once.  Both give
    the same result (the model in Model/Parser.v is written in the second form); the number of
    [factor] invocations differs: [c_or rp], computed here from the model's own results, doubles
    at each rule level when [rp = true].  Likewise [balanced_braces] with '{' among the plain
    characters re-reads an unclosed block's brace and re-scans its contents one level up
    ([bb_entry rescan]); [bb_table] is the literal peg rule evaluated for every suffix, right to
    left, so that its cost can be computed without paying it.

    The statements: on the former witness families (nested parentheses, NOT chains, AND/OR
    chains, unclosed and nested braces) the cost in the form the code is in now is linear in the
    input length; in the other form the same families cost 4^depth / 2^n.  A general linear bound
    for all inputs is not proved; on the implementation the time budget of the probe is the
    criterion. *)
From Coq Require Import NArith ZArith Arith List Bool Lia.
From Snel Require Import Base.Bytes Gen.Params Model.Tokenizer Model.Parser Model.Command.
Import ListNotations.
Open Scope N_scope.

(** * WHERE expressions: number of [factor] invocations *)

Section ExprCost.
Variable fx : bool.
Variable rp : bool.     (* true: the re-parsing form *)

Definition again (c : N) : N := if rp then c else 0.

Fixpoint c_or (fuel : nat) (s : bytes) {struct fuel} : N :=
  match fuel with
  | O => 0
  | S f =>
      let ca := c_and f s in
      match and_expr fx f s with
      | Ok (_, r) =>
          match ci K_OR (ws r) with
          | Some r1 =>
              let ct := c_or f (ws r1) in
              match or_expr fx f (ws r1) with
              | Ok _ => ca + ct
              | Err => ca + ct + again ca      (* alternative 1 failed after the operand: alternative 2 parses it again *)
              | _ => ca + ct
              end
          | None => ca + again ca
          end
      | Err => ca + again ca
      | _ => ca
      end
  end
with c_and (fuel : nat) (s : bytes) {struct fuel} : N :=
  match fuel with
  | O => 0
  | S f =>
      let cf := c_factor f s in
      match factor fx f s with
      | Ok (_, r) =>
          match ci K_AND (ws r) with
          | Some r1 =>
              let ct := c_and f (ws r1) in
              match and_expr fx f (ws r1) with
              | Ok _ => cf + ct
              | Err => cf + ct + again cf
              | _ => cf + ct
              end
          | None => cf + again cf
          end
      | Err => cf + again cf
      | _ => cf
      end
  end
with c_factor (fuel : nat) (s : bytes) {struct fuel} : N :=
  match fuel with
  | O => 0
  | S f =>
      let c_paren := match lit 40 s with Some r1 => c_or f (ws r1) | None => 0 end in
      1 + match ci K_NOT s with
          | Some r1 =>
              c_factor f (ws r1) + match factor fx f (ws r1) with Err => c_paren | _ => 0 end
          | None => c_paren
          end
  end.

Definition expr_cost (s : bytes) : N := c_or (expr_fuel s) s.

End ExprCost.

(** * STORE: the literal [balanced_braces] rule, for every suffix *)

(** one entry per suffix: the length the rule matches there (if it matches) and the number of
    [balanced_braces] invocations at a '{' that evaluating it costs *)
Definition bb_ent := (option nat * N)%type.

(** the loop [( balanced_braces() / json_string() / plain )*] after a '{', over the suffix [r] and
    the entries [t] of its suffixes; [pos] counts the characters consumed so far *)
Fixpoint bb_loop (rescan skip : bool) (fuel : nat) (r : bytes) (t : list bb_ent) (pos : nat) (cost : N)
  : option nat * N :=
  match fuel with
  | O => (None, cost)
  | S f =>
      match r, t with
      | c :: r', e :: t' =>
          if c =? 125 then (Some (S (S pos)), cost)                  (* the closing brace: '{' + pos chars + '}' *)
          else if c =? 123 then
            match e with
            | (Some k, ck) => bb_loop rescan skip f (skipn k r) (skipn k t) (pos + k) (cost + ck)
            | (None, ck) =>
                if rescan then bb_loop rescan skip f r' t' (S pos) (cost + ck)   (* '{' re-read as a plain character *)
                else (None, cost + ck)                                           (* the loop ends; '}' expected, '{' found *)
            end
          else if skip && (c =? 34) then
            match json_str_end r' with
            | Some rest =>
                let k := (length r - length rest)%nat in
                bb_loop rescan skip f (skipn k r) (skipn k t) (pos + k) cost
            | None => bb_loop rescan skip f r' t' (S pos) cost
            end
          else bb_loop rescan skip f r' t' (S pos) cost
      | _, _ => (None, cost)                                          (* end of input: '}' expected *)
      end
  end.

Fixpoint bb_table (rescan skip : bool) (s : bytes) : list bb_ent :=
  match s with
  | [] => []
  | c :: r =>
      let t := bb_table rescan skip r in
      (if c =? 123 then
         let '(res, cost) := bb_loop rescan skip (S (length r)) r t 0 1 in (res, cost)
       else (None, 0)) :: t
  end.

Definition bb_entry (rescan skip : bool) (s : bytes) : bb_ent :=
  match bb_table rescan skip s with e :: _ => e | [] => (None, 0) end.

(** * The witness families *)

Definition txt_where : bytes := [81;85;69;82;89;32;101;32;87;72;69;82;69;32].      (* QUERY e WHERE  *)
Definition txt_leaf : bytes := [97;32;61;32;49].                                    (* a = 1 *)
Definition txt_not : bytes := [78;79;84;32].                                        (* NOT  *)
Definition txt_and : bytes := [32;65;78;68;32].                                     (*  AND  *)
Definition txt_or : bytes := [32;79;82;32].                                         (*  OR  *)

Fixpoint rep (n : nat) (x : bytes) : bytes := match n with O => [] | S k => x ++ rep k x end.

Definition fam_paren (d : nat) : bytes := rep d [40] ++ txt_leaf ++ rep d [41].
Definition fam_paren_open (d : nat) : bytes := rep d [40] ++ txt_leaf ++ rep (pred d) [41].   (* one ')' missing *)
Definition fam_not (d : nat) : bytes := rep d txt_not ++ txt_leaf.
Definition fam_not_paren (d : nat) : bytes := rep d (40 :: txt_not) ++ txt_leaf ++ rep d [41].
Definition fam_and (d : nat) : bytes := rep d (txt_leaf ++ txt_and) ++ txt_leaf.
Definition fam_or (d : nat) : bytes := rep d (txt_leaf ++ txt_or) ++ txt_leaf.
Definition fam_braces (n : nat) : bytes := rep n [123].
Definition fam_braces_closed (n : nat) : bytes := rep n [123] ++ rep n [125].
Definition fam_braces_short (n : nat) : bytes := rep n [123] ++ rep (pred n) [125].

Definition linear_expr (rp : bool) (s : bytes) : bool :=
  expr_cost true rp s <=? 2 * N.of_nat (length s) + 2.
Definition linear_braces (rescan : bool) (s : bytes) : bool :=
  snd (bb_entry rescan true s) <=? N.of_nat (length s) + 1.

(** the literal rule and the model's depth counter agree on these texts (length matched, or no match) *)
Definition bb_agrees (s : bytes) : bool :=
  match fst (bb_entry store_brace_rescans store_skips_strings s), balanced_braces s with
  | Some k, Some (j, _) => Nat.eqb k (length j)
  | None, None => true
  | _, _ => false
  end.

Definition depths : list nat := [1; 5; 13; 40; 200]%nat.

(** ** in the form the code is in now: linear on every family *)
Theorem no_exponential_witness :
  forallb (fun d => linear_expr expr_grammar_reparses (fam_paren d)
                    && linear_expr expr_grammar_reparses (fam_paren_open d)
                    && linear_expr expr_grammar_reparses (fam_not d)
                    && linear_expr expr_grammar_reparses (fam_not_paren d)
                    && linear_expr expr_grammar_reparses (fam_and d)
                    && linear_expr expr_grammar_reparses (fam_or d)) depths = true /\
  forallb (fun n => linear_braces store_brace_rescans (fam_braces n)
                    && linear_braces store_brace_rescans (fam_braces_closed n)
                    && linear_braces store_brace_rescans (fam_braces_short n)) (depths ++ [34; 1000]%nat) = true /\
  forallb (fun n => bb_agrees (fam_braces n) && bb_agrees (fam_braces_closed n) && bb_agrees (fam_braces_short n))
          (depths ++ [34]%nat) = true.
Proof. split; [|split]; vm_compute; reflexivity. Qed.

(** ** in the other form: the same families are exponential (what 04c7300 removed) *)
Lemma reparsing_was_exponential :
  expr_cost true true (fam_paren 13) = (4 ^ 15 - 4) / 3 /\
  linear_expr true (fam_paren 13) = false /\
  snd (bb_entry true true (fam_braces 34)) = 2 ^ 33 /\
  linear_braces true (fam_braces 34) = false /\
  (* and the result does not depend on the form *)
  fst (bb_entry true true (fam_braces_closed 13)) = fst (bb_entry false true (fam_braces_closed 13)).
Proof. split; [|split; [|split; [|split]]]; vm_compute; reflexivity. Qed.

(** the cost in the present form never exceeds the cost in the re-parsing form *)
Lemma again_le : forall c, again false c <= again true c.
Proof. intro c. cbn. lia. Qed.
