(** Printing then parsing a well-formed Query command is the identity (peg grammar level). *)
From Coq Require Import NArith ZArith List Bool Lia.
From Coq Require Import ZifyBool ZifyNat ZifyN.
From Snel Require Import Base.Bytes Model.Tokenizer Model.Parser Model.Printer
  Proofs.ParserBasics Proofs.ExprRoundTrip Proofs.FuelProofs Proofs.ParserProofs.
Import ListNotations.
Open Scope N_scope.

(** * The clause list a query prints *)

Definition optl {A} (o : option A) (f : A -> clause) : list clause :=
  match o with Some a => [f a] | None => [] end.

Definition clauses_of (q : query) : list clause :=
  optl (q_ctx q) ClFor ++ optl (q_since q) ClSince ++ optl (q_time_field q) ClUsing
  ++ optl (q_seq_time_field q) ClUsingTime ++ optl (q_where q) ClWhere ++ optl (q_return q) ClReturn
  ++ optl (q_link q) ClLink ++ optl (q_aggs q) ClAggs ++ optl (q_bucket q) (fun g => ClTime g None)
  ++ optl (q_group q) (fun l => ClGroup l None) ++ optl (q_order q) (fun o => ClOrder (fst o) (snd o))
  ++ optl (q_limit q) ClLimit ++ optl (q_offset q) ClOffset.

Lemma fc_12 : forall ev ctx since tf stf wh lim off ord retf link aggs tb gb sq,
  fold_left apply_clause (optl off ClOffset) (mkQuery ev ctx since tf stf wh lim None ord retf link aggs tb gb sq) = mkQuery ev ctx since tf stf wh lim off ord retf link aggs tb gb sq.
Proof. intros. destruct off; reflexivity. Qed.

Lemma fc_11 : forall ev ctx since tf stf wh lim off ord retf link aggs tb gb sq,
  fold_left apply_clause (optl lim ClLimit ++ optl off ClOffset) (mkQuery ev ctx since tf stf wh None None ord retf link aggs tb gb sq) = mkQuery ev ctx since tf stf wh lim off ord retf link aggs tb gb sq.
Proof. intros. rewrite fold_left_app. destruct lim; cbn [optl fold_left apply_clause fst snd]; apply fc_12. Qed.

Lemma fc_10 : forall ev ctx since tf stf wh lim off ord retf link aggs tb gb sq,
  fold_left apply_clause (optl ord (fun o => ClOrder (fst o) (snd o)) ++ optl lim ClLimit ++ optl off ClOffset) (mkQuery ev ctx since tf stf wh None None None retf link aggs tb gb sq) = mkQuery ev ctx since tf stf wh lim off ord retf link aggs tb gb sq.
Proof. intros. rewrite fold_left_app. destruct ord as [[of od]|]; cbn [optl fold_left apply_clause fst snd]; apply fc_11. Qed.

Lemma fc_9 : forall ev ctx since tf stf wh lim off ord retf link aggs tb gb sq,
  fold_left apply_clause (optl gb (fun l => ClGroup l None) ++ optl ord (fun o => ClOrder (fst o) (snd o)) ++ optl lim ClLimit ++ optl off ClOffset) (mkQuery ev ctx since tf stf wh None None None retf link aggs tb None sq) = mkQuery ev ctx since tf stf wh lim off ord retf link aggs tb gb sq.
Proof. intros. rewrite fold_left_app. destruct gb; cbn [optl fold_left apply_clause fst snd]; apply fc_10. Qed.

Lemma fc_8 : forall ev ctx since tf stf wh lim off ord retf link aggs tb gb sq,
  fold_left apply_clause (optl tb (fun g => ClTime g None) ++ optl gb (fun l => ClGroup l None) ++ optl ord (fun o => ClOrder (fst o) (snd o)) ++ optl lim ClLimit ++ optl off ClOffset) (mkQuery ev ctx since tf stf wh None None None retf link aggs None None sq) = mkQuery ev ctx since tf stf wh lim off ord retf link aggs tb gb sq.
Proof. intros. rewrite fold_left_app. destruct tb; cbn [optl fold_left apply_clause fst snd]; apply fc_9. Qed.

Lemma fc_7 : forall ev ctx since tf stf wh lim off ord retf link aggs tb gb sq,
  fold_left apply_clause (optl aggs ClAggs ++ optl tb (fun g => ClTime g None) ++ optl gb (fun l => ClGroup l None) ++ optl ord (fun o => ClOrder (fst o) (snd o)) ++ optl lim ClLimit ++ optl off ClOffset) (mkQuery ev ctx since tf stf wh None None None retf link None None None sq) = mkQuery ev ctx since tf stf wh lim off ord retf link aggs tb gb sq.
Proof. intros. rewrite fold_left_app. destruct aggs; cbn [optl fold_left apply_clause fst snd]; apply fc_8. Qed.

Lemma fc_6 : forall ev ctx since tf stf wh lim off ord retf link aggs tb gb sq,
  fold_left apply_clause (optl link ClLink ++ optl aggs ClAggs ++ optl tb (fun g => ClTime g None) ++ optl gb (fun l => ClGroup l None) ++ optl ord (fun o => ClOrder (fst o) (snd o)) ++ optl lim ClLimit ++ optl off ClOffset) (mkQuery ev ctx since tf stf wh None None None retf None None None None sq) = mkQuery ev ctx since tf stf wh lim off ord retf link aggs tb gb sq.
Proof. intros. rewrite fold_left_app. destruct link; cbn [optl fold_left apply_clause fst snd]; apply fc_7. Qed.

Lemma fc_5 : forall ev ctx since tf stf wh lim off ord retf link aggs tb gb sq,
  fold_left apply_clause (optl retf ClReturn ++ optl link ClLink ++ optl aggs ClAggs ++ optl tb (fun g => ClTime g None) ++ optl gb (fun l => ClGroup l None) ++ optl ord (fun o => ClOrder (fst o) (snd o)) ++ optl lim ClLimit ++ optl off ClOffset) (mkQuery ev ctx since tf stf wh None None None None None None None None sq) = mkQuery ev ctx since tf stf wh lim off ord retf link aggs tb gb sq.
Proof. intros. rewrite fold_left_app. destruct retf; cbn [optl fold_left apply_clause fst snd]; apply fc_6. Qed.

Lemma fc_4 : forall ev ctx since tf stf wh lim off ord retf link aggs tb gb sq,
  fold_left apply_clause (optl wh ClWhere ++ optl retf ClReturn ++ optl link ClLink ++ optl aggs ClAggs ++ optl tb (fun g => ClTime g None) ++ optl gb (fun l => ClGroup l None) ++ optl ord (fun o => ClOrder (fst o) (snd o)) ++ optl lim ClLimit ++ optl off ClOffset) (mkQuery ev ctx since tf stf None None None None None None None None None sq) = mkQuery ev ctx since tf stf wh lim off ord retf link aggs tb gb sq.
Proof. intros. rewrite fold_left_app. destruct wh; cbn [optl fold_left apply_clause fst snd]; apply fc_5. Qed.

Lemma fc_3 : forall ev ctx since tf stf wh lim off ord retf link aggs tb gb sq,
  fold_left apply_clause (optl stf ClUsingTime ++ optl wh ClWhere ++ optl retf ClReturn ++ optl link ClLink ++ optl aggs ClAggs ++ optl tb (fun g => ClTime g None) ++ optl gb (fun l => ClGroup l None) ++ optl ord (fun o => ClOrder (fst o) (snd o)) ++ optl lim ClLimit ++ optl off ClOffset) (mkQuery ev ctx since tf None None None None None None None None None None sq) = mkQuery ev ctx since tf stf wh lim off ord retf link aggs tb gb sq.
Proof. intros. rewrite fold_left_app. destruct stf; cbn [optl fold_left apply_clause fst snd]; apply fc_4. Qed.

Lemma fc_2 : forall ev ctx since tf stf wh lim off ord retf link aggs tb gb sq,
  fold_left apply_clause (optl tf ClUsing ++ optl stf ClUsingTime ++ optl wh ClWhere ++ optl retf ClReturn ++ optl link ClLink ++ optl aggs ClAggs ++ optl tb (fun g => ClTime g None) ++ optl gb (fun l => ClGroup l None) ++ optl ord (fun o => ClOrder (fst o) (snd o)) ++ optl lim ClLimit ++ optl off ClOffset) (mkQuery ev ctx since None None None None None None None None None None None sq) = mkQuery ev ctx since tf stf wh lim off ord retf link aggs tb gb sq.
Proof. intros. rewrite fold_left_app. destruct tf; cbn [optl fold_left apply_clause fst snd]; apply fc_3. Qed.

Lemma fc_1 : forall ev ctx since tf stf wh lim off ord retf link aggs tb gb sq,
  fold_left apply_clause (optl since ClSince ++ optl tf ClUsing ++ optl stf ClUsingTime ++ optl wh ClWhere ++ optl retf ClReturn ++ optl link ClLink ++ optl aggs ClAggs ++ optl tb (fun g => ClTime g None) ++ optl gb (fun l => ClGroup l None) ++ optl ord (fun o => ClOrder (fst o) (snd o)) ++ optl lim ClLimit ++ optl off ClOffset) (mkQuery ev ctx None None None None None None None None None None None None sq) = mkQuery ev ctx since tf stf wh lim off ord retf link aggs tb gb sq.
Proof. intros. rewrite fold_left_app. destruct since; cbn [optl fold_left apply_clause fst snd]; apply fc_2. Qed.

Lemma fc_0 : forall ev ctx since tf stf wh lim off ord retf link aggs tb gb sq,
  fold_left apply_clause (optl ctx ClFor ++ optl since ClSince ++ optl tf ClUsing ++ optl stf ClUsingTime ++ optl wh ClWhere ++ optl retf ClReturn ++ optl link ClLink ++ optl aggs ClAggs ++ optl tb (fun g => ClTime g None) ++ optl gb (fun l => ClGroup l None) ++ optl ord (fun o => ClOrder (fst o) (snd o)) ++ optl lim ClLimit ++ optl off ClOffset) (mkQuery ev None None None None None None None None None None None None None sq) = mkQuery ev ctx since tf stf wh lim off ord retf link aggs tb gb sq.
Proof. intros. rewrite fold_left_app. destruct ctx; cbn [optl fold_left apply_clause fst snd]; apply fc_1. Qed.

Lemma fold_clauses : forall q,
  fold_left apply_clause (clauses_of q) (empty_query (q_event q) (q_seq q)) = q.
Proof. intros [ev ctx since tf stf wh lim off ord retf link aggs tb gb sq]. apply fc_0. Qed.


(** * Generic lemmas on repetition *)

Lemma alt_err : forall A (p q : P A) s, p s = Err -> alt p q s = q s.
Proof. intros A p q s H. unfold alt. rewrite H. auto. Qed.
Lemma alt_ok : forall A (p q : P A) s x, p s = Ok x -> alt p q s = Ok x.
Proof. intros A p q s x H. unfold alt. rewrite H. auto. Qed.
Lemma kw_bind_err : forall A k (f : unit -> P A) s, ci k s = None -> bind (kw k) f s = Err.
Proof. intros A k f s H. unfold bind, kw. rewrite H. auto. Qed.
Lemma kw_bind_ok : forall A k (f : unit -> P A) s r, ci k s = Some r -> bind (kw k) f s = f tt r.
Proof. intros A k f s r H. unfold bind, kw. rewrite H. auto. Qed.
Lemma skip_bind : forall A (f : unit -> P A) s, bind skip f s = f tt (ws s).
Proof. reflexivity. Qed.
Lemma sym_bind_ok : forall A c (f : unit -> P A) r, bind (sym c) f (c :: r) = f tt r.
Proof. intros. unfold bind, sym, lit. rewrite N.eqb_refl. reflexivity. Qed.

Lemma many_seq_ws : forall A (p : P A) (t : A -> bytes) (tail : bytes) (Good : list A -> Prop),
  (forall r r', ws r = ws r' -> p r = p r') ->
  (forall x xs, Good (x :: xs) ->
     Good xs /\ exists r', p (t x ++ flat_map t xs ++ tail) = Ok (x, r') /\ ws r' = ws (flat_map t xs ++ tail)) ->
  p tail = Err ->
  forall xs fuel r0, Good xs -> (length xs < fuel)%nat -> ws r0 = ws (flat_map t xs ++ tail) ->
  exists r', many fuel p r0 = Ok (xs, r') /\ ws r' = ws tail.
Proof.
  intros A p t tail Good Hws Hstep Htail. induction xs as [|x xs IH]; intros fuel r0 HG Hf Hr0;
    (destruct fuel as [|fuel]; [cbn in Hf; lia|]); cbn [many].
  - cbn [flat_map app] in Hr0. rewrite (Hws r0 tail Hr0), Htail. eauto.
  - cbn [flat_map] in Hr0. rewrite <- app_assoc in Hr0. rewrite (Hws _ _ Hr0).
    destruct (Hstep x xs HG) as (HG' & r' & E & Hr'). rewrite E.
    cbn [length] in Hf. destruct (IH fuel r' HG' ltac:(lia) Hr') as (r'' & E' & Hr''). rewrite E'. eauto.
Qed.

(** the tail of a comma-separated printed list *)
Lemma many_sep_tail : forall A (pr : A -> bytes) (p : P A) (okf : bytes -> Prop) xs rest fuel,
  (forall x r, In x xs -> okf r -> p (pr x ++ r) = Ok (x, r)) ->
  (forall x r, In x xs -> head_is is_tws (pr x ++ r) = false) ->
  (forall r, okf (44 :: 32 :: r)) -> okf rest -> comma_sep rest = None ->
  (length xs < fuel)%nat ->
  many fuel (sepstep p comma_sep) (flat_map (fun y => 44 :: 32 :: pr y) xs ++ rest) = Ok (xs, rest).
Proof.
  intros A pr p okf xs rest. induction xs as [|x xs IH]; intros fuel Hp Hh Hc Hr Hs Hf;
    (destruct fuel as [|fuel]; [cbn in Hf; lia|]); cbn [many flat_map app].
  - unfold sepstep at 1. rewrite Hs. auto.
  - norm_app. unfold sepstep at 1. unfold comma_sep.
    rewrite (ws_nows (44 :: _) eq_refl), lit_hit, ws_space, (ws_nows _ (Hh x _ (or_introl eq_refl))).
    rewrite (Hp x); [|left; auto|destruct xs; [exact Hr|apply Hc]].
    rewrite IH; auto.
    + intros y r Hy. apply Hp. right. auto.
    + intros y r Hy. apply Hh. right. auto.
    + cbn [length] in Hf. lia.
Qed.

Lemma flat_map_len_ge : forall A (pr : A -> bytes) xs X,
  (length xs <= length (flat_map (fun y => 44%N :: 32%N :: pr y) xs ++ X))%nat.
Proof.
  induction xs; intro X; cbn [flat_map length]; [lia|]. norm_app. cbn [length].
  specialize (IHxs X). rewrite !app_length in *. lia.
Qed.

Lemma sep_print_rt : forall A (pr : A -> bytes) (p : P A) (okf : bytes -> Prop) xs rest,
  (forall x r, In x xs -> okf r -> p (pr x ++ r) = Ok (x, r)) ->
  (forall x r, In x xs -> head_is is_tws (pr x ++ r) = false) ->
  (forall r, okf (44 :: 32 :: r)) -> okf rest -> comma_sep rest = None -> (xs = [] -> p rest = Err) ->
  sep_list p comma_sep (sep_print pr xs ++ rest) = Ok (xs, rest).
Proof.
  intros A pr p okf xs rest Hp Hh Hc Hr Hs He. unfold sep_list, sep_print. destruct xs as [|x xs].
  - cbn [app]. rewrite (He eq_refl). auto.
  - norm_app. rewrite (Hp x); [|left; auto|destruct xs; [exact Hr|apply Hc]].
    fold (sepstep p comma_sep). rewrite (many_sep_tail A pr p okf xs rest); auto.
    + intros y r Hy. apply Hp. right. auto.
    + intros y r Hy. apply Hh. right. auto.
    + pose proof (flat_map_len_ge A pr xs rest). lia.
Qed.

Section QRT.
Variable fx : bool.
Variable sp : bytes -> bytes.
Hypothesis Hsp : speller_ok sp.

Definition print_clause (c : clause) : bytes :=
  match c with
  | ClFor c => sp K_FOR ++ 32 :: quoted c
  | ClSince c => sp K_SINCE ++ 32 :: quoted c
  | ClUsing f => sp K_USING ++ 32 :: f
  | ClUsingTime f => sp K_USING ++ 32 :: sp K_TIME ++ 32 :: f
  | ClWhere e => sp K_WHERE ++ 32 :: print_expr sp e
  | ClReturn l => sp K_RETURN ++ 32 :: 91 :: print_list quoted l ++ [93]
  | ClLink f => sp K_LINKED ++ 32 :: sp K_BY ++ 32 :: f
  | ClAggs l => print_aggs sp l
  | ClTime g _ => sp K_PER ++ 32 :: sp (gran_kw g)
  | ClGroup l _ => sp K_BY ++ 32 :: print_list (fun f => f) l
  | ClOrder f d => sp K_ORDER ++ 32 :: sp K_BY ++ 32 :: f ++ 32 :: sp (if d then K_DESC else K_ASC)
  | ClLimit n => sp K_LIMIT ++ 32 :: dec_of_N n
  | ClOffset n => sp K_OFFSET ++ 32 :: dec_of_N n
  end.

Definition ctext (c : clause) : bytes := 32 :: print_clause c.

Lemma optl_text : forall A (o : option A) (f : A -> clause),
  flat_map ctext (optl o f) = opt_clause o (fun a => print_clause (f a)).
Proof. intros A [a|] f; cbn; [rewrite app_nil_r|]; reflexivity. Qed.

Lemma print_query_eq : forall q,
  print_query sp q = sp K_QUERY ++ 32 :: q_event q ++ concat (map (print_link sp) (q_seq q))
                     ++ flat_map ctext (clauses_of q).
Proof.
  intro q. unfold print_query, clauses_of. rewrite !flat_map_app, !optl_text. reflexivity.
Qed.

(** * Clause order, first keywords, what may follow a clause *)

Definition agg_kw (a : agg) : bytes :=
  match a with
  | ACount _ | ACountField _ => K_COUNT | ATotal _ => K_TOTAL | AAvg _ => K_AVG | AMin _ => K_MIN | AMax _ => K_MAX
  end.

Definition first_kw (c : clause) : bytes :=
  match c with
  | ClFor _ => K_FOR | ClSince _ => K_SINCE | ClUsing _ | ClUsingTime _ => K_USING | ClWhere _ => K_WHERE
  | ClReturn _ => K_RETURN | ClLink _ => K_LINKED
  | ClAggs l => match l with a :: _ => agg_kw a | [] => K_COUNT end
  | ClTime _ _ => K_PER | ClGroup _ _ => K_BY | ClOrder _ _ => K_ORDER | ClLimit _ => K_LIMIT | ClOffset _ => K_OFFSET
  end.

Definition rank (c : clause) : nat :=
  match c with
  | ClFor _ => 0 | ClSince _ => 1 | ClUsing _ => 2 | ClUsingTime _ => 3 | ClWhere _ => 4 | ClReturn _ => 5
  | ClLink _ => 6 | ClAggs _ => 7 | ClTime _ _ => 8 | ClGroup _ _ => 9 | ClOrder _ _ => 10 | ClLimit _ => 11
  | ClOffset _ => 12
  end.

Definition next_all : list bytes :=
  [K_SINCE; K_USING; K_WHERE; K_RETURN; K_LINKED; K_COUNT; K_TOTAL; K_AVG; K_MIN; K_MAX; K_PER; K_BY; K_ORDER;
   K_LIMIT; K_OFFSET].

Definition allowed (c : clause) : list bytes :=
  match c with
  | ClAggs _ => [K_PER; K_BY; K_ORDER; K_LIMIT; K_OFFSET]
  | ClTime _ _ => [K_BY; K_ORDER; K_LIMIT; K_OFFSET]
  | _ => next_all
  end.

Definition cfollow (c : clause) (rest : bytes) : Prop :=
  rest = [] \/
  exists K r, rest = 32 :: sp K ++ r /\ head_is is_alpha r = false /\ In K (allowed c) /\
    (K = K_ORDER -> exists r', r = 32 :: sp K_BY ++ r' /\ head_is is_alpha r' = false).

Definition wf_clause (c : clause) : bool :=
  match c with
  | ClFor s | ClSince s => no_quote s
  | ClUsing f | ClUsingTime f => wf_field f
  | ClWhere e => wf_expr e
  | ClReturn l => forallb no_quote l
  | ClLink f => wf_ident f
  | ClAggs l => negb (match l with [] => true | _ => false end) && forallb wf_agg l
  | ClTime _ u => match u with None => true | Some _ => false end
  | ClGroup l u => negb (match l with [] => true | _ => false end) && forallb wf_field l
                   && match u with None => true | Some _ => false end
  | ClOrder f _ => wf_field f
  | ClLimit n | ClOffset n => n <? 4294967296
  end.

Ltac kw_in := cbn; tauto.
Ltac in_cases H := cbn [In allowed next_all] in H; repeat (destruct H as [H|H]; [subst|]); try contradiction.

Lemma next_all_kw : forall K, In K next_all -> In K keywords.
Proof. intros K H. in_cases H; kw_in. Qed.

Lemma allowed_next : forall c K, In K (allowed c) -> In K next_all.
Proof. intros c K H. destruct c; cbn [allowed] in H; auto; in_cases H; cbn; tauto. Qed.

Lemma allowed_kw : forall c K, In K (allowed c) -> In K keywords.
Proof. intros. eapply next_all_kw, allowed_next; eauto. Qed.

Lemma next_all_not_op : forall K, In K next_all -> K <> K_IN /\ K <> K_AND /\ K <> K_OR /\ K <> K_UNIQUE /\ K <> K_TIME.
Proof. intros K H. in_cases H; repeat split; vm_compute; discriminate. Qed.

Lemma cf_head_ok : forall c rest, cfollow c rest -> head_ok rest = true.
Proof. intros c rest [->|(K & r & -> & _)]; reflexivity. Qed.

Lemma cf_ostop : forall c rest, cfollow c rest -> ostop rest.
Proof.
  intros c rest [->|(K & r & -> & Hr & HK & _)]; [apply ostop_nil|].
  pose proof (allowed_next _ _ HK) as Hn. destruct (next_all_not_op K Hn) as (H1 & H2 & H3 & _).
  apply ostop_kw; auto using next_all_kw.
Qed.

Lemma cf_ws : forall c rest, cfollow c rest ->
  rest = [] \/ exists K r, ws rest = sp K ++ r /\ head_is is_alpha r = false /\ In K (allowed c) /\ rest = 32 :: sp K ++ r.
Proof.
  intros c rest [->|(K & r & -> & Hr & HK & _)]; [left; auto|right]. exists K, r.
  rewrite ws_space, (ws_nows _ (alpha_not_ws _ (sp_head_alpha sp Hsp K r (allowed_kw _ _ HK)))). auto.
Qed.

Lemma cf_nocomma : forall c rest, cfollow c rest -> comma_sep rest = None.
Proof.
  intros c rest H. destruct (cf_ws c rest H) as [->|(K & r & E & Hr & HK & _)]; [reflexivity|].
  unfold comma_sep. rewrite E.
  pose proof (sp_head_alpha sp Hsp K r (allowed_kw _ _ HK)) as Ha.
  destruct (sp K ++ r) as [|x y]; [reflexivity|]. unfold lit. unfold head_is, is_alpha in Ha.
  replace (x =? 44) with false by lia. auto.
Qed.

(** a keyword that may not follow is not read there *)
Lemma cf_ci_none : forall c rest K', cfollow c rest -> In K' keywords -> ~ In K' (allowed c) -> ci K' (ws rest) = None.
Proof.
  intros c rest K' H HK' Hn. destruct (cf_ws c rest H) as [->|(K & r & E & Hr & HK & _)]; [reflexivity|].
  rewrite E. apply (ci_sp_other sp Hsp); auto; [eapply allowed_kw; eauto|intro; subst; auto].
Qed.

Lemma cf_ci_none_raw : forall c rest K', cfollow c rest -> ci K' rest = None.
Proof. intros c rest K' [->|(K & r & -> & _)]; reflexivity. Qed.

Lemma cf_fld_stop : forall c rest, cfollow c rest -> fld_stop rest = true.
Proof. intros. apply head_ok_fld_stop. eapply cf_head_ok; eauto. Qed.


(** * One clause *)

Ltac kwok := erewrite kw_bind_ok by (apply (ci_sp sp Hsp); [kw_in|reflexivity]); cbv beta.
Ltac kwerr K := rewrite kw_bind_err by (apply (ci_sp_other sp Hsp K); [kw_in|kw_in|vm_compute; discriminate|reflexivity]).

Lemma quoted_arg : forall s rest, no_quote s = true -> alt identp strp (34 :: s ++ 34 :: rest) = Ok (s, rest).
Proof.
  intros s rest Hs. unfold alt, identp, strp, lift.
  change (ident (34 :: s ++ 34 :: rest)) with (@None (bytes * bytes)). rewrite string_lit_print; auto.
Qed.

Lemma for_rt : forall s rest, no_quote s = true ->
  for_clause (sp K_FOR ++ 32 :: quoted s ++ rest) = Ok (ClFor s, rest).
Proof.
  intros s rest Hs. unfold for_clause, quoted. norm_app. kwok. rewrite skip_bind. cbv beta.
  rewrite ws_space, (ws_nows (34 :: _) eq_refl). unfold bind at 1. rewrite quoted_arg; auto.
Qed.

Lemma since_rt : forall s rest, no_quote s = true ->
  since_clause (sp K_SINCE ++ 32 :: quoted s ++ rest) = Ok (ClSince s, rest).
Proof.
  intros s rest Hs. unfold since_clause, quoted. norm_app. kwok. rewrite skip_bind. cbv beta.
  rewrite ws_space, (ws_nows (34 :: _) eq_refl). unfold bind at 1. unfold strp, lift. rewrite string_lit_print; auto.
Qed.

Lemma return_item_rt : forall s r, no_quote s = true -> return_item (quoted s ++ r) = Ok (s, r).
Proof.
  intros s r Hs. unfold return_item, alt, fieldp, strp, lift, quoted. norm_app.
  change (field (34 :: s ++ 34 :: r)) with (@None (bytes * bytes)). rewrite string_lit_print; auto.
Qed.

Lemma return_rt : forall l rest, forallb no_quote l = true ->
  return_clause (sp K_RETURN ++ 32 :: 91 :: print_list quoted l ++ 93 :: rest) = Ok (ClReturn l, rest).
Proof.
  intros l rest Hl. unfold return_clause. kwok. rewrite skip_bind. cbv beta.
  rewrite ws_space, (ws_nows (91 :: _) eq_refl). rewrite sym_bind_ok. cbv beta.
  rewrite skip_bind. cbv beta.
  assert (Hws : ws (print_list quoted l ++ 93 :: rest) = print_list quoted l ++ 93 :: rest).
  { apply ws_nows. unfold print_list, sep_print. destruct l; reflexivity. }
  rewrite Hws. unfold bind at 1. unfold print_list.
  rewrite (sep_print_rt _ quoted return_item (fun _ => True) l (93 :: rest)); auto.
  intros x r Hx _. apply return_item_rt. rewrite forallb_forall in Hl. auto.
Qed.

Lemma linked_rt : forall f rest, wf_ident f = true -> head_is is_ident_char rest = false ->
  linked_clause (sp K_LINKED ++ 32 :: sp K_BY ++ 32 :: f ++ rest) = Ok (ClLink f, rest).
Proof.
  intros f rest Hf Hr. unfold linked_clause. kwok. rewrite skip_bind. cbv beta.
  rewrite ws_space, (ws_nows _ (alpha_not_ws _ (sp_head_alpha sp Hsp K_BY _ ltac:(kw_in)))). kwok.
  rewrite skip_bind. cbv beta.
  assert (Hi : ident (f ++ rest) = Some (f, rest)) by (apply ident_print; auto using wf_ident_syntax).
  assert (Hh : head_is is_tws (f ++ rest) = false).
  { apply wf_ident_syntax in Hf. destruct f as [|c f']; [discriminate|]. cbn in Hf. apply andb_prop in Hf as [Hc _].
    unfold head_is. cbn [app]. unfold is_ident_start, is_alpha in Hc. unfold is_tws. lia. }
  rewrite ws_space, (ws_nows _ Hh). unfold bind, identp, lift, ret. rewrite Hi. reflexivity.
Qed.


Lemma field_nows : forall f rest, wf_field f = true -> head_is is_tws (f ++ rest) = false.
Proof.
  intros f rest Hf. destruct (wf_field_head f rest Hf) as (c & r & E & Hc). rewrite E.
  unfold head_is. unfold is_ident_start, is_alpha in Hc. unfold is_tws. lia.
Qed.

Lemma where_rt : forall e rest, wf_expr e = true -> ostop rest ->
  where_clause fx (sp K_WHERE ++ 32 :: print_expr sp e ++ rest) = Ok (ClWhere e, rest).
Proof.
  intros e rest He Hr. unfold where_clause. kwok. rewrite skip_bind. cbv beta.
  rewrite ws_space. unfold print_expr. rewrite (print_nows sp Hsp e 0 rest He). unfold bind, ret.
  fold (print_expr sp e). rewrite (parse_print_at fx sp e rest Hsp He Hr). reflexivity.
Qed.

Lemma using_rt : forall f rest, wf_field f = true -> fld_stop rest = true ->
  alt using_time_clause using_clause (sp K_USING ++ 32 :: f ++ rest) = Ok (ClUsing f, rest).
Proof.
  intros f rest Hf Hr.
  assert (E1 : using_time_clause (sp K_USING ++ 32 :: f ++ rest) = Err).
  { unfold using_time_clause. kwok. rewrite skip_bind. cbv beta. rewrite ws_space, (ws_nows _ (field_nows f rest Hf)).
    apply kw_bind_err. apply (ci_wf_field f K_TIME rest Hf); auto. kw_in. }
  rewrite (alt_err _ _ _ _ E1). unfold using_clause. kwok. rewrite skip_bind. cbv beta.
  rewrite ws_space, (ws_nows _ (field_nows f rest Hf)). unfold bind, fieldp, lift, ret. rewrite field_print; auto.
Qed.

Lemma using_time_rt : forall f rest, wf_field f = true -> fld_stop rest = true ->
  using_time_clause (sp K_USING ++ 32 :: sp K_TIME ++ 32 :: f ++ rest) = Ok (ClUsingTime f, rest).
Proof.
  intros f rest Hf Hr. unfold using_time_clause. kwok. rewrite skip_bind. cbv beta.
  rewrite ws_space, (ws_nows _ (alpha_not_ws _ (sp_head_alpha sp Hsp K_TIME _ ltac:(kw_in)))). kwok.
  rewrite skip_bind. cbv beta. rewrite ws_space, (ws_nows _ (field_nows f rest Hf)).
  unfold bind, fieldp, lift, ret. rewrite field_print; auto.
Qed.

Lemma granularity_rt : forall g rest, head_is is_alpha rest = false ->
  granularity (sp (gran_kw g) ++ rest) = Ok (g, rest).
Proof.
  intros g rest Hr. unfold granularity.
  destruct g; cbn [gran_kw];
    repeat (first [ rewrite alt_err by (apply kw_bind_err; apply (ci_sp_other sp Hsp); [kw_in|kw_in|vm_compute; discriminate|exact Hr])
                  | rewrite (alt_ok _ _ _ _ (_, rest)) by (erewrite kw_bind_ok by (apply (ci_sp sp Hsp); [kw_in|exact Hr]); reflexivity) ]);
    try reflexivity.
  erewrite kw_bind_ok by (apply (ci_sp sp Hsp); [kw_in|exact Hr]). reflexivity.
Qed.

Lemma time_rt : forall g rest, head_is is_alpha rest = false -> ci K_USING (ws rest) = None ->
  time_clause (sp K_PER ++ 32 :: sp (gran_kw g) ++ rest) = Ok (ClTime g None, ws rest).
Proof.
  intros g rest Hr Hu. unfold time_clause. kwok. rewrite skip_bind. cbv beta.
  assert (Hg : In (gran_kw g) keywords) by (destruct g; kw_in).
  rewrite ws_space, (ws_nows _ (alpha_not_ws _ (sp_head_alpha sp Hsp _ _ Hg))).
  unfold bind at 1. rewrite (granularity_rt g rest Hr). rewrite skip_bind. cbv beta.
  unfold opt_using, opt, bind, kw, ret. rewrite Hu. reflexivity.
Qed.

Lemma order_rt : forall f (d : bool) rest, wf_field f = true -> head_is is_alpha rest = false ->
  order_clause (sp K_ORDER ++ 32 :: sp K_BY ++ 32 :: f ++ 32 :: sp (if d then K_DESC else K_ASC) ++ rest)
  = Ok (ClOrder f d, rest).
Proof.
  intros f d rest Hf Hr. unfold order_clause. kwok. rewrite skip_bind. cbv beta.
  rewrite ws_space, (ws_nows _ (alpha_not_ws _ (sp_head_alpha sp Hsp K_BY _ ltac:(kw_in)))). kwok.
  rewrite skip_bind. cbv beta. rewrite ws_space, (ws_nows _ (field_nows f _ Hf)).
  unfold bind at 1. unfold fieldp, lift. rewrite (field_print f (32 :: _) Hf eq_refl).
  rewrite skip_bind. cbv beta.
  assert (Hd : In (if d then K_DESC else K_ASC) keywords) by (destruct d; kw_in).
  rewrite ws_space, (ws_nows _ (alpha_not_ws _ (sp_head_alpha sp Hsp _ _ Hd))).
  unfold bind at 1. unfold opt.
  destruct d.
  - rewrite alt_err by (apply kw_bind_err; apply (ci_sp_other sp Hsp); [kw_in|kw_in|vm_compute; discriminate|exact Hr]).
    erewrite kw_bind_ok by (apply (ci_sp sp Hsp); [kw_in|exact Hr]). reflexivity.
  - rewrite (alt_ok _ _ _ _ (false, rest)) by (erewrite kw_bind_ok by (apply (ci_sp sp Hsp); [kw_in|exact Hr]); reflexivity).
    reflexivity.
Qed.

Lemma u32_clause_rt : forall K site mk n rest, In K keywords -> n < 4294967296 -> head_is is_digit rest = false ->
  (let* _ := kw K in let* _ := skip in let* m := intp in conv_clause fx site mk m) (sp K ++ 32 :: dec_of_N n ++ rest)
  = Ok (mk n, rest).
Proof.
  intros K site mk n rest HK Hn Hr. destruct (dec_of_N_spec n) as (Hd & Hne & Hv).
  erewrite kw_bind_ok by (apply (ci_sp sp Hsp); [exact HK|reflexivity]). cbv beta.
  rewrite skip_bind. cbv beta.
  assert (Hh : head_is is_tws (dec_of_N n ++ rest) = false).
  { destruct (dec_of_N n) as [|c d']; [congruence|]. unfold all_digits in Hd. cbn [forallb] in Hd.
    unfold head_is. cbn [app]. unfold is_digit in Hd. unfold is_tws. lia. }
  rewrite ws_space, (ws_nows _ Hh). unfold bind, intp, lift. rewrite (integer_digits _ _ Hd Hne Hr).
  unfold conv_clause, conv_u32. cbn [fst snd]. rewrite Hv. replace (n <? 4294967296) with true by lia. reflexivity.
Qed.


Lemma fld_stop_comma : forall r, fld_stop (44 :: 32 :: r) = true.
Proof. reflexivity. Qed.

Lemma group_rt : forall l rest, l <> [] -> forallb wf_field l = true ->
  fld_stop rest = true -> comma_sep rest = None -> ci K_USING rest = None ->
  group_clause (sp K_BY ++ 32 :: print_list (fun f => f) l ++ rest) = Ok (ClGroup l None, rest).
Proof.
  intros l rest Hne Hl Hr Hc Hu. destruct l as [|f1 l']; [congruence|]. cbn [forallb] in Hl. apply andb_prop in Hl as [Hf1 Hl'].
  unfold group_clause, print_list, sep_print. norm_app. kwok. rewrite skip_bind. cbv beta.
  rewrite ws_space, (ws_nows _ (field_nows f1 _ Hf1)).
  unfold bind at 1. unfold fieldp at 1, lift.
  rewrite (field_print f1); [|auto|destruct l'; [exact Hr|reflexivity]].
  unfold bind at 1.
  change (fun s1 : bytes => match comma_sep s1 with Some s2 => fieldp s2 | None => Err end) with (sepstep fieldp comma_sep).
  rewrite (many_sep_tail _ (fun f : bytes => f) fieldp (fun r => fld_stop r = true) l' rest); auto.
  - unfold opt_using, opt, bind, kw, ret. rewrite Hu. reflexivity.
  - intros x r Hx Hrr. unfold fieldp, lift. rewrite field_print; auto. rewrite forallb_forall in Hl'. auto.
  - intros x r Hx. apply field_nows. rewrite forallb_forall in Hl'. auto.
  - pose proof (flat_map_len_ge _ (fun f : bytes => f) l' rest). lia.
Qed.

(** ** aggregates *)

Definition agg_follow (r : bytes) : Prop :=
  fld_stop r = true /\ ci K_UNIQUE (ws r) = None /\ (clause_start (ws r) = Some tt \/ field (ws r) = None).

Lemma agg_follow_comma : forall r, agg_follow (44 :: 32 :: r).
Proof. intro r. repeat split; auto. Qed.

Lemma clause_start_field : forall f rest, wf_field f = true -> fld_stop rest = true -> clause_start (f ++ rest) = None.
Proof.
  intros f rest Hf Hr. unfold clause_start.
  rewrite !(ci_wf_field f _ rest Hf) by (auto; kw_in). reflexivity.
Qed.

Lemma agg_field_rt : forall K mk f r, In K keywords -> wf_field f = true -> fld_stop r = true ->
  agg_field K mk (sp K ++ 32 :: f ++ r) = Ok (mk f, r).
Proof.
  intros K mk f r HK Hf Hr. unfold agg_field.
  erewrite kw_bind_ok by (apply (ci_sp sp Hsp); [exact HK|reflexivity]). cbv beta.
  rewrite skip_bind. cbv beta. rewrite ws_space, (ws_nows _ (field_nows f r Hf)).
  unfold bind, notp, fieldp, lift, ret. rewrite (clause_start_field f r Hf Hr), field_print; auto.
Qed.

Lemma agg_field_other : forall K K' mk r, In K keywords -> In K' keywords -> K <> K' -> head_is is_alpha r = false ->
  agg_field K' mk (sp K ++ r) = Err.
Proof. intros. unfold agg_field. apply kw_bind_err. apply (ci_sp_other sp Hsp); auto. Qed.

Lemma agg_nows : forall a r, head_is is_tws (print_agg sp a ++ r) = false.
Proof.
  intros a r. assert (H : exists K R, In K keywords /\ print_agg sp a ++ r = sp K ++ R).
  { destruct a as [[f|]|f|f|f|f|f]; cbn [print_agg]; norm_app; eexists; eexists; (split; [|reflexivity]); kw_in. }
  destruct H as (K & R & HK & E). rewrite E. apply alpha_not_ws, (sp_head_alpha sp Hsp); auto.
Qed.

Lemma agg_spec_rt : forall a r, wf_agg a = true -> agg_follow r -> agg_spec (print_agg sp a ++ r) = Ok (a, r).
Proof.
  intros a r Ha (Hr & Hu & Hcs). pose proof (fld_stop_nonalpha _ Hr) as Hal.
  unfold agg_spec. destruct a as [[f|]|f|f|f|f|f]; cbn [print_agg wf_agg] in *; norm_app.
  - (* COUNT UNIQUE f *)
    apply alt_ok. kwok. rewrite skip_bind. cbv beta.
    rewrite ws_space, (ws_nows _ (alpha_not_ws _ (sp_head_alpha sp Hsp K_UNIQUE _ ltac:(kw_in)))). kwok.
    rewrite skip_bind. cbv beta. rewrite ws_space, (ws_nows _ (field_nows f r Ha)).
    unfold bind, notp, fieldp, lift, ret. rewrite (clause_start_field f r Ha Hr), field_print; auto.
  - (* COUNT *)
    rewrite alt_err.
    2:{ erewrite kw_bind_ok by (apply (ci_sp sp Hsp); [kw_in|exact Hal]). cbv beta. rewrite skip_bind. cbv beta.
        apply kw_bind_err. exact Hu. }
    rewrite alt_err.
    2:{ unfold agg_field. erewrite kw_bind_ok by (apply (ci_sp sp Hsp); [kw_in|exact Hal]). cbv beta. rewrite skip_bind. cbv beta.
        unfold bind, notp, fieldp, lift. destruct (clause_start (ws r)) as [[]|] eqn:Ecs; [reflexivity|].
        destruct Hcs as [E|E]; [congruence|]. rewrite E. reflexivity. }
    apply alt_ok. erewrite kw_bind_ok by (apply (ci_sp sp Hsp); [kw_in|exact Hal]). reflexivity.
  - (* COUNT f *)
    rewrite alt_err.
    2:{ kwok. rewrite skip_bind. cbv beta. rewrite ws_space, (ws_nows _ (field_nows f r Ha)).
        apply kw_bind_err. apply (ci_wf_field f K_UNIQUE r Ha); auto. kw_in. }
    apply alt_ok. apply agg_field_rt; auto. kw_in.
  - (* TOTAL *)
    rewrite alt_err by (apply kw_bind_err; apply (ci_sp_other sp Hsp); [kw_in|kw_in|vm_compute; discriminate|reflexivity]).
    rewrite alt_err by (apply agg_field_other; [kw_in|kw_in|vm_compute; discriminate|reflexivity]).
    rewrite alt_err by (apply kw_bind_err; apply (ci_sp_other sp Hsp); [kw_in|kw_in|vm_compute; discriminate|reflexivity]).
    apply alt_ok. apply agg_field_rt; auto. kw_in.
  - (* AVG *)
    rewrite alt_err by (apply kw_bind_err; apply (ci_sp_other sp Hsp); [kw_in|kw_in|vm_compute; discriminate|reflexivity]).
    rewrite alt_err by (apply agg_field_other; [kw_in|kw_in|vm_compute; discriminate|reflexivity]).
    rewrite alt_err by (apply kw_bind_err; apply (ci_sp_other sp Hsp); [kw_in|kw_in|vm_compute; discriminate|reflexivity]).
    rewrite alt_err by (apply agg_field_other; [kw_in|kw_in|vm_compute; discriminate|reflexivity]).
    apply alt_ok. apply agg_field_rt; auto. kw_in.
  - (* MIN *)
    rewrite alt_err by (apply kw_bind_err; apply (ci_sp_other sp Hsp); [kw_in|kw_in|vm_compute; discriminate|reflexivity]).
    rewrite alt_err by (apply agg_field_other; [kw_in|kw_in|vm_compute; discriminate|reflexivity]).
    rewrite alt_err by (apply kw_bind_err; apply (ci_sp_other sp Hsp); [kw_in|kw_in|vm_compute; discriminate|reflexivity]).
    rewrite alt_err by (apply agg_field_other; [kw_in|kw_in|vm_compute; discriminate|reflexivity]).
    rewrite alt_err by (apply agg_field_other; [kw_in|kw_in|vm_compute; discriminate|reflexivity]).
    apply alt_ok. apply agg_field_rt; auto. kw_in.
  - (* MAX *)
    rewrite alt_err by (apply kw_bind_err; apply (ci_sp_other sp Hsp); [kw_in|kw_in|vm_compute; discriminate|reflexivity]).
    rewrite alt_err by (apply agg_field_other; [kw_in|kw_in|vm_compute; discriminate|reflexivity]).
    rewrite alt_err by (apply kw_bind_err; apply (ci_sp_other sp Hsp); [kw_in|kw_in|vm_compute; discriminate|reflexivity]).
    rewrite alt_err by (apply agg_field_other; [kw_in|kw_in|vm_compute; discriminate|reflexivity]).
    rewrite alt_err by (apply agg_field_other; [kw_in|kw_in|vm_compute; discriminate|reflexivity]).
    rewrite alt_err by (apply agg_field_other; [kw_in|kw_in|vm_compute; discriminate|reflexivity]).
    apply agg_field_rt; auto. kw_in.
Qed.

Lemma aggs_rt : forall l rest, l <> [] -> forallb wf_agg l = true -> agg_follow rest -> comma_sep rest = None ->
  agg_clause (print_aggs sp l ++ rest) = Ok (ClAggs l, rest).
Proof.
  intros l rest Hne Hl Hr Hc. unfold agg_clause, bind, sep_list1, print_aggs.
  rewrite (sep_print_rt _ (print_agg sp) agg_spec agg_follow l rest); auto.
  - destruct l; [congruence|reflexivity].
  - intros x r Hx Hf. apply agg_spec_rt; auto. rewrite forallb_forall in Hl. auto.
  - intros x r Hx. apply agg_nows.
  - apply agg_follow_comma.
  - intro; congruence.
Qed.


(** ** the ordered choice of clause_p *)

Lemma ws_idem : forall s, ws (ws s) = ws s.
Proof.
  intro s. unfold ws. induction s as [|c r IH]; [reflexivity|]. cbn [drop_while].
  destruct (is_tws c) eqn:E; auto. cbn [drop_while]. rewrite E. reflexivity.
Qed.

Lemma agg_spec_err : forall K r, In K keywords ->
  K <> K_COUNT -> K <> K_TOTAL -> K <> K_AVG -> K <> K_MIN -> K <> K_MAX -> head_is is_alpha r = false ->
  agg_spec (sp K ++ r) = Err.
Proof.
  intros K r HK H1 H2 H3 H4 H5 Hr. unfold agg_spec.
  rewrite alt_err by (apply kw_bind_err; apply (ci_sp_other sp Hsp); auto; kw_in).
  rewrite alt_err by (apply agg_field_other; auto; kw_in).
  rewrite alt_err by (apply kw_bind_err; apply (ci_sp_other sp Hsp); auto; kw_in).
  rewrite alt_err by (apply agg_field_other; auto; kw_in).
  rewrite alt_err by (apply agg_field_other; auto; kw_in).
  rewrite alt_err by (apply agg_field_other; auto; kw_in).
  apply agg_field_other; auto; kw_in.
Qed.

Lemma agg_clause_err : forall K r, In K keywords ->
  K <> K_COUNT -> K <> K_TOTAL -> K <> K_AVG -> K <> K_MIN -> K <> K_MAX -> head_is is_alpha r = false ->
  agg_clause (sp K ++ r) = Err.
Proof.
  intros. unfold agg_clause, bind, sep_list1, sep_list. rewrite agg_spec_err; auto.
Qed.

Lemma clause_start_kw : forall K r, In K [K_PER; K_BY; K_ORDER; K_LIMIT; K_OFFSET] -> head_is is_alpha r = false ->
  (K = K_ORDER -> exists r', r = 32 :: sp K_BY ++ r' /\ head_is is_alpha r' = false) ->
  clause_start (sp K ++ r) = Some tt.
Proof.
  intros K r HK Hr Ho. unfold clause_start. in_cases HK.
  - rewrite (ci_sp sp Hsp K_PER r ltac:(kw_in) Hr). reflexivity.
  - rewrite (ci_sp_other sp Hsp K_BY K_PER r ltac:(kw_in) ltac:(kw_in) ltac:(vm_compute; discriminate) Hr).
    rewrite (ci_sp sp Hsp K_BY r ltac:(kw_in) Hr). reflexivity.
  - destruct (Ho eq_refl) as (r' & -> & Hr').
    rewrite (ci_sp_other sp Hsp K_ORDER K_PER (32 :: sp K_BY ++ r') ltac:(kw_in) ltac:(kw_in) ltac:(vm_compute; discriminate) eq_refl).
    rewrite (ci_sp_other sp Hsp K_ORDER K_BY (32 :: sp K_BY ++ r') ltac:(kw_in) ltac:(kw_in) ltac:(vm_compute; discriminate) eq_refl).
    rewrite (ci_sp_other sp Hsp K_ORDER K_USING (32 :: sp K_BY ++ r') ltac:(kw_in) ltac:(kw_in) ltac:(vm_compute; discriminate) eq_refl).
    rewrite (ci_sp_other sp Hsp K_ORDER K_SINCE (32 :: sp K_BY ++ r') ltac:(kw_in) ltac:(kw_in) ltac:(vm_compute; discriminate) eq_refl).
    rewrite (ci_sp_other sp Hsp K_ORDER K_LIMIT (32 :: sp K_BY ++ r') ltac:(kw_in) ltac:(kw_in) ltac:(vm_compute; discriminate) eq_refl).
    rewrite (ci_sp_other sp Hsp K_ORDER K_OFFSET (32 :: sp K_BY ++ r') ltac:(kw_in) ltac:(kw_in) ltac:(vm_compute; discriminate) eq_refl).
    rewrite (ci_sp sp Hsp K_ORDER (32 :: _) ltac:(kw_in) eq_refl).
    rewrite ws_space, (ws_nows _ (alpha_not_ws _ (sp_head_alpha sp Hsp K_BY _ ltac:(kw_in)))).
    rewrite (ci_sp sp Hsp K_BY r' ltac:(kw_in) Hr'). reflexivity.
  -
    rewrite (ci_sp_other sp Hsp K_LIMIT K_PER r ltac:(kw_in) ltac:(kw_in) ltac:(vm_compute; discriminate) Hr).
    rewrite (ci_sp_other sp Hsp K_LIMIT K_BY r ltac:(kw_in) ltac:(kw_in) ltac:(vm_compute; discriminate) Hr).
    rewrite (ci_sp_other sp Hsp K_LIMIT K_USING r ltac:(kw_in) ltac:(kw_in) ltac:(vm_compute; discriminate) Hr).
    rewrite (ci_sp_other sp Hsp K_LIMIT K_SINCE r ltac:(kw_in) ltac:(kw_in) ltac:(vm_compute; discriminate) Hr).
    rewrite (ci_sp sp Hsp K_LIMIT r ltac:(kw_in) Hr). reflexivity.
  -
    rewrite (ci_sp_other sp Hsp K_OFFSET K_PER r ltac:(kw_in) ltac:(kw_in) ltac:(vm_compute; discriminate) Hr).
    rewrite (ci_sp_other sp Hsp K_OFFSET K_BY r ltac:(kw_in) ltac:(kw_in) ltac:(vm_compute; discriminate) Hr).
    rewrite (ci_sp_other sp Hsp K_OFFSET K_USING r ltac:(kw_in) ltac:(kw_in) ltac:(vm_compute; discriminate) Hr).
    rewrite (ci_sp_other sp Hsp K_OFFSET K_SINCE r ltac:(kw_in) ltac:(kw_in) ltac:(vm_compute; discriminate) Hr).
    rewrite (ci_sp_other sp Hsp K_OFFSET K_LIMIT r ltac:(kw_in) ltac:(kw_in) ltac:(vm_compute; discriminate) Hr).
    rewrite (ci_sp sp Hsp K_OFFSET r ltac:(kw_in) Hr). reflexivity.
Qed.

Lemma cf_agg_follow : forall l rest, cfollow (ClAggs l) rest -> agg_follow rest.
Proof.
  intros l rest H. split; [eapply cf_fld_stop; eauto|]. split.
  - apply (cf_ci_none _ _ K_UNIQUE H); [kw_in|]. cbn. intros [E|[E|[E|[E|[E|[]]]]]]; vm_compute in E; discriminate.
  - destruct H as [->|(K & r & -> & Hr & HK & Ho)]; [right; reflexivity|left].
    rewrite ws_space, (ws_nows _ (alpha_not_ws _ (sp_head_alpha sp Hsp K r (allowed_kw (ClAggs l) _ HK)))).
    apply clause_start_kw; auto.
Qed.

Ltac other_kw := apply kw_bind_err; apply (ci_sp_other sp Hsp); [kw_in|kw_in|vm_compute; discriminate|reflexivity].

Lemma clause_rt : forall c rest, wf_clause c = true -> cfollow c rest ->
  exists r', clause_p fx (print_clause c ++ rest) = Ok (c, r') /\ ws r' = ws rest.
Proof.
  intros c rest Hw Hf. pose proof (cf_fld_stop _ _ Hf) as Hfs.
  unfold clause_p. destruct c as [s|s|l|f|e|f|f|l|g u|l u|n|n|f d]; cbn [print_clause wf_clause] in *; norm_app.
  - (* FOR *) exists rest. split; auto. apply alt_ok. apply (for_rt s rest Hw).
  - (* SINCE *) exists rest. split; auto.
    rewrite alt_err by (unfold for_clause; other_kw). apply alt_ok. apply (since_rt s rest Hw).
  - (* RETURN *) exists rest. split; auto.
    rewrite alt_err by (unfold for_clause; other_kw). rewrite alt_err by (unfold since_clause; other_kw).
    apply alt_ok. apply return_rt; auto.
  - (* LINKED BY *) exists rest. split; auto.
    rewrite alt_err by (unfold for_clause; other_kw). rewrite alt_err by (unfold since_clause; other_kw).
    rewrite alt_err by (unfold return_clause; other_kw).
    apply alt_ok. apply linked_rt; auto. apply fld_stop_nonident; auto.
  - (* WHERE *) exists rest. split; auto.
    rewrite alt_err by (unfold for_clause; other_kw). rewrite alt_err by (unfold since_clause; other_kw).
    rewrite alt_err by (unfold return_clause; other_kw). rewrite alt_err by (unfold linked_clause; other_kw).
    apply alt_ok. apply where_rt; auto. eapply cf_ostop; eauto.
  - (* USING *) exists rest. split; auto.
    rewrite alt_err by (unfold for_clause; other_kw). rewrite alt_err by (unfold since_clause; other_kw).
    rewrite alt_err by (unfold return_clause; other_kw). rewrite alt_err by (unfold linked_clause; other_kw).
    rewrite alt_err by (unfold where_clause; other_kw).
    pose proof (using_rt f rest Hw Hfs) as E. unfold alt in E |- *.
    destruct (using_time_clause (sp K_USING ++ 32 :: f ++ rest)) as [[a r]| | |]; try discriminate; auto.
    rewrite E. reflexivity.
  - (* USING TIME *) exists rest. split; auto.
    rewrite alt_err by (unfold for_clause; other_kw). rewrite alt_err by (unfold since_clause; other_kw).
    rewrite alt_err by (unfold return_clause; other_kw). rewrite alt_err by (unfold linked_clause; other_kw).
    rewrite alt_err by (unfold where_clause; other_kw).
    apply alt_ok. apply using_time_rt; auto.
  - (* aggregates *) exists rest. split; auto.
    apply andb_prop in Hw as [Hne Hl]. assert (Hne' : l <> []) by (destruct l; [discriminate|congruence]).
    assert (HK : exists K R, print_aggs sp l ++ rest = sp K ++ R /\ head_is is_alpha R = false /\
                             In K [K_COUNT; K_TOTAL; K_AVG; K_MIN; K_MAX]).
    { destruct l as [|a l']; [congruence|]. unfold print_aggs, sep_print. norm_app.
      assert (Hr0 : head_is is_alpha (flat_map (fun y => 44 :: 32 :: print_agg sp y) l' ++ rest) = false).
      { destruct l'; [apply fld_stop_nonalpha; auto|reflexivity]. }
      destruct a as [[f|]|f|f|f|f|f]; cbn [print_agg]; norm_app; eexists; eexists; (split; [reflexivity|]); (split; [try reflexivity; exact Hr0|cbn; tauto]). }
    destruct HK as (K & R & E & HR & HK). rewrite E.
    assert (HKk : In K keywords) by (in_cases HK; kw_in).
    rewrite alt_err by (unfold for_clause; apply kw_bind_err; apply (ci_sp_other sp Hsp); auto; [kw_in|in_cases HK; vm_compute; discriminate]).
    rewrite alt_err by (unfold since_clause; apply kw_bind_err; apply (ci_sp_other sp Hsp); auto; [kw_in|in_cases HK; vm_compute; discriminate]).
    rewrite alt_err by (unfold return_clause; apply kw_bind_err; apply (ci_sp_other sp Hsp); auto; [kw_in|in_cases HK; vm_compute; discriminate]).
    rewrite alt_err by (unfold linked_clause; apply kw_bind_err; apply (ci_sp_other sp Hsp); auto; [kw_in|in_cases HK; vm_compute; discriminate]).
    rewrite alt_err by (unfold where_clause; apply kw_bind_err; apply (ci_sp_other sp Hsp); auto; [kw_in|in_cases HK; vm_compute; discriminate]).
    rewrite alt_err by (unfold using_time_clause; apply kw_bind_err; apply (ci_sp_other sp Hsp); auto; [kw_in|in_cases HK; vm_compute; discriminate]).
    rewrite alt_err by (unfold using_clause; apply kw_bind_err; apply (ci_sp_other sp Hsp); auto; [kw_in|in_cases HK; vm_compute; discriminate]).
    apply alt_ok. rewrite <- E. apply aggs_rt; auto.
    + eapply cf_agg_follow; eauto.
    + eapply cf_nocomma; eauto.
  - (* PER *) destruct u; [discriminate|]. exists (ws rest). split; [|apply ws_idem].
    rewrite alt_err by (unfold for_clause; other_kw). rewrite alt_err by (unfold since_clause; other_kw).
    rewrite alt_err by (unfold return_clause; other_kw). rewrite alt_err by (unfold linked_clause; other_kw).
    rewrite alt_err by (unfold where_clause; other_kw). rewrite alt_err by (unfold using_time_clause; other_kw).
    rewrite alt_err by (unfold using_clause; other_kw).
    rewrite alt_err by (apply agg_clause_err; [kw_in|vm_compute; discriminate ..|reflexivity]).
    apply alt_ok. apply time_rt; [apply fld_stop_nonalpha; auto|].
    apply (cf_ci_none _ _ K_USING Hf); [kw_in|]. cbn. intros [E|[E|[E|[E|[]]]]]; vm_compute in E; discriminate.
  - (* BY *) destruct u; [apply andb_prop in Hw as [_ Hw]; discriminate|]. exists rest. split; auto.
    apply andb_prop in Hw as [Hw _]. apply andb_prop in Hw as [Hne Hl].
    rewrite alt_err by (unfold for_clause; other_kw). rewrite alt_err by (unfold since_clause; other_kw).
    rewrite alt_err by (unfold return_clause; other_kw). rewrite alt_err by (unfold linked_clause; other_kw).
    rewrite alt_err by (unfold where_clause; other_kw). rewrite alt_err by (unfold using_time_clause; other_kw).
    rewrite alt_err by (unfold using_clause; other_kw).
    rewrite alt_err by (apply agg_clause_err; [kw_in|vm_compute; discriminate ..|reflexivity]).
    rewrite alt_err by (unfold time_clause; other_kw).
    apply alt_ok. apply group_rt; auto.
    + destruct l; [discriminate|congruence].
    + eapply cf_nocomma; eauto.
    + eapply cf_ci_none_raw; eauto.
  - (* LIMIT *) exists rest. split; auto.
    rewrite alt_err by (unfold for_clause; other_kw). rewrite alt_err by (unfold since_clause; other_kw).
    rewrite alt_err by (unfold return_clause; other_kw). rewrite alt_err by (unfold linked_clause; other_kw).
    rewrite alt_err by (unfold where_clause; other_kw). rewrite alt_err by (unfold using_time_clause; other_kw).
    rewrite alt_err by (unfold using_clause; other_kw).
    rewrite alt_err by (apply agg_clause_err; [kw_in|vm_compute; discriminate ..|reflexivity]).
    rewrite alt_err by (unfold time_clause; other_kw). rewrite alt_err by (unfold group_clause; other_kw).
    apply alt_ok. unfold limit_clause. apply u32_clause_rt; [kw_in|lia|apply fld_stop_nondigit; auto].
  - (* OFFSET *) exists rest. split; auto.
    rewrite alt_err by (unfold for_clause; other_kw). rewrite alt_err by (unfold since_clause; other_kw).
    rewrite alt_err by (unfold return_clause; other_kw). rewrite alt_err by (unfold linked_clause; other_kw).
    rewrite alt_err by (unfold where_clause; other_kw). rewrite alt_err by (unfold using_time_clause; other_kw).
    rewrite alt_err by (unfold using_clause; other_kw).
    rewrite alt_err by (apply agg_clause_err; [kw_in|vm_compute; discriminate ..|reflexivity]).
    rewrite alt_err by (unfold time_clause; other_kw). rewrite alt_err by (unfold group_clause; other_kw).
    rewrite alt_err by (unfold limit_clause; other_kw).
    apply alt_ok. unfold offset_clause. apply u32_clause_rt; [kw_in|lia|apply fld_stop_nondigit; auto].
  - (* ORDER BY *) exists rest. split; auto.
    rewrite alt_err by (unfold for_clause; other_kw). rewrite alt_err by (unfold since_clause; other_kw).
    rewrite alt_err by (unfold return_clause; other_kw). rewrite alt_err by (unfold linked_clause; other_kw).
    rewrite alt_err by (unfold where_clause; other_kw). rewrite alt_err by (unfold using_time_clause; other_kw).
    rewrite alt_err by (unfold using_clause; other_kw).
    rewrite alt_err by (apply agg_clause_err; [kw_in|vm_compute; discriminate ..|reflexivity]).
    rewrite alt_err by (unfold time_clause; other_kw). rewrite alt_err by (unfold group_clause; other_kw).
    rewrite alt_err by (unfold limit_clause; other_kw). rewrite alt_err by (unfold offset_clause; other_kw).
    apply order_rt; auto. apply fld_stop_nonalpha; auto.
Qed.


(** * The clause list of a well-formed query is ordered and well-formed *)

Fixpoint above (n : nat) (cs : list clause) : Prop :=
  match cs with
  | [] => True
  | c :: r => (n <= rank c)%nat /\ above (S (rank c)) r
  end.

Lemma above_weaken : forall cs n m, (n <= m)%nat -> above m cs -> above n cs.
Proof. intros [|c r] n m H Ha; cbn in *; auto. destruct Ha. split; auto. lia. Qed.

Lemma above_optl : forall A (o : option A) (f : A -> clause) n k r,
  (forall a, rank (f a) = k) -> (n <= k)%nat -> above (S k) r -> above n (optl o f ++ r).
Proof.
  intros A [a|] f n k r Hk Hn Hr; cbn [optl app].
  - cbn [above]. rewrite Hk. auto.
  - eapply above_weaken; [|exact Hr]. lia.
Qed.

Lemma clauses_sorted : forall q, above 0 (clauses_of q).
Proof.
  intro q. unfold clauses_of.
  apply (above_optl _ _ _ 0 0)%nat; [reflexivity|lia|]. apply (above_optl _ _ _ 1 1)%nat; [reflexivity|lia|].
  apply (above_optl _ _ _ 2 2)%nat; [reflexivity|lia|]. apply (above_optl _ _ _ 3 3)%nat; [reflexivity|lia|].
  apply (above_optl _ _ _ 4 4)%nat; [reflexivity|lia|]. apply (above_optl _ _ _ 5 5)%nat; [reflexivity|lia|].
  apply (above_optl _ _ _ 6 6)%nat; [reflexivity|lia|]. apply (above_optl _ _ _ 7 7)%nat; [reflexivity|lia|].
  apply (above_optl _ _ _ 8 8)%nat; [reflexivity|lia|]. apply (above_optl _ _ _ 9 9)%nat; [reflexivity|lia|].
  apply (above_optl _ _ _ 10 10)%nat; [reflexivity|lia|]. apply (above_optl _ _ _ 11 11)%nat; [reflexivity|lia|].
  rewrite <- (app_nil_r (optl (q_offset q) ClOffset)). apply (above_optl _ _ _ 12 12)%nat; [reflexivity|lia|exact I].
Qed.

Definition all_wf (cs : list clause) : Prop := Forall (fun c => wf_clause c = true) cs.

Lemma forall_optl : forall A (o : option A) (f : A -> clause) (p : A -> bool) r,
  wf_opt p o = true -> (forall a, p a = true -> wf_clause (f a) = true) ->
  all_wf r -> all_wf (optl o f ++ r).
Proof. intros A [a|] f p r Ho Hf Hr; cbn [optl app]; auto. constructor; auto. Qed.

Lemma clauses_wf : forall q, wf_query q = true -> all_wf (clauses_of q).
Proof.
  intros q H. unfold wf_query in H.
  apply andb_prop in H as [H W13]. apply andb_prop in H as [H W12]. apply andb_prop in H as [H W11].
  apply andb_prop in H as [H W10]. apply andb_prop in H as [H W9]. apply andb_prop in H as [H W8].
  apply andb_prop in H as [H W7]. apply andb_prop in H as [H W6]. apply andb_prop in H as [H W5].
  apply andb_prop in H as [H W4]. apply andb_prop in H as [H W3]. apply andb_prop in H as [H W2].
  apply andb_prop in H as [W0 W1].
  unfold clauses_of.
  apply (forall_optl _ _ _ _ _ W2); [auto|]. apply (forall_optl _ _ _ _ _ W3); [auto|].
  apply (forall_optl _ _ _ _ _ W4); [auto|]. apply (forall_optl _ _ _ _ _ W5); [auto|].
  apply (forall_optl _ _ _ _ _ W6); [auto|]. apply (forall_optl _ _ _ _ _ W7); [auto|].
  apply (forall_optl _ _ _ _ _ W8); [auto|]. apply (forall_optl _ _ _ _ _ W9); [auto|].
  apply (forall_optl _ _ _ (fun _ => true)); [destruct (q_bucket q); reflexivity|reflexivity|].
  apply (forall_optl _ _ _ _ _ W10); [intros a Ha; cbn [wf_clause]; rewrite Ha; reflexivity|].
  apply (forall_optl _ _ _ _ _ W11); [auto|]. apply (forall_optl _ _ _ _ _ W12); [auto|].
  rewrite <- (app_nil_r (optl (q_offset q) ClOffset)). apply (forall_optl _ _ _ _ _ W13); [auto|constructor].
Qed.

(** ** what follows a clause in the printed list *)

(** a printed clause starts with its first keyword, followed by a non-letter *)
Lemma clause_shape : forall c tail, wf_clause c = true -> head_is is_alpha tail = false ->
  exists r, print_clause c ++ tail = sp (first_kw c) ++ r /\ head_is is_alpha r = false /\
            (first_kw c = K_ORDER -> exists r', r = 32 :: sp K_BY ++ r' /\ head_is is_alpha r' = false).
Proof.
  intros c tail Hw Ht.
  destruct c as [s|s|l|f|e|f|f|l|g u|l u|n|n|f d]; cbn [print_clause first_kw wf_clause] in *; norm_app;
    try (eexists; split; [reflexivity|split; [reflexivity|intro E; vm_compute in E; discriminate]]).
  - (* aggregates *)
    apply andb_prop in Hw as [Hne Hl]. destruct l as [|a l']; [discriminate|].
    unfold print_aggs, sep_print. norm_app.
    assert (Hr0 : head_is is_alpha (flat_map (fun y => 44 :: 32 :: print_agg sp y) l' ++ tail) = false).
    { destruct l'; [exact Ht|reflexivity]. }
    destruct a as [[f|]|f|f|f|f|f]; cbn [print_agg agg_kw]; norm_app;
      (eexists; split; [reflexivity|split; [try reflexivity; exact Hr0|intro E; vm_compute in E; discriminate]]).
  - (* ORDER BY *)
    eexists. split; [reflexivity|]. split; [reflexivity|]. intros _. eexists. split; reflexivity.
Qed.

Lemma rank_allowed : forall c c', (rank c < rank c')%nat -> wf_clause c' = true -> In (first_kw c') (allowed c).
Proof.
  intros c c' Hr Hw.
  destruct c'; cbn [first_kw rank] in *;
    try (destruct c; cbn [rank allowed next_all] in *; try lia; cbn; tauto).
  (* c' = aggregates *)
  cbn [wf_clause] in Hw. apply andb_prop in Hw as [Hne _]. destruct l as [|a l']; [discriminate|].
  destruct c; cbn [rank allowed next_all] in *; try lia;
    destruct a as [[x|]|x|x|x|x|x]; cbn; tauto.
Qed.

Definition ctail (cs : list clause) : bytes := flat_map ctext cs ++ [].

Lemma ctail_cons : forall c cs, ctail (c :: cs) = 32 :: print_clause c ++ ctail cs.
Proof. intros. unfold ctail. cbn [flat_map ctext]. norm_app. reflexivity. Qed.

Lemma ctail_head : forall cs, head_is is_alpha (ctail cs) = false.
Proof. intros [|c r]; reflexivity. Qed.

Lemma chain_follow : forall c cs, above (S (rank c)) cs -> all_wf cs -> cfollow c (ctail cs).
Proof.
  intros c [|c' cs'] Ha Hw; [left; reflexivity|right].
  cbn [above] in Ha. destruct Ha as [Hr _]. inversion Hw as [|x y Hc' Hw']; subst.
  rewrite ctail_cons.
  destruct (clause_shape c' (ctail cs') Hc' (ctail_head cs')) as (r & E & Hr1 & Ho).
  rewrite E. exists (first_kw c'), r. repeat split; auto. apply rank_allowed; auto.
Qed.

Lemma ctail_len : forall cs, (length cs <= length (ctail cs))%nat.
Proof.
  induction cs as [|c cs IH]; [cbn; lia|]. rewrite ctail_cons. cbn [length]. rewrite app_length. lia.
Qed.

Lemma first_kw_in : forall c, In (first_kw c) keywords.
Proof.
  intros c. destruct c as [s|s|l|f|e|f|f|l|g u|l u|n0|n0|f d]; cbn [first_kw]; try kw_in.
  destruct l as [|[[f|]|f|f|f|f|f] l']; cbn; tauto.
Qed.

Lemma print_clause_len : forall c, wf_clause c = true -> (1 <= length (print_clause c))%nat.
Proof.
  intros c Hc. destruct (clause_shape c [] Hc eq_refl) as (r & E & _ & _). rewrite app_nil_r in E. rewrite E, app_length.
  destruct (K_alpha (first_kw c) (first_kw_in c)) as [_ Hne]. pose proof (speller_nonempty sp _ Hsp Hne) as Hn.
  destruct (sp (first_kw c)); [congruence|]. cbn [length]. lia.
Qed.

Lemma ws_ctail_len : forall cs, all_wf cs -> (length cs <= length (ws (ctail cs)))%nat.
Proof.
  intros [|c cs] Hw; [cbn; lia|]. inversion Hw as [|a b Hc Hcs]; subst. rewrite ctail_cons, ws_space.
  destruct (clause_shape c (ctail cs) Hc (ctail_head cs)) as (r & E & _ & _).
  rewrite E, (ws_nows _ (alpha_not_ws _ (sp_head_alpha sp Hsp _ r (first_kw_in c)))), <- E.
  rewrite app_length. pose proof (ctail_len cs). pose proof (print_clause_len c Hc). cbn [length]. lia.
Qed.

(** * The whole query *)

Definition cstep : P clause := let* _ := skip in clause_p fx.

Lemma cstep_ws : forall r r', ws r = ws r' -> cstep r = cstep r'.
Proof. intros r r' H. unfold cstep. rewrite !skip_bind, H. reflexivity. Qed.

Definition GoodC (cs : list clause) : Prop := exists n, above n cs /\ all_wf cs.

Lemma clauses_parse : forall cs fuel r0, GoodC cs -> (length cs < fuel)%nat -> ws r0 = ws (ctail cs) ->
  exists r', many fuel cstep r0 = Ok (cs, r') /\ ws r' = [].
Proof.
  intros cs fuel r0 HG Hf Hr0.
  destruct (many_seq_ws _ cstep ctext [] GoodC cstep_ws) with (xs := cs) (fuel := fuel) (r0 := r0) as (r' & E & Hr'); auto.
  - intros x xs (n & Ha & Hw). cbn [above] in Ha. destruct Ha as [Hn Ha]. inversion Hw as [|a b Hx Hxs]; subst.
    split; [exists (S (rank x)); auto|].
    pose proof (chain_follow x xs Ha Hxs) as Hfol. unfold ctail in Hfol.
    destruct (clause_rt x (flat_map ctext xs ++ []) Hx Hfol) as (r' & E & Hr').
    exists r'. split; auto. unfold cstep. rewrite skip_bind. unfold ctext at 1. cbn [app]. rewrite ws_space.
    assert (Hh : head_is is_tws (print_clause x ++ flat_map ctext xs ++ []) = false).
    { destruct (clause_shape x (flat_map ctext xs ++ []) Hx (ctail_head xs)) as (r & Es & _ & _). rewrite Es.
      apply alpha_not_ws, (sp_head_alpha sp Hsp).
      destruct x as [s|s|l|f|e|f|f|l|g u|l u|n0|n0|f d]; cbn [first_kw]; try kw_in.
      destruct l as [|[[f|]|f|f|f|f|f] l']; cbn; tauto. }
    rewrite (ws_nows _ Hh). exact E.
  - eexists. split; [exact E|]. rewrite Hr'. reflexivity.
Qed.

(** event sequence links *)
Definition lstep : P (seqlink * bytes) :=
  let* _ := skip in let* l := seq_link in let* _ := skip in let* t := identp in ret (l, t).

Lemma lstep_ws : forall r r', ws r = ws r' -> lstep r = lstep r'.
Proof. intros r r' H. unfold lstep. rewrite !skip_bind, H. reflexivity. Qed.

Lemma ident_nows : forall i rest, wf_ident i = true -> head_is is_tws (i ++ rest) = false.
Proof.
  intros i rest Hi. apply wf_ident_syntax in Hi. destruct i as [|c i']; [discriminate|]. cbn in Hi.
  apply andb_prop in Hi as [Hc _]. unfold head_is. cbn [app]. unfold is_ident_start, is_alpha in Hc. unfold is_tws. lia.
Qed.

Lemma link_rt : forall l rest, wf_ident (snd l) = true -> head_ok rest = true ->
  lstep (print_link sp l ++ rest) = Ok (l, rest).
Proof.
  intros [d e] rest He Hr. cbn [snd] in He. unfold lstep, print_link. cbn [fst snd]. norm_app.
  rewrite skip_bind. cbv beta. rewrite ws_space.
  assert (Hd : In (match d with FollowedBy => K_FOLLOWED | PrecededBy => K_PRECEDED end) keywords) by (destruct d; kw_in).
  rewrite (ws_nows _ (alpha_not_ws _ (sp_head_alpha sp Hsp _ _ Hd))).
  assert (Hi : identp (e ++ rest) = Ok (e, rest)).
  { unfold identp, lift. rewrite ident_print; auto using wf_ident_syntax. apply fld_stop_nonident, head_ok_fld_stop; auto. }
  unfold bind at 1. unfold seq_link. destruct d.
  - rewrite (alt_ok _ _ _ _ (FollowedBy, 32 :: e ++ rest)).
    + rewrite skip_bind. cbv beta. rewrite ws_space, (ws_nows _ (ident_nows e rest He)). unfold bind. rewrite Hi. reflexivity.
    + kwok. rewrite skip_bind. cbv beta.
      rewrite ws_space, (ws_nows _ (alpha_not_ws _ (sp_head_alpha sp Hsp K_BY _ ltac:(kw_in)))). kwok. reflexivity.
  - rewrite alt_err by other_kw.
    assert (E : (let* _ := kw K_PRECEDED in let* _ := skip in let* _ := kw K_BY in ret PrecededBy)
                  (sp K_PRECEDED ++ 32 :: sp K_BY ++ 32 :: e ++ rest) = Ok (PrecededBy, 32 :: e ++ rest)).
    { kwok. rewrite skip_bind. cbv beta.
      rewrite ws_space, (ws_nows _ (alpha_not_ws _ (sp_head_alpha sp Hsp K_BY _ ltac:(kw_in)))). kwok. reflexivity. }
    rewrite E. rewrite skip_bind. cbv beta. rewrite ws_space, (ws_nows _ (ident_nows e rest He)). unfold bind. rewrite Hi. reflexivity.
Qed.

Lemma lstep_end : forall cs, all_wf cs -> lstep (ctail cs) = Err.
Proof.
  intros [|c cs'] Hw; [reflexivity|]. inversion Hw as [|a b Hc Hcs]; subst.
  rewrite ctail_cons. unfold lstep. rewrite skip_bind. cbv beta. rewrite ws_space.
  destruct (clause_shape c (ctail cs') Hc (ctail_head cs')) as (r & E & Hr & _). rewrite E.
  assert (HK : In (first_kw c) keywords /\ first_kw c <> K_FOLLOWED /\ first_kw c <> K_PRECEDED).
  { destruct c as [s|s|l|f|e|f|f|l|g u|l u|n0|n0|f d]; cbn [first_kw];
      try (split; [kw_in|split; vm_compute; discriminate]).
    destruct l as [|[[f|]|f|f|f|f|f] l']; cbn [agg_kw]; (split; [kw_in|split; vm_compute; discriminate]). }
  destruct HK as (HK & H1 & H2).
  rewrite (ws_nows _ (alpha_not_ws _ (sp_head_alpha sp Hsp _ r HK))).
  unfold bind at 1. unfold seq_link.
  rewrite alt_err by (apply kw_bind_err; apply (ci_sp_other sp Hsp); auto; kw_in).
  rewrite kw_bind_err by (apply (ci_sp_other sp Hsp); auto; kw_in). reflexivity.
Qed.

Lemma links_parse : forall ls cs fuel, forallb (fun l => wf_ident (snd l)) ls = true -> all_wf cs ->
  (length ls < fuel)%nat ->
  many fuel lstep (flat_map (print_link sp) ls ++ ctail cs) = Ok (ls, ctail cs).
Proof.
  induction ls as [|l ls IH]; intros cs fuel Hl Hw Hf; (destruct fuel as [|fuel]; [cbn in Hf; lia|]); cbn [many flat_map app].
  - rewrite (lstep_end cs Hw). reflexivity.
  - cbn [forallb] in Hl. apply andb_prop in Hl as [Hl1 Hl2]. norm_app.
    rewrite (link_rt l); auto.
    + rewrite IH; auto. cbn [length] in Hf. lia.
    + destruct ls as [|[d e] ls']; [destruct cs; reflexivity|reflexivity].
Qed.

Lemma links_len : forall ls, (length ls <= length (flat_map (print_link sp) ls))%nat.
Proof.
  induction ls as [|l ls IH]; [cbn; lia|]. cbn [flat_map]. rewrite app_length. unfold print_link at 1. cbn [length]. lia.
Qed.

Lemma concat_map_flat_map : forall A (f : A -> bytes) l, concat (map f l) = flat_map f l.
Proof. intros. rewrite flat_map_concat_map. reflexivity. Qed.

Theorem parse_print_query : forall q, wf_query q = true -> parse_query fx (print_query sp q) = Ok q.
Proof.
  intros q Hq. pose proof (clauses_wf q Hq) as Hcw. pose proof (clauses_sorted q) as Hcs.
  assert (Hev : wf_ident (q_event q) = true /\ forallb (fun l => wf_ident (snd l)) (q_seq q) = true).
  { unfold wf_query in Hq. do 12 (apply andb_prop in Hq as [Hq _]). apply andb_prop in Hq. exact Hq. }
  destruct Hev as [Hev Hls].
  rewrite print_query_eq, concat_map_flat_map.
  replace (flat_map ctext (clauses_of q)) with (ctail (clauses_of q)) by (unfold ctail; apply app_nil_r).
  unfold parse_query, query_rule.
  rewrite skip_bind. cbv beta. rewrite (ws_nows _ (alpha_not_ws _ (sp_head_alpha sp Hsp K_QUERY _ ltac:(kw_in)))).
  unfold bind at 1. rewrite (alt_ok _ _ _ _ (tt, 32 :: q_event q ++ flat_map (print_link sp) (q_seq q) ++ ctail (clauses_of q))).
  2:{ unfold kw. rewrite (ci_sp sp Hsp K_QUERY (32 :: _) ltac:(kw_in) eq_refl). reflexivity. }
  rewrite skip_bind. cbv beta. rewrite ws_space, (ws_nows _ (ident_nows _ _ Hev)).
  unfold bind at 1. unfold event_sequence. unfold bind at 1.
  assert (Hrest : head_ok (flat_map (print_link sp) (q_seq q) ++ ctail (clauses_of q)) = true).
  { destruct (q_seq q) as [|[d e] ls']; [destruct (clauses_of q); reflexivity|reflexivity]. }
  unfold identp at 1, lift.
  rewrite ident_print; [|apply wf_ident_syntax; auto|apply fld_stop_nonident, head_ok_fld_stop; auto].
  unfold bind at 1. fold lstep.
  rewrite links_parse; auto.
  2:{ rewrite app_length. pose proof (links_len (q_seq q)). lia. }
  unfold ret at 1. rewrite skip_bind. cbv beta.
  unfold bind at 1. fold cstep.
  destruct (clauses_parse (clauses_of q) (S (length (ws (ctail (clauses_of q))))) (ws (ctail (clauses_of q))))
    as (r' & E & Hr').
  - exists 0%nat. auto.
  - pose proof (ws_ctail_len (clauses_of q) Hcw). lia.
  - apply ws_idem.
  - rewrite E. rewrite skip_bind. cbv beta. rewrite Hr'. unfold bind, eof, ret. cbn [fst snd].
    rewrite fold_clauses. reflexivity.
Qed.

End QRT.
