(** Proofs about Model/Bucket.v: the civil-calendar functions of Base/Civil.v are
    inverse to each other and consistent with month / year lengths (one 400-year era is
    swept by [vm_compute], the rest follows by periodicity), hence every calendar
    bucket contains its instant and starts on the calendar boundary. *)
From Coq Require Import ZArith NArith Bool Lia.
From Coq Require Import ZifyBool ZifyNat ZifyN.
From Snel Require Import Base.Civil Model.Bucket.
Open Scope Z_scope.

(** * Periodicity *)
Definition shift_year (k : Z) (t : Z * Z * Z) : Z * Z * Z :=
  let '(y, m, d) := t in (y + k, m, d).

Lemma cfd_shift : forall w e,
  civil_from_days (w + 146097 * e) = shift_year (400 * e) (civil_from_days w).
Proof.
  intros w e. unfold civil_from_days. cbv zeta.
  replace (w + 146097 * e + 719468) with (w + 719468 + e * 146097) by lia.
  rewrite Z.div_add by lia.
  set (zz := w + 719468). set (era := zz / 146097).
  replace (zz + e * 146097 - (era + e) * 146097) with (zz - era * 146097) by lia.
  set (doe := zz - era * 146097).
  set (yoe := (doe - doe / 1460 + doe / 36524 - doe / 146096) / 365).
  set (doy := doe - (365 * yoe + yoe / 4 - yoe / 100)).
  set (mp := (5 * doy + 2) / 153).
  unfold shift_year.
  destruct (mp <? 10); [destruct (mp + 3 <=? 2)|destruct (mp - 9 <=? 2)]; f_equal; f_equal; lia.
Qed.

Lemma dfc_shift : forall y m d e,
  days_from_civil (y + 400 * e) m d = days_from_civil y m d + 146097 * e.
Proof.
  intros y m d e. unfold days_from_civil. cbv zeta.
  set (y' := if m <=? 2 then y - 1 else y).
  replace (if m <=? 2 then y + 400 * e - 1 else y + 400 * e) with (y' + e * 400)
    by (subst y'; destruct (m <=? 2); lia).
  rewrite Z.div_add by lia.
  replace (y' + e * 400 - (y' / 400 + e) * 400) with (y' - y' / 400 * 400) by lia.
  lia.
Qed.

Lemma is_leap_shift : forall y e, is_leap (y + 400 * e) = is_leap y.
Proof.
  intros y e. unfold is_leap.
  replace ((y + 400 * e) mod 4) with (y mod 4)
    by (replace (y + 400 * e) with (y + (100 * e) * 4) by lia; now rewrite Z.mod_add by lia).
  replace ((y + 400 * e) mod 100) with (y mod 100)
    by (replace (y + 400 * e) with (y + (4 * e) * 100) by lia; now rewrite Z.mod_add by lia).
  replace ((y + 400 * e) mod 400) with (y mod 400)
    by (replace (y + 400 * e) with (y + e * 400) by lia; now rewrite Z.mod_add by lia).
  reflexivity.
Qed.

Lemma dim_shift : forall y m e, days_in_month (y + 400 * e) m = days_in_month y m.
Proof. intros. unfold days_in_month. now rewrite is_leap_shift. Qed.

(** * What is checked for every day number *)
Definition next_month_first (y m : Z) : Z :=
  if m =? 12 then days_from_civil (y + 1) 1 1 else days_from_civil y (m + 1) 1.

Definition triple_eqb (a b : Z * Z * Z) : bool :=
  let '(y1, m1, d1) := a in let '(y2, m2, d2) := b in (y1 =? y2) && (m1 =? m2) && (d1 =? d2).

Lemma triple_eqb_eq : forall a b, triple_eqb a b = true <-> a = b.
Proof.
  intros [[y1 m1] d1] [[y2 m2] d2]. cbn. rewrite !andb_true_iff, !Z.eqb_eq. split.
  - intros [[-> ->] ->]. reflexivity.
  - intros [= -> -> ->]. auto.
Qed.

Definition civil_ok (z : Z) : Prop :=
  let '(y, m, d) := civil_from_days z in
  1 <= m <= 12 /\ 1 <= d <= days_in_month y m
  /\ days_from_civil y m d = z
  /\ civil_from_days (days_from_civil y m 1) = (y, m, 1)
  /\ civil_from_days (days_from_civil y 1 1) = (y, 1, 1)
  /\ days_from_civil y m 1 <= z < next_month_first y m
  /\ days_from_civil y 1 1 <= z < days_from_civil (y + 1) 1 1.

Definition civil_check (z : Z) : bool :=
  let '(y, m, d) := civil_from_days z in
  (1 <=? m) && (m <=? 12) && (1 <=? d) && (d <=? days_in_month y m)
  && (days_from_civil y m d =? z)
  && triple_eqb (civil_from_days (days_from_civil y m 1)) (y, m, 1)
  && triple_eqb (civil_from_days (days_from_civil y 1 1)) (y, 1, 1)
  && (days_from_civil y m 1 <=? z) && (z <? next_month_first y m)
  && (days_from_civil y 1 1 <=? z) && (z <? days_from_civil (y + 1) 1 1).

Lemma civil_check_ok : forall z, civil_check z = true -> civil_ok z.
Proof.
  intros z. unfold civil_check, civil_ok. destruct (civil_from_days z) as [[y m] d].
  rewrite !andb_true_iff, !triple_eqb_eq, !Z.leb_le, !Z.ltb_lt, Z.eqb_eq. intuition lia.
Qed.

(** ** One era by computation *)
Fixpoint all_n (f : Z -> bool) (z : Z) (n : nat) : bool :=
  match n with
  | O => true
  | S k => f z && all_n f (z + 1) k
  end.

Lemma all_n_spec : forall f n z, all_n f z n = true ->
  forall i, 0 <= i < Z.of_nat n -> f (z + i) = true.
Proof.
  intros f n. induction n as [|n IH]; intros z H i Hi; [lia|].
  cbn [all_n] in H. apply andb_true_iff in H. destruct H as [H0 H1].
  destruct (Z.eq_dec i 0) as [->|Ni]; [now rewrite Z.add_0_r|].
  replace (z + i) with (z + 1 + (i - 1)) by lia. apply IH; [exact H1|lia].
Qed.

(** 400 blocks of 366 consecutive days starting at day -719468 (0000-03-01) cover an era *)
Definition era_block (b : Z) : bool := all_n civil_check (-719468 + b * 366) 366.

Lemma era_sweep_true : all_n era_block 0 400 = true.
Proof. vm_cast_no_check (eq_refl true). Qed.

Lemma civil_ok_era : forall z, -719468 <= z < -719468 + 146097 -> civil_ok z.
Proof.
  intros z Hz. apply civil_check_ok.
  set (o := z + 719468). set (b := o / 366). set (j := o mod 366).
  assert (Ho : o = 366 * b + j) by (subst b j; apply Z.div_mod; lia).
  assert (Hj : 0 <= j < 366) by (subst j; apply Z.mod_pos_bound; lia).
  assert (Hb : 0 <= b < 400) by (subst b o; split; [apply Z.div_pos; lia|apply Z.div_lt_upper_bound; lia]).
  pose proof (all_n_spec era_block 400 0 era_sweep_true b ltac:(lia)) as H1. unfold era_block in H1.
  pose proof (all_n_spec civil_check 366 _ H1 j ltac:(lia)) as H2.
  replace (-719468 + (0 + b) * 366 + j) with z in H2 by lia. exact H2.
Qed.

(** ** Every day number *)
Theorem civil_ok_all : forall z, civil_ok z.
Proof.
  intros z.
  set (e := (z + 719468) / 146097). set (z0 := z - 146097 * e).
  assert (Hz0 : -719468 <= z0 < -719468 + 146097).
  { subst z0 e. pose proof (Z.div_mod (z + 719468) 146097 ltac:(lia)).
    pose proof (Z.mod_pos_bound (z + 719468) 146097 ltac:(lia)). lia. }
  pose proof (civil_ok_era z0 Hz0) as H0.
  replace z with (z0 + 146097 * e) by (subst z0; lia).
  unfold civil_ok in *. rewrite cfd_shift. destruct (civil_from_days z0) as [[y m] d].
  unfold shift_year. destruct H0 as (Hm & Hd & Hr & H3 & H4 & H5 & H6).
  rewrite dim_shift, !dfc_shift.
  repeat split; try lia.
  - rewrite cfd_shift, H3. reflexivity.
  - rewrite cfd_shift, H4. reflexivity.
  - unfold next_month_first in *. destruct (m =? 12).
    + replace (y + 400 * e + 1) with (y + 1 + 400 * e) by lia. rewrite dfc_shift. lia.
    + rewrite dfc_shift. lia.
  - replace (y + 400 * e + 1) with (y + 1 + 400 * e) by lia. rewrite dfc_shift. lia.
Qed.

(** * Bucket alignment *)

(** the bucket contains the instant *)
Theorem bucket_contains : forall ws secs g, 0 <= ws <= 6 ->
  calendar_bucket_secs ws secs g <= secs < calendar_next_secs ws secs g.
Proof.
  intros ws secs g Hws.
  pose proof (Z.div_mod secs 86400 ltac:(lia)) as Hdm.
  pose proof (Z.mod_pos_bound secs 86400 ltac:(lia)) as Hm.
  set (day := secs / 86400) in *. set (sod := secs mod 86400) in *.
  unfold calendar_next_secs. destruct g; unfold calendar_bucket_secs; fold day; fold sod.
  - pose proof (Z.div_mod sod 3600 ltac:(lia)). pose proof (Z.mod_pos_bound sod 3600 ltac:(lia)). lia.
  - lia.
  - pose proof (Z.mod_pos_bound (weekday_from_days day + (7 - ws)) 7 ltac:(lia)). lia.
  - pose proof (civil_ok_all day) as H. unfold civil_ok in H.
    destruct (civil_from_days day) as [[y m] d]. destruct H as (_ & _ & _ & _ & _ & H5 & _).
    unfold next_month_first in H5. lia.
  - pose proof (civil_ok_all day) as H. unfold civil_ok in H.
    destruct (civil_from_days day) as [[y m] d]. destruct H as (_ & _ & _ & _ & _ & _ & H6). lia.
Qed.

(** the bucket starts on the calendar boundary *)
Definition on_boundary (ws : Z) (g : gran) (b : Z) : Prop :=
  match g with
  | GHour => b mod 3600 = 0
  | GDay => b mod 86400 = 0
  | GWeek => b mod 86400 = 0 /\ weekday_from_days (b / 86400) = ws
  | GMonth => b mod 86400 = 0 /\ exists y m, 1 <= m <= 12 /\ civil_from_days (b / 86400) = (y, m, 1)
  | GYear => b mod 86400 = 0 /\ exists y, civil_from_days (b / 86400) = (y, 1, 1)
  end.

Theorem bucket_on_boundary : forall ws secs g, 0 <= ws <= 6 ->
  on_boundary ws g (calendar_bucket_secs ws secs g).
Proof.
  intros ws secs g Hws. set (day := secs / 86400). set (sod := secs mod 86400).
  destruct g; unfold calendar_bucket_secs, on_boundary; fold day; fold sod.
  - replace (day * 86400 + sod / 3600 * 3600) with ((day * 24 + sod / 3600) * 3600) by lia.
    apply Z.mod_mul. lia.
  - apply Z.mod_mul. lia.
  - split; [apply Z.mod_mul; lia|]. rewrite Z.div_mul by lia. unfold weekday_from_days.
    pose proof (Z.mod_pos_bound (day + 3) 7 ltac:(lia)) as B1.
    pose proof (Z.div_mod (day + 3) 7 ltac:(lia)) as E1.
    set (w := (day + 3) mod 7) in *. set (q1 := (day + 3) / 7) in *.
    pose proof (Z.mod_pos_bound (w + (7 - ws)) 7 ltac:(lia)) as B2.
    pose proof (Z.div_mod (w + (7 - ws)) 7 ltac:(lia)) as E2.
    set (back := (w + (7 - ws)) mod 7) in *. set (q2 := (w + (7 - ws)) / 7) in *.
    replace (day - back + 3) with (ws + (q1 + q2 - 1) * 7) by lia.
    rewrite Z.mod_add by lia. apply Z.mod_small. lia.
  - pose proof (civil_ok_all day) as H. unfold civil_ok in H.
    destruct (civil_from_days day) as [[y m] d]. destruct H as (Hm & _ & _ & H3 & _).
    split; [apply Z.mod_mul; lia|]. rewrite Z.div_mul by lia. exists y, m. split; assumption.
  - pose proof (civil_ok_all day) as H. unfold civil_ok in H.
    destruct (civil_from_days day) as [[y m] d]. destruct H as (_ & _ & _ & _ & H4 & _).
    split; [apply Z.mod_mul; lia|]. rewrite Z.div_mul by lia. exists y. assumption.
Qed.

(** the u64 wrapper used by the sink is the signed computation whenever the instant is a
    valid, non-negative second count and the bucket start is not before the epoch *)
Lemma chrono_min_day_neg : chrono_min_day < 0.
Proof. vm_compute. reflexivity. Qed.

Theorem calendar_bucket_of_exact : forall ws ts g, 0 <= ws <= 6 ->
  0 <= ts < two63 -> in_chrono_range ts = true -> 0 <= calendar_bucket_secs ws ts g ->
  calendar_bucket_of_opt ws ts g = Some (calendar_bucket_secs ws ts g).
Proof.
  intros ws ts g Hws Hts Hr Hb. unfold calendar_bucket_of_opt, u64_to_i64.
  replace (ts <? two63) with true by lia. rewrite Hr.
  assert (Hw : i64_to_u64 (calendar_bucket_secs ws ts g) = calendar_bucket_secs ws ts g).
  { unfold i64_to_u64. apply Z.mod_small. split; [exact Hb|].
    pose proof (bucket_contains ws ts g Hws) as C. unfold two63, two64 in *. lia. }
  rewrite Hw. destruct g; try reflexivity.
  pose proof chrono_min_day_neg.
  assert (0 <= calendar_bucket_secs ws ts GWeek / 86400) by (apply Z.div_pos; lia).
  replace (calendar_bucket_secs ws ts GWeek / 86400 <? chrono_min_day) with false by lia. reflexivity.
Qed.

Example bucket_examples :
  calendar_bucket_of_opt 0 1708012800 GMonth = Some 1706745600
  /\ calendar_bucket_of_opt 0 1704240000 GWeek = Some 1704067200
  /\ calendar_bucket_of_opt 6 0 GWeek = Some 18446744073709206016.
Proof. vm_compute. auto. Qed.
