(** C17 — statements about [parse_command] and the dispatch table. *)
From Coq Require Import NArith ZArith Arith List Bool Lia.
From Snel Require Import Base.Bytes Model.Tokenizer Model.Parser Model.Command Gen.Params.
Import ListNotations.
Open Scope N_scope.

(** * Dispatch: [Batch] is the only variant without an arm (table regenerated from dispatcher.rs) *)

Lemma dispatch_batch_unhandled : dispatch_handled KBatch = false.
Proof. vm_compute. reflexivity. Qed.

Lemma dispatch_others_handled : forall k, k <> KBatch -> dispatch_handled k = true.
Proof. intros [] H; try reflexivity. congruence. Qed.

Definition is_batch (c : command) : bool := match c with CBatch _ => true | _ => false end.

Lemma kind_of_batch_iff : forall c, kind_of c = KBatch <-> is_batch c = true.
Proof. intros []; cbn; split; intro H; try discriminate; auto. Qed.

(** every command the modelled parsers return, other than a batch, has a dispatch arm *)
Lemma parsed_commands_dispatched : forall fx s c, parse_command fx s = POk c -> is_batch c = false ->
  dispatch_handled (kind_of c) = true.
Proof.
  intros fx s c _ Hb. apply dispatch_others_handled. intro E. apply kind_of_batch_iff in E. congruence.
Qed.

Lemma dispatch_refuted : exists k, In k all_kinds /\ dispatch_handled k = false.
Proof. exists KBatch. split; [cbn; tauto|apply dispatch_batch_unhandled]. Qed.

(** BATCH [ PING ] parses (to a batch) and has no dispatch arm *)
Lemma dispatch_refuted_parsed :
  parse_command_cur [66;65;84;67;72;32;91;32;80;73;78;71;32;93] = POk (CBatch [CPing]) /\
  dispatch_handled (kind_of (CBatch [CPing])) = false.
Proof. split; vm_compute; reflexivity. Qed.

(** * Former panic witnesses (LIMIT 4294967296, OFFSET -1, x = 99999999999999999999, x = 1e309 written
    out): since 57cd0c4 the conversions are fallible grammar actions and these are plain parse errors *)

Definition txt_limit : bytes :=   (* QUERY e LIMIT 4294967296 *)
  [81;85;69;82;89;32;101;32;76;73;77;73;84;32;52;50;57;52;57;54;55;50;57;54].
Definition txt_offset : bytes :=  (* QUERY e OFFSET -1 *)
  [81;85;69;82;89;32;101;32;79;70;70;83;69;84;32;45;49].
Definition txt_int : bytes :=     (* QUERY e WHERE x = 99999999999999999999 *)
  [81;85;69;82;89;32;101;32;87;72;69;82;69;32;120;32;61;32;57;57;57;57;57;57;57;57;57;57;57;57;57;57;57;57;57;57;57;57].
Definition txt_float : bytes :=   (* QUERY e WHERE x = 1[0 x 309].0 *)
  [81;85;69;82;89;32;101;32;87;72;69;82;69;32;120;32;61;32;49] ++ repeat 48 309 ++ [46;48].

Lemma former_witnesses_rejected :
  parse_command_cur txt_limit = PErr /\ parse_command_cur txt_offset = PErr /\
  parse_command_cur txt_int = PErr /\ parse_command_cur txt_float = PErr.
Proof. repeat split; vm_compute; reflexivity. Qed.

(** the in-range neighbours are accepted: LIMIT 4294967295, x = -9223372036854775808 *)
Lemma limits_accepted :
  (exists q, parse_command_cur [81;85;69;82;89;32;101;32;76;73;77;73;84;32;52;50;57;52;57;54;55;50;57;53] = POk (CQuery q)
             /\ q_limit q = Some 4294967295) /\
  (exists q, parse_command_cur [81;85;69;82;89;32;101;32;87;72;69;82;69;32;120;32;61;32;45;57;50;50;51;51;55;50;48;51;54;56;53;52;55;55;53;56;48;56]
             = POk (CQuery q) /\ q_where q = Some (ECmp [120] OpEq (VInt (-9223372036854775808)))).
Proof. split; eexists; split; vm_compute; reflexivity. Qed.

(** * STORE: a terminated string literal is skipped by the brace scan (fced25a) *)
Lemma json_str_end_clean : forall s r,
  forallb (fun c => negb (c =? 34) && negb (c =? 92)) s = true -> json_str_end (s ++ 34 :: r) = Some r.
Proof.
  induction s as [|c s IH]; intros r H; cbn [app json_str_end].
  - reflexivity.
  - cbn [forallb] in H. apply andb_prop in H as [Hc H]. apply andb_prop in Hc as [H1 H2].
    apply negb_true_iff in H1, H2. rewrite H1, H2. auto.
Qed.

(** STORE e FOR c PAYLOAD {"a":"}"} : the brace inside the string is data *)
Example store_brace_in_string :
  parse_command_cur [83;84;79;82;69;32;101;32;70;79;82;32;99;32;80;65;89;76;79;65;68;32;123;34;97;34;58;34;125;34;125]
  = POk (CStore [101] [99] [123;34;97;34;58;34;125;34;125]).
Proof. vm_compute. reflexivity. Qed.

(** A one-member object whose key and value are string literals without quote or backslash is
    matched as a block whatever braces the strings contain (before fced25a a '{' or '}' inside
    the value changed where the block ended, or whether it matched at all). *)
Definition clean_json_str (s : bytes) : bool := forallb (fun c => negb (c =? 34) && negb (c =? 92)) s.
Definition member_block (k v : bytes) : bytes := 123 :: 34 :: k ++ 34 :: 58 :: 34 :: v ++ [34; 125].

Lemma brace_end_string : forall f s r d, clean_json_str s = true ->
  brace_end (S f) (34 :: s ++ 34 :: r) d = brace_end f r d.
Proof.
  intros f s r d Hs. cbn [brace_end]. change (34 =? 123) with false. change (34 =? 125) with false.
  change (34 =? 34) with true. replace store_skips_strings with true by reflexivity. cbn [andb].
  rewrite (json_str_end_clean s r Hs). reflexivity.
Qed.

Lemma brace_end_colon : forall f r d, brace_end (S f) (58 :: r) d = brace_end f r d.
Proof. intros. cbn [brace_end]. change (58 =? 123) with false. change (58 =? 125) with false. change (58 =? 34) with false. rewrite andb_false_r. reflexivity. Qed.

Lemma brace_end_close : forall f r, brace_end (S f) (125 :: r) 0 = Some r.
Proof. intros. reflexivity. Qed.

Lemma store_block_with_string : forall k v rest, clean_json_str k = true -> clean_json_str v = true ->
  balanced_braces (member_block k v ++ rest) = Some (member_block k v, rest).
Proof.
  intros k v rest Hk Hv. unfold balanced_braces, member_block. cbn [app]. rewrite N.eqb_refl.
  set (r := 34 :: (k ++ 34 :: 58 :: 34 :: v ++ [34; 125]) ++ rest).
  assert (Hlen : (4 <= length r)%nat).
  { unfold r. cbn [length]. rewrite !app_length. cbn [length]. rewrite app_length. cbn [length]. lia. }
  assert (E : brace_end (length r) r 0 = Some rest).
  { destruct (length r) as [|[|[|[|f]]]] eqn:L; try lia. unfold r.
    rewrite <- !app_assoc. cbn [app]. rewrite (brace_end_string _ k _ _ Hk), brace_end_colon.
    rewrite <- !app_assoc. cbn [app]. rewrite (brace_end_string _ v _ _ Hv). apply brace_end_close. }
  rewrite E. f_equal. f_equal.
  change (123 :: r) with ((123 :: 34 :: k ++ 34 :: 58 :: 34 :: v ++ [34; 125]) ++ rest).
  rewrite app_length, Nat.add_sub.
  rewrite firstn_app, Nat.sub_diag, firstn_all. cbn [firstn]. apply app_nil_r.
Qed.

Example store_block_example :
  clean_json_str [125; 123; 123] = true /\ member_block [97] [125; 123; 123] = [123;34;97;34;58;34;125;123;123;34;125].
Proof. split; reflexivity. Qed.
