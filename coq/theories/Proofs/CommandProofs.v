(** C17 — statements about [parse_command] and the dispatch table. *)
From Coq Require Import NArith ZArith List Bool Lia.
From Snel Require Import Base.Bytes Model.Tokenizer Model.Parser Model.Command Gen.Params.
Import ListNotations.
Open Scope N_scope.

(** * Dispatch: [Batch] is the only variant without an arm (table regenerated from dispatcher.rs) *)

Lemma dispatch_batch_unhandled : dispatch_handled KBatch = false.
Proof. vm_compute. reflexivity. Qed.

Lemma dispatch_others_handled : forall k, k <> KBatch -> dispatch_handled k = true.
Proof. intros [] H; try reflexivity. congruence. Qed.

Lemma kind_of_not_batch : forall c, kind_of c <> KBatch.
Proof. intros []; discriminate. Qed.

(** every command the modelled parsers return has a dispatch arm *)
Lemma parsed_commands_dispatched : forall fx s c, parse_command fx s = POk c -> dispatch_handled (kind_of c) = true.
Proof. intros. apply dispatch_others_handled, kind_of_not_batch. Qed.

Lemma dispatch_refuted : exists k, In k all_kinds /\ dispatch_handled k = false.
Proof. exists KBatch. split; [cbn; tauto|apply dispatch_batch_unhandled]. Qed.

(** * The four numeric conversions panic (witnesses replayed on the implementation) *)

Definition txt_limit : bytes :=   (* QUERY e LIMIT 4294967296 *)
  [81;85;69;82;89;32;101;32;76;73;77;73;84;32;52;50;57;52;57;54;55;50;57;54].
Definition txt_offset : bytes :=  (* QUERY e OFFSET -1 *)
  [81;85;69;82;89;32;101;32;79;70;70;83;69;84;32;45;49].
Definition txt_int : bytes :=     (* QUERY e WHERE x = 99999999999999999999 *)
  [81;85;69;82;89;32;101;32;87;72;69;82;69;32;120;32;61;32;57;57;57;57;57;57;57;57;57;57;57;57;57;57;57;57;57;57;57;57].
(** QUERY e WHERE x = 1[0 x 309].0 *)
Definition txt_float : bytes :=
  [81;85;69;82;89;32;101;32;87;72;69;82;69;32;120;32;61;32;49] ++ repeat 48 309 ++ [46;48].

Lemma panic_refuted :
  parse_command false txt_limit = PPanic SiteLimit /\
  parse_command false txt_offset = PPanic SiteOffset /\
  parse_command false txt_int = PPanic SiteInt /\
  parse_command false txt_float = PPanic SiteFloat.
Proof. repeat split; vm_compute; reflexivity. Qed.

(** the same inputs are plain errors for the repaired grammar *)
Lemma panic_witnesses_fixed :
  parse_command true txt_limit = PErr /\ parse_command true txt_offset = PErr /\
  parse_command true txt_int = PErr /\ parse_command true txt_float = PErr.
Proof. repeat split; vm_compute; reflexivity. Qed.

(** known classes of the conversions: exactly when each one fails *)
Definition LimitOutOfU32 (neg : bool) (d : bytes) : Prop := neg = true \/ 4294967296 <= digits_val d 0.
Definition OffsetOutOfU32 (neg : bool) (d : bytes) : Prop := neg = true \/ 4294967296 <= digits_val d 0.
Definition IntLiteralOutOfI64 (neg : bool) (d : bytes) : Prop :=
  let v := Z.of_N (digits_val d 0) in
  ((if neg then - v else v) < - 9223372036854775808 \/ 9223372036854775807 < (if neg then - v else v))%Z.
Definition FloatLiteralOverflow (d fd : bytes) : Prop := float_overflows d fd = true.

Lemma conv_u32_panics_iff : forall site neg d,
  conv_u32 false site neg d = Panic site <-> (neg = true \/ 4294967296 <= digits_val d 0).
Proof.
  intros site neg d. unfold conv_u32, numfail. destruct neg.
  - split; auto.
  - destruct (digits_val d 0 <? 4294967296) eqn:E; split; intro H.
    + discriminate.
    + destruct H; [discriminate|]. apply N.ltb_lt in E. lia.
    + right. apply N.ltb_ge in E. auto.
    + auto.
Qed.

Lemma conv_i64_panics_iff : forall neg d, conv_i64 false neg d = Panic SiteInt <-> IntLiteralOutOfI64 neg d.
Proof.
  intros neg d. unfold conv_i64, numfail, IntLiteralOutOfI64.
  set (z := if neg then (- Z.of_N (digits_val d 0))%Z else Z.of_N (digits_val d 0)).
  destruct ((-9223372036854775808 <=? z)%Z && (z <=? 9223372036854775807)%Z) eqn:E; split; intro H.
  - discriminate.
  - apply andb_prop in E as [E1 E2]. apply Z.leb_le in E1, E2. lia.
  - apply andb_false_iff in E as [E|E]; apply Z.leb_gt in E; lia.
  - auto.
Qed.
