(** Facts about Base/OrdF64.v: integers of magnitude at most 2^53 convert to
    doubles exactly, hence strictly monotonically. *)
From Coq Require Import ZArith NArith Bool Lia.
From Coq Require Import ZifyBool ZifyNat ZifyN.
From Snel Require Import Base.OrdF64.
Open Scope Z_scope.

Definition two53 : Z := 9007199254740992.

Lemma rde_1 : forall a, round_div_even a 1 = a.
Proof.
  intros a. unfold round_div_even. rewrite Z.div_1_r, Z.mod_1_r. reflexivity.
Qed.

Lemma rde_exact : forall k b, 0 < b -> round_div_even (k * b) b = k.
Proof.
  intros k b Hb. unfold round_div_even. rewrite Z.div_mul by lia. rewrite Z.mod_mul by lia.
  cbn [Z.mul]. destruct (Z.compare_spec 0 b); lia.
Qed.

(** closed form of the magnitude bits of an integer in [1, 2^53] *)
Lemma f64_mag_int : forall z, 1 <= z <= two53 ->
  exists q, f64_mag z 1 = Z.to_N ((Z.log2 z + 1022) * two52 + q)
            /\ two52 <= q < 2 * two52 /\ q * 2 ^ (Z.log2 z) = z * two52.
Proof.
  intros z Hz. unfold two53 in Hz.
  pose proof (Z.log2_spec z ltac:(lia)) as [Hlo Hhi].
  pose proof (Z.log2_nonneg z) as He0.
  assert (He : Z.log2 z <= 53).
  { destruct (Z_le_gt_dec (Z.log2 z) 53) as [H|H]; [exact H|exfalso].
    assert (2 ^ 54 <= 2 ^ Z.log2 z) by (apply Z.pow_le_mono_r; lia).
    change (2 ^ 54) with 18014398509481984 in H0. lia. }
  set (e := Z.log2 z) in *.
  assert (Hmag : forall q, two52 <= q < 2 * two52 ->
    (if 0 <=? e - 52 then round_div_even z (1 * 2 ^ (e - 52)) else round_div_even (z * 2 ^ (52 - e)) 1) = q ->
    f64_mag z 1 = Z.to_N ((e + 1022) * two52 + q)).
  { intros q Hq Hr. unfold f64_mag. change (Z.log2 1) with 0. rewrite Z.sub_0_r. fold e.
    replace (0 <=? e) with true by lia.
    replace (1 * 2 ^ e <=? z) with true by lia.
    replace (e <? -1022) with false by lia.
    rewrite Hr.
    assert (Hb : (f64_inf_bits <=? Z.to_N ((e + 1022) * two52 + q))%N = false).
    { unfold f64_inf_bits, two52 in *. apply N.leb_gt. lia. }
    rewrite Hb. reflexivity. }
  destruct (Z_lt_le_dec e 52) as [Hlt|Hge].
  - (* e <= 51 : multiply, exact *)
    exists (z * 2 ^ (52 - e)).
    assert (Hp : 2 ^ (52 - e) * 2 ^ e = two52).
    { rewrite <- Z.pow_add_r by lia. replace (52 - e + e) with 52 by lia. reflexivity. }
    assert (Hpos : 0 < 2 ^ (52 - e)) by (apply Z.pow_pos_nonneg; lia).
    assert (Hb : two52 <= z * 2 ^ (52 - e) < 2 * two52).
    { assert (H1 : 2 ^ e * 2 ^ (52 - e) <= z * 2 ^ (52 - e)) by (apply Z.mul_le_mono_nonneg_r; lia).
      assert (H2 : z * 2 ^ (52 - e) < 2 ^ Z.succ e * 2 ^ (52 - e)) by (apply Z.mul_lt_mono_pos_r; lia).
      rewrite Z.pow_succ_r in H2 by lia. lia. }
    split; [|split; [exact Hb|]].
    + apply Hmag; [exact Hb|]. replace (0 <=? e - 52) with false by lia. apply rde_1.
    + rewrite <- Z.mul_assoc, Hp. reflexivity.
  - destruct (Z.eq_dec e 52) as [E52|N52].
    + exists z. rewrite E52 in *. change (2 ^ 52) with two52 in *. change (2 ^ Z.succ 52) with (2 * two52) in Hhi.
      split; [|split; [lia|reflexivity]].
      apply Hmag; [lia|]. change (0 <=? 52 - 52) with true. change (1 * 2 ^ (52 - 52)) with 1.
      cbv iota. apply rde_1.
    + assert (E53 : e = 53) by lia. rewrite E53 in *.
      assert (z = two53) by (unfold two53; change (2 ^ 53) with 9007199254740992 in Hlo; lia).
      subst z. exists two52. split; [|split; [unfold two52; lia|reflexivity]].
      apply Hmag; [unfold two52; lia|]. reflexivity.
Qed.

(** the order key of [z as f64] *)
Definition int_key (z : Z) : Z := f64_key (f64_of_Z z).

(** magnitude key of a positive integer *)
Lemma int_key_pos : forall z, 1 <= z <= two53 ->
  exists q, int_key z = (Z.log2 z + 1022) * two52 + q /\ two52 <= q < 2 * two52
            /\ q * 2 ^ (Z.log2 z) = z * two52 /\ f64_is_nan (f64_of_Z z) = false.
Proof.
  intros z Hz. destruct (f64_mag_int z Hz) as (q & Hm & Hq & Hqe). exists q.
  pose proof (Z.log2_nonneg z) as He0.
  assert (Hlt : (Z.to_N ((Z.log2 z + 1022) * two52 + q) < f64_inf_bits)%N).
  { assert (He : Z.log2 z <= 53).
    { destruct (Z_le_gt_dec (Z.log2 z) 53) as [H|H]; [exact H|exfalso].
      pose proof (Z.log2_spec z ltac:(lia)) as [Hlo _].
      assert (2 ^ 54 <= 2 ^ Z.log2 z) by (apply Z.pow_le_mono_r; lia).
      change (2 ^ 54) with 18014398509481984 in H0. unfold two53 in Hz. lia. }
    unfold f64_inf_bits, two52 in *. lia. }
  assert (Hbits : f64_of_Z z = Z.to_N ((Z.log2 z + 1022) * two52 + q)).
  { unfold f64_of_Z, f64_of_ratio. replace (z <? 0) with false by lia.
    replace (Z.abs z) with z by lia. replace (z =? 0) with false by lia. exact Hm. }
  unfold int_key. rewrite Hbits. unfold f64_key, f64_is_nan, f64_sign_bit, f64_inf_bits in *.
  set (b := Z.to_N ((Z.log2 z + 1022) * two52 + q)) in *.
  assert (Hmod : (b mod 9223372036854775808 = b)%N) by (apply N.mod_small; lia).
  rewrite Hmod. replace (b <? 9223372036854775808)%N with true by lia.
  split; [subst b; unfold two52 in *; lia|]. split; [exact Hq|]. split; [exact Hqe|]. lia.
Qed.

Lemma int_key_0 : int_key 0 = 0 /\ f64_is_nan (f64_of_Z 0) = false.
Proof. split; reflexivity. Qed.

Lemma int_key_neg : forall z, 1 <= z <= two53 -> int_key (- z) = - int_key z
  /\ f64_is_nan (f64_of_Z (- z)) = false.
Proof.
  intros z Hz. destruct (f64_mag_int z Hz) as (q & Hm & Hq & Hqe).
  pose proof (Z.log2_nonneg z) as He0.
  assert (He : Z.log2 z <= 53).
  { destruct (Z_le_gt_dec (Z.log2 z) 53) as [H|H]; [exact H|exfalso].
    pose proof (Z.log2_spec z ltac:(lia)) as [Hlo _].
    assert (2 ^ 54 <= 2 ^ Z.log2 z) by (apply Z.pow_le_mono_r; lia).
    change (2 ^ 54) with 18014398509481984 in H0. unfold two53 in Hz. lia. }
  unfold int_key, f64_of_Z, f64_of_ratio.
  replace (- z <? 0) with true by lia. replace (z <? 0) with false by lia.
  replace (Z.abs (- z)) with z by lia. replace (Z.abs z) with z by lia.
  replace (z =? 0) with false by lia. rewrite Hm.
  set (b := Z.to_N ((Z.log2 z + 1022) * two52 + q)) in *.
  assert (Hb : (b < 9218868437227405312)%N) by (subst b; unfold two52 in *; lia).
  unfold f64_key, f64_is_nan, f64_sign_bit, f64_inf_bits.
  assert (H1 : ((9223372036854775808 + b) mod 9223372036854775808 = b)%N).
  { rewrite N.add_mod by lia. rewrite N.mod_same by lia. rewrite N.add_0_l.
    rewrite N.mod_mod by lia. apply N.mod_small. lia. }
  assert (H2 : (b mod 9223372036854775808 = b)%N) by (apply N.mod_small; lia).
  rewrite H1, H2.
  replace (9223372036854775808 + b <? 9223372036854775808)%N with false by lia.
  replace (b <? 9223372036854775808)%N with true by lia.
  split; [reflexivity|lia].
Qed.

(** strict monotonicity on [1, 2^53] *)
Lemma int_key_mono_pos : forall x y, 1 <= x -> x < y -> y <= two53 -> 0 < int_key x < int_key y.
Proof.
  intros x y Hx Hxy Hy.
  destruct (int_key_pos x ltac:(lia)) as (qx & Kx & Qx & Ex & _).
  destruct (int_key_pos y ltac:(lia)) as (qy & Ky & Qy & Ey & _).
  pose proof (Z.log2_nonneg x). pose proof (Z.log2_le_mono x y ltac:(lia)) as Hle.
  rewrite Kx, Ky. unfold two52 in *. split; [lia|].
  destruct (Z.eq_dec (Z.log2 x) (Z.log2 y)) as [E|N].
  - rewrite E in *. assert (0 < 2 ^ Z.log2 y) by (apply Z.pow_pos_nonneg; lia).
    assert (qx * 2 ^ Z.log2 y < qy * 2 ^ Z.log2 y) by lia.
    assert (qx < qy) by (eapply Z.mul_lt_mono_pos_r; eassumption). lia.
  - lia.
Qed.

Theorem int_key_compare : forall x y, - two53 <= x <= two53 -> - two53 <= y <= two53 ->
  Z.compare (int_key x) (int_key y) = Z.compare x y.
Proof.
  assert (Hpos : forall z, 1 <= z <= two53 -> 0 < int_key z).
  { intros z Hz. destruct (int_key_pos z Hz) as (q & K & Q & _). rewrite K.
    pose proof (Z.log2_nonneg z). unfold two52 in *. lia. }
  assert (Hlt : forall x y, - two53 <= x -> x < y -> y <= two53 -> int_key x < int_key y).
  { intros x y Hx Hxy Hy.
    destruct (Z_lt_le_dec x 0) as [Nx|Px], (Z_lt_le_dec y 0) as [Ny|Py].
    - (* both negative *)
      destruct (int_key_neg (- x) ltac:(lia)) as [Kx _]. destruct (int_key_neg (- y) ltac:(lia)) as [Ky _].
      rewrite Z.opp_involutive in Kx, Ky. rewrite Kx, Ky.
      pose proof (int_key_mono_pos (- y) (- x) ltac:(lia) ltac:(lia) ltac:(lia)). lia.
    - destruct (int_key_neg (- x) ltac:(lia)) as [Kx _]. rewrite Z.opp_involutive in Kx. rewrite Kx.
      pose proof (Hpos (- x) ltac:(lia)).
      destruct (Z.eq_dec y 0) as [->|Ny0]; [destruct int_key_0 as [-> _]; lia|].
      pose proof (Hpos y ltac:(lia)). lia.
    - lia.
    - destruct (Z.eq_dec x 0) as [->|Nx0].
      + destruct int_key_0 as [-> _]. apply Hpos. lia.
      + apply (int_key_mono_pos x y); lia. }
  intros x y Hx Hy. destruct (Z.compare_spec x y) as [->|H|H].
  - apply Z.compare_refl.
  - apply Z.compare_lt_iff. apply Hlt; lia.
  - apply Z.compare_gt_iff. apply Hlt; lia.
Qed.

Lemma int_not_nan : forall z, - two53 <= z <= two53 -> f64_is_nan (f64_of_Z z) = false.
Proof.
  intros z Hz. destruct (Z_lt_le_dec z 0) as [N|P].
  - destruct (int_key_neg (- z) ltac:(lia)) as [_ H]. now rewrite Z.opp_involutive in H.
  - destruct (Z.eq_dec z 0) as [->|Nz]; [reflexivity|].
    destruct (int_key_pos z ltac:(lia)) as (q & _ & _ & _ & H). exact H.
Qed.
