(** The JSON endpoint's conversion of and / or operand lists (Model/JsonCommand.v [join]) keeps every
    operand, once and in order, whatever the length of the list. *)
From Coq Require Import NArith ZArith List Bool Lia.
From Snel Require Import Base.Bytes Model.Tokenizer Model.Parser Model.Command Model.JsonCommand.
Import ListNotations.
Open Scope N_scope.

(** the comparison / IN leaves of an expression, left to right *)
Fixpoint leaves (e : expr) : list expr :=
  match e with
  | ECmp _ _ _ | EIn _ _ => [e]
  | EAnd x y | EOr x y => leaves x ++ leaves y
  | ENot x => leaves x
  end.

(** the operands of a left-nested chain of [n] applications of the connective *)
Fixpoint and_operands (n : nat) (e : expr) : list expr :=
  match n with
  | O => [e]
  | S k => match e with EAnd l r => and_operands k l ++ [r] | _ => [e] end
  end.
Fixpoint or_operands (n : nat) (e : expr) : list expr :=
  match n with
  | O => [e]
  | S k => match e with EOr l r => or_operands k l ++ [r] | _ => [e] end
  end.

Lemma fold_and_leaves : forall xs x, leaves (fold_left EAnd xs x) = leaves x ++ flat_map leaves xs.
Proof.
  induction xs as [|y xs IH]; intro x; cbn [fold_left flat_map].
  - rewrite app_nil_r. reflexivity.
  - rewrite IH. cbn [leaves]. rewrite <- app_assoc. reflexivity.
Qed.
Lemma fold_or_leaves : forall xs x, leaves (fold_left EOr xs x) = leaves x ++ flat_map leaves xs.
Proof.
  induction xs as [|y xs IH]; intro x; cbn [fold_left flat_map].
  - rewrite app_nil_r. reflexivity.
  - rewrite IH. cbn [leaves]. rewrite <- app_assoc. reflexivity.
Qed.

Lemma fold_and_operands : forall xs x, and_operands (length xs) (fold_left EAnd xs x) = x :: xs.
Proof.
  intros xs. induction xs as [|y xs IH] using rev_ind; intro x; [reflexivity|].
  rewrite fold_left_app, app_length. cbn [fold_left length]. rewrite Nat.add_1_r. cbn [and_operands].
  rewrite IH. reflexivity.
Qed.
Lemma fold_or_operands : forall xs x, or_operands (length xs) (fold_left EOr xs x) = x :: xs.
Proof.
  intros xs. induction xs as [|y xs IH] using rev_ind; intro x; [reflexivity|].
  rewrite fold_left_app, app_length. cbn [fold_left length]. rewrite Nat.add_1_r. cbn [or_operands].
  rewrite IH. reflexivity.
Qed.

(** for every operand list, of any length: the joined expression has exactly these operands, in this
    order (as the arguments of the left-nested chain), and exactly their leaves *)
Theorem join_keeps_operands : forall xs e,
  (join EAnd xs = Some e -> and_operands (length xs - 1) e = xs /\ leaves e = flat_map leaves xs) /\
  (join EOr xs = Some e -> or_operands (length xs - 1) e = xs /\ leaves e = flat_map leaves xs) /\
  (join EAnd xs = None <-> xs = []).
Proof.
  intros [|x xs] e; cbn [join length flat_map].
  - split; [discriminate|]. split; [discriminate|]. split; reflexivity.
  - replace (S (length xs) - 1)%nat with (length xs) by (cbn [Nat.sub]; symmetry; apply Nat.sub_0_r). split; [|split].
    + intro H; inversion H; subst. split; [apply fold_and_operands | apply fold_and_leaves].
    + intro H; inversion H; subst. split; [apply fold_or_operands | apply fold_or_leaves].
    + split; discriminate.
Qed.

(** the same through the conversion itself: a Logical object with only an and (or only an or) list whose
    operands convert to xs (non-empty) converts to the chain with exactly the operands xs *)
Lemma jget_single : forall k k' v, jget k [(k', v)] = if bytes_eqb k k' then Some v else None.
Proof. reflexivity. Qed.

Lemma k_field_and : bytes_eqb S_field S_and = false.
Proof. vm_compute. reflexivity. Qed.
Lemma k_op_and : bytes_eqb S_op S_and = false.
Proof. vm_compute. reflexivity. Qed.
Lemma k_value_and : bytes_eqb S_value S_and = false.
Proof. vm_compute. reflexivity. Qed.
Lemma k_in_and : bytes_eqb S_in S_and = false.
Proof. vm_compute. reflexivity. Qed.
Lemma k_and_and : bytes_eqb S_and S_and = true.
Proof. vm_compute. reflexivity. Qed.
Lemma k_or_and : bytes_eqb S_or S_and = false.
Proof. vm_compute. reflexivity. Qed.
Lemma k_not_and : bytes_eqb S_not S_and = false.
Proof. vm_compute. reflexivity. Qed.
Lemma k_field_or : bytes_eqb S_field S_or = false.
Proof. vm_compute. reflexivity. Qed.
Lemma k_op_or : bytes_eqb S_op S_or = false.
Proof. vm_compute. reflexivity. Qed.
Lemma k_value_or : bytes_eqb S_value S_or = false.
Proof. vm_compute. reflexivity. Qed.
Lemma k_in_or : bytes_eqb S_in S_or = false.
Proof. vm_compute. reflexivity. Qed.
Lemma k_and_or : bytes_eqb S_and S_or = false.
Proof. vm_compute. reflexivity. Qed.
Lemma k_or_or : bytes_eqb S_or S_or = true.
Proof. vm_compute. reflexivity. Qed.
Lemma k_not_or : bytes_eqb S_not S_or = false.
Proof. vm_compute. reflexivity. Qed.

Lemma conv_expr_S : forall f l, conv_expr (S f) (JObj l) =
  if has_dup l then JUn else match conv_leaf l with Some r => r | None => conv_logical (conv_expr f) l end.
Proof. reflexivity. Qed.

Lemma conv_logical_single : forall f k js,
  (k = S_and \/ k = S_or) ->
  conv_expr (S f) (JObj [(k, JArr js)]) =
  match jall (map (conv_expr f) js) with
  | JErr => JErr
  | JUn => JUn
  | JOk xs =>
      match join (if bytes_eqb k S_and then EAnd else EOr) xs with
      | Some e => JOk e
      | None => JOk false_compare
      end
  end.
Proof.
  intros f k js K. rewrite conv_expr_S.
  cbv beta iota delta [has_dup existsb orb conv_leaf conv_logical conv_operands conv_not logical_of].
  rewrite !jget_single.
  destruct K; subst k.
  - rewrite ?k_field_and, ?k_op_and, ?k_value_and, ?k_in_and, ?k_and_and, ?k_or_and, ?k_not_and.
    cbv iota beta.
    destruct (jall (map (conv_expr f) js)) as [xs| |]; try reflexivity.
    cbn [join]. destruct (join EAnd xs); reflexivity.
  - rewrite ?k_field_or, ?k_op_or, ?k_value_or, ?k_in_or, ?k_and_or, ?k_or_or, ?k_not_or, ?k_or_and.
    cbv iota beta.
    destruct (jall (map (conv_expr f) js)) as [xs| |]; try reflexivity.
    cbn [join]. destruct (join EOr xs); reflexivity.
Qed.

Theorem conv_logical_keeps_operands : forall f js xs,
  xs <> [] -> jall (map (conv_expr f) js) = JOk xs ->
  (exists e, conv_expr (S f) (JObj [(S_and, JArr js)]) = JOk e /\
             and_operands (length xs - 1) e = xs /\ leaves e = flat_map leaves xs) /\
  (exists e, conv_expr (S f) (JObj [(S_or, JArr js)]) = JOk e /\
             or_operands (length xs - 1) e = xs /\ leaves e = flat_map leaves xs).
Proof.
  intros f js xs NE H.
  destruct xs as [|x xs]; [congruence|].
  split.
  - exists (fold_left EAnd xs x). split.
    + rewrite conv_logical_single by (left; reflexivity). rewrite H, k_and_and. reflexivity.
    + destruct (join_keeps_operands (x :: xs) (fold_left EAnd xs x)) as [B _]. apply B. reflexivity.
  - exists (fold_left EOr xs x). split.
    + rewrite conv_logical_single by (right; reflexivity). rewrite H, k_or_and. reflexivity.
    + destruct (join_keeps_operands (x :: xs) (fold_left EOr xs x)) as [_ [B _]]. apply B. reflexivity.
Qed.

(** the whole conversion on a flat list of comparisons: {"and":[c1..cn]} (n >= 1) mentions c1..cn *)
Definition jcmp (f : bytes) (v : Z) : json := JObj [(S_field, JStr f); (S_op, JStr [101; 113]); (S_value, JInt v)].

Example conv_and_3_and_5 :
  let cs := map (fun n => jcmp [97] (Z.of_nat n)) [1; 2; 3; 4; 5]%nat in
  (exists e, conv_expr 10 (JObj [(S_and, JArr (firstn 3 cs))]) = JOk e /\ length (leaves e) = 3%nat) /\
  (exists e, conv_expr 10 (JObj [(S_and, JArr cs)]) = JOk e /\ length (leaves e) = 5%nat).
Proof. split; eexists; split; vm_compute; reflexivity. Qed.
