(** Proofs about Model/IndexSave.v: the save protocol the code has now
    ([Params.index_save_steps]) replaces the index atomically. *)
From Coq Require Import List Arith Bool.
Import ListNotations.
From Snel Require Import Gen.Params Model.IndexSave.

(** At every crash point of a save of [new] over a published index [old] - whatever an
    earlier crash left in the temporary file and whatever else lies in the directory -
    a restart loads [old] or [new]: never the directory-listing fallback. *)
Lemma index_replaced_atomically :
  forall (C : Type) (old new : C) (t a : option (cont C)),
    Forall (fun s => load s = Some old \/ load s = Some new)
           (states new (mkFs (Some (Full old)) t a) save_steps).
Proof.
  intros C old new t a.
  unfold save_steps. cbv [index_save_steps flat_map steps_of fname_of app].
  cbn [states exec1 set get f_idx f_tmp f_aux fname_eqb].
  repeat (first [apply Forall_nil | apply Forall_cons]); cbn [load f_idx]; auto.
Qed.

(** ... and a save that runs to its end installs [new]. *)
Lemma index_save_installs_new :
  forall (C : Type) (old new : C) (t a : option (cont C)),
    load (final new (mkFs (Some (Full old)) t a) save_steps) = Some new.
Proof.
  intros C old new t a.
  unfold save_steps, final. cbv [index_save_steps flat_map steps_of fname_of app].
  cbn [fold_left exec1 set get f_idx f_tmp f_aux fname_eqb]. reflexivity.
Qed.

(** The first save of a shard (no index yet): every crash state has no readable index
    or the new one, and never a partially written file under the index name. *)
Lemma index_first_save_never_partial :
  forall (C : Type) (new : C) (t a : option (cont C)),
    Forall (fun s => f_idx s = None \/ f_idx s = Some (Full new))
           (states new (mkFs None t a) save_steps).
Proof.
  intros C new t a.
  unfold save_steps. cbv [index_save_steps flat_map steps_of fname_of app].
  cbn [states exec1 set get f_idx f_tmp f_aux fname_eqb].
  repeat (first [apply Forall_nil | apply Forall_cons]); cbn [f_idx]; auto.
Qed.

(** The published index is never a partially written file, whatever the start. *)
Lemma index_never_partial :
  forall (C : Type) (new : C) (i : option C) (t a : option (cont C)),
    Forall (fun s => f_idx s <> Some Partial)
           (states new (mkFs (option_map Full i) t a) save_steps).
Proof.
  intros C new i t a.
  unfold save_steps. cbv [index_save_steps flat_map steps_of fname_of app].
  cbn [states exec1 set get f_idx f_tmp f_aux fname_eqb].
  destruct t as [[ct|]|]; destruct i as [ci|]; cbn [option_map];
    repeat (first [apply Forall_nil | apply Forall_cons]); cbn [f_idx]; congruence.
Qed.

(** Sensitivity: the statement separates the protocols.  Moving the index to a backup
    first, or writing it in place, leaves a crash state without a readable index. *)
Lemma backup_first_refuted :
  exists s, In s (states 1 (mkFs (Some (Full 0)) None None) backup_first_steps) /\ load s = None.
Proof.
  exists (mkFs None (Some (Full 1)) (Some (Full 0))). split; [cbn; tauto | reflexivity].
Qed.

Lemma in_place_refuted :
  exists s, In s (states 1 (mkFs (Some (Full 0)) None None) in_place_steps) /\ load s = None.
Proof.
  exists (mkFs (Some Partial) None None). split; [cbn; tauto | reflexivity].
Qed.

(** Non-vacuity: the protocol read from the source has a step that replaces the index
    (the last state differs from the first), and the states are the expected four. *)
Lemma index_save_example :
  map load (states 1 (mkFs (Some (Full 0)) (Some Partial) None) save_steps) = [Some 0; Some 0; Some 0; Some 1] /\
  final 1 (mkFs (Some (Full 0)) (Some Partial) None) save_steps = mkFs (Some (Full 1)) None None.
Proof. split; reflexivity. Qed.
