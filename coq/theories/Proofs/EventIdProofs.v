(** Proofs about Model/EventId.v (C18). *)
From Coq Require Import NArith List Bool Lia Sorted.
From Coq Require Import ZifyBool ZifyNat ZifyN.
From Snel Require Import Gen.Params Model.EventId.
Import ListNotations.
Open Scope N_scope.

(** * Side conditions on the regenerated parameters *)

Definition params_ok_b : bool :=
  (id_ts_bits + id_shard_bits + id_seq_bits =? 64) && (id_seq_bits <? 16)
  && (id_shard_bits <=? id_shard_cast_bits) && (id_synth_shift =? 32).

Lemma params_ok : params_ok_b = true.
Proof. vm_compute. reflexivity. Qed.

Lemma bits_sum : id_ts_bits + id_shard_bits + id_seq_bits = 64.
Proof. pose proof params_ok as H. unfold params_ok_b in H. lia. Qed.
Lemma seq_bits_lt16 : id_seq_bits < 16.
Proof. pose proof params_ok as H. unfold params_ok_b in H. lia. Qed.
Lemma shard_bits_le_cast : id_shard_bits <= id_shard_cast_bits.
Proof. pose proof params_ok as H. unfold params_ok_b in H. lia. Qed.
Lemma synth_shift_32 : id_synth_shift = 32.
Proof. pose proof params_ok as H. unfold params_ok_b in H. lia. Qed.

(** The three radices. *)
Definition TA : N := 2 ^ id_ts_bits.
Definition TB : N := 2 ^ id_shard_bits.
Definition TC : N := 2 ^ id_seq_bits.

Lemma TA_pos : 0 < TA. Proof. unfold TA. apply N.neq_0_lt_0, N.pow_nonzero. lia. Qed.
Lemma TB_pos : 0 < TB. Proof. unfold TB. apply N.neq_0_lt_0, N.pow_nonzero. lia. Qed.
Lemma TC_pos : 0 < TC. Proof. unfold TC. apply N.neq_0_lt_0, N.pow_nonzero. lia. Qed.
Lemma TABC : TA * (TB * TC) = 2 ^ 64.
Proof.
  unfold TA, TB, TC. rewrite <- !N.pow_add_r.
  replace (id_ts_bits + (id_shard_bits + id_seq_bits)) with 64 by (pose proof bits_sum; lia).
  reflexivity.
Qed.
Lemma TC_le_2_16 : TC <= 2 ^ 16.
Proof. unfold TC. apply N.pow_le_mono_r; [lia|]. pose proof seq_bits_lt16. lia. Qed.

(** * Bit operations as arithmetic *)

Lemma land_shiftl_small : forall a n b, b < 2 ^ n -> N.land (N.shiftl a n) b = 0.
Proof.
  intros a n b Hb. apply N.bits_inj_0. intro i. rewrite N.land_spec.
  destruct (N.ltb_spec i n) as [Hi|Hi].
  - rewrite N.shiftl_spec_low by exact Hi. reflexivity.
  - replace (N.testbit b i) with false; [apply andb_false_r|].
    symmetry. destruct (N.eq_dec b 0) as [->|Hnz]; [apply N.bits_0|].
    apply N.bits_above_log2. apply N.log2_lt_pow2; [lia|].
    apply N.lt_le_trans with (2 ^ n); [exact Hb|]. apply N.pow_le_mono_r; lia.
Qed.

Lemma lor_shiftl_add : forall a n b, b < 2 ^ n -> N.lor (a * 2 ^ n) b = a * 2 ^ n + b.
Proof.
  intros a n b Hb. rewrite <- N.shiftl_mul_pow2.
  pose proof (land_shiftl_small a n b Hb) as Hz.
  rewrite <- N.lxor_lor by exact Hz. symmetry. apply N.add_nocarry_lxor. exact Hz.
Qed.

Lemma ts_component_eq : forall m, ts_component m = (m - id_epoch_ms) mod TA.
Proof. intro m. unfold ts_component, ts_mask, TA. apply N.land_ones. Qed.

Lemma shard_component_eq : forall sh,
  shard_component sh = (sh mod 2 ^ id_shard_cast_bits) mod TB.
Proof. intro sh. unfold shard_component, shard_mask, u16_cast, TB. apply N.land_ones. Qed.

Lemma ts_component_lt : forall m, ts_component m < TA.
Proof. intro m. rewrite ts_component_eq. apply N.mod_lt. pose proof TA_pos. lia. Qed.
Lemma shard_component_lt : forall sh, shard_component sh < TB.
Proof. intro sh. rewrite shard_component_eq. apply N.mod_lt. pose proof TB_pos. lia. Qed.

Lemma shard_component_small : forall sh, sh < TB -> shard_component sh = sh.
Proof.
  intros sh H. rewrite shard_component_eq.
  assert (TB <= 2 ^ id_shard_cast_bits).
  { unfold TB. apply N.pow_le_mono_r; [lia|]. apply shard_bits_le_cast. }
  rewrite (N.mod_small sh (2 ^ id_shard_cast_bits)) by lia. apply N.mod_small. exact H.
Qed.

(** [pack] is positional notation in the radices [TB*TC] and [TC]. *)
Lemma pack_arith : forall m sh s, s < TC ->
  pack m sh s = ts_component m * (TB * TC) + shard_component sh * TC + s.
Proof.
  intros m sh s Hs. unfold pack, u64_wrap.
  pose proof (ts_component_lt m) as HT. pose proof (shard_component_lt sh) as HS.
  pose proof TABC as HABC. pose proof TA_pos. pose proof TB_pos. pose proof TC_pos.
  set (T := ts_component m) in *. set (S := shard_component sh) in *.
  rewrite !N.shiftl_mul_pow2.
  assert (HBC : 2 ^ (id_shard_bits + id_seq_bits) = TB * TC)
    by (unfold TB, TC; apply N.pow_add_r).
  assert (HSC : S * TC < TB * TC) by (apply N.mul_lt_mono_pos_r; lia).
  assert (HTBC : T * (TB * TC) + TB * TC <= TA * (TB * TC)).
  { replace (T * (TB * TC) + TB * TC) with ((T + 1) * (TB * TC)) by lia.
    apply N.mul_le_mono_r. lia. }
  assert (0 < TB * TC) by (apply N.mul_pos_pos; lia).
  fold TC. rewrite (N.mod_small (S * TC)) by lia.
  rewrite (N.mod_small (T * 2 ^ (id_shard_bits + id_seq_bits))) by (rewrite HBC; lia).
  rewrite (lor_shiftl_add T (id_shard_bits + id_seq_bits) (S * TC)) by (rewrite HBC; exact HSC).
  rewrite HBC.
  replace (T * (TB * TC) + S * TC) with ((T * TB + S) * 2 ^ id_seq_bits) by (fold TC; lia).
  apply lor_shiftl_add. exact Hs.
Qed.

(** * Field extraction *)

Lemma id_seq_pack : forall m sh s, s < TC -> id_seq (pack m sh s) = s.
Proof.
  intros m sh s Hs. unfold id_seq, seq_mask. rewrite N.land_ones. fold TC.
  rewrite pack_arith by exact Hs.
  symmetry. apply N.mod_unique with (q := ts_component m * TB + shard_component sh); [exact Hs|lia].
Qed.

Lemma id_shard_pack : forall m sh s, s < TC -> id_shard (pack m sh s) = shard_component sh.
Proof.
  intros m sh s Hs. unfold id_shard, shard_mask. rewrite N.land_ones, N.shiftr_div_pow2. fold TB TC.
  rewrite pack_arith by exact Hs. pose proof TC_pos. pose proof (shard_component_lt sh).
  replace ((ts_component m * (TB * TC) + shard_component sh * TC + s) / TC)
    with (ts_component m * TB + shard_component sh).
  - symmetry. apply N.mod_unique with (q := ts_component m); [assumption|lia].
  - apply N.div_unique with (r := s); [exact Hs|lia].
Qed.

Lemma id_ts_pack : forall m sh s, s < TC -> id_ts (pack m sh s) = ts_component m.
Proof.
  intros m sh s Hs. unfold id_ts. rewrite N.shiftr_div_pow2, N.pow_add_r. fold TB TC.
  rewrite pack_arith by exact Hs. pose proof TC_pos. pose proof TB_pos.
  pose proof (shard_component_lt sh) as HS.
  symmetry. apply N.div_unique with (r := shard_component sh * TC + s); [|lia].
  assert ((shard_component sh + 1) * TC <= TB * TC) by (apply N.mul_le_mono_r; lia). lia.
Qed.

(** Inside the clock window the timestamp component is the offset from the epoch. *)
Lemma ts_component_window : forall m,
  id_epoch_ms <= m < id_epoch_ms + TA -> ts_component m = m - id_epoch_ms.
Proof. intros m H. rewrite ts_component_eq. apply N.mod_small. lia. Qed.

(** [pack_injective]: on the window, with shard ids below 2^SHARD_ID_BITS and sequence
    numbers below 2^SEQUENCE_BITS, the three fields are recoverable from the id. *)
Lemma pack_injective : forall m1 sh1 s1 m2 sh2 s2,
  id_epoch_ms <= m1 < id_epoch_ms + TA -> id_epoch_ms <= m2 < id_epoch_ms + TA ->
  sh1 < TB -> sh2 < TB -> s1 < TC -> s2 < TC ->
  pack m1 sh1 s1 = pack m2 sh2 s2 -> m1 = m2 /\ sh1 = sh2 /\ s1 = s2.
Proof.
  intros m1 sh1 s1 m2 sh2 s2 Hm1 Hm2 Hsh1 Hsh2 Hs1 Hs2 E.
  pose proof (f_equal id_ts E) as Et. pose proof (f_equal id_shard E) as Esh.
  pose proof (f_equal id_seq E) as Es.
  rewrite !id_ts_pack in Et by assumption. rewrite !id_shard_pack in Esh by assumption.
  rewrite !id_seq_pack in Es by assumption.
  rewrite !ts_component_window in Et by assumption.
  rewrite !shard_component_small in Esh by assumption. lia.
Qed.

(** Order: ids compare like (millisecond, sequence) when the shard is fixed. *)
Lemma pack_lt : forall m1 s1 m2 s2 sh,
  id_epoch_ms <= m1 < id_epoch_ms + TA -> id_epoch_ms <= m2 < id_epoch_ms + TA ->
  s1 < TC -> s2 < TC ->
  (m1 < m2 \/ (m1 = m2 /\ s1 < s2)) -> pack m1 sh s1 < pack m2 sh s2.
Proof.
  intros m1 s1 m2 s2 sh Hm1 Hm2 Hs1 Hs2 Hlt.
  rewrite !pack_arith by assumption. rewrite !ts_component_window by assumption.
  pose proof (shard_component_lt sh) as HS. pose proof TC_pos. pose proof TB_pos.
  set (S := shard_component sh) in *.
  destruct Hlt as [Hlt|[-> Hlt]]; [|lia].
  assert ((S + 1) * TC <= TB * TC) by (apply N.mul_le_mono_r; lia).
  assert ((m1 - id_epoch_ms + 1) * (TB * TC) <= (m2 - id_epoch_ms) * (TB * TC))
    by (apply N.mul_le_mono_r; lia).
  lia.
Qed.

Lemma pack_zero_iff : forall m sh s, s < TC ->
  (pack m sh s = 0 <-> ts_component m = 0 /\ shard_component sh = 0 /\ s = 0).
Proof.
  intros m sh s Hs. rewrite pack_arith by exact Hs. pose proof TC_pos. pose proof TB_pos.
  assert (0 < TB * TC) by (apply N.mul_pos_pos; lia).
  split.
  - intro E. assert (ts_component m * (TB * TC) = 0 /\ shard_component sh * TC = 0 /\ s = 0) as (E1 & E2 & E3) by lia.
    apply N.eq_mul_0 in E1. apply N.eq_mul_0 in E2. lia.
  - intros (-> & -> & ->). lia.
Qed.

(** * The sequence counter *)

Lemma seq_succ_lt : forall s, seq_succ s < TC.
Proof.
  intro s. unfold seq_succ, seq_mask. rewrite N.land_ones. fold TC.
  apply N.mod_lt. pose proof TC_pos. lia.
Qed.

Lemma seq_succ_spec : forall s, s < TC ->
  (seq_succ s = 0 /\ s + 1 = TC) \/ (seq_succ s = s + 1 /\ s + 1 < TC).
Proof.
  intros s Hs. unfold seq_succ, seq_mask. rewrite N.land_ones. fold TC.
  pose proof TC_le_2_16. pose proof TC_pos.
  destruct (N.eq_dec (s + 1) TC) as [E|NE].
  - left. split; [|exact E].
    destruct (N.eq_dec TC (2 ^ 16)) as [E16|N16].
    + rewrite E, E16, N.mod_same by lia. apply N.mod_0_l. lia.
    + rewrite (N.mod_small (s + 1)) by lia. rewrite E. apply N.mod_same. lia.
  - right. rewrite (N.mod_small (s + 1) (2 ^ 16)) by lia.
    rewrite N.mod_small by lia. lia.
Qed.

(** * The generator *)

(** Lexicographic order on generator states (millisecond, then sequence). *)
Definition glt (g g' : gen) : Prop :=
  last_millis g < last_millis g' \/ (last_millis g = last_millis g' /\ sequence g < sequence g').
Definition gle (g g' : gen) : Prop := glt g g' \/ g = g'.

Lemma glt_trans : forall a b c, glt a b -> glt b c -> glt a c.
Proof. unfold glt. intros a b c H1 H2. lia. Qed.
Lemma gle_glt_trans : forall a b c, gle a b -> glt b c -> glt a c.
Proof. intros a b c [H| ->] H2; [eapply glt_trans; eassumption|exact H2]. Qed.
Lemma glt_gle_trans : forall a b c, glt a b -> gle b c -> glt a c.
Proof. intros a b c H1 [H| <-]; [eapply glt_trans; eassumption|exact H1]. Qed.

(** The id a state stands for. *)
Definition gid (shard : N) (g : gen) : N := pack (last_millis g) shard (sequence g).

(** window predicate with an adjustable lower end [lo] (>= epoch) *)
Definition win (lo r : N) : Prop := lo <= r < id_epoch_ms + TA.

Lemma in_window_win : forall r, in_window r = true <-> win id_epoch_ms r.
Proof. intro r. unfold in_window, win, TA. lia. Qed.

Lemma wait_spec : forall last rs m rs',
  wait_next_millis last rs = Some (m, rs') ->
  last < m /\ exists pre, rs = pre ++ m :: rs'.
Proof.
  intros last rs. induction rs as [|r rs IH]; intros m rs' H; cbn [wait_next_millis] in H.
  - discriminate.
  - destruct (N.leb_spec r last) as [Hle|Hgt].
    + destruct (IH _ _ H) as (Hlt & pre & ->). split; [exact Hlt|]. exists (r :: pre). reflexivity.
    + inversion H; subst. split; [exact Hgt|]. exists []. reflexivity.
Qed.

(** Everything one call of [next] does, in one statement. *)
Lemma gen_next_spec : forall g sh rs id g' rs',
  gen_next g sh rs = Some (id, g', rs') ->
  id = gid sh g' /\ sequence g' < TC /\
  exists pre, rs = pre ++ rs' /\ pre <> [] /\
  (sequence g < TC -> glt g g') /\
  (In (last_millis g') pre \/ (last_millis g' = last_millis g /\ exists r, In r pre /\ r <= last_millis g)).
Proof.
  intros g sh rs id g' rs' H. unfold gen_next in H.
  destruct rs as [|r rs1]; [discriminate|].
  set (millis := if r <? last_millis g then last_millis g else r) in H.
  assert (Hm : (r < last_millis g /\ millis = last_millis g) \/ (last_millis g <= r /\ millis = r)).
  { unfold millis. destruct (N.ltb_spec r (last_millis g)); [left|right]; lia. }
  destruct (N.eqb_spec millis (last_millis g)) as [Heq|Hne].
  - destruct (N.eqb_spec (seq_succ (sequence g)) 0) as [Hz|Hnz].
    + destruct (wait_next_millis (last_millis g) rs1) as [[m rs2]|] eqn:Hw; [|discriminate].
      inversion H; subst id g' rs'. clear H.
      destruct (wait_spec _ _ _ _ Hw) as (Hlt & pre & ->).
      unfold gid. cbn [last_millis sequence]. rewrite Hz.
      split; [reflexivity|]. split; [apply TC_pos|].
      exists (r :: pre ++ [m]). split; [cbn; rewrite <- app_assoc; reflexivity|].
      split; [discriminate|]. split.
      * intros _. left. cbn [last_millis]. exact Hlt.
      * left. cbn [last_millis]. right. apply in_or_app. right. left. reflexivity.
    + inversion H; subst id g' rs'. clear H.
      unfold gid. cbn [last_millis sequence].
      split; [reflexivity|]. split; [apply seq_succ_lt|].
      exists [r]. split; [reflexivity|]. split; [discriminate|]. split.
      * intros Hs. right. cbn [last_millis sequence]. split; [lia|].
        destruct (seq_succ_spec _ Hs) as [[Hz _]|[-> _]]; [contradiction|lia].
      * destruct Hm as [[Hr _]|[_ Hr]].
        -- right. split; [exact Heq|]. exists r. split; [left; reflexivity|lia].
        -- left. rewrite Hr. left. reflexivity.
  - inversion H; subst id g' rs'. clear H.
    unfold gid. cbn [last_millis sequence].
    split; [reflexivity|]. split; [apply TC_pos|].
    exists [r]. split; [reflexivity|]. split; [discriminate|].
    destruct Hm as [[_ Hr]|[Hle Hr]]; [contradiction|]. split.
    + intros _. left. cbn [last_millis]. lia.
    + left. rewrite Hr. left. reflexivity.
Qed.

(** Window invariant: with every reading in [lo, epoch+2^TS) and [last_millis] below the top of
    the window, the millisecond used by the call is in the window too. *)
Lemma gen_next_win : forall lo g sh rs id g' rs',
  gen_next g sh rs = Some (id, g', rs') ->
  Forall (win lo) rs -> last_millis g < id_epoch_ms + TA ->
  win lo (last_millis g') /\ Forall (win lo) rs'.
Proof.
  intros lo g sh rs id g' rs' H HW Hlast.
  destruct (gen_next_spec _ _ _ _ _ _ H) as (_ & _ & pre & -> & _ & _ & Hin).
  apply Forall_app in HW. destruct HW as [HWpre HWrs']. split; [|exact HWrs'].
  rewrite Forall_forall in HWpre.
  destruct Hin as [Hin|(Heq & r & Hr & Hle)].
  - apply HWpre. exact Hin.
  - specialize (HWpre r Hr). unfold win in *. lia.
Qed.

(** The list of states a run goes through (proof device; ids are [gid] of these). *)
Fixpoint states (k : nat) (g : gen) (shard : N) (rs : list N) : list gen :=
  match k with
  | O => []
  | S k' =>
      match gen_next g shard rs with
      | None => []
      | Some (_, g', rs') => g' :: states k' g' shard rs'
      end
  end.

Lemma issued_states : forall k g sh rs, issued k g sh rs = map (gid sh) (states k g sh rs).
Proof.
  unfold issued. induction k as [|k IH]; intros g sh rs; cbn [issue states]; [reflexivity|].
  destruct (gen_next g sh rs) as [[[id g'] rs']|] eqn:H; [|reflexivity].
  specialize (IH g' sh rs'). destruct (issue k g' sh rs') as [[ids g''] rs''].
  cbn [fst map] in *. rewrite IH.
  destruct (gen_next_spec _ _ _ _ _ _ H) as (-> & _). reflexivity.
Qed.

Lemma last_default_irrel : forall (A : Type) (l : list A) (x a b : A),
  last (x :: l) a = last (x :: l) b.
Proof.
  intros A l. induction l as [|y l IH]; intros x a b; [reflexivity|].
  change (last (x :: y :: l) a) with (last (y :: l) a).
  change (last (x :: y :: l) b) with (last (y :: l) b). apply IH.
Qed.

Lemma gen_after_states : forall k g sh rs,
  gen_after k g sh rs = last (states k g sh rs) g.
Proof.
  unfold gen_after. induction k as [|k IH]; intros g sh rs; cbn [issue states]; [reflexivity|].
  destruct (gen_next g sh rs) as [[[id g'] rs']|] eqn:H; [|reflexivity].
  specialize (IH g' sh rs'). destruct (issue k g' sh rs') as [[ids g''] rs''].
  cbn [fst snd] in *. rewrite IH.
  destruct (states k g' sh rs') as [|x l]; [reflexivity|].
  change (last (g' :: x :: l) g) with (last (x :: l) g). apply last_default_irrel.
Qed.

Lemma states_seq : forall k g sh rs, Forall (fun g' => sequence g' < TC) (states k g sh rs).
Proof.
  induction k as [|k IH]; intros g sh rs; cbn [states]; [constructor|].
  destruct (gen_next g sh rs) as [[[id g'] rs']|] eqn:H; [|constructor].
  constructor; [|apply IH]. destruct (gen_next_spec _ _ _ _ _ _ H) as (_ & Hs & _). exact Hs.
Qed.

(** Main invariant: the states of a run are strictly increasing, above the start state,
    and use window milliseconds only. *)
Lemma states_chain : forall lo k g sh rs,
  sequence g < TC -> last_millis g < id_epoch_ms + TA -> Forall (win lo) rs ->
  StronglySorted glt (states k g sh rs) /\
  Forall (fun g' => glt g g' /\ win lo (last_millis g')) (states k g sh rs).
Proof.
  intros lo. induction k as [|k IH]; intros g sh rs Hs Hl HW; cbn [states].
  - split; constructor.
  - destruct (gen_next g sh rs) as [[[id g'] rs']|] eqn:H; [|split; constructor].
    destruct (gen_next_spec _ _ _ _ _ _ H) as (_ & Hs' & pre & _ & _ & Hglt & _).
    specialize (Hglt Hs).
    destruct (gen_next_win lo _ _ _ _ _ _ H HW Hl) as (Hw' & HW').
    assert (Hl' : last_millis g' < id_epoch_ms + TA) by (unfold win in Hw'; lia).
    destruct (IH g' sh rs' Hs' Hl' HW') as (Hsorted & Hall).
    split.
    + constructor; [exact Hsorted|].
      eapply Forall_impl; [|exact Hall]. intros x [Hx _]. exact Hx.
    + constructor; [split; assumption|].
      eapply Forall_impl; [|exact Hall]. intros x [Hx Hwx]. split; [|exact Hwx].
      eapply glt_trans; eassumption.
Qed.

Lemma StronglySorted_map_in : forall (A B : Type) (R : A -> A -> Prop) (R' : B -> B -> Prop)
  (f : A -> B) (l : list A),
  (forall x y, In x l -> In y l -> R x y -> R' (f x) (f y)) ->
  StronglySorted R l -> StronglySorted R' (map f l).
Proof.
  intros A B R R' f l. induction l as [|a l IH]; intros Hf Hs; cbn [map]; [constructor|].
  inversion Hs as [|? ? Hs' Hall]; subst. constructor.
  - apply IH; [|exact Hs']. intros x y Hx Hy. apply Hf; right; assumption.
  - rewrite Forall_forall in *. intros b Hb. apply in_map_iff in Hb. destruct Hb as (x & <- & Hx).
    apply Hf; [left; reflexivity|right; exact Hx|apply Hall; exact Hx].
Qed.

Lemma gid_lt : forall sh g g',
  win id_epoch_ms (last_millis g) -> win id_epoch_ms (last_millis g') ->
  sequence g < TC -> sequence g' < TC -> glt g g' -> gid sh g < gid sh g'.
Proof.
  intros sh g g' Hw Hw' Hs Hs' Hlt. unfold gid. apply pack_lt; try assumption.
Qed.

(** [ids_strictly_increasing], general start state. *)
Lemma issued_sorted_from : forall k g sh rs,
  sequence g < TC -> last_millis g < id_epoch_ms + TA ->
  Forall (fun r => in_window r = true) rs ->
  StronglySorted N.lt (issued k g sh rs).
Proof.
  intros k g sh rs Hs Hl HW. rewrite issued_states.
  assert (HW' : Forall (win id_epoch_ms) rs)
    by (eapply Forall_impl; [|exact HW]; intros r Hr; apply in_window_win; exact Hr).
  destruct (states_chain id_epoch_ms k g sh rs Hs Hl HW') as (Hsorted & Hall).
  pose proof (states_seq k g sh rs) as Hseq.
  rewrite Forall_forall in Hall, Hseq.
  apply StronglySorted_map_in with (R := glt); [|exact Hsorted].
  intros x y Hx Hy Hxy. apply gid_lt; try (apply Hseq; assumption); try exact Hxy;
    [apply (Hall x Hx)|apply (Hall y Hy)].
Qed.

Lemma gen0_inv : sequence gen0 < TC /\ last_millis gen0 < id_epoch_ms + TA.
Proof. cbn [gen0 sequence last_millis]. pose proof TC_pos. pose proof TA_pos. lia. Qed.

(** The property within one lifetime: a fresh generator, any shard id, any number of calls,
    any clock whose readings lie in the window — repeated, backwards, bursts. *)
Lemma ids_strictly_increasing : forall k sh rs,
  Forall (fun r => in_window r = true) rs ->
  StronglySorted N.lt (issued k gen0 sh rs).
Proof. intros k sh rs HW. apply issued_sorted_from; [apply gen0_inv|apply gen0_inv|exact HW]. Qed.

Lemma StronglySorted_lt_NoDup : forall l, StronglySorted N.lt l -> NoDup l.
Proof.
  induction l as [|a l IH]; intro H; [constructor|].
  inversion H as [|? ? Hs Hall]; subst. constructor; [|apply IH; exact Hs].
  intro Hin. rewrite Forall_forall in Hall. specialize (Hall a Hin). lia.
Qed.

Lemma ids_unique_in_lifetime : forall k sh rs,
  Forall (fun r => in_window r = true) rs -> NoDup (issued k gen0 sh rs).
Proof. intros. apply StronglySorted_lt_NoDup, ids_strictly_increasing. assumption. Qed.

(** * Uniqueness across shards: the shard tag *)

(** Every issued id carries the (cast, masked) id of the issuing shard — for every clock,
    inside the window or not. *)
Lemma issued_shard_tag : forall k g sh rs,
  Forall (fun id => id_shard id = shard_component sh) (issued k g sh rs).
Proof.
  intros k g sh rs. rewrite issued_states. pose proof (states_seq k g sh rs) as Hseq.
  induction Hseq as [|x l Hx _ IH]; cbn [map]; constructor; [|exact IH].
  unfold gid. apply id_shard_pack. exact Hx.
Qed.

Lemma unique_across_shards : forall k1 k2 g1 g2 sh1 sh2 rs1 rs2 id,
  sh1 < TB -> sh2 < TB -> sh1 <> sh2 ->
  In id (issued k1 g1 sh1 rs1) -> In id (issued k2 g2 sh2 rs2) -> False.
Proof.
  intros k1 k2 g1 g2 sh1 sh2 rs1 rs2 id H1 H2 Hne Hin1 Hin2.
  pose proof (issued_shard_tag k1 g1 sh1 rs1) as T1. pose proof (issued_shard_tag k2 g2 sh2 rs2) as T2.
  rewrite Forall_forall in T1, T2. specialize (T1 id Hin1). specialize (T2 id Hin2).
  rewrite shard_component_small in T1, T2 by assumption. congruence.
Qed.

(** Shard ids that differ by a multiple of 2^SHARD_ID_BITS share a tag: with more than
    2^SHARD_ID_BITS shards ids are no longer unique across shards. *)
Lemma shard_component_alias : forall sh, shard_component (sh + TB) = shard_component sh.
Proof.
  intro sh. rewrite !shard_component_eq. pose proof TB_pos.
  set (d := id_shard_cast_bits - id_shard_bits).
  assert (E : 2 ^ id_shard_cast_bits = TB * 2 ^ d).
  { unfold TB, d. rewrite <- N.pow_add_r.
    replace (id_shard_bits + (id_shard_cast_bits - id_shard_bits)) with id_shard_cast_bits
      by (pose proof shard_bits_le_cast; lia). reflexivity. }
  assert (0 < 2 ^ d) by (apply N.neq_0_lt_0, N.pow_nonzero; lia).
  rewrite E. rewrite !N.mod_mul_r by lia.
  rewrite !(N.mul_comm TB), !N.mod_add by lia.
  rewrite !N.mod_mod by lia.
  replace (sh + TB) with (sh + 1 * TB) by lia. rewrite N.mod_add by lia. reflexivity.
Qed.

Lemma shard_tag_aliases : forall m sh s, pack m (sh + TB) s = pack m sh s.
Proof. intros m sh s. unfold pack. rewrite shard_component_alias. reflexivity. Qed.

(** * WAL recovery *)

(** [recovery_reproduces_ids]: stored non-zero ids come back unchanged and in order; the
    generator and the clock are not touched. *)
Lemma recovery_reproduces_ids : forall g sh rs stored,
  Forall (fun id => id <> 0) stored -> recover g sh rs stored = (stored, g, rs).
Proof.
  intros g sh rs stored H. induction H as [|id rest Hid _ IH]; cbn [recover]; [reflexivity|].
  destruct (N.eqb_spec id 0) as [E|_]; [contradiction|]. rewrite IH. reflexivity.
Qed.

(** Ids issued while the clock is strictly after the epoch are never zero. *)
Lemma issued_nonzero : forall k sh rs,
  Forall (fun r => in_window r = true /\ r <> id_epoch_ms) rs ->
  Forall (fun id => id <> 0) (issued k gen0 sh rs).
Proof.
  intros k sh rs HW. rewrite issued_states.
  assert (HW' : Forall (win (id_epoch_ms + 1)) rs).
  { eapply Forall_impl; [|exact HW]. intros r [Hr Hne]. apply in_window_win in Hr.
    unfold win in *. lia. }
  destruct gen0_inv as [Hs0 Hl0].
  destruct (states_chain (id_epoch_ms + 1) k gen0 sh rs Hs0 Hl0 HW') as (_ & Hall).
  pose proof (states_seq k gen0 sh rs) as Hseq.
  rewrite Forall_forall in *. intros id Hin. apply in_map_iff in Hin.
  destruct Hin as (x & <- & Hx). unfold gid. intro E.
  apply pack_zero_iff in E; [|apply Hseq; exact Hx]. destruct E as (E & _).
  destruct (Hall x Hx) as [_ Hw]. unfold win in Hw.
  rewrite ts_component_window in E by lia. lia.
Qed.

(** On shards other than (a multiple of 2^SHARD_ID_BITS) the tag alone makes ids non-zero. *)
Lemma issued_nonzero_shard : forall k g sh rs,
  shard_component sh <> 0 -> Forall (fun id => id <> 0) (issued k g sh rs).
Proof.
  intros k g sh rs Hsh. pose proof (issued_shard_tag k g sh rs) as T.
  eapply Forall_impl; [|exact T]. intros id Hid E. subst id.
  unfold id_shard in Hid. rewrite N.shiftr_0_l, N.land_0_l in Hid. congruence.
Qed.

(** * Restart *)

Lemma lifetime_fresh : forall sh k rs,
  lifetime sh [] k rs = ([], issued k gen0 sh rs, gen_after k gen0 sh rs).
Proof.
  intros. unfold lifetime, issued, gen_after. cbn [recover].
  destruct (issue k gen0 sh rs) as [[ids g] r]. reflexivity.
Qed.

Lemma restart_history_eq : forall sh k1 rs1 k2 rs2,
  Forall (fun id => id <> 0) (issued k1 gen0 sh rs1) ->
  restart_history sh k1 rs1 k2 rs2 = two_lifetimes sh k1 rs1 k2 rs2.
Proof.
  intros sh k1 rs1 k2 rs2 Hnz. unfold restart_history, two_lifetimes.
  rewrite lifetime_fresh. unfold lifetime.
  rewrite recovery_reproduces_ids by exact Hnz. unfold issued.
  destruct (issue k2 gen0 sh rs2) as [[ids g] r]. reflexivity.
Qed.

Lemma StronglySorted_app : forall (l1 l2 : list N),
  StronglySorted N.lt l1 -> StronglySorted N.lt l2 ->
  (forall x y, In x l1 -> In y l2 -> x < y) -> StronglySorted N.lt (l1 ++ l2).
Proof.
  induction l1 as [|a l1 IH]; intros l2 H1 H2 Hx; cbn [app]; [exact H2|].
  inversion H1 as [|? ? Hs Hall]; subst. constructor.
  - apply IH; [exact Hs|exact H2|]. intros x y Hi Hj. apply Hx; [right; exact Hi|exact Hj].
  - apply Forall_app. split; [exact Hall|]. rewrite Forall_forall. intros y Hy.
    apply Hx; [left; reflexivity|exact Hy].
Qed.

Lemma last_cons_In : forall (A : Type) (l : list A) (x d : A), In (last (x :: l) d) (x :: l).
Proof.
  intros A l. induction l as [|y l IH]; intros x d; [left; reflexivity|].
  change (last (x :: y :: l) d) with (last (y :: l) d). right. apply IH.
Qed.

(** every state of a run is at most the final state *)
Lemma states_le_final : forall k g sh rs,
  sequence g < TC -> last_millis g < id_epoch_ms + TA -> Forall (win id_epoch_ms) rs ->
  Forall (fun x => gle x (gen_after k g sh rs)) (states k g sh rs).
Proof.
  induction k as [|k IH]; intros g sh rs Hs Hl HW; cbn [states]; [constructor|].
  destruct (gen_next g sh rs) as [[[id g'] rs']|] eqn:H; [|constructor].
  destruct (gen_next_spec _ _ _ _ _ _ H) as (_ & Hs' & _).
  destruct (gen_next_win _ _ _ _ _ _ _ H HW Hl) as (Hw' & HW').
  assert (Hl' : last_millis g' < id_epoch_ms + TA) by (unfold win in Hw'; lia).
  assert (Ega : gen_after (S k) g sh rs = gen_after k g' sh rs').
  { unfold gen_after. cbn [issue]. rewrite H. destruct (issue k g' sh rs') as [[a b] c]. reflexivity. }
  rewrite Ega. constructor; [|apply IH; assumption].
  rewrite gen_after_states.
  destruct (states_chain id_epoch_ms k g' sh rs' Hs' Hl' HW') as (_ & Hall).
  destruct (states k g' sh rs') as [|x l] eqn:E; [right; reflexivity|].
  left. rewrite Forall_forall in Hall.
  apply (Hall (last (x :: l) g')). apply last_cons_In.
Qed.

Lemma gen_next_fresh : forall g sh r rs,
  last_millis g < r -> gen_next g sh (r :: rs) = Some (pack r sh 0, mkGen r 0, rs).
Proof.
  intros g sh r rs H. unfold gen_next.
  destruct (N.ltb_spec r (last_millis g)) as [Hlt|_]; [lia|].
  destruct (N.eqb_spec r (last_millis g)) as [E|_]; [lia|]. reflexivity.
Qed.

(** [across_restart_outside_known]: if the first clock reading after the restart exceeds the last
    millisecond the previous lifetime used, the ids the shard applied over both lifetimes
    (first lifetime, recovery from the WAL, second lifetime) strictly increase. *)
Lemma across_restart_outside_known : forall sh k1 rs1 k2 rs2,
  Forall (fun r => in_window r = true) rs1 -> Forall (fun r => in_window r = true) rs2 ->
  (shard_component sh <> 0 \/ Forall (fun r => r <> id_epoch_ms) rs1) ->
  restart_clock_not_advanced (gen_after k1 gen0 sh rs1) rs2 = false ->
  StronglySorted N.lt (restart_history sh k1 rs1 k2 rs2).
Proof.
  intros sh k1 rs1 k2 rs2 HW1 HW2 Hnz Hcls.
  assert (Hnz' : Forall (fun id => id <> 0) (issued k1 gen0 sh rs1)).
  { destruct Hnz as [Hsh|Hne]; [apply issued_nonzero_shard; exact Hsh|].
    apply issued_nonzero. rewrite Forall_forall in *. intros r Hr. split; [apply HW1|apply Hne]; exact Hr. }
  rewrite restart_history_eq by exact Hnz'. unfold two_lifetimes.
  apply StronglySorted_app; [apply ids_strictly_increasing; exact HW1|apply ids_strictly_increasing; exact HW2|].
  intros x y Hx Hy. rewrite issued_states in Hx, Hy.
  apply in_map_iff in Hx. destruct Hx as (s1 & <- & Hs1).
  apply in_map_iff in Hy. destruct Hy as (s2 & <- & Hs2).
  assert (HW1' : Forall (win id_epoch_ms) rs1)
    by (eapply Forall_impl; [|exact HW1]; intros r Hr; apply in_window_win; exact Hr).
  assert (HW2' : Forall (win id_epoch_ms) rs2)
    by (eapply Forall_impl; [|exact HW2]; intros r Hr; apply in_window_win; exact Hr).
  destruct gen0_inv as [Hq0 Hl0].
  pose proof (states_le_final k1 gen0 sh rs1 Hq0 Hl0 HW1') as Hfin.
  destruct (states_chain id_epoch_ms k1 gen0 sh rs1 Hq0 Hl0 HW1') as (_ & Hall1).
  pose proof (states_seq k1 gen0 sh rs1) as Hseq1.
  pose proof (states_seq k2 gen0 sh rs2) as Hseq2.
  destruct (states_chain id_epoch_ms k2 gen0 sh rs2 Hq0 Hl0 HW2') as (_ & Hall2).
  rewrite Forall_forall in Hfin, Hall1, Hall2, Hseq1, Hseq2.
  set (g1 := gen_after k1 gen0 sh rs1) in *.
  (* the second lifetime starts at its first reading, which is above everything used before *)
  assert (Hlow : last_millis g1 < last_millis s2).
  { destruct rs2 as [|r0 rest]; [destruct k2; cbn in Hs2; contradiction|].
    cbn [restart_clock_not_advanced] in Hcls.
    destruct k2 as [|k2]; [cbn in Hs2; contradiction|].
    cbn [states] in Hs2. rewrite gen_next_fresh in Hs2 by (cbn [gen0 last_millis]; lia).
    destruct Hs2 as [<-|Hs2]; [cbn [last_millis]; lia|].
    inversion HW2' as [|? ? Hw0 HWrest]; subst.
    assert (Hl : last_millis (mkGen r0 0) < id_epoch_ms + TA) by (cbn [last_millis]; unfold win in Hw0; lia).
    assert (Hq : sequence (mkGen r0 0) < TC) by (cbn [sequence]; apply TC_pos).
    destruct (states_chain id_epoch_ms k2 (mkGen r0 0) sh rest Hq Hl HWrest) as (_ & Hall).
    rewrite Forall_forall in Hall. destruct (Hall s2 Hs2) as [Hg _].
    unfold glt in Hg. cbn [last_millis sequence] in Hg. lia. }
  apply gid_lt; [apply (Hall1 s1 Hs1)|apply (Hall2 s2 Hs2)|apply Hseq1; exact Hs1|apply Hseq2; exact Hs2|].
  left. destruct (Hfin s1 Hs1) as [Hg| ->]; [|exact Hlow].
  unfold glt in Hg. lia.
Qed.

(** The hypotheses are satisfiable, with non-trivial runs on both sides of the restart. *)
Example across_restart_outside_known_sat :
  let e := id_epoch_ms in
  let rs1 := [e + 5; e + 5; e + 3; e + 9] in let rs2 := [e + 10; e + 2; e + 11] in
  Forall (fun r => in_window r = true) rs1 /\ Forall (fun r => in_window r = true) rs2 /\
  Forall (fun r => r <> id_epoch_ms) rs1 /\
  restart_clock_not_advanced (gen_after 4 gen0 3 rs1) rs2 = false /\
  length (restart_history 3 4 rs1 3 rs2) = 7%nat.
Proof.
  cbv zeta. repeat split; try (repeat constructor; vm_compute; congruence); vm_compute; reflexivity.
Qed.

(** [across_restart_refuted]: a fresh generator after a restart re-issues an id the previous
    lifetime already used when the clock reads the same millisecond again (duplicate), and
    issues a smaller id when the clock stepped back (order broken).  All readings lie in the
    window, shard id 0, one STORE per lifetime. *)
Lemma across_restart_refuted :
  exists sh k1 rs1 k2 rs2,
    Forall (fun r => in_window r = true) rs1 /\ Forall (fun r => in_window r = true) rs2 /\
    ~ NoDup (restart_history sh k1 rs1 k2 rs2).
Proof.
  exists 0, 1%nat, [id_epoch_ms + 5], 1%nat, [id_epoch_ms + 5].
  split; [repeat constructor|]. split; [repeat constructor|].
  vm_compute. intro H. inversion H as [|? ? Hnin _]; subst. apply Hnin. left. reflexivity.
Qed.

Lemma across_restart_order_refuted :
  exists sh k1 rs1 k2 rs2,
    Forall (fun r => in_window r = true) rs1 /\ Forall (fun r => in_window r = true) rs2 /\
    exists a b, restart_history sh k1 rs1 k2 rs2 = [a; b] /\ b < a.
Proof.
  exists 1, 1%nat, [id_epoch_ms + 5], 1%nat, [id_epoch_ms + 4].
  split; [repeat constructor|]. split; [repeat constructor|].
  eexists. eexists. split; [vm_compute; reflexivity|]. vm_compute. reflexivity.
Qed.

(** The refuting inputs are exactly in the known class. *)
Example across_restart_refuted_in_class :
  restart_clock_not_advanced (gen_after 1 gen0 0 [id_epoch_ms + 5]) [id_epoch_ms + 5] = true.
Proof. vm_compute. reflexivity. Qed.

(** * Outside the window *)

(** Before (or at) the epoch [saturating_sub] pins the timestamp component to zero, so two
    different milliseconds give the same id. *)
Lemma before_epoch_refuted :
  exists sh rs, Forall (fun r => r <= id_epoch_ms) rs /\ ~ NoDup (issued 2 gen0 sh rs).
Proof.
  exists 7, [5; 6]. split; [repeat constructor; vm_compute; congruence|].
  vm_compute. intro H. inversion H as [|? ? Hnin _]; subst. apply Hnin. left. reflexivity.
Qed.

Lemma before_epoch_collapse : forall m sh s, m <= id_epoch_ms -> pack m sh s = pack 0 sh s.
Proof.
  intros m sh s H. unfold pack, ts_component.
  replace (m - id_epoch_ms) with 0 by lia. replace (0 - id_epoch_ms) with 0 by lia. reflexivity.
Qed.

(** Beyond the window the timestamp component wraps modulo 2^TIMESTAMP_BITS. *)
Lemma beyond_window_wraps : forall m sh s, pack (m + TA) sh s = pack m sh s \/ m < id_epoch_ms.
Proof.
  intros m sh s. destruct (N.lt_ge_cases m id_epoch_ms) as [H|H]; [right; exact H|left].
  unfold pack. rewrite !ts_component_eq. pose proof TA_pos.
  replace (m + TA - id_epoch_ms) with (m - id_epoch_ms + 1 * TA) by lia.
  rewrite N.mod_add by lia. reflexivity.
Qed.

Lemma beyond_window_refuted :
  exists sh rs, Forall (fun r => id_epoch_ms <= r) rs /\
    exists a b, issued 2 gen0 sh rs = [a; b] /\ b < a.
Proof.
  exists 0, [id_epoch_ms + 2 ^ id_ts_bits - 1; id_epoch_ms + 2 ^ id_ts_bits].
  split; [repeat constructor; vm_compute; congruence|].
  eexists. eexists. split; vm_compute; reflexivity.
Qed.

(** * Bursts: non-vacuity of [ids_strictly_increasing] *)

(** More calls than sequence numbers inside one millisecond: the 4097th call waits for the clock
    (skipping a repeated and a backward reading) and continues in the next millisecond. *)
Example burst_beyond_sequence_space :
  let e := id_epoch_ms in
  let rs := repeat (e + 7) 4097 ++ [e + 7; e + 2; e + 8; e + 8] in
  Forall (fun r => in_window r = true) rs /\
  length (issued 4098 gen0 5 rs) = 4098%nat /\
  gen_after 4098 gen0 5 rs = mkGen (e + 8) 1 /\
  nth 4096 (issued 4098 gen0 5 rs) 0 = pack (e + 8) 5 0.
Proof.
  cbv zeta. split.
  - apply Forall_app. split.
    + apply Forall_forall. intros x Hx. apply repeat_spec in Hx. subst x. vm_compute. reflexivity.
    + repeat constructor.
  - vm_compute. repeat split; reflexivity.
Qed.

(** * Synthetic row ids *)

Lemma synthetic_id_arith : forall zone row, zone < 2 ^ 32 -> row < 2 ^ 32 ->
  synthetic_id zone row = zone * 2 ^ 32 + row.
Proof.
  intros zone row Hz Hr. unfold synthetic_id, u64_wrap. rewrite synth_shift_32.
  rewrite N.shiftl_mul_pow2. rewrite (N.mod_small zone) by exact Hz.
  assert (zone * 2 ^ 32 < 2 ^ 64).
  { change (2 ^ 64) with (2 ^ 32 * 2 ^ 32). apply N.mul_lt_mono_pos_r; [reflexivity|exact Hz]. }
  rewrite (N.mod_small (zone * 2 ^ 32)) by assumption.
  rewrite (N.mod_small row) by (change (2 ^ 64) with (2 ^ 32 * 2 ^ 32); nia).
  apply lor_shiftl_add. exact Hr.
Qed.

(** Within one segment the synthetic ids of different (zone, row) positions differ ... *)
Lemma synthetic_injective : forall z1 r1 z2 r2,
  z1 < 2 ^ 32 -> z2 < 2 ^ 32 -> r1 < 2 ^ 32 -> r2 < 2 ^ 32 ->
  synthetic_id z1 r1 = synthetic_id z2 r2 -> z1 = z2 /\ r1 = r2.
Proof.
  intros z1 r1 z2 r2 Hz1 Hz2 Hr1 Hr2 E. rewrite !synthetic_id_arith in E by assumption. lia.
Qed.

(** ... but the segment is not an input: rows at the same (zone, row) position of two
    different segments get the same id whenever the id column is missing or holds zero. *)
Lemma synthetic_collide : forall seg1 seg2 zone row st1 st2,
  seg1 <> seg2 -> row_id seg1 zone row true st1 = row_id seg2 zone row true st2.
Proof. intros. reflexivity. Qed.

Lemma synthetic_collide_zero : forall seg1 seg2 zone row m1 m2,
  seg1 <> seg2 -> row_id seg1 zone row m1 0 = row_id seg2 zone row m2 0.
Proof. intros. unfold row_id, synthetic_row. rewrite !orb_true_r. reflexivity. Qed.

(** A stored non-zero id is returned unchanged when the column is present. *)
Lemma row_id_real : forall seg zone row st, st <> 0 -> row_id seg zone row false st = st.
Proof.
  intros seg zone row st H. unfold row_id, synthetic_row.
  destruct (N.eqb_spec st 0); [contradiction|reflexivity].
Qed.

(** Outside the known class [synthetic_row] a row carries its stored id, so rows that store
    different ids are never merged. *)
Lemma row_ids_outside_known : forall seg1 z1 r1 m1 st1 seg2 z2 r2 m2 st2,
  synthetic_row m1 st1 = false -> synthetic_row m2 st2 = false ->
  row_id seg1 z1 r1 m1 st1 = st1 /\ row_id seg2 z2 r2 m2 st2 = st2 /\
  (st1 <> st2 -> row_id seg1 z1 r1 m1 st1 <> row_id seg2 z2 r2 m2 st2).
Proof.
  intros seg1 z1 r1 m1 st1 seg2 z2 r2 m2 st2 H1 H2. unfold row_id. rewrite H1, H2.
  repeat split; auto.
Qed.

(** A synthetic id can also equal a real id: the two live in the same 64-bit space. *)
Lemma synthetic_meets_real : exists zone row m sh s,
  in_window m = true /\ synthetic_id zone row = pack m sh s.
Proof.
  exists 42, 0, (id_epoch_ms + 43008), 0, 0. split; vm_compute; reflexivity.
Qed.

(** * Response de-duplication *)

Lemma dedup_ids_nodup : forall rows seen,
  NoDup (map snd rows) -> (forall id, In id seen -> ~ In id (map snd rows)) ->
  dedup_ids seen rows = rows.
Proof.
  induction rows as [|[x id] r IH]; intros seen Hnd Hseen; cbn [dedup_ids]; [reflexivity|].
  cbn [map snd] in Hnd, Hseen. inversion Hnd as [|? ? Hnin Hnd']; subst.
  destruct (existsb (N.eqb id) seen) eqn:Ex.
  - apply existsb_exists in Ex. destruct Ex as (y & Hy & Ey). apply N.eqb_eq in Ey. subst y.
    exfalso. apply (Hseen id Hy). left. reflexivity.
  - f_equal. apply IH; [exact Hnd'|].
    intros y [<-|Hy] Hin; [contradiction|]. apply (Hseen y Hy). right. exact Hin.
Qed.

Lemma number_rows_ids : forall ids, map snd (number_rows ids) = ids.
Proof.
  intro ids. unfold number_rows.
  assert (G : forall (l1 l2 : list N), length l1 = length l2 -> map snd (combine l1 l2) = l2).
  { induction l1 as [|a l1 IH]; intros [|b l2] H; cbn in *; try discriminate; [reflexivity|].
    f_equal. apply IH. lia. }
  apply G. rewrite map_length, seq_length. reflexivity.
Qed.

(** When the ids are pairwise distinct the response shows every row: nothing is merged or
    dropped as a duplicate. *)
Lemma unique_ids_all_rows_visible : forall ids,
  NoDup ids -> dedup_ids [] (number_rows ids) = number_rows ids.
Proof.
  intros ids H. apply dedup_ids_nodup; [rewrite number_rows_ids; exact H|]. intros id [].
Qed.

(** Outside the known class every event applied over both lifetimes is visible. *)
Lemma visible_after_restart_outside_known : forall sh k1 rs1 k2 rs2,
  Forall (fun r => in_window r = true) rs1 -> Forall (fun r => in_window r = true) rs2 ->
  (shard_component sh <> 0 \/ Forall (fun r => r <> id_epoch_ms) rs1) ->
  restart_clock_not_advanced (gen_after k1 gen0 sh rs1) rs2 = false ->
  visible_after_restart sh k1 rs1 k2 rs2 = number_rows (restart_history sh k1 rs1 k2 rs2).
Proof.
  intros. unfold visible_after_restart. apply unique_ids_all_rows_visible.
  apply StronglySorted_lt_NoDup. apply across_restart_outside_known; assumption.
Qed.

(** In the known class a stored event disappears from the answer: two STOREs before the restart,
    two after it in the same millisecond — four events applied, two rows shown. *)
Lemma restart_drops_rows_refuted :
  exists sh k1 rs1 k2 rs2,
    Forall (fun r => in_window r = true) rs1 /\ Forall (fun r => in_window r = true) rs2 /\
    length (restart_history sh k1 rs1 k2 rs2) = 4%nat /\
    map fst (visible_after_restart sh k1 rs1 k2 rs2) = [0; 1].
Proof.
  exists 0, 2%nat, [id_epoch_ms + 5; id_epoch_ms + 5], 2%nat, [id_epoch_ms + 5; id_epoch_ms + 5].
  split; [repeat constructor|]. split; [repeat constructor|]. split; vm_compute; reflexivity.
Qed.
