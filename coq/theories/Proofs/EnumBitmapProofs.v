(** Proofs about Model/EnumBitmap.v (C08 part B). *)
From Coq Require Import NArith ZArith List Bool Lia.
From Coq Require Import ZifyBool ZifyNat ZifyN.
From Snel Require Import Base.Bytes Gen.Params Model.ZoneSel Model.EnumBitmap Proofs.ZoneSelProofs.
Import ListNotations.
Open Scope N_scope.

(** * Strings *)
Lemma bytes_eqb_eq : forall a b, bytes_eqb a b = true <-> a = b.
Proof.
  induction a as [|x a IH]; destruct b as [|y b]; cbn [bytes_eqb]; try (split; [discriminate|discriminate]).
  - split; reflexivity.
  - rewrite andb_true_iff, N.eqb_eq, IH. split.
    + intros [-> ->]. reflexivity.
    + intros [= -> ->]. split; reflexivity.
Qed.

Lemma bytes_eqb_refl : forall a, bytes_eqb a a = true.
Proof. intros a. now apply bytes_eqb_eq. Qed.

(** * [position] *)
Lemma position_nth : forall vs v k, position vs v = Some k -> nth_error vs k = Some v.
Proof.
  induction vs as [|x r IH]; intros v k; cbn [position]; [discriminate|].
  destruct (bytes_eqb x v) eqn:E.
  - intros [= <-]. apply bytes_eqb_eq in E. now subst.
  - destruct (position r v) as [j|] eqn:P; [|discriminate].
    intros [= <-]. cbn [nth_error]. now apply IH.
Qed.

Lemma position_in : forall vs v, In v vs -> exists k, position vs v = Some k.
Proof.
  induction vs as [|x r IH]; intros v Hin; [contradiction|].
  cbn [position]. destruct (bytes_eqb x v) eqn:E; [now exists O|].
  destruct Hin as [->|Hin]; [now rewrite bytes_eqb_refl in E|].
  destruct (IH v Hin) as [k ->]. now eexists.
Qed.

Lemma position_none : forall vs v, position vs v = None -> ~ In v vs.
Proof.
  intros vs v P Hin. destruct (position_in vs v Hin) as [k E]. congruence.
Qed.

Lemma position_lt : forall vs v k, position vs v = Some k -> (k < length vs)%nat.
Proof.
  intros vs v k P. apply position_nth in P. apply nth_error_Some. congruence.
Qed.

(** two values with the same position are equal *)
Lemma position_inj : forall vs v w k, position vs v = Some k -> position vs w = Some k -> v = w.
Proof.
  intros vs v w k Pv Pw. apply position_nth in Pv. apply position_nth in Pw. congruence.
Qed.

(** * Bits *)
Lemma shiftl_1_nonzero : forall bit, N.shiftl 1 bit <> 0.
Proof. intros bit. rewrite N.shiftl_1_l. apply N.pow_nonzero. discriminate. Qed.

Lemma lor_nonzero_r : forall a b, b <> 0 -> N.lor a b <> 0.
Proof. intros a b Hb H. apply N.lor_eq_0_iff in H. tauto. Qed.
Lemma lor_nonzero_l : forall a b, a <> 0 -> N.lor a b <> 0.
Proof. intros a b Ha H. apply N.lor_eq_0_iff in H. tauto. Qed.

Lemma has_any_cons : forall b r, has_any (b :: r) = negb (b =? 0) || has_any r.
Proof. reflexivity. Qed.

Lemma has_any_head : forall x r, x <> 0 -> has_any (x :: r) = true.
Proof. intros x r Hx. rewrite has_any_cons. destruct (N.eqb_spec x 0); [contradiction|reflexivity]. Qed.
Lemma has_any_tail : forall x r, has_any r = true -> has_any (x :: r) = true.
Proof. intros x r Hr. rewrite has_any_cons, Hr. apply orb_true_r. Qed.

Lemma set_bit_at_has_any : forall bs byte bit bs',
  set_bit_at bs byte bit = Some bs' -> has_any bs' = true.
Proof.
  induction bs as [|b r IH]; intros byte bit bs'; destruct byte as [|k]; cbn [set_bit_at]; try discriminate.
  - intros [= <-]. apply has_any_head. apply lor_nonzero_r, shiftl_1_nonzero.
  - destruct (set_bit_at r k bit) as [r'|] eqn:E; [|discriminate].
    intros [= <-]. apply has_any_tail. eapply IH; eassumption.
Qed.

Lemma set_bit_at_mono : forall bs byte bit bs',
  has_any bs = true -> set_bit_at bs byte bit = Some bs' -> has_any bs' = true.
Proof.
  induction bs as [|b r IH]; intros byte bit bs' Hany; destruct byte as [|k]; cbn [set_bit_at]; try discriminate.
  - intros [= <-]. rewrite has_any_cons in Hany. apply orb_true_iff in Hany. destruct Hany as [Hb|Hr].
    + apply has_any_head. apply lor_nonzero_l.
      destruct (N.eqb_spec b 0) as [->|Hnz]; [discriminate|assumption].
    + now apply has_any_tail.
  - destruct (set_bit_at r k bit) as [r'|] eqn:E; [|discriminate].
    intros [= <-]. rewrite has_any_cons in Hany. apply orb_true_iff in Hany. destruct Hany as [Hb|Hr].
    + rewrite has_any_cons, Hb. reflexivity.
    + apply has_any_tail. eapply IH; eassumption.
Qed.

Lemma set_bit_has_any : forall bs i bs', set_bit bs i = Some bs' -> has_any bs' = true.
Proof. intros bs i bs'. unfold set_bit. apply set_bit_at_has_any. Qed.
Lemma set_bit_mono : forall bs i bs', has_any bs = true -> set_bit bs i = Some bs' -> has_any bs' = true.
Proof. intros bs i bs'. unfold set_bit. apply set_bit_at_mono. Qed.

(** * [upd_nth] *)
Lemma nth_error_upd_same : forall (A : Type) k (x : A) l, (k < length l)%nat -> nth_error (upd_nth k x l) k = Some x.
Proof.
  intros A k x l. revert k. induction l as [|y r IH]; intros k Hk; cbn [length] in Hk; [lia|].
  destruct k as [|k]; cbn [upd_nth nth_error]; [reflexivity|]. apply IH. lia.
Qed.
Lemma nth_error_upd_other : forall (A : Type) k j (x : A) l, k <> j -> nth_error (upd_nth k x l) j = nth_error l j.
Proof.
  intros A k j x l. revert k j. induction l as [|y r IH]; intros k j Hne.
  - destruct k; reflexivity.
  - destruct k as [|k], j as [|j]; cbn [upd_nth nth_error]; try reflexivity; try congruence.
    apply IH. congruence.
Qed.

(** * The row loop: a variant with a row in the zone ends with a non-empty bitset *)
Definition marked (bitsets : list (list N)) (vid : nat) : Prop :=
  exists bs, nth_error bitsets vid = Some bs /\ has_any bs = true.

Lemma add_rows_keeps : forall variants vals i B B' vid,
  add_rows variants vals i B = Some B' -> marked B vid -> marked B' vid.
Proof.
  intros variants vals. induction vals as [|v r IH]; intros i B B' vid; cbn [add_rows].
  - now intros [= <-].
  - destruct (position variants v) as [j|] eqn:P; [|apply IH].
    destruct (nth_error B j) as [bs|] eqn:Hn; [|discriminate].
    destruct (set_bit bs i) as [bs'|] eqn:Hs; [|discriminate].
    intros Hrec Hm. eapply IH; [exact Hrec|].
    destruct Hm as [b0 [Hb0 Hany]].
    destruct (Nat.eq_dec j vid) as [->|Hne].
    + exists bs'. split.
      * apply nth_error_upd_same. apply nth_error_Some. congruence.
      * rewrite Hn in Hb0. injection Hb0 as ->. eapply set_bit_mono; eassumption.
    + exists b0. split; [|assumption]. now rewrite nth_error_upd_other.
Qed.

Lemma add_rows_marks : forall variants vals i B B' v vid,
  add_rows variants vals i B = Some B' -> In v vals -> position variants v = Some vid -> marked B' vid.
Proof.
  intros variants vals. induction vals as [|x r IH]; intros i B B' v vid; cbn [add_rows]; [contradiction|].
  intros Hrec [->|Hin] P.
  - rewrite P in Hrec.
    destruct (nth_error B vid) as [bs|] eqn:Hn; [|discriminate].
    destruct (set_bit bs i) as [bs'|] eqn:Hs; [|discriminate].
    eapply add_rows_keeps; [exact Hrec|].
    exists bs'. split.
    + apply nth_error_upd_same. apply nth_error_Some. congruence.
    + eapply set_bit_has_any; eassumption.
  - destruct (position variants x) as [j|] eqn:Px.
    + destruct (nth_error B j) as [bs|] eqn:Hn; [|discriminate].
      destruct (set_bit bs i) as [bs'|] eqn:Hs; [|discriminate].
      eapply IH; eassumption.
    + eapply IH; eassumption.
Qed.

(** * The zone loop *)
Lemma build_zones_keeps : forall variants rpz zones acc R zid B,
  build_zones variants rpz zones acc = Some R ->
  ~ In zid (map fst zones) -> am_get zid acc = Some B -> am_get zid R = Some B.
Proof.
  intros variants rpz zones. induction zones as [|[z vals] r IH]; intros acc R zid B; cbn [build_zones].
  - now intros [= <-].
  - destruct (add_zone_values variants rpz vals) as [bits|]; [|discriminate].
    cbn [map fst In]. intros Hrec Hnin Hg. eapply IH; [exact Hrec|tauto|].
    rewrite am_get_set_other; [assumption|]. intros ->. tauto.
Qed.

Lemma build_zones_spec : forall variants rpz zones acc R zid vals,
  build_zones variants rpz zones acc = Some R ->
  NoDup (map fst zones) -> In (zid, vals) zones ->
  exists B, am_get zid R = Some B /\ add_zone_values variants rpz vals = Some B.
Proof.
  intros variants rpz zones. induction zones as [|[z vs] r IH]; intros acc R zid vals; cbn [build_zones]; [contradiction|].
  destruct (add_zone_values variants rpz vs) as [bits|] eqn:E; [|discriminate].
  cbn [map fst]. intros Hrec Hnd [Heq|Hin].
  - injection Heq as -> ->. exists bits. split; [|assumption].
    inversion Hnd as [|? ? Hnin _]; subst.
    eapply build_zones_keeps; [exact Hrec|exact Hnin|apply am_get_set_same].
  - inversion Hnd; subst. eapply IH; eassumption.
Qed.

Lemma in_prune : forall ix op vid zid B,
  am_get zid (e_zones ix) = Some B -> zone_included op vid B = true -> In zid (prune ix op vid).
Proof.
  intros ix op vid zid B Hg Hinc. unfold prune. apply zs_of_list_in.
  apply in_map_iff. exists (zid, B). split; [reflexivity|].
  apply filter_In. split; [now apply am_get_in|exact Hinc].
Qed.

Lemma any_other_true : forall B i vid j bs,
  nth_error B j = Some bs -> has_any bs = true -> (i + j)%nat <> vid -> any_other B i vid = true.
Proof.
  induction B as [|b r IH]; intros i vid j bs Hn Hany Hne.
  - destruct j; discriminate.
  - cbn [any_other]. destruct j as [|j]; cbn [nth_error] in Hn.
    + injection Hn as ->. rewrite Hany.
      destruct (Nat.eqb_spec i vid) as [->|_]; [lia|reflexivity].
    + rewrite (IH (S i) vid j bs Hn Hany) by lia. apply orb_true_r.
Qed.

(** * Soundness of [=] and [!=] with a declared literal *)
Lemma build_all_inv : forall variants zones ix,
  build_all variants zones = Some ix ->
  e_variants ix = variants /\
  build_zones variants (e_rpz ix) zones [] = Some (e_zones ix).
Proof.
  intros variants zones ix. unfold build_all, build_with.
  match goal with |- context [build_zones variants ?r zones []] => destruct (build_zones variants r zones []) as [zs|] eqn:E end;
    [|discriminate].
  intros [= <-]. cbn. split; [reflexivity|exact E].
Qed.

Theorem enum_eq_sound : forall variants zones ix zid vals lit all,
  build_all variants zones = Some ix ->
  NoDup (map fst zones) ->
  In (zid, vals) zones ->
  In lit variants ->
  (exists v, In v vals /\ row_matches OEq v lit = true) ->
  In zid (select_enum (Some ix) all OEq lit).
Proof.
  intros variants zones ix zid vals lit all Hb Hnd Hin Hdecl [v [Hv Hm]].
  cbn [row_matches] in Hm. apply bytes_eqb_eq in Hm. subst v.
  destruct (build_all_inv _ _ _ Hb) as [Hvar Hz].
  destruct (build_zones_spec _ _ _ _ _ _ _ Hz Hnd Hin) as [B [Hg Ha]].
  destruct (position_in _ _ Hdecl) as [vid P].
  unfold select_enum, attempt. cbn [op_answered negb]. rewrite Hvar, P. rewrite select_some by reflexivity.
  eapply in_prune; [exact Hg|]. cbn [zone_included].
  unfold add_zone_values in Ha.
  destruct (add_rows_marks _ _ _ _ _ _ _ Ha Hv P) as [bs [Hn Hany]]. now rewrite Hn.
Qed.

Theorem enum_neq_sound : forall variants zones ix zid vals lit all,
  build_all variants zones = Some ix ->
  NoDup (map fst zones) ->
  In (zid, vals) zones ->
  In lit variants ->
  (exists v, In v vals /\ In v variants /\ row_matches ONeq v lit = true) ->
  In zid (select_enum (Some ix) all ONeq lit).
Proof.
  intros variants zones ix zid vals lit all Hb Hnd Hin Hdecl [v [Hv [Hvd Hm]]].
  cbn [row_matches] in Hm. apply negb_true_iff in Hm.
  destruct (build_all_inv _ _ _ Hb) as [Hvar Hz].
  destruct (build_zones_spec _ _ _ _ _ _ _ Hz Hnd Hin) as [B [Hg Ha]].
  destruct (position_in _ _ Hdecl) as [vid P].
  destruct (position_in _ _ Hvd) as [j Pj].
  unfold select_enum, attempt. cbn [op_answered]. change zidx_enum_handles_neq with true. cbn [negb].
  rewrite Hvar, P. rewrite select_some by reflexivity.
  eapply in_prune; [exact Hg|]. cbn [zone_included].
  unfold add_zone_values in Ha.
  destruct (add_rows_marks _ _ _ _ _ _ _ Ha Hv Pj) as [bs [Hn Hany]].
  eapply any_other_true; [exact Hn|exact Hany|].
  cbn. intros ->. pose proof (position_inj _ _ _ _ Pj P) as ->.
  rewrite bytes_eqb_refl in Hm. discriminate.
Qed.

(** the hypotheses of both theorems are satisfiable *)
Example enum_sound_hyps_ok :
  let variants := [[97]; [98]] in
  let zones := [(0, [[97]; [97]]); (1, [[98]; [97]])] in
  exists ix, build_all variants zones = Some ix /\ NoDup (map fst zones) /\
             In (1, [[98]; [97]]) zones /\ In [98] variants /\
             row_matches OEq [98] [98] = true /\ row_matches ONeq [97] [98] = true /\
             select_enum (Some ix) [0; 1] OEq [98] = [1] /\
             select_enum (Some ix) [0; 1] ONeq [98] = [0; 1].
Proof.
  eexists. split; [vm_compute; reflexivity|].
  repeat split; try (vm_compute; reflexivity); try (cbn; tauto).
  repeat constructor; cbn; intuition discriminate.
Qed.

(** * What the faithful model gets wrong *)

(** [!=] with a literal that is NOT a declared variant (repaired by f801704): the pruner
    answers [None] and the selector now falls back to every zone of the segment — every
    stored row differs from such a literal.  (Was [enum_neq_undeclared_refuted].) *)
Theorem enum_neq_undeclared_sound : forall ix variants lit all zid,
  (match ix with Some x => e_variants x = variants | None => True end) ->
  ~ In lit variants ->
  In zid all ->
  In zid (select_enum ix all ONeq lit).
Proof.
  intros ix variants lit all zid Hv Hnd Hall. unfold select_enum, attempt.
  cbn [op_answered]. change zidx_enum_handles_neq with true. cbn [negb].
  destruct ix as [x|].
  - destruct (position (e_variants x) lit) as [k|] eqn:P.
    + exfalso. apply Hnd. rewrite <- Hv. apply position_nth in P. eapply nth_error_In; eassumption.
    + change zidx_enum_undeclared_none with true. cbn iota.
      rewrite select_none_op_all by reflexivity. assumption.
  - rewrite select_none_op_all by reflexivity. assumption.
Qed.

(** the former witness of [EnumNeqUndeclaredLiteral] now passes *)
Example enum_neq_undeclared_witness_passes :
  exists ix, build_all [[97]; [98]] [(0, [[97]])] = Some ix /\
             select_enum (Some ix) [0] ONeq [122; 122; 122] = [0].
Proof. eexists. split; vm_compute; reflexivity. Qed.

(** any operator other than [=] / [!=] on an enum column (repaired by 01eee7e): the pruner
    answers [None] and the selector now falls back to every zone of the segment.
    (Was [enum_range_op_refuted].) *)
Theorem enum_unserved_op_all_zones : forall ix all op lit,
  op <> OEq -> op <> ONeq -> select_enum ix all op lit = all.
Proof.
  intros ix all op lit H1 H2. unfold select_enum, attempt.
  destruct op; try congruence; cbn [op_answered negb]; apply select_none_op_all; reflexivity.
Qed.

(** the former witness of [EnumRangeOp] now passes *)
Example enum_range_op_witness_passes :
  exists ix, build_all [[97]; [98]] [(0, [[98]])] = Some ix /\
             select_enum (Some ix) [0] OGt [97] = [0].
Proof. eexists. split; vm_compute; reflexivity. Qed.

(** [rows_per_zone] is cast to u16: a first zone of 65536 rows gives 0, the bitmaps are
    empty and the first row that holds a declared variant panics ([None]) — in every zone. *)
Lemma add_zone_values_rpz0 : forall variants v r,
  In v variants -> add_zone_values variants 0 (v :: r) = None.
Proof.
  intros variants v r Hin. unfold add_zone_values. cbn [add_rows].
  destruct (position_in _ _ Hin) as [vid P]. rewrite P.
  change (alloc_bitmap 0) with (@nil N).
  destruct (nth_error (repeat [] (length variants)) vid) as [bs|] eqn:Hn; [|reflexivity].
  apply nth_error_In, repeat_spec in Hn. subst bs. reflexivity.
Qed.

Theorem enum_rows_per_zone_wrap_refuted :
  exists n, 0 < n /\ rows_per_zone_of n = 0 /\
    forall variants v r, In v variants -> add_zone_values variants (rows_per_zone_of n) (v :: r) = None.
Proof.
  exists 65536. split; [lia|]. split; [vm_compute; reflexivity|].
  intros variants v r Hin. change (rows_per_zone_of 65536) with 0. now apply add_zone_values_rpz0.
Qed.

(** * The strongest true statement: no known class is left for the selector level *)

Lemma not_in_position_none : forall vs v, ~ In v vs -> position vs v = None.
Proof.
  intros vs v H. destruct (position vs v) as [k|] eqn:P; [|reflexivity].
  exfalso. apply H. apply position_nth in P. eapply nth_error_In; eassumption.
Qed.

(** Every zone whose rows hold declared variants only (what STORE admits, C06) and that
    holds a row satisfying the probe is a candidate — for EVERY operator and ANY literal,
    declared or not.  [all] is the list of all zones of the segment.  (Was
    [enum_outside_known] with the exclusion [enum_known].) *)
Theorem enum_sound_all_operators : forall variants zones ix zid vals op lit all,
  build_all variants zones = Some ix ->
  NoDup (map fst zones) ->
  In (zid, vals) zones ->
  In zid all ->
  (forall v, In v vals -> In v variants) ->
  (exists v, In v vals /\ row_matches op v lit = true) ->
  In zid (select_enum (Some ix) all op lit).
Proof.
  intros variants zones ix zid vals op lit all Hb Hnd Hin Hall Hdecl [v [Hv Hm]].
  destruct op; try (rewrite enum_unserved_op_all_zones by discriminate; exact Hall).
  - assert (v = lit) by (now apply bytes_eqb_eq). subst v.
    eapply enum_eq_sound; eauto.
  - destruct (in_dec (list_eq_dec N.eq_dec) lit variants) as [Hd|Hu].
    + eapply enum_neq_sound; eauto.
    + eapply enum_neq_undeclared_sound with (variants := variants); eauto.
      destruct (build_all_inv _ _ _ Hb) as [Hvar _]. exact Hvar.
Qed.

(** * When the index can be built: every zone at most as long as the first, below 2^16 rows *)
Lemma set_bit_at_ok : forall bs k bit, (k < length bs)%nat ->
  exists bs', set_bit_at bs k bit = Some bs' /\ length bs' = length bs.
Proof.
  induction bs as [|b r IH]; intros k bit Hk; cbn [length] in Hk; [lia|].
  destruct k as [|k]; cbn [set_bit_at].
  - eexists. split; [reflexivity|reflexivity].
  - destruct (IH k bit) as [r' [E L]]; [lia|]. rewrite E. eexists. split; [reflexivity|]. cbn [length]. lia.
Qed.

Lemma upd_nth_length : forall (A : Type) k (x : A) l, length (upd_nth k x l) = length l.
Proof.
  intros A k x l. revert k. induction l as [|y r IH]; intros k; destruct k; cbn [upd_nth length]; try reflexivity.
  now rewrite IH.
Qed.

Lemma upd_nth_forall : forall (A : Type) (P : A -> Prop) k x l, Forall P l -> P x -> Forall P (upd_nth k x l).
Proof.
  intros A P k x l. revert k. induction l as [|y r IH]; intros k HF Hx; destruct k; cbn [upd_nth]; try assumption.
  - inversion HF; subst. now constructor.
  - inversion HF; subst. constructor; [assumption|now apply IH].
Qed.

Lemma add_rows_ok : forall variants vals i B nb,
  length B = length variants -> Forall (fun bs => length bs = nb) B ->
  i + N.of_nat (length vals) <= 8 * N.of_nat nb ->
  add_rows variants vals i B <> None.
Proof.
  intros variants vals. induction vals as [|v r IH]; intros i B nb HL HF Hb; cbn [add_rows]; [discriminate|].
  cbn [length] in Hb.
  destruct (position variants v) as [vid|] eqn:P.
  - pose proof (position_lt _ _ _ P) as Hlt.
    destruct (nth_error B vid) as [bs|] eqn:Hn; [|apply nth_error_None in Hn; lia].
    assert (Hbs : length bs = nb).
    { rewrite Forall_forall in HF. apply HF. eapply nth_error_In; eassumption. }
    unfold set_bit.
    destruct (set_bit_at_ok bs (N.to_nat (i / 8)) (i mod 8)) as [bs' [E L']].
    { rewrite Hbs. assert (i / 8 < N.of_nat nb) by (apply N.div_lt_upper_bound; lia). lia. }
    rewrite E. apply (IH (i + 1) _ nb).
    + now rewrite upd_nth_length.
    + apply upd_nth_forall; [assumption|congruence].
    + lia.
  - apply (IH (i + 1) B nb); [assumption|assumption|lia].
Qed.

Lemma add_zone_values_ok : forall variants rpz vals,
  N.of_nat (length vals) <= rpz -> add_zone_values variants rpz vals <> None.
Proof.
  intros variants rpz vals Hlen. unfold add_zone_values.
  apply (add_rows_ok variants vals 0 _ (N.to_nat ((rpz + 7) / 8))).
  - apply repeat_length.
  - apply Forall_forall. intros bs Hin. apply repeat_spec in Hin. subst bs.
    unfold alloc_bitmap. apply repeat_length.
  - rewrite N2Nat.id. pose proof (N.div_mod (rpz + 7) 8 ltac:(lia)) as D.
    pose proof (N.mod_lt (rpz + 7) 8 ltac:(lia)). lia.
Qed.

Lemma build_zones_ok : forall variants rpz zones acc,
  (forall zid vals, In (zid, vals) zones -> N.of_nat (length vals) <= rpz) ->
  build_zones variants rpz zones acc <> None.
Proof.
  intros variants rpz zones. induction zones as [|[z vs] r IH]; intros acc Hlen; cbn [build_zones]; [discriminate|].
  destruct (add_zone_values variants rpz vs) as [bits|] eqn:E.
  - apply IH. intros zid vals Hin. apply (Hlen zid vals). now right.
  - exfalso. eapply add_zone_values_ok; [|exact E]. apply (Hlen z vs). now left.
Qed.

(** The flush planner's zones (the first zone is the longest) can always be indexed as
    long as a zone has fewer than 2^16 rows. *)
Theorem enum_build_ok : forall variants z0 vals0 rest,
  N.of_nat (length vals0) < 2 ^ zidx_rpz_bits ->
  (forall zid vals, In (zid, vals) rest -> (length vals <= length vals0)%nat) ->
  build_all variants ((z0, vals0) :: rest) <> None.
Proof.
  intros variants z0 vals0 rest Hsmall Hlen. unfold build_all, build_with.
  unfold rows_per_zone_of. rewrite N.mod_small by assumption.
  match goal with |- context [build_zones ?v ?r ?z ?a] => pose proof (build_zones_ok v r z a) as Hok end.
  destruct (build_zones variants (N.of_nat (length vals0)) ((z0, vals0) :: rest) []); [discriminate|].
  exfalso. apply Hok; [|reflexivity].
  intros zid vals [[= <- <-]|Hin]; [lia|]. specialize (Hlen zid vals Hin). lia.
Qed.
