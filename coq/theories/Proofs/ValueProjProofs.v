(** C07, part 3: RETURN projection (compute_return_projection) and the column order of the
    memtable flow. *)
From Coq Require Import ZArith NArith List Bool Lia.
From Coq Require Import ZifyBool ZifyNat ZifyN.
From Snel Require Import Base.Bytes Model.Float64 Model.RustText Model.JsonV7 Model.ValueTiers Gen.Params.
From Snel Require Import Proofs.ValueTextProofs.
Import ListNotations.

Lemma mem_bytes_In : forall s l, mem_bytes s l = true <-> In s l.
Proof.
  intros s l. induction l as [|x l IH]; cbn [mem_bytes In]; [split; [discriminate|tauto]|].
  rewrite orb_true_iff, IH. split; intros [H|H]; auto.
  - left. symmetry. apply bytes_eqb_eq, H.
  - left. subst x. apply bytes_eqb_refl.
Qed.

(** * positions *)
Lemma position_from_spec : forall cols i name k,
  position_from i name cols = Some k ->
  (i <= k)%nat /\ (k - i < length cols)%nat /\ nth (k - i) cols [] = name.
Proof.
  induction cols as [|c r IH]; intros i name k H; cbn [position_from] in H; [discriminate|].
  destruct (bytes_eqb c name) eqn:E.
  - inversion H. subst k. apply bytes_eqb_eq in E. subst c.
    replace (i - i)%nat with 0%nat by lia. cbn [length nth]. repeat split; lia.
  - destruct (IH (S i) name k H) as (H1 & H2 & H3).
    replace (k - i)%nat with (S (k - S i)) by lia. cbn [length nth]. repeat split; try lia. exact H3.
Qed.

Lemma position_spec : forall cols name k,
  position name cols = Some k -> (k < length cols)%nat /\ nth k cols [] = name.
Proof.
  intros cols name k H. destruct (position_from_spec cols 0 name k H) as (_ & H2 & H3).
  replace (k - 0)%nat with k in * by lia. auto.
Qed.

Lemma position_from_some : forall cols i name, In name cols -> exists k, position_from i name cols = Some k.
Proof.
  induction cols as [|c r IH]; intros i name Hin; [destruct Hin|].
  cbn [position_from]. destruct (bytes_eqb c name) eqn:E; [eexists; reflexivity|].
  destruct Hin as [->|Hin]; [rewrite bytes_eqb_refl in E; discriminate|]. apply IH, Hin.
Qed.
Lemma position_some : forall cols name, In name cols -> exists k, position name cols = Some k.
Proof. intros. apply position_from_some. assumption. Qed.

(** * the index list *)
Section Proj.
  Variable cols fields : list bytes.

  (** what an index of the projected output stands for *)
  Definition ok_core (i : nat) : Prop := (i < length cols)%nat /\ is_core (nth i cols []) = true.
  Definition ok_ret (fs : list bytes) (i : nat) : Prop :=
    (i < length cols)%nat /\ In (nth i cols []) fs /\ mem_bytes (nth i cols []) fields = true.

  Lemma add_core_inv : forall acc f (P : nat -> Prop),
    Forall P acc -> (forall i, (i < length cols)%nat -> nth i cols [] = f -> P i) ->
    Forall P (add_core cols acc f).
  Proof.
    intros acc f P Hacc Hf. unfold add_core. destruct (position f cols) as [i|] eqn:E; [|exact Hacc].
    destruct (position_spec _ _ _ E) as [H1 H2]. apply Forall_app. split; [exact Hacc|].
    constructor; [apply Hf; auto|constructor].
  Qed.

  Lemma add_return_inv : forall acc f (P : nat -> Prop),
    Forall P acc ->
    (forall i, (i < length cols)%nat -> nth i cols [] = f -> mem_bytes f fields = true -> P i) ->
    Forall P (add_return cols fields acc f).
  Proof.
    intros acc f P Hacc Hf. unfold add_return. destruct (mem_bytes f fields) eqn:Em; [|exact Hacc].
    destruct (position f cols) as [i|] eqn:E; [|exact Hacc].
    destruct (existsb (Nat.eqb i) acc); [exact Hacc|].
    destruct (position_spec _ _ _ E) as [H1 H2]. apply Forall_app. split; [exact Hacc|].
    constructor; [apply Hf; auto|constructor].
  Qed.

  Lemma fold_core_inv : forall (cs : list bytes) acc (P : nat -> Prop),
    Forall P acc -> (forall f i, In f cs -> (i < length cols)%nat -> nth i cols [] = f -> P i) ->
    Forall P (fold_left (add_core cols) cs acc).
  Proof.
    induction cs as [|c cs IH]; intros acc P Hacc Hf; cbn [fold_left]; [exact Hacc|].
    apply IH.
    - apply add_core_inv; [exact Hacc|]. intros i Hi Hn. eapply Hf; [left; reflexivity|exact Hi|exact Hn].
    - intros f i Hin. apply Hf. right. exact Hin.
  Qed.

  Lemma fold_return_inv : forall (fs : list bytes) acc (P : nat -> Prop),
    Forall P acc ->
    (forall f i, In f fs -> (i < length cols)%nat -> nth i cols [] = f -> mem_bytes f fields = true -> P i) ->
    Forall P (fold_left (add_return cols fields) fs acc).
  Proof.
    induction fs as [|c fs IH]; intros acc P Hacc Hf; cbn [fold_left]; [exact Hacc|].
    apply IH.
    - apply add_return_inv; [exact Hacc|]. intros i Hi Hn Hm. eapply Hf; [left; reflexivity|exact Hi|exact Hn|exact Hm].
    - intros f i Hin. apply Hf. right. exact Hin.
  Qed.

  Lemma is_core_In : forall f, In f core_fields -> is_core f = true.
  Proof. intros f H. unfold is_core. apply mem_bytes_In, H. Qed.

  (** every index of a RETURN projection is a core column or a requested schema field *)
  Lemma projection_indices : forall fs, fs <> [] ->
    Forall (fun i => ok_core i \/ ok_ret fs i) (projection cols (Some fs) fields).
  Proof.
    intros fs Hne. unfold projection. destruct fs as [|f0 fs']; [contradiction|].
    apply fold_return_inv.
    - apply fold_core_inv; [constructor|]. intros f i Hin Hi Hn. left. split; [exact Hi|].
      rewrite Hn. apply is_core_In, Hin.
    - intros f i Hin Hi Hn Hm. right. unfold ok_ret. rewrite Hn. auto.
  Qed.

  Lemma projection_valid : forall ret, Forall (fun i => (i < length cols)%nat) (projection cols ret fields).
  Proof.
    intros ret.
    assert (Hid : Forall (fun i => (i < length cols)%nat) (seq 0 (length cols))).
    { apply Forall_forall. intros i Hi. apply in_seq in Hi. lia. }
    destruct ret as [fs|]; [|exact Hid]. destruct fs as [|f0 fs']; [exact Hid|].
    eapply Forall_impl; [|apply projection_indices; discriminate].
    intros i [[H _]|[H _]]; exact H.
  Qed.

  (** monotonicity of the folds *)
  Lemma add_return_mono : forall acc f i, In i acc -> In i (add_return cols fields acc f).
  Proof.
    intros acc f i Hin. unfold add_return. destruct (mem_bytes f fields); [|exact Hin].
    destruct (position f cols); [|exact Hin]. destruct (existsb _ acc); [exact Hin|]. apply in_or_app. left. exact Hin.
  Qed.
  Lemma fold_return_mono : forall fs acc i, In i acc -> In i (fold_left (add_return cols fields) fs acc).
  Proof. induction fs as [|f fs IH]; intros acc i Hin; cbn [fold_left]; [exact Hin|]. apply IH, add_return_mono, Hin. Qed.
  Lemma add_core_mono : forall acc f i, In i acc -> In i (add_core cols acc f).
  Proof. intros acc f i Hin. unfold add_core. destruct (position f cols); [apply in_or_app; left|]; exact Hin. Qed.
  Lemma fold_core_mono : forall cs acc i, In i acc -> In i (fold_left (add_core cols) cs acc).
  Proof. induction cs as [|f cs IH]; intros acc i Hin; cbn [fold_left]; [exact Hin|]. apply IH, add_core_mono, Hin. Qed.

  Lemma fold_core_has : forall cs acc c k, In c cs -> position c cols = Some k -> In k (fold_left (add_core cols) cs acc).
  Proof.
    induction cs as [|f cs IH]; intros acc c k Hin Hp; [destruct Hin|]. cbn [fold_left].
    destruct Hin as [->|Hin].
    - apply fold_core_mono. unfold add_core. rewrite Hp. apply in_or_app. right. left. reflexivity.
    - eapply IH; eassumption.
  Qed.

  Lemma fold_return_has : forall fs acc f k,
    In f fs -> mem_bytes f fields = true -> position f cols = Some k ->
    In k (fold_left (add_return cols fields) fs acc).
  Proof.
    induction fs as [|g fs IH]; intros acc f k Hin Hm Hp; [destruct Hin|]. cbn [fold_left].
    destruct Hin as [->|Hin].
    - apply fold_return_mono. unfold add_return. rewrite Hm, Hp.
      destruct (existsb (Nat.eqb k) acc) eqn:E.
      + apply existsb_exists in E. destruct E as (x & Hx & Ex). apply Nat.eqb_eq in Ex. subst x. exact Hx.
      + apply in_or_app. right. left. reflexivity.
    - eapply IH; eassumption.
  Qed.
End Proj.

(** * rows *)
Lemma nth_map_lt : forall (A B : Type) (f : A -> B) l i d d', (i < length l)%nat -> nth i (map f l) d = f (nth i l d').
Proof.
  intros A B f l. induction l as [|x l IH]; intros i d d' H; cbn [length] in H; [lia|].
  destruct i as [|i]; cbn [map nth]; [reflexivity|]. apply IH. lia.
Qed.

Lemma in_combine_maps : forall (I A B : Type) (f : I -> A) (g : I -> B) idx x y,
  In (x, y) (combine (map f idx) (map g idx)) -> exists i, In i idx /\ x = f i /\ y = g i.
Proof.
  intros I A B f g idx. induction idx as [|i idx IH]; intros x y H; cbn [map combine] in H; [destruct H|].
  destruct H as [H|H]; [inversion H; exists i; repeat split; left; reflexivity|].
  destruct (IH x y H) as (j & Hj & E1 & E2). exists j. repeat split; try assumption. right. exact Hj.
Qed.
Lemma combine_maps_in : forall (I A B : Type) (f : I -> A) (g : I -> B) idx i,
  In i idx -> In (f i, g i) (combine (map f idx) (map g idx)).
Proof.
  intros I A B f g idx. induction idx as [|j idx IH]; intros i H; [destruct H|]. cbn [map combine].
  destruct H as [->|H]; [left; reflexivity|right; apply IH, H].
Qed.

(** the output row of a flow whose source fills the row in the order of the batch schema *)
Lemma flow_row_same_in : forall (A : Type) (d : A) cols ret fields (ev : bytes -> A) name val,
  In (name, val) (flow_row d cols cols ret fields ev) ->
  exists i, In i (projection cols ret fields) /\ (i < length cols)%nat /\ name = nth i cols [] /\ val = ev name.
Proof.
  intros A d cols ret fields ev name val H. unfold flow_row, project_cols, project_row in H.
  apply in_combine_maps in H. destruct H as (i & Hi & E1 & E2).
  pose proof (projection_valid cols fields ret) as Hv. rewrite Forall_forall in Hv. specialize (Hv i Hi).
  exists i. repeat split; try assumption. subst name val. apply nth_map_lt, Hv.
Qed.

(** ** C07_projection *)
Theorem projection_exact : forall (A : Type) (d : A) cols ret fields (ev : bytes -> A),
  (* every returned cell holds the value of the column it is named after, and names an input column *)
  (forall name val, In (name, val) (flow_row d cols cols ret fields ev) -> val = ev name /\ In name cols) /\
  (* a RETURN list lets through only core columns and requested schema fields *)
  (forall fs name val, ret = Some fs -> fs <> [] -> In (name, val) (flow_row d cols cols ret fields ev) ->
     is_core name = true \/ (In name fs /\ mem_bytes name fields = true)) /\
  (* core columns are never dropped *)
  (forall c, In c core_fields -> In c cols -> In (c, ev c) (flow_row d cols cols ret fields ev)) /\
  (* requested schema fields that were loaded are returned *)
  (forall fs f, ret = Some fs -> In f fs -> mem_bytes f fields = true -> In f cols ->
     In (f, ev f) (flow_row d cols cols ret fields ev)) /\
  (* without RETURN every loaded column is returned *)
  (forall f, (ret = None \/ ret = Some []) -> In f cols -> In (f, ev f) (flow_row d cols cols ret fields ev)).
Proof.
  intros A d cols ret fields ev.
  assert (Hpair : forall i, In i (projection cols ret fields) -> (i < length cols)%nat ->
            In (nth i cols [], ev (nth i cols [])) (flow_row d cols cols ret fields ev)).
  { intros i Hi Hlt. unfold flow_row, project_cols, project_row.
    rewrite <- (nth_map_lt _ _ ev cols i d [] Hlt).
    apply (combine_maps_in nat bytes A (fun i => nth i cols []) (fun i => nth i (map ev cols) d)). exact Hi. }
  repeat split.
  - destruct (flow_row_same_in _ _ _ _ _ _ _ _ H) as (i & _ & _ & _ & E). exact E.
  - destruct (flow_row_same_in _ _ _ _ _ _ _ _ H) as (i & _ & Hlt & E & _). subst name. apply nth_In, Hlt.
  - intros fs name val Hr Hne H. subst ret.
    destruct (flow_row_same_in _ _ _ _ _ _ _ _ H) as (i & Hi & Hlt & E & _).
    pose proof (projection_indices cols fields fs Hne) as Hall. rewrite Forall_forall in Hall.
    destruct (Hall i Hi) as [[_ Hc]|[_ [Hin Hm]]]; subst name; [left; exact Hc|right; split; assumption].
  - intros c Hc Hin. destruct (position_some cols c Hin) as [k Hk].
    destruct (position_spec _ _ _ Hk) as [Hlt Hn]. rewrite <- Hn. apply Hpair; [|exact Hlt].
    unfold projection. destruct ret as [[|f0 fs]|].
    + apply in_seq. lia.
    + apply fold_return_mono. eapply fold_core_has; eassumption.
    + apply in_seq. lia.
  - intros fs f Hr Hin Hm Hc. subst ret. destruct (position_some cols f Hc) as [k Hk].
    destruct (position_spec _ _ _ Hk) as [Hlt Hn]. rewrite <- Hn. apply Hpair; [|exact Hlt].
    unfold projection. destruct fs as [|f0 fs']; [destruct Hin|].
    eapply fold_return_has; eassumption.
  - intros f Hr Hc. destruct (In_nth cols f [] Hc) as (k & Hlt & Hn). rewrite <- Hn. apply Hpair; [|exact Hlt].
    unfold projection. destruct Hr as [->| ->]; apply in_seq; lia.
Qed.

(** ** the memtable flow computes the column list twice, each time in a fresh HashSet order *)
Definition nm (l : list N) : bytes := l.
Definition f_a : bytes := [97]%N.
Definition f_b : bytes := [98]%N.
(** the event: a = 1, b = 2, anything else 0 *)
Definition ev_ab (name : bytes) : Z :=
  if bytes_eqb name f_a then 1%Z else if bytes_eqb name f_b then 2%Z else 0%Z.

(** RETIRED by fix f2ae870: [return_mislabel_refuted] (with two HashSet orders the memtable flow put b's
    value under a's name).  The requested names are now appended in RETURN order, so the two column lists
    of the memtable flow coincide whatever orders the former HashSets would have had. *)
Lemma return_order_param : value_return_order_stable = true.
Proof. reflexivity. Qed.

Theorem memtable_flow_order_independent : forall (A : Type) (d : A) fc ret fields o1 o2 (ev : bytes -> A),
  memtable_flow_row d fc ret fields o1 o2 ev =
  let cols := selection_columns fc (requested ret fields) in flow_row d cols cols (Some ret) fields ev.
Proof.
  intros. unfold memtable_flow_row, selection_columns_ret, appended_order. rewrite return_order_param. reflexivity.
Qed.

(** the memtable flow under any RETURN list is exact: every cell holds the value of the column it is
    named after, only core columns and requested schema fields appear, core columns are kept *)
Theorem memtable_flow_exact : forall (A : Type) (d : A) fc ret fields o1 o2 (ev : bytes -> A),
  (forall name val, In (name, val) (memtable_flow_row d fc ret fields o1 o2 ev) -> val = ev name) /\
  (forall name val, ret <> [] -> In (name, val) (memtable_flow_row d fc ret fields o1 o2 ev) ->
     is_core name = true \/ (In name ret /\ mem_bytes name fields = true)) /\
  (forall c, In c core_fields -> In (c, ev c) (memtable_flow_row d fc ret fields o1 o2 ev)) /\
  (forall f, In f ret -> mem_bytes f fields = true -> In (f, ev f) (memtable_flow_row d fc ret fields o1 o2 ev)).
Proof.
  intros A d fc ret fields o1 o2 ev. rewrite memtable_flow_order_independent. cbv zeta.
  set (cols := selection_columns fc (requested ret fields)).
  destruct (projection_exact A d cols (Some ret) fields ev) as (P1 & P2 & P3 & P4 & _).
  assert (Hcore : forall c, In c core_fields -> In c cols).
  { intros c Hc. unfold cols, selection_columns, dedup.
    assert (G : forall l seen x, In x l -> mem_bytes x seen = false -> In x (dedup_acc seen l)).
    { induction l as [|y l IH]; intros seen x Hin Hs; [destruct Hin|]. cbn [dedup_acc].
      destruct (bytes_eqb x y) eqn:E.
      - apply bytes_eqb_eq in E. subst y. rewrite Hs. left. reflexivity.
      - destruct Hin as [->|Hin]; [rewrite bytes_eqb_refl in E; discriminate|].
        destruct (mem_bytes y seen); [apply IH; assumption|].
        right. apply IH; [exact Hin|]. cbn [mem_bytes]. rewrite E, Hs. reflexivity. }
    apply G; [apply in_or_app; left; exact Hc|reflexivity]. }
  assert (Hreq : forall f, In f ret -> mem_bytes f fields = true -> In f cols).
  { intros f Hf Hm. unfold cols, selection_columns, dedup.
    assert (G : forall l seen x, In x l -> mem_bytes x seen = false -> In x (dedup_acc seen l)).
    { induction l as [|y l IH]; intros seen x Hin Hs; [destruct Hin|]. cbn [dedup_acc].
      destruct (bytes_eqb x y) eqn:E.
      - apply bytes_eqb_eq in E. subst y. rewrite Hs. left. reflexivity.
      - destruct Hin as [->|Hin]; [rewrite bytes_eqb_refl in E; discriminate|].
        destruct (mem_bytes y seen); [apply IH; assumption|].
        right. apply IH; [exact Hin|]. cbn [mem_bytes]. rewrite E, Hs. reflexivity. }
    apply G; [|reflexivity]. apply in_or_app. right. apply in_or_app. right. apply in_or_app. left.
    unfold requested. apply filter_In. split; [exact Hf|]. rewrite Hm. apply orb_true_r. }
  repeat split.
  - intros name val H. apply (P1 name val H).
  - intros name val Hne H. apply (P2 ret name val eq_refl Hne H).
  - intros c Hc. apply P3; [exact Hc|apply Hcore, Hc].
  - intros f Hf Hm. apply (P4 ret f eq_refl Hf Hm). apply Hreq; assumption.
Qed.

(** the former witness: the two orders that used to swap a and b *)
Example memtable_flow_former_witness :
  memtable_flow_row 0%Z [] [f_a; f_b] [f_a; f_b] [f_a; f_b] [f_b; f_a] ev_ab
  = [(nth 0 core_fields [], 0%Z); (nth 1 core_fields [], 0%Z); (nth 2 core_fields [], 0%Z); (nth 3 core_fields [], 0%Z);
     (f_a, 1%Z); (f_b, 2%Z)].
Proof. vm_compute. reflexivity. Qed.

Example projection_example :
  flow_row 0%Z (selection_columns [] [f_b; f_a]) (selection_columns [] [f_b; f_a]) (Some [f_a; f_b]) [f_a; f_b] ev_ab
  = [(nth 0 core_fields [], 0%Z); (nth 1 core_fields [], 0%Z); (nth 2 core_fields [], 0%Z); (nth 3 core_fields [], 0%Z);
     (f_a, 1%Z); (f_b, 2%Z)].
Proof. vm_compute. reflexivity. Qed.

(** ** when the HashSet order cannot matter: at most one order-dependent column *)
Lemma mem_bytes_app : forall x a b, mem_bytes x (a ++ b) = mem_bytes x a || mem_bytes x b.
Proof. intros x a b. induction a as [|y a IH]; cbn [app mem_bytes]; [reflexivity|]. rewrite IH, orb_assoc. reflexivity. Qed.

Lemma dedup_acc_ext : forall l s1 s2,
  (forall x, In x l -> mem_bytes x s1 = mem_bytes x s2) -> dedup_acc s1 l = dedup_acc s2 l.
Proof.
  induction l as [|x l IH]; intros s1 s2 H; cbn [dedup_acc]; [reflexivity|].
  rewrite <- (H x (or_introl eq_refl)). destruct (mem_bytes x s1).
  - apply IH. intros y Hy. apply H. right. exact Hy.
  - f_equal. apply IH. intros y Hy. cbn [mem_bytes]. rewrite (H y (or_intror Hy)). reflexivity.
Qed.

Lemma dedup_acc_app : forall a b seen,
  dedup_acc seen (a ++ b) = dedup_acc seen a ++ dedup_acc (a ++ seen) b.
Proof.
  induction a as [|x a IH]; intros b seen; cbn [app dedup_acc]; [reflexivity|].
  destruct (mem_bytes x seen) eqn:E.
  - rewrite IH. f_equal. apply dedup_acc_ext. intros y _. cbn [mem_bytes]. rewrite !mem_bytes_app.
    destruct (bytes_eqb y x) eqn:Eq; [|reflexivity]. apply bytes_eqb_eq in Eq. subst y. rewrite E.
    rewrite orb_true_r. reflexivity.
  - cbn [app]. f_equal. rewrite IH. f_equal. apply dedup_acc_ext. intros y _. cbn [mem_bytes]. rewrite !mem_bytes_app.
    cbn [mem_bytes]. destruct (bytes_eqb y x), (mem_bytes y a), (mem_bytes y seen); reflexivity.
Qed.

Lemma mem_bytes_false_notin : forall x l, ~ In x l -> mem_bytes x l = false.
Proof. intros x l H. destruct (mem_bytes x l) eqn:E; [|reflexivity]. apply mem_bytes_In in E. contradiction. Qed.

Lemma dedup_acc_nodup : forall o seen, NoDup o ->
  dedup_acc seen o = filter (fun x => negb (mem_bytes x seen)) o.
Proof.
  induction o as [|x o IH]; intros seen Hnd; cbn [dedup_acc filter]; [reflexivity|].
  inversion Hnd as [|? ? Hx Hnd']. subst.
  destruct (mem_bytes x seen) eqn:E; cbn [negb].
  - apply IH, Hnd'.
  - f_equal. rewrite <- IH by exact Hnd'. apply dedup_acc_ext. intros y Hy. cbn [mem_bytes].
    destruct (bytes_eqb y x) eqn:Eq; [|reflexivity]. apply bytes_eqb_eq in Eq. subst y. contradiction.
Qed.

Lemma short_lists_equal : forall (l1 l2 : list bytes),
  NoDup l1 -> NoDup l2 -> (forall x, In x l1 <-> In x l2) -> (length l1 <= 1)%nat -> l1 = l2.
Proof.
  intros l1 l2 N1 N2 H Hlen.
  assert (Hl2 : (length l2 <= length l1)%nat).
  { apply NoDup_incl_length; [exact N2|]. intros x Hx. apply H, Hx. }
  destruct l1 as [|a [|a' l1]]; cbn [length] in *; try lia.
  - destruct l2 as [|b l2]; [reflexivity|]. cbn [length] in Hl2. lia.
  - destruct l2 as [|b [|b' l2]]; cbn [length] in Hl2; try lia.
    + exfalso. apply (proj1 (H a)). left. reflexivity.
    + f_equal. destruct (proj2 (H b) (or_introl eq_refl)) as [E|[]]. exact E.
Qed.

Theorem selection_columns_stable : forall fc o1 o2,
  NoDup o1 -> NoDup o2 -> (forall x, In x o1 <-> In x o2) ->
  (length (filter (fun f => negb (is_core f) && negb (mem_bytes f fc)) o1) <= 1)%nat ->
  selection_columns fc o1 = selection_columns fc o2.
Proof.
  intros fc o1 o2 N1 N2 Hsame Hlen. unfold selection_columns, dedup.
  replace (core_fields ++ fc ++ o1 ++ [event_id_name]) with ((core_fields ++ fc) ++ o1 ++ [event_id_name])
    by (rewrite <- app_assoc; reflexivity).
  replace (core_fields ++ fc ++ o2 ++ [event_id_name]) with ((core_fields ++ fc) ++ o2 ++ [event_id_name])
    by (rewrite <- app_assoc; reflexivity).
  set (pre := core_fields ++ fc).
  rewrite (dedup_acc_app pre (o1 ++ [event_id_name]) []), (dedup_acc_app pre (o2 ++ [event_id_name]) []).
  f_equal. rewrite app_nil_r.
  rewrite (dedup_acc_app o1 [event_id_name] pre), (dedup_acc_app o2 [event_id_name] pre).
  assert (Heid : forall o, dedup_acc (o ++ pre) [event_id_name] = []).
  { intros o. cbn [dedup_acc]. rewrite mem_bytes_app. subst pre. rewrite mem_bytes_app.
    replace (mem_bytes event_id_name core_fields) with true by (vm_compute; reflexivity).
    rewrite orb_true_r. reflexivity. }
  rewrite !Heid, !app_nil_r, !dedup_acc_nodup by assumption.
  set (P := fun x : bytes => negb (mem_bytes x pre)).
  assert (HP : forall x, P x = negb (is_core x) && negb (mem_bytes x fc)).
  { intros x. unfold P, pre, is_core. rewrite mem_bytes_app, negb_orb. reflexivity. }
  apply short_lists_equal.
  - apply NoDup_filter, N1.
  - apply NoDup_filter, N2.
  - intros x. rewrite !filter_In. split; intros [Hin Hp]; (split; [apply Hsame, Hin|exact Hp]).
  - rewrite (filter_ext P (fun f => negb (is_core f) && negb (mem_bytes f fc)) HP). exact Hlen.
Qed.


(** * WHERE + RETURN: the loaded columns are core, then the WHERE columns [fc], then the remaining RETURN fields,
    so a filtered field listed in RETURN after another field sits at a DIFFERENT position in the input than in
    the output.  For every WHERE column set and every RETURN order, in the segment flow and in the memtable flow,
    the value under name n is the stored value of field n. *)
Theorem where_return_exact : forall (A : Type) (d : A) fc ret fields o1 o2 (ev : bytes -> A),
  (forall name val,
     In (name, val) (flow_row d (selection_columns_ret fc ret fields o1) (selection_columns_ret fc ret fields o1)
                              (Some ret) fields ev) -> val = ev name) /\
  (forall name val, In (name, val) (memtable_flow_row d fc ret fields o1 o2 ev) -> val = ev name).
Proof.
  intros A d fc ret fields o1 o2 ev. split.
  - intros name val H. apply (proj1 (projection_exact A d _ (Some ret) fields ev) name val H).
  - apply (proj1 (memtable_flow_exact A d fc ret fields o1 o2 ev)).
Qed.

(** QUERY t WHERE b = 2 RETURN [a, b]: b is loaded before a, returned after it *)
Example where_return_example :
  selection_columns_ret [f_b] [f_a; f_b] [f_a; f_b] [] =
    [nth 0 core_fields []; nth 1 core_fields []; nth 2 core_fields []; nth 3 core_fields []; f_b; f_a] /\
  memtable_flow_row 0%Z [f_b] [f_a; f_b] [f_a; f_b] [] [] ev_ab
  = [(nth 0 core_fields [], 0%Z); (nth 1 core_fields [], 0%Z); (nth 2 core_fields [], 0%Z); (nth 3 core_fields [], 0%Z);
     (f_a, 1%Z); (f_b, 2%Z)].
Proof. split; vm_compute; reflexivity. Qed.
