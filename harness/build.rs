// Generates the probe registry from the files in src/probes/*.rs (each exposes
// `pub const PREFIX: &str` and `pub fn run(t: &[String]) -> String`).
use std::{env, fs, path::Path};
fn main() {
    let dir = Path::new(&env::var("CARGO_MANIFEST_DIR").unwrap()).join("src/probes");
    let mut names: Vec<String> = fs::read_dir(&dir).unwrap()
        .filter_map(|e| e.ok())
        .map(|e| e.file_name().to_string_lossy().to_string())
        .filter(|n| n.ends_with(".rs") && n != "mod.rs")
        .map(|n| n.trim_end_matches(".rs").to_string())
        .collect();
    names.sort();
    let mut s = String::new();
    for n in &names {
        s += &format!("#[path = \"{}/{}.rs\"] pub mod {};\n", dir.display(), n, n);
    }
    s += "pub fn dispatch_gen(t: &[String]) -> Option<String> {\n";
    for n in &names {
        s += &format!("    if t[0].starts_with({}::PREFIX) {{ return Some({}::run(t)); }}\n", n, n);
    }
    s += "    None\n}\n";
    fs::write(Path::new(&env::var("OUT_DIR").unwrap()).join("probes_gen.rs"), s).unwrap();
    println!("cargo:rerun-if-changed=src/probes");
    println!("cargo:rustc-check-cfg=cfg(sneldb_verif)");
}
