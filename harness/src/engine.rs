//! `vharn life`: one process lifetime of the real engine, built exactly as
//! `FrontendContext::from_config()` builds it (config from $SNELDB_CONFIG).
//! Reads one line per request from stdin and answers with ONE JSON line per request.
//!
//! Plain lines are sneldb commands (parse_command + dispatch_command, JSON renderer).
//! Lines starting with `!` are harness controls:
//!   !compact <shard>         run one compaction round (hook compact_now), then wait for reclaim
//!   !arm_abort <name> <n>    abort() the process at the n-th hit of step point <name>
//!   !park <name> / !release <name>
//!   !bg <command>            run the command on a background task (answer later via !join)
//!   !join                    await the background command and return its output
//!   !rlte <QUERY ...>        the zones the ORDER BY pre-selection (RLTE planner) picks for that query
//!   !blast <n> <base> <cmd>  n concurrent commands ({i} replaced by base..), answers grouped by status
//!   !bgcdone                 whether the background compaction round (see !bgcompact) has finished
//!   !wait_parked <name> <ms> wait until some task is parked at <name>
//!   !trace                   take the step-point trace
//!   !hits <name>
//!   !wal_drained <ms>        wait until every WAL entry sent has been written
//!   !clock_ms <advance:0|1> r1 r2 …   scripted event-id clock
//!   !now <secs>              fixed wall-clock second (0 = real clock)
//!   !user <id|->             user id passed to dispatch (default "bypass")
//!   !auth <0|1>              pass the AuthManager to dispatch (default 0)
//!   !sleep <ms>
//!   !flushwait               ShardManager::wait_for_flush_completion
//!   !failwrite <bytes>       the response writer of the NEXT command fails with BrokenPipe after <bytes> bytes
//!   !exit                    clean exit without shutdown sequence
use serde_json::json;
use snel_db::command::dispatcher::dispatch_command;
use snel_db::command::parser::command::parse_command;
use snel_db::frontend::context::FrontendContext;
use snel_db::shared::response::json::JsonRenderer;
use std::io::{BufRead, Write};
use std::sync::Arc;

/// A response writer that can be armed to fail (client hung up) after a number of bytes.
struct FailWriter { buf: Vec<u8>, fail_after: Option<usize> }
impl tokio::io::AsyncWrite for FailWriter {
    fn poll_write(mut self: std::pin::Pin<&mut Self>, _cx: &mut std::task::Context<'_>, data: &[u8]) -> std::task::Poll<std::io::Result<usize>> {
        if let Some(n) = self.fail_after {
            if self.buf.len() + data.len() > n {
                return std::task::Poll::Ready(Err(std::io::Error::new(std::io::ErrorKind::BrokenPipe, "verif: client hung up")));
            }
        }
        self.buf.extend_from_slice(data);
        std::task::Poll::Ready(Ok(data.len()))
    }
    fn poll_flush(self: std::pin::Pin<&mut Self>, _cx: &mut std::task::Context<'_>) -> std::task::Poll<std::io::Result<()>> { std::task::Poll::Ready(Ok(())) }
    fn poll_shutdown(self: std::pin::Pin<&mut Self>, _cx: &mut std::task::Context<'_>) -> std::task::Poll<std::io::Result<()>> { std::task::Poll::Ready(Ok(())) }
}

static FAIL_NEXT: std::sync::atomic::AtomicI64 = std::sync::atomic::AtomicI64::new(-1);

async fn run_command(ctx: &Arc<FrontendContext>, line: &str, user: Option<String>, auth: bool) -> serde_json::Value {
    let cmd = match std::panic::catch_unwind(|| parse_command(line)) {
        Ok(Ok(c)) => c,
        Ok(Err(e)) => return json!({"parse_error": format!("{e:?}")}),
        Err(_) => return json!({"panic": "parse"}),
    };
    let fa = FAIL_NEXT.swap(-1, std::sync::atomic::Ordering::SeqCst);
    let mut out = FailWriter { buf: Vec::new(), fail_after: if fa >= 0 { Some(fa as usize) } else { None } };
    let am = if auth { ctx.auth_manager.as_ref() } else { None };
    let ctx2 = Arc::clone(ctx);
    let res = {
        let fut = dispatch_command(&cmd, &mut out, &ctx2.shard_manager, &ctx2.registry, am, user.as_deref(), &JsonRenderer);
        match tokio::time::timeout(std::time::Duration::from_secs(15), futures_catch(fut)).await {
            Ok(Ok(Ok(()))) => None,
            Ok(Ok(Err(e))) => Some(format!("io:{e}")),
            Ok(Err(_)) => Some("PANIC".to_string()),
            Err(_) => Some("TIMEOUT".to_string()),
        }
    };
    let text = String::from_utf8_lossy(&out.buf).to_string();
    match res {
        None => json!({"out": text}),
        Some(e) => json!({"out": text, "error": e}),
    }
}

async fn futures_catch<F: std::future::Future>(f: F) -> Result<F::Output, ()> {
    use futures::FutureExt;
    std::panic::AssertUnwindSafe(f).catch_unwind().await.map_err(|_| ())
}

pub fn run_life() {
    let rt = tokio::runtime::Builder::new_multi_thread().worker_threads(6).enable_all().build().unwrap();
    rt.block_on(async {
        let ctx = FrontendContext::from_config().await;
        let stdin = std::io::stdin();
        let mut user: Option<String> = Some("bypass".to_string());
        let mut auth = false;
        let mut bg: Option<tokio::task::JoinHandle<serde_json::Value>> = None;
        #[allow(unused_mut, unused_variables)]
        let mut bgc: Option<tokio::task::JoinHandle<Result<usize, String>>> = None;
        println!("{}", json!({"ready": true}));
        std::io::stdout().flush().unwrap();
        for line in stdin.lock().lines() {
            let line = match line { Ok(l) => l, Err(_) => break };
            let line = line.trim_end_matches(['\r', '\n']).to_string();
            if line.is_empty() { continue; }
            let resp: serde_json::Value = if let Some(rest) = line.strip_prefix('!') {
                let t: Vec<&str> = rest.split_whitespace().collect();
                match t.first().copied().unwrap_or("") {
                    "compact" => {
                        let shard: u32 = t.get(1).and_then(|s| s.parse().ok()).unwrap_or(0);
                        #[cfg(sneldb_verif)]
                        {
                            let before = snel_db::verif_hooks::hits("cp_reclaim_deleted");
                            let r = snel_db::engine::compactor::background::verif::compact_now(shard).await;
                            // reclaim runs on a spawned task: wait until it reported (or 2 s)
                            let mut waited = 0;
                            if let Ok(n) = &r { if *n > 0 {
                                while snel_db::verif_hooks::hits("cp_reclaim_deleted") == before && waited < 40 {
                                    tokio::time::sleep(std::time::Duration::from_millis(25)).await; waited += 1;
                                }
                            } }
                            match r { Ok(n) => json!({"plans": n}), Err(e) => json!({"error": e}) }
                        }
                        #[cfg(not(sneldb_verif))]
                        { let _ = shard; json!({"error": "hooks off"}) }
                    }
                    #[cfg(sneldb_verif)]
                    "arm_abort" => { snel_db::verif_hooks::arm_abort(t[1], t[2].parse().unwrap()); json!({"ok": true}) }
                    #[cfg(sneldb_verif)]
                    "park" => { snel_db::verif_hooks::park(t[1]); json!({"ok": true}) }
                    #[cfg(sneldb_verif)]
                    "release" => { snel_db::verif_hooks::release(t[1]); json!({"ok": true}) }
                    #[cfg(sneldb_verif)]
                    "trace" => json!({"trace": snel_db::verif_hooks::take_trace()}),
                    #[cfg(sneldb_verif)]
                    "hits" => json!({"hits": snel_db::verif_hooks::hits(t[1])}),
                    #[cfg(sneldb_verif)]
                    "wait_parked" => {
                        let ms: u64 = t.get(2).and_then(|s| s.parse().ok()).unwrap_or(2000);
                        let mut ok = false; let mut w = 0;
                        while w < ms { if snel_db::verif_hooks::is_parked_at(t[1]) { ok = true; break; }
                            tokio::time::sleep(std::time::Duration::from_millis(5)).await; w += 5; }
                        json!({"parked": ok})
                    }
                    #[cfg(sneldb_verif)]
                    "wal_drained" => {
                        let ms: u64 = t.get(1).and_then(|s| s.parse().ok()).unwrap_or(2000);
                        let mut w = 0; let mut ok = false;
                        while w < ms {
                            if snel_db::verif_hooks::hits("wal_written") >= snel_db::verif_hooks::hits("st_wal_sent") { ok = true; break; }
                            tokio::time::sleep(std::time::Duration::from_millis(2)).await; w += 2; }
                        json!({"drained": ok})
                    }
                    #[cfg(sneldb_verif)]
                    "clock_ms" => {
                        let adv = t.get(1).map(|s| *s == "1").unwrap_or(false);
                        let rs: Vec<u64> = t.iter().skip(2).filter_map(|s| s.parse().ok()).collect();
                        snel_db::verif_hooks::set_clock_script_ms(rs, adv); json!({"ok": true})
                    }
                    #[cfg(sneldb_verif)]
                    "now" => { snel_db::verif_hooks::set_now_secs(t[1].parse().unwrap()); json!({"ok": true}) }
                    "uid" => {
                        let reg = ctx.registry.read().await;
                        match reg.get_uid(t[1]) { Some(u) => json!({"uid": u}), None => json!({"uid": null}) }
                    }
                    "index" => {
                        // decoded segments.idx of a shard: "id:uid,uid;…" (sorted); uids are mapped by the harness
                        let shard: usize = t.get(1).and_then(|s| s.parse().ok()).unwrap_or(0);
                        let dir = std::path::PathBuf::from(&snel_db::shared::config::CONFIG.engine.data_dir).join(format!("shard-{shard}"));
                        match snel_db::engine::core::SegmentIndex::load(&dir).await {
                            Ok(ix) => {
                                let mut es: Vec<(u32, Vec<String>)> = ix.iter_all().map(|e| { let mut u = e.uids.clone(); u.sort(); (e.id, u) }).collect();
                                es.sort();
                                json!({"index": es.iter().map(|(i, u)| format!("{}:{}", i, u.join(","))).collect::<Vec<_>>()})
                            }
                            Err(e) => json!({"error": e.to_string()}),
                        }
                    }
                    #[cfg(sneldb_verif)]
                    "bgcompact" => {
                        let shard: u32 = t.get(1).and_then(|s| s.parse().ok()).unwrap_or(0);
                        bgc = Some(tokio::spawn(async move { snel_db::engine::compactor::background::verif::compact_now(shard).await }));
                        json!({"ok": true})
                    }
                    #[cfg(sneldb_verif)]
                    "joincompact" => match bgc.take() {
                        Some(h) => match tokio::time::timeout(std::time::Duration::from_secs(30), h).await {
                            Ok(Ok(Ok(n))) => json!({"plans": n}), Ok(Ok(Err(e))) => json!({"error": e}),
                            Ok(Err(_)) => json!({"panic": "compact"}), Err(_) => json!({"error": "TIMEOUT"}) },
                        None => json!({"error": "no bg compaction"}),
                    },
                    "rlte" => {
                        // what the ORDER BY zone pre-selection (RLTE planner) picks for a query: per shard the picked
                        // (segment, zone) pairs and the number of zones of each live segment that carry the order field
                        let line = rest[5..].trim();
                        match std::panic::catch_unwind(|| parse_command(line)) {
                            Ok(Ok(cmd)) => {
                                use snel_db::command::handlers::segment_discovery::SegmentDiscovery;
                                use snel_db::command::handlers::rlte_coordinator::RlteCoordinator;
                                let info: Vec<(usize, std::path::PathBuf)> = ctx.shard_manager.all_shards().iter().map(|s| (s.id, s.base_dir.clone())).collect();
                                let data = SegmentDiscovery::discover_all(info).await;
                                let bases = SegmentDiscovery::extract_base_dirs(&data);
                                let segs = SegmentDiscovery::extract_segment_map(&data);
                                match RlteCoordinator::plan(&cmd, ctx.registry.clone(), &bases, &segs).await {
                                    Some(o) => {
                                        let mut m = serde_json::Map::new();
                                        for (sh, pz) in o.per_shard.iter() {
                                            m.insert(sh.to_string(), json!({"k": pz.k, "cutoff": pz.cutoff, "zones": pz.zones.iter().map(|(s, z)| format!("{s}:{z}")).collect::<Vec<_>>()}));
                                        }
                                        json!({"plan": m, "segments": segs.iter().map(|(k, v)| (k.to_string(), v.clone())).collect::<std::collections::HashMap<_, _>>()})
                                    }
                                    None => json!({"plan": null}),
                                }
                            }
                            _ => json!({"error": "parse"}),
                        }
                    }
                    "blast" => {
                        // !blast <n> <base> <command with {i}>: n concurrent commands ({i} = base .. base+n-1), each on
                        // its own task (as many connections would issue them); answers grouped by status
                        let n: usize = t.get(1).and_then(|s| s.parse().ok()).unwrap_or(0);
                        let base: usize = t.get(2).and_then(|s| s.parse().ok()).unwrap_or(0);
                        let tmpl = rest.splitn(4, ' ').nth(3).unwrap_or("").to_string();
                        let mut hs = Vec::with_capacity(n);
                        for i in 0..n {
                            let c2 = Arc::clone(&ctx); let u = user.clone();
                            let line = tmpl.replace("{i}", &(base + i).to_string());
                            hs.push(tokio::spawn(async move { run_command(&c2, &line, u, auth).await }));
                        }
                        let (mut ok, mut busy, mut other) = (Vec::new(), Vec::new(), Vec::new());
                        for (i, h) in hs.into_iter().enumerate() {
                            let v = h.await.unwrap_or(json!({"panic": "task"}));
                            let out = v.get("out").and_then(|x| x.as_str()).unwrap_or("");
                            if v.get("error").is_none() && out.contains("\"status\":200") { ok.push(base + i) }
                            else if out.contains("\"status\":503") { busy.push(base + i) }
                            else { other.push(base + i) }
                        }
                        json!({"ok": ok, "busy": busy, "other": other})
                    }
                    "bgcdone" => json!({"done": bgc.as_ref().map(|h| h.is_finished()).unwrap_or(true)}),
                    "failwrite" => { FAIL_NEXT.store(t.get(1).and_then(|s| s.parse().ok()).unwrap_or(0), std::sync::atomic::Ordering::SeqCst); json!({"ok": true}) }
                    "user" => { user = if t.get(1).copied() == Some("-") || t.len() < 2 { None } else { Some(t[1].to_string()) }; json!({"ok": true}) }
                    "auth" => { auth = t.get(1).copied() == Some("1"); json!({"ok": true}) }
                    "sleep" => { tokio::time::sleep(std::time::Duration::from_millis(t[1].parse().unwrap())).await; json!({"ok": true}) }
                    "flushwait" => { let e = ctx.shard_manager.wait_for_flush_completion().await; json!({"errors": format!("{e:?}")}) }
                    "bg" => {
                        let cmdline = rest[2..].trim().to_string();
                        let c2 = Arc::clone(&ctx); let u = user.clone();
                        bg = Some(tokio::spawn(async move { run_command(&c2, &cmdline, u, auth).await }));
                        json!({"ok": true})
                    }
                    "join" => match bg.take() {
                        Some(h) => match tokio::time::timeout(std::time::Duration::from_secs(30), h).await {
                            Ok(Ok(v)) => v, Ok(Err(_)) => json!({"panic": "bg"}), Err(_) => json!({"error": "TIMEOUT"}) },
                        None => json!({"error": "no bg"}),
                    },
                    "exit" => { println!("{}", json!({"bye": true})); std::io::stdout().flush().unwrap(); std::process::exit(0); }
                    other => json!({"error": format!("unknown control {other}")}),
                }
            } else {
                run_command(&ctx, &line, user.clone(), auth).await
            };
            println!("{}", resp);
            std::io::stdout().flush().unwrap();
        }
        std::process::exit(0);
    });
}
