// C13, second probe: the TCP/WebSocket gate `check_auth` called DIRECTLY through the hook
// `snel_db::frontend::tcp::listener::verif::Gate` (hooks/C13-check-auth.diff).
//
// This file is not compiled as long as it carries the `.after-hook` suffix: without the hook in
// /repo it cannot compile.  Once the hook is applied, rename it to `authgate.rs` (build.rs picks
// it up) and run the check with VERIF_C13_HOOK=1: tools/props/c13.py then repeats every TCP gate
// line as
//     authg_line <conn> <desc> <exp> <line>   ->  AUTHFAIL | TOKEN <uid> | D <text> <uid>
// i.e. the exact (command text, user id) pair the gate hands to the parser, which the loopback
// probe `auth_tcp` can observe only through the response class.  Model side: ocaml/p_auth.ml.
// It shares the engine context (and the token slots) of probes/auth.rs.
use super::auth::{g, text};
use crate::probes::hexs;
use snel_db::frontend::tcp::listener::verif::Gate;
use std::collections::HashMap;
use std::sync::{Mutex, OnceLock};

pub const PREFIX: &str = "authg_";

static GATES: OnceLock<Mutex<HashMap<String, Gate>>> = OnceLock::new();

pub fn run(t: &[String]) -> String {
    match t[0].as_str() {
        "authg_line" => {
            let gl = g();
            let line = text(&t[4]);
            let mut gates = GATES.get_or_init(|| Mutex::new(HashMap::new())).lock().unwrap();
            let gate = gates
                .entry(t[1].clone())
                .or_insert_with(|| Gate::new(gl.ctx.auth_manager.clone(), "127.0.0.1".to_string()));
            match gl.rt.block_on(gate.check(&line)) {
                None => "AUTHFAIL".into(),
                Some((_, user, Some(tok))) => {
                    gl.slots.lock().unwrap().insert(format!("gate:{}", t[1]), tok);
                    format!("TOKEN {}", hexs(user.unwrap_or_default().as_bytes()))
                }
                Some((cmd, user, None)) => {
                    format!("D {} {}", hexs(cmd.as_bytes()), hexs(user.unwrap_or_default().as_bytes()))
                }
            }
        }
        _ => "UNKNOWN_PROBE".into(),
    }
}
