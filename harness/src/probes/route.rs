//! C12 probes: the routing hash of `ShardManager::get_shard`.
//!
//! `get_shard` needs no running shard: `ShardManager { shards }` and `Shard { id, tx, base_dir }`
//! have public fields, so the probe builds a manager over `n` inert shards (one dummy channel)
//! and calls the REAL `get_shard`.  `route_hash` additionally hashes with
//! `std::collections::hash_map::DefaultHasher` exactly as the body of `get_shard` does, to expose
//! the full 64-bit value.
use crate::probes::unhex;
use std::collections::hash_map::DefaultHasher;
use std::hash::{Hash, Hasher};
use std::path::PathBuf;

use snel_db::engine::shard::manager::ShardManager;
use snel_db::engine::shard::message::ShardMessage;
use snel_db::engine::shard::types::Shard;

pub const PREFIX: &str = "route_";

fn manager(n: usize) -> ShardManager {
    let (tx, _rx) = tokio::sync::mpsc::channel::<ShardMessage>(1);
    let shards = (0..n)
        .map(|id| Shard { id, tx: tx.clone(), base_dir: PathBuf::from(format!("/nonexistent/shard-{id}")) })
        .collect();
    ShardManager { shards }
}

pub fn run(t: &[String]) -> String {
    match t[0].as_str() {
        // route_get <n> <hex ctx>: the id of the shard the real get_shard picks among n shards
        "route_get" => {
            let n: usize = t[1].parse().unwrap();
            let s = match String::from_utf8(unhex(&t[2])) { Ok(s) => s, Err(_) => return "BADUTF8".into() };
            let m = manager(n);
            let sh = m.get_shard(&s);
            format!("R {}", sh.id)
        }
        // route_many <hex ctx> <n1> <n2> ...: get_shard for several shard counts
        "route_many" => {
            let s = match String::from_utf8(unhex(&t[1])) { Ok(s) => s, Err(_) => return "BADUTF8".into() };
            let mut out = Vec::new();
            for n in &t[2..] {
                let n: usize = n.parse().unwrap();
                let m = manager(n);
                out.push(m.get_shard(&s).id.to_string());
            }
            format!("R {}", out.join(" "))
        }
        // route_hash <hex ctx>: DefaultHasher::new(); ctx.hash(&mut h); h.finish()
        "route_hash" => {
            let s = match String::from_utf8(unhex(&t[1])) { Ok(s) => s, Err(_) => return "BADUTF8".into() };
            let mut hasher = DefaultHasher::new();
            s.as_str().hash(&mut hasher);
            format!("H {}", hasher.finish())
        }
        _ => "UNKNOWN_PROBE".into(),
    }
}
