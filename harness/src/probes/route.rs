//! C12 probes: the routing hash of `ShardManager::get_shard`.
//!
//! `get_shard` needs no running shard: `ShardManager { shards }` and `Shard { id, tx, base_dir }`
//! have public fields, so the probe builds a manager over `n` inert shards (one dummy channel)
//! and calls the REAL `get_shard`.  `route_hash` additionally hashes with
//! `std::collections::hash_map::DefaultHasher` exactly as the body of `get_shard` does, to expose
//! the full 64-bit value.
use crate::probes::unhex;
use std::collections::hash_map::DefaultHasher;
use std::hash::{Hash, Hasher};
use std::path::PathBuf;

use snel_db::engine::shard::manager::ShardManager;
use snel_db::engine::shard::message::ShardMessage;
use snel_db::engine::shard::types::Shard;

pub const PREFIX: &str = "route_";

fn manager(n: usize) -> ShardManager {
    let (tx, _rx) = tokio::sync::mpsc::channel::<ShardMessage>(1);
    let shards = (0..n)
        .map(|id| Shard { id, tx: tx.clone(), base_dir: PathBuf::from(format!("/nonexistent/shard-{id}")) })
        .collect();
    ShardManager { shards }
}

pub fn run(t: &[String]) -> String {
    match t[0].as_str() {
        // route_get <n> <hex ctx>: the id of the shard the real get_shard picks among n shards
        "route_get" => {
            let n: usize = t[1].parse().unwrap();
            let s = match String::from_utf8(unhex(&t[2])) { Ok(s) => s, Err(_) => return "BADUTF8".into() };
            let m = manager(n);
            let sh = m.get_shard(&s);
            format!("R {}", sh.id)
        }
        // route_many <hex ctx> <n1> <n2> ...: get_shard for several shard counts
        "route_many" => {
            let s = match String::from_utf8(unhex(&t[1])) { Ok(s) => s, Err(_) => return "BADUTF8".into() };
            let mut out = Vec::new();
            for n in &t[2..] {
                let n: usize = n.parse().unwrap();
                let m = manager(n);
                out.push(m.get_shard(&s).id.to_string());
            }
            format!("R {}", out.join(" "))
        }
        // route_hash <hex ctx>: DefaultHasher::new(); ctx.hash(&mut h); h.finish()
        "route_hash" => {
            let s = match String::from_utf8(unhex(&t[1])) { Ok(s) => s, Err(_) => return "BADUTF8".into() };
            let mut hasher = DefaultHasher::new();
            s.as_str().hash(&mut hasher);
            format!("H {}", hasher.finish())
        }
        // route_engine <n> <hexctx,hexctx,...> [/ <hexctx,...>]...
        // Real ShardManager::new over temp directories, one lifetime per "/"-separated group: each
        // context gets a STORE message sent to get_shard(ctx) exactly as the STORE handler does, then
        // the manager is shut down and a new one is started on the same directories (WAL recovery).
        // Observation: the per-shard WAL directories after the last lifetime - for every context the
        // set of shard directories it occurs in, the set of shard tags in its event ids, its count.
        "route_engine" => {
            crate::probes::eventid::ensure_config();
            let n: usize = t[1].parse().unwrap();
            let groups: Vec<Vec<String>> = t[2..].split(|x| x == "/")
                .map(|g| g.iter().flat_map(|tok| tok.split(',')).filter(|x| !x.is_empty())
                    .map(|h| String::from_utf8(unhex(h)).expect("utf8")).collect())
                .collect();
            let tmp = tempfile::tempdir().unwrap();
            let base = tmp.path().join("cols");
            let wal = tmp.path().join("wal");
            let mut total = 0usize;
            for g in &groups {
                let rt = tokio::runtime::Builder::new_multi_thread().worker_threads(2).enable_all().build().unwrap();
                let ok = rt.block_on(async {
                    let reg = snel_db::engine::schema::SchemaRegistry::new_with_path(tmp.path().join("schemas.bin")).expect("registry");
                    let registry = std::sync::Arc::new(tokio::sync::RwLock::new(reg));
                    let mgr = ShardManager::new(n, base.clone(), wal.clone()).await;
                    for (i, ctx) in g.iter().enumerate() {
                        let ev: snel_db::engine::core::Event = serde_json::from_value(serde_json::json!({
                            "event_type": "t", "context_id": ctx, "timestamp": 1000 + i as u64, "payload": {}
                        })).expect("event");
                        let shard = mgr.get_shard(ctx);
                        if shard.tx.send(ShardMessage::Store(ev, std::sync::Arc::clone(&registry))).await.is_err() { return false; }
                    }
                    total += g.len();
                    let errs = mgr.shutdown_all().await;
                    if !errs.is_empty() { return false; }
                    for _ in 0..3000 {
                        if wal_lines(&wal, n).iter().map(|v| v.len()).sum::<usize>() >= total { break; }
                        tokio::time::sleep(std::time::Duration::from_millis(10)).await;
                    }
                    true
                });
                drop(rt);
                if !ok { return "ENGINE_ERROR".into(); }
            }
            // per context: shard dirs, tags, count
            let mut seen: std::collections::BTreeMap<String, (std::collections::BTreeSet<usize>, std::collections::BTreeSet<u64>, usize)> = Default::default();
            for (sid, lines) in wal_lines(&wal, n).iter().enumerate() {
                for l in lines {
                    let v: serde_json::Value = match serde_json::from_str(l) { Ok(v) => v, Err(_) => return "BAD_WAL_LINE".into() };
                    let ctx = v["context_id"].as_str().unwrap_or("").to_string();
                    let id = v["event_id"].as_u64().unwrap_or(0);
                    let e = seen.entry(ctx).or_default();
                    e.0.insert(sid);
                    e.1.insert((id >> 12) & 1023);
                    e.2 += 1;
                }
            }
            let mut out = Vec::new();
            for (ctx, (dirs, tags, cnt)) in seen {
                let d: Vec<String> = dirs.iter().map(|x| x.to_string()).collect();
                let g: Vec<String> = tags.iter().map(|x| x.to_string()).collect();
                out.push(format!("{}={}/{}/{}", crate::probes::hexs(ctx.as_bytes()), d.join("+"), g.join("+"), cnt));
            }
            format!("E {}", if out.is_empty() { "-".to_string() } else { out.join(" ") })
        }
        // route_burst <n> <millis> <count> <hexctx> [<hexctx>...]
        // Real ShardManager::new over temp directories with the event-id clock scripted to read <millis>
        // for the next count+64 calls (then advancing): <count> STORE messages per context, all sent to
        // get_shard(ctx) as the STORE handler does - more ids than one millisecond has sequence numbers
        // when count > 4096.  Observation as for route_engine: per context the shard directories, the shard
        // tags found in its ids, the count, and whether its ids are pairwise distinct.
        "route_burst" => {
            crate::probes::eventid::ensure_config();
            let n: usize = t[1].parse().unwrap();
            let millis: u64 = t[2].parse().unwrap();
            let count: usize = t[3].parse().unwrap();
            let ctxs: Vec<String> = t[4..].iter().map(|h| String::from_utf8(unhex(h)).expect("utf8")).collect();
            let tmp = tempfile::tempdir().unwrap();
            let base = tmp.path().join("cols");
            let wal = tmp.path().join("wal");
            let total = count * ctxs.len();
            #[cfg(sneldb_verif)]
            snel_db::verif_hooks::set_clock_script_ms(vec![millis; total + 64], true);
            let rt = tokio::runtime::Builder::new_multi_thread().worker_threads(2).enable_all().build().unwrap();
            let ok = rt.block_on(async {
                let reg = snel_db::engine::schema::SchemaRegistry::new_with_path(tmp.path().join("schemas.bin")).expect("registry");
                let registry = std::sync::Arc::new(tokio::sync::RwLock::new(reg));
                let mgr = ShardManager::new(n, base.clone(), wal.clone()).await;
                for i in 0..count {
                    for ctx in &ctxs {
                        let ev: snel_db::engine::core::Event = serde_json::from_value(serde_json::json!({
                            "event_type": "t", "context_id": ctx, "timestamp": 1000 + i as u64, "payload": {}
                        })).expect("event");
                        let shard = mgr.get_shard(ctx);
                        if shard.tx.send(ShardMessage::Store(ev, std::sync::Arc::clone(&registry))).await.is_err() { return false; }
                    }
                }
                // the Shutdown message queues behind the STOREs of each shard; the WAL is flushed and closed then
                let errs = mgr.shutdown_all().await;
                if !errs.is_empty() { return false; }
                for _ in 0..3000 {
                    if wal_lines(&wal, n).iter().map(|v| v.len()).sum::<usize>() >= total { break; }
                    tokio::time::sleep(std::time::Duration::from_millis(10)).await;
                }
                true
            });
            drop(rt);
            #[cfg(sneldb_verif)]
            snel_db::verif_hooks::set_clock_script_ms(vec![], false);
            if !ok { return "ENGINE_ERROR".into(); }
            let mut seen: std::collections::BTreeMap<String, (std::collections::BTreeSet<usize>, std::collections::BTreeSet<u64>, usize, std::collections::BTreeSet<u64>)> = Default::default();
            for (sid, lines) in wal_lines(&wal, n).iter().enumerate() {
                for l in lines {
                    let v: serde_json::Value = match serde_json::from_str(l) { Ok(v) => v, Err(_) => return "BAD_WAL_LINE".into() };
                    let ctx = v["context_id"].as_str().unwrap_or("").to_string();
                    let id = v["event_id"].as_u64().unwrap_or(0);
                    let e = seen.entry(ctx).or_default();
                    e.0.insert(sid);
                    e.1.insert((id >> 12) & 1023);
                    e.2 += 1;
                    e.3.insert(id);
                }
            }
            let mut out = Vec::new();
            for (ctx, (dirs, tags, cnt, ids)) in seen {
                let d: Vec<String> = dirs.iter().map(|x| x.to_string()).collect();
                let g: Vec<String> = tags.iter().map(|x| x.to_string()).collect();
                out.push(format!("{}={}/{}/{}/{}", crate::probes::hexs(ctx.as_bytes()), d.join("+"), g.join("+"), cnt, if ids.len() == cnt { "distinct" } else { "dup" }));
            }
            format!("B {}", if out.is_empty() { "-".to_string() } else { out.join(" ") })
        }
        _ => "UNKNOWN_PROBE".into(),
    }
}

/// Lines of all wal-*.log files of each shard directory (sorted by file name).
fn wal_lines(wal: &std::path::Path, n: usize) -> Vec<Vec<String>> {
    (0..n).map(|sid| {
        let dir = wal.join(format!("shard-{sid}"));
        let mut files: Vec<PathBuf> = std::fs::read_dir(&dir).map(|rd| rd.flatten().map(|e| e.path())
            .filter(|p| p.extension().map(|x| x == "log").unwrap_or(false)).collect()).unwrap_or_default();
        files.sort();
        let mut lines = Vec::new();
        for f in files {
            if let Ok(s) = std::fs::read_to_string(&f) { lines.extend(s.lines().map(|x| x.to_string())); }
        }
        lines
    }).collect()
}
