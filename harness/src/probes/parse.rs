// C17 probes: the real `parse_command` (and, engine level, `dispatch_command`).
//
//   parse_cmd <hex>        parse; inputs the probe judges risky (deep nesting, long) run in a child
//                          process (`vharn fn` + `parse_raw`) on a thread with tokio's default worker
//                          stack (2 MiB) under a wall-clock limit, so that a stack overflow is reported
//                          as ABORT and a non-terminating parse as TIMEOUT instead of killing the run.
//   parse_cmdt <ms> <hex>  the same, always in a child, with a per-case time budget (TIMEOUT beyond it): the
//                          step criterion for inputs on which the grammar used to take exponential time.
//   parse_raw <hex>        parse on a 2 MiB thread in this process (used by the child).
//   parse_json <hex>       HTTP JSON command: serde_json -> JsonCommand -> Command.
//   parse_disp <hex>       parse, then dispatch_command on an in-process engine (one per process,
//                          temp dirs); prints RESP when a response was written.
//
// Canonical rendering of a Command: see `canon` (strings hex-encoded, floats as bit patterns).
use crate::probes::{hexs, unhex};
use snel_db::command::parser::command::parse_command;
use snel_db::command::types::{AggSpec, Command, CompareOp, Expr, FieldSpec, SequenceLink, TimeGranularity};
use std::io::{Read, Write};
use std::process::{Command as Proc, Stdio};
use std::time::{Duration, Instant};

pub const PREFIX: &str = "parse_";

fn hs(s: &str) -> String { hexs(s.as_bytes()) }
fn ho(o: &Option<String>) -> String { match o { None => "~".into(), Some(s) => hs(s) } }
fn hl(l: &[String]) -> String { format!("[{}]", l.iter().map(|s| hs(s)).collect::<Vec<_>>().join(",")) }
fn hol(o: &Option<Vec<String>>) -> String { match o { None => "~".into(), Some(l) => hl(l) } }

fn val(v: &serde_json::Value) -> String {
    use serde_json::Value::*;
    match v {
        String(s) => format!("s{}", hs(s)),
        Bool(b) => if *b { "bT".into() } else { "bF".into() },
        Number(n) => {
            if let Some(i) = n.as_i64() { format!("i{}", i) }
            else if let Some(u) = n.as_u64() { format!("i{}", u) }
            else { format!("F{:016x}", n.as_f64().unwrap_or(f64::NAN).to_bits()) }
        }
        Null => "jnull".into(),
        Array(_) => "jarr".into(),
        Object(_) => "jobj".into(),
    }
}
fn op(o: &CompareOp) -> &'static str {
    match o { CompareOp::Eq => "eq", CompareOp::Neq => "neq", CompareOp::Gt => "gt", CompareOp::Gte => "gte",
              CompareOp::Lt => "lt", CompareOp::Lte => "lte", CompareOp::In => "in" }
}
// Iterative rendering is not needed: an Expr that parsed without overflowing the stack is shallow
// enough to be rendered on the same stack.
fn expr(e: &Expr, out: &mut String) {
    match e {
        Expr::Compare { field, op: o, value } => { out.push_str(&format!("C({},{},{})", hs(field), op(o), val(value))); }
        Expr::In { field, values } => {
            out.push_str(&format!("I({}", hs(field)));
            for v in values { out.push(';'); out.push_str(&val(v)); }
            out.push(')');
        }
        Expr::And(a, b) => { out.push_str("A("); expr(a, out); out.push(','); expr(b, out); out.push(')'); }
        Expr::Or(a, b) => { out.push_str("O("); expr(a, out); out.push(','); expr(b, out); out.push(')'); }
        Expr::Not(a) => { out.push_str("N("); expr(a, out); out.push(')'); }
    }
}
fn agg(a: &AggSpec) -> String {
    match a {
        AggSpec::Count { unique_field: None } => "count".into(),
        AggSpec::Count { unique_field: Some(f) } => format!("countu:{}", hs(f)),
        AggSpec::CountField { field } => format!("countf:{}", hs(field)),
        AggSpec::Total { field } => format!("total:{}", hs(field)),
        AggSpec::Avg { field } => format!("avg:{}", hs(field)),
        AggSpec::Min { field } => format!("min:{}", hs(field)),
        AggSpec::Max { field } => format!("max:{}", hs(field)),
    }
}
fn gran(g: &TimeGranularity) -> &'static str {
    match g { TimeGranularity::Hour => "hour", TimeGranularity::Day => "day", TimeGranularity::Week => "week",
              TimeGranularity::Month => "month", TimeGranularity::Year => "year" }
}

pub fn canon(c: &Command) -> String {
    match c {
        Command::Query { event_type, context_id, since, time_field, sequence_time_field, where_clause, limit, offset,
                         order_by, picked_zones, return_fields, link_field, aggs, time_bucket, group_by, event_sequence } => {
            let mut w = String::new();
            match where_clause { None => w.push('~'), Some(e) => expr(e, &mut w) }
            let seq = match event_sequence {
                None => "~".to_string(),
                Some(s) => {
                    let mut t = format!("{}{}", hs(&s.head.event), if s.head.field.is_some() { "!" } else { "" });
                    for (l, e) in &s.links {
                        t.push_str(match l { SequenceLink::FollowedBy => ">", SequenceLink::PrecededBy => "<" });
                        t.push_str(&hs(&e.event));
                        if e.field.is_some() { t.push('!'); }
                    }
                    t
                }
            };
            format!("Q {} ctx={} since={} tf={} stf={} where={} limit={} offset={} order={} ret={} link={} aggs={} tb={} gb={} seq={}{}",
                hs(event_type), ho(context_id), ho(since), ho(time_field), ho(sequence_time_field), w,
                limit.map(|n| n.to_string()).unwrap_or("~".into()), offset.map(|n| n.to_string()).unwrap_or("~".into()),
                order_by.as_ref().map(|o| format!("{}:{}", hs(&o.field), if o.desc { "d" } else { "a" })).unwrap_or("~".into()),
                hol(return_fields), ho(link_field),
                aggs.as_ref().map(|l| format!("[{}]", l.iter().map(agg).collect::<Vec<_>>().join(","))).unwrap_or("~".into()),
                time_bucket.as_ref().map(|g| gran(g).to_string()).unwrap_or("~".into()),
                hol(group_by), seq, if picked_zones.is_some() { " pz" } else { "" })
        }
        Command::Replay { event_type, context_id, since, time_field, return_fields } =>
            format!("R et={} ctx={} since={} tf={} ret={}", ho(event_type), hs(context_id), ho(since), ho(time_field), hol(return_fields)),
        Command::Store { event_type, context_id, payload } =>
            format!("S {} {} {}", hs(event_type), hs(context_id), hs(&serde_json::to_string(payload).unwrap_or_default())),
        Command::Define { event_type, version, schema } => {
            let mut fs: Vec<String> = schema.fields.iter().map(|(k, v)| match v {
                FieldSpec::Primitive(s) => format!("{}:{}", hs(k), hs(s)),
                FieldSpec::Enum(vs) => format!("{}:{}", hs(k), hl(vs)),
            }).collect();
            fs.sort();
            format!("D {} v={} {}", hs(event_type), version.map(|n| n.to_string()).unwrap_or("~".into()), fs.join(","))
        }
        Command::RememberQuery { spec } => format!("M {} {}", hs(&spec.name), canon(&spec.query)),
        Command::ShowMaterialized { name } => format!("SHOW {}", hs(name)),
        Command::Ping => "PING".into(),
        Command::Flush => "FLUSH".into(),
        Command::Batch(cs) => format!("B{} {}", cs.len(), cs.iter().map(canon).collect::<Vec<_>>().join(" | ")),
        Command::Compare { queries } => format!("CMP {}", queries.iter().map(|q| canon(&Command::from(q.clone()))).collect::<Vec<_>>().join(" | ")),
        Command::CreateUser { user_id, secret_key, roles } => format!("CU {} key={} roles={}", hs(user_id), ho(secret_key), hol(roles)),
        Command::RevokeKey { user_id } => format!("RK {}", hs(user_id)),
        Command::ListUsers => "LU".into(),
        Command::GrantPermission { permissions, event_types, user_id } => format!("GP {} {} {}", hl(permissions), hl(event_types), hs(user_id)),
        Command::RevokePermission { permissions, event_types, user_id } => format!("RP {} {} {}", hl(permissions), hl(event_types), hs(user_id)),
        Command::ShowPermissions { user_id } => format!("SP {}", hs(user_id)),
    }
}

fn parse_line(s: &str) -> String {
    match parse_command(s) {
        Ok(c) => format!("OK {}", canon(&c)),
        Err(_) => "ERR".into(),
    }
}

/// Worker-thread stack of the server: tokio's default (2 MiB); sneldb does not override it.
const STACK: usize = 2 * 1024 * 1024;

fn parse_on_thread(s: String) -> String {
    let h = std::thread::Builder::new().stack_size(STACK).spawn(move || parse_line(&s)).unwrap();
    match h.join() { Ok(r) => r, Err(_) => "PANIC".into() }
}

fn risky(b: &[u8]) -> bool {
    if b.len() > 1500 { return true; }
    let (mut d, mut md, mut braces, mut nots) = (0i32, 0i32, 0, 0);
    for (i, &c) in b.iter().enumerate() {
        match c {
            b'(' => { d += 1; if d > md { md = d; } }
            b')' => { if d > 0 { d -= 1; } }
            b'{' => braces += 1,
            b'n' | b'N' => { if i + 2 < b.len() && b[i + 1].eq_ignore_ascii_case(&b'o') && b[i + 2].eq_ignore_ascii_case(&b't') { nots += 1; } }
            _ => {}
        }
    }
    md > 7 || braces > 10 || nots > 200
}

fn limit_ms() -> u64 { std::env::var("VERIF_PARSE_LIMIT_MS").ok().and_then(|v| v.parse().ok()).unwrap_or(4000) }

fn in_child(line: &str) -> String { in_child_lim(line, limit_ms()) }

fn in_child_lim(line: &str, lim_ms: u64) -> String {
    let exe = match std::env::current_exe() { Ok(e) => e, Err(_) => return "NOCHILD".into() };
    let mut ch = match Proc::new(exe).arg("fn").stdin(Stdio::piped()).stdout(Stdio::piped()).stderr(Stdio::null()).spawn() {
        Ok(c) => c, Err(_) => return "NOCHILD".into() };
    {
        let mut si = ch.stdin.take().unwrap();
        let _ = si.write_all(line.as_bytes());
        let _ = si.write_all(b"\n");
    }
    // drain the child's stdout on a thread: a long answer must not block the child on a full pipe
    let mut so = ch.stdout.take().unwrap();
    let reader = std::thread::spawn(move || { let mut out = String::new(); let _ = so.read_to_string(&mut out); out });
    let t0 = Instant::now();
    let lim = Duration::from_millis(lim_ms);
    loop {
        match ch.try_wait() {
            Ok(Some(st)) => {
                let out = reader.join().unwrap_or_default();
                let l = out.lines().next().unwrap_or("").to_string();
                if !st.success() || l.is_empty() { return "ABORT".into(); }
                return l;
            }
            Ok(None) => {
                if t0.elapsed() > lim { let _ = ch.kill(); let _ = ch.wait(); let _ = reader.join(); return "TIMEOUT".into(); }
                std::thread::sleep(Duration::from_millis(2));
            }
            Err(_) => return "ABORT".into(),
        }
    }
}

pub fn run(t: &[String]) -> String {
    match t[0].as_str() {
        "parse_cmd" => {
            let b = unhex(&t[1]);
            if risky(&b) { return in_child(&format!("parse_raw {}", t[1])); }
            match String::from_utf8(b) { Ok(s) => parse_line(&s), Err(_) => "BADUTF8".into() }
        }
        // parse_cmdt <budget ms> <hex>: always in a child, with this case's own time budget
        "parse_cmdt" => {
            let ms: u64 = t[1].parse().unwrap_or(1000);
            in_child_lim(&format!("parse_raw {}", t[2]), ms)
        }
        "parse_raw" => {
            match String::from_utf8(unhex(&t[1])) { Ok(s) => parse_on_thread(s), Err(_) => "BADUTF8".into() }
        }
        "parse_json" => {
            let b = unhex(&t[1]);
            if b.len() > 1500 { return in_child(&format!("parse_jsonraw {}", t[1])); }
            json_line(b)
        }
        "parse_jsonraw" => {
            let b = unhex(&t[1]);
            let h = std::thread::Builder::new().stack_size(STACK).spawn(move || json_line(b)).unwrap();
            match h.join() { Ok(r) => r, Err(_) => "PANIC".into() }
        }
        "parse_disp" => disp::run(&unhex(&t[1])),
        "parse_kind" => disp::run_kind(&t[1]),
        _ => "UNKNOWN_PROBE".into(),
    }
}

fn json_line(b: Vec<u8>) -> String {
    use snel_db::frontend::http::json_command::JsonCommand;
    // exactly what handle_json_command does with the request body (src/frontend/http/dispatcher.rs)
    match sonic_rs::from_slice::<JsonCommand>(&b) {
        Ok(j) => { let c: Command = j.into(); format!("OK {}", canon(&c)) }
        Err(_) => "ERR".into(),
    }
}

mod disp {
    //! Engine-level dispatch: one engine per process, created on first use with its own temp dirs.
    use super::*;
    use snel_db::command::dispatcher::dispatch_command;
    use snel_db::frontend::context::FrontendContext;
    use snel_db::shared::response::JsonRenderer;
    use std::sync::{Arc, OnceLock};

    struct Eng { rt: tokio::runtime::Runtime, ctx: Arc<FrontendContext>, _dir: tempfile::TempDir }
    static ENG: OnceLock<Eng> = OnceLock::new();

    fn eng() -> &'static Eng {
        ENG.get_or_init(|| {
            let dir = tempfile::tempdir().expect("tempdir");
            let base = std::env::var("VERIF_C17_CONFIG").unwrap_or_else(|_| "/repo/config/test.toml".into());
            let txt = std::fs::read_to_string(&base).expect("base config");
            let d = dir.path().display().to_string();
            // every relative/absolute directory of the test config is redirected below the temp dir
            let mut out = String::new();
            for line in txt.lines() {
                let l = line.trim_start();
                let is_dir = l.contains("_dir") || l.starts_with("dir ") || l.starts_with("socket_path") || l.starts_with("path ");
                if is_dir && l.contains('=') && l.contains('"') {
                    let k = l.split('=').next().unwrap().trim();
                    out.push_str(&format!("{} = \"{}/{}\"\n", k, d, k));
                } else {
                    out.push_str(line); out.push('\n');
                }
            }
            let cfg = dir.path().join("c17.toml");
            std::fs::write(&cfg, out).unwrap();
            unsafe { std::env::set_var("SNELDB_CONFIG", &cfg); }
            let rt = tokio::runtime::Builder::new_multi_thread().worker_threads(2).enable_all().build().unwrap();
            let ctx = rt.block_on(async { FrontendContext::from_config().await });
            Eng { rt, ctx, _dir: dir }
        })
    }

    /// A representative command of each `Command` variant, dispatched on the engine.
    pub fn run_kind(k: &str) -> String {
        let text = match k {
            "Define" => "DEFINE c17kind FIELDS { \"a\": \"int\" }",
            "Store" => "STORE c17kind FOR c PAYLOAD {\"a\":1}",
            "Query" => "QUERY c17kind",
            "RememberQuery" => "REMEMBER QUERY c17kind AS c17m",
            "ShowMaterialized" => "SHOW c17m",
            "Replay" => "REPLAY FOR c",
            "Ping" => "PING",
            "Flush" => "FLUSH",
            "Batch" => "BATCH [ PING ]",
            "Compare" => "PLOT COUNT OF c17kind VS COUNT OF c17other",
            "CreateUser" => "CREATE USER c17u",
            "RevokeKey" => "REVOKE KEY c17u",
            "ListUsers" => "LIST USERS",
            "GrantPermission" => "GRANT READ ON c17kind TO c17u",
            "RevokePermission" => "REVOKE READ ON c17kind FROM c17u",
            "ShowPermissions" => "SHOW PERMISSIONS FOR c17u",
            _ => return "BADKIND".into(),
        };
        let cmd = match parse_command(text) { Ok(c) => c, Err(_) => return "NOPARSE".into() };
        // the representative must really be of the requested variant
        let dbg = format!("{:?}", cmd);
        let head: String = dbg.chars().take_while(|c| c.is_alphanumeric()).collect();
        if head != k { return format!("WRONGKIND {}", head); }
        dispatch(cmd)
    }

    pub fn run(b: &[u8]) -> String {
        let s = match std::str::from_utf8(b) { Ok(s) => s.to_string(), Err(_) => return "BADUTF8".into() };
        let cmd = match parse_command(&s) { Ok(c) => c, Err(_) => return "NOPARSE".into() };
        dispatch(cmd)
    }

    fn dispatch(cmd: Command) -> String {
        let e = eng();
        let ctx = e.ctx.clone();
        // the dispatch runs as its own task so that a panic inside it is contained like in the server
        let h = e.rt.spawn(async move {
            let mut w: Vec<u8> = Vec::new();
            let r = dispatch_command(&cmd, &mut w, &ctx.shard_manager, &ctx.registry, None, Some("bypass"), &JsonRenderer).await;
            (r.is_ok(), w.len())
        });
        match e.rt.block_on(async { tokio::time::timeout(std::time::Duration::from_secs(20), h).await }) {
            Err(_) => "TIMEOUT".into(),
            Ok(Err(je)) => if je.is_panic() { "PANIC".into() } else { "CANCELLED".into() },
            Ok(Ok((true, n))) => if n > 0 { "RESP".into() } else { "EMPTY".into() },
            Ok(Ok((false, _))) => "IOERR".into(),
        }
    }
}
