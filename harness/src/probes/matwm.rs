//! C14 function-level probe of the real WatermarkDeduplicator (needs hooks/C14-watermark-dedup.diff applied to
//! /repo; rename this file to matwm.rs then).  tools/props/c14.py generates `matwm_filter` cases as soon as
//! `vharn fn` answers them.
//!
//!   matwm_filter <ts>.<id> <en:0|1> <batch>|<batch>|...     rows ts.id.k separated by ',', '-' = empty batch
//!        one WatermarkDeduplicator::new(mark, timestamp_idx, event_idx) (both None when en = 0) filters the
//!        batches in order, as DeltaRefresher::spawn_stream_task does; prints per batch the kept k's
//!        (joined by '+'), `none` when filter returned None.
pub const PREFIX: &str = "matwm_";
use snel_db::command::handlers::show::WatermarkDeduplicator;
use snel_db::engine::core::read::flow::{BatchPool, BatchSchema};
use snel_db::engine::core::read::result::ColumnSpec;
use snel_db::engine::materialize::HighWaterMark;
use snel_db::engine::types::ScalarValue;
use std::sync::Arc;

pub fn run(t: &[String]) -> String {
    let mut it = t[1].split('.');
    let mark = HighWaterMark::new(it.next().unwrap().parse().unwrap(), it.next().unwrap().parse().unwrap());
    let en = t[2] == "1";
    let schema = Arc::new(BatchSchema::new(vec![
        ColumnSpec { name: "timestamp".into(), logical_type: "Timestamp".into() },
        ColumnSpec { name: "event_id".into(), logical_type: "Integer".into() },
        ColumnSpec { name: "k".into(), logical_type: "Integer".into() },
    ]).unwrap());
    let pool = BatchPool::new(4096).unwrap();
    let mut wm = if en { WatermarkDeduplicator::new(mark, Some(0), Some(1)) } else { WatermarkDeduplicator::new(mark, None, None) };
    let mut out = Vec::new();
    for fr in t.get(3).map(|s| s.as_str()).unwrap_or("").split('|') {
        if fr.is_empty() { continue; }
        let mut b = pool.acquire(Arc::clone(&schema));
        if fr != "-" {
            for r in fr.split(',') {
                let v: Vec<i64> = r.split('.').map(|x| x.parse().unwrap()).collect();
                b.push_row(&[ScalarValue::Timestamp(v[0]), ScalarValue::Int64(v[1]), ScalarValue::Int64(v[2])]).unwrap();
            }
        }
        let batch = Arc::new(b.finish().unwrap());
        // the refresher skips empty batches before filtering and only filters when enabled()
        if batch.is_empty() { out.push("skip".to_string()); continue; }
        let res = if wm.enabled() { wm.filter(batch) } else { Some(batch) };
        match res {
            None => out.push("none".to_string()),
            Some(kept) => {
                let ks: Vec<String> = kept.column(2).unwrap().iter().map(|v| v.as_u64().unwrap().to_string()).collect();
                out.push(ks.join("+"));
            }
        }
    }
    out.join(" ")
}
