//! C14 probes (function level, real code):
//!
//!   mat_hw <ts>.<id> <op>...            HighWaterMark::new(ts,id) then per op
//!        a<ts>.<id>  advance            -> prints the mark after the step
//!        s<ts>.<id>  satisfies          -> prints 0|1
//!        z           is_zero            -> prints 0|1
//!   mat_sink <frame>|<frame>|...        a fresh MaterializedStore + MaterializedSink in a temp dir; every frame
//!        (rows `ts.id.k` separated by `,`, `-` = empty batch) is appended with MaterializedSink::append;
//!        prints the sink's high_water_mark after every append, then the mark of a sink re-opened on the
//!        same directory (bootstrap_from_manifest), then total rows and the frames of the manifest.
//!   mat_frames <hexpath>                frames of the materialized store at <path> (read with the real
//!        MaterializedStore::read_frame): first `sink=<ts>.<id>` — the mark a real MaterializedSink re-opened on that
//!        store carries (bootstrap_from_manifest) —, then per frame  maxts.maxid:k/ts/id,k/ts/id,...
//!   mat_catalog <hex cols dir> <name>   the catalog entry of <name> read from disk with MaterializationCatalog::load / get:
//!        cat=<ts>.<id> (0.0 = None) rows=<row_count> path=<hex of entry.storage_path>   | NOENTRY
//!   mat_layout <hex cols dir> <uid>     per shard directory, per numeric segment directory holding <uid>.zones:
//!        mtime of the .zones file and per zone (ZoneMeta::load) timestamp_max, created_at and the k values of the
//!        zone read with ColumnReader::load_for_zone.
use crate::probes::unhex;
pub const PREFIX: &str = "mat_";
use snel_db::engine::core::column::column_reader::ColumnReader;
use snel_db::engine::core::read::flow::{BatchPool, BatchSchema, ColumnBatch};
use snel_db::engine::core::read::result::ColumnSpec;
use snel_db::engine::core::zone::zone_meta::ZoneMeta;
use snel_db::engine::materialize::{batch_schema_to_snapshots, HighWaterMark, MaterializationCatalog, MaterializedSink, MaterializedStore};
use snel_db::engine::types::ScalarValue;
use std::path::{Path, PathBuf};
use std::sync::Arc;

fn pair(s: &str) -> (u64, u64) {
    let mut it = s.split('.');
    (it.next().unwrap().parse().unwrap(), it.next().unwrap().parse().unwrap())
}

fn hw_probe(t: &[String]) -> String {
    let (a, b) = pair(&t[1]);
    let mut m = HighWaterMark::new(a, b);
    let mut out = Vec::new();
    for op in &t[2..] {
        let (c, rest) = op.split_at(1);
        match c {
            "a" => { let (x, y) = pair(rest); m.advance(x, y); out.push(format!("{}.{}", m.timestamp, m.event_id)); }
            "s" => { let (x, y) = pair(rest); out.push(if m.satisfies(x, y) { "1".into() } else { "0".into() }); }
            "z" => out.push(if m.is_zero() { "1".into() } else { "0".into() }),
            _ => out.push("?".into()),
        }
    }
    out.join(" ")
}

fn schema3() -> Arc<BatchSchema> {
    Arc::new(BatchSchema::new(vec![
        ColumnSpec { name: "timestamp".into(), logical_type: "Timestamp".into() },
        ColumnSpec { name: "event_id".into(), logical_type: "Integer".into() },
        ColumnSpec { name: "k".into(), logical_type: "Integer".into() },
    ]).unwrap())
}

fn mk_batch(pool: &BatchPool, schema: &Arc<BatchSchema>, rows: &str) -> ColumnBatch {
    let mut b = pool.acquire(Arc::clone(schema));
    if rows != "-" {
        for r in rows.split(',') {
            let v: Vec<i64> = r.split('.').map(|x| x.parse().unwrap()).collect();
            b.push_row(&[ScalarValue::Timestamp(v[0]), ScalarValue::Int64(v[1]), ScalarValue::Int64(v[2])]).unwrap();
        }
    }
    b.finish().unwrap()
}

fn sink_probe(t: &[String]) -> String {
    let dir = tempfile::tempdir().unwrap();
    let schema = schema3();
    let snaps = batch_schema_to_snapshots(&schema);
    let pool = BatchPool::new(4096).unwrap();
    let mut out = Vec::new();
    {
        let store = match MaterializedStore::open(dir.path()) { Ok(s) => s, Err(e) => return format!("ERR open {e}") };
        let mut sink = match MaterializedSink::new(store, snaps.clone()) { Ok(s) => s, Err(e) => return format!("ERR sink {e}") };
        let spec = t.get(1).map(|s| s.as_str()).unwrap_or("");
        for fr in spec.split('|') {
            if fr.is_empty() { continue; }
            let b = mk_batch(&pool, &schema, fr);
            match sink.append(&b) {
                Ok(()) => { let m = sink.high_water_mark(); out.push(format!("{}.{}", m.timestamp, m.event_id)); }
                Err(e) => out.push(format!("ERR{}", e.to_string().len())),
            }
        }
        out.push(format!("rows={}", sink.total_rows()));
    }
    let store = match MaterializedStore::open(dir.path()) { Ok(s) => s, Err(e) => return format!("ERR reopen {e}") };
    let fr: Vec<String> = store.frames().iter().map(|f| format!("{}.{}x{}", f.high_water_mark.timestamp, f.high_water_mark.event_id, f.row_count)).collect();
    let sink = match MaterializedSink::new(store, snaps) { Ok(s) => s, Err(e) => return format!("ERR sink2 {e}") };
    let m = sink.high_water_mark();
    out.push(format!("boot={}.{}", m.timestamp, m.event_id));
    out.push(format!("frames={}", if fr.is_empty() { "-".to_string() } else { fr.join(",") }));
    out.join(" ")
}

fn cell(v: &ScalarValue) -> String {
    match v.as_u64() { Some(x) => x.to_string(), None => match v { ScalarValue::Null => "N".into(), other => format!("{:?}", other).replace(' ', "") } }
}

fn frames_probe(t: &[String]) -> String {
    let p = PathBuf::from(String::from_utf8(unhex(&t[1])).unwrap());
    if !p.join("manifest.bin").exists() { return "NOSTORE".into(); }
    let store = match MaterializedStore::open(&p) { Ok(s) => s, Err(e) => return format!("ERR {e}") };
    let mut out = Vec::new();
    if let Some(first) = store.frames().first() {
        let schema = first.schema.clone();
        if let Ok(st2) = MaterializedStore::open(&p) {
            match MaterializedSink::new(st2, schema) {
                Ok(sink) => { let m = sink.high_water_mark(); out.push(format!("sink={}.{}", m.timestamp, m.event_id)); }
                Err(_) => out.push("sink=?".to_string()),
            }
        }
    }
    for meta in store.frames().to_vec() {
        let b = match store.read_frame(&meta) { Ok(b) => b, Err(e) => { out.push(format!("ERR{:?}", e).replace(' ', "_")); continue; } };
        let cols = b.schema().columns().to_vec();
        let pos = |n: &str| cols.iter().position(|c| c.name == n);
        let (ki, ti, ii) = (pos("k"), pos("timestamp"), pos("event_id"));
        let mut rows = Vec::new();
        for r in 0..b.len() {
            let row = b.row(r).unwrap();
            let g = |i: Option<usize>| i.map(|i| cell(&row[i])).unwrap_or("-".into());
            rows.push(format!("{}/{}/{}", g(ki), g(ti), g(ii)));
        }
        out.push(format!("{}.{}:{}", meta.high_water_mark.timestamp, meta.high_water_mark.event_id, rows.join(",")));
    }
    if out.is_empty() { "EMPTY".into() } else { out.join(" ") }
}

fn catalog_probe(t: &[String]) -> String {
    let dir = PathBuf::from(String::from_utf8(unhex(&t[1])).unwrap());
    let cat = match MaterializationCatalog::load(&dir) { Ok(c) => c, Err(e) => return format!("ERR {e}") };
    match cat.get(&t[2]) {
        Ok(Some(e)) => {
            let m = e.high_water_mark.unwrap_or_default();
            format!("cat={}.{} rows={} path={}", m.timestamp, m.event_id, e.row_count,
                    crate::probes::hexs(e.storage_path.to_string_lossy().as_bytes()))
        }
        Ok(None) => "NOENTRY".into(),
        Err(e) => format!("ERR {e}"),
    }
}

fn mtime_secs(p: &Path) -> u64 {
    std::fs::metadata(p).ok().and_then(|m| m.modified().ok()).and_then(|t| t.duration_since(std::time::UNIX_EPOCH).ok()).map(|d| d.as_secs()).unwrap_or(0)
}

fn layout_probe(t: &[String]) -> String {
    let cols = PathBuf::from(String::from_utf8(unhex(&t[1])).unwrap());
    let uid = &t[2];
    let mut shards: Vec<(u32, PathBuf)> = Vec::new();
    if let Ok(rd) = std::fs::read_dir(&cols) {
        for e in rd.flatten() {
            let n = e.file_name().to_string_lossy().to_string();
            if let Some(x) = n.strip_prefix("shard-") { if let Ok(i) = x.parse::<u32>() { shards.push((i, e.path())); } }
        }
    }
    shards.sort();
    let mut out = Vec::new();
    for (si, sp) in shards {
        let mut segs: Vec<(u64, PathBuf)> = Vec::new();
        if let Ok(rd) = std::fs::read_dir(&sp) {
            for e in rd.flatten() {
                let n = e.file_name().to_string_lossy().to_string();
                if !n.is_empty() && n.chars().all(|c| c.is_ascii_digit()) && e.path().is_dir() { segs.push((n.parse().unwrap(), e.path())); }
            }
        }
        segs.sort();
        for (gid, gp) in segs {
            let zp = gp.join(format!("{uid}.zones"));
            if !zp.exists() { continue; }
            let metas = match ZoneMeta::load(&zp) { Ok(m) => m, Err(_) => { out.push(format!("s{si}g{gid}:ERRMETA")); continue; } };
            let segname = gp.file_name().unwrap().to_string_lossy().to_string();
            let mut zs = Vec::new();
            for m in &metas {
                let ks = ColumnReader::load_for_zone(&gp, &segname, uid, "k", m.zone_id).unwrap_or_default();
                zs.push(format!("{}.{}.{}={}", m.zone_id, m.timestamp_max, m.created_at, if ks.is_empty() { "-".to_string() } else { ks.join("+") }));
            }
            out.push(format!("s{si}g{gid}@{}:{}", mtime_secs(&zp), zs.join(";")));
        }
    }
    if out.is_empty() { "NOSEGS".into() } else { out.join(" ") }
}

pub fn run(t: &[String]) -> String {
    match t[0].as_str() {
        "mat_hw" => hw_probe(t),
        "mat_sink" => sink_probe(t),
        "mat_frames" => frames_probe(t),
        "mat_layout" => layout_probe(t),
        "mat_catalog" => catalog_probe(t),
        _ => "UNKNOWN_PROBE".into(),
    }
}
