//! C16 probes of the call sites that read time literals, through their public entry points.
//!
//!   tsite_payload <dt|d|odt|od|str> <hex json | ->
//!       PayloadTimeNormalizer::normalize on {"t": <json>, "x": "keep"} with schema {t: <type>, x: string}
//!       -> E | A (absent) | S <n> | T <hex> | NULL | O          (state of "t" afterwards)
//!   tsite_where <hex json>
//!       ConditionEvaluatorBuilder::add_where_clause(t >= <json>)  -> NUM <v> | STR | NONE
//!   tsite_since <hex string>
//!       QueryPlan::build(QUERY ev SINCE <s> USING t) + add_special_fields -> NUM <v> | IGN, then the value
//!       FilterGroupBuilder::build_all hands to the zone pruner for column t: U <hex> | I <n> | ...
//!   tsite_filter <dt|d|odt|od|str> <hex json>
//!       FilterGroupBuilder::build_all(QUERY ev_<type> WHERE t = <json>) -> value of the filter on t
//!       (normalize_temporal_literals): I <n> | U <hex> | F | N | B
//!   tsite_prune <t|timestamp> <eq|neq|gt|gte|lt|lte|in> <s|i> <hex literal> <zones>
//!       zones = id:ts,ts;id:ts...   temporal artifacts are written by the real TemporalIndexBuilder from
//!       events whose payload field t (or core timestamp) holds the stamps; then TemporalPruner::apply_temporal_only
//!       -> NONE | Z <sorted zone ids, comma separated | ->
//!   tsite_select <t|timestamp> <op> <s|i> <hex literal> <zones, ids 0..n-1>
//!       the same artifacts plus the .zones meta written by ZoneMeta::build_all/save, then the real
//!       FieldSelector::select_for_segment on a filter that carries the strategy IndexPlanner::choose gives a
//!       temporal field (= -> TemporalEq, IN -> FullScan, everything else -> TemporalRange)
//!       -> Z <sorted zone ids | ->
//!   tsite_all <hex string>
//!       all of the above on one string literal; the pruner's instant is observed with Eq over single-stamp zones
//!       -> PDT=..;PD=..;W=..;SN=..;F=..;PR=<instant(s) the pruner looked up | ? | NONE>
//!   tsite_matspec <hex since | -> <watermark ts> <watermark event id>
//!       MaterializedQuerySpecExt::delta_command -> N | S <hex since of the delta command>
use crate::probes::{hexs, unhex};
pub const PREFIX: &str = "tsite_";
use serde_json::{json, Value};
use snel_db::command::types::{Command, CompareOp, Expr, MaterializedQuerySpec};
use snel_db::engine::core::filter::filter_group_builder::FilterGroupBuilder;
use snel_db::engine::core::time::TemporalIndexBuilder;
use snel_db::engine::core::read::index_strategy::IndexStrategy;
use snel_db::engine::core::zone::selector::field_selector::FieldSelector;
use snel_db::engine::core::zone::selector::pruner::enum_pruner::EnumPruner;
use snel_db::engine::core::zone::selector::pruner::range_pruner::RangePruner;
use snel_db::engine::core::zone::selector::pruner::xor_pruner::XorPruner;
use snel_db::engine::core::zone::selector::pruner::{PruneArgs, TemporalPruner};
use snel_db::engine::core::zone::selector::selector_kind::ZoneSelector;
use snel_db::engine::core::zone::zone_meta::ZoneMeta;
use snel_db::engine::core::zone::zone_artifacts::ZoneArtifacts;
use snel_db::engine::core::zone::zone_plan::ZonePlan;
use snel_db::engine::core::{ConditionEvaluatorBuilder, Event, FilterGroup, QueryPlan};
use snel_db::engine::materialize::{HighWaterMark, MaterializedQuerySpecExt};
use snel_db::engine::schema::{FieldType, MiniSchema, PayloadTimeNormalizer, SchemaRegistry};
use snel_db::engine::types::ScalarValue;
use std::collections::HashMap;
use std::sync::{Arc, OnceLock};
use tokio::sync::RwLock;

struct Ctx {
    _dir: tempfile::TempDir,
    rt: tokio::runtime::Runtime,
    registry: Arc<RwLock<SchemaRegistry>>,
}
static CTX: OnceLock<Ctx> = OnceLock::new();

fn ftype(s: &str) -> FieldType {
    match s {
        "dt" => FieldType::Timestamp,
        "d" => FieldType::Date,
        "odt" => FieldType::Optional(Box::new(FieldType::Timestamp)),
        "od" => FieldType::Optional(Box::new(FieldType::Date)),
        _ => FieldType::String,
    }
}

fn schema_of(ft: &str) -> MiniSchema {
    let mut fields = HashMap::new();
    fields.insert("t".to_string(), ftype(ft));
    fields.insert("x".to_string(), FieldType::String);
    MiniSchema { fields }
}

fn ctx() -> &'static Ctx {
    CTX.get_or_init(|| {
        let dir = tempfile::tempdir().expect("tmpdir");
        let rt = tokio::runtime::Builder::new_current_thread().enable_all().build().unwrap();
        let mut reg = SchemaRegistry::new_with_path(dir.path().join("schemas.bin")).expect("registry");
        for ft in ["dt", "d", "odt", "od", "str"] {
            reg.define(&format!("ev_{}", ft), schema_of(ft)).expect("define");
        }
        Ctx { _dir: dir, rt, registry: Arc::new(RwLock::new(reg)) }
    })
}

fn query(event_type: &str, since: Option<String>, time_field: Option<String>, where_clause: Option<Expr>) -> Command {
    Command::Query {
        event_type: event_type.to_string(),
        context_id: None,
        since,
        time_field,
        sequence_time_field: None,
        where_clause,
        limit: None,
        offset: None,
        order_by: None,
        picked_zones: None,
        return_fields: None,
        link_field: None,
        aggs: None,
        time_bucket: None,
        group_by: None,
        event_sequence: None,
    }
}

fn json_arg(h: &str) -> Option<Value> {
    let s = String::from_utf8(unhex(h)).ok()?;
    serde_json::from_str(&s).ok()
}

fn after_state(v: Option<&Value>) -> String {
    match v {
        None => "A".into(),
        Some(Value::Null) => "NULL".into(),
        Some(Value::String(s)) => format!("T {}", hexs(s.as_bytes())),
        Some(Value::Number(n)) => {
            if let Some(i) = n.as_i64() { format!("S {}", i) }
            else if let Some(u) = n.as_u64() { format!("S {}", u) }
            else { "O".into() }
        }
        Some(_) => "O".into(),
    }
}

fn scalar_state(v: Option<&ScalarValue>) -> String {
    match v {
        None => "MISSING".into(),
        Some(ScalarValue::Int64(i)) => format!("I {}", i),
        Some(ScalarValue::Timestamp(i)) => format!("TS {}", i),
        Some(ScalarValue::Utf8(s)) => format!("U {}", hexs(s.as_bytes())),
        Some(ScalarValue::Float64(_)) => "F".into(),
        Some(ScalarValue::Null) => "N".into(),
        Some(ScalarValue::Boolean(_)) => "B".into(),
        Some(ScalarValue::Binary(_)) => "BIN".into(),
    }
}

/// The numeric / string condition a builder produced for field "t", read from the Debug rendering
/// (the condition types keep their fields private).
fn cond_on_t(dbg: &str) -> String {
    if let Some(p) = dbg.find("NumericCondition { field: \"t\"") {
        let rest = &dbg[p..];
        if let Some(q) = rest.find("value: ") {
            let r = &rest[q + 7..];
            let end = r.find(|c: char| !(c == '-' || c.is_ascii_digit())).unwrap_or(r.len());
            return format!("NUM {}", &r[..end]);
        }
    }
    if dbg.contains("StringCondition { field: \"t\"") {
        return "STR".into();
    }
    "NONE".into()
}

fn op_of(s: &str) -> CompareOp {
    match s {
        "eq" => CompareOp::Eq,
        "neq" => CompareOp::Neq,
        "gt" => CompareOp::Gt,
        "gte" => CompareOp::Gte,
        "lt" => CompareOp::Lt,
        "lte" => CompareOp::Lte,
        _ => CompareOp::In,
    }
}

fn find_t_filter(groups: &[FilterGroup], want_op: Option<CompareOp>) -> Option<Option<ScalarValue>> {
    for g in groups {
        if let FilterGroup::Filter { column, operation, value, .. } = g {
            if column == "t" && (want_op.is_none() || *operation == want_op) {
                return Some(value.clone());
            }
        }
    }
    None
}

/// Writes the temporal artifacts of the zones with the real TemporalIndexBuilder (and the zone meta file).
fn build_artifacts(col: &str, zones: &[(u32, Vec<i64>)]) -> Result<(tempfile::TempDir, String), String> {
    let c = ctx();
    let uid = c.rt.block_on(async { c.registry.read().await.get_uid("ev_dt") }).expect("uid");
    let base = tempfile::tempdir().expect("tmp");
    let seg_dir = base.path().join("00001");
    std::fs::create_dir_all(&seg_dir).unwrap();
    let mut plans = Vec::new();
    let mut row = 0usize;
    for (id, stamps) in zones {
        let mut events: Vec<Event> = Vec::new();
        for (i, ts) in stamps.iter().enumerate() {
            let ev = if col == "timestamp" {
                json!({"event_type": "ev_dt", "context_id": "c", "timestamp": *ts as u64, "payload": {"x": "a"}})
            } else {
                json!({"event_type": "ev_dt", "context_id": "c", "timestamp": 1000 + i as u64, "payload": {"t": ts, "x": "a"}})
            };
            events.push(serde_json::from_value(ev).expect("event"));
        }
        let n = events.len();
        plans.push(ZonePlan {
            id: *id,
            start_index: row,
            end_index: row + n - 1,
            events,
            uid: uid.clone(),
            event_type: "ev_dt".into(),
            segment_id: 1,
            created_at: 0,
        });
        row += n;
    }
    if !plans.is_empty() {
        let r = c.rt.block_on(
            TemporalIndexBuilder::new(&uid, &seg_dir, Arc::clone(&c.registry)).build_for_zone_plans(&plans),
        );
        if r.is_err() { return Err("BUILDERR".into()); }
        let metas = ZoneMeta::build_all(&plans);
        if ZoneMeta::save(&uid, &metas, &seg_dir).is_err() { return Err("METAERR".into()); }
    }
    Ok((base, uid))
}

fn ids_of(zs: Vec<snel_db::engine::core::CandidateZone>) -> Vec<u32> {
    let mut ids: Vec<u32> = zs.iter().map(|z| z.zone_id).collect();
    ids.sort();
    ids.dedup();
    ids
}

/// ... and runs the real pruner.
fn prune_zones(col: &str, op: &CompareOp, val: &ScalarValue, zones: &[(u32, Vec<i64>)]) -> Result<Option<Vec<u32>>, String> {
    let (base, uid) = build_artifacts(col, zones)?;
    let base_dir = base.path().to_path_buf();
    let pruner = TemporalPruner { artifacts: ZoneArtifacts { base_dir: &base_dir, caches: None } };
    let args = PruneArgs { segment_id: "00001", uid: &uid, column: col, value: Some(val), op: Some(op) };
    Ok(pruner.apply_temporal_only(&args).map(ids_of))
}

/// ... and runs the real field selector on a filter with the temporal strategy of the planner.
fn select_zones(col: &str, op: &CompareOp, val: &ScalarValue, zones: &[(u32, Vec<i64>)]) -> Result<Vec<u32>, String> {
    let (base, uid) = build_artifacts(col, zones)?;
    let c = ctx();
    let base_dir = base.path().to_path_buf();
    let cmd = query("ev_dt", None, None, None);
    let mut plan = c.rt.block_on(QueryPlan::build(&cmd, Arc::clone(&c.registry)));
    plan.segment_base_dir = base_dir.clone();
    let strategy = match op {
        CompareOp::Eq => IndexStrategy::TemporalEq { field: col.to_string() },
        CompareOp::In => IndexStrategy::FullScan,
        _ => IndexStrategy::TemporalRange { field: col.to_string() },
    };
    let fg = FilterGroup::Filter {
        column: col.to_string(),
        operation: Some(op.clone()),
        value: Some(val.clone()),
        priority: 1,
        uid: Some(uid.clone()),
        index_strategy: Some(strategy),
    };
    let art = || ZoneArtifacts { base_dir: &base_dir, caches: None };
    let sel = FieldSelector {
        plan: &fg,
        qplan: &plan,
        caches: None,
        range_pruner: RangePruner { artifacts: art() },
        temporal_pruner: TemporalPruner { artifacts: art() },
        enum_pruner: EnumPruner { artifacts: art() },
        xor_pruner: XorPruner { artifacts: art() },
    };
    Ok(ids_of(sel.select_for_segment("00001")))
}

pub fn run(t: &[String]) -> String {
    match t[0].as_str() {
        "tsite_payload" => {
            let schema = schema_of(&t[1]);
            let mut obj = serde_json::Map::new();
            if t[2] != "-" {
                let v = match json_arg(&t[2]) { Some(v) => v, None => return "BADJSON".into() };
                obj.insert("t".into(), v);
            }
            obj.insert("x".into(), json!("keep"));
            let mut payload = Value::Object(obj);
            match PayloadTimeNormalizer::new(&schema).normalize(&mut payload) {
                Err(_) => "E".into(),
                Ok(()) => {
                    if payload.get("x") != Some(&json!("keep")) { return "XCHANGED".into(); }
                    after_state(payload.get("t"))
                }
            }
        }
        "tsite_where" => {
            let v = match json_arg(&t[1]) { Some(v) => v, None => return "BADJSON".into() };
            let e = Expr::Compare { field: "t".into(), op: CompareOp::Gte, value: v };
            let mut b = ConditionEvaluatorBuilder::new();
            b.add_where_clause(&e);
            cond_on_t(&format!("{:?}", b.into_evaluator()))
        }
        "tsite_since" => {
            let s = match String::from_utf8(unhex(&t[1])) { Ok(s) => s, Err(_) => return "BADUTF8".into() };
            let c = ctx();
            let cmd = query("ev_dt", Some(s), Some("t".into()), None);
            let plan = c.rt.block_on(QueryPlan::build(&cmd, Arc::clone(&c.registry)));
            let mut b = ConditionEvaluatorBuilder::new();
            b.add_special_fields(&plan);
            let row = match cond_on_t(&format!("{:?}", b.into_evaluator())).as_str() {
                "NONE" => "IGN".to_string(),
                other => other.to_string(),
            };
            let groups = c.rt.block_on(FilterGroupBuilder::build_all(&cmd, &c.registry));
            let f = find_t_filter(&groups, Some(CompareOp::Gte));
            format!("{} | {}", row, match f { Some(v) => scalar_state(v.as_ref()), None => "MISSING".into() })
        }
        "tsite_filter" => {
            let v = match json_arg(&t[2]) { Some(v) => v, None => return "BADJSON".into() };
            let c = ctx();
            let e = Expr::Compare { field: "t".into(), op: CompareOp::Eq, value: v };
            let cmd = query(&format!("ev_{}", t[1]), None, None, Some(e));
            let groups = c.rt.block_on(FilterGroupBuilder::build_all(&cmd, &c.registry));
            match find_t_filter(&groups, Some(CompareOp::Eq)) {
                Some(v) => scalar_state(v.as_ref()),
                None => "MISSING".into(),
            }
        }
        "tsite_prune" => {
            let col = t[1].as_str();
            let op = op_of(&t[2]);
            let lit = match String::from_utf8(unhex(&t[4])) { Ok(s) => s, Err(_) => return "BADUTF8".into() };
            let val = if t[3] == "i" {
                match lit.parse::<i64>() { Ok(i) => ScalarValue::Int64(i), Err(_) => return "BADINT".into() }
            } else {
                ScalarValue::Utf8(lit)
            };
            let mut zones: Vec<(u32, Vec<i64>)> = Vec::new();
            if t[5] != "-" {
                for z in t[5].split(';') {
                    let (id, stamps) = z.split_once(':').expect("zone");
                    zones.push((id.parse().unwrap(), stamps.split(',').map(|s| s.parse().unwrap()).collect()));
                }
            }
            match prune_zones(col, &op, &val, &zones) {
                Err(e) => e,
                Ok(None) => "NONE".into(),
                Ok(Some(ids)) => {
                    if ids.is_empty() { "Z -".into() }
                    else { format!("Z {}", ids.iter().map(|i| i.to_string()).collect::<Vec<_>>().join(",")) }
                }
            }
        }
        "tsite_select" => {
            let col = t[1].as_str();
            let op = op_of(&t[2]);
            let lit = match String::from_utf8(unhex(&t[4])) { Ok(s) => s, Err(_) => return "BADUTF8".into() };
            let val = if t[3] == "i" {
                match lit.parse::<i64>() { Ok(i) => ScalarValue::Int64(i), Err(_) => return "BADINT".into() }
            } else {
                ScalarValue::Utf8(lit)
            };
            let mut zones: Vec<(u32, Vec<i64>)> = Vec::new();
            if t[5] != "-" {
                for z in t[5].split(';') {
                    let (id, stamps) = z.split_once(':').expect("zone");
                    zones.push((id.parse().unwrap(), stamps.split(',').map(|s| s.parse().unwrap()).collect()));
                }
            }
            match select_zones(col, &op, &val, &zones) {
                Err(e) => e,
                Ok(ids) => {
                    if ids.is_empty() { "Z -".into() }
                    else { format!("Z {}", ids.iter().map(|i| i.to_string()).collect::<Vec<_>>().join(",")) }
                }
            }
        }
        // every site on the same string literal; the pruner's instant is observed with an Eq probe over
        // one single-stamp zone per candidate (0, the values the other sites produced and their clamp at 0)
        "tsite_all" => {
            let lit = match String::from_utf8(unhex(&t[1])) { Ok(s) => s, Err(_) => return "BADUTF8".into() };
            let jv = Value::String(lit.clone());
            let pay = |ft: &str| -> String {
                let schema = schema_of(ft);
                let mut payload = json!({"t": jv.clone(), "x": "keep"});
                match PayloadTimeNormalizer::new(&schema).normalize(&mut payload) {
                    Err(_) => "E".into(),
                    Ok(()) => after_state(payload.get("t")),
                }
            };
            let p_dt = pay("dt");
            let p_d = pay("d");
            let e = Expr::Compare { field: "t".into(), op: CompareOp::Lt, value: jv.clone() };
            let mut b = ConditionEvaluatorBuilder::new();
            b.add_where_clause(&e);
            let w = cond_on_t(&format!("{:?}", b.into_evaluator()));
            let c = ctx();
            let cmd = query("ev_dt", Some(lit.clone()), Some("t".into()), None);
            let plan = c.rt.block_on(QueryPlan::build(&cmd, Arc::clone(&c.registry)));
            let mut b = ConditionEvaluatorBuilder::new();
            b.add_special_fields(&plan);
            let sn = match cond_on_t(&format!("{:?}", b.into_evaluator())).as_str() {
                "NONE" => "IGN".to_string(),
                other => other.to_string(),
            };
            let cmd = query("ev_dt", None, None, Some(Expr::Compare { field: "t".into(), op: CompareOp::Eq, value: jv.clone() }));
            let groups = c.rt.block_on(FilterGroupBuilder::build_all(&cmd, &c.registry));
            let f = match find_t_filter(&groups, Some(CompareOp::Eq)) { Some(v) => scalar_state(v.as_ref()), None => "MISSING".into() };
            // candidates
            let mut cands: Vec<i64> = vec![0];
            for s in [&p_dt, &p_d, &w, &sn, &f] {
                if let Some(v) = s.split(' ').nth(1).and_then(|x| x.parse::<i64>().ok()) {
                    if matches!(s.split(' ').next(), Some("S") | Some("NUM") | Some("I")) { cands.push(v.max(0)); cands.push(v); }
                }
            }
            cands.sort();
            cands.dedup();
            let zones: Vec<(u32, Vec<i64>)> = cands.iter().enumerate().map(|(i, v)| (i as u32, vec![*v])).collect();
            let pr = match prune_zones("t", &CompareOp::Eq, &ScalarValue::Utf8(lit), &zones) {
                Err(e) => e,
                Ok(None) => "NONE".into(),
                Ok(Some(ids)) => if ids.is_empty() { "?".into() } else {
                    ids.iter().map(|i| cands[*i as usize].to_string()).collect::<Vec<_>>().join(",")
                },
            };
            format!("PDT={};PD={};W={};SN={};F={};PR={}", p_dt, p_d, w, sn, f, pr)
        }
        "tsite_matspec" => {
            let since = if t[1] == "-" { None } else {
                match String::from_utf8(unhex(&t[1])) { Ok(s) => Some(s), Err(_) => return "BADUTF8".into() }
            };
            let wm = HighWaterMark::new(t[2].parse().unwrap(), t[3].parse().unwrap());
            let spec = MaterializedQuerySpec {
                name: "m".into(),
                query: Box::new(query("ev_dt", since, Some("t".into()), None)),
            };
            match spec.delta_command(Some(wm)) {
                Ok(Command::Query { since, .. }) => match since {
                    None => "N".into(),
                    Some(s) => format!("S {}", hexs(s.as_bytes())),
                },
                Ok(_) => "NOTQUERY".into(),
                Err(_) => "ERR".into(),
            }
        }
        _ => "UNKNOWN_PROBE".into(),
    }
}
