//! C02 probes: the real row filter and the real pruners of sneldb.
//!
//! cond_eval <schema> <event> <query>
//!     builds the real `ConditionEvaluatorBuilder::add_where_clause` conditions from the parsed WHERE
//!     clause, evaluates them (a) on an in-memory `Event` deserialised from the payload JSON
//!     (`evaluate_event`) and (b) on a one-row hydrated zone whose columns are typed blocks laid out
//!     as `ColumnGroupBuilder` writes them (`evaluate_zones_with_limit`).
//!     -> "- - <mem> <seg>"   0/1, P = panic        (the first two columns are the model's wt/sat)
//! cond_zones <hexbase> <uid> <seg,seg,…>
//!     for every segment directory: zone id -> values of payload column `k` (real `ZoneMeta::load` +
//!     `ColumnReader::load_for_zone_snapshot`)      -> "<seg>:<zid>=<k>.<k>;<zid>=…|<seg>:…"
//! cond_prune <hexbase> <uid> <seg> <hexcolumn> <op> <lit>
//!     the answers of the four real pruners for this leaf on this segment
//!     -> "T<a>;E<a>;R<a>;X<a>"   a = N | S<zid>.<zid>…   (sorted)
//!
//! Encodings as in ocaml/p_query.ml.
use crate::probes::unhex;
pub const PREFIX: &str = "cond_";
use serde_json::{json, Map, Number, Value};
use snel_db::command::parser::command::parse_command;
use snel_db::command::types::{Command, CompareOp};
use snel_db::engine::core::column::column_values::ColumnValues;
use snel_db::engine::core::read::cache::DecompressedBlock;
use snel_db::engine::core::zone::selector::pruner::enum_pruner::EnumPruner;
use snel_db::engine::core::zone::selector::pruner::range_pruner::RangePruner;
use snel_db::engine::core::zone::selector::pruner::xor_pruner::XorPruner;
use snel_db::engine::core::zone::selector::pruner::{PruneArgs, TemporalPruner, ZonePruner};
use snel_db::engine::core::zone::zone_artifacts::ZoneArtifacts;
use snel_db::engine::core::{CandidateZone, ColumnReader, ConditionEvaluatorBuilder, Event, ZoneMeta};
use snel_db::engine::types::ScalarValue;
use std::collections::HashMap;
use std::path::PathBuf;
use std::sync::Arc;

fn s_of(h: &str) -> String { String::from_utf8_lossy(&unhex(h)).to_string() }

fn op_in(s: &str) -> CompareOp {
    match s { "eq" => CompareOp::Eq, "ne" => CompareOp::Neq, "lt" => CompareOp::Lt, "le" => CompareOp::Lte,
              "gt" => CompareOp::Gt, "ge" => CompareOp::Gte, _ => panic!("op") }
}
fn op_txt(s: &str) -> &'static str {
    match s { "eq" => "=", "ne" => "!=", "lt" => "<", "le" => "<=", "gt" => ">", "ge" => ">=", _ => panic!("op") }
}

/// literal token -> the JSON value the parser produces
fn lit_json(s: &str) -> Value {
    let (tag, rest) = s.split_at(1);
    match tag {
        "i" => Value::Number(Number::from(rest.parse::<i64>().expect("i64 literal"))),
        "f" => { let bits: u64 = rest.split('~').next().unwrap().parse().unwrap();
                 Value::Number(Number::from_f64(f64::from_bits(bits)).expect("finite")) }
        "s" => Value::String(s_of(rest)),
        "b" => Value::Bool(rest == "1"),
        _ => panic!("lit"),
    }
}
/// literal token -> query text
fn lit_text(s: &str) -> String {
    let (tag, rest) = s.split_at(1);
    match tag {
        "i" => rest.to_string(),
        "f" => s_of(rest.split('~').nth(1).unwrap()),
        "s" => format!("\"{}\"", s_of(rest)),
        _ => panic!("lit text"),
    }
}

/// prefix expression tokens -> WHERE text (fully parenthesised)
fn expr_text(t: &[&str], pos: &mut usize) -> String {
    let x = t[*pos]; *pos += 1;
    match x {
        "A" => { let a = expr_text(t, pos); let b = expr_text(t, pos); format!("({} AND {})", a, b) }
        "O" => { let a = expr_text(t, pos); let b = expr_text(t, pos); format!("({} OR {})", a, b) }
        "N" => { let a = expr_text(t, pos); format!("NOT ({})", a) }
        _ => {
            let p: Vec<&str> = x.split(':').collect();
            if p[0] == "C" {
                if p[3].starts_with('b') { assert!(p[2] == "eq" && p[3] == "b1"); s_of(p[1]) }
                else { format!("{} {} {}", s_of(p[1]), op_txt(p[2]), lit_text(p[3])) }
            } else {
                let ls: Vec<String> = if p[2].is_empty() { vec![] } else { p[2].split('+').map(lit_text).collect() };
                format!("{} IN ({})", s_of(p[1]), ls.join(", "))
            }
        }
    }
}

fn ans_out(a: Option<Vec<CandidateZone>>) -> String {
    match a {
        None => "N".to_string(),
        Some(zs) => { let mut ids: Vec<u32> = zs.iter().map(|z| z.zone_id).collect(); ids.sort(); ids.dedup();
                      format!("S{}", ids.iter().map(|z| z.to_string()).collect::<Vec<_>>().join(".")) }
    }
}

fn typed_block_i64(v: Option<i64>) -> ColumnValues {
    let mut buf = Vec::new();
    let nulls = if v.is_none() { buf.extend_from_slice(&[1u8; 8]); Some((0usize, 1usize)) } else { None };
    let start = buf.len();
    buf.extend_from_slice(&v.unwrap_or(0).to_le_bytes());
    ColumnValues::new_typed_i64(Arc::new(DecompressedBlock::from_bytes(buf)), start, 1, nulls)
}
fn typed_block_u64(v: Option<u64>) -> ColumnValues {
    let mut buf = Vec::new();
    let nulls = if v.is_none() { buf.extend_from_slice(&[1u8; 8]); Some((0usize, 1usize)) } else { None };
    let start = buf.len();
    buf.extend_from_slice(&v.unwrap_or(0).to_le_bytes());
    ColumnValues::new_typed_u64(Arc::new(DecompressedBlock::from_bytes(buf)), start, 1, nulls)
}
fn typed_block_f64(v: Option<f64>) -> ColumnValues {
    let mut buf = Vec::new();
    let nulls = if v.is_none() { buf.extend_from_slice(&[1u8; 8]); Some((0usize, 1usize)) } else { None };
    let start = buf.len();
    buf.extend_from_slice(&v.unwrap_or(0.0).to_le_bytes());
    ColumnValues::new_typed_f64(Arc::new(DecompressedBlock::from_bytes(buf)), start, 1, nulls)
}
fn typed_block_bool(v: Option<bool>) -> ColumnValues {
    let mut buf = Vec::new();
    let nulls = if v.is_none() { buf.extend_from_slice(&[1u8; 8]); Some((0usize, 1usize)) } else { None };
    let start = buf.len();
    buf.extend_from_slice(&[if v == Some(true) { 1u8 } else { 0u8 }; 8]);
    ColumnValues::new_typed_bool(Arc::new(DecompressedBlock::from_bytes(buf)), start, 1, nulls)
}
fn var_block(s: &str) -> ColumnValues {
    let b = s.as_bytes().to_vec();
    let n = b.len();
    ColumnValues::new(Arc::new(DecompressedBlock::from_bytes(b)), vec![(0, n)])
}

fn run_eval(t: &[String]) -> String {
    // schema
    let fields: Vec<(String, String, bool)> = t[1].split(',').map(|f| {
        let p: Vec<&str> = f.split(':').collect();
        (s_of(p[0]), p[1].to_string(), p[2] == "1")
    }).collect();
    // event
    let (ctx_h, vals) = t[2].split_once('/').unwrap();
    let ctx = s_of(ctx_h);
    let vals: Vec<&str> = vals.split(';').collect();
    let mut payload = Map::new();
    let mut cols: HashMap<String, ColumnValues> = HashMap::new();
    for ((name, kind, _opt), v) in fields.iter().zip(vals.iter()) {
        let (tag, rest) = v.split_at(1);
        // what STORE keeps in memory: the JSON value of the payload cell
        let jv: Option<Value> = match tag {
            "i" | "t" => Some(Value::Number(Number::from(rest.parse::<i64>().unwrap()))),
            "u" => Some(Value::Number(Number::from(rest.parse::<u64>().unwrap()))),
            "f" => Some(Value::Number(Number::from_f64(f64::from_bits(rest.split('~').next().unwrap().parse().unwrap())).unwrap())),
            "s" | "e" => Some(Value::String(s_of(rest))),
            "b" => Some(Value::Bool(rest == "1")),
            "n" => Some(Value::Null),
            _ => None,
        };
        // what the flush writes: the string form of the ScalarValue, parsed by the column's physical type
        let sv = jv.clone().map(ScalarValue::from);
        let text: String = match &sv {
            None | Some(ScalarValue::Null) => String::new(),
            Some(ScalarValue::Utf8(s)) => s.clone(),
            Some(ScalarValue::Int64(i)) => i.to_string(),
            Some(ScalarValue::Timestamp(i)) => i.to_string(),
            Some(ScalarValue::Float64(f)) => f.to_string(),
            Some(ScalarValue::Boolean(b)) => b.to_string(),
            Some(ScalarValue::Binary(_)) => String::new(),
        };
        let col = match kind.chars().next().unwrap() {
            'i' | 't' => typed_block_i64(text.parse::<i64>().ok()),
            'u' => typed_block_u64(text.parse::<u64>().ok()),
            'f' => typed_block_f64(text.parse::<f64>().ok()),
            'b' => typed_block_bool(if text.eq_ignore_ascii_case("true") { Some(true) } else if text.eq_ignore_ascii_case("false") { Some(false) } else { None }),
            _ => var_block(&text),
        };
        // a one-row zone whose only row lacks the field has no column block for it
        if jv.is_some() { cols.insert(name.clone(), col); }
        if let Some(j) = jv { payload.insert(name.clone(), j); }
    }
    cols.insert("context_id".to_string(), var_block(&ctx));
    cols.insert("event_type".to_string(), var_block("t"));
    cols.insert("timestamp".to_string(), typed_block_i64(Some(1)));
    let ev: Event = serde_json::from_value(json!({"event_type": "t", "context_id": ctx, "timestamp": 1, "payload": Value::Object(payload)})).expect("event");
    // query
    let q: Vec<&str> = t[3].split(',').collect();
    let mut text = String::from("QUERY t");
    if q[0] != "*" { text += &format!(" FOR \"{}\"", s_of(q[0])); }
    if q[1] != "W" { let mut pos = 1; text += " WHERE "; text += &expr_text(&q, &mut pos); }
    let cmd = match parse_command(&text) { Ok(c) => c, Err(_) => return "PARSE_ERROR".to_string() };
    let (wh, ctxq) = match &cmd { Command::Query { where_clause, context_id, .. } => (where_clause.clone(), context_id.clone()), _ => return "NOT_QUERY".to_string() };
    let build = || {
        let mut b = ConditionEvaluatorBuilder::new();
        if let Some(w) = &wh { b.add_where_clause(w); }
        // add_special_fields needs a QueryPlan; the context condition is added the same way it does
        let mut e = b.into_evaluator();
        if let Some(c) = &ctxq { e.add_string_condition("context_id".to_string(), snel_db::command::types::CompareOp::Eq.into(), c.clone()); }
        e
    };
    let mem = std::panic::catch_unwind(std::panic::AssertUnwindSafe(|| build().evaluate_event(&ev)));
    let seg = std::panic::catch_unwind(std::panic::AssertUnwindSafe(|| {
        let mut z = CandidateZone::new(0, "00000".to_string());
        z.set_values(cols.clone());
        build().evaluate_zones_with_limit(vec![z], None).len()
    }));
    let f = |r: Result<bool, _>| match r { Ok(true) => "1", Ok(false) => "0", Err(_) => "P" };
    format!("- - {} {}", f(mem), f(seg.map(|n| n > 0)))
}

pub fn run(t: &[String]) -> String {
    match t[0].as_str() {
        "cond_eval" => run_eval(t),
        "cond_zones" => {
            let base = PathBuf::from(s_of(&t[1]));
            let uid = &t[2];
            let mut out = Vec::new();
            for seg in t[3].split(',') {
                let dir = base.join(seg);
                let metas = match ZoneMeta::load(&dir.join(format!("{}.zones", uid))) { Ok(m) => m, Err(_) => { out.push(format!("{}:NOZONES", seg)); continue; } };
                let mut zs = Vec::new();
                for m in &metas {
                    let ks: Vec<String> = match ColumnReader::load_for_zone_snapshot(&dir, seg, uid, "k", m.zone_id, None) {
                        Ok(snap) => { let v = snap.into_values(); (0..v.len()).map(|i| v.get_i64_at(i).map(|x| x.to_string()).unwrap_or("?".into())).collect() }
                        Err(_) => vec!["ERR".to_string()],
                    };
                    zs.push(format!("{}={}", m.zone_id, ks.join(".")));
                }
                out.push(format!("{}:{}", seg, zs.join(";")));
            }
            out.join("|")
        }
        "cond_prune" => {
            let base = PathBuf::from(s_of(&t[1]));
            let (uid, seg, col) = (&t[2], &t[3], s_of(&t[4]));
            let op = op_in(&t[5]);
            let val = ScalarValue::from(lit_json(&t[6]));
            let args = PruneArgs { segment_id: seg, uid, column: &col, value: Some(&val), op: Some(&op) };
            let tp = TemporalPruner { artifacts: ZoneArtifacts::new(&base, None) };
            let ep = EnumPruner { artifacts: ZoneArtifacts::new(&base, None) };
            let rp = RangePruner { artifacts: ZoneArtifacts::new(&base, None) };
            let xp = XorPruner { artifacts: ZoneArtifacts::new(&base, None) };
            format!("T{};E{};R{};X{}", ans_out(tp.apply_temporal_only(&args)), ans_out(ep.apply(&args)),
                    ans_out(rp.apply_surf_only(&args)), ans_out(xp.apply_zone_index_only(&args)))
        }
        _ => "BAD_CASE".to_string(),
    }
}
