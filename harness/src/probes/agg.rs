// C09 probes: the real AggregateOp (ColumnConverter + AggregateSink + into_partial +
// PartialConverter) per flow, the real AggregateStreamMerger::parse_aggregate_row /
// AggState::merge / agg_state_to_scalar at the coordinator, and the real time bucketers.
//
// agg_run <metrics> <gran|-> <ngroups> <nfields> <flows>
//   metrics: comma list of c | f<k> | u<k> | t<k> | a<k> | m<k> | x<k>   (k = metric field index)
//   flows:   flow '/' flow ...; flow = 'e' | batch ';' batch ...; batch = row ',' row ...;
//            row = ts ':' g0 ':' .. ':' f0 ':' ..   (value tokens as in order.rs)
// agg_state <kind> <parts>: one metric over parts of cells of a single column (one flow per part,
//   one batch per part), printing the merged raw state.
// agg_bucket <gran> <week_start 0..6> <ts u64>
// agg_bseq <mode> <gran> <tz> <week_start 0..6> <ts,ts,...> <zone rows (model side only)>
//   a SEQUENCE of rows through the aggregate sink's own bucketing entry point (sink/aggregate/time_bucketing.rs
//   bucket_of, reached through GroupKey) in a process whose CONFIG [time] names <tz>/<week_start> (answers
//   "CFG <tz> <ws>" otherwise). modes r (row path: on_row, one key per row) and k (columnar path: prehash + key
//   per row) feed one AggregateSink row by row on ONE fresh thread, every row under catch_unwind, and print the
//   bucket of every row ("P" = that row panicked); modes o (BY g0 = row number) and n (no BY: count per bucket)
//   send the sequence as one batch through the real AggregateOp.
use crate::probes::hexs;
use crate::probes::order::parse_value;
pub const PREFIX: &str = "agg_";
use snel_db::command::handlers::query::merge::aggregate_stream::AggregateStreamMerger;
use snel_db::command::types::{AggSpec, Command, TimeGranularity};
use snel_db::engine::core::read::aggregate::partial::{AggState, GroupKey};
use snel_db::engine::core::read::aggregate::plan::{AggregateOpSpec, AggregatePlan};
use snel_db::engine::core::read::flow::operators::{aggregate_output_schema, AggregateOp, AggregateOpConfig};
use snel_db::engine::core::read::flow::{BatchPool, BatchSchema, FlowChannel, FlowContext, FlowMetrics, FlowOperator, FlowTelemetry};
use snel_db::engine::core::read::result::ColumnSpec;
use snel_db::engine::core::QueryPlan;
use snel_db::engine::schema::SchemaRegistry;
use snel_db::engine::types::ScalarValue;
use snel_db::shared::datetime::time::TimeConfig;
use snel_db::shared::datetime::time_bucketing::{naive_bucket_of, CalendarTimeBucketer};
use std::collections::HashMap;
use std::sync::Arc;

fn rt() -> &'static tokio::runtime::Runtime {
    static RT: std::sync::OnceLock<tokio::runtime::Runtime> = std::sync::OnceLock::new();
    RT.get_or_init(|| {
        // the sink's bucket_of reads the global CONFIG ([time]: UTC, Monday, calendar bucketing in config/test.toml)
        if std::env::var("SNELDB_CONFIG").is_err() {
            unsafe { std::env::set_var("SNELDB_CONFIG", "/repo/config/test.toml"); }
        }
        tokio::runtime::Builder::new_multi_thread().worker_threads(2).enable_all().build().unwrap()
    })
}

fn gran(s: &str) -> Option<TimeGranularity> {
    match s {
        "h" => Some(TimeGranularity::Hour),
        "d" => Some(TimeGranularity::Day),
        "w" => Some(TimeGranularity::Week),
        "m" => Some(TimeGranularity::Month),
        "y" => Some(TimeGranularity::Year),
        _ => None,
    }
}

fn specs(s: &str) -> Vec<AggSpec> {
    s.split(',').map(|m| {
        let (k, idx) = m.split_at(1);
        let field = format!("f{}", idx);
        match k {
            "c" => AggSpec::Count { unique_field: None },
            "f" => AggSpec::CountField { field },
            "u" => AggSpec::Count { unique_field: Some(field) },
            "t" => AggSpec::Total { field },
            "a" => AggSpec::Avg { field },
            "m" => AggSpec::Min { field },
            _ => AggSpec::Max { field },
        }
    }).collect()
}

type Flows = Vec<Vec<Vec<Vec<ScalarValue>>>>;

fn parse_flows(tok: &str) -> Result<Flows, String> {
    let mut flows = Vec::new();
    for f in tok.split('/') {
        let mut batches = Vec::new();
        if f != "e" {
            for b in f.split(';') {
                let mut rows = Vec::new();
                for r in b.split(',') {
                    let mut row = Vec::new();
                    for v in r.split(':') { row.push(parse_value(v)?); }
                    rows.push(row);
                }
                batches.push(rows);
            }
        }
        flows.push(batches);
    }
    Ok(flows)
}

fn state_str(s: &AggState) -> String {
    match s {
        AggState::CountAll { count } => format!("c{}", count),
        AggState::CountUnique { values } => {
            let mut v: Vec<String> = values.iter().map(|x| hexs(x.as_bytes())).collect();
            v.sort();
            format!("u{}[{}]", values.len(), v.join("+"))
        }
        AggState::Sum { sum } => format!("s{}", sum),
        AggState::Avg { sum, count } => format!("a{}/{}", sum, count),
        AggState::Min { min_num, min_str } | AggState::Max { max_num: min_num, max_str: min_str } => format!(
            "m{}:{}",
            min_num.map(|n| n.to_string()).unwrap_or("-".into()),
            min_str.as_ref().map(|s| format!("s{}", hexs(s.as_bytes()))).unwrap_or("-".into())
        ),
    }
}

fn final_str(state: &AggState, spec: &AggregateOpSpec) -> String {
    if let AggState::Avg { sum, count } = state { return format!("a{}/{}", sum, count); }
    if let AggState::CountUnique { .. } = state { return state_str(state); }
    match AggregateStreamMerger::agg_state_to_scalar(state, spec) {
        Ok(ScalarValue::Int64(i)) => format!("i{}", i),
        Ok(ScalarValue::Utf8(s)) => format!("s{}", hexs(s.as_bytes())),
        Ok(other) => format!("?{:?}", other),
        Err(_) => "ERR".into(),
    }
}

async fn run_pipeline(metrics: &str, g: Option<TimeGranularity>, ng: usize, nf: usize, flows: Flows, raw: bool) -> Result<String, String> {
    let out = run_pipeline_groups(metrics, g, ng, nf, flows, raw).await?;
    let parts: Vec<String> = out.iter().map(|(b, gs, ms)| format!("{};{};{}",
        b.map(|x| x.to_string()).unwrap_or("-".into()),
        gs.iter().map(|g| hexs(g)).collect::<Vec<_>>().join("."), ms)).collect();
    Ok(format!("G{} {}", parts.len(), parts.join(" ")))
}

async fn run_pipeline_groups(metrics: &str, g: Option<TimeGranularity>, ng: usize, nf: usize, flows: Flows, raw: bool) -> Result<Vec<(Option<u64>, Vec<Vec<u8>>, String)>, String> {
    let group_by: Option<Vec<String>> = if ng > 0 { Some((0..ng).map(|i| format!("g{}", i)).collect()) } else { None };
    let command = Command::Query {
        event_type: "evt".into(), context_id: None, since: None, time_field: None, sequence_time_field: None,
        where_clause: None, limit: None, offset: None, order_by: None, picked_zones: None, return_fields: None,
        link_field: None, aggs: Some(specs(metrics)), time_bucket: g.clone(), group_by: group_by.clone(), event_sequence: None,
    };
    let dir = tempfile::tempdir().map_err(|e| e.to_string())?;
    let registry = SchemaRegistry::new_with_path(dir.path().join("schemas.bin")).map_err(|e| format!("{:?}", e))?;
    let registry = Arc::new(tokio::sync::RwLock::new(registry));
    let seg_ids = Arc::new(std::sync::RwLock::new(Vec::<String>::new()));
    let plan = QueryPlan::new(command.clone(), &registry, dir.path(), &seg_ids, None).await.ok_or("NOPLAN")?;
    let agg_plan: AggregatePlan = plan.aggregate_plan.clone().ok_or("NOAGG")?;
    let plan = Arc::new(plan);

    let mut cols = vec![ColumnSpec { name: "timestamp".into(), logical_type: "Timestamp".into() }];
    for i in 0..ng { cols.push(ColumnSpec { name: format!("g{}", i), logical_type: "String".into() }); }
    for i in 0..nf { cols.push(ColumnSpec { name: format!("f{}", i), logical_type: "String".into() }); }
    let in_schema = Arc::new(BatchSchema::new(cols).map_err(|e| e.to_string())?);
    let out_cols = aggregate_output_schema(&agg_plan);
    let out_names: Vec<String> = out_cols.iter().map(|c| c.name.clone()).collect();

    let mut merged: HashMap<GroupKey, Vec<AggState>> = HashMap::new();
    for batches in flows {
        let metrics_h = FlowMetrics::new();
        let cap = batches.iter().map(|b| b.len()).max().unwrap_or(1).max(1);
        let pool = BatchPool::new(cap).map_err(|e| e.to_string())?;
        let ctx = Arc::new(FlowContext::new(cap, pool, Arc::clone(&metrics_h), None::<&str>, FlowTelemetry::default()));
        let (tx, rx) = FlowChannel::bounded(batches.len().max(1) + 1, Arc::clone(&metrics_h));
        let (out_tx, mut out_rx) = FlowChannel::bounded(1024, Arc::clone(&metrics_h));
        for rows in batches {
            let mut b = ctx.pool().acquire(Arc::clone(&in_schema));
            for r in rows { b.push_row(&r).map_err(|e| e.to_string())?; }
            tx.send(Arc::new(b.finish().map_err(|e| e.to_string())?)).await.map_err(|_| "SEND")?;
        }
        drop(tx);
        let op = AggregateOp::new(AggregateOpConfig { plan: Arc::clone(&plan), aggregate: agg_plan.clone() });
        let h = tokio::spawn(async move { op.run(rx, out_tx, ctx).await });
        let mut out_batches = Vec::new();
        while let Some(b) = out_rx.recv().await { out_batches.push(b); }
        h.await.map_err(|e| e.to_string())?.map_err(|e| format!("OPERR {:?}", e))?;
        // coordinator glue (merge_batch_into_groups is pub(crate)): parse every partial row, merge by key
        for b in out_batches {
            let colv: Vec<Vec<ScalarValue>> = (0..out_names.len()).map(|i| b.column(i).unwrap()).collect();
            let views: Vec<&[ScalarValue]> = colv.iter().map(|v| v.as_slice()).collect();
            for row in 0..b.len() {
                let (key, states) = AggregateStreamMerger::parse_aggregate_row(&views, &out_names, row, &agg_plan)?;
                match merged.entry(key) {
                    std::collections::hash_map::Entry::Vacant(e) => { e.insert(states); }
                    std::collections::hash_map::Entry::Occupied(mut e) => {
                        let cur = e.get_mut();
                        if cur.len() == states.len() { for (a, b) in cur.iter_mut().zip(states.iter()) { a.merge(b); } }
                    }
                }
            }
        }
    }
    // emit_merged_groups' filter: groups with an empty group value are dropped when BY is present
    if agg_plan.group_by.is_some() {
        merged.retain(|k, _| !k.groups.is_empty() && !k.groups.iter().any(|g| g.is_empty()));
    }
    let mut out: Vec<(Option<u64>, Vec<Vec<u8>>, String)> = merged.iter().map(|(k, st)| {
        let ms: Vec<String> = st.iter().zip(agg_plan.ops.iter()).map(|(s, sp)| if raw { state_str(s) } else { final_str(s, sp) }).collect();
        (k.bucket, k.groups.iter().map(|g| g.as_bytes().to_vec()).collect(), ms.join(","))
    }).collect();
    out.sort();
    Ok(out)
}

fn i64_column(vals: &[i64]) -> snel_db::engine::core::column::column_values::ColumnValues {
    let mut bytes = Vec::with_capacity(vals.len() * 8);
    for v in vals { bytes.extend_from_slice(&v.to_le_bytes()); }
    snel_db::engine::core::column::column_values::ColumnValues::new_typed_i64(
        Arc::new(snel_db::engine::core::read::cache::DecompressedBlock::from_bytes(bytes)), 0, vals.len(), None)
}

/// modes r / k of agg_bseq: one sink, one fresh thread, the rows one after the other.
fn bseq_rows(columnar: bool, g: TimeGranularity, tss: Vec<i64>) -> String {
    use snel_db::engine::core::read::sink::AggregateSink;
    let h = std::thread::spawn(move || {
        let n = tss.len();
        // CountAll alone is aggregated by the columnar processor (prehash, then key for a new prehash);
        // a MIN metric sends every row through on_row (one key per row)
        let ops = if columnar { vec![AggregateOpSpec::CountAll] } else { vec![AggregateOpSpec::CountAll, AggregateOpSpec::Min { field: "g0".into() }] };
        let plan = AggregatePlan { ops, group_by: Some(vec!["g0".to_string()]), time_bucket: Some(g) };
        let mut sink = AggregateSink::from_plan(&plan);
        sink.initialize_column_indices(&["timestamp".to_string(), "g0".to_string()]);
        let mut cols = HashMap::new();
        cols.insert("timestamp".to_string(), i64_column(&tss));
        cols.insert("g0".to_string(), i64_column(&(0..n as i64).collect::<Vec<_>>()));
        let mut panicked = vec![false; n];
        for i in 0..n {
            let r = std::panic::catch_unwind(std::panic::AssertUnwindSafe(|| sink.on_column_slice(i, i + 1, &cols)));
            panicked[i] = r.is_err();
        }
        let mut per_row: Vec<Option<u64>> = vec![None; n];
        let partial = sink.into_partial();
        for (k, _) in partial.groups.iter() {
            let idx = k.groups.get(0).and_then(|g| String::from_utf8_lossy(g.as_bytes()).parse::<usize>().ok());
            if let (Some(i), Some(b)) = (idx, k.bucket) { if i < n { per_row[i] = Some(b); } }
        }
        let parts: Vec<String> = (0..n).map(|i| if panicked[i] { "P".to_string() } else { per_row[i].map(|b| b.to_string()).unwrap_or("?".into()) }).collect();
        format!("Q {}", parts.join(","))
    });
    h.join().unwrap_or_else(|_| "PANIC".into())
}

pub fn run(t: &[String]) -> String {
    match t[0].as_str() {
        "agg_run" | "agg_raw" => {
            let g = gran(&t[2]);
            let ng: usize = t[3].parse().unwrap();
            let nf: usize = t[4].parse().unwrap();
            let flows = match parse_flows(&t[5]) { Ok(f) => f, Err(e) => return e };
            let raw = t[0] == "agg_raw";
            match rt().block_on(run_pipeline(&t[1], g, ng, nf, flows, raw)) { Ok(s) => s, Err(e) => format!("ERR {}", e.replace(' ', "_")) }
        }
        "agg_bucket" => {
            let g = match gran(&t[1]) { Some(g) => g, None => return "BADGRAN".into() };
            let ws = match t[2].as_str() {
                "0" => chrono::Weekday::Mon, "1" => chrono::Weekday::Tue, "2" => chrono::Weekday::Wed, "3" => chrono::Weekday::Thu,
                "4" => chrono::Weekday::Fri, "5" => chrono::Weekday::Sat, _ => chrono::Weekday::Sun,
            };
            let ts: u64 = t[3].parse().unwrap();
            let cal = CalendarTimeBucketer::new(TimeConfig { timezone: None, week_start: ws, use_calendar_bucketing: true });
            let utc = CalendarTimeBucketer::new(TimeConfig { timezone: Some("UTC".into()), week_start: ws, use_calendar_bucketing: true });
            let a = cal.bucket_of(ts, &g);
            let b = utc.bucket_of(ts, &g);
            format!("C {} U {} N {}", a, b, naive_bucket_of(ts, &g))
        }
        "agg_bseq" => {
            let g = match gran(&t[2]) { Some(g) => g, None => return "BADGRAN".into() };
            let _ = rt();   // SNELDB_CONFIG default
            let cfg = TimeConfig::from_app_config();
            let ws = cfg.week_start.num_days_from_monday().to_string();
            let tz = cfg.timezone.clone().unwrap_or("-".into());
            if tz != t[3] || ws != t[4] || !cfg.use_calendar_bucketing { return format!("CFG {} {}", tz, ws); }
            let tss: Vec<i64> = t[5].split(',').map(|x| x.parse().unwrap()).collect();
            match t[1].as_str() {
                "r" => bseq_rows(false, g, tss),
                "k" => bseq_rows(true, g, tss),
                m => {
                    let by = m == "o";
                    let rows: Vec<Vec<ScalarValue>> = tss.iter().enumerate().map(|(i, ts)| {
                        let mut r = vec![ScalarValue::Int64(*ts)];
                        if by { r.push(ScalarValue::Utf8(i.to_string())); }
                        r
                    }).collect();
                    let n = rows.len();
                    match rt().block_on(run_pipeline_groups("c", Some(g), if by { 1 } else { 0 }, 0, vec![vec![rows]], false)) {
                        Err(_) => "ERR".into(),
                        Ok(groups) => {
                            if by {
                                let mut per_row: Vec<Option<u64>> = vec![None; n];
                                for (b, gs, _) in groups.iter() {
                                    if let Some(i) = gs.get(0).and_then(|x| String::from_utf8_lossy(x).parse::<usize>().ok()) { if i < n { per_row[i] = *b; } }
                                }
                                format!("Q {}", per_row.iter().map(|b| b.map(|x| x.to_string()).unwrap_or("?".into())).collect::<Vec<_>>().join(","))
                            } else {
                                format!("QC {}", groups.iter().map(|(b, _, ms)| format!("{}:{}", b.map(|x| x.to_string()).unwrap_or("-".into()), ms.trim_start_matches('i'))).collect::<Vec<_>>().join(","))
                            }
                        }
                    }
                }
            }
        }
        // agg_buckettz <gran> <week_start> <ts> <tz name> <offset secs (model side only)>
        "agg_buckettz" => {
            let g = match gran(&t[1]) { Some(g) => g, None => return "BADGRAN".into() };
            let ws = match t[2].as_str() {
                "0" => chrono::Weekday::Mon, "1" => chrono::Weekday::Tue, "2" => chrono::Weekday::Wed, "3" => chrono::Weekday::Thu,
                "4" => chrono::Weekday::Fri, "5" => chrono::Weekday::Sat, _ => chrono::Weekday::Sun,
            };
            let ts: u64 = t[3].parse().unwrap();
            let cal = CalendarTimeBucketer::new(TimeConfig { timezone: Some(t[4].clone()), week_start: ws, use_calendar_bucketing: true });
            format!("B {}", cal.bucket_of(ts, &g))
        }
        _ => "UNKNOWN_PROBE".into(),
    }
}
